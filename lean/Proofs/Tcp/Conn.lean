import AiocoapModel.Tcp.Conn
import Proofs.Tcp.Frame
/-!
Helper lemmas about the connection model: fuel adequacy of the drain loop, its unfolding
equation, stability of one loop iteration under appending more data (the key to chunking
independence), the `closed` flag as "a close was output", and `uptoClose` algebra.
-/
set_option linter.unusedSimpArgs false
namespace Aiocoap.Tcp

/-- more data arrives: `_spool += data` -/
def Conn.app (c : Conn) (t : Bytes) : Conn := { c with spool := c.spool ++ t }

def Step.app : Step → Bytes → Step
  | .wait, _ => .wait
  | .stop c o, t => .stop (c.app t) o
  | .next c o, t => .next (c.app t) o

@[simp] theorem Conn.app_spool (c : Conn) (t : Bytes) : (c.app t).spool = c.spool ++ t := rfl
@[simp] theorem Conn.app_closed (c : Conn) (t : Bytes) : (c.app t).closed = c.closed := rfl
@[simp] theorem Conn.app_csm (c : Conn) (t : Bytes) : (c.app t).csm = c.csm := rfl
@[simp] theorem Conn.app_maxSize (c : Conn) (t : Bytes) : (c.app t).maxSize = c.maxSize := rfl
@[simp] theorem Conn.note_spool (c : Conn) (o : List Out) : (c.note o).spool = c.spool := rfl
@[simp] theorem Conn.note_csm (c : Conn) (o : List Out) : (c.note o).csm = c.csm := rfl
@[simp] theorem Conn.note_maxSize (c : Conn) (o : List Out) : (c.note o).maxSize = c.maxSize := rfl
@[simp] theorem Conn.note_closed (c : Conn) (o : List Out) :
    (c.note o).closed = (c.closed || o.any Out.isClose) := rfl
theorem Conn.note_app (c : Conn) (o : List Out) (t : Bytes) :
    (c.note o).app t = (c.app t).note o := rfl
@[simp] theorem Conn.consume_spool (c : Conn) (n : Nat) : (c.consume n).spool = c.spool.drop n := rfl
@[simp] theorem Conn.consume_closed (c : Conn) (n : Nat) : (c.consume n).closed = c.closed := rfl
@[simp] theorem Conn.consume_csm (c : Conn) (n : Nat) : (c.consume n).csm = c.csm := rfl
@[simp] theorem Conn.consume_maxSize (c : Conn) (n : Nat) : (c.consume n).maxSize = c.maxSize := rfl
theorem Conn.consume_app (c : Conn) (t : Bytes) {n : Nat} (h : n ≤ c.spool.length) :
    (c.app t).consume n = (c.consume n).app t := by
  simp [Conn.consume, Conn.app, List.drop_append_of_le_length h]
theorem Conn.app_nil (c : Conn) : c.app [] = c := by
  cases c; simp [Conn.app]
theorem Conn.app_app (c : Conn) (s t : Bytes) : (c.app s).app t = c.app (s ++ t) := by
  cases c; simp [Conn.app]

-- ---------------------------------------------------------------------------------------------
-- signalling does not look at the spool

theorem Conn.note_nil (c : Conn) : c.note [] = c := by cases c; simp [Conn.note]

theorem ps_csm_ok {c : Conn} {m : Msg} {s : Settings} (h : m.code = codeCSM)
    (hc : csmOpts (c.csm.getD {}) m.opts = (s, none)) :
    processSignaling c m = ({ c with csm := some s }, []) := by
  unfold processSignaling
  rw [if_pos h, hc]

theorem ps_csm_bad {c : Conn} {m : Msg} {s : Settings} {n : Nat} (h : m.code = codeCSM)
    (hc : csmOpts (c.csm.getD {}) m.opts = (s, some n)) :
    processSignaling c m = (c.note (abortOuts txtOptNotSupported (some n)),
      abortOuts txtOptNotSupported (some n)) := by
  unfold processSignaling
  rw [if_pos h, hc]

/-- Ping, Pong, Release or Abort -/
abbrev Msg.isOther (m : Msg) : Prop :=
  m.code = codePing ∨ m.code = codePong ∨ m.code = codeRelease ∨ m.code = codeAbort

theorem Msg.isOther_ne_csm {m : Msg} (h : m.isOther) : m.code ≠ codeCSM := by
  rcases h with h | h | h | h <;> rw [h] <;> decide

theorem ps_crit {c : Conn} {m : Msg} (h : m.isOther) (hcrit : hasCritical m.opts = true) :
    processSignaling c m = (c.note (abortOuts txtUnknownCritical none),
      abortOuts txtUnknownCritical none) := by
  have h1 := Msg.isOther_ne_csm h
  unfold processSignaling
  rw [if_neg h1, if_pos h, if_pos hcrit]

theorem ps_ping {c : Conn} {m : Msg} (h : m.code = codePing) (hcrit : hasCritical m.opts = false) :
    processSignaling c m =
      (c.note (sendMessage { code := codePong, token := m.token, opts := [], payload := [] }),
       sendMessage { code := codePong, token := m.token, opts := [], payload := [] }) := by
  have ho : m.isOther := Or.inl h
  unfold processSignaling
  rw [if_neg (Msg.isOther_ne_csm ho), if_pos ho, if_neg (by simp [hcrit]), if_pos h]

theorem ps_pong {c : Conn} {m : Msg} (h : m.code = codePong) (hcrit : hasCritical m.opts = false) :
    processSignaling c m = (c, []) := by
  have ho : m.isOther := Or.inr (Or.inl h)
  unfold processSignaling
  rw [if_neg (Msg.isOther_ne_csm ho), if_pos ho, if_neg (by simp [hcrit]),
    if_neg (by rw [h]; decide), if_pos h]

theorem ps_release {c : Conn} {m : Msg} (h : m.code = codeRelease)
    (hcrit : hasCritical m.opts = false) :
    processSignaling c m = (c.note [.failPending .released, .close],
      [.failPending .released, .close]) := by
  have ho : m.isOther := Or.inr (Or.inr (Or.inl h))
  unfold processSignaling
  rw [if_neg (Msg.isOther_ne_csm ho), if_pos ho, if_neg (by simp [hcrit]),
    if_neg (by rw [h]; decide), if_neg (by rw [h]; decide), if_pos h]

theorem ps_abort {c : Conn} {m : Msg} (h : m.code = codeAbort)
    (hcrit : hasCritical m.opts = false) :
    processSignaling c m = (c.note [.failPending .aborted, .close],
      [.failPending .aborted, .close]) := by
  have ho : m.isOther := Or.inr (Or.inr (Or.inr h))
  unfold processSignaling
  rw [if_neg (Msg.isOther_ne_csm ho), if_pos ho, if_neg (by simp [hcrit]),
    if_neg (by rw [h]; decide), if_neg (by rw [h]; decide), if_neg (by rw [h]; decide)]

theorem ps_unknown {c : Conn} {m : Msg} (h1 : m.code ≠ codeCSM) (h2 : ¬ m.isOther) :
    processSignaling c m = (c.note (abortOuts txtUnknownSignalling none),
      abortOuts txtUnknownSignalling none) := by
  unfold processSignaling
  rw [if_neg h1, if_neg h2]

/-- what signalling processing can output, and when -/
inductive SigOuts (c : Conn) (m : Msg) : List Out → Prop
  | csmBad (s : Settings) (n : Nat) : m.code = codeCSM →
      csmOpts (c.csm.getD {}) m.opts = (s, some n) →
      SigOuts c m (abortOuts txtOptNotSupported (some n))
  | crit : m.isOther → hasCritical m.opts = true → SigOuts c m (abortOuts txtUnknownCritical none)
  | unknown : m.code ≠ codeCSM → ¬ m.isOther → SigOuts c m (abortOuts txtUnknownSignalling none)
  | pong : m.code = codePing → hasCritical m.opts = false →
      SigOuts c m (sendMessage { code := codePong, token := m.token, opts := [], payload := [] })
  | none : m.code = codePong → hasCritical m.opts = false → SigOuts c m []
  | release : m.code = codeRelease → hasCritical m.opts = false →
      SigOuts c m [.failPending .released, .close]
  | abort : m.code = codeAbort → hasCritical m.opts = false →
      SigOuts c m [.failPending .aborted, .close]

/-- the shape of what signalling processing returns: the CSM was accepted (settings updated,
nothing output), or the connection is as before except for the `closed` flag that follows the
outputs -/
theorem processSignaling_cases (c : Conn) (m : Msg) :
    (∃ s, m.code = codeCSM ∧ csmOpts (c.csm.getD {}) m.opts = (s, none) ∧
      processSignaling c m = ({ c with csm := some s }, [])) ∨
    (∃ outs, processSignaling c m = (c.note outs, outs) ∧ SigOuts c m outs) := by
  by_cases h1 : m.code = codeCSM
  · rcases hc : csmOpts (c.csm.getD {}) m.opts with ⟨s, _ | n⟩
    · left; exact ⟨s, h1, rfl, ps_csm_ok h1 hc⟩
    · right; exact ⟨_, ps_csm_bad h1 hc, .csmBad s n h1 hc⟩
  · right
    by_cases h2 : m.isOther
    · cases hcrit : hasCritical m.opts with
      | true => exact ⟨_, ps_crit h2 hcrit, .crit h2 hcrit⟩
      | false =>
        rcases h2 with h | h | h | h
        · exact ⟨_, ps_ping h hcrit, .pong h hcrit⟩
        · exact ⟨[], by rw [ps_pong h hcrit, Conn.note_nil], .none h hcrit⟩
        · exact ⟨_, ps_release h hcrit, .release h hcrit⟩
        · exact ⟨_, ps_abort h hcrit, .abort h hcrit⟩
    · exact ⟨_, ps_unknown h1 h2, .unknown h1 h2⟩

theorem processSignaling_app (c : Conn) (m : Msg) (t : Bytes) :
    processSignaling (c.app t) m = ((processSignaling c m).1.app t, (processSignaling c m).2) := by
  unfold processSignaling
  simp only [Conn.app_csm]
  split
  · split <;> rfl
  · split
    · split
      · rfl
      · split
        · rfl
        · split
          · rfl
          · split <;> rfl
    · rfl

theorem processSignaling_spool (c : Conn) (m : Msg) : (processSignaling c m).1.spool = c.spool := by
  rcases processSignaling_cases c m with ⟨s, _, _, h⟩ | ⟨outs, h, _⟩ <;> rw [h]
  rfl

theorem processSignaling_maxSize (c : Conn) (m : Msg) :
    (processSignaling c m).1.maxSize = c.maxSize := by
  rcases processSignaling_cases c m with ⟨s, _, _, h⟩ | ⟨outs, h, _⟩ <;> rw [h]
  rfl

theorem processSignaling_closed (c : Conn) (m : Msg) :
    (processSignaling c m).1.closed = (c.closed || (processSignaling c m).2.any Out.isClose) := by
  rcases processSignaling_cases c m with ⟨s, _, _, h⟩ | ⟨outs, h, _⟩ <;> rw [h]
  · simp
  · rfl

-- ---------------------------------------------------------------------------------------------
-- one loop iteration

theorem abortOuts_any_close (text : Bytes) (bad : Option Nat) :
    (abortOuts text bad).any Out.isClose = true := by
  simp [abortOuts, Out.isClose]

theorem dispatchIncoming_no_close (m : Msg) : (dispatchIncoming m).any Out.isClose = false := by
  unfold dispatchIncoming
  split <;> rfl

theorem deliver_no_close (m : Msg) : (deliver m).any Out.isClose = false := by
  unfold deliver
  split
  · rfl
  · exact dispatchIncoming_no_close m

theorem deliver_empty {m : Msg} (h : m.code = 0) : deliver m = [] := by
  unfold deliver; rw [if_pos h]

theorem deliver_nonempty {m : Msg} (h : m.code ≠ 0) : deliver m = dispatchIncoming m := by
  unfold deliver; rw [if_neg h]

/-- the cases of one loop iteration, with everything named -/
theorem step_cases (c : Conn) :
    (step c = .wait ∧ (extractSize c.spool = none ∨
        ∃ to tkl len, extractSize c.spool = some (to, tkl, len) ∧ to + tkl + len ≤ c.maxSize ∧
          c.spool.length < to + tkl + len)) ∨
    (∃ to tkl len, extractSize c.spool = some (to, tkl, len) ∧ c.maxSize < to + tkl + len ∧
        step c = .stop (c.note (abortOuts txtOverlyLarge none)) (abortOuts txtOverlyLarge none)) ∨
    (∃ to tkl len, extractSize c.spool = some (to, tkl, len) ∧ to + tkl + len ≤ c.maxSize ∧
        to + tkl + len ≤ c.spool.length ∧
        decodeMessage (c.spool.take (to + tkl + len)) = none ∧
        step c = .stop (c.note (abortOuts txtFailedParse none)) (abortOuts txtFailedParse none)) ∨
    (∃ to tkl len m, extractSize c.spool = some (to, tkl, len) ∧ to + tkl + len ≤ c.maxSize ∧
        to + tkl + len ≤ c.spool.length ∧
        decodeMessage (c.spool.take (to + tkl + len)) = some m ∧
        ((224 ≤ m.code ∧ (processSignaling (c.consume (to + tkl + len)) m).1.closed = true ∧
            step c =
            .stop (processSignaling (c.consume (to + tkl + len)) m).1
                  (processSignaling (c.consume (to + tkl + len)) m).2) ∨
         (224 ≤ m.code ∧ (processSignaling (c.consume (to + tkl + len)) m).1.closed = false ∧
            step c =
            .next (processSignaling (c.consume (to + tkl + len)) m).1
                  (processSignaling (c.consume (to + tkl + len)) m).2) ∨
         (m.code < 224 ∧ (m.code ≠ 0 ∧ c.csm = none) ∧ step c =
            .stop ((c.consume (to + tkl + len)).note
                    (abortOuts txtNoCsm none)) (abortOuts txtNoCsm none)) ∨
         (m.code < 224 ∧ (m.code = 0 ∨ c.csm ≠ none) ∧ step c =
            .next (c.consume (to + tkl + len)) (deliver m)))) := by
  unfold step
  cases hx : extractSize c.spool with
  | none => left; exact ⟨rfl, Or.inl rfl⟩
  | some x =>
    obtain ⟨to, tkl, len⟩ := x
    simp only
    by_cases h1 : to + tkl + len > c.maxSize
    · right; left
      exact ⟨to, tkl, len, rfl, h1, by simp [h1]⟩
    · by_cases h2 : to + tkl + len > c.spool.length
      · left
        exact ⟨by simp [h1, h2], Or.inr ⟨to, tkl, len, rfl, by omega, h2⟩⟩
      · cases hd : decodeMessage (c.spool.take (to + tkl + len)) with
        | none =>
          right; right; left
          exact ⟨to, tkl, len, rfl, by omega, by omega, hd, by simp [h1, h2, hd]⟩
        | some m =>
          right; right; right
          refine ⟨to, tkl, len, m, rfl, by omega, by omega, hd, ?_⟩
          by_cases h3 : m.code ≥ 224
          · cases hcl : (processSignaling (c.consume (to + tkl + len)) m).1.closed with
            | true => left; exact ⟨h3, rfl, by simp [h1, h2, hd, h3, hcl]⟩
            | false => right; left; exact ⟨h3, rfl, by simp [h1, h2, hd, h3, hcl]⟩
          · by_cases h0 : m.code = 0
            · right; right; right
              exact ⟨by omega, Or.inl h0, by simp [h1, h2, hd, h3, h0, deliver]⟩
            · by_cases h4 : c.csm = none
              · right; right; left
                exact ⟨by omega, ⟨h0, h4⟩, by simp [h1, h2, hd, h3, h0, h4]⟩
              · right; right; right
                refine ⟨by omega, Or.inr h4, ?_⟩
                have : c.csm.isNone = false := by
                  cases hc : c.csm with
                  | none => exact absurd hc h4
                  | some _ => rfl
                simp [h1, h2, hd, h3, h0, this, deliver]

/-- an iteration that did something does exactly the same when more data is already there:
the header is readable from the same bytes and the frame is cut at the same place -/
theorem step_app (c : Conn) (t : Bytes) (h : step c ≠ .wait) :
    step (c.app t) = (step c).app t := by
  rcases step_cases c with ⟨hw, _⟩ | ⟨to, tkl, len, hx, h1, hs⟩ | ⟨to, tkl, len, hx, h1, h2, hd, hs⟩ |
    ⟨to, tkl, len, m, hx, h1, h2, hd, hcase⟩
  · exact absurd hw h
  · rw [hs]
    have hx' := extractSize_append t hx
    unfold step
    simp only [Conn.app_spool, hx', Conn.app_maxSize]
    have : to + tkl + len > c.maxSize := h1
    simp [this, Step.app, Conn.note_app]
  · rw [hs]
    have hx' := extractSize_append t hx
    unfold step
    simp only [Conn.app_spool, hx', Conn.app_maxSize]
    have a : ¬ to + tkl + len > c.maxSize := by omega
    have b : ¬ to + tkl + len > (c.spool ++ t).length := by simp; omega
    simp only [a, b, ↓reduceIte, List.take_append_of_le_length h2, hd, Step.app, Conn.note_app]
  · have hx' := extractSize_append t hx
    have a : ¬ to + tkl + len > c.maxSize := by omega
    have b : ¬ to + tkl + len > (c.spool ++ t).length := by simp; omega
    have hc1 := Conn.consume_app c t h2
    rcases hcase with ⟨h3, hcl, hs⟩ | ⟨h3, hcl, hs⟩ | ⟨h3, h4, hs⟩ | ⟨h3, h4, hs⟩
    · rw [hs]
      unfold step
      simp only [Conn.app_spool, hx', Conn.app_maxSize, a, b, ↓reduceIte,
        List.take_append_of_le_length h2, hd]
      have : m.code ≥ 224 := h3
      simp only [this, ↓reduceIte, hc1, processSignaling_app, Conn.app_closed, hcl, Step.app]
    · rw [hs]
      unfold step
      simp only [Conn.app_spool, hx', Conn.app_maxSize, a, b, ↓reduceIte,
        List.take_append_of_le_length h2, hd]
      have : m.code ≥ 224 := h3
      simp only [this, ↓reduceIte, hc1, processSignaling_app, Conn.app_closed, hcl,
        Bool.false_eq_true, Step.app]
    · rw [hs]
      unfold step
      simp only [Conn.app_spool, hx', Conn.app_maxSize, a, b, ↓reduceIte,
        List.take_append_of_le_length h2, hd]
      have : ¬ m.code ≥ 224 := by omega
      simp only [this, ↓reduceIte, hc1, Conn.app_csm, Conn.consume_csm, h4.1, h4.2,
        Option.isNone_none, Step.app, Conn.note_app]
    · rw [hs]
      unfold step
      simp only [Conn.app_spool, hx', Conn.app_maxSize, a, b, ↓reduceIte,
        List.take_append_of_le_length h2, hd]
      have : ¬ m.code ≥ 224 := by omega
      by_cases h0 : m.code = 0
      · simp only [this, ↓reduceIte, hc1, h0, deliver, Step.app]
        simp
      · have hne : c.csm ≠ none := by
          rcases h4 with h4 | h4
          · exact absurd h4 h0
          · exact h4
        have hn : c.csm.isNone = false := by
          cases hc : c.csm with
          | none => exact absurd hc hne
          | some _ => rfl
        simp only [this, ↓reduceIte, hc1, Conn.app_csm, Conn.consume_csm, hn, Bool.false_eq_true,
          h0, deliver, Step.app]

/-- a continuing iteration takes a whole frame (at least two bytes) off the spool and keeps the
configuration -/
theorem step_next_lt {c c' : Conn} {o : List Out} (h : step c = .next c' o) :
    c'.spool.length + 2 ≤ c.spool.length ∧ c'.maxSize = c.maxSize := by
  rcases step_cases c with ⟨hw, _⟩ | ⟨to, tkl, len, hx, h1, hs⟩ | ⟨to, tkl, len, hx, h1, h2, hd, hs⟩ |
    ⟨to, tkl, len, m, hx, h1, h2, hd, hcase⟩
  · rw [hw] at h; cases h
  · rw [hs] at h; cases h
  · rw [hs] at h; cases h
  · have hto := (extractSize_bounds hx).1
    rcases hcase with ⟨h3, _, hs⟩ | ⟨h3, _, hs⟩ | ⟨h3, h4, hs⟩ | ⟨h3, h4, hs⟩
    · rw [hs] at h; cases h
    · rw [hs] at h
      simp only [Step.next.injEq] at h
      rw [← h.1, processSignaling_spool, processSignaling_maxSize]
      simp only [Conn.consume_spool, Conn.consume_maxSize, List.length_drop]
      exact ⟨by omega, trivial⟩
    · rw [hs] at h; cases h
    · rw [hs] at h
      simp only [Step.next.injEq] at h
      rw [← h.1]
      simp only [Conn.consume_spool, Conn.consume_maxSize, List.length_drop]
      exact ⟨by omega, trivial⟩

/-- `closed` records exactly whether a close has been output; a returning iteration leaves the
transport closing -/
theorem step_closed (c : Conn) :
    (∀ c' o, step c = .next c' o → c'.closed = (c.closed || o.any Out.isClose)) ∧
    (∀ c' o, step c = .stop c' o → c'.closed = true ∧
      c'.closed = (c.closed || o.any Out.isClose)) := by
  rcases step_cases c with ⟨hw, _⟩ | ⟨to, tkl, len, hx, h1, hs⟩ | ⟨to, tkl, len, hx, h1, h2, hd, hs⟩ |
    ⟨to, tkl, len, m, hx, h1, h2, hd, hcase⟩
  · rw [hw]; exact ⟨(fun _ _ h => by cases h), (fun _ _ h => by cases h)⟩
  · rw [hs]
    refine ⟨(fun _ _ h => by cases h), fun c' o h => ?_⟩
    simp only [Step.stop.injEq] at h
    rw [← h.1, ← h.2]
    simp [abortOuts_any_close]
  · rw [hs]
    refine ⟨(fun _ _ h => by cases h), fun c' o h => ?_⟩
    simp only [Step.stop.injEq] at h
    rw [← h.1, ← h.2]
    simp [abortOuts_any_close]
  · rcases hcase with ⟨h3, hcl, hs⟩ | ⟨h3, hcl, hs⟩ | ⟨h3, h4, hs⟩ | ⟨h3, h4, hs⟩
    · rw [hs]
      refine ⟨(fun _ _ h => by cases h), fun c' o h => ?_⟩
      simp only [Step.stop.injEq] at h
      rw [← h.1, ← h.2]
      exact ⟨hcl, by rw [processSignaling_closed]; rfl⟩
    · rw [hs]
      refine ⟨fun c' o h => ?_, (fun _ _ h => by cases h)⟩
      simp only [Step.next.injEq] at h
      rw [← h.1, ← h.2, processSignaling_closed]; rfl
    · rw [hs]
      refine ⟨(fun _ _ h => by cases h), fun c' o h => ?_⟩
      simp only [Step.stop.injEq] at h
      rw [← h.1, ← h.2]
      simp [abortOuts_any_close]
    · rw [hs]
      refine ⟨fun c' o h => ?_, (fun _ _ h => by cases h)⟩
      simp only [Step.next.injEq] at h
      rw [← h.1, ← h.2, deliver_no_close]
      simp

theorem step_stop_maxSize {c c' : Conn} {o : List Out} (h : step c = .stop c' o) :
    c'.maxSize = c.maxSize := by
  rcases step_cases c with ⟨hw, _⟩ | ⟨_, _, _, _, _, hs2⟩ | ⟨_, _, _, _, _, _, _, hs2⟩ |
    ⟨_, _, _, _, _, _, _, _, ⟨_, _, hs2⟩ | ⟨_, _, hs2⟩ | ⟨_, _, hs2⟩ | ⟨_, _, hs2⟩⟩
  · rw [hw] at h; cases h
  · rw [hs2] at h; simp only [Step.stop.injEq] at h; rw [← h.1]; rfl
  · rw [hs2] at h; simp only [Step.stop.injEq] at h; rw [← h.1]; rfl
  · rw [hs2] at h; simp only [Step.stop.injEq] at h; rw [← h.1, processSignaling_maxSize]; rfl
  · rw [hs2] at h; cases h
  · rw [hs2] at h; simp only [Step.stop.injEq] at h; rw [← h.1]; rfl
  · rw [hs2] at h; cases h

/-- **The loop goes on only while the transport is open.**  A continuing iteration outputs no
close and leaves `closed` as it was. -/
theorem step_next_open {c c' : Conn} {o : List Out} (h : step c = .next c' o) :
    c'.closed = c.closed ∧ o.any Out.isClose = false := by
  rcases step_cases c with ⟨hw, _⟩ | ⟨_, _, _, _, _, hs⟩ | ⟨_, _, _, _, _, _, _, hs⟩ |
    ⟨to, tkl, len, m, _, _, _, _, ⟨_, _, hs⟩ | ⟨_, hcl, hs⟩ | ⟨_, _, hs⟩ | ⟨_, _, hs⟩⟩
  · rw [hw] at h; cases h
  · rw [hs] at h; cases h
  · rw [hs] at h; cases h
  · rw [hs] at h; cases h
  · rw [hs] at h
    simp only [Step.next.injEq] at h
    rw [← h.1, ← h.2]
    have := processSignaling_closed (c.consume (to + tkl + len)) m
    rw [hcl] at this
    simp only [Conn.consume_closed] at this
    have h2 := Bool.or_eq_false_iff.mp this.symm
    exact ⟨by rw [hcl, h2.1], h2.2⟩
  · rw [hs] at h; cases h
  · rw [hs] at h
    simp only [Step.next.injEq] at h
    rw [← h.1, ← h.2]
    exact ⟨rfl, deliver_no_close m⟩

-- ---------------------------------------------------------------------------------------------
-- the drain loop

/-- fuel adequacy: any fuel above the spool length gives the same result -/
theorem drainF_fuel : ∀ (n : Nat) (c : Conn), c.spool.length < n →
    ∀ m, n ≤ m → drainF m c = drainF n c := by
  intro n
  induction n with
  | zero => intro c h; omega
  | succ n ih =>
    intro c hlt m hm
    obtain ⟨m', rfl⟩ : ∃ m', m = m' + 1 := ⟨m - 1, by omega⟩
    simp only [drainF]
    cases hs : step c with
    | wait => rfl
    | stop c' o => rfl
    | next c' o =>
      have := (step_next_lt hs).1
      simp only
      rw [ih c' (by omega) m' (by omega)]

/-- the loop, unfolded once, without fuel -/
theorem drain_eq (c : Conn) :
    drain c = match step c with
      | .wait => (c, [], false)
      | .stop c' o => (c', o, true)
      | .next c' o => ((drain c').1, o ++ (drain c').2.1, (drain c').2.2) := by
  have h : drain c = drainF (c.spool.length + 1) c := rfl
  rw [h, drainF]
  cases hs : step c with
  | wait => rfl
  | stop c' o => rfl
  | next c' o =>
    have := (step_next_lt hs).1
    simp only
    rw [drainF_fuel (c'.spool.length + 1) c' (by omega) c.spool.length (by omega)]
    rfl

/-- **Key lemma.**  Draining a spool to which more data has already been appended equals draining
the spool first and — unless that ended in an abort — draining the rest with the new data. -/
theorem drain_app (t : Bytes) : ∀ (n : Nat) (c : Conn), c.spool.length < n →
    drain (c.app t) =
      if (drain c).2.2 then ((drain c).1.app t, (drain c).2.1, true)
      else ((drain ((drain c).1.app t)).1, (drain c).2.1 ++ (drain ((drain c).1.app t)).2.1,
            (drain ((drain c).1.app t)).2.2) := by
  intro n
  induction n with
  | zero => intro c h; omega
  | succ n ih =>
    intro c hlt
    cases hs : step c with
    | wait =>
      have hd : drain c = (c, [], false) := by rw [drain_eq, hs]
      simp [hd]
    | stop c' o =>
      have hd : drain c = (c', o, true) := by rw [drain_eq, hs]
      have hs' : step (c.app t) = .stop (c'.app t) o := by
        rw [step_app c t (by rw [hs]; exact Step.noConfusion), hs]; rfl
      have hd' : drain (c.app t) = (c'.app t, o, true) := by rw [drain_eq, hs']
      simp [hd, hd']
    | next c' o =>
      have hlt' := (step_next_lt hs).1
      have hd : drain c = ((drain c').1, o ++ (drain c').2.1, (drain c').2.2) := by
        rw [drain_eq, hs]
      have hs' : step (c.app t) = .next (c'.app t) o := by
        rw [step_app c t (by rw [hs]; exact Step.noConfusion), hs]; rfl
      have hd' : drain (c.app t) = ((drain (c'.app t)).1, o ++ (drain (c'.app t)).2.1,
          (drain (c'.app t)).2.2) := by rw [drain_eq, hs']
      rw [hd', ih c' (by omega), hd]
      cases hb : (drain c').2.2 <;> simp [hb]

/-- `closed` after the loop = closed before or a close among the outputs; a run that returned
from inside the loop leaves the transport closing; a run that did not ends where the next
iteration would wait, has output no close and has left `closed` as it was -/
theorem drain_facts : ∀ (n : Nat) (c : Conn), c.spool.length < n →
    (drain c).1.closed = (c.closed || (drain c).2.1.any Out.isClose) ∧
    ((drain c).2.2 = true → (drain c).1.closed = true) ∧
    ((drain c).2.2 = false → step (drain c).1 = .wait) ∧
    (drain c).1.maxSize = c.maxSize ∧
    ((drain c).2.2 = false → (drain c).1.closed = c.closed ∧
      (drain c).2.1.any Out.isClose = false) := by
  intro n
  induction n with
  | zero => intro c h; omega
  | succ n ih =>
    intro c hlt
    cases hs : step c with
    | wait =>
      have hd : drain c = (c, [], false) := by rw [drain_eq, hs]
      simp [hd, hs]
    | stop c' o =>
      have hd : drain c = (c', o, true) := by rw [drain_eq, hs]
      obtain ⟨h1, h2⟩ := (step_closed c).2 c' o hs
      rw [hd]
      exact ⟨h2, fun _ => h1, fun h => Bool.noConfusion h, step_stop_maxSize hs,
        fun h => Bool.noConfusion h⟩
    | next c' o =>
      obtain ⟨hlt', hmax⟩ := step_next_lt hs
      have hd : drain c = ((drain c').1, o ++ (drain c').2.1, (drain c').2.2) := by
        rw [drain_eq, hs]
      obtain ⟨i1, i2, i3, i4, i5⟩ := ih c' (by omega)
      have hc := (step_closed c).1 c' o hs
      obtain ⟨ho1, ho2⟩ := step_next_open hs
      rw [hd]
      refine ⟨?_, i2, i3, by simp [i4, hmax], fun h => ?_⟩
      · simp only [i1, hc, List.any_append, Bool.or_assoc]
      · obtain ⟨j1, j2⟩ := i5 h
        exact ⟨by rw [j1, ho1], by simp [List.any_append, ho2, j2]⟩

-- ---------------------------------------------------------------------------------------------
-- a closed transport is not fed

theorem feedAll_closed {c : Conn} (h : c.closed = true) (cs : List Bytes) :
    feedAll c cs = (c, []) := by
  cases cs <;> simp [feedAll, h]

-- ---------------------------------------------------------------------------------------------
-- chunking

/-- a connection whose loop would wait: fresh, or after any `data_received` that did not abort -/
def Conn.quiet (c : Conn) : Prop := step c = .wait

theorem feed_eq (c : Conn) (x : Bytes) : feed c x = ((drain (c.app x)).1, (drain (c.app x)).2.1) := rfl

theorem drain_of_quiet {c : Conn} (h : c.quiet) : drain c = (c, [], false) := by
  rw [drain_eq, h]

theorem drain_facts' (c : Conn) :
    (drain c).1.closed = (c.closed || (drain c).2.1.any Out.isClose) ∧
    ((drain c).2.2 = true → (drain c).1.closed = true) ∧
    ((drain c).2.2 = false → (drain c).1.quiet) ∧
    (drain c).1.maxSize = c.maxSize ∧
    ((drain c).2.2 = false → (drain c).1.closed = c.closed ∧
      (drain c).2.1.any Out.isClose = false) :=
  drain_facts (c.spool.length + 1) c (by omega)

theorem drain_app' (c : Conn) (t : Bytes) :
    drain (c.app t) =
      if (drain c).2.2 then ((drain c).1.app t, (drain c).2.1, true)
      else ((drain ((drain c).1.app t)).1, (drain c).2.1 ++ (drain ((drain c).1.app t)).2.1,
            (drain ((drain c).1.app t)).2.2) :=
  drain_app t (c.spool.length + 1) c (by omega)

/-- feeding `x` and then `t` in one piece, in terms of feeding `x` first -/
theorem feed_append (c : Conn) (x t : Bytes) :
    feed c (x ++ t) =
      if (drain (c.app x)).2.2 then ((feed c x).1.app t, (feed c x).2)
      else ((feed (feed c x).1 t).1, (feed c x).2 ++ (feed (feed c x).1 t).2) := by
  simp only [feed_eq, ← Conn.app_app, drain_app' (c.app x) t]
  split <;> rfl

/-- **Chunking independence, the whole session.**  From a quiet open connection, every way of
cutting the stream gives exactly the same outputs as the uncut stream — all of them, not only
those up to the first close — and the same connection, except that bytes which the uncut
delivery spooled behind the frame that closed the transport are, with chunks, partly not
delivered at all (`t`); while the transport is open nothing differs (`t = []`). -/
theorem chunking_full : ∀ (cs : List Bytes) (c : Conn), c.quiet → c.closed = false →
    (feedAll c cs).2 = (feed c cs.flatten).2 ∧
    ∃ t, (feed c cs.flatten).1 = (feedAll c cs).1.app t ∧
      ((feedAll c cs).1.closed = false → t = []) := by
  intro cs
  induction cs with
  | nil =>
    intro c hq _
    simp only [feedAll, List.flatten_nil, feed_eq, Conn.app_nil, drain_of_quiet hq]
    exact ⟨trivial, [], (Conn.app_nil c).symm, fun _ => rfl⟩
  | cons x xs ih =>
    intro c hq hopen
    obtain ⟨f1, f2, f3, _, f5⟩ := drain_facts' (c.app x)
    simp only [feedAll, hopen, Bool.false_eq_true, ↓reduceIte, List.flatten_cons, feed_append]
    cases hstop : (drain (c.app x)).2.2 with
    | true =>
      have hcl : (feed c x).1.closed = true := f2 hstop
      simp only [↓reduceIte, feedAll_closed hcl, List.append_nil]
      exact ⟨trivial, xs.flatten, rfl, fun h => by rw [hcl] at h; cases h⟩
    | false =>
      simp only [Bool.false_eq_true, ↓reduceIte]
      have hcl : (feed c x).1.closed = false := by
        have := (f5 hstop).1
        simp only [Conn.app_closed, hopen] at this
        exact this
      obtain ⟨i1, t, i2, i3⟩ := ih (feed c x).1 (f3 hstop) hcl
      exact ⟨by rw [i1], t, i2, i3⟩

/-- **Chunking independence, everything.**  If the stream fed in one piece leaves the connection
open, every chunking gives exactly the same outputs and the same final state. -/
theorem chunking_open : ∀ (cs : List Bytes) (c : Conn), c.quiet →
    (feed c cs.flatten).1.closed = false → feedAll c cs = feed c cs.flatten := by
  intro cs
  induction cs with
  | nil =>
    intro c hq _
    simp [feedAll, feed_eq, Conn.app_nil, drain_of_quiet hq]
  | cons x xs ih =>
    intro c hq hopen
    obtain ⟨f1, f2, f3, _, _⟩ := drain_facts' (c.app x)
    simp only [List.flatten_cons, feed_append] at hopen ⊢
    cases hstop : (drain (c.app x)).2.2 with
    | true =>
      have hcl : (feed c x).1.closed = true := f2 hstop
      simp [hstop, hcl] at hopen
    | false =>
      simp only [hstop, Bool.false_eq_true, ↓reduceIte] at hopen ⊢
      obtain ⟨g1, _, _, _, _⟩ := drain_facts' ((feed c x).1.app xs.flatten)
      have hcl : (feed c x).1.closed = false := by
        have : (feed (feed c x).1 xs.flatten).1.closed
            = ((feed c x).1.closed || (feed (feed c x).1 xs.flatten).2.any Out.isClose) := g1
        rw [hopen] at this
        cases h : (feed c x).1.closed with
        | false => rfl
        | true => simp [h] at this
      have hc0 : c.closed = false := by
        have : (feed c x).1.closed = (c.closed || (feed c x).2.any Out.isClose) := f1
        rw [hcl] at this
        cases h : c.closed with
        | false => rfl
        | true => simp [h] at this
      have := ih (feed c x).1 (f3 hstop) hopen
      simp [feedAll, hc0, this]

end Aiocoap.Tcp
