import Proofs.Observe.Runs
/-!
The events of the message layer that stop a pipe, one lemma per cause: which `Out.stop` they
produce; and what that means for the render task (`netEvent_stopped`).
-/
namespace Aiocoap.Observe.Server
open Aiocoap.MsgLayer

/-- the pipe is gone from the table of unfinished requests and its render task is not wanted any
more (it has ended, or it has been cancelled and only its `finally` is still to run) -/
def Stopped (c : State) (sv : Nat) : Prop :=
  (∀ i ∈ c.ml.incoming, i.srv ≠ sv) ∧ ∀ t ∈ c.tasks, t.srv = sv → t.live = false

theorem netEvent_stopped {c : State} (h : Inv c) (e : MsgLayer.Ev) (he : netEv e = true) {sv : Nat}
    (hst : stops (MsgLayer.handle c.ml e).2 sv = true) : Stopped (netEvent c e).1 sv := by
  have hs := handle_SrvStep h.wf.sinv e he
  obtain ⟨i0, hi0, he0⟩ := hs.stopIn sv hst
  have hlt : sv < c.ml.nextSrv := by rw [← he0]; exact h.wf.sinv.lt i0 hi0
  have hnd : sv ∉ dsrvs (MsgLayer.handle c.ml e).2 := by
    rcases hs.nxt with h1 | h1
    · rw [h1.1]; simp
    · rw [h1.1]; simp; omega
  refine ⟨?_, ?_⟩
  · intro i hi hsv
    rcases hs.inc i hi with ⟨_, hns⟩ | ⟨r, w, hd, _⟩
    · rw [hsv, hst] at hns; cases hns
    · exact hnd (mem_dsrvs.mpr ⟨r, w, hsv ▸ hd⟩)
  · intro t' ht' hsv
    rcases List.mem_append.mp ht' with ht' | ht'
    · obtain ⟨t, ht, rfl⟩ := List.mem_map.mp ht'
      have : t.srv = sv := by rw [← (absorbTask_id _ t).1]; exact hsv
      simp only [this, hst, ↓reduceIte]
      exact cancelTask_not_live t
    · exfalso
      apply hnd
      rw [← delivered_srv]
      exact List.mem_map.mpr ⟨t', ht', hsv⟩

-- which pipes each cause stops ------------------------------------------------------------------------

theorem stop_mem_runMonitor {s : MsgLayer.State} {sv : Nat} (hin : ∃ i ∈ s.incoming, i.srv = sv) :
    Out.stop sv ∈ (runMonitor s (.srv sv)).2 := by
  obtain ⟨i, hi, he⟩ := hin
  have : s.incoming.any (fun i => i.srv == sv) = true := List.any_eq_true.mpr ⟨i, hi, by simpa using he⟩
  simp [runMonitor, this]

/-- RST on a CON notification: the exchange's monitor is the stopper of the pipe -/
theorem stop_of_rst {s : MsgLayer.State} (hinv : MsgLayer.Inv s) {e : Exchange} (he : e ∈ s.exchanges)
    {sv : Nat} (hm : e.monitor = .srv sv) (hin : ∃ i ∈ s.incoming, i.srv = sv)
    (hs : s.shutMsg = false) (w : Wire) (hw : w.mtype = .rst) (hc : w.code = 0) (hmid : w.mid = e.msg.mid) :
    Out.stop sv ∈ (MsgLayer.handle s (.recv e.remote false w)).2 := by
  have hfind : findExchange s e.remote w.mid = some e := by
    unfold findExchange
    cases hf : s.exchanges.find? (fun x => x.remote == e.remote && x.msg.mid == w.mid) with
    | none =>
      have := List.find?_eq_none.mp hf e he
      simp [hmid] at this
    | some e' =>
      have h1 := List.mem_of_find?_eq_some hf
      have h2 := List.find?_some hf
      simp only [Bool.and_eq_true, beq_iff_eq] at h2
      rw [map_inj_of_nodup hinv.n.exNodup h1 he h2.1]
  have hdup : isDup s e.remote w = false := by simp [isDup, dedupable, isRequest, hc]
  have hreq : dedupable w = false := by simp [dedupable, isRequest, hc]
  have hfit : fitsReply w = true := by simp [fitsReply, hw, hc]
  have hrecv : (MsgLayer.recv s e.remote false w).2 =
      (removeExchange s e.remote w).2 ++ (recvCode (removeExchange s e.remote w).1 e.remote false w).2 := by
    unfold MsgLayer.recv
    simp only [hdup, hreq, Bool.false_eq_true, ↓reduceIte, hfit]
  have hrem : (removeExchange s e.remote w).2 =
      (runMonitor (dropExchange s e.remote w.mid) (.srv sv)).2 ++
      (continueBacklog (runMonitor (dropExchange s e.remote w.mid) (.srv sv)).1 e.remote).2 := by
    unfold removeExchange
    simp only [hfind, hw, beq_self_eq_true, ↓reduceIte, hm]
  simp only [MsgLayer.handle, hs, Bool.false_eq_true, ↓reduceIte]
  rw [hrecv, hrem]
  exact List.mem_append_left _ (List.mem_append_left _
    (stop_mem_runMonitor (s := dropExchange s e.remote w.mid) hin))

/-- a new request on the same token from the same endpoint stops the old request's pipe -/
theorem stop_of_same_token {s : MsgLayer.State} {remote : Remote} {w : Wire} {i : InReq}
    (hf : s.incoming.find? (fun i => i.token == w.token && i.remote == remote) = some i)
    (hs : s.shutMsg = false) (hreq : isRequest w.code = true)
    (ht : w.mtype = .con ∨ w.mtype = .non) (hdup : isDup s remote w = false) (mcl : Bool) :
    Out.stop i.srv ∈ (MsgLayer.handle s (.recv remote mcl w)).2 := by
  have hc0 : (w.code == 0) = false := by
    simp only [isRequest, Bool.and_eq_true, decide_eq_true_eq] at hreq
    simp; omega
  have hna : fitsReply w = false := by
    rcases ht with ht | ht <;> simp [fitsReply, ht]
  have hdd : dedupable w = true := by
    rcases ht with ht | ht <;> simp [dedupable, hreq, ht]
  have hcn : (w.mtype == .con || w.mtype == .non) = true := by
    rcases ht with ht | ht <;> simp [ht]
  have hrecv : ∃ s0 : MsgLayer.State, s0.incoming = s.incoming ∧
      (MsgLayer.recv s remote mcl w).2 = (recvCode s0 remote mcl w).2 := by
    unfold MsgLayer.recv
    simp only [hdup, hdd, Bool.false_eq_true, ↓reduceIte, hna, List.nil_append]
    refine ⟨_, ?_, rfl⟩
    rfl
  obtain ⟨s0, hinc0, hrecv⟩ := hrecv
  have hcode : (recvCode s0 remote mcl w).2 = (processRequest s0 remote w).2 := by
    unfold recvCode
    simp only [hc0, Bool.false_and, Bool.false_eq_true, ↓reduceIte, hreq, hcn, Bool.and_self]
  simp only [MsgLayer.handle, hs, Bool.false_eq_true, ↓reduceIte]
  rw [hrecv, hcode]
  have hq := (fireEmptyAck_Quiet s0 remote w.token).inc
  unfold processRequest
  dsimp only
  apply List.mem_append_right
  split <;> simp [tokenProcessRequest, hq, hinc0, hf]

theorem stops_tokenDispatchError {s : MsgLayer.State} (hs : s.shutTok = false) (remote : Remote)
    (k : ErrKind) {i : InReq} (hi : i ∈ s.incoming) (hr : i.remote = remote) :
    Out.stop i.srv ∈ (tokenDispatchError s remote k).2 := by
  simp only [tokenDispatchError, hs, Bool.false_eq_true, ↓reduceIte]
  apply List.mem_append_right
  exact List.mem_map.mpr ⟨i, List.mem_filter.mpr ⟨hi, by simpa using hr⟩, rfl⟩

/-- a CON that has been retransmitted `MAX_RETRANSMIT` times gives up: every request of that
remote is stopped -/
theorem stop_of_giveup {s : MsgLayer.State} {remote : Remote} {mid : Nat} {e : Exchange}
    (hf : findExchange s remote mid = some e) (hc : ¬ e.counter < e.maxRetr) (hs : s.shutTok = false)
    {i : InReq} (hi : i ∈ s.incoming) (hr : i.remote = remote) :
    Out.stop i.srv ∈ (MsgLayer.handle s (.fireRetransmit remote mid)).2 := by
  simp only [MsgLayer.handle, fireRetransmit, hf, hc, ↓reduceIte]
  exact stops_tokenDispatchError (s := dropBacklog (dropExchange s remote mid) remote) hs remote _ hi hr

/-- an error reported by the transport for a remote stops every request of that remote -/
theorem stop_of_error {s : MsgLayer.State} (hm : s.shutMsg = false) (hs : s.shutTok = false)
    {remote : Remote} {i : InReq} (hi : i ∈ s.incoming) (hr : i.remote = remote) :
    Out.stop i.srv ∈ (MsgLayer.handle s (.error remote)).2 := by
  simp only [MsgLayer.handle, dispatchError, hm, Bool.false_eq_true, ↓reduceIte]
  exact stops_tokenDispatchError hs remote _ hi hr

/-- shutdown stops every request being served -/
theorem stop_of_shutdown {s : MsgLayer.State} (hs : s.shutTok = false) {i : InReq} (hi : i ∈ s.incoming) :
    Out.stop i.srv ∈ (MsgLayer.handle s .shutdown).2 := by
  simp only [MsgLayer.handle, MsgLayer.shutdown, hs, Bool.false_eq_true, ↓reduceIte]
  exact List.mem_append_left _ (List.mem_map.mpr ⟨i, hi, rfl⟩)


-- the message layer's own invariant (one exchange per remote, …) in the composite ------------------------

theorem exec_mlInv (sv : Nat) (acts : List Act) : ∀ c : State, MsgLayer.Inv c.ml →
    MsgLayer.Inv (exec c sv acts).1.ml := by
  induction acts with
  | nil => intro c h; exact h
  | cons a as ih =>
    intro c h
    simp only [exec]
    apply ih
    cases a with
    | emit code obs body il => exact respond_Inv h _ _ _
    | _ => exact h

theorem execF_mlInv (sv : Nat) (acts : List Act) : ∀ c : State, MsgLayer.Inv c.ml →
    MsgLayer.Inv (execF c sv acts).1.ml := by
  induction acts with
  | nil => intro c h; exact h
  | cons a as ih =>
    intro c h
    simp only [execF]
    cases hf : failingEmit c sv a with
    | none =>
      apply ih
      cases a with
      | emit code obs body il => exact respond_Inv h _ _ _
      | _ => exact h
    | some res =>
      obtain ⟨code, obs, body, il, tm, remote, w, _, _, h1, _, _⟩ := failingEmit_some hf
      obtain ⟨c1, os, st⟩ := res
      simp only at h1 ⊢
      subst h1
      apply exec_mlInv
      have he : MsgLayer.Inv (MsgLayer.handle (respond c.ml sv (mkMsg c code obs body) false).1 (.error remote)).1 :=
        handle_Inv (respond_Inv h _ _ _) _
      show MsgLayer.Inv (if il then _ else _)
      split
      · exact Inv_of_fields he rfl rfl rfl
      · exact he

theorem handle_mlInv {c : State} (h : MsgLayer.Inv c.ml) (ev : Ev) : MsgLayer.Inv (handle c ev).1.ml := by
  cases ev with
  | recv r mcl w => exact handle_Inv h _
  | error r => exact handle_Inv h _
  | fireRetransmit r m => exact handle_Inv h _
  | fireEmptyAck r tk => exact handle_Inv h _
  | fireExpire r m => exact handle_Inv h _
  | shutdown => exact handle_Inv h _
  | update resp => exact h
  | trigger sv resp il => exact h
  | deregister sv => exact h
  | release sv code exc => exact h
  | step sv plan acc =>
    simp only [handle]
    split
    · exact h
    · exact exec_mlInv _ _ _ h
  | stepFail sv plan acc =>
    simp only [handle]
    split
    · exact h
    · exact execF_mlInv _ _ _ h

theorem run_mlInv {c : State} (h : MsgLayer.Inv c.ml) (es : List TEv) : MsgLayer.Inv (run c es).1.ml := by
  induction es generalizing c with
  | nil => exact h
  | cons e es ih =>
    simp only [run]
    apply ih
    exact handle_mlInv (c := { c with ml := MsgLayer.setNow c.ml e.time }) (Inv_of_fields h rfl rfl rfl) e.ev

end Aiocoap.Observe.Server
