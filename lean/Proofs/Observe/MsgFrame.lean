import AiocoapModel.Observe.Server
import Proofs.MsgLayer.Inv
/-!
What the events of the message layer do to the table of incoming requests (`incoming`,
`nextSrv`) and which pipes they stop / requests they deliver.  Used to tie the render tasks of
the observe-server model to the pipes of the message layer.
-/
namespace Aiocoap.MsgLayer

/-- no pipe is stopped and no request delivered -/
def NoSrv (os : List Out) : Prop :=
  ∀ o ∈ os, (∀ sv, o ≠ .stop sv) ∧ (∀ sv r w, o ≠ .deliver sv r w)

/-- the server-side request table is untouched and nothing is stopped or delivered -/
structure Quiet (s : State) (res : State × List Out) : Prop where
  inc : res.1.incoming = s.incoming
  nxt : res.1.nextSrv = s.nextSrv
  ns : NoSrv res.2

theorem NoSrv_nil : NoSrv [] := by intro o ho; cases ho

theorem NoSrv_append {a b : List Out} (ha : NoSrv a) (hb : NoSrv b) : NoSrv (a ++ b) := by
  intro o ho
  rcases List.mem_append.mp ho with h | h
  · exact ha o h
  · exact hb o h

theorem NoSrv_send (t : Nat) (r : Remote) (w : Wire) : NoSrv [.send t r w] := by
  intro o ho
  simp only [List.mem_singleton] at ho
  subst ho
  exact And.intro (fun _ h => nomatch h) (fun _ _ _ h => nomatch h)

theorem Quiet_refl (s : State) : Quiet s (s, []) := ⟨rfl, rfl, NoSrv_nil⟩

theorem Quiet.trans {s : State} {r1 r2 : State × List Out} (h1 : Quiet s r1) (h2 : Quiet r1.1 r2) :
    Quiet s (r2.1, r1.2 ++ r2.2) :=
  ⟨h2.inc.trans h1.inc, h2.nxt.trans h1.nxt, NoSrv_append h1.ns h2.ns⟩

theorem sendInitially_Quiet (s : State) (r : Remote) (w : Wire) (m : Monitor) (k : Nat) :
    Quiet s (sendInitially s r w m k) := by
  refine ⟨?_, ?_, ?_⟩
  · unfold sendInitially storeReply addExchange; dsimp only; split <;> split <;> rfl
  · unfold sendInitially storeReply addExchange; dsimp only; split <;> split <;> rfl
  · exact NoSrv_send _ _ _

theorem drainBacklog_Quiet (remote : Remote) (l : List Queued) :
    ∀ s : State, Quiet s (drainBacklog s remote l) := by
  induction l with
  | nil => intro s; exact ⟨rfl, rfl, NoSrv_nil⟩
  | cons qd rest ih =>
    intro s
    simp only [drainBacklog]
    have h1 := sendInitially_Quiet ({ s with backlogs := setBacklog s.backlogs remote rest } : State)
      remote qd.msg qd.monitor qd.maxRetr
    split
    · exact ⟨h1.inc, h1.nxt, h1.ns⟩
    · have h2 := ih (sendInitially { s with backlogs := setBacklog s.backlogs remote rest } remote
        qd.msg qd.monitor qd.maxRetr).1
      exact ⟨h2.inc.trans h1.inc, h2.nxt.trans h1.nxt, NoSrv_append h1.ns h2.ns⟩

theorem continueBacklog_Quiet (s : State) (remote : Remote) : Quiet s (continueBacklog s remote) := by
  unfold continueBacklog
  split
  · exact Quiet_refl s
  · split
    · exact Quiet_refl s
    · exact drainBacklog_Quiet remote _ s

theorem dispatchOut_Quiet (s : State) (remote : Remote) (w : Wire) (mon : Monitor) (k : Nat) :
    Quiet s (dispatchOut s remote w mon k) := by
  unfold dispatchOut
  split
  · exact ⟨rfl, rfl, NoSrv_nil⟩
  · exact sendInitially_Quiet _ _ _ _ _

theorem sendMessage_Quiet (s : State) (remote : Remote) (mc : Bool) (token : Token) (m : OutMsg)
    (wasNon : Bool) (mon : Monitor) :
    Quiet s ((sendMessage s remote mc token m wasNon mon).1, (sendMessage s remote mc token m wasNon mon).2.1) := by
  unfold sendMessage
  split
  · rename_i p _
    split
    · have := sendInitially_Quiet (dropPiggy s remote token) remote
        { mtype := .ack, code := 0, mid := p.mid, token := [], obs := none, body := 0 } mon m.maxRetr
      exact ⟨this.inc, this.nxt, this.ns⟩
    · have := dispatchOut_Quiet (dropPiggy s remote token) remote
        { mtype := .ack, code := m.code, mid := p.mid, token, obs := m.obs, body := m.body } mon m.maxRetr
      exact ⟨this.inc, this.nxt, this.ns⟩
  · split
    · exact Quiet_refl s
    · dsimp only
      split
      · exact Quiet_refl s
      · have := dispatchOut_Quiet (takeMid s).2 remote
          { mtype := chooseType s mc wasNon m, code := m.code, mid := (takeMid s).1, token,
            obs := m.obs, body := m.body } mon m.maxRetr
        exact ⟨this.inc, this.nxt, this.ns⟩

theorem sendBare_Quiet (s : State) (remote : Remote) (t : MType) (mid : Nat) :
    Quiet s (sendBare s remote t mid) := sendInitially_Quiet _ _ _ _ _

theorem processResponse_Quiet (s : State) (remote : Remote) (w : Wire) :
    Quiet s ((processResponse s remote w).1, (processResponse s remote w).2.1) := by
  unfold processResponse
  dsimp only
  split
  · exact Quiet_refl s
  · refine ⟨?_, ?_, ?_⟩
    · dsimp only; split <;> rfl
    · dsimp only; split <;> rfl
    · intro o ho
      simp only [List.mem_singleton] at ho
      subst ho
      exact And.intro (fun _ h => nomatch h) (fun _ _ _ h => nomatch h)

theorem recvDup_Quiet (s : State) (remote : Remote) (w : Wire) : Quiet s (recvDup s remote w) := by
  unfold recvDup
  split
  · split
    · exact sendInitially_Quiet _ _ _ _ _
    · exact Quiet_refl s
  · exact Quiet_refl s

theorem fireEmptyAck_Quiet (s : State) (remote : Remote) (token : Token) :
    Quiet s (fireEmptyAck s remote token) := by
  unfold fireEmptyAck
  split
  · exact Quiet_refl s
  · have := sendBare_Quiet (dropPiggy s remote token) remote .ack ‹Piggy›.mid
    exact ⟨this.inc, this.nxt, this.ns⟩

theorem fireExpire_Quiet (s : State) (remote : Remote) (mid : Nat) :
    Quiet s (fireExpire s remote mid) := ⟨rfl, rfl, NoSrv_nil⟩

end Aiocoap.MsgLayer

namespace Aiocoap.Observe.Server
open Aiocoap.MsgLayer

/-- the pipes of the requests delivered by the outputs -/
def dsrvs (os : List MsgLayer.Out) : List Nat :=
  os.filterMap fun o => match o with
    | .deliver sv _ _ => some sv
    | _ => none

theorem stops_iff (os : List MsgLayer.Out) (sv : Nat) : stops os sv = true ↔ Out.stop sv ∈ os := by
  simp [stops, List.any_eq_true]

theorem stops_false_iff (os : List MsgLayer.Out) (sv : Nat) : stops os sv = false ↔ Out.stop sv ∉ os := by
  rw [← stops_iff]; simp

theorem stops_append (a b : List MsgLayer.Out) (sv : Nat) :
    stops (a ++ b) sv = (stops a sv || stops b sv) := by simp [stops]

theorem dsrvs_append (a b : List MsgLayer.Out) : dsrvs (a ++ b) = dsrvs a ++ dsrvs b := by
  simp [dsrvs, List.filterMap_append]

theorem stops_of_NoSrv {os : List MsgLayer.Out} (h : NoSrv os) (sv : Nat) : stops os sv = false := by
  rw [stops_false_iff]; intro hm; exact (h _ hm).1 sv rfl

theorem dsrvs_of_NoSrv {os : List MsgLayer.Out} (h : NoSrv os) : dsrvs os = [] := by
  simp only [dsrvs, List.filterMap_eq_nil_iff]
  intro o ho
  cases o with
  | deliver sv r w => exact absurd rfl ((h _ ho).2 sv r w)
  | _ => rfl

theorem mem_dsrvs {os : List MsgLayer.Out} {sv : Nat} :
    sv ∈ dsrvs os ↔ ∃ r w, Out.deliver sv r w ∈ os := by
  simp only [dsrvs, List.mem_filterMap]
  constructor
  · rintro ⟨o, ho, h⟩
    cases o with
    | deliver sv' r w => simp at h; subst h; exact ⟨r, w, ho⟩
    | _ => simp at h
  · rintro ⟨r, w, h⟩; exact ⟨_, h, rfl⟩

/-- pipes have distinct numbers below the counter -/
structure SInv (s : MsgLayer.State) : Prop where
  nd : (s.incoming.map (·.srv)).Nodup
  lt : ∀ i ∈ s.incoming, i.srv < s.nextSrv

/-- one event of the message layer, seen from the server side: which pipes remain, which were
stopped, which request was delivered -/
structure SrvStep (s s' : MsgLayer.State) (os : List MsgLayer.Out) : Prop where
  sinv : SInv s'
  nxt : (dsrvs os = [] ∧ s'.nextSrv = s.nextSrv) ∨
        (dsrvs os = [s.nextSrv] ∧ s'.nextSrv = s.nextSrv + 1)
  inc : ∀ i ∈ s'.incoming, (i ∈ s.incoming ∧ stops os i.srv = false) ∨
          (∃ r w, Out.deliver i.srv r w ∈ os ∧ i.token = w.token ∧ i.remote = r)
  surv : ∀ i ∈ s.incoming, stops os i.srv = false → i ∈ s'.incoming
  dlIn : ∀ sv r w, Out.deliver sv r w ∈ os → ∃ i ∈ s'.incoming, i.srv = sv
  stopIn : ∀ sv, stops os sv = true → ∃ i ∈ s.incoming, i.srv = sv

theorem SInv_congr {s s' : MsgLayer.State} (h : SInv s) (hi : s'.incoming = s.incoming)
    (hn : s'.nextSrv = s.nextSrv) : SInv s' := ⟨hi ▸ h.nd, by rw [hi, hn]; exact h.lt⟩

theorem SrvStep_quiet {s : MsgLayer.State} (hs : SInv s) {res : MsgLayer.State × List MsgLayer.Out}
    (q : Quiet s res) : SrvStep s res.1 res.2 := by
  refine ⟨SInv_congr hs q.inc q.nxt, Or.inl ⟨dsrvs_of_NoSrv q.ns, q.nxt⟩, ?_, ?_, ?_, ?_⟩
  · intro i hi; rw [q.inc] at hi; exact Or.inl ⟨hi, stops_of_NoSrv q.ns _⟩
  · intro i hi _; rw [q.inc]; exact hi
  · intro sv r w h; exact absurd rfl ((q.ns _ h).2 sv r w)
  · intro sv h; rw [stops_of_NoSrv q.ns] at h; cases h

theorem SrvStep.congr {s s1 s2 : MsgLayer.State} {os : List MsgLayer.Out} (h : SrvStep s s1 os)
    (hi : s2.incoming = s1.incoming) (hn : s2.nextSrv = s1.nextSrv) : SrvStep s s2 os :=
  ⟨SInv_congr h.sinv hi hn, by rw [hn]; exact h.nxt, by rw [hi]; exact h.inc,
   by rw [hi]; exact h.surv, by rw [hi]; exact h.dlIn, h.stopIn⟩

theorem SrvStep.congrLeft {s0 s s1 : MsgLayer.State} {os : List MsgLayer.Out} (h : SrvStep s s1 os)
    (hi : s0.incoming = s.incoming) (hn : s0.nextSrv = s.nextSrv) : SrvStep s0 s1 os :=
  ⟨h.sinv, by rw [hn]; exact h.nxt, by rw [hi]; exact h.inc, by rw [hi]; exact h.surv, h.dlIn,
   by rw [hi]; exact h.stopIn⟩

theorem SrvStep.post {s s1 : MsgLayer.State} {o1 : List MsgLayer.Out} (h : SrvStep s s1 o1)
    {res : MsgLayer.State × List MsgLayer.Out} (q : Quiet s1 res) : SrvStep s res.1 (o1 ++ res.2) := by
  have hst : ∀ sv, stops (o1 ++ res.2) sv = stops o1 sv := by
    intro sv; rw [stops_append, stops_of_NoSrv q.ns]; simp
  have hmem : ∀ sv r w, Out.deliver sv r w ∈ o1 ++ res.2 ↔ Out.deliver sv r w ∈ o1 := by
    intro sv r w
    simp only [List.mem_append]
    constructor
    · rintro (h | h)
      · exact h
      · exact absurd rfl ((q.ns _ h).2 sv r w)
    · exact Or.inl
  refine ⟨SInv_congr h.sinv q.inc q.nxt, ?_, ?_, ?_, ?_, ?_⟩
  · rw [dsrvs_append, dsrvs_of_NoSrv q.ns, List.append_nil, q.nxt]; exact h.nxt
  · intro i hi
    rw [q.inc] at hi
    rcases h.inc i hi with hh | ⟨r, w, hh⟩
    · exact Or.inl (by rw [hst]; exact hh)
    · exact Or.inr ⟨r, w, (hmem _ _ _).mpr hh.1, hh.2⟩
  · intro i hi hs; rw [q.inc]; rw [hst] at hs; exact h.surv i hi hs
  · intro sv r w hd; rw [q.inc]; exact h.dlIn sv r w ((hmem _ _ _).mp hd)
  · intro sv hs; rw [hst] at hs; exact h.stopIn sv hs

theorem SrvStep.pre {s : MsgLayer.State} {res : MsgLayer.State × List MsgLayer.Out} (q : Quiet s res)
    {s2 : MsgLayer.State} {o2 : List MsgLayer.Out} (h : SrvStep res.1 s2 o2) :
    SrvStep s s2 (res.2 ++ o2) := by
  have hst : ∀ sv, stops (res.2 ++ o2) sv = stops o2 sv := by
    intro sv; rw [stops_append, stops_of_NoSrv q.ns]; simp
  have hmem : ∀ sv r w, Out.deliver sv r w ∈ res.2 ++ o2 ↔ Out.deliver sv r w ∈ o2 := by
    intro sv r w
    simp only [List.mem_append]
    constructor
    · rintro (h | h)
      · exact absurd rfl ((q.ns _ h).2 sv r w)
      · exact h
    · exact Or.inr
  refine ⟨h.sinv, ?_, ?_, ?_, ?_, ?_⟩
  · rw [dsrvs_append, dsrvs_of_NoSrv q.ns, List.nil_append, ← q.nxt]; exact h.nxt
  · intro i hi
    rcases h.inc i hi with hh | ⟨r, w, hh⟩
    · exact Or.inl (by rw [hst, ← q.inc]; exact hh)
    · exact Or.inr ⟨r, w, (hmem _ _ _).mpr hh.1, hh.2⟩
  · intro i hi hs; rw [hst] at hs; rw [← q.inc] at hi; exact h.surv i hi hs
  · intro sv r w hd; exact h.dlIn sv r w ((hmem _ _ _).mp hd)
  · intro sv hs; rw [hst] at hs; rw [← q.inc]; exact h.stopIn sv hs


-- the primitives that touch the table ---------------------------------------------------------------

theorem stops_single (sv sv' : Nat) : stops [Out.stop sv] sv' = true ↔ sv' = sv := by
  rw [stops_iff]; simp

theorem stops_single_false (sv sv' : Nat) : stops [Out.stop sv] sv' = false ↔ sv' ≠ sv := by
  rw [stops_false_iff]; simp

theorem dropIncoming_SrvStep {s : MsgLayer.State} (hs : SInv s) (sv : Nat)
    (hany : s.incoming.any (fun i => i.srv == sv) = true) :
    SrvStep s (dropIncoming s sv) [Out.stop sv] := by
  refine ⟨⟨?_, ?_⟩, Or.inl ⟨rfl, rfl⟩, ?_, ?_, ?_, ?_⟩
  · exact List.Nodup.sublist (List.filter_sublist.map _) hs.nd
  · intro i hi; exact hs.lt i (List.mem_filter.mp hi).1
  · intro i hi
    have := List.mem_filter.mp hi
    refine Or.inl ⟨this.1, ?_⟩
    rw [stops_single_false]; simpa using this.2
  · intro i hi hst
    rw [stops_single_false] at hst
    exact List.mem_filter.mpr ⟨hi, by simpa using hst⟩
  · intro sv' r w h; simp at h
  · intro sv' h
    rw [stops_single] at h
    subst h
    obtain ⟨i, hi, he⟩ := List.any_eq_true.mp hany
    exact ⟨i, hi, by simpa using he⟩

theorem runMonitor_SrvStep {s : MsgLayer.State} (hs : SInv s) (m : Monitor) :
    SrvStep s (runMonitor s m).1 (runMonitor s m).2 := by
  unfold runMonitor
  cases m with
  | req r =>
    dsimp only
    split
    · exact SrvStep_quiet hs (res := (dropOutgoing s r, [Out.fail r .messageError]))
        ⟨rfl, rfl, by
          intro o ho; simp only [List.mem_singleton] at ho; subst ho
          exact And.intro (fun _ h => nomatch h) (fun _ _ _ h => nomatch h)⟩
    · exact SrvStep_quiet hs (Quiet_refl s)
  | srv sv =>
    dsimp only
    split
    · exact dropIncoming_SrvStep hs sv (by assumption)
    · exact SrvStep_quiet hs (Quiet_refl s)
  | none => exact SrvStep_quiet hs (Quiet_refl s)

theorem stops_dispatchError (s : MsgLayer.State) (remote : Remote) (k : ErrKind) (sv : Nat) :
    stops ((s.outgoing.filter (fun o => o.remote == some remote)).map (fun o => Out.fail o.req k) ++
           (s.incoming.filter (fun i => i.remote == remote)).map (fun i => Out.stop i.srv)) sv = true ↔
      ∃ i ∈ s.incoming, i.remote = remote ∧ i.srv = sv := by
  rw [stops_iff]
  simp only [List.mem_append, List.mem_map, List.mem_filter]
  constructor
  · rintro (⟨o, _, h⟩ | ⟨i, ⟨hi, hr⟩, h⟩)
    · cases h
    · cases h; exact ⟨i, hi, by simpa using hr, rfl⟩
  · rintro ⟨i, hi, hr, rfl⟩
    exact Or.inr ⟨i, ⟨hi, by simpa using hr⟩, rfl⟩

theorem tokenDispatchError_SrvStep {s : MsgLayer.State} (hs : SInv s) (remote : Remote) (k : ErrKind) :
    SrvStep s (tokenDispatchError s remote k).1 (tokenDispatchError s remote k).2 := by
  unfold tokenDispatchError
  split
  · exact SrvStep_quiet hs (Quiet_refl s)
  · dsimp only
    refine ⟨⟨?_, ?_⟩, Or.inl ⟨?_, rfl⟩, ?_, ?_, ?_, ?_⟩
    · exact List.Nodup.sublist (List.filter_sublist.map _) hs.nd
    · intro i hi; exact hs.lt i (List.mem_filter.mp hi).1
    · simp only [dsrvs, List.filterMap_eq_nil_iff, List.mem_append, List.mem_map]
      rintro o (⟨x, _, rfl⟩ | ⟨x, _, rfl⟩) <;> rfl
    · intro i hi
      have hm := List.mem_filter.mp hi
      refine Or.inl ⟨hm.1, ?_⟩
      cases hst : stops _ i.srv with
      | false => rfl
      | true =>
        obtain ⟨j, hj, hr, he⟩ := (stops_dispatchError s remote k i.srv).mp hst
        have : j = i := map_inj_of_nodup hs.nd hj hm.1 he
        subst this
        simp [hr] at hm
    · intro i hi hst
      refine List.mem_filter.mpr ⟨hi, ?_⟩
      cases hr : (i.remote == remote) with
      | false => rfl
      | true =>
        have : stops _ i.srv = true :=
          (stops_dispatchError s remote k i.srv).mpr ⟨i, hi, by simpa using hr, rfl⟩
        rw [this] at hst; cases hst
    · intro sv r w h
      simp only [List.mem_append, List.mem_map] at h
      rcases h with ⟨x, _, h⟩ | ⟨x, _, h⟩ <;> cases h
    · intro sv h
      obtain ⟨i, hi, _, he⟩ := (stops_dispatchError s remote k sv).mp h
      exact ⟨i, hi, he⟩

theorem shutdown_SrvStep {s : MsgLayer.State} (hs : SInv s) :
    SrvStep s (MsgLayer.shutdown s).1 (MsgLayer.shutdown s).2 := by
  unfold MsgLayer.shutdown
  split
  · exact SrvStep_quiet hs (Quiet_refl s)
  · dsimp only
    have hst : ∀ sv, stops (s.incoming.map (fun i => Out.stop i.srv) ++
        s.outgoing.map (fun x => Out.fail x.req .libraryShutdown)) sv = true ↔
        ∃ i ∈ s.incoming, i.srv = sv := by
      intro sv
      rw [stops_iff]
      simp only [List.mem_append, List.mem_map]
      constructor
      · rintro (⟨i, hi, h⟩ | ⟨x, _, h⟩)
        · cases h; exact ⟨i, hi, rfl⟩
        · cases h
      · rintro ⟨i, hi, rfl⟩; exact Or.inl ⟨i, hi, rfl⟩
    refine ⟨⟨List.nodup_nil, by intro i hi; cases hi⟩, Or.inl ⟨?_, rfl⟩, ?_, ?_, ?_, ?_⟩
    · simp only [dsrvs, List.filterMap_eq_nil_iff, List.mem_append, List.mem_map]
      rintro o (⟨x, _, rfl⟩ | ⟨x, _, rfl⟩) <;> rfl
    · intro i hi; cases hi
    · intro i hi h
      have : stops _ i.srv = true := (hst i.srv).mpr ⟨i, hi, rfl⟩
      rw [this] at h; cases h
    · intro sv r w h
      simp only [List.mem_append, List.mem_map] at h
      rcases h with ⟨x, _, h⟩ | ⟨x, _, h⟩ <;> cases h
    · intro sv h; exact (hst sv).mp h

/-- after a step that delivered nothing, a new request is put into the table and delivered -/
theorem SrvStep.thenDeliver {s : MsgLayer.State} {res1 : MsgLayer.State × List MsgLayer.Out}
    (h : SrvStep s res1.1 res1.2) (hd : dsrvs res1.2 = []) (remote : Remote) (w : Wire) :
    SrvStep s
      { res1.1 with nextSrv := res1.1.nextSrv + 1,
                    incoming := res1.1.incoming ++ [{ token := w.token, remote, srv := res1.1.nextSrv,
                                                      wasNon := w.mtype == .non }] }
      (res1.2 ++ [Out.deliver res1.1.nextSrv remote w]) := by
  have hn : res1.1.nextSrv = s.nextSrv := by
    rcases h.nxt with hh | hh
    · exact hh.2
    · rw [hd] at hh; cases hh.1
  have hst : ∀ sv, stops (res1.2 ++ [Out.deliver res1.1.nextSrv remote w]) sv = stops res1.2 sv := by
    intro sv; rw [stops_append]; simp [stops]
  refine ⟨⟨?_, ?_⟩, Or.inr ⟨?_, by simp [hn]⟩, ?_, ?_, ?_, ?_⟩
  · show (List.map (·.srv) (res1.1.incoming ++ [_])).Nodup
    rw [List.map_append]
    refine nodup_snoc h.sinv.nd ?_
    simp only [List.mem_map, not_exists, not_and]
    intro j hj he
    have := h.sinv.lt j hj
    omega
  · intro j hj
    show j.srv < res1.1.nextSrv + 1
    simp only [List.mem_append, List.mem_singleton] at hj
    rcases hj with hj | rfl
    · have := h.sinv.lt j hj; omega
    · simp
  · rw [dsrvs_append, hd, hn]; rfl
  · intro j hj
    simp only [List.mem_append, List.mem_singleton] at hj
    rcases hj with hj | rfl
    · rcases h.inc j hj with hh | ⟨r, w', hh⟩
      · exact Or.inl ⟨hh.1, by rw [hst]; exact hh.2⟩
      · exact Or.inr ⟨r, w', List.mem_append_left _ hh.1, hh.2⟩
    · exact Or.inr ⟨remote, w, by simp, rfl, rfl⟩
  · intro j hj hs'
    rw [hst] at hs'
    exact List.mem_append_left _ (h.surv j hj hs')
  · intro sv r w' hm
    simp only [List.mem_append, List.mem_singleton] at hm
    rcases hm with hm | hm
    · obtain ⟨i, hi, he⟩ := h.dlIn sv r w' hm
      exact ⟨i, List.mem_append_left _ hi, he⟩
    · cases hm
      exact ⟨_, List.mem_append_right _ (List.mem_singleton.mpr rfl), rfl⟩
  · intro sv hs'; rw [hst] at hs'; exact h.stopIn sv hs'

theorem tokenProcessRequest_SrvStep {s : MsgLayer.State} (hs : SInv s) (remote : Remote) (w : Wire) :
    SrvStep s (tokenProcessRequest s remote w).1 (tokenProcessRequest s remote w).2 := by
  unfold tokenProcessRequest
  dsimp only
  split
  · -- an unfinished request on the same token from the same endpoint: its pipe is stopped
    rename_i i hf
    have hi : i ∈ s.incoming := List.mem_of_find?_eq_some hf
    exact SrvStep.thenDeliver (res1 := (dropIncoming s i.srv, [Out.stop i.srv]))
      (dropIncoming_SrvStep hs i.srv (List.any_eq_true.mpr ⟨i, hi, by simp⟩)) rfl remote w
  · exact SrvStep.thenDeliver (res1 := (s, [])) (SrvStep_quiet hs (Quiet_refl s)) rfl remote w


-- the handlers -------------------------------------------------------------------------------------

theorem removeExchange_SrvStep {s : MsgLayer.State} (hs : SInv s) (remote : Remote) (w : Wire) :
    SrvStep s (removeExchange s remote w).1 (removeExchange s remote w).2 := by
  unfold removeExchange
  split
  · exact SrvStep_quiet hs (Quiet_refl s)
  · rename_i e _
    dsimp only
    have h0 : SInv (dropExchange s remote w.mid) := SInv_congr hs rfl rfl
    have h1 : SrvStep s (if w.mtype == .rst then runMonitor (dropExchange s remote w.mid) e.monitor
                          else (dropExchange s remote w.mid, [])).1
                        (if w.mtype == .rst then runMonitor (dropExchange s remote w.mid) e.monitor
                          else (dropExchange s remote w.mid, [])).2 := by
      split
      · exact (runMonitor_SrvStep h0 e.monitor).congrLeft rfl rfl
      · exact SrvStep_quiet hs (res := (dropExchange s remote w.mid, [])) ⟨rfl, rfl, NoSrv_nil⟩
    exact h1.post (continueBacklog_Quiet _ remote)

theorem processRequest_SrvStep {s : MsgLayer.State} (hs : SInv s) (remote : Remote) (w : Wire) :
    SrvStep s (processRequest s remote w).1 (processRequest s remote w).2 := by
  have q := fireEmptyAck_Quiet s remote w.token
  have hs0 : SInv (fireEmptyAck s remote w.token).1 := SInv_congr hs q.inc q.nxt
  unfold processRequest
  dsimp only
  generalize fireEmptyAck s remote w.token = r0 at q hs0
  split
  · have h := (tokenProcessRequest_SrvStep
      (s := { r0.1 with piggy := r0.1.piggy ++
                [{ remote, token := w.token, mid := w.mid, fireAt := r0.1.now + r0.1.cfg.emptyAckDelay }] })
      (SInv_congr hs0 rfl rfl) remote w).congrLeft (s0 := r0.1) rfl rfl
    exact SrvStep.pre q h
  · exact SrvStep.pre q (tokenProcessRequest_SrvStep hs0 remote w)

theorem recvCode_SrvStep {s : MsgLayer.State} (hs : SInv s) (remote : Remote) (mcLocal : Bool) (w : Wire) :
    SrvStep s (recvCode s remote mcLocal w).1 (recvCode s remote mcLocal w).2 := by
  unfold recvCode
  split
  · exact SrvStep_quiet hs (sendBare_Quiet _ _ _ _)
  split
  · exact SrvStep_quiet hs (Quiet_refl s)
  split
  · exact processRequest_SrvStep hs remote w
  split
  · have q := processResponse_Quiet s remote w
    dsimp only
    split
    · split
      · exact SrvStep_quiet hs (q.trans (sendBare_Quiet _ remote .ack w.mid))
      · exact SrvStep_quiet hs q
    · split
      · have q2 := sendBare_Quiet (processResponse s remote w).1 remote .rst w.mid
        exact SrvStep_quiet hs (res := sendBare (processResponse s remote w).1 remote .rst w.mid)
          ⟨q2.inc.trans q.inc, q2.nxt.trans q.nxt, q2.ns⟩
      · exact SrvStep_quiet hs q
  · exact SrvStep_quiet hs (Quiet_refl s)

theorem recvCode_Quiet {s : MsgLayer.State} (remote : Remote) (mcLocal : Bool) (w : Wire)
    (hw : (w.mtype == .ack || w.mtype == .rst) = true) :
    Quiet s (recvCode s remote mcLocal w) := by
  have hc : (w.mtype == .con) = false := by
    cases hm : w.mtype <;> simp [hm] at hw ⊢
  have hn : (w.mtype == .non) = false := by
    cases hm : w.mtype <;> simp [hm] at hw ⊢
  unfold recvCode
  simp only [hc, hn, Bool.and_false, Bool.false_eq_true, ↓reduceIte, Bool.or_self, Bool.false_or]
  split
  · exact Quiet_refl s
  split
  · split
    · exact processResponse_Quiet s remote w
    · simp only [Bool.false_and, Bool.false_eq_true, ↓reduceIte]
      exact processResponse_Quiet s remote w
  · exact Quiet_refl s

theorem recv_SrvStep {s : MsgLayer.State} (hs : SInv s) (remote : Remote) (mcLocal : Bool) (w : Wire) :
    SrvStep s (MsgLayer.recv s remote mcLocal w).1 (MsgLayer.recv s remote mcLocal w).2 := by
  unfold MsgLayer.recv
  split
  · exact SrvStep_quiet hs (recvDup_Quiet s remote w)
  · dsimp only
    generalize hs0 : (if dedupable w = true then
        { s with recent := s.recent ++ [{ remote, mid := w.mid, reply := none,
                                          expiry := s.now + s.cfg.exchangeLifetime }] } else s) = s0
    have hi0 : s0.incoming = s.incoming := by subst hs0; split <;> rfl
    have hn0 : s0.nextSrv = s.nextSrv := by subst hs0; split <;> rfl
    have hs0' : SInv s0 := SInv_congr hs hi0 hn0
    split
    · rename_i hw'
      have hw : (w.mtype == .ack || w.mtype == .rst) = true := by
        unfold fitsReply at hw'
        cases hm : w.mtype <;> simp [hm] at hw' ⊢
      have h1 := removeExchange_SrvStep hs0' remote w
      exact (h1.post (recvCode_Quiet (s := (removeExchange s0 remote w).1) remote mcLocal w hw)).congrLeft
        hi0.symm hn0.symm
    · have h2 := recvCode_SrvStep hs0' remote mcLocal w
      exact (SrvStep.pre (res := (s0, [])) (Quiet_refl s0) h2).congrLeft hi0.symm hn0.symm

theorem dispatchError_SrvStep {s : MsgLayer.State} (hs : SInv s) (remote : Remote) :
    SrvStep s (dispatchError s remote).1 (dispatchError s remote).2 := by
  unfold dispatchError
  split
  · exact SrvStep_quiet hs (Quiet_refl s)
  · exact (tokenDispatchError_SrvStep hs remote .networkError).congr rfl rfl

theorem fireRetransmit_SrvStep {s : MsgLayer.State} (hs : SInv s) (remote : Remote) (mid : Nat) :
    SrvStep s (fireRetransmit s remote mid).1 (fireRetransmit s remote mid).2 := by
  unfold fireRetransmit
  split
  · exact SrvStep_quiet hs (Quiet_refl s)
  · dsimp only
    split
    · exact SrvStep_quiet hs (res := (_, [Out.send s.now remote _])) ⟨rfl, rfl, NoSrv_send _ _ _⟩
    · exact (tokenDispatchError_SrvStep (s := dropBacklog (dropExchange s remote mid) remote)
        (SInv_congr hs rfl rfl) remote .conRetransmitsExceeded).congrLeft rfl rfl

/-- the events the observe server receives from the message layer -/
def netEv : MsgLayer.Ev → Bool
  | .recv _ _ _ | .error _ | .fireRetransmit _ _ | .fireEmptyAck _ _ | .fireExpire _ _ | .shutdown => true
  | _ => false

theorem handle_SrvStep {s : MsgLayer.State} (hs : SInv s) (ev : MsgLayer.Ev) (hev : netEv ev = true) :
    SrvStep s (MsgLayer.handle s ev).1 (MsgLayer.handle s ev).2 := by
  cases ev with
  | recv remote mcl w =>
    simp only [MsgLayer.handle]
    split
    · exact SrvStep_quiet hs (Quiet_refl s)
    · exact recv_SrvStep hs remote mcl w
  | error remote => exact dispatchError_SrvStep hs remote
  | fireRetransmit remote mid => exact fireRetransmit_SrvStep hs remote mid
  | fireEmptyAck remote token => exact SrvStep_quiet hs (fireEmptyAck_Quiet s remote token)
  | fireExpire remote mid => exact SrvStep_quiet hs (fireExpire_Quiet s remote mid)
  | shutdown => exact shutdown_SrvStep hs
  | submit r remote mc ob m => cases hev
  | respond sv m il => cases hev
  | appCancel r => cases hev

-- a response put on a pipe -----------------------------------------------------------------------------

theorem respond_frame (s : MsgLayer.State) (sv : Nat) (m : OutMsg) (isLast : Bool) :
    (respond s sv m isLast).1.nextSrv = s.nextSrv ∧ NoSrv (respond s sv m isLast).2 ∧
    (respond s sv m isLast).1.incoming =
      if isLast then s.incoming.filter (fun x => x.srv != sv) else s.incoming := by
  unfold respond
  split
  · rename_i hf
    refine ⟨rfl, NoSrv_nil, ?_⟩
    split
    · symm
      rw [List.filter_eq_self]
      intro x hx
      have := List.find?_eq_none.mp hf x hx
      simpa using this
    · rfl
  · rename_i i _
    have q := sendMessage_Quiet s i.remote false i.token m i.wasNon (.srv sv)
    dsimp only
    split
    · exact ⟨q.nxt, q.ns, by simp only [dropIncoming]; rw [q.inc]⟩
    · exact ⟨q.nxt, q.ns, by rw [q.inc]⟩

end Aiocoap.Observe.Server
