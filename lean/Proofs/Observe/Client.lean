import AiocoapModel.Observe.Client
import Proofs.Observe.Fresh
/-! Helper lemmas about the runner model (`Aiocoap.Observe.step`/`run`). -/
namespace Aiocoap.Observe

-- projections of deliveries used by the property statements -------------------------------------

/-- the message a delivery hands to the application (response future or callbacks) -/
def Delivery.msg? : Delivery → Option Msg
  | .response m => some m
  | .callback m => some m
  | _ => none

def Delivery.err? : Delivery → Option ErrKind
  | .errback k => some k
  | _ => none

def Event.msg? : Event → Option Msg
  | .message m _ => some m
  | _ => none

/-- messages handed to the application, in order -/
def handedOver (ds : List Delivery) : List Msg := ds.filterMap Delivery.msg?

/-- termination signals given to the errbacks, in order -/
def errbacks (ds : List Delivery) : List ErrKind := ds.filterMap Delivery.err?

/-- messages that arrived on the pipe, in order -/
def arrived (es : List TEvent) : List Msg := es.filterMap (fun e => e.ev.msg?)

def acceptedOf (td : Nat × Delivery) : Option (Nat × Nat) :=
  match td.2.msg? with
  | some m => m.notif.map (fun v => (v, td.1))
  | none => none

/-- `(Observe value, arrival time)` of the notifications handed to the application, in order -/
def accepted (tr : List (Nat × Delivery)) : List (Nat × Nat) := tr.filterMap acceptedOf

theorem accepted_append (a b : List (Nat × Delivery)) :
    accepted (a ++ b) = accepted a ++ accepted b := by simp [accepted]

theorem handedOver_append (a b : List Delivery) :
    handedOver (a ++ b) = handedOver a ++ handedOver b := by simp [handedOver]

theorem errbacks_append (a b : List Delivery) :
    errbacks (a ++ b) = errbacks a ++ errbacks b := by simp [errbacks]

@[simp] theorem accepted_nil : accepted [] = [] := rfl
@[simp] theorem accepted_cons_errback (t : Nat) (k : ErrKind) (l : List (Nat × Delivery)) :
    accepted ((t, .errback k) :: l) = accepted l := by
  simp [accepted, List.filterMap_cons, acceptedOf, Delivery.msg?]
@[simp] theorem accepted_cons_stop (t : Nat) (l : List (Nat × Delivery)) :
    accepted ((t, .stopInterest) :: l) = accepted l := by
  simp [accepted, List.filterMap_cons, acceptedOf, Delivery.msg?]
@[simp] theorem accepted_cons_responseExc (t k : Nat) (l : List (Nat × Delivery)) :
    accepted ((t, .responseExc k) :: l) = accepted l := by
  simp [accepted, List.filterMap_cons, acceptedOf, Delivery.msg?]
theorem accepted_cons_response (t : Nat) (m : Msg) (l : List (Nat × Delivery)) :
    accepted ((t, .response m) :: l) = (m.notif.map (fun v => (v, t))).toList ++ accepted l := by
  cases h : m.notif <;> simp [accepted, acceptedOf, Delivery.msg?, h]
theorem accepted_cons_callback (t : Nat) (m : Msg) (l : List (Nat × Delivery)) :
    accepted ((t, .callback m) :: l) = (m.notif.map (fun v => (v, t))).toList ++ accepted l := by
  cases h : m.notif <;> simp [accepted, acceptedOf, Delivery.msg?, h]

@[simp] theorem handedOver_nil : handedOver [] = [] := rfl
@[simp] theorem handedOver_cons_response (m : Msg) (l : List Delivery) :
    handedOver (.response m :: l) = m :: handedOver l := by simp [handedOver, Delivery.msg?]
@[simp] theorem handedOver_cons_callback (m : Msg) (l : List Delivery) :
    handedOver (.callback m :: l) = m :: handedOver l := by simp [handedOver, Delivery.msg?]
@[simp] theorem handedOver_cons_errback (k : ErrKind) (l : List Delivery) :
    handedOver (.errback k :: l) = handedOver l := by simp [handedOver, List.filterMap_cons, Delivery.msg?]
@[simp] theorem handedOver_cons_stop (l : List Delivery) :
    handedOver (.stopInterest :: l) = handedOver l := by simp [handedOver, List.filterMap_cons, Delivery.msg?]
@[simp] theorem handedOver_cons_responseExc (k : Nat) (l : List Delivery) :
    handedOver (.responseExc k :: l) = handedOver l := by simp [handedOver, List.filterMap_cons, Delivery.msg?]

@[simp] theorem errbacks_nil : errbacks [] = [] := rfl
@[simp] theorem errbacks_cons_response (m : Msg) (l : List Delivery) :
    errbacks (.response m :: l) = errbacks l := by simp [errbacks, List.filterMap_cons, Delivery.err?]
@[simp] theorem errbacks_cons_callback (m : Msg) (l : List Delivery) :
    errbacks (.callback m :: l) = errbacks l := by simp [errbacks, List.filterMap_cons, Delivery.err?]
@[simp] theorem errbacks_cons_errback (k : ErrKind) (l : List Delivery) :
    errbacks (.errback k :: l) = k :: errbacks l := by simp [errbacks, Delivery.err?]
@[simp] theorem errbacks_cons_stop (l : List Delivery) :
    errbacks (.stopInterest :: l) = errbacks l := by simp [errbacks, List.filterMap_cons, Delivery.err?]
@[simp] theorem errbacks_cons_responseExc (k : Nat) (l : List Delivery) :
    errbacks (.responseExc k :: l) = errbacks l := by simp [errbacks, List.filterMap_cons, Delivery.err?]

-- run ------------------------------------------------------------------------------------------

theorem run_nil (cfg : Cfg) (s : ObsState) : run cfg s [] = (s, []) := rfl

theorem trace_nil (cfg : Cfg) (s : ObsState) : trace cfg s [] = [] := rfl

theorem trace_cons (cfg : Cfg) (s : ObsState) (e : TEvent) (es : List TEvent) :
    trace cfg s (e :: es) =
      (step cfg s e).2.map (fun d => (e.time, d)) ++ trace cfg (step cfg s e).1 es := rfl

theorem finalState_nil (cfg : Cfg) (s : ObsState) : finalState cfg s [] = s := rfl

theorem finalState_cons (cfg : Cfg) (s : ObsState) (e : TEvent) (es : List TEvent) :
    finalState cfg s (e :: es) = finalState cfg (step cfg s e).1 es := rfl

theorem deliveries_nil (cfg : Cfg) (s : ObsState) : deliveries cfg s [] = [] := rfl

theorem deliveries_cons (cfg : Cfg) (s : ObsState) (e : TEvent) (es : List TEvent) :
    deliveries cfg s (e :: es) = (step cfg s e).2 ++ deliveries cfg (step cfg s e).1 es := by
  simp [deliveries, trace_cons, Function.comp_def]

theorem finalState_append (cfg : Cfg) (s : ObsState) (es es' : List TEvent) :
    finalState cfg s (es ++ es') = finalState cfg (finalState cfg s es) es' := by
  induction es generalizing s with
  | nil => rfl
  | cons e es ih => simp only [List.cons_append, finalState_cons, ih]

theorem trace_append (cfg : Cfg) (s : ObsState) (es es' : List TEvent) :
    trace cfg s (es ++ es') = trace cfg s es ++ trace cfg (finalState cfg s es) es' := by
  induction es generalizing s with
  | nil => simp [trace_nil, finalState_nil]
  | cons e es ih => simp only [List.cons_append, trace_cons, finalState_cons, ih, List.append_assoc]

theorem deliveries_append (cfg : Cfg) (s : ObsState) (es es' : List TEvent) :
    deliveries cfg s (es ++ es') =
      deliveries cfg s es ++ deliveries cfg (finalState cfg s es) es' := by
  simp [deliveries, trace_append]

-- single steps from `observing` ------------------------------------------------------------------

/-- what one notification does while an observation is established -/
theorem step_notification (cfg : Cfg) (v1 t1 t : Nat) (m : Msg) (v2 : Nat) (last : Bool)
    (h : m.notif = some v2) :
    step cfg (.observing v1 t1) ⟨t, .message m last⟩ =
      (if last then .ended else if fresher cfg.reset v1 t1 v2 t then
          (if m.cancels then .appCancelled else .observing v2 t)
        else .observing v1 t1,
       (if fresher cfg.reset v1 t1 v2 t then [.callback m] else []) ++
       (if last then
          (if fresher cfg.reset v1 t1 v2 t && m.cancels then [] else [.errback .observationCancelled])
        else [])) := by
  simp only [step, stepObserving, h]
  cases last <;> cases fresher cfg.reset v1 t1 v2 t <;> cases m.cancels <;> simp

/-- what a response that is not a notification (no Observe option, or not a 2.xx code) does while
an observation is established -/
theorem step_final (cfg : Cfg) (v1 t1 t : Nat) (m : Msg) (last : Bool) (h : m.notif = none) :
    step cfg (.observing v1 t1) ⟨t, .message m last⟩ =
      (.ended, .callback m :: (if m.cancels then [] else [.errback .observationCancelled]) ++
                 (if last then [] else [.stopInterest])) := by
  simp only [step, stepObserving, h]

-- states in which nothing is handed over any more ----------------------------------------------

/-- the application cancelled, the runner has returned, or the model was left -/
def Quiet (s : ObsState) : Prop := s = .appCancelled ∨ s = .ended ∨ s = .unmodelled

/-- the runner has returned (or the model was left from there) -/
def Over (s : ObsState) : Prop := s = .ended ∨ s = .unmodelled

theorem Over.quiet {s : ObsState} (h : Over s) : Quiet s := by
  rcases h with h | h <;> simp [Quiet, h]

theorem over_step {cfg : Cfg} {s : ObsState} (h : Over s) (e : TEvent) :
    Over (step cfg s e).1 ∧ (step cfg s e).2 = [] := by
  rcases h with h | h <;> subst h
  · simp only [step, Over]
    split <;> simp
  · simp [step, Over]

theorem over_run {cfg : Cfg} {s : ObsState} (h : Over s) (es : List TEvent) :
    Over (finalState cfg s es) ∧ trace cfg s es = [] := by
  induction es generalizing s with
  | nil => exact ⟨h, rfl⟩
  | cons e es ih =>
    obtain ⟨h1, h2⟩ := over_step (cfg := cfg) h e
    obtain ⟨h3, h4⟩ := ih h1
    exact ⟨by rw [finalState_cons]; exact h3, by rw [trace_cons, h2, h4]; rfl⟩

theorem quiet_step {cfg : Cfg} {s : ObsState} (h : Quiet s) (e : TEvent) :
    Quiet (step cfg s e).1 ∧ ∀ d ∈ (step cfg s e).2, d = .stopInterest := by
  rcases h with h | h | h
  · subst h
    obtain ⟨t, ev⟩ := e
    cases ev <;> simp [step, stepCancelled, Quiet]
  · have := over_step (cfg := cfg) (Or.inl h) e
    exact ⟨this.1.quiet, by rw [this.2]; simp⟩
  · have := over_step (cfg := cfg) (Or.inr h) e
    exact ⟨this.1.quiet, by rw [this.2]; simp⟩

theorem quiet_run {cfg : Cfg} {s : ObsState} (h : Quiet s) (es : List TEvent) :
    Quiet (finalState cfg s es) ∧ ∀ td ∈ trace cfg s es, td.2 = .stopInterest := by
  induction es generalizing s with
  | nil => exact ⟨h, by simp [trace_nil]⟩
  | cons e es ih =>
    obtain ⟨h1, h2⟩ := quiet_step (cfg := cfg) h e
    obtain ⟨h3, h4⟩ := ih h1
    refine ⟨by rw [finalState_cons]; exact h3, ?_⟩
    intro td htd
    rw [trace_cons, List.mem_append] at htd
    rcases htd with htd | htd
    · obtain ⟨d, hd, rfl⟩ := List.mem_map.mp htd
      exact h2 d hd
    · exact h4 td htd

theorem quiet_accepted {cfg : Cfg} {s : ObsState} (h : Quiet s) (es : List TEvent) :
    accepted (trace cfg s es) = [] := by
  simp only [accepted, List.filterMap_eq_nil_iff]
  intro td htd
  have := (quiet_run (cfg := cfg) h es).2 td htd
  simp [acceptedOf, this, Delivery.msg?]

theorem quiet_handedOver {cfg : Cfg} {s : ObsState} (h : Quiet s) (es : List TEvent) :
    handedOver (deliveries cfg s es) = [] := by
  simp only [handedOver, deliveries, List.filterMap_eq_nil_iff]
  intro d hd
  obtain ⟨td, htd, rfl⟩ := List.mem_map.mp hd
  have := (quiet_run (cfg := cfg) h es).2 td htd
  simp [this, Delivery.msg?]

theorem quiet_errbacks {cfg : Cfg} {s : ObsState} (h : Quiet s) (es : List TEvent) :
    errbacks (deliveries cfg s es) = [] := by
  simp only [errbacks, deliveries, List.filterMap_eq_nil_iff]
  intro d hd
  obtain ⟨td, htd, rfl⟩ := List.mem_map.mp hd
  have := (quiet_run (cfg := cfg) h es).2 td htd
  simp [this, Delivery.err?]

-- the application cancelled the observation before the first response --------------------------------

/-- a delivery that tells the observation's listeners something -/
def Delivery.isSignal : Delivery → Bool
  | .callback _ => true
  | .errback _ => true
  | _ => false

/-- whatever comes first after `observation.cancel()` before the first response: the runner is
quiet afterwards (or still waiting for its first event, if the application merely cancelled once
more), the observation's listeners got nothing, at most the response future completed -/
theorem cancelledFirst_step (cfg : Cfg) (e : TEvent) :
    ((step cfg .cancelledFirst e).1 = .cancelledFirst ∧ (step cfg .cancelledFirst e).2 = [] ∨
      Quiet (step cfg .cancelledFirst e).1) ∧
    (∀ d ∈ (step cfg .cancelledFirst e).2, d.isSignal = false) ∧
    (accepted ((step cfg .cancelledFirst e).2.map (fun d => (e.time, d)))).length ≤ 1 := by
  obtain ⟨t, ev⟩ := e
  cases ev with
  | message m last =>
    cases last
    · cases hv : m.notif <;>
        simp [step, stepCancelledFirst, hv, Quiet, Delivery.isSignal, accepted_cons_response]
    · cases hv : m.notif <;>
        simp [step, stepCancelledFirst, Quiet, Delivery.isSignal, accepted_cons_response, hv]
  | exception k => simp [step, stepCancelledFirst, Quiet, Delivery.isSignal]
  | obsCancel => simp [step, stepCancelledFirst]
  | respCancel => simp [step, stepCancelledFirst, Quiet, Delivery.isSignal]

/-- the observation was cancelled by the application, or the runner is over -/
def Calm (s : ObsState) : Prop := s = .cancelledFirst ∨ Quiet s

theorem calm_step {cfg : Cfg} {s : ObsState} (h : Calm s) (e : TEvent) :
    Calm (step cfg s e).1 ∧ ∀ d ∈ (step cfg s e).2, d.isSignal = false := by
  rcases h with h | h
  · subst h
    refine ⟨?_, (cancelledFirst_step cfg e).2.1⟩
    rcases (cancelledFirst_step cfg e).1 with h1 | h1
    · exact Or.inl h1.1
    · exact Or.inr h1
  · obtain ⟨h1, h2⟩ := quiet_step (cfg := cfg) h e
    exact ⟨Or.inr h1, fun d hd => by rw [h2 d hd]; rfl⟩

theorem calm_run {cfg : Cfg} {s : ObsState} (h : Calm s) (es : List TEvent) :
    Calm (finalState cfg s es) ∧ ∀ d ∈ deliveries cfg s es, d.isSignal = false := by
  induction es generalizing s with
  | nil => exact ⟨h, by simp [deliveries_nil]⟩
  | cons e es ih =>
    obtain ⟨h1, h2⟩ := calm_step (cfg := cfg) h e
    obtain ⟨h3, h4⟩ := ih h1
    refine ⟨by rw [finalState_cons]; exact h3, ?_⟩
    intro d hd
    rw [deliveries_cons, List.mem_append] at hd
    rcases hd with hd | hd
    · exact h2 d hd
    · exact h4 d hd

theorem cancelledFirst_accepted (cfg : Cfg) (es : List TEvent) :
    (accepted (trace cfg .cancelledFirst es)).length ≤ 1 := by
  induction es with
  | nil => simp [trace_nil]
  | cons e es ih =>
    obtain ⟨h1, _, h3⟩ := cancelledFirst_step cfg e
    rw [trace_cons, accepted_append]
    rcases h1 with ⟨hs, hd⟩ | hq
    · rw [hs, hd]
      simpa using ih
    · rw [quiet_accepted hq, List.append_nil]
      exact h3

theorem cancelledFirst_not_observing (cfg : Cfg) (es : List TEvent) (v t : Nat) :
    finalState cfg .cancelledFirst es ≠ .observing v t := by
  induction es with
  | nil => simp [finalState_nil]
  | cons e es ih =>
    rw [finalState_cons]
    rcases (cancelledFirst_step cfg e).1 with ⟨hs, _⟩ | hq
    · rw [hs]; exact ih
    · intro he
      have := (quiet_run (cfg := cfg) hq es).1
      rw [he] at this
      simp [Quiet] at this

end Aiocoap.Observe
