import Proofs.Observe.StepSpec
/-! How the notification loop of a render task can end by itself (split off to keep build times short). -/
namespace Aiocoap.Observe.Server

/-- how a part of a step ended the task: by a successful last-marked notification (flagged
`lastSent`), by an unsuccessful response as the pipe's last event, or because a render raised -/
def EndKind (t' : Task) (acts : List Act) (raised : Prop) : Prop :=
  t'.lastSent = true ∨
  (∃ code body, Act.emit code none body true ∈ acts ∧ success code = false) ∨ raised

theorem EndKind.mono {t' : Task} {acts acts' : List Act} {p q : Prop} (h : EndKind t' acts p)
    (hs : ∀ a ∈ acts, a ∈ acts') (hpq : p → q) : EndKind t' acts' q := by
  rcases h with h | ⟨c, b, h, hc⟩ | h
  · exact Or.inl h
  · exact Or.inr (Or.inl ⟨c, b, hs _ h, hc⟩)
  · exact Or.inr (Or.inr (hpq h))

theorem afterLoop_end (t : Task) (r : Resp) (hd : (afterLoop t r).1.phase = .done) :
    EndKind (afterLoop t r).1 (afterLoop t r).2 (r.exc = true) := by
  unfold afterLoop at hd ⊢
  split
  · rename_i hg
    cases he : r.exc
    · simp only [he, Bool.false_or, Bool.not_eq_eq_eq_not, Bool.not_true] at hg
      exact Or.inr (Or.inl ⟨r.code, r.body, by simp [finish, he], hg⟩)
    · exact Or.inr (Or.inr rfl)
  · rename_i hg
    simp only [hg, Bool.false_eq_true, ↓reduceIte] at hd
    split
    · exact Or.inl rfl
    · rename_i hl; simp [hl] at hd

theorem atAwait_end (val : Nat) (t : Task) (plan : Plan)
    (htg : ∀ r, t.trig = some (some r) → r.exc = false)
    (hd : (atAwait val t plan).1.phase = .done) :
    EndKind (atAwait val t plan).1 (atAwait val t plan).2 (∃ code, plan = .imm code true) := by
  unfold atAwait at hd ⊢
  split
  · rename_i htr; simp [htr] at hd
  · rename_i r htr
    simp only [htr] at hd
    exact (afterLoop_end _ r hd).mono (fun a ha => ha) (fun he => by rw [htg r htr] at he; cases he)
  · rename_i htr
    simp only [htr] at hd
    cases plan with
    | susp => simp [renderResp] at hd
    | imm code exc =>
      simp only [renderResp] at hd ⊢
      refine (afterLoop_end _ _ hd).mono (fun a ha => List.mem_cons_of_mem _ ha) ?_
      intro he
      exact ⟨code, by simp only [] at he; rw [he]⟩

/-- a step that ends a task which was in its notification loop and had not been cancelled: either
the task ended by a successful last-marked notification (flagged `lastSent`), or the pipe's last
event is an unsuccessful response, or the resource's render raised (the one that had been
suspended, or the one called in this step) -/
theorem stepTask_loop_end (val : Nat) (t : Task) (plan : Plan) (acc : Bool)
    (hp : t.phase = .waitTrig ∨ t.phase = .loopRender) (hnc : t.cancelReq = false)
    (htg : ∀ r, t.trig = some (some r) → r.exc = false)
    (hd : (stepTask val t plan acc).1.phase = .done) :
    EndKind (stepTask val t plan acc).1 (stepTask val t plan acc).2
      ((∃ r, t.renderOut = some r ∧ r.exc = true) ∨ (∃ code, plan = .imm code true)) := by
  unfold stepTask at hd ⊢
  split
  · rename_i hr
    simp only [hr, ↓reduceIte] at hd
    rcases hp with hp | hp <;> simp [hp] at hd
  rename_i hr
  simp only [hr, hnc, Bool.false_eq_true, ↓reduceIte] at hd ⊢
  rcases hp with hp | hp
  · simp only [hp] at hd ⊢
    exact (atAwait_end val t plan htg hd).mono (fun a ha => ha) Or.inr
  · simp only [hp] at hd ⊢
    split
    · rename_i r hro
      simp only [hro] at hd
      (try dsimp only at hd ⊢)
      split
      · rename_i hdd
        exact (afterLoop_end t r (by simpa using hdd)).mono (fun a ha => ha)
          (fun he => Or.inl ⟨r, hro, he⟩)
      · rename_i hnd
        simp only [hnd, Bool.false_eq_true, ↓reduceIte] at hd
        have htg' : ∀ r', (afterLoop t r).1.trig = some (some r') → r'.exc = false := by
          intro r' h'
          apply htg r'
          unfold afterLoop at h'
          split at h'
          · exact h'
          · split at h'
            · exact h'
            · exact h'
        exact (atAwait_end val _ plan htg' hd).mono (fun a ha => List.mem_append_right _ ha) Or.inr
    · rename_i hro
      simp [hro] at hd

end Aiocoap.Observe.Server
