import AiocoapModel.Observe.Fresh
/-! Arithmetic of the RFC 7641 §3.4 comparison. -/
namespace Aiocoap.Observe

/-- the coded `is_recent` is the RFC's condition -/
theorem fresher_iff (reset v1 t1 v2 t2 : Nat) :
    fresher reset v1 t1 v2 t2 = true ↔ Rfc7641Fresher reset v1 t1 v2 t2 := by
  simp [fresher, Rfc7641Fresher, or_assoc]

theorem fresher_eq (reset v1 t1 v2 t2 : Nat) :
    fresher reset v1 t1 v2 t2 = (serialFresher v1 v2 || decide (t2 > t1 + reset)) := rfl

theorem serialFresher_iff (v1 v2 : Nat) :
    serialFresher v1 v2 = true ↔ (v1 < v2 ∧ v2 - v1 < 2 ^ 23) ∨ (v1 > v2 ∧ v1 - v2 > 2 ^ 23) := by
  simp [serialFresher]

theorem serialFresher_irrefl (v : Nat) : serialFresher v v = false := by
  simp [serialFresher]

/-- never both ways round (also not for values outside 24 bits) -/
theorem serialFresher_asymm {a b : Nat} (h : serialFresher a b = true) : serialFresher b a = false := by
  cases hb : serialFresher b a with
  | false => rfl
  | true =>
    rw [serialFresher_iff] at h hb
    omega

/-- exactly half the circle apart: neither is fresher than the other -/
theorem serialFresher_half (a : Nat) :
    serialFresher a (a + 2 ^ 23) = false ∧ serialFresher (a + 2 ^ 23) a = false := by
  constructor
  · cases h : serialFresher a (a + 2 ^ 23) with
    | false => rfl
    | true => rw [serialFresher_iff] at h; omega
  · cases h : serialFresher (a + 2 ^ 23) a with
    | false => rfl
    | true => rw [serialFresher_iff] at h; omega

theorem soff_lt (b v : Nat) : soff b v < 2 ^ 24 := by
  unfold soff; omega

theorem soff_self (b : Nat) : soff b b = 0 := by
  unfold soff; omega

theorem soff_zero (v : Nat) (h : v < 2 ^ 24) : soff 0 v = v := by
  unfold soff; omega

/-- Serial-number arithmetic: for 24-bit numbers that lie within one half of the circle, counted
from any base `b` (so wrap-around at 2^24 is included), "fresher" is "further ahead of `b`". -/
theorem serialFresher_soff (b v1 v2 : Nat) (h1 : v1 < 2 ^ 24) (h2 : v2 < 2 ^ 24)
    (o1 : soff b v1 < 2 ^ 23) (o2 : soff b v2 < 2 ^ 23) :
    serialFresher v1 v2 = true ↔ soff b v1 < soff b v2 := by
  rw [serialFresher_iff]
  unfold soff at *
  omega

/-- `soff b` is injective on 24-bit numbers -/
theorem soff_inj (b v1 v2 : Nat) (h1 : v1 < 2 ^ 24) (h2 : v2 < 2 ^ 24)
    (h : soff b v1 = soff b v2) : v1 = v2 := by
  unfold soff at *
  omega

end Aiocoap.Observe
