import Proofs.Observe.IterSim
/-! Invariants of the small iterator machine (`astep`), by case analysis. -/
namespace Aiocoap.Observe.Iter

variable {α : Type}

-- projections used by the property statements ---------------------------------------------------------

def Out.item? : Out α → Option α
  | .item m => some m
  | _ => none

def Out.isCancelled : Out α → Bool
  | .cancelled => true
  | _ => false

/-- the items that came out of `__anext__`, in order -/
def items (l : List (Out α)) : List α := l.filterMap Out.item?

/-- everything that came out of `__anext__` except the `CancelledError`s thrown into a consumer
task that was cancelled -/
def noCancel (l : List (Out α)) : List (Out α) := l.filter (fun o => !o.isCancelled)

def pushedOf : Op α → List α
  | .push m => [m]
  | _ => []

/-- the items given to the iterator, in order -/
def pushed (ops : List (Op α)) : List α := ops.flatMap pushedOf

def Op.isCons : Op α → Bool
  | .push _ => false
  | .pushErr _ => false
  | _ => true

/-- what `ClientObservation` guarantees about the way it feeds an iterator: after the error nothing
more is fed (`error()` can be called once and cancels the observation) -/
def wfOps : List (Op α) → Bool
  | [] => true
  | .pushErr _ :: r => r.all Op.isCons
  | _ :: r => wfOps r

def firstErr : List (Op α) → Option ErrKind
  | [] => none
  | .pushErr e :: _ => some e
  | _ :: r => firstErr r

/-- the items that can still come out without a further push: the result of the older future the
consumer is suspended on, then the result in the slot -/
def astored (a : A α) : List α :=
  (match a.cons with
   | .onOld (.result m) => [m]
   | _ => []) ++
  (match a.slot with
   | .result m => [m]
   | _ => [])

@[simp] theorem item?_item (m : α) : (Out.item m).item? = some m := rfl
@[simp] theorem item?_stop : (Out.stop : Out α).item? = none := rfl
@[simp] theorem item?_raise (k : Nat) : (Out.raise k : Out α).item? = none := rfl
@[simp] theorem item?_cancelled : (Out.cancelled : Out α).item? = none := rfl
@[simp] theorem isCancelled_item (m : α) : (Out.item m).isCancelled = false := rfl
@[simp] theorem isCancelled_stop : (Out.stop : Out α).isCancelled = false := rfl
@[simp] theorem isCancelled_raise (k : Nat) : (Out.raise k : Out α).isCancelled = false := rfl
@[simp] theorem isCancelled_cancelled : (Out.cancelled : Out α).isCancelled = true := rfl
@[simp] theorem endOut_item? (e : ErrKind) : (endOut e : Out α).item? = none := by
  cases e <;> rfl
@[simp] theorem endOut_isCancelled (e : ErrKind) : (endOut e : Out α).isCancelled = false := by
  cases e <;> rfl
theorem endOut_ne_item (e : ErrKind) (m : α) : (endOut e : Out α) ≠ .item m := by
  cases e <;> simp [endOut]

@[simp] theorem items_nil : items ([] : List (Out α)) = [] := rfl
theorem items_append (a b : List (Out α)) : items (a ++ b) = items a ++ items b := by
  simp [items]
theorem noCancel_append (a b : List (Out α)) : noCancel (a ++ b) = noCancel a ++ noCancel b := by
  simp [noCancel]
theorem pushed_cons (o : Op α) (os : List (Op α)) : pushed (o :: os) = pushedOf o ++ pushed os := by
  simp [pushed]

-- (i) subsequence: for every state and every operation --------------------------------------------------

theorem astep_stored (a : A α) (o : Op α) :
    (items (astep a o).2 ++ astored (astep a o).1).Sublist (astored a ++ pushedOf o) := by
  obtain ⟨slot, d, c⟩ := a
  cases o with
  | push m =>
    cases c with
    | idle => cases slot <;> simp [astep, apush, astored, items, pushedOf, Fut.done, ACons.aged]
    | onSlot => cases slot <;> simp [astep, apush, astored, items, pushedOf, Fut.done, ACons.aged]
    | onOld c =>
      cases slot <;> cases c <;> simp [astep, apush, astored, items, pushedOf, Fut.done, ACons.aged]
  | pushErr e =>
    cases c with
    | idle => cases slot <;> simp [astep, apushErr, astored, items, pushedOf, ACons.aged]
    | onSlot => cases slot <;> simp [astep, apushErr, astored, items, pushedOf, ACons.aged]
    | onOld c =>
      cases slot <;> cases c <;> simp [astep, apushErr, astored, items, pushedOf, ACons.aged]
  | next =>
    cases c with
    | idle =>
      cases slot <;> cases d <;>
        simp [astep, afinishSlot, astored, items, pushedOf, Fut.done, freshFut]
    | onSlot => simp [astep, pushedOf, items]
    | onOld c => simp [astep, pushedOf, items]
  | wake =>
    cases c with
    | idle => simp [astep, pushedOf, items]
    | onSlot =>
      cases slot <;> cases d <;>
        simp [astep, afinishSlot, astored, items, pushedOf, Fut.done, freshFut]
    | onOld c =>
      cases c <;> cases slot <;>
        simp [astep, afinishOld, astored, items, pushedOf, Fut.done]
  | cancel =>
    cases c with
    | idle => simp [astep, pushedOf, items]
    | onSlot =>
      cases slot <;> simp [astep, astored, items, pushedOf, Fut.done]
    | onOld c =>
      cases c <;> cases slot <;> simp [astep, astored, items, pushedOf, Fut.done]

theorem arun_stored (a : A α) (ops : List (Op α)) :
    (items (arun a ops).2).Sublist (astored a ++ pushed ops) := by
  induction ops generalizing a with
  | nil => simp [arun, pushed]
  | cons o os ih =>
    simp only [arun, items_append, pushed_cons]
    have h1 := ih (astep a o).1
    have h2 := astep_stored a o
    have h3 : (items (astep a o).2 ++ items (arun (astep a o).1 os).2).Sublist
        (items (astep a o).2 ++ (astored (astep a o).1 ++ pushed os)) :=
      List.Sublist.append (List.Sublist.refl _) h1
    rw [← List.append_assoc] at h3 ⊢
    exact h3.trans (List.Sublist.append h2 (List.Sublist.refl _))

-- (ii) the latest item is only ever replaced by a newer item ------------------------------------------

theorem astep_latest_kept (a : A α) (m : α) (h : a.slot = .result m) (o : Op α)
    (ho : ∀ m', o ≠ .push m') :
    (astep a o).1.slot = .result m ∨ (astep a o).2 = [.item m] := by
  obtain ⟨slot, d, c⟩ := a
  simp only at h
  subst h
  cases o with
  | push m' => exact absurd rfl (ho m')
  | pushErr e => left; simp [astep, apushErr]
  | next => cases c <;> simp [astep, afinishSlot, Fut.done]
  | wake =>
    cases c with
    | idle => simp [astep]
    | onSlot => simp [astep, afinishSlot, Fut.done]
    | onOld c => cases c <;> simp [astep, afinishOld, Fut.done]
  | cancel => cases c <;> simp [astep, Fut.done]

/-- a consumer suspended on an older future that holds a result: the slot holds a (newer) result -/
def ConsW (a : A α) : Prop := ∀ m0, a.cons = .onOld (.result m0) → ∃ m, a.slot = .result m

theorem consW_step (a : A α) (h : ConsW a) (o : Op α) : ConsW (astep a o).1 := by
  obtain ⟨slot, d, c⟩ := a
  unfold ConsW at h ⊢
  cases o with
  | push m =>
    cases c with
    | idle => cases slot <;> simp [astep, apush, Fut.done, ACons.aged]
    | onSlot => cases slot <;> simp [astep, apush, Fut.done, ACons.aged]
    | onOld c => cases slot <;> simp [astep, apush, Fut.done, ACons.aged]
  | pushErr e =>
    cases c with
    | idle => cases slot <;> simp [astep, apushErr, ACons.aged]
    | onSlot => cases slot <;> simp [astep, apushErr, ACons.aged]
    | onOld c =>
      cases slot with
      | result m => simpa [astep, apushErr] using h
      | pending => simpa [astep, apushErr] using h
      | exc e' => simpa [astep, apushErr, ACons.aged] using h
      | cancelled => simpa [astep, apushErr, ACons.aged] using h
  | next =>
    cases c with
    | idle => cases slot <;> simp [astep, afinishSlot, Fut.done]
    | onSlot => simp [astep]
    | onOld c => simpa [astep] using h
  | wake =>
    cases c with
    | idle => simp [astep]
    | onSlot => cases slot <;> simp [astep, afinishSlot, Fut.done]
    | onOld c => cases c <;> first | simpa [astep, afinishOld, Fut.done] using h | simp [astep, afinishOld, Fut.done]
  | cancel =>
    cases c with
    | idle => simp [astep]
    | onSlot => cases slot <;> simp [astep, Fut.done]
    | onOld c => simp [astep]

/-- a push puts its item at the end of what is stored, keeping at most the older future's item -/
theorem astored_push (a : A α) (m : α) :
    ∃ x, astored (apush a m) = x ++ [m] ∧ x.Sublist (astored a) := by
  obtain ⟨slot, d, c⟩ := a
  cases c with
  | idle => cases slot <;> exact ⟨[], by simp [apush, astored, Fut.done, ACons.aged]⟩
  | onSlot =>
    cases slot with
    | pending => exact ⟨[], by simp [apush, astored, Fut.done, ACons.aged]⟩
    | result m' => exact ⟨[m'], by simp [apush, astored, Fut.done, ACons.aged]⟩
    | exc e => exact ⟨[], by simp [apush, astored, Fut.done, ACons.aged]⟩
    | cancelled => exact ⟨[], by simp [apush, astored, Fut.done, ACons.aged]⟩
  | onOld c =>
    cases c with
    | result m0 => cases slot <;> exact ⟨[m0], by simp [apush, astored, Fut.done, ACons.aged]⟩
    | pending => cases slot <;> exact ⟨[], by simp [apush, astored, Fut.done, ACons.aged]⟩
    | exc e => cases slot <;> exact ⟨[], by simp [apush, astored, Fut.done, ACons.aged]⟩
    | cancelled => cases slot <;> exact ⟨[], by simp [apush, astored, Fut.done, ACons.aged]⟩

/-- any other operation: what came out plus what is still stored is what was stored, except that a
consumer cancelled when it was about to receive the older future's item loses that item — never
the last one -/
theorem astep_conserve (a : A α) (h : ConsW a) (o : Op α) (ho : ∀ m', o ≠ .push m') :
    (items (astep a o).2 ++ astored (astep a o).1).Sublist (astored a) ∧
    (items (astep a o).2 ++ astored (astep a o).1).getLast? = (astored a).getLast? := by
  obtain ⟨slot, d, c⟩ := a
  unfold ConsW at h
  cases o with
  | push m' => exact absurd rfl (ho m')
  | pushErr e =>
    cases c with
    | idle => cases slot <;> simp [astep, apushErr, astored, ACons.aged]
    | onSlot => cases slot <;> simp [astep, apushErr, astored, ACons.aged]
    | onOld c => cases slot <;> cases c <;> simp [astep, apushErr, astored, ACons.aged]
  | next =>
    cases c with
    | idle => cases slot <;> cases d <;> simp [astep, afinishSlot, astored, items, Fut.done, freshFut]
    | onSlot => simp [astep]
    | onOld c => simp [astep]
  | wake =>
    cases c with
    | idle => simp [astep]
    | onSlot =>
      cases slot <;> cases d <;> simp [astep, afinishSlot, astored, items, Fut.done, freshFut]
    | onOld c => cases c <;> cases slot <;> simp [astep, afinishOld, astored, items, Fut.done]
  | cancel =>
    cases c with
    | idle => simp [astep]
    | onSlot => cases slot <;> simp [astep, astored, items, Fut.done]
    | onOld c =>
      cases c with
      | result m0 =>
        obtain ⟨m, hm⟩ := h m0 rfl
        simp only at hm
        subst hm
        simp [astep, astored, items]
      | pending => cases slot <;> simp [astep, astored, items]
      | exc e => cases slot <;> simp [astep, astored, items]
      | cancelled => cases slot <;> simp [astep, astored, items]

theorem getLast?_append_congr {β : Type} (l x y : List β) (h : x.getLast? = y.getLast?) :
    (l ++ x).getLast? = (l ++ y).getLast? := by
  simp [List.getLast?_append, h]

/-- **the latest item pushed is the last of what came out and what is still stored** — for every
sequence of operations whatsoever -/
theorem arun_latest (a : A α) (h : ConsW a) (O : List (Out α)) (P : List α)
    (hl : (items O ++ astored a).getLast? = P.getLast?) (ops : List (Op α)) :
    ConsW (arun a ops).1 ∧
    (items (O ++ (arun a ops).2) ++ astored (arun a ops).1).getLast? = (P ++ pushed ops).getLast? := by
  induction ops generalizing a O P with
  | nil => exact ⟨h, by simpa [arun, pushed] using hl⟩
  | cons o os ih =>
    have hw := consW_step a h o
    simp only [arun, pushed_cons]
    rw [← List.append_assoc, ← List.append_assoc]
    apply ih (astep a o).1 hw
    by_cases hp : ∃ m, o = .push m
    · obtain ⟨m, rfl⟩ := hp
      obtain ⟨x, hx, _⟩ := astored_push a m
      simp [astep, hx, pushedOf, items_append, ← List.append_assoc]
    · have ho : ∀ m', o ≠ .push m' := fun m' hm => hp ⟨m', hm⟩
      have hc := (astep_conserve a h o ho).2
      have hpo : pushedOf o = [] := by
        cases o <;> first | rfl | exact absurd rfl (ho _)
      rw [hpo, List.append_nil, items_append, List.append_assoc, ← hl]
      exact getLast?_append_congr _ _ _ hc

theorem latest_cases (a : A α) (hw : ConsW a) (L : List α) (m : α)
    (h : (L ++ astored a).getLast? = some m) : a.slot = .result m ∨ L.getLast? = some m := by
  obtain ⟨slot, d, c⟩ := a
  cases slot with
  | result m1 =>
    left
    cases c with
    | onOld c => cases c <;> simp [astored, List.getLast?_append] at h <;> simp [h]
    | idle => simp [astored, List.getLast?_append] at h; simp [h]
    | onSlot => simp [astored, List.getLast?_append] at h; simp [h]
  | pending =>
    right
    cases c with
    | onOld c =>
      cases c with
      | result m0 => obtain ⟨m1, hm1⟩ := hw m0 rfl; cases hm1
      | pending => simpa [astored] using h
      | exc e => simpa [astored] using h
      | cancelled => simpa [astored] using h
    | idle => simpa [astored] using h
    | onSlot => simpa [astored] using h
  | exc e' =>
    right
    cases c with
    | onOld c =>
      cases c with
      | result m0 => obtain ⟨m1, hm1⟩ := hw m0 rfl; cases hm1
      | pending => simpa [astored] using h
      | exc e => simpa [astored] using h
      | cancelled => simpa [astored] using h
    | idle => simpa [astored] using h
    | onSlot => simpa [astored] using h
  | cancelled =>
    right
    cases c with
    | onOld c =>
      cases c with
      | result m0 => obtain ⟨m1, hm1⟩ := hw m0 rfl; cases hm1
      | pending => simpa [astored] using h
      | exc e => simpa [astored] using h
      | cancelled => simpa [astored] using h
    | idle => simpa [astored] using h
    | onSlot => simpa [astored] using h

end Aiocoap.Observe.Iter
