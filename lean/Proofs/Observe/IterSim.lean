import Proofs.Observe.IterAbs
/-! The model with future identities refines the small machine (`step_abs`, `run_abs`). -/
namespace Aiocoap.Observe.Iter

variable {α : Type}

theorem abs_slot (s : St α) : (abs s).slot = s.get s.slot := rfl
theorem abs_deferred (s : St α) : (abs s).deferred = s.deferred := rfl

theorem abs_cons_idle (s : St α) (h : s.cons = .idle) : (abs s).cons = .idle := by
  simp [abs, h]

theorem abs_cons_slot (s : St α) (h : s.cons = .waiting s.slot) : (abs s).cons = .onSlot := by
  simp [abs, h]

theorem abs_cons_old (s : St α) (f : Nat) (h : s.cons = .waiting f) (hf : f ≠ s.slot) :
    (abs s).cons = .onOld (s.get f) := by
  simp [abs, h, hf]

theorem A.ext' {a b : A α} (h1 : a.slot = b.slot) (h2 : a.deferred = b.deferred)
    (h3 : a.cons = b.cons) : a = b := by
  cases a; cases b; simp_all

/-- a new future in the slot -/
theorem install_abs (s : St α) (h : WF s) (c : Fut α) :
    WF (s.install c) ∧
    abs (s.install c) =
      { slot := c, deferred := s.deferred, cons := (abs s).cons.aged (s.get s.slot) } := by
  obtain ⟨hs, hw⟩ := h
  refine ⟨⟨by simp [St.install], ?_⟩, ?_⟩
  · intro f hf
    have := hw f (by simpa [St.install] using hf)
    simp [St.install]; omega
  · apply A.ext'
    · rw [abs_slot, get_install_new]
    · rfl
    · cases hc : s.cons with
      | idle =>
        rw [abs_cons_idle _ (by simpa [St.install] using hc), abs_cons_idle _ hc]; rfl
      | waiting f =>
        have hfl := hw f hc
        have hne : f ≠ (s.install c).slot := by simp [St.install]; omega
        rw [abs_cons_old _ f (by simpa [St.install] using hc) hne, get_install_old _ _ _ hfl]
        by_cases hfs : f = s.slot
        · subst hfs
          rw [abs_cons_slot _ hc]; rfl
        · rw [abs_cons_old _ f hc hfs]; rfl

/-- the future in the slot is completed -/
theorem complete_abs (s : St α) (h : WF s) (c : Fut α) :
    WF (s.complete c) ∧ abs (s.complete c) = { abs s with slot := c } := by
  obtain ⟨hs, hw⟩ := h
  refine ⟨⟨by simpa [St.complete] using hs, ?_⟩, ?_⟩
  · intro f hf
    have := hw f (by simpa [St.complete] using hf)
    simpa [St.complete] using this
  · apply A.ext'
    · rw [abs_slot, get_complete_slot _ _ hs]
    · rfl
    · cases hc : s.cons with
      | idle =>
        rw [abs_cons_idle _ (by simpa [St.complete] using hc)]
        simp [abs_cons_idle _ hc]
      | waiting f =>
        by_cases hfs : f = s.slot
        · subst hfs
          rw [abs_cons_slot _ (by simpa [St.complete] using hc)]
          simp [abs_cons_slot _ hc]
        · rw [abs_cons_old _ f (by simpa [St.complete] using hc) (by simpa [St.complete] using hfs),
            get_complete_other _ _ _ hfs]
          simp [abs_cons_old _ f hc hfs]

theorem push_abs (s : St α) (h : WF s) (m : α) :
    WF (push s m) ∧ abs (push s m) = apush (abs s) m := by
  unfold push apush
  rw [abs_slot]
  by_cases hd : (s.get s.slot).done = true
  · simp only [hd, ↓reduceIte]
    exact ⟨(install_abs s h _).1, by rw [(install_abs s h _).2]; rfl⟩
  · simp only [hd, Bool.false_eq_true, ↓reduceIte]
    exact (complete_abs s h _)

theorem pushErr_abs (s : St α) (h : WF s) (e : ErrKind) :
    WF (pushErr s e) ∧ abs (pushErr s e) = apushErr (abs s) e := by
  cases hg : s.get s.slot with
  | pending =>
    have h1 : pushErr s e = s.complete (.exc e) := by simp [pushErr, hg]
    have h2 : apushErr (abs s) e = { abs s with slot := .exc e } := by simp [apushErr, abs_slot, hg]
    rw [h1, h2]; exact complete_abs s h _
  | result m =>
    have h1 : pushErr s e = { s with deferred := some e } := by simp [pushErr, hg]
    have h2 : apushErr (abs s) e = { abs s with deferred := some e } := by
      simp [apushErr, abs_slot, hg]
    rw [h1, h2]
    refine ⟨h, ?_⟩
    apply A.ext' <;> rfl
  | exc e' =>
    have h1 : pushErr s e = s.install (.exc e) := by simp [pushErr, hg]
    have h2 : apushErr (abs s) e =
        { abs s with slot := .exc e, cons := (abs s).cons.aged (s.get s.slot) } := by
      simp [apushErr, abs_slot, hg]
    rw [h1, h2]
    exact ⟨(install_abs s h _).1, by rw [(install_abs s h _).2]; rfl⟩
  | cancelled =>
    have h1 : pushErr s e = s.install (.exc e) := by simp [pushErr, hg]
    have h2 : apushErr (abs s) e =
        { abs s with slot := .exc e, cons := (abs s).cons.aged (s.get s.slot) } := by
      simp [apushErr, abs_slot, hg]
    rw [h1, h2]
    exact ⟨(install_abs s h _).1, by rw [(install_abs s h _).2]; rfl⟩

/-- the consumer leaves `__anext__` -/
theorem idle_abs (s : St α) (h : WF s) :
    WF { s with cons := .idle } ∧ abs { s with cons := .idle } = { abs s with cons := .idle } := by
  refine ⟨⟨h.1, by intro f hf; cases hf⟩, ?_⟩
  apply A.ext' <;> rfl

theorem finish_slot_abs (s : St α) (h : WF s) (hd : (s.get s.slot).done = true) :
    WF (finish s s.slot).1 ∧ abs (finish s s.slot).1 = (afinishSlot (abs s)).1 ∧
    (finish s s.slot).2 = (afinishSlot (abs s)).2 := by
  cases hg : s.get s.slot with
  | pending => rw [hg] at hd; cases hd
  | result m =>
    have h1 : finish s s.slot =
        ({ futs := s.futs ++ [freshFut s.deferred],
           slot := s.futs.length, deferred := none, cons := .idle }, [.item m]) := by
      simp [finish, hg]
    have h2 : afinishSlot (abs s) =
        ({ slot := freshFut s.deferred, deferred := none, cons := .idle }, [.item m]) := by
      simp [afinishSlot, abs_slot, abs_deferred, hg]
    rw [h1, h2]
    refine ⟨⟨by simp, by intro f hf; cases hf⟩, ?_, rfl⟩
    apply A.ext'
    · simp [abs_slot, St.get]
    · rfl
    · rfl
  | exc e =>
    have h1 : finish s s.slot = ({ s with cons := .idle }, [endOut e]) := by simp [finish, hg]
    have h2 : afinishSlot (abs s) = ({ abs s with cons := .idle }, [endOut e]) := by
      simp [afinishSlot, abs_slot, hg]
    rw [h1, h2]
    exact ⟨(idle_abs s h).1, (idle_abs s h).2, rfl⟩
  | cancelled =>
    have h1 : finish s s.slot = ({ s with cons := .idle }, [.cancelled]) := by simp [finish, hg]
    have h2 : afinishSlot (abs s) = ({ abs s with cons := .idle }, [.cancelled]) := by
      simp [afinishSlot, abs_slot, hg]
    rw [h1, h2]
    exact ⟨(idle_abs s h).1, (idle_abs s h).2, rfl⟩

theorem finish_old_abs (s : St α) (h : WF s) (f : Nat) (hf : f ≠ s.slot)
    (hd : (s.get f).done = true) :
    WF (finish s f).1 ∧ abs (finish s f).1 = (afinishOld (abs s) (s.get f)).1 ∧
    (finish s f).2 = (afinishOld (abs s) (s.get f)).2 := by
  cases hg : s.get f with
  | pending => rw [hg] at hd; cases hd
  | result m =>
    have h1 : finish s f = ({ s with cons := .idle }, [.item m]) := by simp [finish, hg, hf]
    rw [h1]
    exact ⟨(idle_abs s h).1, (idle_abs s h).2, rfl⟩
  | exc e =>
    have h1 : finish s f = ({ s with cons := .idle }, [endOut e]) := by simp [finish, hg]
    rw [h1]
    exact ⟨(idle_abs s h).1, (idle_abs s h).2, rfl⟩
  | cancelled =>
    have h1 : finish s f = ({ s with cons := .idle }, [.cancelled]) := by simp [finish, hg]
    rw [h1]
    exact ⟨(idle_abs s h).1, (idle_abs s h).2, rfl⟩

theorem step_abs (s : St α) (h : WF s) (o : Op α) :
    WF (step s o).1 ∧ abs (step s o).1 = (astep (abs s) o).1 ∧ (step s o).2 = (astep (abs s) o).2 := by
  cases o with
  | push m => exact ⟨(push_abs s h m).1, (push_abs s h m).2, rfl⟩
  | pushErr e => exact ⟨(pushErr_abs s h e).1, (pushErr_abs s h e).2, rfl⟩
  | next =>
    cases hc : s.cons with
    | idle =>
      have hac := abs_cons_idle s hc
      by_cases hcan : s.get s.slot = .cancelled
      · -- the cancelled future is replaced by a pending one, on which the consumer then waits
        obtain ⟨hwf', habs'⟩ := install_abs s h (.pending : Fut α)
        have hg : (s.install (.pending : Fut α)).get (s.install (.pending : Fut α)).slot = .pending := by
          rw [← abs_slot, habs']
        have hci : (s.install (.pending : Fut α)).cons = .idle := by simpa [St.install] using hc
        have h1 : step s .next =
            ({ s.install (.pending : Fut α) with cons := .waiting (s.install (.pending : Fut α)).slot }, []) := by
          simp [step, hc, hcan, hg, Fut.done]
        have h2 : astep (abs s) .next =
            ({ ({ abs s with slot := .pending } : A α) with cons := .onSlot }, []) := by
          simp [astep, hac, abs_slot, hcan, Fut.done]
        rw [h1, h2]
        refine ⟨⟨hwf'.1, ?_⟩, ?_, rfl⟩
        · intro f hf
          simp only [Cons.waiting.injEq] at hf
          subst hf; exact hwf'.1
        · apply A.ext'
          · show (abs (s.install (.pending : Fut α))).slot = _
            rw [habs']
          · rfl
          · exact abs_cons_slot _ rfl
      by_cases hd : (s.get s.slot).done = true
      · have h1 : step s .next = finish s s.slot := by
          cases hg : s.get s.slot <;> simp_all [step]
        have h2 : astep (abs s) .next = afinishSlot (abs s) := by
          cases hg : s.get s.slot <;> simp_all [astep, abs_slot]
        rw [h1, h2]; exact finish_slot_abs s h hd
      · have h1 : step s .next = ({ s with cons := .waiting s.slot }, []) := by
          cases hg : s.get s.slot <;> simp_all [step]
        have h2 : astep (abs s) .next = ({ abs s with cons := .onSlot }, []) := by
          cases hg : s.get s.slot <;> simp_all [astep, abs_slot]
        rw [h1, h2]
        refine ⟨⟨h.1, ?_⟩, ?_, rfl⟩
        · intro f hf
          simp only [Cons.waiting.injEq] at hf
          subst hf; exact h.1
        · apply A.ext'
          · rfl
          · rfl
          · exact abs_cons_slot _ rfl
    | waiting f =>
      have h1 : step s .next = (s, []) := by simp [step, hc]
      have h2 : astep (abs s) .next = (abs s, []) := by
        by_cases hfs : f = s.slot
        · subst hfs; simp [astep, abs_cons_slot s hc]
        · simp [astep, abs_cons_old s f hc hfs]
      rw [h1, h2]; exact ⟨h, rfl, rfl⟩
  | wake =>
    cases hc : s.cons with
    | idle =>
      have h1 : step s .wake = (s, []) := by simp [step, hc]
      have h2 : astep (abs s) .wake = (abs s, []) := by simp [astep, abs_cons_idle s hc]
      rw [h1, h2]; exact ⟨h, rfl, rfl⟩
    | waiting f =>
      by_cases hd : (s.get f).done = true
      · by_cases hfs : f = s.slot
        · subst hfs
          have h1 : step s .wake = finish s s.slot := by simp [step, hc, hd]
          have h2 : astep (abs s) .wake = afinishSlot (abs s) := by
            simp [astep, abs_cons_slot s hc, abs_slot, hd]
          rw [h1, h2]; exact finish_slot_abs s h hd
        · have h1 : step s .wake = finish s f := by simp [step, hc, hd]
          have h2 : astep (abs s) .wake = afinishOld (abs s) (s.get f) := by
            simp [astep, abs_cons_old s f hc hfs, hd]
          rw [h1, h2]; exact finish_old_abs s h f hfs hd
      · have h1 : step s .wake = (s, []) := by simp [step, hc, hd]
        have h2 : astep (abs s) .wake = (abs s, []) := by
          by_cases hfs : f = s.slot
          · subst hfs; simp [astep, abs_cons_slot s hc, abs_slot, hd]
          · simp [astep, abs_cons_old s f hc hfs, hd]
        rw [h1, h2]; exact ⟨h, rfl, rfl⟩
  | cancel =>
    cases hc : s.cons with
    | idle =>
      have h1 : step s .cancel = (s, []) := by simp [step, hc]
      have h2 : astep (abs s) .cancel = (abs s, []) := by simp [astep, abs_cons_idle s hc]
      rw [h1, h2]; exact ⟨h, rfl, rfl⟩
    | waiting f =>
      have hfl := h.2 f hc
      by_cases hd : (s.get f).done = true
      · have h1 : step s .cancel = ({ s with cons := .idle }, [.cancelled]) := by
          simp [step, hc, hd]
        have h2 : astep (abs s) .cancel = ({ abs s with cons := .idle }, [.cancelled]) := by
          by_cases hfs : f = s.slot
          · subst hfs; simp [astep, abs_cons_slot s hc, abs_slot, hd]
          · simp [astep, abs_cons_old s f hc hfs]
        rw [h1, h2]; exact ⟨(idle_abs s h).1, (idle_abs s h).2, rfl⟩
      · have h1 : step s .cancel =
            ({ s with futs := s.futs.set f .cancelled, cons := .idle }, [.cancelled]) := by
          simp [step, hc, hd]
        rw [h1]
        refine ⟨⟨by simpa using h.1, by intro g hg; cases hg⟩, ?_, ?_⟩
        · by_cases hfs : f = s.slot
          · subst hfs
            have h2 : astep (abs s) .cancel =
                ({ abs s with slot := .cancelled, cons := .idle }, [.cancelled]) := by
              simp [astep, abs_cons_slot s hc, abs_slot, hd]
            rw [h2]
            apply A.ext'
            · simp only [abs_slot]
              exact get_set_self { s with cons := .idle } .cancelled s.slot hfl
            · rfl
            · rfl
          · have h2 : astep (abs s) .cancel = ({ abs s with cons := .idle }, [.cancelled]) := by
              simp [astep, abs_cons_old s f hc hfs]
            rw [h2]
            apply A.ext'
            · simp only [abs_slot]
              exact get_set_other { s with cons := .idle } .cancelled f s.slot (Ne.symm hfs)
            · rfl
            · rfl
        · by_cases hfs : f = s.slot
          · subst hfs; simp [astep, abs_cons_slot s hc, abs_slot, hd]
          · simp [astep, abs_cons_old s f hc hfs]

theorem run_abs (s : St α) (h : WF s) (ops : List (Op α)) :
    WF (run s ops).1 ∧ abs (run s ops).1 = (arun (abs s) ops).1 ∧
    (run s ops).2 = (arun (abs s) ops).2 := by
  induction ops generalizing s with
  | nil => exact ⟨h, rfl, rfl⟩
  | cons o os ih =>
    obtain ⟨h1, h2, h3⟩ := step_abs s h o
    obtain ⟨h4, h5, h6⟩ := ih (step s o).1 h1
    simp only [run, arun]
    rw [← h2]
    exact ⟨h4, h5, by rw [h3, h6]⟩

theorem pullOp_abs (s : St α) : pullOp s = apullOp (abs s) := by
  cases hc : s.cons with
  | idle => simp [pullOp, apullOp, hc, abs_cons_idle s hc]
  | waiting f =>
    by_cases hfs : f = s.slot
    · subst hfs; simp [pullOp, apullOp, hc, abs_cons_slot s hc]
    · simp [pullOp, apullOp, hc, abs_cons_old s f hc hfs]

theorem pulls_abs (n : Nat) (s : St α) (h : WF s) :
    WF (pulls n s).1 ∧ abs (pulls n s).1 = (apulls n (abs s)).1 ∧
    (pulls n s).2 = (apulls n (abs s)).2 := by
  induction n generalizing s with
  | zero => exact ⟨h, rfl, rfl⟩
  | succ n ih =>
    obtain ⟨h1, h2, h3⟩ := step_abs s h (pullOp s)
    obtain ⟨h4, h5, h6⟩ := ih (step s (pullOp s)).1 h1
    simp only [pulls, apulls]
    rw [← pullOp_abs, ← h2]
    exact ⟨h4, h5, by rw [h3, h6]⟩

/-- everything that comes out of the iterator model, from the start, comes out of the small machine -/
theorem outs_init_abs (ops : List (Op α)) : outs init ops = (arun ainit ops).2 := by
  have := (run_abs (init : St α) wf_init ops).2.2
  rw [abs_init] at this
  exact this

end Aiocoap.Observe.Iter
