import Proofs.Observe.IterEnd
/-! The run-level invariant of the small iterator machine and the consumer that keeps iterating. -/
namespace Aiocoap.Observe.Iter

variable {α : Type}

/-- what came out and what is still stored is, in order, part of what was pushed, and ends with the
latest item pushed -/
def Acct (a : A α) (O : List (Out α)) (P : List α) : Prop :=
  (items O ++ astored a).Sublist P ∧ (items O ++ astored a).getLast? = P.getLast?

theorem acct_push (a : A α) (O : List (Out α)) (P : List α) (h : Acct a O P) (m : α) :
    Acct (apush a m) O (P ++ [m]) := by
  obtain ⟨x, hx, hs⟩ := astored_push a m
  refine ⟨?_, ?_⟩
  · rw [hx, ← List.append_assoc]
    exact List.Sublist.append
      ((List.Sublist.append (List.Sublist.refl _) hs).trans h.1) (List.Sublist.refl _)
  · rw [hx, ← List.append_assoc]; simp

theorem acct_other (a : A α) (hw : ConsW a) (O : List (Out α)) (P : List α) (h : Acct a O P)
    (o : Op α) (ho : ∀ m', o ≠ .push m') : Acct (astep a o).1 (O ++ (astep a o).2) P := by
  obtain ⟨h1, h2⟩ := astep_conserve a hw o ho
  refine ⟨?_, ?_⟩
  · rw [items_append, List.append_assoc]
    exact (List.Sublist.append (List.Sublist.refl _) h1).trans h.1
  · rw [items_append, List.append_assoc, ← h.2]
    exact getLast?_append_congr _ _ _ h2

theorem isCons_not_push {o : Op α} (ho : o.isCons = true) : ∀ m', o ≠ .push m' := by
  intro m' h; subst h; simp [Op.isCons] at ho

/-- the invariant: `err` is the error pushed so far, if any -/
def AInv (a : A α) (O : List (Out α)) (P : List α) : Option ErrKind → Prop
  | none => ShapeA a ∧ Acct a O P ∧ noCancel O = (items O).map .item
  | some e => ShapeB a e ∧ Acct a O P ∧
      ∃ j, noCancel O = (items O).map .item ++ List.replicate j (endOut e) ∧ (0 < j → astored a = [])

theorem ainv_init : AInv (ainit : A α) [] [] none := by
  refine ⟨shapeA_init, ?_, by simp [noCancel]⟩
  simp [Acct, astored, ainit]

theorem ainv_push (a : A α) (O : List (Out α)) (P : List α) (h : AInv a O P none) (m : α) :
    AInv (astep a (.push m)).1 (O ++ (astep a (.push m)).2) (P ++ [m]) none := by
  obtain ⟨h1, h2, h3⟩ := h
  simp only [astep, List.append_nil]
  exact ⟨shapeA_push a h1 m, acct_push a O P h2 m, h3⟩

theorem ainv_pushErr (a : A α) (O : List (Out α)) (P : List α) (h : AInv a O P none) (e : ErrKind) :
    AInv (astep a (.pushErr e)).1 (O ++ (astep a (.pushErr e)).2) P (some e) := by
  obtain ⟨h1, h2, h3⟩ := h
  have := acct_other a h1.1.consW O P h2 (.pushErr e) (by intro m' hm; cases hm)
  refine ⟨shapeA_pushErr a h1 e, this, 0, ?_, by simp⟩
  simpa [astep] using h3

theorem noCancel_single_item (m : α) : noCancel [Out.item m] = [Out.item m] := by simp [noCancel]
theorem noCancel_single_cancelled : noCancel [(Out.cancelled : Out α)] = [] := by simp [noCancel]
theorem noCancel_single_end (e : ErrKind) : noCancel [(endOut e : Out α)] = [endOut e] := by
  simp [noCancel]

theorem ainv_consA (a : A α) (O : List (Out α)) (P : List α) (h : AInv a O P none) (o : Op α)
    (ho : o.isCons = true) : AInv (astep a o).1 (O ++ (astep a o).2) P none := by
  obtain ⟨h1, h2, h3⟩ := h
  obtain ⟨h4, h5⟩ := shapeA_cons a h1 o ho
  refine ⟨h4, acct_other a h1.1.consW O P h2 o (isCons_not_push ho), ?_⟩
  rw [noCancel_append, items_append, List.map_append, h3]
  congr 1
  generalize (astep a o).2 = l at h5
  induction l with
  | nil => rfl
  | cons x l ih =>
    have hx := h5 x List.mem_cons_self
    have hl := ih (fun y hy => h5 y (List.mem_cons_of_mem _ hy))
    rcases hx with ⟨m, rfl⟩ | rfl
    · simpa [noCancel, items, List.filterMap_cons] using hl
    · simpa [noCancel, items, List.filterMap_cons] using hl

theorem ainv_consB (a : A α) (O : List (Out α)) (P : List α) (e : ErrKind) (h : AInv a O P (some e))
    (o : Op α) (ho : o.isCons = true) : AInv (astep a o).1 (O ++ (astep a o).2) P (some e) := by
  obtain ⟨h1, h2, j, h3, h4⟩ := h
  obtain ⟨h5, h6⟩ := shapeB_cons a e h1 o ho
  have hacct := acct_other a h1.1.consW O P h2 o (isCons_not_push ho)
  have hcons := astep_conserve a h1.1.consW o (isCons_not_push ho)
  refine ⟨h5, hacct, ?_⟩
  rcases h6 with h6 | h6 | ⟨m, h6⟩ | ⟨h6, h7⟩
  · refine ⟨j, by rw [h6, List.append_nil]; exact h3, ?_⟩
    intro hj
    have := hcons.1
    rw [h4 hj] at this
    exact (List.append_eq_nil_iff.mp (List.eq_nil_of_sublist_nil this)).2
  · refine ⟨j, by rw [h6, noCancel_append, items_append, noCancel_single_cancelled]; simpa [items, List.filterMap_cons] using h3, ?_⟩
    intro hj
    have := hcons.1
    rw [h4 hj] at this
    exact (List.append_eq_nil_iff.mp (List.eq_nil_of_sublist_nil this)).2
  · have hj : j = 0 := by
      rcases Nat.eq_zero_or_pos j with hj | hj
      · exact hj
      · have := hcons.1
        rw [h4 hj, h6] at this
        simp [items] at this
    subst hj
    refine ⟨0, ?_, by simp⟩
    rw [h6, noCancel_append, items_append, noCancel_single_item, h3]
    simp [items]
  · refine ⟨j + 1, ?_, fun _ => h7⟩
    rw [h6, noCancel_append, items_append, noCancel_single_end, h3, List.replicate_succ']
    simp [items]

/-- the operations allowed after `err`: anything well-formed before the error, only the consumer's
after it -/
def okFrom : Option ErrKind → List (Op α) → Bool
  | none, ops => wfOps ops
  | some _, ops => ops.all Op.isCons

def errFrom (err : Option ErrKind) (ops : List (Op α)) : Option ErrKind := err.or (firstErr ops)

theorem arun_inv (ops : List (Op α)) (a : A α) (O : List (Out α)) (P : List α)
    (err : Option ErrKind) (h : AInv a O P err) (hok : okFrom err ops = true) :
    AInv (arun a ops).1 (O ++ (arun a ops).2) (P ++ pushed ops) (errFrom err ops) := by
  induction ops generalizing a O P err with
  | nil => simpa [arun, pushed, errFrom, firstErr] using h
  | cons o os ih =>
    simp only [arun, pushed_cons]
    rw [← List.append_assoc, ← List.append_assoc]
    cases err with
    | some e =>
      simp only [okFrom, List.all_cons, Bool.and_eq_true] at hok
      have h' := ainv_consB a O P e h o hok.1
      have hp : pushedOf o = [] := by
        cases o <;> first | rfl | simp [Op.isCons] at hok
      rw [hp, List.append_nil]
      have := ih (astep a o).1 (O ++ (astep a o).2) P (some e) h' (by simpa [okFrom] using hok.2)
      simpa [errFrom] using this
    | none =>
      cases o with
      | push m =>
        have h' := ainv_push a O P h m
        have := ih _ _ _ none h' (by simpa [okFrom, wfOps] using hok)
        simpa [errFrom, firstErr, pushedOf] using this
      | pushErr e =>
        have h' := ainv_pushErr a O P h e
        have := ih _ _ _ (some e) h' (by simpa [okFrom, wfOps] using hok)
        simpa [errFrom, firstErr, pushedOf] using this
      | next =>
        have h' := ainv_consA a O P h .next rfl
        have := ih _ _ _ none h' (by simpa [okFrom, wfOps] using hok)
        simpa [errFrom, firstErr, pushedOf] using this
      | wake =>
        have h' := ainv_consA a O P h .wake rfl
        have := ih _ _ _ none h' (by simpa [okFrom, wfOps] using hok)
        simpa [errFrom, firstErr, pushedOf] using this
      | cancel =>
        have h' := ainv_consA a O P h .cancel rfl
        have := ih _ _ _ none h' (by simpa [okFrom, wfOps] using hok)
        simpa [errFrom, firstErr, pushedOf] using this

-- a consumer that keeps iterating ----------------------------------------------------------------------

theorem apullOp_isCons (a : A α) : (apullOp a).isCons = true := by
  unfold apullOp; cases a.cons <;> rfl

theorem apulls_inv (n : Nat) (a : A α) (O : List (Out α)) (P : List α) (err : Option ErrKind)
    (h : AInv a O P err) : AInv (apulls n a).1 (O ++ (apulls n a).2) P err := by
  induction n generalizing a O with
  | zero => simpa [apulls] using h
  | succ n ih =>
    simp only [apulls]
    rw [← List.append_assoc]
    apply ih
    cases err with
    | none => exact ainv_consA a O P h _ (apullOp_isCons a)
    | some e => exact ainv_consB a O P e h _ (apullOp_isCons a)

theorem apulls_add (m n : Nat) (a : A α) :
    apulls (m + n) a = ((apulls n (apulls m a).1).1, (apulls m a).2 ++ (apulls n (apulls m a).1).2) := by
  induction m generalizing a with
  | zero => simp [apulls]
  | succ m ih =>
    have : m + 1 + n = (m + n) + 1 := by omega
    rw [this]
    simp only [apulls]
    rw [ih]
    simp [List.append_assoc]

/-- after the error three further `__anext__` at most bring the end out -/
theorem apulls3_end (a : A α) (e : ErrKind) (h : ShapeB a e) :
    (apulls 3 a).2.getLast? = some (endOut e) := by
  obtain ⟨slot, d, c⟩ := a
  obtain ⟨h1, h2⟩ := h
  simp only at h2
  cases c with
  | idle =>
    rcases h2 with ⟨⟨m, rfl⟩, rfl⟩ | ⟨rfl, rfl⟩ <;>
      simp [apulls, apullOp, astep, afinishSlot, Fut.done, freshFut]
  | onSlot =>
    rcases h2 with ⟨⟨m, rfl⟩, rfl⟩ | ⟨rfl, rfl⟩ <;>
      simp [apulls, apullOp, astep, afinishSlot, Fut.done, freshFut]
  | onOld c =>
    obtain ⟨⟨m0, rfl⟩, m1, hm1⟩ := h1
    simp only at hm1
    subst hm1
    rcases h2 with ⟨_, rfl⟩ | ⟨h, _⟩
    · simp [apulls, apullOp, astep, afinishSlot, afinishOld, Fut.done, freshFut]
    · cases h

theorem shapeB_pull (a : A α) (e : ErrKind) (h : ShapeB a e) :
    ShapeB (astep a (apullOp a)).1 e := (shapeB_cons a e h _ (apullOp_isCons a)).1

theorem apulls_end (n : Nat) (hn : 3 ≤ n) (a : A α) (e : ErrKind) (h : ShapeB a e) :
    (apulls n a).2.getLast? = some (endOut e) := by
  induction n generalizing a with
  | zero => omega
  | succ n ih =>
    rcases Nat.lt_or_ge n 3 with hlt | hge
    · have : n = 2 := by omega
      subst this
      exact apulls3_end a e h
    · simp only [apulls]
      rw [List.getLast?_append, ih hge _ (shapeB_pull a e h)]
      rfl

/-- before any error two further `__anext__` at most fetch everything that is stored -/
theorem apulls2_drained (a : A α) (h : ShapeA a) : astored (apulls 2 a).1 = [] := by
  obtain ⟨slot, d, c⟩ := a
  obtain ⟨h1, h2, h3⟩ := h
  simp only at h2 h3
  subst h2
  cases c with
  | idle =>
    cases slot with
    | exc e => exact absurd rfl (h3 e)
    | pending => simp [apulls, apullOp, astep, afinishSlot, Fut.done, astored]
    | result m => simp [apulls, apullOp, astep, afinishSlot, Fut.done, freshFut, astored]
    | cancelled => simp [apulls, apullOp, astep, afinishSlot, Fut.done, astored]
  | onSlot =>
    cases slot with
    | exc e => exact absurd rfl (h3 e)
    | pending => simp [apulls, apullOp, astep, afinishSlot, Fut.done, astored]
    | result m => simp [apulls, apullOp, astep, afinishSlot, Fut.done, freshFut, astored]
    | cancelled => simp [ConsOK] at h1
  | onOld c =>
    obtain ⟨⟨m0, rfl⟩, m1, hm1⟩ := h1
    simp only at hm1
    subst hm1
    simp [apulls, apullOp, astep, afinishSlot, afinishOld, Fut.done, freshFut, astored]

theorem apulls_drained (n : Nat) (hn : 2 ≤ n) (a : A α) (h : ShapeA a) :
    astored (apulls n a).1 = [] := by
  induction n generalizing a with
  | zero => omega
  | succ n ih =>
    rcases Nat.lt_or_ge n 2 with hlt | hge
    · have : n = 1 := by omega
      subst this
      exact apulls2_drained a h
    · simp only [apulls]
      exact ih hge _ (shapeA_cons a h _ (apullOp_isCons a)).1

theorem getLast?_filter_of_last {β : Type} (p : β → Bool) (l : List β) (x : β)
    (h : l.getLast? = some x) (hp : p x = true) : (l.filter p).getLast? = some x := by
  obtain ⟨ys, rfl⟩ := List.getLast?_eq_some_iff.mp h
  simp [List.filter_append, hp]

end Aiocoap.Observe.Iter
