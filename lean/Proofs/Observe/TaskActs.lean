import Proofs.Observe.TaskInv
/-!
What one step of a render task does to the outside: the effects (`Act`) it produces, related to
the task before and after.
-/
namespace Aiocoap.Observe.Server

/-- the identity of a task never changes -/
def SameId (t t' : Task) : Prop :=
  t'.srv = t.srv ∧ t'.remote = t.remote ∧ t'.token = t.token ∧ t'.observe = t.observe

theorem SameId.refl (t : Task) : SameId t t := ⟨rfl, rfl, rfl, rfl⟩
theorem SameId.trans {a b c : Task} (h1 : SameId a b) (h2 : SameId b c) : SameId a c :=
  ⟨h2.1.trans h1.1, h2.2.1.trans h1.2.1, h2.2.2.1.trans h1.2.2.1, h2.2.2.2.trans h1.2.2.2⟩

theorem finish_id (t : Task) (r : Resp) : SameId t (finish t r).1 := ⟨rfl, rfl, rfl, rfl⟩

theorem afterLoop_id (t : Task) (r : Resp) : SameId t (afterLoop t r).1 := by
  unfold afterLoop; split
  · exact finish_id t r
  · split
    · exact ⟨rfl, rfl, rfl, rfl⟩
    · exact ⟨rfl, rfl, rfl, rfl⟩

theorem atAwait_id (val : Nat) (t : Task) (plan : Plan) : SameId t (atAwait val t plan).1 := by
  unfold atAwait
  split
  · exact ⟨rfl, rfl, rfl, rfl⟩
  · exact SameId.trans (b := { t with trig := none }) ⟨rfl, rfl, rfl, rfl⟩ (afterLoop_id _ _)
  · split
    · exact SameId.trans (b := { t with trig := none }) ⟨rfl, rfl, rfl, rfl⟩ (afterLoop_id _ _)
    · exact ⟨rfl, rfl, rfl, rfl⟩

theorem afterFirst_id (val : Nat) (t : Task) (r : Resp) (plan : Plan) :
    SameId t (afterFirst val t r plan).1 := by
  unfold afterFirst; split
  · exact finish_id t r
  · exact SameId.trans (b := { t with obsNo := 0, sentVer := r.body, renderOut := none })
      ⟨rfl, rfl, rfl, rfl⟩ (atAwait_id _ _ _)

theorem startTask_id (val : Nat) (t : Task) (plan : Plan) (acc : Bool) :
    SameId t (startTask val t plan acc).1 := by
  unfold startTask
  split
  · split
    · exact SameId.trans (b := { t with accepted := acc }) ⟨rfl, rfl, rfl, rfl⟩ (afterFirst_id _ _ _ _)
    · exact ⟨rfl, rfl, rfl, rfl⟩
  · split
    · exact finish_id t ‹Resp›
    · exact ⟨rfl, rfl, rfl, rfl⟩

theorem stepTask_id (val : Nat) (t : Task) (plan : Plan) (acc : Bool) :
    SameId t (stepTask val t plan acc).1 := by
  unfold stepTask
  split
  · exact SameId.refl t
  split
  · exact ⟨rfl, rfl, rfl, rfl⟩
  split
  · exact startTask_id _ _ _ _
  · split
    · exact afterFirst_id _ _ _ _
    · exact ⟨rfl, rfl, rfl, rfl⟩
  · exact atAwait_id _ _ _
  · split
    · dsimp only
      split
      · exact afterLoop_id _ _
      · exact (afterLoop_id _ _).trans (atAwait_id _ _ _)
    · exact ⟨rfl, rfl, rfl, rfl⟩
  · split
    · exact finish_id _ _
    · exact ⟨rfl, rfl, rfl, rfl⟩
  · exact ⟨rfl, rfl, rfl, rfl⟩

theorem cancelTask_id (t : Task) : SameId t (cancelTask t) := by
  unfold cancelTask; split
  · exact SameId.refl t
  · split <;> exact ⟨rfl, rfl, rfl, rfl⟩

theorem trigTask_id (t : Task) (v : Option Resp) (il : Bool) (ver : Nat) :
    SameId t (trigTask t v il ver) := by
  unfold trigTask; split
  · exact SameId.refl t
  · exact ⟨rfl, rfl, rfl, rfl⟩

theorem deregTask_id (t : Task) (ver : Nat) : SameId t (deregTask t ver) := by
  unfold deregTask; split
  · exact SameId.refl t
  · split
    · exact ⟨rfl, rfl, rfl, rfl⟩
    · exact trigTask_id _ _ _ _

theorem releaseTask_id (t : Task) (code : Nat) (exc : Bool) : SameId t (releaseTask t code exc) := by
  unfold releaseTask; split
  · exact ⟨rfl, rfl, rfl, rfl⟩
  · exact SameId.refl t

/-- triggers, deregistration and the end of a render change neither whether the pipe is wanted nor
whether the observation is registered, nor how far its numbering has got -/
structure SameCtl (t t' : Task) : Prop where
  phase : t'.phase = t.phase
  cancelReq : t'.cancelReq = t.cancelReq
  accepted : t'.accepted = t.accepted
  obsNo : t'.obsNo = t.obsNo
  cbRuns : t'.cbRuns = t.cbRuns

theorem SameCtl.refl (t : Task) : SameCtl t t := ⟨rfl, rfl, rfl, rfl, rfl⟩

theorem trigTask_ctl (t : Task) (v : Option Resp) (il : Bool) (ver : Nat) :
    SameCtl t (trigTask t v il ver) := by
  unfold trigTask; split
  · exact SameCtl.refl t
  · exact ⟨rfl, rfl, rfl, rfl, rfl⟩

theorem deregTask_ctl (t : Task) (ver : Nat) : SameCtl t (deregTask t ver) := by
  unfold deregTask; split
  · exact SameCtl.refl t
  · split
    · exact ⟨rfl, rfl, rfl, rfl, rfl⟩
    · exact trigTask_ctl _ _ _ _

theorem releaseTask_ctl (t : Task) (code : Nat) (exc : Bool) : SameCtl t (releaseTask t code exc) := by
  unfold releaseTask; split
  · exact ⟨rfl, rfl, rfl, rfl, rfl⟩
  · exact SameCtl.refl t

theorem live_of_ctl {t t' : Task} (h : SameCtl t t') : t'.live = t.live := by
  simp [Task.live, h.phase, h.cancelReq]

theorem inSet_of_ctl {t t' : Task} (h : SameCtl t t') (hi : SameId t t') : inSet t' = inSet t := by
  simp [inSet, h.phase, h.accepted, hi.2.2.2]

theorem cancelTask_not_live (t : Task) : (cancelTask t).live = false := by
  unfold cancelTask Task.live
  split
  · rename_i h; simp at h; simp [h]
  · split <;> simp

theorem inSet_cancelTask {val : Nat} {t : Task} (h : TaskOk val t) : inSet (cancelTask t) = inSet t := by
  unfold cancelTask
  split
  · rfl
  · split
    · rename_i hf
      have := h.wFresh (by simpa using hf)
      simp [inSet, this.2.1]
    · rfl

theorem inSet_newTask (sv : Nat) (r : MsgLayer.Remote) (w : MsgLayer.Wire) : inSet (newTask sv r w) = false := by
  simp [inSet, newTask]

theorem live_newTask (sv : Nat) (r : MsgLayer.Remote) (w : MsgLayer.Wire) : (newTask sv r w).live = true := by
  simp [Task.live, newTask]

end Aiocoap.Observe.Server
