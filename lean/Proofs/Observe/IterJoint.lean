import Proofs.Observe.IterRun
import Proofs.Observe.Client
/-! The iterator next to the runner of `Request`: bookkeeping lemmas for the composition. -/
namespace Aiocoap.Observe.Iter

open Aiocoap.Observe

theorem run_append {α : Type} (s : St α) (a b : List (Op α)) :
    run s (a ++ b) = ((run (run s a).1 b).1, (run s a).2 ++ (run (run s a).1 b).2) := by
  induction a generalizing s with
  | nil => simp [run]
  | cons o a ih => simp [run, ih, List.append_assoc]

/-- the operations the iterator sees when the runner goes through the events of `js` and the
consumer does what `js` says -/
def jops (cfg : Cfg) (r : ObsState) : List JOp → List (Op Msg)
  | [] => []
  | .pipe e :: js => opsOfDeliveries (Aiocoap.Observe.step cfg r e).2 ++ jops cfg (Aiocoap.Observe.step cfg r e).1 js
  | .cons o :: js => o :: jops cfg r js

def events (js : List JOp) : List TEvent := js.filterMap JOp.event?

theorem jrun_eq (cfg : Cfg) (r : ObsState) (s : St Msg) (js : List JOp) :
    (jrun cfg r s js).2 = (run s (jops cfg r js)).2 ∧
    (jrun cfg r s js).1 = (finalState cfg r (events js), (run s (jops cfg r js)).1) := by
  induction js generalizing r s with
  | nil => simp [jrun, jops, run, events, finalState_nil]
  | cons j js ih =>
    cases j with
    | pipe e =>
      obtain ⟨h1, h2⟩ := ih (Aiocoap.Observe.step cfg r e).1 (run s (opsOfDeliveries (Aiocoap.Observe.step cfg r e).2)).1
      simp only [jrun, jops, run_append, h1, h2]
      simp [events, JOp.event?, finalState_cons, List.filterMap_cons]
    | cons o =>
      obtain ⟨h1, h2⟩ := ih r (step s o).1
      simp only [jrun, jops, run, h1, h2]
      simp [events, JOp.event?, List.filterMap_cons]

def Delivery.cb? : Delivery → Option Msg
  | .callback m => some m
  | _ => none

/-- what the observation's callbacks got (the first response goes to the response future) -/
def callbacksOf (ds : List Delivery) : List Msg := ds.filterMap Delivery.cb?

theorem callbacksOf_append (a b : List Delivery) :
    callbacksOf (a ++ b) = callbacksOf a ++ callbacksOf b := by simp [callbacksOf]

theorem opsOfDeliveries_append (a b : List Delivery) :
    opsOfDeliveries (a ++ b) = opsOfDeliveries a ++ opsOfDeliveries b := by
  simp [opsOfDeliveries]

theorem opsOfDeliveries_cons (d : Delivery) (ds : List Delivery) :
    opsOfDeliveries (d :: ds) = opsOfDelivery d ++ opsOfDeliveries ds := by
  simp [opsOfDeliveries]

theorem pushed_opsOfDeliveries (ds : List Delivery) :
    pushed (opsOfDeliveries ds) = callbacksOf ds := by
  induction ds with
  | nil => rfl
  | cons d ds ih =>
    rw [opsOfDeliveries_cons, pushed_append, ih]
    cases d <;> simp [opsOfDelivery, pushed, pushedOf, callbacksOf, Delivery.cb?, List.filterMap_cons]
where
  pushed_append (a b : List (Op Msg)) : pushed (a ++ b) = pushed a ++ pushed b := by simp [pushed]

theorem firstErr_app (a b : List (Op Msg)) : firstErr (a ++ b) = (firstErr a).or (firstErr b) := by
  induction a with
  | nil => simp [firstErr]
  | cons o a ih => cases o <;> simp [firstErr, ih]

theorem firstErr_opsOfDeliveries (ds : List Delivery) :
    firstErr (opsOfDeliveries ds) = (errbacks ds).head? := by
  induction ds with
  | nil => rfl
  | cons d ds ih =>
    rw [opsOfDeliveries_cons, firstErr_app, ih]
    cases d <;> simp [opsOfDelivery, firstErr]

theorem lastCallback_eq (ds : List Delivery) : lastCallback ds = (callbacksOf ds).getLast? := by
  induction ds with
  | nil => rfl
  | cons d ds ih =>
    simp only [lastCallback, ih]
    cases h : (callbacksOf ds).getLast? with
    | some m =>
      have : callbacksOf (d :: ds) = (Delivery.cb? d).toList ++ callbacksOf ds := by
        cases d <;> simp [callbacksOf, Delivery.cb?, List.filterMap_cons]
      rw [this, List.getLast?_append, h]; rfl
    | none =>
      have hn : callbacksOf ds = [] := List.getLast?_eq_none_iff.mp h
      have : callbacksOf (d :: ds) = (Delivery.cb? d).toList := by
        rw [← List.append_nil (Delivery.cb? d).toList, ← hn]
        cases d <;> simp [callbacksOf, Delivery.cb?, List.filterMap_cons]
      rw [this]
      cases d <;> simp [Delivery.cb?]

theorem firstErrback_eq (ds : List Delivery) : firstErrback ds = (errbacks ds).head? := by
  induction ds with
  | nil => rfl
  | cons d ds ih => cases d <;> simp [firstErrback, ih]

theorem wfOps_of_all_cons (l : List (Op Msg)) (h : l.all Op.isCons = true) : wfOps l = true := by
  induction l with
  | nil => rfl
  | cons o l ih =>
    simp only [List.all_cons, Bool.and_eq_true] at h
    cases o <;> first | (simp [Op.isCons] at h; done) | simpa [wfOps] using ih h.2

theorem firstErr_of_all_cons (l : List (Op Msg)) (h : l.all Op.isCons = true) : firstErr l = none := by
  induction l with
  | nil => rfl
  | cons o l ih =>
    simp only [List.all_cons, Bool.and_eq_true] at h
    cases o <;> first | (simp [Op.isCons] at h; done) | simpa [firstErr] using ih h.2

end Aiocoap.Observe.Iter
