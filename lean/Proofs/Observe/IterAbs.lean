import AiocoapModel.Observe.Iterator
/-!
# The iterator model without the future store

`Iter.St` keeps every future ever created.  Only two of them can still matter: the one in the slot
and the one the consumer is suspended on.  `A` is the state with exactly those two contents;
`abs` forgets the rest, and `step_abs` shows that the model with identities (`Iter.step`, what the
driver runs and what is compared with the code) does, on every well-formed state, exactly what the
small machine `astep` does.  All invariants are then proved on `astep` by case analysis and carried
back along `run_abs`.
-/
namespace Aiocoap.Observe.Iter

variable {α : Type}

inductive ACons (α : Type) where
  | idle
  | onSlot                  -- suspended on the future that is in the slot
  | onOld (c : Fut α)       -- suspended on a future that has been replaced in the slot

structure A (α : Type) where
  slot : Fut α
  deferred : Option ErrKind
  cons : ACons α

def ainit : A α := { slot := .pending, deferred := none, cons := .idle }

/-- the consumer's future is no longer the slot's after the slot got a new future -/
def ACons.aged (c : ACons α) (old : Fut α) : ACons α :=
  match c with
  | .onSlot => .onOld old
  | c => c

def apush (a : A α) (m : α) : A α :=
  if a.slot.done then { a with slot := .result m, cons := a.cons.aged a.slot }
  else { a with slot := .result m }

def apushErr (a : A α) (e : ErrKind) : A α :=
  match a.slot with
  | .pending => { a with slot := .exc e }
  | .result _ => { a with deferred := some e }
  | .exc _ => { a with slot := .exc e, cons := a.cons.aged a.slot }
  | .cancelled => { a with slot := .exc e, cons := a.cons.aged a.slot }

/-- `__anext__` continues with the slot's (done) future -/
def afinishSlot (a : A α) : A α × List (Out α) :=
  match a.slot with
  | .result m =>
    ({ slot := freshFut a.deferred, deferred := none, cons := .idle }, [.item m])
  | .exc e => ({ a with cons := .idle }, [endOut e])
  | .cancelled => ({ a with cons := .idle }, [.cancelled])
  | .pending => (a, [])

/-- `__anext__` continues with an older (done) future -/
def afinishOld (a : A α) (c : Fut α) : A α × List (Out α) :=
  match c with
  | .result m => ({ a with cons := .idle }, [.item m])
  | .exc e => ({ a with cons := .idle }, [endOut e])
  | .cancelled => ({ a with cons := .idle }, [.cancelled])
  | .pending => (a, [])

def astep (a : A α) : Op α → A α × List (Out α)
  | .push m => (apush a m, [])
  | .pushErr e => (apushErr a e, [])
  | .next =>
    match a.cons with
    | .idle =>
      -- a slot cancelled by an earlier, cancelled `__anext__` is replaced by a pending one first
      let a := match a.slot with
        | .cancelled => { a with slot := .pending }
        | _ => a
      if a.slot.done then afinishSlot a else ({ a with cons := .onSlot }, [])
    | _ => (a, [])
  | .wake =>
    match a.cons with
    | .onSlot => if a.slot.done then afinishSlot a else (a, [])
    | .onOld c => if c.done then afinishOld a c else (a, [])
    | .idle => (a, [])
  | .cancel =>
    match a.cons with
    | .onSlot =>
      if a.slot.done then ({ a with cons := .idle }, [.cancelled])
      else ({ a with slot := .cancelled, cons := .idle }, [.cancelled])
    | .onOld _ => ({ a with cons := .idle }, [.cancelled])
    | .idle => (a, [])

def arun (a : A α) : List (Op α) → A α × List (Out α)
  | [] => (a, [])
  | o :: os =>
    let r := astep a o
    let r' := arun r.1 os
    (r'.1, r.2 ++ r'.2)

def apullOp (a : A α) : Op α :=
  match a.cons with
  | .idle => .next
  | _ => .wake

def apulls : Nat → A α → A α × List (Out α)
  | 0, a => (a, [])
  | n + 1, a =>
    let r := astep a (apullOp a)
    let r' := apulls n r.1
    (r'.1, r.2 ++ r'.2)

-- abstraction ------------------------------------------------------------------------------------

/-- identities in use exist -/
def WF (s : St α) : Prop :=
  s.slot < s.futs.length ∧ ∀ f, s.cons = .waiting f → f < s.futs.length

def abs (s : St α) : A α :=
  { slot := s.get s.slot, deferred := s.deferred,
    cons := match s.cons with
      | .idle => .idle
      | .waiting f => if f = s.slot then .onSlot else .onOld (s.get f) }

theorem wf_init : WF (init : St α) := by
  simp [WF, init]

theorem abs_init : abs (init : St α) = ainit := by
  simp [abs, init, ainit, St.get]

-- the store ----------------------------------------------------------------------------------------

theorem get_install_new (s : St α) (c : Fut α) : (s.install c).get (s.install c).slot = c := by
  simp [St.install, St.get]

theorem get_install_old (s : St α) (c : Fut α) (f : Nat) (h : f < s.futs.length) :
    (s.install c).get f = s.get f := by
  simp [St.install, St.get, List.getD_eq_getElem?_getD, List.getElem?_append_left h]

theorem get_complete_slot (s : St α) (c : Fut α) (h : s.slot < s.futs.length) :
    (s.complete c).get (s.complete c).slot = c := by
  simp [St.complete, St.get, List.getD_eq_getElem?_getD, h]

theorem get_complete_other (s : St α) (c : Fut α) (f : Nat) (h : f ≠ s.slot) :
    (s.complete c).get f = s.get f := by
  simp [St.complete, St.get, List.getD_eq_getElem?_getD, List.getElem?_set_ne (Ne.symm h)]

theorem get_set_self (s : St α) (c : Fut α) (f : Nat) (h : f < s.futs.length) :
    ({ s with futs := s.futs.set f c } : St α).get f = c := by
  simp [St.get, List.getD_eq_getElem?_getD, h]

theorem get_set_other (s : St α) (c : Fut α) (f g : Nat) (h : g ≠ f) :
    ({ s with futs := s.futs.set f c } : St α).get g = s.get g := by
  simp [St.get, List.getD_eq_getElem?_getD, List.getElem?_set_ne (Ne.symm h)]

end Aiocoap.Observe.Iter
