import Proofs.Observe.StepSpec
/-! More facts about one step of a render task (split off to keep build times short). -/
namespace Aiocoap.Observe.Server

/-- an unwanted task (ended, or cancelled) puts nothing on its pipe and renders nothing -/
theorem stepTask_dead (val : Nat) (t : Task) (plan : Plan) (acc : Bool) (h : t.live = false)
    (hd : t.phase = .done → t.runnable = false) :
    (stepTask val t plan acc).1.live = false ∧
    ∀ a ∈ (stepTask val t plan acc).2, a = .callback := by
  simp only [Task.live, Bool.and_eq_false_iff, bne_eq_false_iff_eq, Bool.not_eq_false'] at h
  unfold stepTask
  split
  · refine ⟨?_, by intro a ha; cases ha⟩
    simp only [Task.live, Bool.and_eq_false_iff, bne_eq_false_iff_eq, Bool.not_eq_false']; exact h
  split
  · simp only [cancelStep]
    refine ⟨by simp [Task.live], ?_⟩
    intro a ha; split at ha <;> simp_all
  · rename_i hr hc
    rcases h with h | h
    · have := hd h; simp_all
    · simp_all

theorem bne_done_fresh : (Phase.fresh != Phase.done) = true := by decide
theorem bne_done_first : (Phase.firstRender != Phase.done) = true := by decide
theorem bne_done_wait : (Phase.waitTrig != Phase.done) = true := by decide
theorem bne_done_loop : (Phase.loopRender != Phase.done) = true := by decide
theorem bne_done_plain : (Phase.plainRender != Phase.done) = true := by decide
theorem bne_done_done : (Phase.done != Phase.done) = false := by decide

/-- membership in `_observations` follows the task: registered iff accepted and not ended -/
theorem stepTask_mem {val : Nat} {t : Task} (plan : Plan) (acc : Bool)
    (hf : t.phase = .fresh → t.accepted = false) :
    memAfter (inSet t) (stepTask val t plan acc).2 = some (inSet (stepTask val t plan acc).1) := by
  step_paths
  all_goals simp_all [memAfter, inSet, bne_done_fresh, bne_done_first, bne_done_wait, bne_done_loop,
    bne_done_plain]
