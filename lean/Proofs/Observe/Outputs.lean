import Proofs.Observe.ServerInv
/-!
What the outputs of an event say about one registration: the Observe numbers put on its pipe,
the invocations of its cancellation callback, whether it "speaks" at all; and what the message
layer sends for a response put on a pipe.
-/
namespace Aiocoap.Observe.Server
open Aiocoap.MsgLayer

/-- the Observe numbers registration `sv` puts on its pipe -/
def obsSeq (sv : Nat) (os : List Out) : List Nat :=
  os.filterMap fun o => match o with
    | .notify sv' _ (some n) _ _ => if sv' = sv then some n else none
    | _ => none

/-- how often the cancellation callback of registration `sv` runs -/
def cancelledCount (sv : Nat) (os : List Out) : Nat := os.countP (fun o => o == .cancelled sv)

/-- the output is an action of the render task of pipe `sv` -/
def speaks (sv : Nat) : Out → Bool
  | .notify sv' _ _ _ _ => sv' == sv
  | .render sv' _ => sv' == sv
  | .cancelled sv' => sv' == sv
  | _ => false

theorem obsSeq_append (sv : Nat) (a b : List Out) : obsSeq sv (a ++ b) = obsSeq sv a ++ obsSeq sv b := by
  simp [obsSeq, List.filterMap_append]

theorem cancelledCount_append (sv : Nat) (a b : List Out) :
    cancelledCount sv (a ++ b) = cancelledCount sv a + cancelledCount sv b := by
  simp [cancelledCount, List.countP_append]

theorem obsSeq_of_silent {sv : Nat} {os : List Out} (h : ∀ o ∈ os, speaks sv o = false) :
    obsSeq sv os = [] := by
  simp only [obsSeq, List.filterMap_eq_nil_iff]
  intro o ho
  have := h o ho
  cases o with
  | notify sv' code obs body il =>
    cases obs with
    | none => rfl
    | some n => simp [speaks] at this; simp [this]
  | _ => rfl

theorem cancelledCount_of_silent {sv : Nat} {os : List Out} (h : ∀ o ∈ os, speaks sv o = false) :
    cancelledCount sv os = 0 := by
  simp only [cancelledCount, List.countP_eq_zero]
  intro o ho hc
  have := h o ho
  simp only [beq_iff_eq] at hc
  subst hc
  simp [speaks] at this

theorem isApp_of_speaks {sv : Nat} {o : Out} (h : speaks sv o = true) : isApp o = true := by
  cases o <;> simp [speaks] at h <;> rfl

/-- what the message layer puts out does not matter to the Observe numbers and callback counts -/
theorem obsSeq_app (sv : Nat) (os : List Out) : obsSeq sv (app os) = obsSeq sv os := by
  induction os with
  | nil => rfl
  | cons o os ih =>
    have hcons : obsSeq sv (o :: os) = obsSeq sv [o] ++ obsSeq sv os := obsSeq_append sv [o] os
    have happ : app (o :: os) = app [o] ++ app os := app_append [o] os
    rw [hcons, happ, obsSeq_append, ih]
    congr 1
    cases o <;> rfl

theorem cancelledCount_app (sv : Nat) (os : List Out) : cancelledCount sv (app os) = cancelledCount sv os := by
  induction os with
  | nil => rfl
  | cons o os ih =>
    have hcons : cancelledCount sv (o :: os) = cancelledCount sv [o] + cancelledCount sv os :=
      cancelledCount_append sv [o] os
    have happ : app (o :: os) = app [o] ++ app os := app_append [o] os
    rw [hcons, happ, cancelledCount_append, ih]
    congr 1
    cases o <;> rfl

theorem delivered_nil_of_dsrvs {os : List MsgLayer.Out} (h : dsrvs os = []) : delivered os = [] := by
  have := delivered_srv os
  rw [h] at this
  exact List.map_eq_nil_iff.mp this

theorem net_silent (sv : Nat) (os : List MsgLayer.Out) : ∀ o ∈ os.map Out.net, speaks sv o = false := by
  intro o ho
  obtain ⟨x, _, rfl⟩ := List.mem_map.mp ho
  rfl

/-- the outputs of the effects of task `sv` -/
theorem exec_outs (sv : Nat) (acts : List Act) : ∀ c : State,
    obsSeq sv (exec c sv acts).2 = obsNums acts ∧
    cancelledCount sv (exec c sv acts).2 = acts.count .callback ∧
    (∀ sv', sv' ≠ sv → ∀ o ∈ (exec c sv acts).2, speaks sv' o = false) ∧
    (acts = [] → (exec c sv acts).2 = []) := by
  induction acts with
  | nil =>
    intro c
    refine ⟨rfl, rfl, ?_, fun _ => rfl⟩
    intro _ _ o ho; cases ho
  | cons a as ih =>
    intro c
    obtain ⟨h1, h2, h3, _⟩ := ih (execAct c sv a).1
    simp only [exec, obsSeq_append, cancelledCount_append, h1, h2]
    refine ⟨?_, ?_, ?_, by intro h; cases h⟩
    · cases a with
      | emit code obs body il =>
        simp only [execAct, obsSeq_append, obsSeq_of_silent (net_silent sv _), List.nil_append]
        cases obs <;> simp [obsSeq, obsNums]
      | accept => simp [execAct, obsSeq, obsNums]
      | callback => simp [execAct, obsSeq, obsNums]
      | render v => simp [execAct, obsSeq, obsNums]
    · cases a with
      | emit code obs body il =>
        simp only [execAct, cancelledCount_append, cancelledCount_of_silent (net_silent sv _)]
        simp [cancelledCount]
      | accept => simp [execAct, cancelledCount]
      | callback => simp [execAct, cancelledCount]; omega
      | render v => simp [execAct, cancelledCount]
    · intro sv' hne o ho
      rcases List.mem_append.mp ho with ho | ho
      · cases a with
        | emit code obs body il =>
          simp only [execAct, List.mem_append, List.mem_singleton] at ho
          rcases ho with ho | rfl
          · exact net_silent sv' _ o ho
          · simp [speaks]; exact fun e => hne e.symm
        | accept => simp only [execAct, List.mem_singleton] at ho; subst ho; rfl
        | callback =>
          simp only [execAct, List.mem_cons, List.mem_nil_iff, or_false] at ho
          rcases ho with rfl | rfl
          · simp [speaks]; exact fun e => hne e.symm
          · rfl
        | render v =>
          simp only [execAct, List.mem_singleton] at ho; subst ho
          simp [speaks]; exact fun e => hne e.symm
      · exact h3 sv' hne o ho


-- what the message layer transmits for a response put on a pipe ------------------------------------------

theorem suppressed_of_noResponse0 (m : OutMsg) (h : m.noResponse = 0) : suppressed m = false := by
  simp [suppressed, h]

theorem dispatchOut_outs (s : MsgLayer.State) (r : Remote) (w : Wire) (mon : Monitor) (k : Nat) :
    ∀ o ∈ (dispatchOut s r w mon k).2, o = .send s.now r w := by
  unfold dispatchOut
  split
  · intro o ho; cases ho
  · intro o ho; simpa [sendInitially] using ho

/-- a response that is not suppressed goes out (or into the backlog) with the given token, code,
Observe value and content, to the given remote -/
theorem sendMessage_sends (s : MsgLayer.State) (remote : Remote) (mc : Bool) (token : Token) (m : OutMsg)
    (wasNon : Bool) (mon : Monitor) (h : m.noResponse = 0) :
    ∀ o ∈ (sendMessage s remote mc token m wasNon mon).2.1, ∃ tm w, o = .send tm remote w ∧
      w.token = token ∧ w.code = m.code ∧ w.obs = m.obs ∧ w.body = m.body := by
  have hs := suppressed_of_noResponse0 m h
  unfold sendMessage
  simp only [hs, Bool.false_eq_true, ↓reduceIte]
  split
  · intro o ho
    have := dispatchOut_outs _ _ _ _ _ o ho
    exact ⟨_, _, this, rfl, rfl, rfl, rfl⟩
  · split
    · intro o ho; cases ho
    · intro o ho
      have := dispatchOut_outs _ _ _ _ _ o ho
      exact ⟨_, _, this, rfl, rfl, rfl, rfl⟩

theorem respond_sends (s : MsgLayer.State) (sv : Nat) (m : OutMsg) (il : Bool) (h : m.noResponse = 0) :
    ∀ o ∈ (respond s sv m il).2, ∃ i ∈ s.incoming, i.srv = sv ∧ ∃ tm w, o = .send tm i.remote w ∧
      w.token = i.token ∧ w.code = m.code ∧ w.obs = m.obs ∧ w.body = m.body := by
  unfold respond
  split
  · intro o ho; cases ho
  · rename_i i hf
    have hi : i ∈ s.incoming := List.mem_of_find?_eq_some hf
    have hsv : i.srv = sv := by simpa using List.find?_some hf
    have := sendMessage_sends s i.remote false i.token m i.wasNon (.srv sv) h
    dsimp only
    split <;> exact fun o ho => ⟨i, hi, hsv, this o ho⟩


theorem execAct_incoming_sub (c : State) (sv : Nat) (a : Act) :
    ∀ i ∈ (execAct c sv a).1.ml.incoming, i ∈ c.ml.incoming := by
  cases a with
  | emit code obs body il =>
    intro i hi
    have := (respond_frame c.ml sv (mkMsg c code obs body) il).2.2
    simp only [execAct] at hi
    rw [this] at hi
    split at hi
    · exact (List.mem_filter.mp hi).1
    · exact hi
  | _ => intro i hi; exact hi

/-- every datagram sent while the task of pipe `sv` runs is one of its responses, sent to the remote
and with the token recorded for the pipe -/
theorem exec_sends (sv : Nat) (I : List InReq) (acts : List Act) : ∀ c0 : State,
    (∀ i ∈ c0.ml.incoming, i ∈ I) →
    ∀ tm r w, Out.net (.send tm r w) ∈ (exec c0 sv acts).2 →
      ∃ i ∈ I, i.srv = sv ∧ r = i.remote ∧ w.token = i.token ∧
        ∃ il, Act.emit w.code w.obs w.body il ∈ acts := by
  induction acts with
  | nil => intro c0 _ tm r w ho; cases ho
  | cons a as ih =>
    intro c0 hsub tm r w ho
    simp only [exec] at ho
    rcases List.mem_append.mp ho with ho | ho
    · cases a with
      | emit code obs body il =>
        simp only [execAct, List.mem_append, List.mem_map, List.mem_singleton] at ho
        rcases ho with ⟨x, hx, he⟩ | he
        · cases he
          obtain ⟨i, hi, hsv, tm', w', hxe, h1, h2, h3, h4⟩ :=
            respond_sends c0.ml sv (mkMsg c0 code obs body) il rfl _ hx
          cases hxe
          refine ⟨i, hsub i hi, hsv, rfl, h1, il, ?_⟩
          rw [h2, h3, h4]; exact List.mem_cons_self
        · cases he
      | accept => simp [execAct] at ho
      | callback => simp [execAct] at ho
      | render v => simp [execAct] at ho
    · obtain ⟨i, hi, h1, h2, h3, il, h4⟩ := ih (execAct c0 sv a).1
        (fun i hi => hsub i (execAct_incoming_sub c0 sv a i hi)) tm r w ho
      exact ⟨i, hi, h1, h2, h3, il, List.mem_cons_of_mem _ h4⟩

theorem exec_notify_mem (sv : Nat) (acts : List Act) : ∀ c0 : State, ∀ code obs body il,
    Act.emit code obs body il ∈ acts → Out.notify sv code obs body il ∈ (exec c0 sv acts).2 := by
  induction acts with
  | nil => intro c0 code obs body il h; cases h
  | cons a as ih =>
    intro c0 code obs body il h
    simp only [exec]
    rcases List.mem_cons.mp h with rfl | h
    · exact List.mem_append_left _ (by simp [execAct])
    · exact List.mem_append_right _ (ih _ _ _ _ _ h)


theorem exec_notify_inv (sv : Nat) (acts : List Act) : ∀ c0 : State, ∀ sv' code obs body il,
    Out.notify sv' code obs body il ∈ (exec c0 sv acts).2 → Act.emit code obs body il ∈ acts := by
  induction acts with
  | nil => intro c0 sv' code obs body il h; cases h
  | cons a as ih =>
    intro c0 sv' code obs body il h
    simp only [exec] at h
    rcases List.mem_append.mp h with h | h
    · cases a with
      | emit code' obs' body' il' =>
        simp only [execAct, List.mem_append, List.mem_map, List.mem_singleton] at h
        rcases h with ⟨x, _, hx⟩ | hx
        · cases hx
        · cases hx; exact List.mem_cons_self
      | accept => simp [execAct] at h
      | callback => simp [execAct] at h
      | render v => simp [execAct] at h
    · exact List.mem_cons_of_mem _ (ih _ _ _ _ _ _ h)

theorem hasLast_of_mem {acts : List Act} {code : Nat} {obs : Option Nat} {body : Nat}
    (h : Act.emit code obs body true ∈ acts) : hasLast acts = true := by
  simp only [hasLast, List.any_eq_true]
  exact ⟨_, h, rfl⟩


theorem exec_render_inv (sv : Nat) (acts : List Act) : ∀ c0 : State, ∀ sv' ver,
    Out.render sv' ver ∈ (exec c0 sv acts).2 → Act.render ver ∈ acts := by
  induction acts with
  | nil => intro c0 sv' ver h; cases h
  | cons a as ih =>
    intro c0 sv' ver hv
    simp only [exec] at hv
    rcases List.mem_append.mp hv with hv | hv
    · cases a with
      | render v => simp [execAct] at hv; rw [hv.2]; exact List.mem_cons_self
      | emit code obs body il => simp [execAct] at hv
      | accept => simp [execAct] at hv
      | callback => simp [execAct] at hv
    · exact List.mem_cons_of_mem _ (ih _ _ _ hv)

end Aiocoap.Observe.Server
