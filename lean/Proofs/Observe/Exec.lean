import Proofs.Observe.StepSpec
import Proofs.Observe.MsgFrame
/-!
What the effects of a task step (`exec`) do to the composite state: the message layer's table of
pipes, the resource's set of observations.
-/
namespace Aiocoap.Observe.Server
open Aiocoap.MsgLayer

theorem execAct_frame (c : State) (sv : Nat) (a : Act) :
    (execAct c sv a).1.tasks = c.tasks ∧ (execAct c sv a).1.value = c.value ∧
    (execAct c sv a).1.maxRetr = c.maxRetr ∧ (execAct c sv a).1.ml.nextSrv = c.ml.nextSrv := by
  cases a with
  | emit code obs body il =>
    exact ⟨rfl, rfl, rfl, (respond_frame c.ml sv (mkMsg c code obs body) il).1⟩
  | _ => exact ⟨rfl, rfl, rfl, rfl⟩

theorem exec_frame (sv : Nat) (acts : List Act) : ∀ c : State,
    (exec c sv acts).1.tasks = c.tasks ∧ (exec c sv acts).1.value = c.value ∧
    (exec c sv acts).1.maxRetr = c.maxRetr ∧ (exec c sv acts).1.ml.nextSrv = c.ml.nextSrv := by
  induction acts with
  | nil => intro c; exact ⟨rfl, rfl, rfl, rfl⟩
  | cons a as ih =>
    intro c
    have h1 := execAct_frame c sv a
    have h2 := ih (execAct c sv a).1
    simp only [exec]
    exact ⟨h2.1.trans h1.1, h2.2.1.trans h1.2.1, h2.2.2.1.trans h1.2.2.1, h2.2.2.2.trans h1.2.2.2⟩

theorem hasLast_cons (a : Act) (as : List Act) :
    hasLast (a :: as) = ((match a with | .emit _ _ _ true => true | _ => false) || hasLast as) := rfl

/-- the pipes after the effects: the task's own pipe is gone iff it put a last event on it -/
theorem exec_incoming (sv : Nat) (acts : List Act) : ∀ c : State,
    (exec c sv acts).1.ml.incoming =
      if hasLast acts then c.ml.incoming.filter (fun x => x.srv != sv) else c.ml.incoming := by
  induction acts with
  | nil => intro c; simp [exec, hasLast]
  | cons a as ih =>
    intro c
    simp only [exec]
    rw [ih]
    cases a with
    | emit code obs body il =>
      have hr := (respond_frame c.ml sv (mkMsg c code obs body) il).2.2
      simp only [execAct]
      rw [hr, hasLast_cons]
      cases il
      · simp
      · simp only [↓reduceIte, Bool.true_or]
        split
        · rw [List.filter_filter]; simp
        · rfl
    | accept => simp only [execAct, hasLast_cons]; simp
    | callback => simp only [execAct, hasLast_cons]; simp
    | render v => simp only [execAct, hasLast_cons]; simp

/-- the set of observations after the effects of the task of pipe `sv` -/
theorem exec_observations (sv : Nat) (acts : List Act) : ∀ (c : State) (b b' : Bool),
    c.observations.Nodup → (sv ∈ c.observations ↔ b = true) → memAfter b acts = some b' →
    (exec c sv acts).1.observations.Nodup ∧ (sv ∈ (exec c sv acts).1.observations ↔ b' = true) ∧
    ∀ x, x ≠ sv → (x ∈ (exec c sv acts).1.observations ↔ x ∈ c.observations) := by
  induction acts with
  | nil =>
    intro c b b' hn hm h
    simp only [memAfter, Option.some.injEq] at h
    subst h
    exact ⟨hn, hm, fun _ _ => Iff.rfl⟩
  | cons a as ih =>
    intro c b b' hn hm h
    simp only [exec]
    cases a with
    | accept =>
      simp only [memAfter] at h
      cases b with
      | true => simp at h
      | false =>
        simp only [Bool.false_eq_true, ↓reduceIte] at h
        have hnot : sv ∉ c.observations := by simpa using hm
        have := ih (execAct c sv .accept).1 true b' (by
          show (c.observations ++ [sv]).Nodup
          exact nodup_snoc hn hnot) (by
          show sv ∈ c.observations ++ [sv] ↔ _
          simp) h
        refine ⟨this.1, this.2.1, ?_⟩
        intro x hx
        rw [this.2.2 x hx]
        show x ∈ c.observations ++ [sv] ↔ _
        simp [hx]
    | callback =>
      simp only [memAfter] at h
      have := ih (execAct c sv .callback).1 false b' (by
        show (c.observations.erase sv).Nodup
        exact hn.erase sv) (by
        show sv ∈ c.observations.erase sv ↔ _
        simp [hn.mem_erase_iff]) h
      refine ⟨this.1, this.2.1, ?_⟩
      intro x hx
      rw [this.2.2 x hx]
      show x ∈ c.observations.erase sv ↔ _
      simp [hn.mem_erase_iff, hx]
    | render v =>
      simp only [memAfter] at h
      exact ih (execAct c sv (.render v)).1 b b' hn hm h
    | emit code obs body il =>
      simp only [memAfter] at h
      exact ih (execAct c sv (.emit code obs body il)).1 b b' hn hm h

end Aiocoap.Observe.Server
