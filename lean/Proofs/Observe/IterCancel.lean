import Proofs.Observe.IterInv
/-! `CancelledError` comes out of `__anext__` only when the consumer was cancelled: counting argument on the small
iterator machine (`astep`), transferred to the iterator model by `outs_init_abs`.

The invariant: a consumer that is suspended is never suspended on a *cancelled* future.  (A future gets cancelled only
by the `cancel` that throws the consumer out of `__anext__`; and since the `fix:` for polling consumers the next
`__anext__` replaces a cancelled future in the slot before it waits.)  Under it the only steps that put `cancelled`
into the output are `cancel` steps that hit a suspended consumer, one each. -/
namespace Aiocoap.Observe.Iter

variable {α : Type}

def Op.isCancel : Op α → Bool
  | .cancel => true
  | _ => false

/-- how often `CancelledError` came out of `__anext__` -/
def cancelledCount (l : List (Out α)) : Nat := (l.filter Out.isCancelled).length

/-- how often the consumer task was cancelled -/
def cancelOps (ops : List (Op α)) : Nat := (ops.filter Op.isCancel).length

theorem cancelledCount_append (a b : List (Out α)) :
    cancelledCount (a ++ b) = cancelledCount a + cancelledCount b := by
  simp [cancelledCount, List.filter_append]

theorem endOut_not_cancelled (e : ErrKind) : (endOut e : Out α).isCancelled = false := by
  cases e <;> rfl

/-- a suspended consumer is not suspended on a cancelled future -/
def NoCancelledWait (a : A α) : Prop :=
  (a.cons = .onSlot → a.slot ≠ .cancelled) ∧ a.cons ≠ .onOld .cancelled

theorem noCancelledWait_init : NoCancelledWait (ainit : A α) := by
  simp [NoCancelledWait, ainit]

theorem astep_cancelled (a : A α) (h : NoCancelledWait a) (o : Op α) :
    NoCancelledWait (astep a o).1 ∧
      cancelledCount (astep a o).2 = (if o.isCancel then cancelledCount (astep a o).2 else 0) ∧
      cancelledCount (astep a o).2 ≤ 1 := by
  obtain ⟨slot, deferred, cons⟩ := a
  obtain ⟨h1, h2⟩ := h
  simp only at h1 h2
  cases o with
  | push m =>
    cases cons with
    | idle => cases slot <;> simp [astep, apush, ACons.aged, Fut.done, NoCancelledWait, cancelledCount, Op.isCancel]
    | onSlot =>
      cases slot with
      | cancelled => exact absurd rfl (h1 rfl)
      | _ => simp [astep, apush, ACons.aged, Fut.done, NoCancelledWait, cancelledCount, Op.isCancel]
    | onOld c =>
      cases slot <;>
        simp [astep, apush, ACons.aged, Fut.done, NoCancelledWait, cancelledCount, Op.isCancel] <;>
        exact fun hc => h2 (by rw [hc])
  | pushErr e =>
    cases cons with
    | idle =>
      cases slot <;> simp [astep, apushErr, ACons.aged, NoCancelledWait, cancelledCount, Op.isCancel]
    | onSlot =>
      cases slot with
      | cancelled => exact absurd rfl (h1 rfl)
      | _ => simp [astep, apushErr, ACons.aged, NoCancelledWait, cancelledCount, Op.isCancel]
    | onOld c =>
      cases slot <;>
        simp [astep, apushErr, ACons.aged, NoCancelledWait, cancelledCount, Op.isCancel] <;>
        exact fun hc => h2 (by rw [hc])
  | next =>
    cases cons with
    | idle =>
      cases slot with
      | pending => simp [astep, Fut.done, NoCancelledWait, cancelledCount, Op.isCancel]
      | result m =>
        cases deferred <;>
          simp [astep, Fut.done, afinishSlot, freshFut, NoCancelledWait, cancelledCount, Op.isCancel, Out.isCancelled]
      | exc e =>
        simp [astep, Fut.done, afinishSlot, NoCancelledWait, cancelledCount, Op.isCancel, endOut_not_cancelled]
      | cancelled => simp [astep, Fut.done, NoCancelledWait, cancelledCount, Op.isCancel]
    | onSlot =>
      simp only [astep, NoCancelledWait, cancelledCount, Op.isCancel]
      exact ⟨⟨fun _ => h1 rfl, by simp⟩, by simp, by simp⟩
    | onOld c =>
      simp only [astep, NoCancelledWait, cancelledCount, Op.isCancel]
      exact ⟨⟨by simp, h2⟩, by simp, by simp⟩
  | wake =>
    cases cons with
    | idle => simp [astep, NoCancelledWait, cancelledCount, Op.isCancel]
    | onSlot =>
      cases slot with
      | pending => simp [astep, Fut.done, NoCancelledWait, cancelledCount, Op.isCancel]
      | result m =>
        cases deferred <;>
          simp [astep, Fut.done, afinishSlot, freshFut, NoCancelledWait, cancelledCount, Op.isCancel, Out.isCancelled]
      | exc e =>
        simp [astep, Fut.done, afinishSlot, NoCancelledWait, cancelledCount, Op.isCancel, endOut_not_cancelled]
      | cancelled => exact absurd rfl (h1 rfl)
    | onOld c =>
      cases c with
      | pending =>
        simp only [astep, Fut.done, NoCancelledWait, cancelledCount, Op.isCancel]
        exact ⟨⟨by simp, by simp⟩, by simp, by simp⟩
      | result m =>
        simp [astep, Fut.done, afinishOld, NoCancelledWait, cancelledCount, Op.isCancel, Out.isCancelled]
      | exc e =>
        simp [astep, Fut.done, afinishOld, NoCancelledWait, cancelledCount, Op.isCancel, endOut_not_cancelled]
      | cancelled => exact absurd rfl h2
  | cancel =>
    cases cons with
    | idle =>
      simp only [astep, NoCancelledWait, cancelledCount, Op.isCancel]
      exact ⟨⟨by simp, by simp⟩, by simp, by simp⟩
    | onSlot =>
      cases slot <;>
        simp [astep, Fut.done, NoCancelledWait, cancelledCount, Op.isCancel, Out.isCancelled, List.filter]
    | onOld c =>
      simp [astep, NoCancelledWait, cancelledCount, Op.isCancel, Out.isCancelled, List.filter]

theorem astep_cancelled_le (a : A α) (h : NoCancelledWait a) (o : Op α) :
    cancelledCount (astep a o).2 ≤ (if o.isCancel then 1 else 0) := by
  obtain ⟨_, h2, h3⟩ := astep_cancelled a h o
  cases ho : o.isCancel with
  | true => simpa [ho] using h3
  | false => rw [h2]; simp [ho]

theorem arun_cancelled (a : A α) (h : NoCancelledWait a) (ops : List (Op α)) :
    cancelledCount (arun a ops).2 ≤ cancelOps ops := by
  induction ops generalizing a with
  | nil => simp [arun, cancelledCount, cancelOps]
  | cons o os ih =>
    have hs := astep_cancelled a h o
    have h1 := astep_cancelled_le a h o
    have h2 := ih (astep a o).1 hs.1
    simp only [arun, cancelledCount_append]
    have : cancelOps (o :: os) = (if o.isCancel then 1 else 0) + cancelOps os := by
      cases ho : o.isCancel <;> simp [cancelOps, List.filter_cons, ho] <;> omega
    omega

end Aiocoap.Observe.Iter
