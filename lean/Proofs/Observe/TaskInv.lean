import AiocoapModel.Observe.Server
/-!
Invariants of a single render task (`Task`) of the observe-server model, preserved by every
transition of the task: the coroutine steps (`stepTask`), cancellation, triggers, deregistration,
the end of a suspended render.
-/
namespace Aiocoap.Observe.Server

/-- the observation is in the resource's `_observations` set -/
def inSet (t : Task) : Bool := t.observe && t.accepted && t.phase != .done

/-- how the last trigger of an accepted, unfinished observation is being taken care of:
* the trigger future is done — a render that starts later, or the explicit response, is owed;
* a render is in progress that started at or after the trigger;
* the task is idle and the last notification it put on the pipe is as new as the trigger. -/
def Covered (t : Task) : Prop :=
  t.trig.isSome = true ∨
  ((t.phase = .firstRender ∨ t.phase = .loopRender) ∧ t.seen ≤ t.renderVer) ∨
  (t.phase = .waitTrig ∧ t.seen ≤ t.sentVer)

structure TaskOk (val : Nat) (t : Task) : Prop where
  /-- the cancellation callback has run once if the observation was accepted and is over, else never -/
  cb : t.cbRuns = if t.phase = .done ∧ t.observe = true ∧ t.accepted = true then 1 else 0
  /-- no lost wake-up: a done trigger future, a finished render, a cancellation, a new task all
  have the task in the ready queue -/
  wTrig : t.phase = .waitTrig → t.trig.isSome = true → t.runnable = true
  wOut : t.renderOut.isSome = true → t.runnable = true
  wCancel : t.cancelReq = true → t.phase ≠ .done → t.runnable = true
  wFresh : t.phase = .fresh →
    t.runnable = true ∧ t.accepted = false ∧ t.cancelReq = false ∧ t.trig = none ∧ t.renderOut = none
  /-- a task that has ended is never scheduled again -/
  wDone : t.phase = .done → t.runnable = false
  outPhase : ∀ r, t.renderOut = some r →
    (t.phase = .firstRender ∨ t.phase = .loopRender ∨ t.phase = .plainRender) ∧
    (r.exc = false → r.body = t.renderVer)
  acc : t.accepted = true → t.observe = true
  kind : (t.observe = true → t.phase ≠ .plainRender) ∧
         (t.observe = false → t.phase = .fresh ∨ t.phase = .plainRender ∨ t.phase = .done)
  seenLe : t.seen ≤ val
  /-- an explicit response waiting in the trigger future is a message, not an exception, and is as
  new as the trigger (or ends the observation) -/
  trigGood : ∀ r, t.trig = some (some r) →
    r.exc = false ∧ (t.seen ≤ r.body ∨ success r.code = false)
  cov : t.observe = true → t.accepted = true → t.phase ≠ .done → Covered t
  /-- a task that ended by a successful last-marked notification: that notification is as new as
  the last trigger that reached the observation -/
  fin : t.lastSent = true →
    t.phase = .done ∧ t.observe = true ∧ (t.accepted = true → t.seen ≤ t.sentVer)

theorem newTask_ok (val sv : Nat) (r : MsgLayer.Remote) (w : MsgLayer.Wire) :
    TaskOk val (newTask sv r w) := by
  refine ⟨?_, ?_, ?_, ?_, ?_, ?_, ?_, ?_, ?_, ?_, ?_, ?_, ?_⟩ <;> simp [newTask]

theorem TaskOk_mono {val val' : Nat} {t : Task} (h : TaskOk val t) (hv : val ≤ val') : TaskOk val' t :=
  { h with seenLe := Nat.le_trans h.seenLe hv }

/-- expose every field of the task and of the invariant, then let `simp` decide -/
macro "task_auto" : tactic => `(tactic|
  (refine ⟨?_, ?_, ?_, ?_, ?_, ?_, ?_, ?_, ?_, ?_, ?_, ?_, ?_⟩ <;>
   (try simp_all [Covered]) <;> (try omega)))

theorem cancelTask_ok {val : Nat} {t : Task} (h : TaskOk val t) : TaskOk val (cancelTask t) := by
  obtain ⟨h1, h2, h3, h4, h5, h5', h6, h7, h8, h9, h10, h11, h12⟩ := h
  obtain ⟨srv, remote, token, observe, phase, runnable, cancelReq, accepted, obsNo, trig, early,
    late, renderOut, renderVer, cbRuns, seen, sentVer, lastSent⟩ := t
  unfold cancelTask
  cases phase <;> cases renderOut <;> simp only [] <;> task_auto

theorem trigTask_ok {val ver : Nat} {t : Task} (h : TaskOk val t) (hv : val ≤ ver)
    (v : Option Resp) (isLast : Bool)
    (hb : ∀ r, v = some r → r.exc = false ∧ (ver ≤ r.body ∨ success r.code = false)) :
    TaskOk ver (trigTask t v isLast ver) := by
  obtain ⟨h1, h2, h3, h4, h5, h5', h6, h7, h8, h9, h10, h11, h12⟩ := h
  obtain ⟨srv, remote, token, observe, phase, runnable, cancelReq, accepted, obsNo, trig, early,
    late, renderOut, renderVer, cbRuns, seen, sentVer, lastSent⟩ := t
  unfold trigTask
  simp only []
  split
  · exact ⟨h1, h2, h3, h4, h5, h5', h6, h7, h8, Nat.le_trans h9 hv, h10, h11, h12⟩
  · cases v <;> task_auto

theorem deregTask_ok {val : Nat} {t : Task} (h : TaskOk val t) : TaskOk val (deregTask t val) := by
  unfold deregTask
  split
  · exact h
  · split
    · obtain ⟨h1, h2, h3, h4, h5, h5', h6, h7, h8, h9, h10, h11, h12⟩ := h
      obtain ⟨srv, remote, token, observe, phase, runnable, cancelReq, accepted, obsNo, trig, early,
        late, renderOut, renderVer, cbRuns, seen, sentVer, lastSent⟩ := t
      task_auto
    · exact trigTask_ok h (Nat.le_refl _) _ _ (by intro r hr; cases hr; exact ⟨rfl, Or.inr (by decide)⟩)

theorem releaseTask_ok {val : Nat} {t : Task} (h : TaskOk val t) (code : Nat) (exc : Bool) :
    TaskOk val (releaseTask t code exc) := by
  unfold releaseTask
  split
  · obtain ⟨h1, h2, h3, h4, h5, h5', h6, h7, h8, h9, h10, h11, h12⟩ := h
    obtain ⟨srv, remote, token, observe, phase, runnable, cancelReq, accepted, obsNo, trig, early,
      late, renderOut, renderVer, cbRuns, seen, sentVer, lastSent⟩ := t
    cases exc <;> cases phase <;> task_auto
  · exact h

/-- what is known about a task while its coroutine is running (the wake-up flags mean nothing
then): it has not ended and has not been cancelled -/
structure Running (val : Nat) (t : Task) : Prop where
  nd : t.phase ≠ .done
  cb0 : t.cbRuns = 0
  acc : t.accepted = true → t.observe = true
  seenLe : t.seen ≤ val
  nc : t.cancelReq = false
  trigGood : ∀ r, t.trig = some (some r) →
    r.exc = false ∧ (t.seen ≤ r.body ∨ success r.code = false)
  ls : t.lastSent = false

theorem Running_of_ok {val : Nat} {t : Task} (h : TaskOk val t) (hd : t.phase ≠ .done)
    (hc : t.cancelReq = false) : Running val t := by
  refine ⟨hd, ?_, h.acc, h.seenLe, hc, h.trigGood, ?_⟩
  · have := h.cb
    simp [hd] at this
    exact this
  · cases hl : t.lastSent
    · rfl
    · exact absurd (h.fin hl).1 hd

theorem finish_ok {val : Nat} {t : Task} (h : Running val t) (r : Resp) :
    TaskOk val (finish t r).1 := by
  obtain ⟨h1, h2, h3, h4, h5, h6, h7⟩ := h
  simp only [finish]
  task_auto

/-- the task ends by a successful last-marked notification of version `r.body` -/
theorem finishLast_ok {val : Nat} {t : Task} (h : Running val t) (r : Resp)
    (ho : t.observe = true) (hb : t.accepted = true → t.seen ≤ r.body) :
    TaskOk val (finish { t with sentVer := r.body, lastSent := true } r).1 := by
  obtain ⟨h1, h2, h3, h4, h5, h6, h7⟩ := h
  simp only [finish]
  task_auto

theorem afterLoop_ok {val : Nat} {t : Task} (h : Running val t) (r : Resp)
    (ho : t.observe = true) (ht : t.trig = none)
    (hb : t.accepted = true → r.exc = false → success r.code = true → t.seen ≤ r.body) :
    TaskOk val (afterLoop t r).1 := by
  unfold afterLoop
  split
  · exact finish_ok h r
  · rename_i hg
    simp only [Bool.or_eq_true, Bool.not_eq_true', not_or, Bool.not_eq_true,
      Bool.not_eq_false] at hg
    split
    · exact finishLast_ok h r ho (fun ha => hb ha hg.1 hg.2)
    · obtain ⟨h1, h2, h3, h4, h5, h6, h7⟩ := h
      task_auto

theorem atAwait_ok {val : Nat} {t : Task} (h : Running val t) (plan : Plan)
    (ho : t.observe = true) (hr : t.renderOut = none)
    (hcov : t.accepted = true → t.trig = none → t.seen ≤ t.sentVer) :
    TaskOk val (atAwait val t plan).1 := by
  unfold atAwait
  split
  · obtain ⟨h1, h2, h3, h4, h5, h6, h7⟩ := h
    task_auto
  · rename_i r htr
    apply afterLoop_ok
    · exact ⟨h.nd, h.cb0, h.acc, h.seenLe, h.nc, by simp, h.ls⟩
    · exact ho
    · rfl
    · intro _ _ hs
      rcases (h.trigGood r htr).2 with hh | hh
      · exact hh
      · simp [hs] at hh
  · rename_i htr
    split
    · rename_i r hrr
      apply afterLoop_ok
      · exact ⟨h.nd, h.cb0, h.acc, h.seenLe, h.nc, by simp, h.ls⟩
      · exact ho
      · rfl
      · intro _ he _
        cases plan with
        | imm code exc =>
          simp only [renderResp, Option.some.injEq] at hrr
          subst hrr
          simp at he
          simp [he]; exact h.seenLe
        | susp => simp [renderResp] at hrr
    · obtain ⟨h1, h2, h3, h4, h5, h6, h7⟩ := h
      task_auto

theorem afterFirst_ok {val : Nat} {t : Task} (h : Running val t) (r : Resp) (plan : Plan)
    (ho : t.observe = true)
    (hb : r.exc = false → t.accepted = true → t.trig = none → t.seen ≤ r.body) :
    TaskOk val (afterFirst val t r plan).1 := by
  unfold afterFirst
  split
  · exact finish_ok h r
  · rename_i hg
    simp only [Bool.or_eq_true, Bool.not_eq_true', not_or, Bool.not_eq_true] at hg
    apply atAwait_ok
    · exact ⟨h.nd, h.cb0, h.acc, h.seenLe, h.nc, h.trigGood, h.ls⟩
    · exact ho
    · rfl
    · intro ha htn; exact hb hg.1.1.1 ha htn

theorem renderResp_body {val : Nat} {plan : Plan} {r : Resp} (h : renderResp val plan = some r) :
    r.exc = false → r.body = val := by
  cases plan with
  | imm code exc =>
    simp only [renderResp, Option.some.injEq] at h
    subst h
    intro he; simp at he; simp [he]
  | susp => simp [renderResp] at h

theorem startTask_ok {val : Nat} {t : Task} (h : TaskOk val t) (hf : t.phase = .fresh)
    (plan : Plan) (acc : Bool) : TaskOk val (startTask val t plan acc).1 := by
  have hw := h.wFresh hf
  have hcb : t.cbRuns = 0 := by have := h.cb; simp [hf] at this; exact this
  have hls : t.lastSent = false := by
    cases hl : t.lastSent
    · rfl
    · have := (h.fin hl).1; rw [hf] at this; cases this
  cases ho : t.observe <;> cases hrr : renderResp val plan
  · simp only [startTask, ho, hrr, Bool.false_eq_true, ↓reduceIte]
    obtain ⟨h1, h2, h3, h4, h5, h5', h6, h7, h8, h9, h10, h11, h12⟩ := h
    task_auto
  · simp only [startTask, ho, hrr, Bool.false_eq_true, ↓reduceIte]
    exact finish_ok ⟨by simp [hf], hcb, h.acc, h.seenLe, hw.2.2.1, h.trigGood, hls⟩ _
  · simp only [startTask, ho, hrr, ↓reduceIte]
    obtain ⟨h1, h2, h3, h4, h5, h5', h6, h7, h8, h9, h10, h11, h12⟩ := h
    task_auto
  · rename_i r
    simp only [startTask, ho, hrr, ↓reduceIte]
    apply afterFirst_ok
    · exact ⟨by simp [hf], hcb, by intro _; rfl, h.seenLe, hw.2.2.1, h.trigGood, hls⟩
    · rfl
    · intro he _ _; rw [renderResp_body hrr he]; exact h.seenLe

theorem observe_of_phase {val : Nat} {t : Task} (h : TaskOk val t)
    (hp : t.phase = .firstRender ∨ t.phase = .waitTrig ∨ t.phase = .loopRender) :
    t.observe = true := by
  cases hob : t.observe
  · have := h.kind.2 hob
    rcases hp with hp | hp | hp <;> simp [hp] at this
  · rfl

theorem stepTask_ok {val : Nat} {t : Task} (h : TaskOk val t) (plan : Plan) (acc : Bool) :
    TaskOk val (stepTask val t plan acc).1 := by
  unfold stepTask
  split
  · exact h
  split
  · -- cancelled: only `finally` runs
    obtain ⟨h1, h2, h3, h4, h5, h5', h6, h7, h8, h9, h10, h11, h12⟩ := h
    simp only [cancelStep]
    task_auto
  rename_i hrun hnc
  have hnc' : t.cancelReq = false := by simpa using hnc
  split
  · exact startTask_ok h (by assumption) plan acc
  · -- the first render has finished
    rename_i hp
    have ho := observe_of_phase h (Or.inl hp)
    split
    · rename_i r hr
      apply afterFirst_ok (Running_of_ok h (by simp [hp]) hnc') r plan ho
      intro he ha htn
      rw [(h.outPhase r hr).2 he]
      rcases h.cov ho ha (by simp [hp]) with hc | hc | hc
      · simp [htn] at hc
      · exact hc.2
      · simp [hp] at hc
    · obtain ⟨h1, h2, h3, h4, h5, h5', h6, h7, h8, h9, h10, h11, h12⟩ := h
      task_auto
  · -- woken at `await servobs._trigger`
    rename_i hp
    have ho := observe_of_phase h (Or.inr (Or.inl hp))
    apply atAwait_ok (Running_of_ok h (by simp [hp]) hnc') plan ho
    · cases hr : t.renderOut
      · rfl
      · have := (h.outPhase _ hr).1; simp [hp] at this
    · intro ha htn
      rcases h.cov ho ha (by simp [hp]) with hc | hc | hc
      · simp [htn] at hc
      · simp [hp] at hc
      · exact hc.2
  · -- the render of a notification has finished
    rename_i hp
    have ho := observe_of_phase h (Or.inr (Or.inr hp))
    have hrun := Running_of_ok h (by simp [hp]) hnc'
    split
    · rename_i r hr
      have hbody : t.accepted = true → r.exc = false → t.trig = none → t.seen ≤ r.body := by
        intro ha he htn
        rw [(h.outPhase r hr).2 he]
        rcases h.cov ho ha (by simp [hp]) with hc | hc | hc
        · simp [htn] at hc
        · exact hc.2
        · simp [hp] at hc
      unfold afterLoop
      split
      · have : ((finish t r).1.phase == Phase.done) = true := by simp [finish]
        simp only [this, ↓reduceIte]
        exact finish_ok hrun r
      · rename_i hg
        simp only [Bool.or_eq_true, Bool.not_eq_true', not_or, Bool.not_eq_true,
          Bool.not_eq_false] at hg
        split
        · rename_i hl
          simp only [Bool.and_eq_true, Option.isNone_iff_eq_none] at hl
          have : ((finish { t with sentVer := r.body, lastSent := true } r).1.phase == Phase.done)
              = true := by simp [finish]
          simp only [this, ↓reduceIte]
          exact finishLast_ok hrun r ho (fun ha => hbody ha hg.1 hl.2)
        · simp only [beq_iff_eq, reduceCtorEq, ↓reduceIte]
          apply atAwait_ok
          · exact ⟨by simp, hrun.cb0, hrun.acc, hrun.seenLe, hrun.nc, hrun.trigGood, hrun.ls⟩
          · exact ho
          · rfl
          · intro ha htn
            exact hbody ha hg.1 htn
    · obtain ⟨h1, h2, h3, h4, h5, h5', h6, h7, h8, h9, h10, h11, h12⟩ := h
      task_auto
  · -- the render of a plain request has finished
    rename_i hp
    split
    · exact finish_ok (Running_of_ok h (by simp [hp]) hnc') _
    · obtain ⟨h1, h2, h3, h4, h5, h5', h6, h7, h8, h9, h10, h11, h12⟩ := h
      task_auto
  · obtain ⟨h1, h2, h3, h4, h5, h5', h6, h7, h8, h9, h10, h11, h12⟩ := h
    task_auto
