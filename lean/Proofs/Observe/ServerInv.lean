import Proofs.Observe.Exec
import Proofs.Observe.FailExec
import Proofs.Observe.StepSpec2
import Proofs.Observe.StepSpec3
/-!
The invariant of the observe-server model, preserved by every event:

* `Wf` — render tasks and pipes have distinct numbers;
* `PipeInv` — a pipe is in the message layer's table of unfinished incoming requests exactly as
  long as its render task is wanted (not ended, not cancelled), with the request's token and remote;
* `CountInv` — the resource's set of observations holds exactly the accepted, unfinished ones;
* `TaskOk` for every task.
-/
namespace Aiocoap.Observe.Server
open Aiocoap.MsgLayer

structure Wf (c : State) : Prop where
  nd : (c.tasks.map (·.srv)).Nodup
  lt : ∀ t ∈ c.tasks, t.srv < c.ml.nextSrv
  sinv : SInv c.ml

structure PipeInv (c : State) : Prop where
  p1 : ∀ i ∈ c.ml.incoming, ∃ t ∈ c.tasks,
    t.srv = i.srv ∧ t.live = true ∧ t.token = i.token ∧ t.remote = i.remote
  p2 : ∀ t ∈ c.tasks, t.live = true → ∃ i ∈ c.ml.incoming, i.srv = t.srv

structure CountInv (c : State) : Prop where
  nd : c.observations.Nodup
  mem : ∀ sv, sv ∈ c.observations ↔ ∃ t ∈ c.tasks, t.srv = sv ∧ inSet t = true

structure Inv (c : State) : Prop where
  wf : Wf c
  pipe : PipeInv c
  count : CountInv c
  ok : ∀ t ∈ c.tasks, TaskOk c.value t

theorem Inv_init (ml : MsgLayer.State) (maxRetr : Nat) (h : ml.incoming = []) : Inv (init ml maxRetr) := by
  refine ⟨⟨List.nodup_nil, ?_, ⟨?_, ?_⟩⟩, ⟨?_, ?_⟩, ⟨List.nodup_nil, ?_⟩, ?_⟩
  · intro t ht; cases ht
  · simp [init, h]
  · simp [init, h]
  · simp [init, h]
  · intro t ht; cases ht
  · simp [init]
  · intro t ht; cases ht

/-- the task of pipe `sv` is unique -/
theorem task_unique {c : State} (h : Wf c) {t t' : Task} (ht : t ∈ c.tasks) (ht' : t' ∈ c.tasks)
    (e : t.srv = t'.srv) : t = t' := map_inj_of_nodup h.nd ht ht' e

theorem findTask_some {c : State} {sv : Nat} {t : Task} (h : findTask c sv = some t) :
    t ∈ c.tasks ∧ t.srv = sv := by
  unfold findTask at h
  exact ⟨List.mem_of_find?_eq_some h, by simpa using List.find?_some h⟩

theorem findTask_of_mem {c : State} (h : Wf c) {t : Task} (ht : t ∈ c.tasks) :
    findTask c t.srv = some t := by
  unfold findTask
  cases hf : c.tasks.find? (fun x => x.srv == t.srv) with
  | none =>
    have := List.find?_eq_none.mp hf t ht
    simp at this
  | some t' =>
    have h1 := List.mem_of_find?_eq_some hf
    have h2 : t'.srv = t.srv := by simpa using List.find?_some hf
    rw [task_unique h h1 ht h2]

-- events that only touch task records ------------------------------------------------------------------

theorem Inv_mapTasks {c : State} (h : Inv c) (f : Task → Task) (val' : Nat)
    (hid : ∀ t, SameId t (f t)) (hctl : ∀ t, SameCtl t (f t))
    (hok : ∀ t, TaskOk c.value t → TaskOk val' (f t)) :
    Inv { c with value := val', tasks := c.tasks.map f } := by
  have hsrv : (c.tasks.map f).map (·.srv) = c.tasks.map (·.srv) := by
    rw [List.map_map]; apply List.map_congr_left; intro t _; exact (hid t).1
  refine ⟨⟨?_, ?_, h.wf.sinv⟩, ⟨?_, ?_⟩, ⟨h.count.nd, ?_⟩, ?_⟩
  · show ((c.tasks.map f).map (·.srv)).Nodup
    rw [hsrv]; exact h.wf.nd
  · intro t' ht'
    obtain ⟨t, ht, rfl⟩ := List.mem_map.mp ht'
    show (f t).srv < c.ml.nextSrv
    rw [(hid t).1]; exact h.wf.lt t ht
  · intro i hi
    obtain ⟨t, ht, h1, h2, h3, h4⟩ := h.pipe.p1 i hi
    exact ⟨f t, List.mem_map.mpr ⟨t, ht, rfl⟩, by rw [(hid t).1]; exact h1,
      by rw [live_of_ctl (hctl t)]; exact h2, by rw [(hid t).2.2.1]; exact h3,
      by rw [(hid t).2.1]; exact h4⟩
  · intro t' ht' hl
    obtain ⟨t, ht, rfl⟩ := List.mem_map.mp ht'
    rw [live_of_ctl (hctl t)] at hl
    obtain ⟨i, hi, he⟩ := h.pipe.p2 t ht hl
    exact ⟨i, hi, by rw [(hid t).1]; exact he⟩
  · intro sv
    rw [h.count.mem sv]
    constructor
    · rintro ⟨t, ht, h1, h2⟩
      exact ⟨f t, List.mem_map.mpr ⟨t, ht, rfl⟩, by rw [(hid t).1]; exact h1,
        by rw [inSet_of_ctl (hctl t) (hid t)]; exact h2⟩
    · rintro ⟨t', ht', h1, h2⟩
      obtain ⟨t, ht, rfl⟩ := List.mem_map.mp ht'
      exact ⟨t, ht, by rw [← (hid t).1]; exact h1, by rw [← inSet_of_ctl (hctl t) (hid t)]; exact h2⟩
  · intro t' ht'
    obtain ⟨t, ht, rfl⟩ := List.mem_map.mp ht'
    exact hok t (h.ok t ht)

theorem explicitResp_good (resp : Option Nat) (ver : Nat) :
    ∀ r, explicitResp resp ver = some r →
      r.exc = false ∧ (ver ≤ r.body ∨ success r.code = false) := by
  intro r hr
  cases resp with
  | none => simp [explicitResp] at hr
  | some code => simp [explicitResp] at hr; subst hr; exact ⟨rfl, Or.inl (Nat.le_refl _)⟩

theorem Inv_update {c : State} (h : Inv c) (resp : Option Nat) : Inv (handle c (.update resp)).1 := by
  simp only [handle]
  apply Inv_mapTasks h
    (fun t => if c.observations.contains t.srv then
      trigTask t (explicitResp resp (c.value + 1)) false (c.value + 1) else t)
  · intro t; split
    · exact trigTask_id _ _ _ _
    · exact SameId.refl t
  · intro t; split
    · exact trigTask_ctl _ _ _ _
    · exact SameCtl.refl t
  · intro t ht; split
    · exact trigTask_ok ht (Nat.le_succ _) _ _ (explicitResp_good resp _)
    · exact TaskOk_mono ht (Nat.le_succ _)

theorem Inv_mapTask {c : State} (h : Inv c) (sv : Nat) (g : Task → Task) (val' : Nat)
    (hid : ∀ t, SameId t (g t)) (hctl : ∀ t, SameCtl t (g t))
    (hok : ∀ t, TaskOk c.value t → TaskOk val' (g t)) (hv : c.value ≤ val') :
    Inv (mapTask { c with value := val' } sv g) := by
  apply Inv_mapTasks h (fun t => if t.srv == sv then g t else t) val'
  · intro t; split
    · exact hid t
    · exact SameId.refl t
  · intro t; split
    · exact hctl t
    · exact SameCtl.refl t
  · intro t ht; split
    · exact hok t ht
    · exact TaskOk_mono ht hv

theorem Inv_trigger {c : State} (h : Inv c) (sv : Nat) (resp : Option Nat) (il : Bool) :
    Inv (handle c (.trigger sv resp il)).1 := by
  simp only [handle]
  exact Inv_mapTask h sv _ (c.value + 1) (fun t => trigTask_id t _ _ _) (fun t => trigTask_ctl t _ _ _)
    (fun t ht => trigTask_ok ht (Nat.le_succ _) _ _ (explicitResp_good resp _)) (Nat.le_succ _)

theorem Inv_deregister {c : State} (h : Inv c) (sv : Nat) : Inv (handle c (.deregister sv)).1 := by
  simp only [handle]
  exact Inv_mapTask h sv _ c.value (fun t => deregTask_id t _) (fun t => deregTask_ctl t _)
    (fun t ht => deregTask_ok ht) (Nat.le_refl _)

theorem Inv_release {c : State} (h : Inv c) (sv code : Nat) (exc : Bool) :
    Inv (handle c (.release sv code exc)).1 := by
  simp only [handle]
  exact Inv_mapTask h sv _ c.value (fun t => releaseTask_id t _ _) (fun t => releaseTask_ctl t _ _)
    (fun t ht => releaseTask_ok ht _ _) (Nat.le_refl _)


-- events of the message layer ------------------------------------------------------------------------

theorem delivered_srv (os : List MsgLayer.Out) : (delivered os).map (·.srv) = dsrvs os := by
  induction os with
  | nil => rfl
  | cons o os ih =>
    cases o <;> simp_all [delivered, dsrvs, newTask]

theorem mem_delivered {os : List MsgLayer.Out} {t : Task} :
    t ∈ delivered os ↔ ∃ sv r w, Out.deliver sv r w ∈ os ∧ t = newTask sv r w := by
  simp only [delivered, List.mem_filterMap]
  constructor
  · rintro ⟨o, ho, h⟩
    cases o with
    | deliver sv r w => simp at h; exact ⟨sv, r, w, ho, h.symm⟩
    | _ => simp at h
  · rintro ⟨sv, r, w, ho, rfl⟩
    exact ⟨_, ho, rfl⟩

theorem absorbTask_id (os : List MsgLayer.Out) (t : Task) :
    SameId t (if stops os t.srv then cancelTask t else t) := by
  split
  · exact cancelTask_id t
  · exact SameId.refl t

theorem Inv_absorbW {c : State} (h : Inv c) {ml' : MsgLayer.State} {os : List MsgLayer.Out}
    (hs : SrvStepW c.ml ml' os) : Inv (absorb { c with ml := ml' } os) := by
  have hsrv : (c.tasks.map (fun t => if stops os t.srv then cancelTask t else t)).map (·.srv) =
      c.tasks.map (·.srv) := by
    rw [List.map_map]; apply List.map_congr_left; intro t _; exact (absorbTask_id os t).1
  have hmono : c.ml.nextSrv ≤ ml'.nextSrv := by rcases hs.nxt with h1 | h1 <;> omega
  refine ⟨⟨?_, ?_, hs.sinv⟩, ⟨?_, ?_⟩, ⟨h.count.nd, ?_⟩, ?_⟩
  · -- task numbers stay distinct
    show ((c.tasks.map (fun t => if stops os t.srv then cancelTask t else t) ++ delivered os).map
      (fun t : Task => t.srv)).Nodup
    rw [List.map_append, hsrv, delivered_srv]
    rcases hs.nxt with h1 | h1
    · rw [h1.1, List.append_nil]; exact h.wf.nd
    · rw [h1.1]
      refine nodup_snoc h.wf.nd ?_
      intro hm
      obtain ⟨t, ht, he⟩ := List.mem_map.mp hm
      have := h.wf.lt t ht
      omega
  · intro t' ht'
    show t'.srv < ml'.nextSrv
    rcases List.mem_append.mp ht' with ht' | ht'
    · obtain ⟨t, ht, rfl⟩ := List.mem_map.mp ht'
      rw [(absorbTask_id os t).1]
      have := h.wf.lt t ht
      omega
    · have : t'.srv ∈ dsrvs os := by rw [← delivered_srv]; exact List.mem_map.mpr ⟨t', ht', rfl⟩
      rcases hs.nxt with h1 | h1
      · rw [h1.1] at this; cases this
      · rw [h1.1] at this; simp at this; omega
  · -- every pipe left has a wanted task
    intro i hi
    rcases hs.inc i hi with ⟨hold, hst⟩ | ⟨r, w, hd, htok, hrem⟩
    · obtain ⟨t, ht, h1, h2, h3, h4⟩ := h.pipe.p1 i hold
      refine ⟨t, List.mem_append_left _ (List.mem_map.mpr ⟨t, ht, ?_⟩), h1, h2, h3, h4⟩
      rw [h1, hst]; rfl
    · refine ⟨newTask i.srv r w, List.mem_append_right _ (mem_delivered.mpr ⟨_, _, _, hd, rfl⟩),
        rfl, live_newTask _ _ _, htok.symm, hrem.symm⟩
  · -- every wanted task has its pipe
    intro t' ht' hl
    rcases List.mem_append.mp ht' with ht' | ht'
    · obtain ⟨t, ht, rfl⟩ := List.mem_map.mp ht'
      by_cases hst : stops os t.srv = true
      · simp only [hst, ↓reduceIte] at hl
        rw [cancelTask_not_live] at hl; cases hl
      · have hst' : stops os t.srv = false := by simpa using hst
        simp only [hst', Bool.false_eq_true, ↓reduceIte] at hl ⊢
        obtain ⟨i, hi, he⟩ := h.pipe.p2 t ht hl
        exact ⟨i, hs.surv i hi (by rw [he]; exact hst'), he⟩
    · obtain ⟨sv, r, w, hd, rfl⟩ := mem_delivered.mp ht'
      exact hs.dlIn sv r w hd
  · -- the set of observations is unchanged, and so is who belongs to it
    intro sv
    show sv ∈ c.observations ↔ ∃ t ∈ c.tasks.map (fun t => if stops os t.srv then cancelTask t else t) ++
      delivered os, t.srv = sv ∧ inSet t = true
    rw [h.count.mem sv]
    constructor
    · rintro ⟨t, ht, h1, h2⟩
      refine ⟨_, List.mem_append_left _ (List.mem_map.mpr ⟨t, ht, rfl⟩), ?_, ?_⟩
      · rw [(absorbTask_id os t).1]; exact h1
      · split
        · rw [inSet_cancelTask (h.ok t ht)]; exact h2
        · exact h2
    · rintro ⟨t', ht', h1, h2⟩
      rcases List.mem_append.mp ht' with ht' | ht'
      · obtain ⟨t, ht, rfl⟩ := List.mem_map.mp ht'
        refine ⟨t, ht, by rw [← (absorbTask_id os t).1]; exact h1, ?_⟩
        split at h2
        · rw [inSet_cancelTask (h.ok t ht)] at h2; exact h2
        · exact h2
      · obtain ⟨sv', r, w, _, rfl⟩ := mem_delivered.mp ht'
        rw [inSet_newTask] at h2; cases h2
  · intro t' ht'
    rcases List.mem_append.mp ht' with ht' | ht'
    · obtain ⟨t, ht, rfl⟩ := List.mem_map.mp ht'
      split
      · exact cancelTask_ok (h.ok t ht)
      · exact h.ok t ht
    · obtain ⟨sv', r, w, _, rfl⟩ := mem_delivered.mp ht'
      exact newTask_ok _ _ _ _

theorem Inv_absorb {c : State} (h : Inv c) {ml' : MsgLayer.State} {os : List MsgLayer.Out}
    (hs : SrvStep c.ml ml' os) : Inv (absorb { c with ml := ml' } os) := Inv_absorbW h hs.weak

theorem Inv_netEvent {c : State} (h : Inv c) (e : MsgLayer.Ev) (he : netEv e = true) :
    Inv (netEvent c e).1 :=
  Inv_absorb h (handle_SrvStep h.wf.sinv e he)


-- a step of a render task ------------------------------------------------------------------------------

theorem not_live_of_done {t : Task} (h : t.phase = .done) : t.live = false := by
  simp [Task.live, h]

theorem Inv_stepTask {c : State} (h : Inv c) {t : Task} (ht : t ∈ c.tasks) (plan : Plan) (acc : Bool) :
    Inv (putTask (exec c t.srv (stepTask c.value t plan acc).2).1 (stepTask c.value t plan acc).1) := by
  have hok := h.ok t ht
  have hid := stepTask_id c.value t plan acc
  have hfr := exec_frame t.srv (stepTask c.value t plan acc).2 c
  have hinc := exec_incoming t.srv (stepTask c.value t plan acc).2 c
  have hlast := stepTask_last c.value t plan acc
  have hlive := stepTask_live c.value t plan acc
  have hdead := fun hl => (stepTask_dead c.value t plan acc hl hok.wDone).1
  have hok' := stepTask_ok hok plan acc
  have hobs := exec_observations t.srv (stepTask c.value t plan acc).2 c (inSet t)
    (inSet (stepTask c.value t plan acc).1) h.count.nd (by
      rw [h.count.mem]
      constructor
      · rintro ⟨t0, ht0, he, hin⟩
        rw [task_unique h.wf ht0 ht he] at hin; exact hin
      · intro hin; exact ⟨t, ht, rfl, hin⟩)
    (stepTask_mem plan acc (fun hf => (hok.wFresh hf).2.1))
  generalize stepTask c.value t plan acc = x at *
  obtain ⟨t', acts⟩ := x
  simp only at hid hfr hinc hlast hlive hdead hok' hobs ⊢
  generalize hc1 : exec c t.srv acts = y at *
  obtain ⟨c1, o⟩ := y
  simp only at hfr hinc hobs ⊢
  -- the new task list
  have htasks : (putTask c1 t').tasks = c.tasks.map (fun x => if x.srv == t.srv then t' else x) := by
    simp only [putTask, hfr.1, hid.1]
  have hsrv : (c.tasks.map (fun x => if x.srv == t.srv then t' else x)).map (·.srv) = c.tasks.map (·.srv) := by
    rw [List.map_map]; apply List.map_congr_left; intro x _
    simp only [Function.comp]
    split
    · rename_i he; rw [hid.1]; exact (by simpa using he : x.srv = t.srv).symm
    · rfl
  have hmemInc : ∀ i, i ∈ c1.ml.incoming ↔ i ∈ c.ml.incoming ∧ (hasLast acts = true → i.srv ≠ t.srv) := by
    intro i; rw [hinc]
    split
    · rename_i hl; simp [List.mem_filter, hl]
    · rename_i hl; simp [hl]
  refine ⟨⟨?_, ?_, ⟨?_, ?_⟩⟩, ⟨?_, ?_⟩, ⟨hobs.1, ?_⟩, ?_⟩
  · rw [htasks, hsrv]; exact h.wf.nd
  · intro t2 ht2
    rw [htasks] at ht2
    obtain ⟨x, hx, rfl⟩ := List.mem_map.mp ht2
    show _ < c1.ml.nextSrv
    rw [hfr.2.2.2]
    split
    · rw [hid.1]; exact h.wf.lt t ht
    · exact h.wf.lt x hx
  · show (c1.ml.incoming.map (·.srv)).Nodup
    rw [hinc]; split
    · exact List.Nodup.sublist (List.filter_sublist.map _) h.wf.sinv.nd
    · exact h.wf.sinv.nd
  · intro i hi
    show i.srv < c1.ml.nextSrv
    rw [hfr.2.2.2]; exact h.wf.sinv.lt i ((hmemInc i).mp hi).1
  · -- every pipe left has a wanted task
    intro i hi
    show ∃ t2 ∈ (putTask c1 t').tasks, _
    rw [htasks]
    obtain ⟨hi0, hnl⟩ := (hmemInc i).mp hi
    obtain ⟨ti, hti, h1, h2, h3, h4⟩ := h.pipe.p1 i hi0
    by_cases he : ti.srv = t.srv
    · have : ti = t := task_unique h.wf hti ht he
      subst this
      have hnl' : hasLast acts = false := by
        cases hl : hasLast acts
        · rfl
        · exact absurd h1.symm (hnl hl)
      refine ⟨t', List.mem_map.mpr ⟨ti, hti, by simp⟩, by rw [hid.1]; exact h1, ?_, by rw [hid.2.2.1]; exact h3,
        by rw [hid.2.1]; exact h4⟩
      rcases hlive h2 with hl | hl
      · exact hl
      · rw [hnl'] at hl; cases hl
    · exact ⟨ti, List.mem_map.mpr ⟨ti, hti, by simp [he]⟩, h1, h2, h3, h4⟩
  · -- every wanted task has its pipe
    intro t2 ht2 hl2
    rw [htasks] at ht2
    obtain ⟨x, hx, rfl⟩ := List.mem_map.mp ht2
    show ∃ i ∈ c1.ml.incoming, _
    by_cases he : x.srv = t.srv
    · have : x = t := task_unique h.wf hx ht he
      subst this
      simp only [beq_self_eq_true, ↓reduceIte] at hl2 ⊢
      have hxl : x.live = true := by
        cases hxl : x.live
        · rw [hdead hxl] at hl2; cases hl2
        · rfl
      have hnl : hasLast acts = false := by
        cases hl : hasLast acts
        · rfl
        · rw [not_live_of_done (hlast hl)] at hl2; cases hl2
      obtain ⟨i, hi, hie⟩ := h.pipe.p2 x hx hxl
      exact ⟨i, (hmemInc i).mpr ⟨hi, by rw [hnl]; intro hh; cases hh⟩, by rw [hid.1]; exact hie⟩
    · have hne : (x.srv == t.srv) = false := by simpa using he
      simp only [hne, Bool.false_eq_true, ↓reduceIte] at hl2 ⊢
      obtain ⟨i, hi, hie⟩ := h.pipe.p2 x hx hl2
      exact ⟨i, (hmemInc i).mpr ⟨hi, by intro _; rw [hie]; exact he⟩, hie⟩
  · -- the set of observations follows the task
    intro sv
    show sv ∈ c1.observations ↔ ∃ t2 ∈ (putTask c1 t').tasks, _
    rw [htasks]
    by_cases hsv : sv = t.srv
    · subst hsv
      rw [hobs.2.1]
      constructor
      · intro hin
        exact ⟨t', List.mem_map.mpr ⟨t, ht, by simp⟩, hid.1, hin⟩
      · rintro ⟨t2, ht2, h1, h2⟩
        obtain ⟨x, hx, rfl⟩ := List.mem_map.mp ht2
        by_cases he : x.srv = t.srv
        · simp only [he, beq_self_eq_true, ↓reduceIte] at h2; exact h2
        · have hne : (x.srv == t.srv) = false := by simpa using he
          simp only [hne, Bool.false_eq_true, ↓reduceIte] at h1
          exact absurd h1 he
    · rw [hobs.2.2 sv hsv, h.count.mem sv]
      constructor
      · rintro ⟨x, hx, h1, h2⟩
        have hne : (x.srv == t.srv) = false := by rw [h1]; simpa using hsv
        exact ⟨x, List.mem_map.mpr ⟨x, hx, by simp [hne]⟩, h1, h2⟩
      · rintro ⟨t2, ht2, h1, h2⟩
        obtain ⟨x, hx, rfl⟩ := List.mem_map.mp ht2
        by_cases he : x.srv = t.srv
        · simp only [he, beq_self_eq_true, ↓reduceIte] at h1
          rw [hid.1] at h1; exact absurd h1.symm hsv
        · have hne : (x.srv == t.srv) = false := by simpa using he
          simp only [hne, Bool.false_eq_true, ↓reduceIte] at h1 h2
          exact ⟨x, hx, h1, h2⟩
  · intro t2 ht2
    rw [htasks] at ht2
    obtain ⟨x, hx, rfl⟩ := List.mem_map.mp ht2
    show TaskOk c1.value _
    rw [hfr.2.1]
    split
    · exact hok'
    · exact h.ok x hx

theorem Inv_stepEv {c : State} (h : Inv c) (sv : Nat) (plan : Plan) (acc : Bool) :
    Inv (handle c (.step sv plan acc)).1 := by
  simp only [handle]
  cases hf : findTask c sv with
  | none => exact h
  | some t =>
    obtain ⟨ht, hsv⟩ := findTask_some hf
    subst hsv
    exact Inv_stepTask h ht plan acc

/-- a step during which the transport fails a send: the ordinary step's result with the message
layer of the failing one, and the tasks of the pipes the transport error stopped cancelled -/
theorem Inv_stepFailEv {c : State} (h : Inv c) (sv : Nat) (plan : Plan) (acc : Bool) :
    Inv (handle c (.stepFail sv plan acc)).1 := by
  simp only [handle]
  cases hf : findTask c sv with
  | none => exact h
  | some t =>
    obtain ⟨ht, hsv⟩ := findTask_some hf
    subst hsv
    have hN := Inv_stepTask h ht plan acc
    have hsim := (execF_sim t.srv (stepTask c.value t plan acc).2 (Sim.refl c)).1
    have hsrv := execF_srv t.srv (stepTask c.value t plan acc).2 c h.wf.sinv
    have heq : putTask (execF c t.srv (stepTask c.value t plan acc).2).1 (stepTask c.value t plan acc).1 =
        { putTask (exec c t.srv (stepTask c.value t plan acc).2).1 (stepTask c.value t plan acc).1 with
          ml := (execF c t.srv (stepTask c.value t plan acc).2).1.ml } := by
      simp only [putTask, hsim.tasks, hsim.obs, hsim.value, hsim.maxRetr]
    show Inv (absorb (putTask _ _) _)
    rw [heq]
    exact Inv_absorbW hN hsrv

/-- **the invariant is preserved by every event** -/
theorem Inv_handle {c : State} (h : Inv c) (ev : Ev) : Inv (handle c ev).1 := by
  cases ev with
  | recv r mcl w => exact Inv_netEvent h _ rfl
  | error r => exact Inv_netEvent h _ rfl
  | fireRetransmit r m => exact Inv_netEvent h _ rfl
  | fireEmptyAck r tk => exact Inv_netEvent h _ rfl
  | fireExpire r m => exact Inv_netEvent h _ rfl
  | shutdown => exact Inv_netEvent h _ rfl
  | update resp => exact Inv_update h resp
  | trigger sv resp il => exact Inv_trigger h sv resp il
  | deregister sv => exact Inv_deregister h sv
  | release sv code exc => exact Inv_release h sv code exc
  | step sv plan acc => exact Inv_stepEv h sv plan acc
  | stepFail sv plan acc => exact Inv_stepFailEv h sv plan acc

theorem Inv_setNow {c : State} (h : Inv c) (t : Nat) : Inv { c with ml := MsgLayer.setNow c.ml t } :=
  ⟨⟨h.wf.nd, h.wf.lt, ⟨h.wf.sinv.nd, h.wf.sinv.lt⟩⟩, ⟨h.pipe.p1, h.pipe.p2⟩, ⟨h.count.nd, h.count.mem⟩, h.ok⟩

theorem Inv_step {c : State} (h : Inv c) (e : TEv) : Inv (step c e).1 :=
  Inv_handle (Inv_setNow h e.time) e.ev

theorem Inv_run {c : State} (h : Inv c) (es : List TEv) : Inv (run c es).1 := by
  induction es generalizing c with
  | nil => exact h
  | cons e es ih => simp only [run]; exact ih (Inv_step h e)

end Aiocoap.Observe.Server
