import Proofs.Observe.Causes
/-!
The ending cause "a transport error is reported for the observer" when it is reported
synchronously, from inside the send of a notification (`Ev.stepFail`): every registration of that
endpoint is stopped — the one whose notification was being sent among them —, and nothing goes
onto the wire in that step.
-/
namespace Aiocoap.Observe.Server
open Aiocoap.MsgLayer

-- sending a response does not touch the shutdown flags ---------------------------------------------------

theorem storeReply_shut (s : MsgLayer.State) (r : Remote) (w : Wire) :
    (storeReply s r w).shutMsg = s.shutMsg ∧ (storeReply s r w).shutTok = s.shutTok := by
  unfold storeReply
  split <;> exact ⟨rfl, rfl⟩

theorem sendInitially_shut (s : MsgLayer.State) (r : Remote) (w : Wire) (m : Monitor) (k : Nat) :
    (sendInitially s r w m k).1.shutMsg = s.shutMsg ∧ (sendInitially s r w m k).1.shutTok = s.shutTok := by
  unfold sendInitially
  dsimp only
  split
  · exact ⟨(storeReply_shut _ _ _).1.trans rfl, (storeReply_shut _ _ _).2.trans rfl⟩
  · exact storeReply_shut _ _ _

theorem dispatchOut_shut (s : MsgLayer.State) (r : Remote) (w : Wire) (m : Monitor) (k : Nat) :
    (dispatchOut s r w m k).1.shutMsg = s.shutMsg ∧ (dispatchOut s r w m k).1.shutTok = s.shutTok := by
  unfold dispatchOut
  split
  · exact ⟨rfl, rfl⟩
  · exact sendInitially_shut _ _ _ _ _

theorem sendMessage_shut (s : MsgLayer.State) (remote : Remote) (mc : Bool) (token : Token) (m : OutMsg)
    (wasNon : Bool) (mon : Monitor) :
    (sendMessage s remote mc token m wasNon mon).1.shutMsg = s.shutMsg ∧
    (sendMessage s remote mc token m wasNon mon).1.shutTok = s.shutTok := by
  unfold sendMessage
  split
  · rename_i p _
    split
    · have := sendInitially_shut (dropPiggy s remote token) remote
        { mtype := .ack, code := 0, mid := p.mid, token := [], obs := none, body := 0 } mon m.maxRetr
      exact ⟨this.1, this.2⟩
    · have := dispatchOut_shut (dropPiggy s remote token) remote
        { mtype := .ack, code := m.code, mid := p.mid, token, obs := m.obs, body := m.body } mon m.maxRetr
      exact ⟨this.1, this.2⟩
  · split
    · exact ⟨rfl, rfl⟩
    · dsimp only
      split
      · exact ⟨rfl, rfl⟩
      · have := dispatchOut_shut (takeMid s).2 remote
          { mtype := chooseType s mc wasNon m, code := m.code, mid := (takeMid s).1, token,
            obs := m.obs, body := m.body } mon m.maxRetr
        exact ⟨this.1, this.2⟩

theorem respond_shut (s : MsgLayer.State) (sv : Nat) (m : OutMsg) (il : Bool) :
    (respond s sv m il).1.shutMsg = s.shutMsg ∧ (respond s sv m il).1.shutTok = s.shutTok := by
  unfold respond
  split
  · exact ⟨rfl, rfl⟩
  · dsimp only
    split <;> exact sendMessage_shut _ _ _ _ _ _ _

theorem execAct_shut (c : State) (sv : Nat) (a : Act) :
    (execAct c sv a).1.ml.shutMsg = c.ml.shutMsg ∧ (execAct c sv a).1.ml.shutTok = c.ml.shutTok := by
  cases a with
  | emit code obs body il => exact respond_shut _ _ _ _
  | _ => exact ⟨rfl, rfl⟩

-- what a response hands to the transport -------------------------------------------------------------------

theorem sendInitially_out (s : MsgLayer.State) (r : Remote) (w : Wire) (m : Monitor) (k : Nat) :
    (sendInitially s r w m k).2 = [.send s.now r w] := rfl

theorem dispatchOut_out (s : MsgLayer.State) (r : Remote) (w : Wire) (m : Monitor) (k : Nat) :
    (dispatchOut s r w m k).2 = [] ∨ ∃ tm, (dispatchOut s r w m k).2 = [.send tm r w] := by
  unfold dispatchOut
  split
  · exact Or.inl rfl
  · exact Or.inr ⟨_, rfl⟩

theorem sendMessage_out (s : MsgLayer.State) (remote : Remote) (mc : Bool) (token : Token) (m : OutMsg)
    (wasNon : Bool) (mon : Monitor) :
    (sendMessage s remote mc token m wasNon mon).2.1 = [] ∨
    ∃ tm w, (sendMessage s remote mc token m wasNon mon).2.1 = [.send tm remote w] := by
  unfold sendMessage
  split
  · rename_i p _
    split
    · exact Or.inr ⟨_, _, rfl⟩
    · rcases dispatchOut_out (dropPiggy s remote token) remote
        { mtype := .ack, code := m.code, mid := p.mid, token, obs := m.obs, body := m.body } mon m.maxRetr
        with h | ⟨tm, h⟩
      · exact Or.inl h
      · exact Or.inr ⟨tm, _, h⟩
  · split
    · exact Or.inl rfl
    · dsimp only
      split
      · exact Or.inl rfl
      · rcases dispatchOut_out (takeMid s).2 remote
          { mtype := chooseType s mc wasNon m, code := m.code, mid := (takeMid s).1, token,
            obs := m.obs, body := m.body } mon m.maxRetr with h | ⟨tm, h⟩
        · exact Or.inl h
        · exact Or.inr ⟨tm, _, h⟩

/-- a response put on a pipe makes the message layer hand at most one datagram to the transport,
whether or not it is the pipe's last -/
theorem respond_out (s : MsgLayer.State) (sv : Nat) (m : OutMsg) (il : Bool) :
    (respond s sv m il).2 = (respond s sv m false).2 ∧
    ((respond s sv m il).2 = [] ∨ ∃ tm r w, (respond s sv m il).2 = [.send tm r w]) := by
  unfold respond
  split
  · exact ⟨rfl, Or.inl rfl⟩
  · rename_i i _
    dsimp only
    have := sendMessage_out s i.remote false i.token m i.wasNon (.srv sv)
    refine ⟨by cases il <;> rfl, ?_⟩
    rcases this with h | ⟨tm, w, h⟩
    · left; split <;> exact h
    · right; exact ⟨tm, i.remote, w, by split <;> exact h⟩

/-- when no send fails for an effect, the effect hands nothing to the transport -/
theorem execAct_noSend {c : State} {sv : Nat} {a : Act} (h : failingEmit c sv a = none)
    (tm : Nat) (r : Remote) (w : Wire) : Out.net (.send tm r w) ∉ (execAct c sv a).2 := by
  cases a with
  | emit code obs body il =>
    have ho := respond_out c.ml sv (mkMsg c code obs body) il
    simp only [failingEmit] at h
    rcases ho.2 with h0 | ⟨tm', r', w', h1⟩
    · simp [execAct, h0]
    · rw [ho.1] at h1
      rw [h1] at h
      cases h
  | accept => simp [execAct]
  | render v => simp [execAct]
  | callback => simp [execAct]

theorem execAct_noFail (c : State) (sv : Nat) (a : Act) (tm : Nat) (r : Remote) (w : Wire) :
    Out.sendFailed tm r w ∉ (execAct c sv a).2 := by
  cases a <;> simp [execAct]

theorem exec_noFail (sv : Nat) (acts : List Act) : ∀ (c : State) (tm : Nat) (r : Remote) (w : Wire),
    Out.sendFailed tm r w ∉ (exec c sv acts).2 := by
  induction acts with
  | nil => intro c tm r w h; cases h
  | cons a as ih =>
    intro c tm r w h
    simp only [exec] at h
    rcases List.mem_append.mp h with h | h
    · exact execAct_noFail c sv a tm r w h
    · exact ih _ tm r w h

/-- a transport error transmits nothing -/
theorem error_noSend (s : MsgLayer.State) (remote : Remote) (tm : Nat) (r : Remote) (w : Wire) :
    MsgLayer.Out.send tm r w ∉ (MsgLayer.handle s (.error remote)).2 := by
  simp only [MsgLayer.handle, dispatchError]
  split
  · simp
  · simp only [tokenDispatchError]
    split <;> simp

theorem mem_failOuts {o : Out} {tm : Nat} {r : Remote} {w : Wire} {l : List MsgLayer.Out} {n : Out}
    (h : o ∈ Out.sendFailed tm r w :: l.map Out.net ++ [n]) :
    o = .sendFailed tm r w ∨ (∃ x ∈ l, o = .net x) ∨ o = n := by
  rcases List.mem_append.mp h with h | h
  · rcases List.mem_cons.mp h with h | h
    · exact Or.inl h
    · obtain ⟨x, hx, rfl⟩ := List.mem_map.mp h
      exact Or.inr (Or.inl ⟨x, hx, rfl⟩)
  · exact Or.inr (Or.inr (List.mem_singleton.mp h))

/-- **the failing send.**  If a step reports a failed send, the datagram was a response of this
pipe, addressed to the pipe's remote with the pipe's token; every pipe of that remote — this one
included — is stopped by the transport error; and nothing at all is transmitted in that step. -/
theorem execF_failed (sv : Nat) (acts : List Act) : ∀ c : State, SInv c.ml → c.ml.shutMsg = false → c.ml.shutTok = false →
    ∀ tm r w, Out.sendFailed tm r w ∈ (execF c sv acts).2.1 →
    (∃ i ∈ c.ml.incoming, i.srv = sv ∧ r = i.remote ∧ w.token = i.token) ∧
    (∀ j ∈ c.ml.incoming, j.remote = r → Out.stop j.srv ∈ (execF c sv acts).2.2) ∧
    (∀ tm' r' w', Out.net (.send tm' r' w') ∉ (execF c sv acts).2.1) := by
  induction acts with
  | nil => intro c _ _ _ tm r w h; cases h
  | cons a as ih =>
    intro c hinv hm hs tm r w h
    simp only [execF] at h ⊢
    cases hf : failingEmit c sv a with
    | none =>
      rw [hf] at h
      simp only at h ⊢
      rcases List.mem_append.mp h with h | h
      · exact absurd h (execAct_noFail c sv a tm r w)
      · have hsh := execAct_shut c sv a
        obtain ⟨⟨i, hi, hisv, hir, hit⟩, h2, h3⟩ :=
          ih (execAct c sv a).1 (execAct_SInv hinv sv a) (hsh.1.trans hm) (hsh.2.trans hs) tm r w h
        -- the pipe is still there, so the effect did not end it: the table is unchanged
        have hinc : (execAct c sv a).1.ml.incoming = c.ml.incoming := by
          cases a with
          | emit code obs body il =>
            have hr := (respond_frame c.ml sv (mkMsg c code obs body) il).2.2
            have hi' : i ∈ (respond c.ml sv (mkMsg c code obs body) il).1.incoming := hi
            show (respond c.ml sv (mkMsg c code obs body) il).1.incoming = _
            rw [hr] at hi' ⊢
            cases il with
            | false => rfl
            | true =>
              simp only [↓reduceIte, List.mem_filter] at hi'
              simp [hisv] at hi'
          | _ => rfl
        rw [hinc] at hi h2
        refine ⟨⟨i, hi, hisv, hir, hit⟩, h2, ?_⟩
        intro tm' r' w' hmem
        rcases List.mem_append.mp hmem with hmem | hmem
        · exact execAct_noSend hf tm' r' w' hmem
        · exact h3 tm' r' w' hmem
    | some res =>
      rw [hf] at h
      obtain ⟨code, obs, body, il, tm0, remote, w0, rfl, hr, h1, h2, h3⟩ := failingEmit_some hf
      obtain ⟨c1, os, st⟩ := res
      simp only at h1 h2 h3 h ⊢
      subst h1 h2 h3
      have hrs := respond_sends c.ml sv (mkMsg c code obs body) false rfl (.send tm0 remote w0)
        (by rw [hr]; exact List.mem_singleton.mpr rfl)
      obtain ⟨i, hi, hisv, tm1, w1, heq, htok, _⟩ := hrs
      cases heq
      have hrf := (respond_frame c.ml sv (mkMsg c code obs body) false).2.2
      simp only [Bool.false_eq_true, ↓reduceIte] at hrf
      have hsh := respond_shut c.ml sv (mkMsg c code obs body) false
      -- which failed send is it
      have hthis : tm = tm0 ∧ r = i.remote ∧ w = w0 := by
        rcases List.mem_append.mp h with h | h
        · rcases mem_failOuts h with h | ⟨x, _, hx⟩ | h
          · cases h; exact ⟨rfl, rfl, rfl⟩
          · cases hx
          · cases h
        · exact absurd h (exec_noFail sv as _ tm r w)
      obtain ⟨rfl, rfl, rfl⟩ := hthis
      have hstop : ∀ j ∈ c.ml.incoming, j.remote = i.remote → Out.stop j.srv ∈
          (MsgLayer.handle (respond c.ml sv (mkMsg c code obs body) false).1 (.error i.remote)).2 := by
        intro j hj hjr
        exact stop_of_error (hsh.1.trans hm) (hsh.2.trans hs) (by rw [hrf]; exact hj) hjr
      refine ⟨⟨i, hi, hisv, rfl, htok⟩, hstop, ?_⟩
      intro tm' r' w' hmem
      rcases List.mem_append.mp hmem with hmem | hmem
      · rcases mem_failOuts hmem with hmem | ⟨x, hx, hxe⟩ | hmem
        · cases hmem
        · cases hxe
          exact error_noSend _ _ _ _ _ hx
        · cases hmem
      · -- the pipe has ended: what is put on it now is discarded
        have hs1 : SInv (respond c.ml sv (mkMsg c code obs body) false).1 :=
          ⟨by rw [hrf]; exact hinv.nd, by
            intro j hj
            rw [(respond_frame c.ml sv (mkMsg c code obs body) false).1]
            rw [hrf] at hj; exact hinv.lt j hj⟩
        have hE := handle_SrvStep hs1 (.error i.remote) rfl
        have hgone : ∀ i' ∈ (if il then dropIncoming (MsgLayer.handle (respond c.ml sv (mkMsg c code obs body) false).1
            (.error i.remote)).1 sv else (MsgLayer.handle (respond c.ml sv (mkMsg c code obs body) false).1
            (.error i.remote)).1).incoming, i'.srv ≠ sv := by
          intro i' hi' hsv'
          have hin : i' ∈ (MsgLayer.handle (respond c.ml sv (mkMsg c code obs body) false).1
              (.error i.remote)).1.incoming := by
            cases il with
            | false => exact hi'
            | true =>
              simp only [↓reduceIte, dropIncoming, List.mem_filter] at hi'
              exact hi'.1
          rcases hE.inc i' hin with ⟨_, hns⟩ | ⟨r0, w0', hdl, _⟩
          · have : stops (MsgLayer.handle (respond c.ml sv (mkMsg c code obs body) false).1
                (.error i.remote)).2 i'.srv = true := by
              rw [stops_iff, hsv']
              have := hstop i hi rfl
              rw [hisv] at this; exact this
            rw [this] at hns; cases hns
          · have : i'.srv ∈ dsrvs (MsgLayer.handle (respond c.ml sv (mkMsg c code obs body) false).1
                (.error i.remote)).2 := mem_dsrvs.mpr ⟨r0, w0', hdl⟩
            rw [dsrvs_error] at this; cases this
        obtain ⟨i', hi', hsv', _⟩ := exec_sends sv _ as _ (fun i hi => hi) tm' r' w' hmem
        exact hgone i' hi' hsv'

end Aiocoap.Observe.Server
