import Proofs.Observe.IterInv
/-! The small iterator machine under the feeding discipline of `ClientObservation` (items, then at
most one error, then nothing): shape of the state, accounting of the items, order of the outputs. -/
namespace Aiocoap.Observe.Iter

variable {α : Type}

def ConsOK (a : A α) : Prop :=
  match a.cons with
  | .idle => True
  | .onSlot => a.slot ≠ .cancelled
  | .onOld c => (∃ m0, c = .result m0) ∧ ∃ m, a.slot = .result m

theorem ConsOK.consW {a : A α} (h : ConsOK a) : ConsW a := by
  intro m0 hc
  unfold ConsOK at h
  rw [hc] at h
  exact h.2

/-- before the error: nothing is kept aside, no future holds an exception -/
def ShapeA (a : A α) : Prop := ConsOK a ∧ a.deferred = none ∧ ∀ e, a.slot ≠ .exc e

/-- after the error `e`: either an unfetched item is in the slot and `e` is kept aside, or `e` is in
the slot -/
def ShapeB (a : A α) (e : ErrKind) : Prop :=
  ConsOK a ∧ (((∃ m, a.slot = .result m) ∧ a.deferred = some e) ∨ (a.slot = .exc e ∧ a.deferred = none))

theorem shapeA_init : ShapeA (ainit : A α) := by
  simp [ShapeA, ConsOK, ainit]

theorem shapeA_push (a : A α) (h : ShapeA a) (m : α) : ShapeA (apush a m) := by
  obtain ⟨slot, d, c⟩ := a
  obtain ⟨h1, h2, h3⟩ := h
  simp only at h2 h3
  subst h2
  cases c with
  | idle => cases slot <;> simp [ShapeA, ConsOK, apush, Fut.done, ACons.aged]
  | onSlot =>
    cases slot with
    | cancelled => simp [ConsOK] at h1
    | exc e => exact absurd rfl (h3 e)
    | pending => simp [ShapeA, ConsOK, apush, Fut.done]
    | result m' => simp [ShapeA, ConsOK, apush, Fut.done, ACons.aged]
  | onOld c =>
    obtain ⟨⟨m0, rfl⟩, m1, hm1⟩ := h1
    simp only at hm1
    subst hm1
    simp [ShapeA, ConsOK, apush, Fut.done, ACons.aged]

theorem shapeA_pushErr (a : A α) (h : ShapeA a) (e : ErrKind) : ShapeB (apushErr a e) e := by
  obtain ⟨slot, d, c⟩ := a
  obtain ⟨h1, h2, h3⟩ := h
  simp only at h2 h3
  subst h2
  cases c with
  | idle => cases slot <;> simp [ShapeB, ConsOK, apushErr, ACons.aged]
  | onSlot =>
    cases slot with
    | cancelled => simp [ConsOK] at h1
    | exc e' => exact absurd rfl (h3 e')
    | pending => simp [ShapeB, ConsOK, apushErr]
    | result m' => simp [ShapeB, ConsOK, apushErr]
  | onOld c =>
    obtain ⟨⟨m0, rfl⟩, m1, hm1⟩ := h1
    simp only at hm1
    subst hm1
    simp [ShapeB, ConsOK, apushErr]

/-- what a consumer operation can produce before the error: an item or a `CancelledError` -/
theorem shapeA_cons (a : A α) (h : ShapeA a) (o : Op α) (ho : o.isCons = true) :
    ShapeA (astep a o).1 ∧ ∀ x ∈ (astep a o).2, (∃ m, x = .item m) ∨ x = .cancelled := by
  obtain ⟨slot, d, c⟩ := a
  obtain ⟨h1, h2, h3⟩ := h
  simp only at h2 h3
  subst h2
  cases o with
  | push m => simp [Op.isCons] at ho
  | pushErr e => simp [Op.isCons] at ho
  | next =>
    cases c with
    | idle =>
      cases slot with
      | exc e => exact absurd rfl (h3 e)
      | pending => simp [ShapeA, ConsOK, astep, Fut.done]
      | result m => simp [ShapeA, ConsOK, astep, afinishSlot, Fut.done, freshFut]
      | cancelled => simp [ShapeA, ConsOK, astep, afinishSlot, Fut.done]
    | onSlot => exact ⟨⟨h1, rfl, h3⟩, by simp [astep]⟩
    | onOld c => exact ⟨⟨h1, rfl, h3⟩, by simp [astep]⟩
  | wake =>
    cases c with
    | idle => exact ⟨⟨h1, rfl, h3⟩, by simp [astep]⟩
    | onSlot =>
      cases slot with
      | exc e => exact absurd rfl (h3 e)
      | pending => exact ⟨⟨h1, rfl, h3⟩, by simp [astep, Fut.done]⟩
      | result m => simp [ShapeA, ConsOK, astep, afinishSlot, Fut.done, freshFut]
      | cancelled => simp [ConsOK] at h1
    | onOld c =>
      obtain ⟨⟨m0, rfl⟩, m1, hm1⟩ := h1
      simp only at hm1
      subst hm1
      simp [ShapeA, ConsOK, astep, afinishOld, Fut.done]
  | cancel =>
    cases c with
    | idle => exact ⟨⟨h1, rfl, h3⟩, by simp [astep]⟩
    | onSlot =>
      cases slot with
      | exc e => exact absurd rfl (h3 e)
      | pending => simp [ShapeA, ConsOK, astep, Fut.done]
      | result m => simp [ShapeA, ConsOK, astep, Fut.done]
      | cancelled => simp [ConsOK] at h1
    | onOld c =>
      obtain ⟨⟨m0, rfl⟩, m1, hm1⟩ := h1
      simp only at hm1
      subst hm1
      simp [ShapeA, ConsOK, astep]

/-- what a consumer operation can produce after the error `e`: an item, a `CancelledError`, or the
end — and once the end has come out nothing is stored -/
theorem shapeB_cons (a : A α) (e : ErrKind) (h : ShapeB a e) (o : Op α) (ho : o.isCons = true) :
    ShapeB (astep a o).1 e ∧
    ((astep a o).2 = [] ∨ (astep a o).2 = [.cancelled] ∨ (∃ m, (astep a o).2 = [.item m]) ∨
      ((astep a o).2 = [endOut e] ∧ astored (astep a o).1 = [])) := by
  obtain ⟨slot, d, c⟩ := a
  obtain ⟨h1, h2⟩ := h
  simp only at h2
  cases o with
  | push m => simp [Op.isCons] at ho
  | pushErr e => simp [Op.isCons] at ho
  | next =>
    cases c with
    | idle =>
      rcases h2 with ⟨⟨m, rfl⟩, rfl⟩ | ⟨rfl, rfl⟩
      · simp [ShapeB, ConsOK, astep, afinishSlot, Fut.done, freshFut]
      · simp [ShapeB, ConsOK, astep, afinishSlot, Fut.done, astored]
    | onSlot => exact ⟨⟨h1, h2⟩, by simp [astep]⟩
    | onOld c => exact ⟨⟨h1, h2⟩, by simp [astep]⟩
  | wake =>
    cases c with
    | idle => exact ⟨⟨h1, h2⟩, by simp [astep]⟩
    | onSlot =>
      rcases h2 with ⟨⟨m, rfl⟩, rfl⟩ | ⟨rfl, rfl⟩
      · simp [ShapeB, ConsOK, astep, afinishSlot, Fut.done, freshFut]
      · simp [ShapeB, ConsOK, astep, afinishSlot, Fut.done, astored]
    | onOld c =>
      obtain ⟨⟨m0, rfl⟩, m1, hm1⟩ := h1
      simp only at hm1
      subst hm1
      rcases h2 with ⟨_, rfl⟩ | ⟨h, _⟩
      · simp [ShapeB, ConsOK, astep, afinishOld, Fut.done]
      · cases h
  | cancel =>
    cases c with
    | idle => exact ⟨⟨h1, h2⟩, by simp [astep]⟩
    | onSlot =>
      rcases h2 with ⟨⟨m, rfl⟩, rfl⟩ | ⟨rfl, rfl⟩
      · simp [ShapeB, ConsOK, astep, Fut.done]
      · simp [ShapeB, ConsOK, astep, Fut.done]
    | onOld c =>
      obtain ⟨⟨m0, rfl⟩, m1, hm1⟩ := h1
      simp only at hm1
      subst hm1
      rcases h2 with ⟨_, rfl⟩ | ⟨h, _⟩
      · simp [ShapeB, ConsOK, astep]
      · cases h

end Aiocoap.Observe.Iter
