import Proofs.Observe.TaskActs
/-!
The effects of one step of a render task, related to the task before and after (every path
through the coroutine is unfolded and decided).
-/
namespace Aiocoap.Observe.Server

/-- the step puts the pipe's last event on it -/
def hasLast (acts : List Act) : Bool :=
  acts.any fun a => match a with
    | .emit _ _ _ true => true
    | _ => false

/-- membership of the observation in `_observations` after the effects, starting from `b`;
`none` if it would be added while present -/
def memAfter (b : Bool) : List Act → Option Bool
  | [] => some b
  | .accept :: as => if b then none else memAfter true as
  | .callback :: as => memAfter false as
  | .render _ :: as => memAfter b as
  | .emit _ _ _ _ :: as => memAfter b as

/-- the Observe numbers the step puts on the pipe, in order -/
def obsNums (acts : List Act) : List Nat :=
  acts.filterMap fun a => match a with
    | .emit _ (some n) _ _ => some n
    | _ => none

/-- the Observe number the task will use next -/
def base (t : Task) : Nat :=
  if t.phase = .waitTrig ∨ t.phase = .loopRender then t.obsNo + 1 else 0

/-- every path through one step of the coroutine.  The helper functions are unfolded one at a
time, splitting in between, so that no term ever holds the whole coroutine (each helper returns a
pair that its caller uses twice) -/
macro "step_paths" : tactic => `(tactic|
  (unfold stepTask <;> (repeat' split) <;>
   (try unfold startTask at *) <;> (repeat' split) <;> (try dsimp only at *) <;>
   (try unfold afterFirst at *) <;> (repeat' split) <;> (try dsimp only at *) <;>
   (try unfold afterLoop at *) <;> (repeat' split) <;> (try dsimp only at *) <;>
   (try unfold atAwait at *) <;> (repeat' split) <;> (try dsimp only at *) <;>
   (try unfold afterLoop at *) <;> (repeat' split) <;> (try dsimp only at *) <;>
   (try simp only [finish, cancelStep] at *) <;> (repeat' split)))

macro "step_auto" : tactic => `(tactic| (step_paths <;> simp_all))

/-- the callback count of the task grows by the number of `callback` effects -/
theorem stepTask_cbs (val : Nat) (t : Task) (plan : Plan) (acc : Bool) :
    (stepTask val t plan acc).1.cbRuns = t.cbRuns + (stepTask val t plan acc).2.count .callback := by
  step_auto

/-- a last event ends the task -/
theorem stepTask_last (val : Nat) (t : Task) (plan : Plan) (acc : Bool) :
    hasLast (stepTask val t plan acc).2 = true → (stepTask val t plan acc).1.phase = .done := by
  step_paths
  all_goals simp_all [hasLast]

/-- a wanted task stays wanted unless it puts the last event on its pipe -/
theorem stepTask_live (val : Nat) (t : Task) (plan : Plan) (acc : Bool) (h : t.live = true) :
    (stepTask val t plan acc).1.live = true ∨ hasLast (stepTask val t plan acc).2 = true := by
  simp only [Task.live, Bool.and_eq_true, bne_iff_ne, ne_eq, Bool.not_eq_true'] at h
  step_paths
  all_goals simp_all [hasLast, Task.live]
