import Proofs.Observe.Outputs
/-!
How the task of one pipe evolves under an arbitrary event, and what the event lets it say.
-/
namespace Aiocoap.Observe.Server
open Aiocoap.MsgLayer

theorem findTask_map (c : State) (f : Task → Task) (hid : ∀ t, (f t).srv = t.srv) (sv : Nat) :
    (c.tasks.map f).find? (fun t => t.srv == sv) = (findTask c sv).map f := by
  unfold findTask
  rw [List.find?_map]
  have : ((fun t : Task => t.srv == sv) ∘ f) = (fun t : Task => t.srv == sv) := by
    funext t; simp [Function.comp, hid t]
  rw [this]

/-- how an event other than a step of its own task changes the task of pipe `sv`: through a
function that keeps its identity, its numbering, its callback count, and leaves an ended task alone -/
structure Passive (f : Task → Task) : Prop where
  id : ∀ t, (f t).srv = t.srv
  base : ∀ t, base (f t) = base t
  cb : ∀ t, (f t).cbRuns = t.cbRuns
  done : ∀ t, t.phase = .done → f t = t
  sent : ∀ t, (f t).sentVer = t.sentVer ∧ (f t).lastSent = t.lastSent

theorem base_of_ctl {t t' : Task} (h : SameCtl t t') : base t' = base t := by
  simp [base, h.phase, h.obsNo]

theorem Passive_id : Passive id :=
  ⟨fun _ => rfl, fun _ => rfl, fun _ => rfl, fun _ _ => rfl, fun _ => ⟨rfl, rfl⟩⟩

theorem Passive_ite {g : Task → Task} (hg : Passive g) (p : Task → Bool) :
    Passive (fun t => if p t then g t else t) := by
  refine ⟨?_, ?_, ?_, ?_, ?_⟩ <;> intro t <;> split
  · exact hg.id t
  · rfl
  · exact hg.base t
  · rfl
  · exact hg.cb t
  · rfl
  · exact hg.done t
  · intro _; rfl
  · exact hg.sent t
  · exact ⟨rfl, rfl⟩

theorem cancelTask_passive : Passive cancelTask := by
  refine ⟨fun t => (cancelTask_id t).1, ?_, ?_, ?_, ?_⟩
  · intro t; unfold cancelTask; split
    · rfl
    · split
      · rename_i hf; have : t.phase = .fresh := by simpa using hf
        simp [base, this]
      · rfl
  · intro t; unfold cancelTask; split
    · rfl
    · split <;> rfl
  · intro t hd; unfold cancelTask; simp [hd]
  · intro t; unfold cancelTask; split
    · exact ⟨rfl, rfl⟩
    · split <;> exact ⟨rfl, rfl⟩

theorem trigTask_passive (v : Option Resp) (il : Bool) (ver : Nat) :
    Passive (fun t => trigTask t v il ver) :=
  ⟨fun t => (trigTask_id t v il ver).1, fun t => base_of_ctl (trigTask_ctl t v il ver),
   fun t => (trigTask_ctl t v il ver).cbRuns, fun t hd => by simp [trigTask, hd],
   fun t => by unfold trigTask; split <;> exact ⟨rfl, rfl⟩⟩

theorem deregTask_passive (ver : Nat) : Passive (fun t => deregTask t ver) :=
  ⟨fun t => (deregTask_id t ver).1, fun t => base_of_ctl (deregTask_ctl t ver),
   fun t => (deregTask_ctl t ver).cbRuns, fun t hd => by simp [deregTask, hd],
   fun t => by
    unfold deregTask; split
    · exact ⟨rfl, rfl⟩
    · split
      · exact ⟨rfl, rfl⟩
      · exact (trigTask_passive _ _ _).sent t⟩

theorem releaseTask_passive (code : Nat) (exc : Bool) : Passive (fun t => releaseTask t code exc) :=
  ⟨fun t => (releaseTask_id t code exc).1, fun t => base_of_ctl (releaseTask_ctl t code exc),
   fun t => (releaseTask_ctl t code exc).cbRuns, fun t hd => by simp [releaseTask, hd],
   fun t => by unfold releaseTask; split <;> exact ⟨rfl, rfl⟩⟩

/-- the next Observe number of pipe `sv` (0 while there is no such task) -/
def baseOf (c : State) (sv : Nat) : Nat :=
  match findTask c sv with
  | some t => base t
  | none => 0

/-- how often the cancellation callback of pipe `sv` has run -/
def cbOf (c : State) (sv : Nat) : Nat :=
  match findTask c sv with
  | some t => t.cbRuns
  | none => 0

/-- the ghost record of what pipe `sv` notified last: `(sentVer, lastSent)` -/
def sentOf (c : State) (sv : Nat) : Nat × Bool :=
  match findTask c sv with
  | some t => (t.sentVer, t.lastSent)
  | none => (0, false)

def doneAt (c : State) (sv : Nat) : Prop := ∃ t, findTask c sv = some t ∧ t.phase = .done

/-- what an event may do to pipe `sv` without its task taking a step: nothing is said, the
numbering and the callback count are where they were, an ended task stays ended -/
structure Quiescent (c c' : State) (sv : Nat) (os : List Out) : Prop where
  silent : ∀ o ∈ os, speaks sv o = false
  base : baseOf c' sv = baseOf c sv
  cb : cbOf c' sv = cbOf c sv
  done : doneAt c sv → doneAt c' sv
  sent : sentOf c' sv = sentOf c sv

/-- `Passive`, as far as pipe `sv` is concerned -/
structure PassiveAt (sv : Nat) (f : Task → Task) : Prop where
  id : ∀ t, (f t).srv = t.srv
  base : ∀ t, t.srv = sv → base (f t) = base t
  cb : ∀ t, t.srv = sv → (f t).cbRuns = t.cbRuns
  done : ∀ t, t.srv = sv → t.phase = .done → f t = t
  sent : ∀ t, t.srv = sv → (f t).sentVer = t.sentVer ∧ (f t).lastSent = t.lastSent

theorem Passive.at {f : Task → Task} (h : Passive f) (sv : Nat) : PassiveAt sv f :=
  ⟨h.id, fun t _ => h.base t, fun t _ => h.cb t, fun t _ => h.done t, fun t _ => h.sent t⟩

theorem findTask_srv {c : State} {sv : Nat} {t : Task} (h : findTask c sv = some t) : t.srv = sv := by
  unfold findTask at h; simpa using List.find?_some h

theorem Quiescent_map {c : State} {f : Task → Task} {sv : Nat} (hf : PassiveAt sv f) (c' : State)
    (ht : c'.tasks = c.tasks.map f) {os : List Out} (hos : ∀ o ∈ os, speaks sv o = false) :
    Quiescent c c' sv os := by
  have hfind : findTask c' sv = (findTask c sv).map f := by
    unfold findTask; rw [ht]; exact findTask_map c f hf.id sv
  refine ⟨hos, ?_, ?_, ?_, ?_⟩
  · simp only [baseOf, hfind]
    cases h : findTask c sv with
    | none => rfl
    | some t => simp [hf.base t (findTask_srv h)]
  · simp only [cbOf, hfind]
    cases h : findTask c sv with
    | none => rfl
    | some t => simp [hf.cb t (findTask_srv h)]
  · rintro ⟨t, h1, h2⟩
    exact ⟨t, by rw [hfind, h1]; simp [hf.done t (findTask_srv h1) h2], h2⟩
  · simp only [sentOf, hfind]
    cases h : findTask c sv with
    | none => rfl
    | some t => simp [hf.sent t (findTask_srv h)]

theorem find_delivered_fresh (os : List MsgLayer.Out) (sv : Nat) :
    ∀ t, (delivered os).find? (fun t => t.srv == sv) = some t →
      base t = 0 ∧ t.cbRuns = 0 ∧ t.sentVer = 0 ∧ t.lastSent = false := by
  intro t h
  obtain ⟨sv', r, w, _, rfl⟩ := mem_delivered.mp (List.mem_of_find?_eq_some h)
  simp [base, newTask]

theorem Quiescent_net {c : State} (h : Inv c) (e : MsgLayer.Ev) (sv : Nat) :
    Quiescent c (netEvent c e).1 sv (netEvent c e).2 := by
  have hp : Passive (fun t => if stops (MsgLayer.handle c.ml e).2 t.srv then cancelTask t else t) :=
    Passive_ite cancelTask_passive _
  have hfind : findTask (netEvent c e).1 sv =
      ((findTask c sv).map (fun t => if stops (MsgLayer.handle c.ml e).2 t.srv then cancelTask t else t)).or ((delivered (MsgLayer.handle c.ml e).2).find? (fun t => t.srv == sv)) := by
    show (List.find? _ (_ ++ _)) = _
    rw [List.find?_append]
    congr 1
    exact findTask_map c _ hp.id sv
  refine ⟨net_silent sv _, ?_, ?_, ?_, ?_⟩
  · simp only [baseOf, hfind]
    cases hf : findTask c sv with
    | some t => simp [hp.base]
    | none =>
      simp only [Option.map_none, Option.none_or]
      cases hd : (delivered (MsgLayer.handle c.ml e).2).find? (fun t => t.srv == sv) with
      | none => rfl
      | some t => exact (find_delivered_fresh _ sv t hd).1
  · simp only [cbOf, hfind]
    cases hf : findTask c sv with
    | some t => simp [hp.cb]
    | none =>
      simp only [Option.map_none, Option.none_or]
      cases hd : (delivered (MsgLayer.handle c.ml e).2).find? (fun t => t.srv == sv) with
      | none => rfl
      | some t => exact (find_delivered_fresh _ sv t hd).2.1
  · rintro ⟨t, h1, h2⟩
    exact ⟨t, by rw [hfind, h1]; simp [hp.done t h2], h2⟩
  · simp only [sentOf, hfind]
    cases hf : findTask c sv with
    | some t => simp [hp.sent]
    | none =>
      simp only [Option.map_none, Option.none_or]
      cases hd : (delivered (MsgLayer.handle c.ml e).2).find? (fun t => t.srv == sv) with
      | none => rfl
      | some t =>
        have := find_delivered_fresh _ sv t hd
        simp [this.2.2.1, this.2.2.2]


theorem nil_silent (sv : Nat) : ∀ o ∈ ([] : List Out), speaks sv o = false := by intro o ho; cases ho

/-- every event other than a step of the task of pipe `sv` is quiescent for `sv` -/
theorem Quiescent_handle {c : State} (h : Inv c) (ev : Ev) (sv : Nat)
    (hne : ∀ plan acc, ev ≠ .step sv plan acc) (hne' : ∀ plan acc, ev ≠ .stepFail sv plan acc) :
    Quiescent c (handle c ev).1 sv (handle c ev).2 := by
  cases ev with
  | recv r mcl w => exact Quiescent_net h _ sv
  | error r => exact Quiescent_net h _ sv
  | fireRetransmit r m => exact Quiescent_net h _ sv
  | fireEmptyAck r tk => exact Quiescent_net h _ sv
  | fireExpire r m => exact Quiescent_net h _ sv
  | shutdown => exact Quiescent_net h _ sv
  | update resp =>
    exact Quiescent_map ((Passive_ite (trigTask_passive _ _ _) _).at sv) _ rfl (nil_silent sv)
  | trigger sv' resp il =>
    exact Quiescent_map ((Passive_ite (trigTask_passive _ _ _) _).at sv) _ rfl (nil_silent sv)
  | deregister sv' =>
    exact Quiescent_map ((Passive_ite (deregTask_passive _) _).at sv) _ rfl (nil_silent sv)
  | release sv' code exc =>
    exact Quiescent_map ((Passive_ite (releaseTask_passive _ _) _).at sv) _ rfl (nil_silent sv)
  | step sv' plan acc =>
    have hsv : sv' ≠ sv := by intro e; subst e; exact hne plan acc rfl
    simp only [handle]
    cases hf : findTask c sv' with
    | none => exact Quiescent_map (Passive_id.at sv) c (by simp) (nil_silent sv)
    | some t =>
      have hts := findTask_srv hf
      have hid := stepTask_id c.value t plan acc
      have hfr := exec_frame sv' (stepTask c.value t plan acc).2 c
      have hout := (exec_outs sv' (stepTask c.value t plan acc).2 c).2.2.1 sv (fun e => hsv e.symm)
      refine Quiescent_map (f := fun x => if x.srv == (stepTask c.value t plan acc).1.srv then
          (stepTask c.value t plan acc).1 else x) ?_ _ ?_ hout
      · have hs' : (stepTask c.value t plan acc).1.srv = sv' := by rw [hid.1]; exact hts
        refine ⟨?_, ?_, ?_, ?_, ?_⟩
        · intro x; split
          · rename_i he; exact (by simpa using he : x.srv = _).symm
          · rfl
        · intro x hx; rw [hs']
          have : (x.srv == sv') = false := by rw [hx]; simpa using fun e => hsv e.symm
          simp [this]
        · intro x hx; rw [hs']
          have : (x.srv == sv') = false := by rw [hx]; simpa using fun e => hsv e.symm
          simp [this]
        · intro x hx _; rw [hs']
          have : (x.srv == sv') = false := by rw [hx]; simpa using fun e => hsv e.symm
          simp [this]
        · intro x hx; rw [hs']
          have : (x.srv == sv') = false := by rw [hx]; simpa using fun e => hsv e.symm
          simp [this]
      · simp only [putTask, hfr.1]
  | stepFail sv' plan acc =>
    have hsv : sv' ≠ sv := by intro e; subst e; exact hne' plan acc rfl
    simp only [handle]
    cases hf : findTask c sv' with
    | none => exact Quiescent_map (Passive_id.at sv) c (by simp) (nil_silent sv)
    | some t =>
      have hts := findTask_srv hf
      have hid := stepTask_id c.value t plan acc
      have hfr := exec_frame sv' (stepTask c.value t plan acc).2 c
      have hsim := execF_sim sv' (stepTask c.value t plan acc).2 (Sim.refl c)
      have hout := (exec_outs sv' (stepTask c.value t plan acc).2 c).2.2.1 sv (fun e => hsv e.symm)
      have hs' : (stepTask c.value t plan acc).1.srv = sv' := by rw [hid.1]; exact hts
      refine Quiescent_map (f := fun x =>
          (fun y : Task => if stops (execF c sv' (stepTask c.value t plan acc).2).2.2 y.srv then cancelTask y else y)
          (if x.srv == (stepTask c.value t plan acc).1.srv then (stepTask c.value t plan acc).1 else x)) ?_ _ ?_ ?_
      · have hput : ∀ x : Task, x.srv = sv →
            (if x.srv == (stepTask c.value t plan acc).1.srv then (stepTask c.value t plan acc).1 else x) = x := by
          intro x hx; rw [hs']
          have : (x.srv == sv') = false := by rw [hx]; simpa using fun e => hsv e.symm
          simp [this]
        have hp := Passive_ite cancelTask_passive
          (fun y : Task => stops (execF c sv' (stepTask c.value t plan acc).2).2.2 y.srv)
        refine ⟨?_, ?_, ?_, ?_, ?_⟩
        · intro x
          show (if _ then cancelTask _ else _).srv = _
          rw [show ∀ y : Task, (if stops (execF c sv' (stepTask c.value t plan acc).2).2.2 y.srv then cancelTask y else y).srv
              = y.srv from fun y => hp.id y]
          split
          · rename_i he; exact (by simpa using he : x.srv = _).symm
          · rfl
        · intro x hx; simp only [hput x hx]; exact hp.base x
        · intro x hx; simp only [hput x hx]; exact hp.cb x
        · intro x hx hd; simp only [hput x hx]; exact hp.done x hd
        · intro x hx; simp only [hput x hx]; exact hp.sent x
      · show (List.map _ (putTask _ _).tasks ++ delivered _) = _
        rw [delivered_nil_of_dsrvs (execF_dsrvs sv' _ c), List.append_nil]
        simp only [putTask, hsim.1.tasks, hfr.1, List.map_map]
        rfl
      · intro o ho
        cases hsp : speaks sv o with
        | false => rfl
        | true =>
          have : o ∈ app (exec c sv' (stepTask c.value t plan acc).2).2 := by
            rw [← hsim.2]; exact mem_app.mpr ⟨ho, isApp_of_speaks hsp⟩
          rw [hout o (mem_app.mp this).1] at hsp; cases hsp


/-- a step of the task of pipe `sv` itself -/
theorem handle_self_step {c : State} {sv : Nat} {t : Task} (hf : findTask c sv = some t)
    (plan : Plan) (acc : Bool) :
    (handle c (.step sv plan acc)).2 = (exec c sv (stepTask c.value t plan acc).2).2 ∧
    findTask (handle c (.step sv plan acc)).1 sv = some (stepTask c.value t plan acc).1 := by
  have hts := findTask_srv hf
  have hid := stepTask_id c.value t plan acc
  have hfr := exec_frame sv (stepTask c.value t plan acc).2 c
  simp only [handle, hf, true_and]
  have hs' : (stepTask c.value t plan acc).1.srv = sv := by rw [hid.1]; exact hts
  show List.find? _ (putTask _ _).tasks = _
  simp only [putTask, hfr.1]
  have := findTask_map c (fun x => if x.srv == (stepTask c.value t plan acc).1.srv then
      (stepTask c.value t plan acc).1 else x) (by
        intro x; split
        · rename_i he; exact (by simpa using he : x.srv = _).symm
        · rfl) sv
  rw [this, hf]
  simp [hs', hts]

/-- a step of the task of pipe `sv` itself during which the transport fails a send: what the
application side sees and does is what it sees and does in the ordinary step; the task may come
out of it cancelled -/
theorem handle_self_stepFail {c : State} {sv : Nat} {t : Task} (hf : findTask c sv = some t)
    (plan : Plan) (acc : Bool) :
    app (handle c (.stepFail sv plan acc)).2 = app (exec c sv (stepTask c.value t plan acc).2).2 ∧
    ∃ g : Task → Task, Passive g ∧
      findTask (handle c (.stepFail sv plan acc)).1 sv = some (g (stepTask c.value t plan acc).1) := by
  have hts := findTask_srv hf
  have hid := stepTask_id c.value t plan acc
  have hfr := exec_frame sv (stepTask c.value t plan acc).2 c
  have hsim := execF_sim sv (stepTask c.value t plan acc).2 (Sim.refl c)
  have hs' : (stepTask c.value t plan acc).1.srv = sv := by rw [hid.1]; exact hts
  have hp := Passive_ite cancelTask_passive
    (fun y : Task => stops (execF c sv (stepTask c.value t plan acc).2).2.2 y.srv)
  simp only [handle, hf]
  refine ⟨hsim.2, _, hp, ?_⟩
  show List.find? _ (List.map _ (putTask _ _).tasks ++ delivered _) = _
  rw [delivered_nil_of_dsrvs (execF_dsrvs sv _ c), List.append_nil]
  simp only [putTask, hsim.1.tasks, hfr.1]
  have h1 := findTask_map c (fun x => if x.srv == (stepTask c.value t plan acc).1.srv then
      (stepTask c.value t plan acc).1 else x) (by
        intro x; split
        · rename_i he; exact (by simpa using he : x.srv = _).symm
        · rfl) sv
  have h2 := findTask_map
    { c with tasks := c.tasks.map (fun x => if x.srv == (stepTask c.value t plan acc).1.srv then
      (stepTask c.value t plan acc).1 else x) }
    (fun y : Task => if stops (execF c sv (stepTask c.value t plan acc).2).2.2 y.srv then cancelTask y else y)
    hp.id sv
  rw [h2]
  show Option.map _ (List.find? _ _) = _
  rw [h1, hf]
  simp [hs', hts]

theorem handle_absent_stepFail {c : State} {sv : Nat} (hf : findTask c sv = none) (plan : Plan) (acc : Bool) :
    handle c (.stepFail sv plan acc) = (c, []) := by
  simp only [handle, hf]

theorem handle_absent_step {c : State} {sv : Nat} (hf : findTask c sv = none) (plan : Plan) (acc : Bool) :
    handle c (.step sv plan acc) = (c, []) := by
  simp only [handle, hf]

end Aiocoap.Observe.Server
