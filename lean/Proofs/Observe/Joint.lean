import AiocoapModel.Observe.Joint
import Proofs.Observe.Client
import Proofs.MsgLayer.Account
/-! Helper lemmas for the composition of the message layer with the runner of one request. -/
namespace Aiocoap.Observe
open Aiocoap.MsgLayer (termCount outCount isTerm)

/-- the pipe said "nothing can follow" -/
def Event.isLast : Event → Bool
  | .message _ last => last
  | .exception _ => true
  | _ => false

/-- the runner only returns on an event marked last, or it withdraws from the pipe itself -/
theorem step_ended_cause (cfg : Cfg) (s : ObsState) (e : TEvent) (h : (step cfg s e).1 = .ended) :
    s = .ended ∨ e.ev.isLast = true ∨ Delivery.stopInterest ∈ (step cfg s e).2 := by
  obtain ⟨t, ev⟩ := e
  cases s with
  | awaitingFirst =>
    right
    cases ev with
    | message m last =>
      cases last
      · right
        revert h
        simp only [step, stepFirst]
        split
        · simp
        · cases hv : m.notif <;> simp
      · left; rfl
    | exception k => left; rfl
    | obsCancel =>
      exfalso
      revert h
      simp only [step, stepFirst]
      split <;> simp
    | respCancel => right; simp [step, stepFirst]
  | cancelledFirst =>
    right
    cases ev with
    | message m last =>
      cases last
      · right
        cases hv : m.notif with
        | none => simp [step, stepCancelledFirst, hv]
        | some v => simp [step, stepCancelledFirst, hv] at h
      · left; rfl
    | exception k => left; rfl
    | obsCancel => simp [step, stepCancelledFirst] at h
    | respCancel => right; simp [step, stepCancelledFirst]
  | observing v1 t1 =>
    right
    cases ev with
    | message m last =>
      cases last
      · right
        cases hv : m.notif with
        | none => simp [step, stepObserving, hv]
        | some v2 =>
          rw [step_notification cfg v1 t1 t m v2 false hv] at h
          cases hf : fresher cfg.reset v1 t1 v2 t <;> cases hc : m.cancels <;> simp [hf, hc] at h
      · left; rfl
    | exception k => left; rfl
    | obsCancel => simp [step, stepObserving] at h
    | respCancel => simp [step, stepObserving] at h
  | appCancelled =>
    right; right
    cases ev with
    | message m last => simp [step, stepCancelled]
    | exception k => simp [step, stepCancelled]
    | obsCancel => simp [step, stepCancelled] at h
    | respCancel => simp [step, stepCancelled] at h
  | ended => left; rfl
  | unmodelled => simp [step] at h

theorem pipeEventOf_isPipe {r : Nat} {o : MsgLayer.Out} {ev : Event} (h : pipeEventOf r o = some ev) :
    ev.isPipe = true := by
  cases o with
  | response r' w f =>
    simp only [pipeEventOf] at h
    split at h
    · cases h; rfl
    · cases h
  | fail r' k =>
    simp only [pipeEventOf] at h
    split at h
    · cases h; rfl
    · cases h
  | send _ _ _ => cases h
  | deliver _ _ _ => cases h
  | stop _ => cases h

theorem pipeEventOf_isLast {r : Nat} {o : MsgLayer.Out} {ev : Event} (h : pipeEventOf r o = some ev)
    (hl : ev.isLast = true) : isTerm r o = true := by
  cases o with
  | response r' w f =>
    simp only [pipeEventOf] at h
    split at h
    · rename_i hr
      cases h
      simp only [Event.isLast] at hl
      simp [isTerm, hr, hl]
    · cases h
  | fail r' k =>
    simp only [pipeEventOf] at h
    split at h
    · rename_i hr; simp [isTerm, hr]
    · cases h
  | send _ _ _ => cases h
  | deliver _ _ _ => cases h
  | stop _ => cases h

theorem step_ended_pipe (cfg : Cfg) (t : Nat) (ev : Event) (h : ev.isPipe = true) :
    step cfg .ended ⟨t, ev⟩ = (.ended, []) := by
  cases ev <;> simp_all [step, Event.isPipe]

theorem feed_ended (cfg : Cfg) (r t : Nat) (os : List MsgLayer.Out) :
    feed cfg r t .ended os = (.ended, []) := by
  induction os with
  | nil => rfl
  | cons o os ih =>
    simp only [feed]
    split
    · exact ih
    · rename_i ev hev
      rw [step_ended_pipe cfg t ev (pipeEventOf_isPipe hev)]
      simp [ih]

theorem termCount_cons (r : Nat) (o : MsgLayer.Out) (os : List MsgLayer.Out) :
    termCount r (o :: os) = (if isTerm r o then 1 else 0) + termCount r os := by
  simp only [termCount, List.countP_cons]; omega

/-- if feeding the outputs of a message-layer step makes the runner return, one of the outputs was a
terminal event for the request, or the runner withdrew from the pipe -/
theorem feed_end_cause (cfg : Cfg) (r t : Nat) (st : ObsState) (os : List MsgLayer.Out)
    (h : (feed cfg r t st os).1 = .ended) :
    st = .ended ∨ 0 < termCount r os ∨ Delivery.stopInterest ∈ (feed cfg r t st os).2 := by
  induction os generalizing st with
  | nil => left; exact h
  | cons o os ih =>
    simp only [feed] at h ⊢
    split at h
    · rcases ih st h with h1 | h1 | h1
      · exact Or.inl h1
      · right; left; rw [termCount_cons]; omega
      · exact Or.inr (Or.inr h1)
    · rename_i ev hev
      simp only at h
      rcases ih _ h with h1 | h1 | h1
      · rcases step_ended_cause cfg st ⟨t, ev⟩ h1 with h2 | h2 | h2
        · exact Or.inl h2
        · right; left
          rw [termCount_cons, pipeEventOf_isLast hev h2]; simp only [↓reduceIte]; omega
        · right; right; exact List.mem_append_left _ h2
      · right; left; rw [termCount_cons]; omega
      · right; right; exact List.mem_append_right _ h1

theorem feed_no_events (cfg : Cfg) (r t : Nat) (st : ObsState) (os : List MsgLayer.Out)
    (h : ∀ o ∈ os, pipeEventOf r o = none) : feed cfg r t st os = (st, []) := by
  induction os with
  | nil => rfl
  | cons o os ih =>
    simp only [feed, h o List.mem_cons_self]
    exact ih (fun o' ho' => h o' (List.mem_cons_of_mem _ ho'))

-- the table entry of the request ------------------------------------------------------------------

theorem outCount_release_le (r : Nat) (ms : MsgLayer.State) (ds : List Delivery) :
    outCount (release r ms ds) r ≤ outCount ms r := by
  unfold release
  split
  · rw [MsgLayer.outCount_dropOutgoing]; simp
  · exact Nat.le_refl _

theorem outCount_release_stop (r : Nat) (ms : MsgLayer.State) (ds : List Delivery)
    (h : Delivery.stopInterest ∈ ds) : outCount (release r ms ds) r = 0 := by
  unfold release
  have : ds.contains .stopInterest = true := by simpa using h
  rw [this]
  simp [MsgLayer.outCount_dropOutgoing]

/-- is this joint event a submission of request `r`? -/
def JEv.isSubmit (r : Nat) : JEv → Bool
  | .net e => match e.ev with
    | .submit r' _ _ _ _ => r' == r
    | _ => false
  | .app _ _ => false

/-- the request has at most one table entry, and none once its runner has returned -/
def JInv (r : Nat) (j : JState) : Prop :=
  outCount j.ms r ≤ 1 ∧ (j.st = .ended → outCount j.ms r = 0)

/-- `MsgLayer.handle_Acct` in terms of `step` and `isSubmit` -/
theorem step_Acct (r : Nat) (s : MsgLayer.State) (e : MsgLayer.TEv) :
    termCount r (MsgLayer.step s e).2 + outCount (MsgLayer.step s e).1 r ≤
      outCount s r + (if JEv.isSubmit r (.net e) then 1 else 0) := by
  obtain ⟨t, ev⟩ := e
  have h := MsgLayer.handle_Acct r (MsgLayer.setNow s t) ev
  have hnow : outCount (MsgLayer.setNow s t) r = outCount s r := rfl
  rw [hnow] at h
  cases ev <;> simpa [JEv.isSubmit, MsgLayer.step] using h

theorem jointStep_inv (cfg : Cfg) (r : Nat) (j : JState) (e : JEv)
    (h1 : outCount j.ms r + (if e.isSubmit r then 1 else 0) ≤ 1)
    (h2 : j.st = .ended → outCount j.ms r = 0 ∧ e.isSubmit r = false) :
    JInv r (jointStep cfg r j e).1 := by
  cases e with
  | net e =>
    simp only [jointStep]
    have hacct := step_Acct r j.ms e
    have hle := outCount_release_le r (MsgLayer.step j.ms e).1
      (feed cfg r e.time j.st (MsgLayer.step j.ms e).2).2
    refine ⟨by simp only; omega, ?_⟩
    intro hend
    simp only at hend
    rcases feed_end_cause cfg r e.time j.st _ hend with h | h | h
    · obtain ⟨h3, h4⟩ := h2 h
      rw [h4] at hacct
      simp only [Bool.false_eq_true, ↓reduceIte] at hacct
      simp only at hle ⊢
      omega
    · simp only at hle ⊢
      omega
    · exact outCount_release_stop r _ _ h
  | app t ev =>
    simp only [jointStep]
    have h1' : outCount j.ms r ≤ 1 := by simpa [JEv.isSubmit] using h1
    split
    · exact ⟨h1', fun h => (h2 h).1⟩
    · rename_i hnp
      have hle := outCount_release_le r j.ms (step cfg j.st ⟨t, ev⟩).2
      refine ⟨by simp only; omega, ?_⟩
      intro hend
      simp only at hend
      rcases step_ended_cause cfg j.st ⟨t, ev⟩ hend with h | h | h
      · have := (h2 h).1
        simp only at hle ⊢
        omega
      · cases ev <;> simp_all [Event.isLast, Event.isPipe]
      · exact outCount_release_stop r _ _ h

theorem jointRun_inv (cfg : Cfg) (r : Nat) (j : JState) (es : List JEv) (hinv : JInv r j)
    (hns : ∀ e ∈ es, e.isSubmit r = false) : JInv r (jointRun cfg r j es).1 := by
  induction es generalizing j with
  | nil => exact hinv
  | cons e es ih =>
    simp only [jointRun]
    have hne := hns e List.mem_cons_self
    apply ih
    · apply jointStep_inv
      · rw [hne]; simpa using hinv.1
      · intro h; exact ⟨hinv.2 h, hne⟩
    · exact fun e' he' => hns e' (List.mem_cons_of_mem _ he')

end Aiocoap.Observe
