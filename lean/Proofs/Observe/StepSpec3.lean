import Proofs.Observe.StepSpec
/-! Observe numbers and versions put on the pipe by one step of a render task. -/
namespace Aiocoap.Observe.Server

/-- the Observe numbers a step puts on the pipe continue the task's numbering without a gap -/
theorem stepTask_nums (val : Nat) (t : Task) (plan : Plan) (acc : Bool) :
    obsNums (stepTask val t plan acc).2 =
      List.range' (base t) (obsNums (stepTask val t plan acc).2).length ∧
    ((stepTask val t plan acc).1.phase ≠ .done →
      base (stepTask val t plan acc).1 = base t + (obsNums (stepTask val t plan acc).2).length) := by
  simp only [stepTask, startTask, afterFirst, atAwait, afterLoop, finish, cancelStep]
  repeat' split
  all_goals simp_all [obsNums, base, List.range']

/-- the version a task remembers as notified was really put on the pipe, as a non-final
notification carrying an Observe number -/
def SentSpec (t t' : Task) (acts : List Act) : Prop :=
  t'.sentVer = t.sentVer ∨ ∃ code n, Act.emit code (some n) t'.sentVer false ∈ acts

theorem SentSpec.mono {t t' : Task} {acts acts' : List Act} (h : SentSpec t t' acts)
    (hs : ∀ a ∈ acts, a ∈ acts') : SentSpec t t' acts' := by
  rcases h with h | ⟨c, n, h⟩
  · exact Or.inl h
  · exact Or.inr ⟨c, n, hs _ h⟩

theorem afterLoop_sent (t : Task) (r : Resp) : SentSpec t (afterLoop t r).1 (afterLoop t r).2 := by
  unfold afterLoop
  split
  · exact Or.inl rfl
  · exact Or.inr ⟨r.code, t.obsNo + 1, by simp⟩

theorem atAwait_sent (val : Nat) (t : Task) (plan : Plan) :
    SentSpec t (atAwait val t plan).1 (atAwait val t plan).2 := by
  unfold atAwait
  split
  · exact Or.inl rfl
  · exact afterLoop_sent { t with trig := none } _
  · split
    · exact (afterLoop_sent { t with trig := none } _).mono (fun a ha => List.mem_cons_of_mem _ ha)
    · exact Or.inl rfl

theorem afterFirst_sent (val : Nat) (t : Task) (r : Resp) (plan : Plan) :
    SentSpec t (afterFirst val t r plan).1 (afterFirst val t r plan).2 := by
  unfold afterFirst
  split
  · exact Or.inl rfl
  · dsimp only
    rcases atAwait_sent val { t with obsNo := 0, sentVer := r.body, renderOut := none } plan with h | ⟨c, n, h⟩
    · exact Or.inr ⟨r.code, 0, by rw [h]; simp⟩
    · exact Or.inr ⟨c, n, List.mem_cons_of_mem _ h⟩

theorem stepTask_sent (val : Nat) (t : Task) (plan : Plan) (acc : Bool) :
    SentSpec t (stepTask val t plan acc).1 (stepTask val t plan acc).2 := by
  unfold stepTask
  split
  · exact Or.inl rfl
  split
  · exact Or.inl rfl
  split
  · unfold startTask
    split
    · split
      · exact (afterFirst_sent val { t with accepted := acc } _ .susp).mono
          (fun a ha => List.mem_append_right _ (List.mem_cons_of_mem _ ha))
      · exact Or.inl rfl
    · split
      · exact Or.inl rfl
      · exact Or.inl rfl
  · split
    · exact afterFirst_sent _ _ _ _
    · exact Or.inl rfl
  · exact atAwait_sent _ _ _
  · split
    · dsimp only
      split
      · exact afterLoop_sent _ _
      · rename_i r _ _
        rcases atAwait_sent val (afterLoop t r).1 plan with h | ⟨c, n, h⟩
        · rcases afterLoop_sent t r with h' | ⟨c, n, h'⟩
          · exact Or.inl (h.trans h')
          · exact Or.inr ⟨c, n, by rw [h]; exact List.mem_append_left _ h'⟩
        · exact Or.inr ⟨c, n, List.mem_append_right _ h⟩
    · exact Or.inl rfl
  · split
    · exact Or.inl rfl
    · exact Or.inl rfl
  · exact Or.inl rfl

/-- a render that starts in a step samples the resource's state of that moment -/
def RenderSpec (val : Nat) (acts : List Act) : Prop := ∀ ver, Act.render ver ∈ acts → ver = val

theorem finish_render (val : Nat) (t : Task) (r : Resp) : RenderSpec val (finish t r).2 := by
  intro ver h
  simp only [finish] at h
  split at h <;> split at h <;> simp at h

theorem afterLoop_render (val : Nat) (t : Task) (r : Resp) : RenderSpec val (afterLoop t r).2 := by
  unfold afterLoop
  split
  · exact finish_render val t r
  · intro ver h; simp at h

theorem RenderSpec_cons {val : Nat} {a : Act} {acts : List Act} (ha : ∀ ver, a = .render ver → ver = val)
    (h : RenderSpec val acts) : RenderSpec val (a :: acts) := by
  intro ver hm
  rcases List.mem_cons.mp hm with e | hm
  · exact ha ver e.symm
  · exact h ver hm

theorem atAwait_render (val : Nat) (t : Task) (plan : Plan) : RenderSpec val (atAwait val t plan).2 := by
  unfold atAwait
  split
  · intro ver h; cases h
  · exact afterLoop_render val _ _
  · split
    · exact RenderSpec_cons (by intro ver e; cases e; rfl) (afterLoop_render val _ _)
    · exact RenderSpec_cons (by intro ver e; cases e; rfl) (by intro ver h; cases h)

theorem afterFirst_render (val : Nat) (t : Task) (r : Resp) (plan : Plan) :
    RenderSpec val (afterFirst val t r plan).2 := by
  unfold afterFirst
  split
  · exact finish_render val t r
  · exact RenderSpec_cons (by intro ver e; cases e) (atAwait_render val _ _)

theorem stepTask_render (val : Nat) (t : Task) (plan : Plan) (acc : Bool) :
    RenderSpec val (stepTask val t plan acc).2 := by
  unfold stepTask
  split
  · intro ver h; cases h
  split
  · intro ver h; simp only [cancelStep] at h; split at h <;> simp at h
  split
  · unfold startTask
    split
    · split
      · intro ver h
        rcases List.mem_append.mp h with h | h
        · split at h <;> simp at h
        · exact RenderSpec_cons (by intro ver e; cases e; rfl) (afterFirst_render val _ _ _) ver h
      · intro ver h
        rcases List.mem_append.mp h with h | h
        · split at h <;> simp at h
        · simp at h; exact h
    · split
      · exact RenderSpec_cons (by intro ver e; cases e; rfl) (finish_render val _ _)
      · exact RenderSpec_cons (by intro ver e; cases e; rfl) (by intro ver h; cases h)
  · split
    · exact afterFirst_render _ _ _ _
    · intro ver h; cases h
  · exact atAwait_render _ _ _
  · split
    · dsimp only
      split
      · exact afterLoop_render val _ _
      · intro ver h
        rcases List.mem_append.mp h with h | h
        · exact afterLoop_render val _ _ ver h
        · exact atAwait_render val _ _ ver h
    · intro ver h; cases h
  · split
    · exact finish_render val _ _
    · intro ver h; cases h
  · intro ver h; cases h

/-- after its step the task is suspended (or has ended): it is not in the ready queue -/
theorem stepTask_suspended (val : Nat) (t : Task) (plan : Plan) (acc : Bool) :
    (stepTask val t plan acc).1.runnable = false := by
  simp only [stepTask, startTask, afterFirst, atAwait, afterLoop, finish, cancelStep]
  repeat' split
  all_goals simp_all

end Aiocoap.Observe.Server
