import Proofs.Observe.StepSpec
/-! Observe numbers and versions put on the pipe by one step of a render task. -/
namespace Aiocoap.Observe.Server

/-- the Observe numbers a step puts on the pipe continue the task's numbering without a gap -/
theorem stepTask_nums (val : Nat) (t : Task) (plan : Plan) (acc : Bool) :
    obsNums (stepTask val t plan acc).2 =
      List.range' (base t) (obsNums (stepTask val t plan acc).2).length ∧
    ((stepTask val t plan acc).1.phase ≠ .done →
      base (stepTask val t plan acc).1 = base t + (obsNums (stepTask val t plan acc).2).length) := by
  step_paths
  all_goals simp_all [obsNums, base, List.range']

/-- the ghost fields `sentVer` / `lastSent` of a task follow what it really puts on the pipe: they
stay as they are; or `sentVer` is the version of a non-final notification carrying an Observe
number that is among the effects; or the task has just ended by a final (Observe-less, marked
last) notification with a successful code that carries version `sentVer` -/
def SentSpec (t t' : Task) (acts : List Act) : Prop :=
  (t'.sentVer = t.sentVer ∧ t'.lastSent = t.lastSent) ∨
  (t'.lastSent = t.lastSent ∧ ∃ code n, Act.emit code (some n) t'.sentVer false ∈ acts) ∨
  (t'.lastSent = true ∧ ∃ code, success code = true ∧ Act.emit code none t'.sentVer true ∈ acts)

theorem SentSpec.mono {t t' : Task} {acts acts' : List Act} (h : SentSpec t t' acts)
    (hs : ∀ a ∈ acts, a ∈ acts') : SentSpec t t' acts' := by
  rcases h with h | ⟨hl, c, n, h⟩ | ⟨hl, c, hc, h⟩
  · exact Or.inl h
  · exact Or.inr (Or.inl ⟨hl, c, n, hs _ h⟩)
  · exact Or.inr (Or.inr ⟨hl, c, hc, hs _ h⟩)

/-- one part of a step after another; the first part did not end the task by a final notification -/
theorem SentSpec.comp {t t' t'' : Task} {a b : List Act} (h1 : SentSpec t t' a)
    (hl : t'.lastSent = t.lastSent) (h2 : SentSpec t' t'' b) : SentSpec t t'' (a ++ b) := by
  rcases h2 with ⟨hv, hl2⟩ | ⟨hl2, c, n, h⟩ | ⟨hl2, c, hc, h⟩
  · rcases h1 with ⟨hv1, hl1⟩ | ⟨hl1, c, n, h⟩ | ⟨hl1, c, hc, h⟩
    · exact Or.inl ⟨hv.trans hv1, hl2.trans hl1⟩
    · exact Or.inr (Or.inl ⟨hl2.trans hl1, c, n, by rw [hv]; exact List.mem_append_left _ h⟩)
    · exact Or.inr (Or.inr ⟨hl2.trans hl1, c, hc, by rw [hv]; exact List.mem_append_left _ h⟩)
  · exact Or.inr (Or.inl ⟨hl2.trans hl, c, n, List.mem_append_right _ h⟩)
  · exact Or.inr (Or.inr ⟨hl2, c, hc, List.mem_append_right _ h⟩)

theorem finish_sent (t : Task) (r : Resp) : SentSpec t (finish t r).1 (finish t r).2 :=
  Or.inl ⟨rfl, rfl⟩

theorem afterLoop_sent (t : Task) (r : Resp) : SentSpec t (afterLoop t r).1 (afterLoop t r).2 := by
  unfold afterLoop
  split
  · exact finish_sent t r
  · rename_i hg
    simp only [Bool.or_eq_true, Bool.not_eq_true', not_or, Bool.not_eq_true,
      Bool.not_eq_false] at hg
    split
    · refine Or.inr (Or.inr ⟨rfl, r.code, hg.2, ?_⟩)
      simp [finish, hg.1]
    · exact Or.inr (Or.inl ⟨rfl, r.code, t.obsNo + 1, by simp⟩)

/-- a notification that does not end the task leaves `lastSent` alone -/
theorem afterLoop_lastSent (t : Task) (r : Resp) (h : (afterLoop t r).1.phase ≠ .done) :
    (afterLoop t r).1.lastSent = t.lastSent := by
  unfold afterLoop at h ⊢
  split
  · rename_i hg; simp [hg, finish] at h
  · rename_i hg
    simp only [hg, Bool.false_eq_true, ↓reduceIte] at h
    split
    · rename_i hl; simp [hl, finish] at h
    · rfl

theorem atAwait_sent (val : Nat) (t : Task) (plan : Plan) :
    SentSpec t (atAwait val t plan).1 (atAwait val t plan).2 := by
  unfold atAwait
  split
  · exact Or.inl ⟨rfl, rfl⟩
  · exact afterLoop_sent { t with trig := none } _
  · split
    · exact (afterLoop_sent { t with trig := none } _).mono (fun a ha => List.mem_cons_of_mem _ ha)
    · exact Or.inl ⟨rfl, rfl⟩

theorem afterFirst_sent (val : Nat) (t : Task) (r : Resp) (plan : Plan) :
    SentSpec t (afterFirst val t r plan).1 (afterFirst val t r plan).2 := by
  unfold afterFirst
  split
  · exact finish_sent t r
  · dsimp only
    have h1 : SentSpec t { t with obsNo := 0, sentVer := r.body, renderOut := none }
        [Act.emit r.code (some 0) r.body false] :=
      Or.inr (Or.inl ⟨rfl, r.code, 0, by simp⟩)
    exact h1.comp rfl (atAwait_sent val _ plan)

theorem stepTask_sent (val : Nat) (t : Task) (plan : Plan) (acc : Bool) :
    SentSpec t (stepTask val t plan acc).1 (stepTask val t plan acc).2 := by
  unfold stepTask
  split
  · exact Or.inl ⟨rfl, rfl⟩
  split
  · exact Or.inl ⟨rfl, rfl⟩
  split
  · unfold startTask
    split
    · split
      · have h1 : SentSpec t { t with accepted := acc } [] := Or.inl ⟨rfl, rfl⟩
        exact (h1.comp rfl (afterFirst_sent val { t with accepted := acc } _ .susp)).mono
          (fun a ha => List.mem_append_right _ (List.mem_cons_of_mem _ (by simpa using ha)))
      · exact Or.inl ⟨rfl, rfl⟩
    · split
      · exact Or.inl ⟨rfl, rfl⟩
      · exact Or.inl ⟨rfl, rfl⟩
  · split
    · exact afterFirst_sent _ _ _ _
    · exact Or.inl ⟨rfl, rfl⟩
  · exact atAwait_sent _ _ _
  · split
    · dsimp only
      split
      · exact afterLoop_sent _ _
      · rename_i r _ hd
        have hd' : (afterLoop t r).1.phase ≠ .done := by simpa using hd
        exact (afterLoop_sent t r).comp (afterLoop_lastSent t r hd') (atAwait_sent val _ plan)
    · exact Or.inl ⟨rfl, rfl⟩
  · split
    · exact Or.inl ⟨rfl, rfl⟩
    · exact Or.inl ⟨rfl, rfl⟩
  · exact Or.inl ⟨rfl, rfl⟩

/-- a render that starts in a step samples the resource's state of that moment -/
def RenderSpec (val : Nat) (acts : List Act) : Prop := ∀ ver, Act.render ver ∈ acts → ver = val

theorem finish_render (val : Nat) (t : Task) (r : Resp) : RenderSpec val (finish t r).2 := by
  intro ver h
  simp only [finish] at h
  split at h <;> split at h <;> simp at h

theorem afterLoop_render (val : Nat) (t : Task) (r : Resp) : RenderSpec val (afterLoop t r).2 := by
  unfold afterLoop
  split
  · exact finish_render val t r
  · split
    · exact finish_render val _ r
    · intro ver h; simp at h

theorem RenderSpec_cons {val : Nat} {a : Act} {acts : List Act} (ha : ∀ ver, a = .render ver → ver = val)
    (h : RenderSpec val acts) : RenderSpec val (a :: acts) := by
  intro ver hm
  rcases List.mem_cons.mp hm with e | hm
  · exact ha ver e.symm
  · exact h ver hm

theorem atAwait_render (val : Nat) (t : Task) (plan : Plan) : RenderSpec val (atAwait val t plan).2 := by
  unfold atAwait
  split
  · intro ver h; cases h
  · exact afterLoop_render val _ _
  · split
    · exact RenderSpec_cons (by intro ver e; cases e; rfl) (afterLoop_render val _ _)
    · exact RenderSpec_cons (by intro ver e; cases e; rfl) (by intro ver h; cases h)

theorem afterFirst_render (val : Nat) (t : Task) (r : Resp) (plan : Plan) :
    RenderSpec val (afterFirst val t r plan).2 := by
  unfold afterFirst
  split
  · exact finish_render val t r
  · exact RenderSpec_cons (by intro ver e; cases e) (atAwait_render val _ _)

theorem stepTask_render (val : Nat) (t : Task) (plan : Plan) (acc : Bool) :
    RenderSpec val (stepTask val t plan acc).2 := by
  unfold stepTask
  split
  · intro ver h; cases h
  split
  · intro ver h; simp only [cancelStep] at h; split at h <;> simp at h
  split
  · unfold startTask
    split
    · split
      · intro ver h
        rcases List.mem_append.mp h with h | h
        · split at h <;> simp at h
        · exact RenderSpec_cons (by intro ver e; cases e; rfl) (afterFirst_render val _ _ _) ver h
      · intro ver h
        rcases List.mem_append.mp h with h | h
        · split at h <;> simp at h
        · simp at h; exact h
    · split
      · exact RenderSpec_cons (by intro ver e; cases e; rfl) (finish_render val _ _)
      · exact RenderSpec_cons (by intro ver e; cases e; rfl) (by intro ver h; cases h)
  · split
    · exact afterFirst_render _ _ _ _
    · intro ver h; cases h
  · exact atAwait_render _ _ _
  · split
    · dsimp only
      split
      · exact afterLoop_render val _ _
      · intro ver h
        rcases List.mem_append.mp h with h | h
        · exact afterLoop_render val _ _ ver h
        · exact atAwait_render val _ _ ver h
    · intro ver h; cases h
  · split
    · exact finish_render val _ _
    · intro ver h; cases h
  · intro ver h; cases h

/-- after its step the task is suspended (or has ended): it is not in the ready queue -/
theorem stepTask_suspended (val : Nat) (t : Task) (plan : Plan) (acc : Bool) :
    (stepTask val t plan acc).1.runnable = false := by
  step_auto

end Aiocoap.Observe.Server
