import Proofs.Observe.Exec
/-!
A task step during which the transport fails a send (`execF`, `Ev.stepFail`) compared with the
ordinary step (`exec`): apart from the message layer's state and outputs the two do the same
(`execF_sim`), and the pipes that remain after the failing step are those of the ordinary step
minus the ones the transport error stopped (`execF_srv`).
-/
namespace Aiocoap.Observe.Server
open Aiocoap.MsgLayer

/-- outputs of the application side: everything but what the message layer puts out -/
def isApp : Out → Bool
  | .net _ => false
  | .sendFailed _ _ _ => false
  | .count _ => true
  | .cancelled _ => true
  | .render _ _ => true
  | .notify _ _ _ _ _ => true

def app (os : List Out) : List Out := os.filter isApp

theorem app_append (a b : List Out) : app (a ++ b) = app a ++ app b := by simp [app]

theorem app_net (os : List MsgLayer.Out) : app (os.map Out.net) = [] := by
  simp [app, List.filter_eq_nil_iff, isApp]

theorem mem_app {o : Out} {os : List Out} : o ∈ app os ↔ o ∈ os ∧ isApp o = true := by
  simp [app, List.mem_filter]

/-- two composite states that differ in the message layer only -/
structure Sim (c c' : State) : Prop where
  tasks : c.tasks = c'.tasks
  obs : c.observations = c'.observations
  value : c.value = c'.value
  maxRetr : c.maxRetr = c'.maxRetr

theorem Sim.refl (c : State) : Sim c c := ⟨rfl, rfl, rfl, rfl⟩

theorem execAct_sim {c c' : State} (h : Sim c c') (sv : Nat) (a : Act) :
    Sim (execAct c sv a).1 (execAct c' sv a).1 ∧ app (execAct c sv a).2 = app (execAct c' sv a).2 := by
  cases a with
  | accept =>
    refine ⟨⟨h.tasks, ?_, h.value, h.maxRetr⟩, ?_⟩
    · show c.observations ++ [sv] = c'.observations ++ [sv]
      rw [h.obs]
    · simp only [execAct, h.obs]
  | render v => exact ⟨h, rfl⟩
  | callback =>
    refine ⟨⟨h.tasks, ?_, h.value, h.maxRetr⟩, ?_⟩
    · show c.observations.erase sv = c'.observations.erase sv
      rw [h.obs]
    · simp only [execAct, h.obs]
  | emit code obs body il =>
    refine ⟨⟨h.tasks, h.obs, h.value, h.maxRetr⟩, ?_⟩
    simp only [execAct, app_append, app_net, List.nil_append]

theorem exec_sim (sv : Nat) (acts : List Act) : ∀ {c c' : State}, Sim c c' →
    Sim (exec c sv acts).1 (exec c' sv acts).1 ∧ app (exec c sv acts).2 = app (exec c' sv acts).2 := by
  induction acts with
  | nil => intro c c' h; exact ⟨h, rfl⟩
  | cons a as ih =>
    intro c c' h
    have h1 := execAct_sim h sv a
    have h2 := ih h1.1
    simp only [exec, app_append]
    exact ⟨h2.1, by rw [h1.2, h2.2]⟩

/-- what `failingEmit` returns when it returns something -/
theorem failingEmit_some {c : State} {sv : Nat} {a : Act}
    {res : State × List Out × List MsgLayer.Out} (h : failingEmit c sv a = some res) :
    ∃ code obs body il tm remote w,
      a = .emit code obs body il ∧
      (respond c.ml sv (mkMsg c code obs body) false).2 = [.send tm remote w] ∧
      res.1 = { c with ml :=
        if il then dropIncoming (MsgLayer.handle (respond c.ml sv (mkMsg c code obs body) false).1 (.error remote)).1 sv
        else (MsgLayer.handle (respond c.ml sv (mkMsg c code obs body) false).1 (.error remote)).1 } ∧
      res.2.1 = .sendFailed tm remote w ::
        (MsgLayer.handle (respond c.ml sv (mkMsg c code obs body) false).1 (.error remote)).2.map Out.net ++
        [.notify sv code obs body il] ∧
      res.2.2 = (MsgLayer.handle (respond c.ml sv (mkMsg c code obs body) false).1 (.error remote)).2 := by
  cases a with
  | emit code obs body il =>
    simp only [failingEmit] at h
    split at h
    · rename_i tm remote w hr
      simp only [Option.some.injEq] at h
      subst h
      exact ⟨code, obs, body, il, tm, remote, w, rfl, hr, rfl, rfl, rfl⟩
    · cases h
  | accept => simp [failingEmit] at h
  | render v => simp [failingEmit] at h
  | callback => simp [failingEmit] at h

theorem failingEmit_sim {c : State} {sv : Nat} {a : Act}
    {res : State × List Out × List MsgLayer.Out} (h : failingEmit c sv a = some res) :
    Sim res.1 (execAct c sv a).1 ∧ app res.2.1 = app (execAct c sv a).2 := by
  obtain ⟨code, obs, body, il, tm, remote, w, rfl, _, h1, h2, _⟩ := failingEmit_some h
  rw [h1, h2]
  refine ⟨⟨rfl, rfl, rfl, rfl⟩, ?_⟩
  simp only [execAct, app_append, app_net, List.nil_append]
  have : ∀ l : List MsgLayer.Out, app (Out.sendFailed tm remote w :: l.map Out.net) = [] := by
    intro l
    simp [app, List.filter_eq_nil_iff, isApp]
  rw [this]; rfl

/-- apart from the message layer, a step with a failing send does what the ordinary step does -/
theorem execF_sim (sv : Nat) (acts : List Act) : ∀ {c c' : State}, Sim c c' →
    Sim (execF c sv acts).1 (exec c' sv acts).1 ∧ app (execF c sv acts).2.1 = app (exec c' sv acts).2 := by
  induction acts with
  | nil => intro c c' h; exact ⟨h, rfl⟩
  | cons a as ih =>
    intro c c' h
    have hA := execAct_sim h sv a
    simp only [execF, exec]
    cases hf : failingEmit c sv a with
    | some res =>
      obtain ⟨c1, os, st⟩ := res
      have h1 := failingEmit_sim hf
      simp only at h1 ⊢
      have hs : Sim c1 (execAct c' sv a).1 :=
        ⟨h1.1.tasks.trans hA.1.tasks, h1.1.obs.trans hA.1.obs, h1.1.value.trans hA.1.value,
         h1.1.maxRetr.trans hA.1.maxRetr⟩
      have h2 := exec_sim sv as hs
      exact ⟨h2.1, by rw [app_append, app_append, h1.2, hA.2, h2.2]⟩
    | none =>
      have h2 := ih hA.1
      simp only
      exact ⟨h2.1, by rw [app_append, app_append, hA.2, h2.2]⟩

/-- a failing send delivers no request -/
theorem dsrvs_error (s : MsgLayer.State) (remote : Remote) :
    dsrvs (MsgLayer.handle s (.error remote)).2 = [] := by
  simp only [MsgLayer.handle, dispatchError]
  split
  · rfl
  · simp only [tokenDispatchError]
    split
    · rfl
    · simp [dsrvs, List.filterMap_append, List.filterMap_map, Function.comp_def]

theorem execF_dsrvs (sv : Nat) (acts : List Act) : ∀ c : State, dsrvs (execF c sv acts).2.2 = [] := by
  induction acts with
  | nil => intro c; rfl
  | cons a as ih =>
    intro c
    simp only [execF]
    cases hf : failingEmit c sv a with
    | none => exact ih _
    | some res =>
      obtain ⟨code, obs, body, il, tm, remote, w, _, _, _, _, h3⟩ := failingEmit_some hf
      simp only
      rw [h3]
      exact dsrvs_error _ _

-- the pipes ---------------------------------------------------------------------------------------------

/-- `SrvStep` without the clause that a stopped pipe was in the table before -/
structure SrvStepW (s s' : MsgLayer.State) (os : List MsgLayer.Out) : Prop where
  sinv : SInv s'
  nxt : (dsrvs os = [] ∧ s'.nextSrv = s.nextSrv) ∨
        (dsrvs os = [s.nextSrv] ∧ s'.nextSrv = s.nextSrv + 1)
  inc : ∀ i ∈ s'.incoming, (i ∈ s.incoming ∧ stops os i.srv = false) ∨
          (∃ r w, Out.deliver i.srv r w ∈ os ∧ i.token = w.token ∧ i.remote = r)
  surv : ∀ i ∈ s.incoming, stops os i.srv = false → i ∈ s'.incoming
  dlIn : ∀ sv r w, Out.deliver sv r w ∈ os → ∃ i ∈ s'.incoming, i.srv = sv

theorem SrvStep.weak {s s' : MsgLayer.State} {os : List MsgLayer.Out} (h : SrvStep s s' os) :
    SrvStepW s s' os := ⟨h.sinv, h.nxt, h.inc, h.surv, h.dlIn⟩

/-- both tables filtered alike -/
theorem SrvStepW_filter {s s' s2 s2' : MsgLayer.State} {os : List MsgLayer.Out} (h : SrvStep s s' os)
    (hd : dsrvs os = []) (b : Bool) (sv : Nat)
    (h2 : s2.incoming = if b then s.incoming.filter (fun x => x.srv != sv) else s.incoming)
    (h2' : s2'.incoming = if b then s'.incoming.filter (fun x => x.srv != sv) else s'.incoming)
    (hn : s2.nextSrv = s.nextSrv) (hn' : s2'.nextSrv = s'.nextSrv) : SrvStepW s2 s2' os := by
  have hmem : ∀ i, i ∈ s2.incoming ↔ i ∈ s.incoming ∧ (b = true → i.srv ≠ sv) := by
    intro i; rw [h2]; cases b <;> simp [List.mem_filter]
  have hmem' : ∀ i, i ∈ s2'.incoming ↔ i ∈ s'.incoming ∧ (b = true → i.srv ≠ sv) := by
    intro i; rw [h2']; cases b <;> simp [List.mem_filter]
  refine ⟨⟨?_, ?_⟩, ?_, ?_, ?_, ?_⟩
  · rw [h2']; split
    · exact List.Nodup.sublist (List.filter_sublist.map _) h.sinv.nd
    · exact h.sinv.nd
  · intro i hi; rw [hn']; exact h.sinv.lt i ((hmem' i).mp hi).1
  · rw [hn, hn']; exact h.nxt
  · intro i hi
    obtain ⟨hi', hb⟩ := (hmem' i).mp hi
    rcases h.inc i hi' with ⟨h1, h2⟩ | ⟨r, w, hdl, _⟩
    · exact Or.inl ⟨(hmem i).mpr ⟨h1, hb⟩, h2⟩
    · have : i.srv ∈ dsrvs os := mem_dsrvs.mpr ⟨r, w, hdl⟩
      rw [hd] at this; cases this
  · intro i hi hst
    obtain ⟨hi', hb⟩ := (hmem i).mp hi
    exact (hmem' i).mpr ⟨h.surv i hi' hst, hb⟩
  · intro sv' r w hdl
    have : sv' ∈ dsrvs os := mem_dsrvs.mpr ⟨r, w, hdl⟩
    rw [hd] at this; cases this

theorem execAct_SInv {c : State} (h : SInv c.ml) (sv : Nat) (a : Act) : SInv (execAct c sv a).1.ml := by
  cases a with
  | emit code obs body il =>
    have hr := respond_frame c.ml sv (mkMsg c code obs body) il
    refine ⟨?_, ?_⟩
    · show ((respond c.ml sv (mkMsg c code obs body) il).1.incoming.map (·.srv)).Nodup
      rw [hr.2.2]; split
      · exact List.Nodup.sublist (List.filter_sublist.map _) h.nd
      · exact h.nd
    · intro i hi
      show i.srv < (respond c.ml sv (mkMsg c code obs body) il).1.nextSrv
      rw [hr.1]
      have hi' : i ∈ (respond c.ml sv (mkMsg c code obs body) il).1.incoming := hi
      rw [hr.2.2] at hi'
      split at hi'
      · exact h.lt i (List.mem_filter.mp hi').1
      · exact h.lt i hi'
  | accept => exact h
  | render v => exact h
  | callback => exact h

/-- the pipes after a step with a failing send, compared with the ordinary step: the same, minus
those the transport error stopped -/
theorem execF_srv (sv : Nat) (acts : List Act) : ∀ c : State, SInv c.ml →
    SrvStepW (exec c sv acts).1.ml (execF c sv acts).1.ml (execF c sv acts).2.2 := by
  induction acts with
  | nil => intro c h; exact (SrvStep_quiet h (Quiet_refl c.ml)).weak
  | cons a as ih =>
    intro c h
    simp only [execF, exec]
    cases hf : failingEmit c sv a with
    | none => exact ih _ (execAct_SInv h sv a)
    | some res =>
      obtain ⟨code, obs, body, il, tm, remote, w, rfl, hr, h1, _, h3⟩ := failingEmit_some hf
      obtain ⟨c1, os, st⟩ := res
      simp only at h1 h3 ⊢
      subst h1 h3
      have hrf := respond_frame c.ml sv (mkMsg c code obs body) false
      have hrt := respond_frame c.ml sv (mkMsg c code obs body) il
      simp only [Bool.false_eq_true, ↓reduceIte] at hrf
      have hs1 : SInv (respond c.ml sv (mkMsg c code obs body) false).1 := SInv_congr h hrf.2.2 hrf.1
      have hE := handle_SrvStep hs1 (.error remote) rfl
      have hN := exec_incoming sv as (execAct c sv (.emit code obs body il)).1
      have hNf := exec_frame sv as (execAct c sv (.emit code obs body il)).1
      have hF := exec_incoming sv as
        { c with ml := if il then dropIncoming (MsgLayer.handle (respond c.ml sv (mkMsg c code obs body) false).1
            (.error remote)).1 sv else (MsgLayer.handle (respond c.ml sv (mkMsg c code obs body) false).1
            (.error remote)).1 }
      have hFf := exec_frame sv as
        { c with ml := if il then dropIncoming (MsgLayer.handle (respond c.ml sv (mkMsg c code obs body) false).1
            (.error remote)).1 sv else (MsgLayer.handle (respond c.ml sv (mkMsg c code obs body) false).1
            (.error remote)).1 }
      refine SrvStepW_filter hE (dsrvs_error _ _) (il || hasLast as) sv ?_ ?_ ?_ ?_
      · rw [hN]
        show (if hasLast as then (respond c.ml sv (mkMsg c code obs body) il).1.incoming.filter _ else
          (respond c.ml sv (mkMsg c code obs body) il).1.incoming) = _
        rw [hrt.2.2, hrf.2.2]
        cases il <;> cases hasLast as <;> simp [List.filter_filter]
      · rw [hF]
        cases il <;> cases hasLast as <;> simp [dropIncoming, List.filter_filter]
      · rw [hNf.2.2.2]
        show (respond c.ml sv (mkMsg c code obs body) il).1.nextSrv = _
        rw [hrt.1, hrf.1]
      · rw [hFf.2.2.2]
        cases il <;> simp [dropIncoming]

end Aiocoap.Observe.Server
