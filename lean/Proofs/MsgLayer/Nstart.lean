import AiocoapModel.MsgLayer.Model
/-! NSTART bookkeeping of the message-layer model: exchanges and backlogs. -/
namespace Aiocoap.MsgLayer

/-- remotes with an active exchange, in table order -/
def exR (s : State) : List Remote := s.exchanges.map (·.remote)
/-- keys of `_backlogs` -/
def blK (s : State) : List Remote := s.backlogs.map (·.1)

theorem nodup_snoc {α} {l : List α} {a : α} (h : l.Nodup) (ha : a ∉ l) : (l ++ [a]).Nodup := by
  rw [List.nodup_append]
  refine ⟨h, by simp, ?_⟩
  intro x hx y hy
  simp at hy; subst hy
  intro e; subst e; exact ha hx

theorem hasExchange_iff (s : State) (r : Remote) : hasExchange s r = true ↔ r ∈ exR s := by
  simp only [hasExchange, exR, List.any_eq_true, beq_iff_eq, List.mem_map]

theorem hasBacklog_iff (s : State) (r : Remote) : hasBacklog s r = true ↔ r ∈ blK s := by
  simp only [hasBacklog, blK, List.any_eq_true, beq_iff_eq, List.mem_map]

/-- at most one exchange per remote; a backlog key exactly for the remotes with an exchange -/
structure NInv (s : State) : Prop where
  exNodup : (exR s).Nodup
  blNodup : (blK s).Nodup
  iff : ∀ r, r ∈ blK s ↔ r ∈ exR s

/-- the state inside `_continue_backlog`: `remote` has no exchange but may still have its key -/
structure PreInv (s : State) (remote : Remote) : Prop where
  exNodup : (exR s).Nodup
  blNodup : (blK s).Nodup
  iff : ∀ r, r ≠ remote → (r ∈ blK s ↔ r ∈ exR s)
  noEx : remote ∉ exR s

@[simp] theorem storeReply_exchanges (s : State) (r : Remote) (w : Wire) :
    (storeReply s r w).exchanges = s.exchanges := by unfold storeReply; split <;> rfl
@[simp] theorem storeReply_backlogs (s : State) (r : Remote) (w : Wire) :
    (storeReply s r w).backlogs = s.backlogs := by unfold storeReply; split <;> rfl

theorem exR_storeReply (s : State) (r : Remote) (w : Wire) : exR (storeReply s r w) = exR s := by
  simp [exR]
theorem blK_storeReply (s : State) (r : Remote) (w : Wire) : blK (storeReply s r w) = blK s := by
  simp [blK]

theorem exR_addExchange (s : State) (r : Remote) (w : Wire) (m : Monitor) (k : Nat) :
    exR (addExchange s r w m k) = exR s ++ [r] := by
  simp [addExchange, exR]

theorem blK_addExchange (s : State) (r : Remote) (w : Wire) (m : Monitor) (k : Nat) :
    blK (addExchange s r w m k) = if r ∈ blK s then blK s else blK s ++ [r] := by
  by_cases h : r ∈ blK s
  · have := (hasBacklog_iff s r).mpr h
    simp [addExchange, blK, this] at *
    simp [h]
  · have : hasBacklog s r = false := by
      cases hb : hasBacklog s r with
      | false => rfl
      | true => exact absurd ((hasBacklog_iff s r).mp hb) h
    simp [addExchange, blK, this] at *
    simp [h]

/-- what `_send_initially` does to the two tables -/
theorem exR_sendInitially (s : State) (r : Remote) (w : Wire) (m : Monitor) (k : Nat) :
    exR (sendInitially s r w m k).1 = if w.mtype = .con then exR s ++ [r] else exR s := by
  unfold sendInitially
  by_cases h : w.mtype = .con
  · simp [h, exR_storeReply, exR_addExchange]
  · simp [h, exR_storeReply]

theorem blK_sendInitially (s : State) (r : Remote) (w : Wire) (m : Monitor) (k : Nat) :
    blK (sendInitially s r w m k).1 =
      if w.mtype = .con then (if r ∈ blK s then blK s else blK s ++ [r]) else blK s := by
  unfold sendInitially
  by_cases h : w.mtype = .con
  · simp [h, blK_storeReply, blK_addExchange]
  · simp [h, blK_storeReply]

/-- a non-CON goes straight out and touches neither table -/
theorem NInv_sendInitially_nonCon {s : State} (h : NInv s) (r : Remote) (w : Wire) (m : Monitor)
    (k : Nat) (hw : w.mtype ≠ .con) : NInv (sendInitially s r w m k).1 := by
  have e1 := exR_sendInitially s r w m k
  have e2 := blK_sendInitially s r w m k
  simp only [hw, ↓reduceIte] at e1 e2
  exact ⟨e1 ▸ h.exNodup, e2 ▸ h.blNodup, fun x => by rw [e1, e2]; exact h.iff x⟩

/-- a CON to a remote without exchange opens one (and its backlog key) -/
theorem NInv_sendInitially_con {s : State} (h : NInv s) (r : Remote) (w : Wire) (m : Monitor)
    (k : Nat) (hr : r ∉ exR s) : NInv (sendInitially s r w m k).1 := by
  by_cases hw : w.mtype = .con
  · have e1 := exR_sendInitially s r w m k
    have e2 := blK_sendInitially s r w m k
    have hb : r ∉ blK s := fun hb => hr ((h.iff r).mp hb)
    simp only [hw, ↓reduceIte, hb] at e1 e2
    refine ⟨?_, ?_, ?_⟩
    · rw [e1]; exact nodup_snoc h.exNodup hr
    · rw [e2]; exact nodup_snoc h.blNodup hb
    · intro x; rw [e1, e2]; simp [h.iff x]
  · exact NInv_sendInitially_nonCon h r w m k hw

end Aiocoap.MsgLayer

namespace Aiocoap.MsgLayer

-- functions that leave both tables alone ----------------------------------------------------

theorem runMonitor_tables (s : State) (m : Monitor) :
    (runMonitor s m).1.exchanges = s.exchanges ∧ (runMonitor s m).1.backlogs = s.backlogs := by
  unfold runMonitor
  cases m with
  | req r => simp only; split <;> exact ⟨rfl, rfl⟩
  | srv sv => simp only; split <;> exact ⟨rfl, rfl⟩
  | none => exact ⟨rfl, rfl⟩

theorem tokenDispatchError_tables (s : State) (r : Remote) (k : ErrKind) :
    (tokenDispatchError s r k).1.exchanges = s.exchanges ∧
    (tokenDispatchError s r k).1.backlogs = s.backlogs := by
  unfold tokenDispatchError; split <;> exact ⟨rfl, rfl⟩

theorem processResponse_tables (s : State) (r : Remote) (w : Wire) :
    (processResponse s r w).1.exchanges = s.exchanges ∧
    (processResponse s r w).1.backlogs = s.backlogs := by
  unfold processResponse
  simp only
  split
  · exact ⟨rfl, rfl⟩
  · split <;> exact ⟨rfl, rfl⟩

theorem tokenProcessRequest_tables (s : State) (r : Remote) (w : Wire) :
    (tokenProcessRequest s r w).1.exchanges = s.exchanges ∧
    (tokenProcessRequest s r w).1.backlogs = s.backlogs := by
  unfold tokenProcessRequest
  simp only
  split <;> exact ⟨rfl, rfl⟩

theorem fireEmptyAck_tables (s : State) (r : Remote) (t : Token) :
    (fireEmptyAck s r t).1.exchanges = s.exchanges ∧
    (fireEmptyAck s r t).1.backlogs = s.backlogs := by
  unfold fireEmptyAck
  split
  · exact ⟨rfl, rfl⟩
  · simp [sendBare, sendInitially, storeReply, dropPiggy]

theorem processRequest_tables (s : State) (r : Remote) (w : Wire) :
    (processRequest s r w).1.exchanges = s.exchanges ∧
    (processRequest s r w).1.backlogs = s.backlogs := by
  unfold processRequest
  simp only
  have h0 := fireEmptyAck_tables s r w.token
  split
  · have h := tokenProcessRequest_tables
      { (fireEmptyAck s r w.token).1 with
        piggy := (fireEmptyAck s r w.token).1.piggy ++
          [{ remote := r, token := w.token, mid := w.mid,
             fireAt := (fireEmptyAck s r w.token).1.now + (fireEmptyAck s r w.token).1.cfg.emptyAckDelay }] } r w
    exact ⟨h.1.trans h0.1, h.2.trans h0.2⟩
  · have h := tokenProcessRequest_tables (fireEmptyAck s r w.token).1 r w
    exact ⟨h.1.trans h0.1, h.2.trans h0.2⟩

theorem NInv_of_tables {s s' : State} (h : NInv s) (he : s'.exchanges = s.exchanges)
    (hb : s'.backlogs = s.backlogs) : NInv s' := by
  have e1 : exR s' = exR s := by simp [exR, he]
  have e2 : blK s' = blK s := by simp [blK, hb]
  exact ⟨e1 ▸ h.exNodup, e2 ▸ h.blNodup, fun x => by rw [e1, e2]; exact h.iff x⟩

theorem PreInv_of_tables {s s' : State} {r : Remote} (h : PreInv s r)
    (he : s'.exchanges = s.exchanges) (hb : s'.backlogs = s.backlogs) : PreInv s' r := by
  have e1 : exR s' = exR s := by simp [exR, he]
  have e2 : blK s' = blK s := by simp [blK, hb]
  exact ⟨e1 ▸ h.exNodup, e2 ▸ h.blNodup, fun x hx => by rw [e1, e2]; exact h.iff x hx, e1 ▸ h.noEx⟩

-- the backlog loop ---------------------------------------------------------------------------

theorem blK_setBacklog (bl : List (Remote × List Queued)) (r : Remote) (l : List Queued) :
    (setBacklog bl r l).map (·.1) = bl.map (·.1) := by
  induction bl with
  | nil => rfl
  | cons b bs ih =>
    simp only [setBacklog, List.map_cons] at ih ⊢
    rw [ih]
    by_cases h : (b.1 == r) = true <;> simp [h]

theorem blK_appendBacklog (bl : List (Remote × List Queued)) (r : Remote) (q : Queued) :
    (appendBacklog bl r q).map (·.1) = bl.map (·.1) := by
  induction bl with
  | nil => rfl
  | cons b bs ih =>
    simp only [appendBacklog, List.map_cons] at ih ⊢
    rw [ih]
    by_cases h : (b.1 == r) = true <;> simp [h]

theorem drainBacklog_NInv (remote : Remote) (l : List Queued) :
    ∀ s : State, PreInv s remote → NInv (drainBacklog s remote l).1 := by
  induction l with
  | nil =>
    intro s h
    simp only [drainBacklog]
    have e1 : exR ({ s with backlogs := s.backlogs.filter (fun b => !(b.1 == remote)) } : State) = exR s := rfl
    have e2 : blK ({ s with backlogs := s.backlogs.filter (fun b => !(b.1 == remote)) } : State)
        = (blK s).filter (fun x => !(x == remote)) := by
      simp only [blK]
      induction s.backlogs with
      | nil => rfl
      | cons b bs ih =>
        simp only [List.filter_cons, List.map_cons]
        by_cases hb : (b.1 == remote) = true <;> simp [hb, ih]
    refine ⟨e1 ▸ h.exNodup, ?_, ?_⟩
    · rw [e2]; exact List.Nodup.sublist List.filter_sublist h.blNodup
    · intro x
      rw [e1, e2]
      by_cases hx : x = remote
      · subst hx; simp [h.noEx]
      · have := h.iff x hx
        simp [List.mem_filter, hx, this]
  | cons qd rest ih =>
    intro s h
    simp only [drainBacklog]
    have hs1 : PreInv ({ s with backlogs := setBacklog s.backlogs remote rest } : State) remote := by
      have e2 : blK ({ s with backlogs := setBacklog s.backlogs remote rest } : State) = blK s := by
        simp [blK, blK_setBacklog]
      exact ⟨h.exNodup, e2 ▸ h.blNodup, fun x hx => by rw [e2]; exact h.iff x hx, h.noEx⟩
    generalize hs1' : ({ s with backlogs := setBacklog s.backlogs remote rest } : State) = s1 at hs1
    by_cases hc : qd.msg.mtype = .con
    · simp only [hc, beq_self_eq_true, ↓reduceIte]
      have e1 := exR_sendInitially s1 remote qd.msg qd.monitor qd.maxRetr
      have e2 := blK_sendInitially s1 remote qd.msg qd.monitor qd.maxRetr
      simp only [hc, ↓reduceIte] at e1 e2
      refine ⟨?_, ?_, ?_⟩
      · rw [e1]; exact nodup_snoc hs1.exNodup hs1.noEx
      · rw [e2]; split
        · exact hs1.blNodup
        · rename_i hb; exact nodup_snoc hs1.blNodup hb
      · intro x
        rw [e1, e2]
        by_cases hx : x = remote
        · subst hx; split <;> simp [*]
        · have := hs1.iff x hx
          split <;> simp [hx, this]
    · have hne : (qd.msg.mtype == MType.con) = false := by simpa using hc
      simp only [hne, Bool.false_eq_true, ↓reduceIte]
      apply ih
      have e1 := exR_sendInitially s1 remote qd.msg qd.monitor qd.maxRetr
      have e2 := blK_sendInitially s1 remote qd.msg qd.monitor qd.maxRetr
      simp only [hc, ↓reduceIte] at e1 e2
      exact ⟨e1 ▸ hs1.exNodup, e2 ▸ hs1.blNodup, fun x hx => by rw [e1, e2]; exact hs1.iff x hx,
        e1 ▸ hs1.noEx⟩

theorem continueBacklog_NInv {s : State} {remote : Remote} (h : PreInv s remote) :
    NInv (continueBacklog s remote).1 := by
  unfold continueBacklog
  have hne : hasExchange s remote = false := by
    cases hb : hasExchange s remote with
    | false => rfl
    | true => exact absurd ((hasExchange_iff s remote).mp hb) h.noEx
  simp only [hne, Bool.false_eq_true, ↓reduceIte]
  split
  · rename_i hnone
    have hnb : remote ∉ blK s := by
      intro hin
      simp only [blK, List.mem_map] at hin
      obtain ⟨b, hb, hbr⟩ := hin
      have := List.find?_eq_none.mp hnone b hb
      simp [hbr] at this
    refine ⟨h.exNodup, h.blNodup, ?_⟩
    intro x
    by_cases hx : x = remote
    · subst hx; simp [hnb, h.noEx]
    · exact h.iff x hx
  · exact drainBacklog_NInv remote _ s h

end Aiocoap.MsgLayer

namespace Aiocoap.MsgLayer

theorem map_inj_of_nodup {α β} {f : α → β} {l : List α} (h : (l.map f).Nodup) {x y : α}
    (hx : x ∈ l) (hy : y ∈ l) (e : f x = f y) : x = y := by
  induction l with
  | nil => cases hx
  | cons a as ih =>
    simp only [List.map_cons, List.nodup_cons, List.mem_map, not_exists, not_and] at h
    rcases List.mem_cons.mp hx with rfl | hx' <;> rcases List.mem_cons.mp hy with rfl | hy'
    · rfl
    · exact absurd e.symm (h.1 y hy')
    · exact absurd e (h.1 x hx')
    · exact ih h.2 hx' hy'

/-- removing the exchange of `remote` (found by its key) leaves `remote` without exchange -/
theorem PreInv_remove {s : State} (h : NInv s) {remote : Remote} {mid : Nat} {e : Exchange}
    (hf : findExchange s remote mid = some e) : PreInv (dropExchange s remote mid) remote := by
  unfold findExchange at hf
  unfold dropExchange
  have hmem : e ∈ s.exchanges := List.mem_of_find?_eq_some hf
  have hkey : e.remote = remote ∧ e.msg.mid = mid := by
    have := List.find?_some hf
    simpa using this
  have hsub : (s.exchanges.filter (fun x => !(x.remote == remote && x.msg.mid == mid))).Sublist
      s.exchanges := List.filter_sublist
  refine ⟨?_, h.blNodup, ?_, ?_⟩
  · exact List.Nodup.sublist (hsub.map _) h.exNodup
  · intro r hr
    show r ∈ blK s ↔ _
    rw [h.iff r]
    simp only [exR, List.mem_map, List.mem_filter]
    constructor
    · rintro ⟨x, hx, rfl⟩
      exact ⟨x, ⟨hx, by simp [hr]⟩, rfl⟩
    · rintro ⟨x, ⟨hx, _⟩, rfl⟩
      exact ⟨x, hx, rfl⟩
  · show remote ∉ exR _
    simp only [exR, List.mem_map, List.mem_filter, not_exists, not_and]
    rintro x ⟨hx, hp⟩ hxr
    have : x = e := map_inj_of_nodup h.exNodup hx hmem (by rw [hxr, hkey.1])
    subst this
    simp [hkey.1, hkey.2] at hp

theorem removeExchange_NInv {s : State} (h : NInv s) (remote : Remote) (w : Wire) :
    NInv (removeExchange s remote w).1 := by
  unfold removeExchange
  split
  · exact h
  · rename_i e hf
    simp only
    have hp := PreInv_remove h hf
    generalize dropExchange s remote w.mid = s1 at hp
    have hp2 : PreInv (if w.mtype == .rst then runMonitor s1 e.monitor else (s1, [])).1 remote := by
      split
      · exact PreInv_of_tables hp (runMonitor_tables s1 e.monitor).1 (runMonitor_tables s1 e.monitor).2
      · exact hp
    exact continueBacklog_NInv hp2

theorem dispatchOut_NInv {s : State} (h : NInv s) (remote : Remote) (w : Wire) (mon : Monitor)
    (k : Nat) : NInv (dispatchOut s remote w mon k).1 := by
  unfold dispatchOut
  split
  · refine ⟨h.exNodup, ?_, ?_⟩
    · show (List.map (·.1) (appendBacklog s.backlogs remote _)).Nodup
      rw [blK_appendBacklog]; exact h.blNodup
    · intro x
      show x ∈ List.map (·.1) (appendBacklog s.backlogs remote _) ↔ _
      rw [blK_appendBacklog]; exact h.iff x
  · rename_i hc
    by_cases hw : w.mtype = .con
    · have hb : hasBacklog s remote = false := by
        cases hb : hasBacklog s remote with
        | false => rfl
        | true => simp [hw, hb] at hc
      have : remote ∉ exR s := by
        intro hin
        have := (hasBacklog_iff s remote).mpr ((h.iff remote).mpr hin)
        rw [hb] at this; cases this
      exact NInv_sendInitially_con h remote w mon k this
    · exact NInv_sendInitially_nonCon h remote w mon k hw

theorem NInv_dropPiggy {s : State} (h : NInv s) (r : Remote) (t : Token) : NInv (dropPiggy s r t) :=
  NInv_of_tables h rfl rfl

theorem NInv_takeMid {s : State} (h : NInv s) : NInv (takeMid s).2 := NInv_of_tables h rfl rfl

theorem sendMessage_NInv {s : State} (h : NInv s) (remote : Remote) (mc : Bool) (token : Token)
    (m : OutMsg) (wasNon : Bool) (mon : Monitor) :
    NInv (sendMessage s remote mc token m wasNon mon).1 := by
  unfold sendMessage
  split
  · split
    · exact NInv_sendInitially_nonCon (NInv_dropPiggy h _ _) _
        { mtype := .ack, code := 0, mid := _, token := [], obs := none, body := 0 } _ _ (by simp)
    · exact dispatchOut_NInv (NInv_dropPiggy h _ _) _ _ _ _
  · split
    · exact h
    · dsimp only
      split
      · exact h
      · exact dispatchOut_NInv (NInv_takeMid h) _ _ _ _

theorem sendBare_NInv {s : State} (h : NInv s) (remote : Remote) (t : MType) (mid : Nat)
    (ht : t ≠ .con) : NInv (sendBare s remote t mid).1 :=
  NInv_sendInitially_nonCon h _ _ _ _ (by simpa using ht)

end Aiocoap.MsgLayer
