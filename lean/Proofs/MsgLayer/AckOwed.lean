import Proofs.MsgLayer.AckTimer
/-!
Lower half of "a confirmable request is acknowledged exactly once": a pending piggy-back
opportunity never disappears silently.  Every handler but the shutdown either leaves it pending or
sends an ACK under its message ID to its endpoint in that very step (piggy-backed response, empty
ACK of the timer, empty ACK because a new request arrived on the token).  Needs `PInv` (one
opportunity per key), so that whoever looks the opportunity up by (remote, token) finds *this* one.
-/
namespace Aiocoap.MsgLayer

/-- an ACK under `p`'s message ID to `p`'s endpoint is among the outputs -/
def AckedIn (p : Piggy) (os : List Out) : Prop :=
  ∃ t w, Out.send t p.remote w ∈ os ∧ w.mtype = .ack ∧ w.mid = p.mid

/-- the step keeps `p` pending or acknowledges it -/
def Owed (p : Piggy) (res : State × List Out) : Prop := p ∈ res.1.piggy ∨ AckedIn p res.2

theorem AckedIn_append_left {p : Piggy} {a : List Out} (h : AckedIn p a) (b : List Out) :
    AckedIn p (a ++ b) := by
  obtain ⟨t, w, hm, h1, h2⟩ := h
  exact ⟨t, w, List.mem_append_left _ hm, h1, h2⟩

theorem AckedIn_append_right {p : Piggy} {b : List Out} (a : List Out) (h : AckedIn p b) :
    AckedIn p (a ++ b) := by
  obtain ⟨t, w, hm, h1, h2⟩ := h
  exact ⟨t, w, List.mem_append_right _ hm, h1, h2⟩

theorem Owed_of_piggy {p : Piggy} {s : State} (hp : p ∈ s.piggy) {res : State × List Out}
    (e : res.1.piggy = s.piggy) : Owed p res := Or.inl (e ▸ hp)

/-- composition: first piece, then a second piece started in the first one's state -/
theorem Owed.then {p : Piggy} {r1 : State × List Out} (h1 : Owed p r1) {r2 : State × List Out}
    (h2 : p ∈ r1.1.piggy → Owed p r2) : Owed p (r2.1, r1.2 ++ r2.2) := by
  rcases h1 with h1 | h1
  · rcases h2 h1 with h | h
    · exact Or.inl h
    · exact Or.inr (AckedIn_append_right _ h)
  · exact Or.inr (AckedIn_append_left h1 _)

theorem mem_dropPiggy_of_ne {s : State} {p : Piggy} (hp : p ∈ s.piggy) {remote : Remote} {token : Token}
    (hne : ¬ (p.remote = remote ∧ p.token = token)) : p ∈ (dropPiggy s remote token).piggy := by
  refine List.mem_filter.mpr ⟨hp, ?_⟩
  cases hb : (p.remote == remote && p.token == token) with
  | false => rfl
  | true => simp only [Bool.and_eq_true, beq_iff_eq] at hb; exact absurd hb hne

theorem sendMessage_Owed {s : State} (hk : PInv s) {p : Piggy} (hp : p ∈ s.piggy) (remote : Remote)
    (mc : Bool) (token : Token) (m : OutMsg) (wasNon : Bool) (mon : Monitor) :
    Owed p ((sendMessage s remote mc token m wasNon mon).1, (sendMessage s remote mc token m wasNon mon).2.1) := by
  unfold sendMessage
  split
  · rename_i q hf
    obtain ⟨hq, hr, ht⟩ := findPiggy_spec hf
    by_cases hkey : p.remote = remote ∧ p.token = token
    · have hqp : q = p := PInv_unique hk hq hp (hr.trans hkey.1.symm) (ht.trans hkey.2.symm)
      subst hqp
      right
      split
      · refine ⟨s.now, { mtype := .ack, code := 0, mid := q.mid, token := [], obs := none, body := 0 },
          ?_, rfl, rfl⟩
        simp [sendInitially, hr, dropPiggy]
      · refine ⟨s.now, { mtype := .ack, code := m.code, mid := q.mid, token, obs := m.obs, body := m.body },
          ?_, rfl, rfl⟩
        simp [dispatchOut, sendInitially, hr, dropPiggy]
    · left
      have hd := mem_dropPiggy_of_ne hp hkey
      split
      · dsimp only
        rw [piggy_sendInitially]; exact hd
      · dsimp only
        rw [piggy_dispatchOut]; exact hd
  · left
    split
    · exact hp
    · dsimp only
      split
      · exact hp
      · dsimp only
        rw [piggy_dispatchOut]; exact hp

theorem fireEmptyAck_Owed {s : State} (hk : PInv s) {p : Piggy} (hp : p ∈ s.piggy) (remote : Remote)
    (token : Token) : Owed p (fireEmptyAck s remote token) := by
  by_cases hkey : p.remote = remote ∧ p.token = token
  · right
    obtain ⟨rfl, rfl⟩ := hkey
    rw [fireEmptyAck_fires hk hp]
    exact ⟨s.now, _, List.mem_singleton.mpr rfl, rfl, rfl⟩
  · left
    rcases fireEmptyAck_piggy s remote token with h | h <;> rw [h]
    · exact hp
    · exact mem_dropPiggy_of_ne hp hkey

theorem processRequest_Owed {s : State} (hk : PInv s) {p : Piggy} (hp : p ∈ s.piggy) (remote : Remote)
    (w : Wire) : Owed p (processRequest s remote w) := by
  have h0 := fireEmptyAck_Owed hk hp remote w.token
  unfold processRequest
  simp only
  generalize fireEmptyAck s remote w.token = r0 at h0
  refine Owed.then h0 ?_
  intro hp0
  left
  rw [(tokenProcessRequest_Quiet _ remote w).pg]
  split
  · exact List.mem_append_left _ hp0
  · exact hp0

theorem recvCode_Owed {s : State} (hk : PInv s) {p : Piggy} (hp : p ∈ s.piggy) (remote : Remote)
    (mcl : Bool) (w : Wire) : Owed p (recvCode s remote mcl w) := by
  have hpr : p ∈ (processResponse s remote w).1.piggy := by
    rw [(processResponse_Quiet s remote w).pg]; exact hp
  unfold recvCode
  split
  · exact Owed_of_piggy hp (piggy_sendInitially _ _ _ _ _)
  · split
    · exact Or.inl hp
    · split
      · exact processRequest_Owed hk hp remote w
      · split
        · dsimp only
          split
          · split
            · left
              dsimp only
              unfold sendBare
              rw [piggy_sendInitially]; exact hpr
            · exact Or.inl hpr
          · split
            · left
              unfold sendBare
              rw [piggy_sendInitially]; exact hpr
            · exact Or.inl hpr
        · exact Or.inl hp

theorem recv_Owed {s : State} (hq : QInv s) (hk : PInv s) {p : Piggy} (hp : p ∈ s.piggy)
    (remote : Remote) (mcl : Bool) (w : Wire) : Owed p (recv s remote mcl w) := by
  unfold recv
  split
  · unfold recvDup
    split
    · split
      · exact Owed_of_piggy hp (piggy_sendInitially _ _ _ _ _)
      · exact Or.inl hp
    · exact Or.inl hp
  · dsimp only
    generalize hs0 : (if dedupable w = true then
        ({ s with recent := s.recent ++ [(⟨remote, w.mid, none, s.now + s.cfg.exchangeLifetime⟩ : Recent)] } : State)
        else s) = s0
    have e0 : s0.piggy = s.piggy := by
      rw [← hs0]; split <;> rfl
    have hq0 : QInv s0 := by
      rw [← hs0]; split
      · exact QInv_of_tables hq rfl rfl
      · exact hq
    generalize hx : (if fitsReply w = true then removeExchange s0 remote w else (s0, [])) = x
    have e1 : x.1.piggy = s.piggy := by
      rw [← hx]; split
      · exact (removeExchange_Quiet hq0 remote w).pg.trans e0
      · exact e0
    have h1 : Owed p x := Or.inl (e1 ▸ hp)
    refine Owed.then h1 ?_
    intro hp1
    exact recvCode_Owed (PInv_of_piggy hk e1) hp1 remote mcl w

/-- every event but the shutdown keeps a pending opportunity or acknowledges it -/
theorem handle_Owed {s : State} (hq : QInv s) (hk : PInv s) {p : Piggy} (hp : p ∈ s.piggy) (ev : Ev)
    (hev : ev ≠ .shutdown) : Owed p (handle s ev) := by
  cases ev with
  | submit r remote mc ob m =>
    simp only [handle, submit]
    split
    · exact Or.inl hp
    · have h2 := sendMessage_Owed (s := registerOutgoing s r remote mc ob) hk hp remote mc (nextToken s) m
        false (.req r)
      split
      · rcases h2 with h | h
        · exact Or.inl h
        · exact Or.inr (AckedIn_append_left h _)
      · exact h2
  | recv remote mcl w =>
    simp only [handle]; split
    · exact Or.inl hp
    · exact recv_Owed hq hk hp _ _ _
  | respond sv m il =>
    simp only [handle, respond]
    split
    · exact Or.inl hp
    · rename_i i _
      have h2 := sendMessage_Owed hk hp i.remote false i.token m i.wasNon (.srv sv)
      split
      · rcases h2 with h | h
        · exact Or.inl h
        · exact Or.inr h
      · exact h2
  | appCancel r => exact Or.inl hp
  | error remote => exact Owed_of_piggy hp (dispatchError_Quiet s remote).pg
  | fireRetransmit remote mid => exact Owed_of_piggy hp (fireRetransmit_piggy s remote mid)
  | fireEmptyAck remote token => exact fireEmptyAck_Owed hk hp remote token
  | fireExpire remote mid => exact Or.inl hp
  | shutdown => exact absurd rfl hev

theorem step_Owed {s : State} (hq : QInv s) (hk : PInv s) {p : Piggy} (hp : p ∈ s.piggy) (e : TEv)
    (hev : e.ev ≠ .shutdown) : Owed p (step s e) := by
  unfold step
  exact handle_Owed (s := setNow s e.time) (QInv_of_tables hq rfl rfl) (PInv_of_piggy hk rfl) hp e.ev hev

/-- over every run without a shutdown: a pending opportunity is still pending at the end, or an
ACK under its message ID went to its endpoint -/
theorem run_Owed {s : State} (hq : QInv s) (hk : PInv s) {p : Piggy} (hp : p ∈ s.piggy) (es : List TEv)
    (hev : ∀ e ∈ es, e.ev ≠ .shutdown) : Owed p (run s es) := by
  induction es generalizing s with
  | nil => exact Or.inl hp
  | cons e es ih =>
    simp only [run]
    have h1 := step_Owed hq hk hp e (hev e List.mem_cons_self)
    refine Owed.then h1 ?_
    intro hp1
    exact ih (step_QInv hq e) (step_PInv hq hk e) hp1 (fun x hx => hev x (List.mem_cons_of_mem _ hx))

end Aiocoap.MsgLayer
