import Proofs.MsgLayer.Retransmit
/-! The deduplication table: entries keep their key and expiry until their own timer removes them. -/
namespace Aiocoap.MsgLayer

/-- "an entry for (remote, mid) with expiry `x` is in the table" -/
def HasEntry (s : State) (remote : Remote) (mid x : Nat) : Prop :=
  ∃ r ∈ s.recent, r.remote = remote ∧ r.mid = mid ∧ r.expiry = x

theorem HasEntry_of_recent {s s' : State} {remote : Remote} {mid x : Nat}
    (h : HasEntry s remote mid x) (e : s'.recent = s.recent) : HasEntry s' remote mid x := by
  obtain ⟨r, hr, h3⟩ := h; exact ⟨r, e ▸ hr, h3⟩

theorem storeReply_HasEntry {s : State} {remote : Remote} {mid x : Nat} (h : HasEntry s remote mid x)
    (rem : Remote) (w : Wire) : HasEntry (storeReply s rem w) remote mid x := by
  obtain ⟨r, hr, h1, h2, h3⟩ := h
  unfold storeReply
  split
  · by_cases hc : (r.remote == rem && r.mid == w.mid) = true
    · exact ⟨{ r with reply := some w }, List.mem_map.mpr ⟨r, hr, by simp [hc]⟩, h1, h2, h3⟩
    · exact ⟨r, List.mem_map.mpr ⟨r, hr, by simp [hc]⟩, h1, h2, h3⟩
  · exact ⟨r, hr, h1, h2, h3⟩

section
variable {remote : Remote} {mid x : Nat}

theorem sendInitially_HasEntry {s : State} (h : HasEntry s remote mid x) (r : Remote) (w : Wire)
    (m : Monitor) (k : Nat) : HasEntry (sendInitially s r w m k).1 remote mid x := by
  unfold sendInitially
  dsimp only
  apply storeReply_HasEntry
  split
  · exact HasEntry_of_recent h rfl
  · exact h

theorem drainBacklog_HasEntry (rem : Remote) (l : List Queued) :
    ∀ s : State, HasEntry s remote mid x → HasEntry (drainBacklog s rem l).1 remote mid x := by
  induction l with
  | nil => intro s h; exact HasEntry_of_recent h rfl
  | cons qd rest ih =>
    intro s h
    simp only [drainBacklog]
    have h1 : HasEntry ({ s with backlogs := setBacklog s.backlogs rem rest } : State) remote mid x :=
      HasEntry_of_recent h rfl
    have h2 := sendInitially_HasEntry h1 rem qd.msg qd.monitor qd.maxRetr
    split
    · exact h2
    · exact ih _ h2

theorem continueBacklog_HasEntry {s : State} (h : HasEntry s remote mid x) (rem : Remote) :
    HasEntry (continueBacklog s rem).1 remote mid x := by
  unfold continueBacklog
  split
  · exact h
  · split
    · exact h
    · exact drainBacklog_HasEntry rem _ s h

theorem removeExchange_HasEntry {s : State} (h : HasEntry s remote mid x) (rem : Remote) (w : Wire) :
    HasEntry (removeExchange s rem w).1 remote mid x := by
  unfold removeExchange
  split
  · exact h
  · simp only
    apply continueBacklog_HasEntry
    split
    · exact HasEntry_of_recent (HasEntry_of_recent h rfl) (runMonitor_recent _ _)
    · exact HasEntry_of_recent h rfl

theorem dispatchOut_HasEntry {s : State} (h : HasEntry s remote mid x) (rem : Remote) (w : Wire)
    (mon : Monitor) (k : Nat) : HasEntry (dispatchOut s rem w mon k).1 remote mid x := by
  unfold dispatchOut
  split
  · exact HasEntry_of_recent h rfl
  · exact sendInitially_HasEntry h _ _ _ _

theorem sendMessage_HasEntry {s : State} (h : HasEntry s remote mid x) (rem : Remote) (mc : Bool)
    (token : Token) (m : OutMsg) (wasNon : Bool) (mon : Monitor) :
    HasEntry (sendMessage s rem mc token m wasNon mon).1 remote mid x := by
  have hp : HasEntry (dropPiggy s rem token) remote mid x := HasEntry_of_recent h rfl
  have ht : HasEntry (takeMid s).2 remote mid x := HasEntry_of_recent h rfl
  unfold sendMessage
  split
  · split
    · exact sendInitially_HasEntry hp _ _ _ _
    · exact dispatchOut_HasEntry hp _ _ _ _
  · split
    · exact h
    · dsimp only
      split
      · exact h
      · exact dispatchOut_HasEntry ht _ _ _ _

theorem sendBare_HasEntry {s : State} (h : HasEntry s remote mid x) (rem : Remote) (t : MType)
    (m : Nat) : HasEntry (sendBare s rem t m).1 remote mid x := sendInitially_HasEntry h _ _ _ _

theorem fireEmptyAck_HasEntry {s : State} (h : HasEntry s remote mid x) (rem : Remote) (token : Token) :
    HasEntry (fireEmptyAck s rem token).1 remote mid x := by
  unfold fireEmptyAck
  split
  · exact h
  · exact sendBare_HasEntry (s := dropPiggy s rem token) (HasEntry_of_recent h rfl) _ _ _

theorem recvCode_HasEntry {s : State} (h : HasEntry s remote mid x) (rem : Remote) (mcLocal : Bool)
    (w : Wire) : HasEntry (recvCode s rem mcLocal w).1 remote mid x := by
  have hpr : HasEntry (processResponse s rem w).1 remote mid x :=
    HasEntry_of_recent h (processResponse_recent s rem w)
  unfold recvCode
  split
  · exact sendBare_HasEntry h _ _ _
  · split
    · exact h
    · split
      · exact HasEntry_of_recent (fireEmptyAck_HasEntry h rem w.token) (processRequest_recent s rem w)
      · split
        · dsimp only
          split
          · split
            · exact sendBare_HasEntry hpr _ _ _
            · exact hpr
          · split
            · exact sendBare_HasEntry hpr _ _ _
            · exact hpr
        · exact h

theorem recv_HasEntry {s : State} (h : HasEntry s remote mid x) (rem : Remote) (mcLocal : Bool)
    (w : Wire) : HasEntry (recv s rem mcLocal w).1 remote mid x := by
  unfold recv
  split
  · unfold recvDup
    split
    · split
      · exact sendInitially_HasEntry h _ _ _ _
      · exact h
    · exact h
  · dsimp only
    apply recvCode_HasEntry
    have h0 : HasEntry (if dedupable w = true then
        { s with recent := s.recent ++ [{ remote := rem, mid := w.mid, reply := none,
                                          expiry := s.now + s.cfg.exchangeLifetime }] } else s)
        remote mid x := by
      split
      · obtain ⟨r, hr, h3⟩ := h
        exact ⟨r, List.mem_append_left _ hr, h3⟩
      · exact h
    split
    · exact removeExchange_HasEntry h0 _ _
    · exact h0

/-- every event other than the entry's own expiry timer keeps the entry -/
theorem handle_HasEntry {s : State} (h : HasEntry s remote mid x) (ev : Ev)
    (hne : ev ≠ .fireExpire remote mid) : HasEntry (handle s ev).1 remote mid x := by
  cases ev with
  | submit r rem mc ob m =>
    simp only [handle, submit]
    split
    · exact h
    · have h1 : HasEntry (registerOutgoing s r rem mc ob) remote mid x := HasEntry_of_recent h rfl
      have h2 := sendMessage_HasEntry h1 rem mc (nextToken s) m false (.req r)
      split
      · exact HasEntry_of_recent h2 rfl
      · exact h2
  | recv rem mcl w =>
    simp only [handle]; split
    · exact h
    · exact recv_HasEntry h _ _ _
  | respond sv m il =>
    simp only [handle, respond]
    split
    · exact h
    · rename_i i _
      have h2 := sendMessage_HasEntry h i.remote false i.token m i.wasNon (.srv sv)
      split
      · exact HasEntry_of_recent h2 rfl
      · exact h2
  | appCancel r => exact HasEntry_of_recent h rfl
  | error rem =>
    simp only [handle, dispatchError]
    split
    · exact h
    · exact HasEntry_of_recent (HasEntry_of_recent h (tokenDispatchError_recent s rem _)) rfl
  | fireRetransmit rem m =>
    simp only [handle, fireRetransmit]
    split
    · exact h
    · split
      · exact HasEntry_of_recent h rfl
      · exact HasEntry_of_recent (s := dropBacklog (dropExchange s rem m) rem)
          (HasEntry_of_recent h rfl) (tokenDispatchError_recent _ rem _)
  | fireEmptyAck rem token =>
    simp only [handle, fireEmptyAck]
    split
    · exact h
    · exact sendBare_HasEntry (s := dropPiggy s rem token) (HasEntry_of_recent h rfl) _ _ _
  | fireExpire rem m =>
    simp only [handle, fireExpire]
    obtain ⟨r, hr, h1, h2, h3⟩ := h
    refine ⟨r, List.mem_filter.mpr ⟨hr, ?_⟩, h1, h2, h3⟩
    have : ¬ (rem = remote ∧ m = mid) := by
      rintro ⟨rfl, rfl⟩; exact hne rfl
    simp only [h1, h2, Bool.not_eq_true', Bool.and_eq_false_imp, beq_iff_eq, beq_eq_false_iff_ne, ne_eq]
    intro e; subst e
    intro e2; exact this ⟨rfl, e2.symm⟩
  | shutdown =>
    simp only [handle, shutdown]
    split
    · exact h
    · exact HasEntry_of_recent h rfl

end

end Aiocoap.MsgLayer
