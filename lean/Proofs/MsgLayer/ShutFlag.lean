import Proofs.Observe.FailCause
namespace Aiocoap.MsgLayer
open Aiocoap.Observe.Server

/-- the step leaves both shutdown flags as they were -/
def SameFlags (s s' : State) : Prop := s'.shutMsg = s.shutMsg ∧ s'.shutTok = s.shutTok

theorem SameFlags.refl (s : State) : SameFlags s s := ⟨rfl, rfl⟩
theorem SameFlags.trans {a b c : State} (h1 : SameFlags a b) (h2 : SameFlags b c) : SameFlags a c :=
  ⟨h2.1.trans h1.1, h2.2.trans h1.2⟩

theorem sendBare_flags (s : State) (r : Remote) (t : MType) (mid : Nat) :
    SameFlags s (sendBare s r t mid).1 := sendInitially_shut _ _ _ _ _

theorem runMonitor_flags (s : State) (m : Monitor) : SameFlags s (runMonitor s m).1 := by
  unfold runMonitor
  split <;> (try split) <;> exact ⟨rfl, rfl⟩

theorem tokenDispatchError_flags (s : State) (r : Remote) (k : ErrKind) :
    SameFlags s (tokenDispatchError s r k).1 := by
  unfold tokenDispatchError
  split <;> exact ⟨rfl, rfl⟩

theorem processResponse_flags (s : State) (r : Remote) (w : Wire) :
    SameFlags s (processResponse s r w).1 := by
  unfold processResponse
  dsimp only
  split
  · exact ⟨rfl, rfl⟩
  · split <;> exact ⟨rfl, rfl⟩

theorem tokenProcessRequest_flags (s : State) (r : Remote) (w : Wire) :
    SameFlags s (tokenProcessRequest s r w).1 := by
  unfold tokenProcessRequest
  dsimp only
  split <;> exact ⟨rfl, rfl⟩

theorem drainBacklog_flags (r : Remote) (l : List Queued) : ∀ s : State,
    SameFlags s (drainBacklog s r l).1 := by
  induction l with
  | nil => intro s; exact ⟨rfl, rfl⟩
  | cons q rest ih =>
    intro s
    unfold drainBacklog
    dsimp only
    have h1 : SameFlags s (sendInitially { s with backlogs := setBacklog s.backlogs r rest } r q.msg
        q.monitor q.maxRetr).1 := sendInitially_shut _ _ _ _ _
    split
    · exact h1
    · exact h1.trans (ih _)

theorem continueBacklog_flags (s : State) (r : Remote) : SameFlags s (continueBacklog s r).1 := by
  unfold continueBacklog
  split
  · exact ⟨rfl, rfl⟩
  · split
    · exact ⟨rfl, rfl⟩
    · exact drainBacklog_flags _ _ _

theorem removeExchange_flags (s : State) (r : Remote) (w : Wire) :
    SameFlags s (removeExchange s r w).1 := by
  unfold removeExchange
  split
  · exact ⟨rfl, rfl⟩
  · dsimp only
    split
    · exact (SameFlags.trans (b := dropExchange s r w.mid) ⟨rfl, rfl⟩ (runMonitor_flags _ _)).trans
        (continueBacklog_flags _ _)
    · exact SameFlags.trans (b := dropExchange s r w.mid) ⟨rfl, rfl⟩ (continueBacklog_flags _ _)

theorem fireEmptyAck_flags (s : State) (r : Remote) (t : Token) :
    SameFlags s (fireEmptyAck s r t).1 := by
  unfold fireEmptyAck
  split
  · exact ⟨rfl, rfl⟩
  · exact SameFlags.trans (b := dropPiggy s r t) ⟨rfl, rfl⟩ (sendBare_flags _ _ _ _)

theorem processRequest_flags (s : State) (r : Remote) (w : Wire) :
    SameFlags s (processRequest s r w).1 := by
  unfold processRequest
  dsimp only
  refine (fireEmptyAck_flags s r w.token).trans ?_
  split
  · exact SameFlags.trans (b := { (fireEmptyAck s r w.token).1 with piggy := _ }) ⟨rfl, rfl⟩
      (tokenProcessRequest_flags _ _ _)
  · exact tokenProcessRequest_flags _ _ _

theorem recvDup_flags (s : State) (r : Remote) (w : Wire) : SameFlags s (recvDup s r w).1 := by
  unfold recvDup
  split
  · split
    · exact sendInitially_shut _ _ _ _ _
    · exact ⟨rfl, rfl⟩
  · exact ⟨rfl, rfl⟩

theorem recvCode_flags (s : State) (r : Remote) (mcl : Bool) (w : Wire) :
    SameFlags s (recvCode s r mcl w).1 := by
  unfold recvCode
  split
  · exact sendBare_flags _ _ _ _
  · split
    · exact ⟨rfl, rfl⟩
    · split
      · exact processRequest_flags _ _ _
      · split
        · dsimp only
          split
          · split
            · exact (processResponse_flags s r w).trans (sendBare_flags _ _ _ _)
            · exact processResponse_flags s r w
          · split
            · exact (processResponse_flags s r w).trans (sendBare_flags _ _ _ _)
            · exact processResponse_flags s r w
        · exact ⟨rfl, rfl⟩

theorem recv_flags (s : State) (r : Remote) (mcl : Bool) (w : Wire) :
    SameFlags s (recv s r mcl w).1 := by
  have key : ∀ s0 : State, SameFlags s s0 →
      SameFlags s (recvCode (if fitsReply w then removeExchange s0 r w else (s0, [])).1 r mcl w).1 := by
    intro s0 h0
    split
    · exact (h0.trans (removeExchange_flags _ _ _)).trans (recvCode_flags _ _ _ _)
    · exact h0.trans (recvCode_flags _ _ _ _)
  unfold recv
  split
  · exact recvDup_flags _ _ _
  · dsimp only
    apply key
    split <;> exact ⟨rfl, rfl⟩

theorem submit_flags (s : State) (r : Nat) (remote : Remote) (mc ob : Bool) (m : OutMsg) :
    SameFlags s (submit s r remote mc ob m).1 := by
  unfold submit
  split
  · exact ⟨rfl, rfl⟩
  · dsimp only
    have h := sendMessage_shut (registerOutgoing s r remote mc ob) remote mc (nextToken s) m false (.req r)
    split <;> exact ⟨h.1, h.2⟩

theorem dispatchError_flags (s : State) (r : Remote) : SameFlags s (dispatchError s r).1 := by
  unfold dispatchError
  split
  · exact ⟨rfl, rfl⟩
  · have h := tokenDispatchError_flags s r .networkError
    exact ⟨h.1, h.2⟩

theorem fireRetransmit_flags (s : State) (r : Remote) (mid : Nat) :
    SameFlags s (fireRetransmit s r mid).1 := by
  unfold fireRetransmit
  split
  · exact ⟨rfl, rfl⟩
  · dsimp only
    split
    · exact ⟨rfl, rfl⟩
    · have h := tokenDispatchError_flags (dropBacklog (dropExchange s r mid) r) r .conRetransmitsExceeded
      exact ⟨h.1, h.2⟩

/-- every event but `shutdown` leaves the shutdown flags alone -/
theorem handle_flags (s : State) (ev : Ev) (hne : ev ≠ .shutdown) : SameFlags s (handle s ev).1 := by
  cases ev with
  | submit r remote mc ob m => exact submit_flags _ _ _ _ _ _
  | recv remote mcl w =>
    simp only [handle]
    split
    · exact ⟨rfl, rfl⟩
    · exact recv_flags _ _ _ _
  | respond sv m il => exact respond_shut _ _ _ _
  | appCancel r => exact ⟨rfl, rfl⟩
  | error remote => exact dispatchError_flags _ _
  | fireRetransmit remote mid => exact fireRetransmit_flags _ _ _
  | fireEmptyAck remote token => exact fireEmptyAck_flags _ _ _
  | fireExpire remote mid => exact ⟨rfl, rfl⟩
  | shutdown => exact absurd rfl hne

end Aiocoap.MsgLayer
