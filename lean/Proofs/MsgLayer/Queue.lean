import Proofs.MsgLayer.Inv
/-!
Everything the message layer holds for (re)transmission is confirmable: the messages of the active
exchanges and the messages waiting in the per-remote back-logs.  (Only `dispatchOut` appends to a
back-log and only for a CON; `addExchange` is only reached from `sendInitially` under
`w.mtype == .con`.)  Consequence used by the ACK accounting: retransmissions and back-log drains
never put an ACK on the wire.
-/
namespace Aiocoap.MsgLayer

structure QInv (s : State) : Prop where
  ex : ∀ e ∈ s.exchanges, e.msg.mtype = .con
  bl : ∀ b ∈ s.backlogs, ∀ q ∈ b.2, q.msg.mtype = .con

theorem QInv_of_tables {s s' : State} (h : QInv s) (he : s'.exchanges = s.exchanges)
    (hb : s'.backlogs = s.backlogs) : QInv s' :=
  ⟨fun e hx => h.ex e (he ▸ hx), fun b hx => h.bl b (hb ▸ hx)⟩

theorem QInv_of_sub {s s' : State} (h : QInv s) (he : ∀ e ∈ s'.exchanges, e ∈ s.exchanges)
    (hb : ∀ b ∈ s'.backlogs, b ∈ s.backlogs) : QInv s' :=
  ⟨fun e hx => h.ex e (he e hx), fun b hx => h.bl b (hb b hx)⟩

theorem init_QInv (cfg : Cfg) (mid token : Nat) (f : Nat → Nat) : QInv (init cfg mid token f) :=
  ⟨fun e he => by simp [init] at he, fun b hb => by simp [init] at hb⟩

theorem storeReply_QInv {s : State} (h : QInv s) (remote : Remote) (w : Wire) :
    QInv (storeReply s remote w) :=
  QInv_of_tables h (storeReply_exchanges _ _ _) (storeReply_backlogs _ _ _)

theorem addExchange_QInv {s : State} (h : QInv s) (remote : Remote) (w : Wire) (mon : Monitor)
    (k : Nat) (hw : w.mtype = .con) : QInv (addExchange s remote w mon k) := by
  constructor
  · intro e he
    simp only [addExchange, List.mem_append, List.mem_singleton] at he
    rcases he with he | rfl
    · exact h.ex e he
    · exact hw
  · intro b hb q hq
    simp only [addExchange] at hb
    split at hb
    · exact h.bl b hb q hq
    · simp only [List.mem_append, List.mem_singleton] at hb
      rcases hb with hb | rfl
      · exact h.bl b hb q hq
      · cases hq

theorem sendInitially_QInv {s : State} (h : QInv s) (remote : Remote) (w : Wire) (mon : Monitor)
    (k : Nat) : QInv (sendInitially s remote w mon k).1 := by
  unfold sendInitially
  apply storeReply_QInv
  split
  · rename_i hw
    exact addExchange_QInv h _ _ _ _ (by simpa using hw)
  · exact h

theorem mem_setBacklog {bl : List (Remote × List Queued)} {remote : Remote} {l : List Queued}
    {b : Remote × List Queued} (hb : b ∈ setBacklog bl remote l) : b ∈ bl ∨ b.2 = l := by
  simp only [setBacklog, List.mem_map] at hb
  obtain ⟨b0, hb0, rfl⟩ := hb
  split
  · exact Or.inr rfl
  · exact Or.inl hb0

theorem setBacklog_QInv {s : State} (h : QInv s) (remote : Remote) (l : List Queued)
    (hl : ∀ q ∈ l, q.msg.mtype = .con) :
    QInv ({ s with backlogs := setBacklog s.backlogs remote l } : State) := by
  refine ⟨h.ex, ?_⟩
  intro b hb q hq
  rcases mem_setBacklog hb with hb | hb
  · exact h.bl b hb q hq
  · exact hl q (hb ▸ hq)

theorem drainBacklog_QInv (remote : Remote) (l : List Queued) :
    ∀ s : State, QInv s → (∀ q ∈ l, q.msg.mtype = .con) → QInv (drainBacklog s remote l).1 := by
  induction l with
  | nil =>
    intro s h _
    exact QInv_of_sub (s' := { s with backlogs := s.backlogs.filter (fun b => !(b.1 == remote)) }) h
      (fun _ he => he) (fun _ hb => (List.mem_filter.mp hb).1)
  | cons qd rest ih =>
    intro s h hl
    simp only [drainBacklog]
    have hrest : ∀ q ∈ rest, q.msg.mtype = .con := fun q hq => hl q (List.mem_cons_of_mem _ hq)
    have h1 := setBacklog_QInv h remote rest hrest
    have h2 := sendInitially_QInv h1 remote qd.msg qd.monitor qd.maxRetr
    split
    · exact h2
    · exact ih _ h2 hrest

/-- the queue `continueBacklog` drains is one of the stored ones -/
theorem backlog_find_con {s : State} (h : QInv s) {remote r : Remote} {l : List Queued}
    (hf : s.backlogs.find? (fun b => b.1 == remote) = some (r, l)) :
    ∀ q ∈ l, q.msg.mtype = .con :=
  h.bl (r, l) (List.mem_of_find?_eq_some hf)

theorem continueBacklog_QInv {s : State} (h : QInv s) (remote : Remote) :
    QInv (continueBacklog s remote).1 := by
  unfold continueBacklog
  split
  · exact h
  · split
    · exact h
    · rename_i r l hf
      exact drainBacklog_QInv remote l s h (backlog_find_con h hf)

theorem dropExchange_QInv {s : State} (h : QInv s) (remote : Remote) (mid : Nat) :
    QInv (dropExchange s remote mid) :=
  QInv_of_sub h (fun _ he => (List.mem_filter.mp he).1) (fun _ hb => hb)

theorem dropBacklog_QInv {s : State} (h : QInv s) (remote : Remote) :
    QInv (dropBacklog s remote) :=
  QInv_of_sub h (fun _ he => he) (fun _ hb => (List.mem_filter.mp hb).1)

theorem removeExchange_QInv {s : State} (h : QInv s) (remote : Remote) (w : Wire) :
    QInv (removeExchange s remote w).1 := by
  unfold removeExchange
  split
  · exact h
  · simp only
    apply continueBacklog_QInv
    split
    · exact QInv_of_tables (dropExchange_QInv h _ _) (runMonitor_tables _ _).1 (runMonitor_tables _ _).2
    · exact dropExchange_QInv h _ _

theorem dispatchOut_QInv {s : State} (h : QInv s) (remote : Remote) (w : Wire) (mon : Monitor)
    (k : Nat) : QInv (dispatchOut s remote w mon k).1 := by
  unfold dispatchOut
  split
  · rename_i hc
    simp only [Bool.and_eq_true, beq_iff_eq] at hc
    refine ⟨h.ex, ?_⟩
    intro b hb q hq
    simp only [appendBacklog, List.mem_map] at hb
    obtain ⟨b0, hb0, rfl⟩ := hb
    split at hq
    · simp only [List.mem_append, List.mem_singleton] at hq
      rcases hq with hq | rfl
      · exact h.bl b0 hb0 q hq
      · exact hc.1
    · exact h.bl b0 hb0 q hq
  · exact sendInitially_QInv h _ _ _ _

theorem sendMessage_QInv {s : State} (h : QInv s) (remote : Remote) (mc : Bool) (token : Token)
    (m : OutMsg) (wasNon : Bool) (mon : Monitor) :
    QInv (sendMessage s remote mc token m wasNon mon).1 := by
  have hp : QInv (dropPiggy s remote token) := QInv_of_tables h rfl rfl
  have ht : QInv (takeMid s).2 := QInv_of_tables h rfl rfl
  unfold sendMessage
  split
  · rename_i p _
    split
    · exact sendInitially_QInv hp remote
        { mtype := .ack, code := 0, mid := p.mid, token := [], obs := none, body := 0 } mon m.maxRetr
    · exact dispatchOut_QInv hp remote
        { mtype := .ack, code := m.code, mid := p.mid, token, obs := m.obs, body := m.body } mon m.maxRetr
  · split
    · exact h
    · dsimp only
      split
      · exact h
      · exact dispatchOut_QInv ht remote
          { mtype := chooseType s mc wasNon m, code := m.code, mid := (takeMid s).1, token,
            obs := m.obs, body := m.body } mon m.maxRetr

theorem sendBare_QInv {s : State} (h : QInv s) (remote : Remote) (t : MType) (mid : Nat) :
    QInv (sendBare s remote t mid).1 := sendInitially_QInv h _ _ _ _

theorem recvDup_QInv {s : State} (h : QInv s) (remote : Remote) (w : Wire) :
    QInv (recvDup s remote w).1 := by
  unfold recvDup
  split
  · split
    · exact sendInitially_QInv h _ _ _ _
    · exact h
  · exact h

theorem recvCode_QInv {s : State} (h : QInv s) (remote : Remote) (mcLocal : Bool) (w : Wire) :
    QInv (recvCode s remote mcLocal w).1 := by
  have hpr : QInv (processResponse s remote w).1 :=
    QInv_of_tables h (processResponse_tables s remote w).1 (processResponse_tables s remote w).2
  unfold recvCode
  split
  · exact sendBare_QInv h _ _ _
  · split
    · exact h
    · split
      · exact QInv_of_tables h (processRequest_tables s remote w).1 (processRequest_tables s remote w).2
      · split
        · dsimp only
          split
          · split
            · exact sendBare_QInv hpr remote .ack w.mid
            · exact hpr
          · split
            · exact sendBare_QInv hpr remote .rst w.mid
            · exact hpr
        · exact h

theorem recv_QInv {s : State} (h : QInv s) (remote : Remote) (mcLocal : Bool) (w : Wire) :
    QInv (recv s remote mcLocal w).1 := by
  unfold recv
  split
  · exact recvDup_QInv h _ _
  · dsimp only
    apply recvCode_QInv
    have h0 : QInv (if dedupable w = true then
        { s with recent := s.recent ++ [{ remote, mid := w.mid, reply := none,
                                          expiry := s.now + s.cfg.exchangeLifetime }] } else s) := by
      split
      · exact QInv_of_tables h rfl rfl
      · exact h
    split
    · exact removeExchange_QInv h0 _ _
    · exact h0

theorem dispatchError_QInv {s : State} (h : QInv s) (remote : Remote) :
    QInv (dispatchError s remote).1 := by
  unfold dispatchError
  split
  · exact h
  · dsimp only
    have h1 : QInv (tokenDispatchError s remote ErrKind.networkError).1 :=
      QInv_of_tables h (tokenDispatchError_tables s remote _).1 (tokenDispatchError_tables s remote _).2
    generalize (tokenDispatchError s remote ErrKind.networkError).1 = s1 at h1
    exact QInv_of_sub h1 (fun _ he => (List.mem_filter.mp he).1) (fun _ hb => (List.mem_filter.mp hb).1)

theorem fireRetransmit_QInv {s : State} (h : QInv s) (remote : Remote) (mid : Nat) :
    QInv (fireRetransmit s remote mid).1 := by
  unfold fireRetransmit
  split
  · exact h
  · rename_i e hf
    have hd := dropExchange_QInv h remote mid
    dsimp only
    split
    · refine ⟨?_, hd.bl⟩
      intro x hx
      simp only [List.mem_append, List.mem_singleton] at hx
      rcases hx with hx | rfl
      · exact hd.ex x hx
      · exact h.ex e (List.mem_of_find?_eq_some hf)
    · exact QInv_of_tables (dropBacklog_QInv hd remote) (tokenDispatchError_tables _ remote _).1
        (tokenDispatchError_tables _ remote _).2

theorem fireEmptyAck_QInv {s : State} (h : QInv s) (remote : Remote) (token : Token) :
    QInv (fireEmptyAck s remote token).1 := by
  unfold fireEmptyAck
  split
  · exact h
  · exact sendBare_QInv (s := dropPiggy s remote token) (QInv_of_tables h rfl rfl) _ _ _

theorem submit_QInv {s : State} (h : QInv s) (r : Nat) (remote : Remote) (mc observing : Bool)
    (m : OutMsg) : QInv (submit s r remote mc observing m).1 := by
  unfold submit
  split
  · exact h
  · dsimp only
    have h1 : QInv (registerOutgoing s r remote mc observing) := QInv_of_tables h rfl rfl
    have h2 := sendMessage_QInv h1 remote mc (nextToken s) m false (.req r)
    split
    · exact QInv_of_tables h2 rfl rfl
    · exact h2

theorem respond_QInv {s : State} (h : QInv s) (sv : Nat) (m : OutMsg) (isLast : Bool) :
    QInv (respond s sv m isLast).1 := by
  unfold respond
  split
  · exact h
  · rename_i i _
    dsimp only
    have h2 := sendMessage_QInv h i.remote false i.token m i.wasNon (.srv sv)
    split
    · exact QInv_of_tables h2 rfl rfl
    · exact h2

theorem shutdown_QInv {s : State} (h : QInv s) : QInv (shutdown s).1 := by
  unfold shutdown
  split
  · exact h
  · dsimp only
    exact ⟨fun e he => (by cases he), fun b hb => (by cases hb)⟩

theorem handle_QInv {s : State} (h : QInv s) (ev : Ev) : QInv (handle s ev).1 := by
  cases ev with
  | submit r remote mc ob m => exact submit_QInv h _ _ _ _ _
  | recv remote mcl w =>
    simp only [handle]; split
    · exact h
    · exact recv_QInv h _ _ _
  | respond sv m il => exact respond_QInv h _ _ _
  | appCancel r => exact QInv_of_tables h rfl rfl
  | error remote => exact dispatchError_QInv h _
  | fireRetransmit remote mid => exact fireRetransmit_QInv h _ _
  | fireEmptyAck remote token => exact fireEmptyAck_QInv h _ _
  | fireExpire remote mid => exact QInv_of_tables h rfl rfl
  | shutdown => exact shutdown_QInv h

theorem step_QInv {s : State} (h : QInv s) (e : TEv) : QInv (step s e).1 := by
  unfold step
  exact handle_QInv (s := setNow s e.time) (QInv_of_tables h rfl rfl) e.ev

theorem run_QInv {s : State} (h : QInv s) (es : List TEv) : QInv (run s es).1 := by
  induction es generalizing s with
  | nil => exact h
  | cons e es ih => simp only [run]; exact ih (step_QInv h e)

end Aiocoap.MsgLayer
