import Proofs.MsgLayer.Dedup
/-!
Accounting of request completions: every terminal event put on a request's pipe (an exception or
a final response) consumes an entry of `outgoing_requests` for that request.
-/
namespace Aiocoap.MsgLayer

/-- a terminal event for request `r`: an exception, or a response marked final -/
def isTerm (r : Nat) : Out → Bool
  | .fail r' _ => r' == r
  | .response r' _ final => r' == r && final
  | _ => false

def termCount (r : Nat) (os : List Out) : Nat := os.countP (isTerm r)
def outCount (s : State) (r : Nat) : Nat := s.outgoing.countP (fun o => o.req == r)

/-- an event put on the pipe of a client request -/
def pipeEvent : Out → Bool
  | .response _ _ _ => true
  | .fail _ _ => true
  | _ => false

theorem pipeEvent_of_isTerm {r : Nat} {o : Out} (h : isTerm r o = true) : pipeEvent o = true := by
  cases o <;> simp_all [isTerm, pipeEvent]

/-- no output is a pipe event of a client request -/
def NoTerm (os : List Out) : Prop := ∀ o ∈ os, pipeEvent o = false

theorem termCount_of_NoTerm {os : List Out} (h : NoTerm os) (r : Nat) : termCount r os = 0 := by
  simp only [termCount, List.countP_eq_zero]
  intro o ho ht
  have := pipeEvent_of_isTerm ht
  rw [h o ho] at this; cases this

theorem termCount_append (r : Nat) (a b : List Out) :
    termCount r (a ++ b) = termCount r a + termCount r b := by simp [termCount, List.countP_append]

theorem NoTerm_append {a b : List Out} (ha : NoTerm a) (hb : NoTerm b) : NoTerm (a ++ b) := by
  intro o ho
  rcases List.mem_append.mp ho with h | h
  · exact ha o h
  · exact hb o h

theorem NoTerm_nil : NoTerm [] := by intro o ho; cases ho

/-- outputs are not pipe events and the request table is untouched -/
structure Neutral (s : State) (res : State × List Out) : Prop where
  og : res.1.outgoing = s.outgoing
  nt : NoTerm res.2

theorem Neutral.trans {s : State} {r1 : State × List Out} {r2 : State × List Out}
    (h1 : Neutral s r1) (h2 : Neutral r1.1 r2) : Neutral s (r2.1, r1.2 ++ r2.2) :=
  ⟨h2.og.trans h1.og, NoTerm_append h1.nt h2.nt⟩

theorem Neutral_refl (s : State) : Neutral s (s, []) := ⟨rfl, NoTerm_nil⟩

theorem sendInitially_Neutral (s : State) (r : Remote) (w : Wire) (m : Monitor) (k : Nat) :
    Neutral s (sendInitially s r w m k) := by
  refine ⟨?_, ?_⟩
  · unfold sendInitially storeReply addExchange
    dsimp only
    split <;> split <;> rfl
  · intro o ho
    simp only [sendInitially, List.mem_singleton] at ho
    subst ho; rfl

theorem drainBacklog_Neutral (remote : Remote) (l : List Queued) :
    ∀ s : State, Neutral s (drainBacklog s remote l) := by
  induction l with
  | nil => intro s; exact ⟨rfl, NoTerm_nil⟩
  | cons qd rest ih =>
    intro s
    simp only [drainBacklog]
    have h1 := sendInitially_Neutral ({ s with backlogs := setBacklog s.backlogs remote rest } : State)
      remote qd.msg qd.monitor qd.maxRetr
    split
    · exact ⟨h1.og, h1.nt⟩
    · have h2 := ih (sendInitially { s with backlogs := setBacklog s.backlogs remote rest } remote
        qd.msg qd.monitor qd.maxRetr).1
      exact ⟨h2.og.trans h1.og, NoTerm_append h1.nt h2.nt⟩

theorem continueBacklog_Neutral (s : State) (remote : Remote) :
    Neutral s (continueBacklog s remote) := by
  unfold continueBacklog
  split
  · exact Neutral_refl s
  · split
    · exact Neutral_refl s
    · exact drainBacklog_Neutral remote _ s

theorem dispatchOut_Neutral (s : State) (remote : Remote) (w : Wire) (mon : Monitor) (k : Nat) :
    Neutral s (dispatchOut s remote w mon k) := by
  unfold dispatchOut
  split
  · exact ⟨rfl, NoTerm_nil⟩
  · exact sendInitially_Neutral _ _ _ _ _

theorem sendMessage_Neutral (s : State) (remote : Remote) (mc : Bool) (token : Token) (m : OutMsg)
    (wasNon : Bool) (mon : Monitor) :
    Neutral s ((sendMessage s remote mc token m wasNon mon).1, (sendMessage s remote mc token m wasNon mon).2.1) := by
  unfold sendMessage
  split
  · rename_i p _
    split
    · have := sendInitially_Neutral (dropPiggy s remote token) remote
        { mtype := .ack, code := 0, mid := p.mid, token := [], obs := none, body := 0 } mon m.maxRetr
      exact ⟨this.og, this.nt⟩
    · have := dispatchOut_Neutral (dropPiggy s remote token) remote
        { mtype := .ack, code := m.code, mid := p.mid, token, obs := m.obs, body := m.body } mon m.maxRetr
      exact ⟨this.og, this.nt⟩
  · split
    · exact Neutral_refl s
    · dsimp only
      split
      · exact Neutral_refl s
      · have := dispatchOut_Neutral (takeMid s).2 remote
          { mtype := chooseType s mc wasNon m, code := m.code, mid := (takeMid s).1, token,
            obs := m.obs, body := m.body } mon m.maxRetr
        exact ⟨this.og, this.nt⟩

theorem sendBare_Neutral (s : State) (remote : Remote) (t : MType) (mid : Nat) :
    Neutral s (sendBare s remote t mid) := sendInitially_Neutral _ _ _ _ _

theorem fireEmptyAck_Neutral (s : State) (remote : Remote) (token : Token) :
    Neutral s (fireEmptyAck s remote token) := by
  unfold fireEmptyAck
  split
  · exact Neutral_refl s
  · have := sendBare_Neutral (dropPiggy s remote token) remote .ack ‹Piggy›.mid
    exact ⟨this.og, this.nt⟩

theorem tokenProcessRequest_Neutral (s : State) (remote : Remote) (w : Wire) :
    Neutral s (tokenProcessRequest s remote w) := by
  unfold tokenProcessRequest
  simp only
  refine ⟨?_, ?_⟩
  · split <;> rfl
  · intro o ho
    split at ho <;>
      simp only [List.mem_append, List.mem_singleton, List.mem_cons, List.not_mem_nil, or_false,
        false_or] at ho <;>
      (try rcases ho with rfl | rfl) <;> (try subst ho) <;> rfl

theorem processRequest_Neutral (s : State) (remote : Remote) (w : Wire) :
    Neutral s (processRequest s remote w) := by
  have h0 := fireEmptyAck_Neutral s remote w.token
  unfold processRequest
  simp only
  generalize fireEmptyAck s remote w.token = r0 at h0
  split
  · have h1 := tokenProcessRequest_Neutral
      { r0.1 with piggy := r0.1.piggy ++ [{ remote, token := w.token, mid := w.mid,
                                             fireAt := r0.1.now + r0.1.cfg.emptyAckDelay }] } remote w
    exact ⟨h1.og.trans h0.og, NoTerm_append h0.nt h1.nt⟩
  · exact h0.trans (tokenProcessRequest_Neutral r0.1 remote w)

-- functions that do touch the request table -----------------------------------------------------

/-- each terminal event for `r` consumes an entry of `r` -/
def Acct (r : Nat) (s : State) (res : State × List Out) : Prop :=
  termCount r res.2 + outCount res.1 r ≤ outCount s r

theorem Acct_of_Neutral {r : Nat} {s : State} {res : State × List Out} (h : Neutral s res) :
    Acct r s res := by
  simp only [Acct, termCount_of_NoTerm h.nt, outCount, h.og]; omega

theorem Acct.trans {r : Nat} {s : State} {r1 r2 : State × List Out}
    (h1 : Acct r s r1) (h2 : Acct r r1.1 r2) : Acct r s (r2.1, r1.2 ++ r2.2) := by
  simp only [Acct, termCount_append] at *; omega

theorem outCount_dropOutgoing (s : State) (r r' : Nat) :
    outCount (dropOutgoing s r') r = if r' = r then 0 else outCount s r := by
  simp only [outCount, dropOutgoing, List.countP_filter]
  split
  · rename_i h; subst h
    rw [List.countP_eq_zero]; intro o _; simp
  · rename_i h
    congr 1; funext o
    by_cases ho : o.req = r
    · have : ¬ r = r' := fun e => h e.symm
      simp [ho, this]
    · simp [ho]

theorem runMonitor_Acct (r : Nat) (s : State) (m : Monitor) : Acct r s (runMonitor s m) := by
  unfold runMonitor
  cases m with
  | req r' =>
    simp only
    split
    · rename_i hany
      simp only [Acct, termCount, outCount_dropOutgoing, List.countP_cons, List.countP_nil, isTerm]
      by_cases e : r' = r
      · subst e
        have : 0 < outCount s r' := by
          simp only [outCount, List.countP_pos_iff]
          simpa [List.any_eq_true] using hany
        simp; omega
      · simp [e]
    · exact Acct_of_Neutral (Neutral_refl s)
  | srv sv =>
    simp only
    split
    · refine Acct_of_Neutral ⟨rfl, ?_⟩
      intro o ho; simp only [List.mem_singleton] at ho; subst ho; rfl
    · exact Acct_of_Neutral (Neutral_refl s)
  | none => exact Acct_of_Neutral (Neutral_refl s)

theorem termCount_map_fail (r : Nat) (l : List OutReq) (k : ErrKind) :
    termCount r (l.map (fun o => Out.fail o.req k)) = l.countP (fun o => o.req == r) := by
  simp [termCount, List.countP_map, Function.comp_def, isTerm]

theorem termCount_map_stop (r : Nat) (l : List InReq) :
    termCount r (l.map (fun i => Out.stop i.srv)) = 0 := by
  simp [termCount, List.countP_map, Function.comp_def, isTerm]

theorem tokenDispatchError_Acct (r : Nat) (s : State) (remote : Remote) (k : ErrKind) :
    Acct r s (tokenDispatchError s remote k) := by
  unfold tokenDispatchError
  split
  · exact Acct_of_Neutral (Neutral_refl s)
  · simp only [Acct, termCount_append, termCount_map_fail, termCount_map_stop, outCount,
      List.countP_filter, Nat.add_zero]
    induction s.outgoing with
    | nil => simp
    | cons o os ih =>
      simp only [List.countP_cons]
      by_cases h1 : o.req = r <;> by_cases h2 : o.remote = some remote <;> simp [h1, h2] <;> omega

theorem processResponse_Acct (r : Nat) (s : State) (remote : Remote) (w : Wire) :
    Acct r s ((processResponse s remote w).1, (processResponse s remote w).2.1) := by
  unfold processResponse
  simp only
  split
  · exact Acct_of_Neutral (Neutral_refl s)
  · rename_i o hhit
    have hmem : o ∈ s.outgoing := by
      split at hhit
      · rename_i o' h1; cases hhit; exact List.mem_of_find?_eq_some h1
      · exact List.mem_of_find?_eq_some hhit
    by_cases hf : (!(o.observing && w.obs.isSome && isSuccessful w.code)) = true
    · simp only [hf, ↓reduceIte, Acct, termCount, List.countP_cons, List.countP_nil, isTerm,
        outCount_dropOutgoing]
      by_cases e : o.req = r
      · have : 0 < outCount s r := by
          simp only [outCount, List.countP_pos_iff]
          exact ⟨o, hmem, by simp [e]⟩
        simp [e]; omega
      · simp [e]
    · have hf' : (!(o.observing && w.obs.isSome && isSuccessful w.code)) = false := by
        cases hb : (!(o.observing && w.obs.isSome && isSuccessful w.code))
        · rfl
        · exact absurd hb hf
      simp only [hf', Bool.false_eq_true, ↓reduceIte, Acct, termCount, List.countP_cons,
        List.countP_nil, isTerm, Bool.and_false]
      simp

end Aiocoap.MsgLayer

namespace Aiocoap.MsgLayer

theorem Acct_of_outgoing {r : Nat} {s s' : State} {res : State × List Out} (h : Acct r s res)
    (e : s'.outgoing = s.outgoing) : Acct r s' res := by
  simp only [Acct, outCount, e] at *; exact h

theorem removeExchange_Acct (r : Nat) (s : State) (remote : Remote) (w : Wire) :
    Acct r s (removeExchange s remote w) := by
  unfold removeExchange
  split
  · exact Acct_of_Neutral (Neutral_refl s)
  · rename_i e _
    simp only
    have h1 : Acct r s (if w.mtype == .rst then runMonitor (dropExchange s remote w.mid) e.monitor
        else (dropExchange s remote w.mid, [])) := by
      split
      · exact Acct_of_outgoing (runMonitor_Acct r (dropExchange s remote w.mid) e.monitor) rfl
      · exact Acct_of_Neutral ⟨rfl, NoTerm_nil⟩
    exact h1.trans (Acct_of_Neutral (continueBacklog_Neutral _ remote))

theorem recvCode_Acct (r : Nat) (s : State) (remote : Remote) (mcLocal : Bool) (w : Wire) :
    Acct r s (recvCode s remote mcLocal w) := by
  have hp := processResponse_Acct r s remote w
  unfold recvCode
  split
  · exact Acct_of_Neutral (sendBare_Neutral _ _ _ _)
  · split
    · exact Acct_of_Neutral (Neutral_refl s)
    · split
      · exact Acct_of_Neutral (processRequest_Neutral _ _ _)
      · split
        · dsimp only
          split
          · split
            · exact hp.trans (Acct_of_Neutral (sendBare_Neutral _ remote .ack w.mid))
            · exact hp
          · split
            · have := hp.trans (Acct_of_Neutral (sendBare_Neutral (processResponse s remote w).1 remote .rst w.mid))
              -- the unmatched branch discards the (empty) response outputs
              simp only [Acct, termCount_append] at this ⊢
              omega
            · exact hp
        · exact Acct_of_Neutral (Neutral_refl s)

theorem recv_Acct (r : Nat) (s : State) (remote : Remote) (mcLocal : Bool) (w : Wire) :
    Acct r s (recv s remote mcLocal w) := by
  unfold recv
  split
  · unfold recvDup
    split
    · split
      · exact Acct_of_Neutral (sendInitially_Neutral _ _ _ _ _)
      · exact Acct_of_Neutral (Neutral_refl s)
    · exact Acct_of_Neutral (Neutral_refl s)
  · dsimp only
    generalize hs0 : (if dedupable w = true then
        ({ s with recent := s.recent ++ [(⟨remote, w.mid, none, s.now + s.cfg.exchangeLifetime⟩ : Recent)] } : State)
        else s) = s0
    have e0 : s0.outgoing = s.outgoing := by
      rw [← hs0]; split <;> rfl
    generalize hx : (if fitsReply w = true then removeExchange s0 remote w
        else (s0, [])) = x
    have h1 : Acct r s x := by
      rw [← hx]
      split
      · exact Acct_of_outgoing (removeExchange_Acct r s0 remote w) e0.symm
      · exact Acct_of_Neutral ⟨e0, NoTerm_nil⟩
    exact h1.trans (recvCode_Acct r x.1 remote mcLocal w)

theorem dispatchError_Acct (r : Nat) (s : State) (remote : Remote) : Acct r s (dispatchError s remote) := by
  unfold dispatchError
  split
  · exact Acct_of_Neutral (Neutral_refl s)
  · have := tokenDispatchError_Acct r s remote .networkError
    simpa [Acct, outCount, dropBacklog] using this

theorem fireRetransmit_Acct (r : Nat) (s : State) (remote : Remote) (mid : Nat) :
    Acct r s (fireRetransmit s remote mid) := by
  unfold fireRetransmit
  split
  · exact Acct_of_Neutral (Neutral_refl s)
  · dsimp only
    split
    · refine Acct_of_Neutral ⟨rfl, ?_⟩
      intro o ho; simp only [List.mem_singleton] at ho; subst ho; rfl
    · exact Acct_of_outgoing (tokenDispatchError_Acct r (dropBacklog (dropExchange s remote mid) remote)
        remote .conRetransmitsExceeded) rfl

theorem fireEmptyAck_Acct (r : Nat) (s : State) (remote : Remote) (token : Token) :
    Acct r s (fireEmptyAck s remote token) := by
  unfold fireEmptyAck
  split
  · exact Acct_of_Neutral (Neutral_refl s)
  · exact Acct_of_outgoing (Acct_of_Neutral (sendBare_Neutral (dropPiggy s remote token) remote .ack _)) rfl

theorem respond_Acct (r : Nat) (s : State) (sv : Nat) (m : OutMsg) (isLast : Bool) :
    Acct r s (respond s sv m isLast) := by
  unfold respond
  split
  · exact Acct_of_Neutral (Neutral_refl s)
  · rename_i i _
    have := sendMessage_Neutral s i.remote false i.token m i.wasNon (.srv sv)
    dsimp only
    split
    · exact Acct_of_Neutral ⟨this.og, this.nt⟩
    · exact Acct_of_Neutral ⟨this.og, this.nt⟩

theorem shutdown_Acct (r : Nat) (s : State) : Acct r s (shutdown s) := by
  unfold shutdown
  split
  · exact Acct_of_Neutral (Neutral_refl s)
  · simp [Acct, termCount_append, termCount_map_fail, termCount_map_stop, outCount]

/-- submitting request `r'` adds one entry for `r'` -/
theorem submit_Acct (r : Nat) (s : State) (r' : Nat) (remote : Remote) (mc ob : Bool) (m : OutMsg) :
    termCount r (submit s r' remote mc ob m).2 + outCount (submit s r' remote mc ob m).1 r ≤
      outCount s r + (if r' = r then 1 else 0) := by
  unfold submit
  split
  · simp only [termCount, List.countP_cons, List.countP_nil, isTerm]
    by_cases e : r' = r <;> simp [e] <;> omega
  · have hreg : outCount (registerOutgoing s r' remote mc ob) r = outCount s r + (if r' = r then 1 else 0) := by
      simp only [outCount, registerOutgoing, List.countP_append, List.countP_cons, List.countP_nil]
      by_cases e : r' = r <;> simp [e]
    have hn := sendMessage_Neutral (registerOutgoing s r' remote mc ob) remote mc (nextToken s) m false (.req r')
    rcases hsm : sendMessage (registerOutgoing s r' remote mc ob) remote mc (nextToken s) m false (.req r')
      with ⟨s2, o, res⟩
    rw [hsm] at hn
    have hog : outCount s2 r = outCount (registerOutgoing s r' remote mc ob) r := by
      simp only [outCount]; rw [hn.og]
    have hnt : termCount r o = 0 := termCount_of_NoTerm hn.nt r
    simp only [hsm]
    cases res with
    | conToMulticast =>
      simp only [termCount_append, outCount_dropOutgoing, hnt]
      simp only [termCount, List.countP_cons, List.countP_nil, isTerm]
      by_cases e : r' = r
      · subst e; simp
      · simp [e] at hreg ⊢; omega
    | sent => simp only [hnt]; omega
    | suppressed => simp only [hnt]; omega

theorem handle_Acct (r : Nat) (s : State) (ev : Ev) :
    termCount r (handle s ev).2 + outCount (handle s ev).1 r ≤
      outCount s r + (match ev with | .submit r' _ _ _ _ => if r' = r then 1 else 0 | _ => 0) := by
  cases ev with
  | submit r' remote mc ob m => exact submit_Acct r s r' remote mc ob m
  | recv remote mcl w =>
    simp only [handle]; split
    · simp [termCount]
    · exact recv_Acct r s remote mcl w
  | respond sv m il => exact respond_Acct r s sv m il
  | appCancel r' =>
    simp only [handle, appCancel, termCount, List.countP_nil, Nat.zero_add, Nat.add_zero,
      outCount_dropOutgoing]
    try (split <;> omega)
  | error remote => exact dispatchError_Acct r s remote
  | fireRetransmit remote mid => exact fireRetransmit_Acct r s remote mid
  | fireEmptyAck remote token => exact fireEmptyAck_Acct r s remote token
  | fireExpire remote mid => simp [handle, fireExpire, termCount, outCount]
  | shutdown => exact shutdown_Acct r s

/-- number of times request `r` is submitted in a run -/
def submitCount (r : Nat) (es : List TEv) : Nat :=
  es.countP fun e => match e.ev with | .submit r' _ _ _ _ => r' == r | _ => false

/-- over a whole run: terminal events for `r` ≤ entries for `r` at the start + submissions of `r` -/
theorem run_Acct (r : Nat) (s : State) (es : List TEv) :
    termCount r (run s es).2 + outCount (run s es).1 r ≤ outCount s r + submitCount r es := by
  induction es generalizing s with
  | nil => simp [run, termCount, submitCount]
  | cons e es ih =>
    simp only [run, termCount_append]
    have h1 := handle_Acct r (setNow s e.time) e.ev
    have h2 := ih (step s e).1
    have h3 : outCount (setNow s e.time) r = outCount s r := rfl
    have h4 : submitCount r (e :: es) = submitCount r es +
        (match e.ev with | .submit r' _ _ _ _ => if r' = r then 1 else 0 | _ => 0) := by
      simp only [submitCount, List.countP_cons]
      cases e.ev <;> simp
    simp only [step] at h2 ⊢
    omega

end Aiocoap.MsgLayer
