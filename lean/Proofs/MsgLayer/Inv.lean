import Proofs.MsgLayer.Recent
/-! The global invariant of the message-layer model, preserved by every event. -/
namespace Aiocoap.MsgLayer

structure Inv (s : State) : Prop where
  n : NInv s
  r : RInv s

theorem Inv_of_fields {s s' : State} (h : Inv s) (he : s'.exchanges = s.exchanges)
    (hb : s'.backlogs = s.backlogs) (hr : s'.recent = s.recent) : Inv s' :=
  ⟨NInv_of_tables h.n he hb, RInv_of_recent h.r hr⟩

theorem storedReply_nonCon {s : State} (h : RInv s) {remote : Remote} {mid : Nat} {w : Wire}
    (hs : storedReply s remote mid = some w) : w.mtype ≠ .con := by
  unfold storedReply at hs
  cases hf : s.recent.find? (fun r => r.remote == remote && r.mid == mid) with
  | none => simp [hf] at hs
  | some r =>
    simp only [hf, Option.bind_some] at hs
    exact h r (List.mem_of_find?_eq_some hf) w hs

theorem recvDup_Inv {s : State} (h : Inv s) (remote : Remote) (w : Wire) :
    Inv (recvDup s remote w).1 := by
  unfold recvDup
  split
  · split
    · rename_i reply hs
      exact ⟨NInv_sendInitially_nonCon h.n _ _ _ _ (storedReply_nonCon h.r hs),
             sendInitially_RInv h.r _ _ _ _⟩
    · exact h
  · exact h

theorem processRequest_Inv {s : State} (h : Inv s) (remote : Remote) (w : Wire) :
    Inv (processRequest s remote w).1 :=
  ⟨NInv_of_tables h.n (processRequest_tables s remote w).1 (processRequest_tables s remote w).2,
   processRequest_RInv h.r remote w⟩

theorem processResponse_Inv {s : State} (h : Inv s) (remote : Remote) (w : Wire) :
    Inv (processResponse s remote w).1 :=
  Inv_of_fields h (processResponse_tables s remote w).1 (processResponse_tables s remote w).2
    (processResponse_recent s remote w)

theorem sendBare_Inv {s : State} (h : Inv s) (remote : Remote) (t : MType) (mid : Nat)
    (ht : t ≠ .con) : Inv (sendBare s remote t mid).1 :=
  ⟨sendBare_NInv h.n remote t mid ht, sendBare_RInv h.r remote t mid⟩

theorem recvCode_Inv {s : State} (h : Inv s) (remote : Remote) (mcLocal : Bool) (w : Wire) :
    Inv (recvCode s remote mcLocal w).1 := by
  unfold recvCode
  split
  · exact sendBare_Inv h _ _ _ (by simp)
  · split
    · exact h
    · split
      · exact processRequest_Inv h _ _
      · split
        · dsimp only
          split
          · split
            · exact sendBare_Inv (processResponse_Inv h _ _) remote .ack w.mid (by simp)
            · exact processResponse_Inv h _ _
          · split
            · exact sendBare_Inv (processResponse_Inv h _ _) remote .rst w.mid (by simp)
            · exact processResponse_Inv h _ _
        · exact h

theorem removeExchange_Inv {s : State} (h : Inv s) (remote : Remote) (w : Wire) :
    Inv (removeExchange s remote w).1 :=
  ⟨removeExchange_NInv h.n remote w, removeExchange_RInv h.r remote w⟩

theorem recv_Inv {s : State} (h : Inv s) (remote : Remote) (mcLocal : Bool) (w : Wire) :
    Inv (recv s remote mcLocal w).1 := by
  unfold recv
  split
  · exact recvDup_Inv h _ _
  · dsimp only
    apply recvCode_Inv
    have h0 : Inv (if dedupable w = true then
        { s with recent := s.recent ++ [{ remote, mid := w.mid, reply := none,
                                          expiry := s.now + s.cfg.exchangeLifetime }] } else s) := by
      split
      · refine ⟨NInv_of_tables h.n rfl rfl, ?_⟩
        intro r hr w' hw'
        simp only [List.mem_append, List.mem_singleton] at hr
        rcases hr with hr | rfl
        · exact h.r r hr w' hw'
        · cases hw'
      · exact h
    split
    · exact removeExchange_Inv h0 _ _
    · exact h0

theorem dispatchError_Inv {s : State} (h : Inv s) (remote : Remote) : Inv (dispatchError s remote).1 := by
  unfold dispatchError
  split
  · exact h
  · dsimp only
    have h1 := Inv_of_fields h (tokenDispatchError_tables s remote .networkError).1
      (tokenDispatchError_tables s remote .networkError).2 (tokenDispatchError_recent s remote _)
    generalize (tokenDispatchError s remote ErrKind.networkError).1 = s1 at h1
    refine ⟨⟨?_, ?_, ?_⟩, RInv_of_recent h1.r rfl⟩
    · exact List.Nodup.sublist (List.filter_sublist.map _) h1.n.exNodup
    · exact List.Nodup.sublist (List.filter_sublist.map _) h1.n.blNodup
    · intro x
      simp only [blK, exR, dropBacklog, List.mem_map, List.mem_filter]
      constructor
      · rintro ⟨b, ⟨hb, hp⟩, rfl⟩
        have : b.1 ∈ exR s1 := (h1.n.iff b.1).mp (List.mem_map.mpr ⟨b, hb, rfl⟩)
        obtain ⟨e, he, hre⟩ := List.mem_map.mp this
        exact ⟨e, ⟨he, by rw [hre]; exact hp⟩, hre⟩
      · rintro ⟨e, ⟨he, hp⟩, rfl⟩
        have : e.remote ∈ blK s1 := (h1.n.iff e.remote).mpr (List.mem_map.mpr ⟨e, he, rfl⟩)
        obtain ⟨b, hb, hbr⟩ := List.mem_map.mp this
        exact ⟨b, ⟨hb, by rw [hbr]; exact hp⟩, hbr⟩

theorem fireRetransmit_Inv {s : State} (h : Inv s) (remote : Remote) (mid : Nat) :
    Inv (fireRetransmit s remote mid).1 := by
  unfold fireRetransmit
  split
  · exact h
  · rename_i e hf
    have hp := PreInv_remove h.n hf
    have hkey : e.remote = remote := by
      have := List.find?_some hf
      simp at this; exact this.1
    dsimp only
    split
    · -- retransmission: the exchange comes back (same remote) at the end of the table
      have hbl : blK (dropExchange s remote mid) = blK s := rfl
      refine ⟨⟨?_, hp.blNodup, ?_⟩, RInv_of_recent h.r rfl⟩
      · show (List.map (·.remote) ((dropExchange s remote mid).exchanges ++ [e.next s.now])).Nodup
        simp only [List.map_append, List.map_cons, List.map_nil]
        exact nodup_snoc hp.exNodup (by simpa [Exchange.next, hkey, exR] using hp.noEx)
      · intro x
        show x ∈ blK (dropExchange s remote mid) ↔
          x ∈ List.map (·.remote) ((dropExchange s remote mid).exchanges ++ [e.next s.now])
        simp only [List.map_append, List.map_cons, List.map_nil, List.mem_append,
          List.mem_singleton, Exchange.next, hkey]
        by_cases hx : x = remote
        · subst hx
          have : x ∈ blK s := (h.n.iff x).mpr (by
            simp only [exR, List.mem_map]
            exact ⟨e, List.mem_of_find?_eq_some hf, hkey⟩)
          simp only [or_true, iff_true]
          rw [hbl]; exact this
        · have := hp.iff x hx
          simp only [exR] at this
          simp [hx, this]
    · -- give-up: exchange and backlog of `remote` are dropped, requests fail
      have hd : Inv (dropBacklog (dropExchange s remote mid) remote) := by
        refine ⟨⟨hp.exNodup, List.Nodup.sublist (List.filter_sublist.map _) hp.blNodup, ?_⟩, ?_⟩
        · intro x
          simp only [blK, dropBacklog, List.mem_map, List.mem_filter]
          by_cases hx : x = remote
          · subst hx
            constructor
            · rintro ⟨b, ⟨_, hp'⟩, rfl⟩; simp at hp'
            · intro hin; exact absurd hin hp.noEx
          · have := hp.iff x hx
            simp only [blK, List.mem_map] at this
            constructor
            · rintro ⟨b, ⟨hb, _⟩, rfl⟩; exact this.mp ⟨b, hb, rfl⟩
            · intro hin
              obtain ⟨b, hb, rfl⟩ := this.mpr hin
              exact ⟨b, ⟨hb, by simpa using hx⟩, rfl⟩
        · exact RInv_of_recent h.r rfl
      exact Inv_of_fields hd (tokenDispatchError_tables _ remote _).1
        (tokenDispatchError_tables _ remote _).2 (tokenDispatchError_recent _ remote _)

end Aiocoap.MsgLayer

namespace Aiocoap.MsgLayer

theorem fireEmptyAck_Inv {s : State} (h : Inv s) (remote : Remote) (token : Token) :
    Inv (fireEmptyAck s remote token).1 := by
  unfold fireEmptyAck
  split
  · exact h
  · exact sendBare_Inv (s := dropPiggy s remote token) (Inv_of_fields h rfl rfl rfl) remote .ack _ (by simp)

theorem fireExpire_Inv {s : State} (h : Inv s) (remote : Remote) (mid : Nat) :
    Inv (fireExpire s remote mid).1 := by
  unfold fireExpire
  refine ⟨NInv_of_tables h.n rfl rfl, ?_⟩
  intro r hr w hw
  exact h.r r (List.mem_filter.mp hr).1 w hw

theorem sendMessage_Inv {s : State} (h : Inv s) (remote : Remote) (mc : Bool) (token : Token)
    (m : OutMsg) (wasNon : Bool) (mon : Monitor) :
    Inv (sendMessage s remote mc token m wasNon mon).1 :=
  ⟨sendMessage_NInv h.n _ _ _ _ _ _, sendMessage_RInv h.r _ _ _ _ _ _⟩

theorem submit_Inv {s : State} (h : Inv s) (r : Nat) (remote : Remote) (mc observing : Bool)
    (m : OutMsg) : Inv (submit s r remote mc observing m).1 := by
  unfold submit
  split
  · exact h
  · dsimp only
    have h1 : Inv (registerOutgoing s r remote mc observing) := Inv_of_fields h rfl rfl rfl
    have h2 := sendMessage_Inv h1 remote mc (nextToken s) m false (.req r)
    split
    · exact Inv_of_fields h2 rfl rfl rfl
    · exact h2

theorem respond_Inv {s : State} (h : Inv s) (sv : Nat) (m : OutMsg) (isLast : Bool) :
    Inv (respond s sv m isLast).1 := by
  unfold respond
  split
  · exact h
  · rename_i i _
    dsimp only
    have h2 := sendMessage_Inv h i.remote false i.token m i.wasNon (.srv sv)
    split
    · exact Inv_of_fields h2 rfl rfl rfl
    · exact h2

theorem appCancel_Inv {s : State} (h : Inv s) (r : Nat) : Inv (appCancel s r).1 :=
  Inv_of_fields h rfl rfl rfl

theorem shutdown_Inv {s : State} (h : Inv s) : Inv (shutdown s).1 := by
  unfold shutdown
  split
  · exact h
  · exact ⟨⟨List.nodup_nil, List.nodup_nil, fun x => by simp [blK, exR]⟩, RInv_of_recent h.r rfl⟩

theorem handle_Inv {s : State} (h : Inv s) (ev : Ev) : Inv (handle s ev).1 := by
  cases ev with
  | submit r remote mc ob m => exact submit_Inv h _ _ _ _ _
  | recv remote mcl w =>
    simp only [handle]; split
    · exact h
    · exact recv_Inv h _ _ _
  | respond sv m il => exact respond_Inv h _ _ _
  | appCancel r => exact appCancel_Inv h _
  | error remote => exact dispatchError_Inv h _
  | fireRetransmit remote mid => exact fireRetransmit_Inv h _ _
  | fireEmptyAck remote token => exact fireEmptyAck_Inv h _ _
  | fireExpire remote mid => exact fireExpire_Inv h _ _
  | shutdown => exact shutdown_Inv h

theorem step_Inv {s : State} (h : Inv s) (e : TEv) : Inv (step s e).1 := by
  unfold step
  exact handle_Inv (s := setNow s e.time) (Inv_of_fields h rfl rfl rfl) e.ev

theorem run_Inv {s : State} (h : Inv s) (es : List TEv) : Inv (run s es).1 := by
  induction es generalizing s with
  | nil => exact h
  | cons e es ih => simp only [run]; exact ih (step_Inv h e)

theorem init_Inv (cfg : Cfg) (mid token : Nat) (f : Nat → Nat) : Inv (init cfg mid token f) :=
  ⟨⟨List.nodup_nil, List.nodup_nil, fun x => by simp [blK, exR, init]⟩,
   fun r hr => by simp [init] at hr⟩

end Aiocoap.MsgLayer
