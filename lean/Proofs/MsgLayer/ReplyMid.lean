import Proofs.MsgLayer.Inv
/-!
A strengthening of `RInv`: the reply stored in an entry of the deduplication table carries the
message ID the entry is keyed by (`storeReply` only writes under `r.mid == w.mid`).  Hence the
reply repeated to a duplicate CON has the duplicate's own message ID.
-/
namespace Aiocoap.MsgLayer

def RMid (s : State) : Prop := ∀ r ∈ s.recent, ∀ w, r.reply = some w → w.mid = r.mid

theorem RMid_of_recent {s s' : State} (h : RMid s) (e : s'.recent = s.recent) : RMid s' := by
  intro r hr; rw [e] at hr; exact h r hr

theorem init_RMid (cfg : Cfg) (mid token : Nat) (f : Nat → Nat) : RMid (init cfg mid token f) :=
  fun r hr => by simp [init] at hr

theorem storeReply_RMid {s : State} (h : RMid s) (remote : Remote) (w : Wire) :
    RMid (storeReply s remote w) := by
  unfold storeReply
  split
  · intro r hr w' hw'
    simp only [List.mem_map] at hr
    obtain ⟨r0, hr0, rfl⟩ := hr
    by_cases hk : (r0.remote == remote && r0.mid == w.mid) = true
    · simp only [hk, ↓reduceIte, Option.some.injEq] at hw' ⊢
      subst hw'
      simp only [Bool.and_eq_true, beq_iff_eq] at hk
      exact hk.2.symm
    · simp only [hk] at hw' ⊢
      exact h r0 hr0 w' hw'
  · exact h

theorem sendInitially_RMid {s : State} (h : RMid s) (r : Remote) (w : Wire) (m : Monitor) (k : Nat) :
    RMid (sendInitially s r w m k).1 := by
  unfold sendInitially
  apply storeReply_RMid
  split
  · exact RMid_of_recent h rfl
  · exact h

theorem drainBacklog_RMid (remote : Remote) (l : List Queued) :
    ∀ s : State, RMid s → RMid (drainBacklog s remote l).1 := by
  induction l with
  | nil => intro s h; exact RMid_of_recent h rfl
  | cons qd rest ih =>
    intro s h
    simp only [drainBacklog]
    have h1 : RMid ({ s with backlogs := setBacklog s.backlogs remote rest } : State) :=
      RMid_of_recent h rfl
    have h2 := sendInitially_RMid h1 remote qd.msg qd.monitor qd.maxRetr
    split
    · exact h2
    · exact ih _ h2

theorem continueBacklog_RMid {s : State} (h : RMid s) (remote : Remote) :
    RMid (continueBacklog s remote).1 := by
  unfold continueBacklog
  split
  · exact h
  · split
    · exact h
    · exact drainBacklog_RMid remote _ s h

theorem removeExchange_RMid {s : State} (h : RMid s) (remote : Remote) (w : Wire) :
    RMid (removeExchange s remote w).1 := by
  unfold removeExchange
  split
  · exact h
  · simp only
    apply continueBacklog_RMid
    split
    · exact RMid_of_recent (RMid_of_recent h rfl) (runMonitor_recent _ _)
    · exact RMid_of_recent h rfl

theorem dispatchOut_RMid {s : State} (h : RMid s) (remote : Remote) (w : Wire) (mon : Monitor)
    (k : Nat) : RMid (dispatchOut s remote w mon k).1 := by
  unfold dispatchOut
  split
  · exact RMid_of_recent h rfl
  · exact sendInitially_RMid h _ _ _ _

theorem sendMessage_RMid {s : State} (h : RMid s) (remote : Remote) (mc : Bool) (token : Token)
    (m : OutMsg) (wasNon : Bool) (mon : Monitor) :
    RMid (sendMessage s remote mc token m wasNon mon).1 := by
  have hp : RMid (dropPiggy s remote token) := RMid_of_recent h rfl
  have ht : RMid (takeMid s).2 := RMid_of_recent h rfl
  unfold sendMessage
  split
  · split
    · exact sendInitially_RMid hp _ _ _ _
    · exact dispatchOut_RMid hp _ _ _ _
  · split
    · exact h
    · dsimp only
      split
      · exact h
      · exact dispatchOut_RMid ht _ _ _ _

theorem sendBare_RMid {s : State} (h : RMid s) (remote : Remote) (t : MType) (mid : Nat) :
    RMid (sendBare s remote t mid).1 := sendInitially_RMid h _ _ _ _

theorem fireEmptyAck_RMid {s : State} (h : RMid s) (remote : Remote) (token : Token) :
    RMid (fireEmptyAck s remote token).1 := by
  unfold fireEmptyAck
  split
  · exact h
  · exact sendBare_RMid (s := dropPiggy s remote token) (RMid_of_recent h rfl) _ _ _

theorem recvDup_RMid {s : State} (h : RMid s) (remote : Remote) (w : Wire) :
    RMid (recvDup s remote w).1 := by
  unfold recvDup
  split
  · split
    · exact sendInitially_RMid h _ _ _ _
    · exact h
  · exact h

theorem recvCode_RMid {s : State} (h : RMid s) (remote : Remote) (mcLocal : Bool) (w : Wire) :
    RMid (recvCode s remote mcLocal w).1 := by
  have hpr : RMid (processResponse s remote w).1 := RMid_of_recent h (processResponse_recent s remote w)
  unfold recvCode
  split
  · exact sendBare_RMid h _ _ _
  · split
    · exact h
    · split
      · exact RMid_of_recent (fireEmptyAck_RMid h remote w.token) (processRequest_recent s remote w)
      · split
        · dsimp only
          split
          · split
            · exact sendBare_RMid hpr _ _ _
            · exact hpr
          · split
            · exact sendBare_RMid hpr _ _ _
            · exact hpr
        · exact h

theorem recv_RMid {s : State} (h : RMid s) (remote : Remote) (mcLocal : Bool) (w : Wire) :
    RMid (recv s remote mcLocal w).1 := by
  unfold recv
  split
  · exact recvDup_RMid h _ _
  · dsimp only
    apply recvCode_RMid
    have h0 : RMid (if dedupable w = true then
        { s with recent := s.recent ++ [{ remote, mid := w.mid, reply := none,
                                          expiry := s.now + s.cfg.exchangeLifetime }] } else s) := by
      split
      · intro r hr w' hw'
        simp only [List.mem_append, List.mem_singleton] at hr
        rcases hr with hr | rfl
        · exact h r hr w' hw'
        · cases hw'
      · exact h
    split
    · exact removeExchange_RMid h0 _ _
    · exact h0

theorem dispatchError_RMid {s : State} (h : RMid s) (remote : Remote) :
    RMid (dispatchError s remote).1 := by
  unfold dispatchError
  split
  · exact h
  · dsimp only
    have h1 := RMid_of_recent h (tokenDispatchError_recent s remote .networkError)
    generalize (tokenDispatchError s remote ErrKind.networkError).1 = s1 at h1
    exact RMid_of_recent h1 rfl

theorem fireRetransmit_RMid {s : State} (h : RMid s) (remote : Remote) (mid : Nat) :
    RMid (fireRetransmit s remote mid).1 := by
  unfold fireRetransmit
  split
  · exact h
  · dsimp only
    split
    · exact RMid_of_recent h rfl
    · exact RMid_of_recent (s := dropBacklog (dropExchange s remote mid) remote)
        (RMid_of_recent h rfl) (tokenDispatchError_recent _ remote _)

theorem fireExpire_RMid {s : State} (h : RMid s) (remote : Remote) (mid : Nat) :
    RMid (fireExpire s remote mid).1 := by
  intro r hr w hw
  exact h r (List.mem_filter.mp hr).1 w hw

theorem submit_RMid {s : State} (h : RMid s) (r : Nat) (remote : Remote) (mc observing : Bool)
    (m : OutMsg) : RMid (submit s r remote mc observing m).1 := by
  unfold submit
  split
  · exact h
  · dsimp only
    have h1 : RMid (registerOutgoing s r remote mc observing) := RMid_of_recent h rfl
    have h2 := sendMessage_RMid h1 remote mc (nextToken s) m false (.req r)
    split
    · exact RMid_of_recent h2 rfl
    · exact h2

theorem respond_RMid {s : State} (h : RMid s) (sv : Nat) (m : OutMsg) (isLast : Bool) :
    RMid (respond s sv m isLast).1 := by
  unfold respond
  split
  · exact h
  · rename_i i _
    dsimp only
    have h2 := sendMessage_RMid h i.remote false i.token m i.wasNon (.srv sv)
    split
    · exact RMid_of_recent h2 rfl
    · exact h2

theorem shutdown_RMid {s : State} (h : RMid s) : RMid (shutdown s).1 := by
  unfold shutdown
  split
  · exact h
  · exact RMid_of_recent h rfl

theorem handle_RMid {s : State} (h : RMid s) (ev : Ev) : RMid (handle s ev).1 := by
  cases ev with
  | submit r remote mc ob m => exact submit_RMid h _ _ _ _ _
  | recv remote mcl w =>
    simp only [handle]; split
    · exact h
    · exact recv_RMid h _ _ _
  | respond sv m il => exact respond_RMid h _ _ _
  | appCancel r => exact RMid_of_recent h rfl
  | error remote => exact dispatchError_RMid h _
  | fireRetransmit remote mid => exact fireRetransmit_RMid h _ _
  | fireEmptyAck remote token => exact fireEmptyAck_RMid h _ _
  | fireExpire remote mid => exact fireExpire_RMid h _ _
  | shutdown => exact shutdown_RMid h

theorem step_RMid {s : State} (h : RMid s) (e : TEv) : RMid (step s e).1 := by
  unfold step
  exact handle_RMid (s := setNow s e.time) (RMid_of_recent h rfl) e.ev

theorem run_RMid {s : State} (h : RMid s) (es : List TEv) : RMid (run s es).1 := by
  induction es generalizing s with
  | nil => exact h
  | cons e es ih => simp only [run]; exact ih (step_RMid h e)

/-- the reply repeated to a duplicate carries the duplicate's message ID -/
theorem storedReply_mid {s : State} (h : RMid s) {remote : Remote} {mid : Nat} {w : Wire}
    (hs : storedReply s remote mid = some w) : w.mid = mid := by
  unfold storedReply at hs
  cases hf : s.recent.find? (fun r => r.remote == remote && r.mid == mid) with
  | none => simp [hf] at hs
  | some r =>
    simp only [hf, Option.bind_some] at hs
    have hk := List.find?_some hf
    simp only [Bool.and_eq_true, beq_iff_eq] at hk
    rw [h r (List.mem_of_find?_eq_some hf) w hs]
    exact hk.2

end Aiocoap.MsgLayer
