import Proofs.MsgLayer.Nstart
/-! The deduplication table only ever stores ACKs and RSTs as replies. -/
namespace Aiocoap.MsgLayer

/-- stored replies are never confirmable (the `fix:` for C04 made this an invariant of the code) -/
def RInv (s : State) : Prop := ∀ r ∈ s.recent, ∀ w, r.reply = some w → w.mtype ≠ .con

theorem RInv_of_recent {s s' : State} (h : RInv s) (e : s'.recent = s.recent) : RInv s' := by
  intro r hr; rw [e] at hr; exact h r hr

theorem storeReply_RInv {s : State} (h : RInv s) (remote : Remote) (w : Wire) :
    RInv (storeReply s remote w) := by
  unfold storeReply
  split
  · rename_i hw
    intro r hr w' hw'
    simp only [List.mem_map] at hr
    obtain ⟨r0, hr0, rfl⟩ := hr
    split at hw'
    · simp only [Option.some.injEq] at hw'
      subst hw'
      intro hc; simp [hc] at hw
    · exact h r0 hr0 w' hw'
  · exact h

@[simp] theorem addExchange_recent (s : State) (r : Remote) (w : Wire) (m : Monitor) (k : Nat) :
    (addExchange s r w m k).recent = s.recent := rfl

theorem sendInitially_RInv {s : State} (h : RInv s) (r : Remote) (w : Wire) (m : Monitor) (k : Nat) :
    RInv (sendInitially s r w m k).1 := by
  unfold sendInitially
  apply storeReply_RInv
  split
  · exact RInv_of_recent h rfl
  · exact h

theorem runMonitor_recent (s : State) (m : Monitor) : (runMonitor s m).1.recent = s.recent := by
  unfold runMonitor
  cases m with
  | req r => simp only; split <;> rfl
  | srv sv => simp only; split <;> rfl
  | none => rfl

theorem tokenDispatchError_recent (s : State) (r : Remote) (k : ErrKind) :
    (tokenDispatchError s r k).1.recent = s.recent := by
  unfold tokenDispatchError; split <;> rfl

theorem processResponse_recent (s : State) (r : Remote) (w : Wire) :
    (processResponse s r w).1.recent = s.recent := by
  unfold processResponse
  simp only
  split
  · rfl
  · split <;> rfl

theorem tokenProcessRequest_recent (s : State) (r : Remote) (w : Wire) :
    (tokenProcessRequest s r w).1.recent = s.recent := by
  unfold tokenProcessRequest
  simp only
  split <;> rfl

/-- `_process_request` changes the table only through the empty ACK for a superseded request -/
theorem processRequest_recent (s : State) (r : Remote) (w : Wire) :
    (processRequest s r w).1.recent = (fireEmptyAck s r w.token).1.recent := by
  unfold processRequest
  simp only
  split <;> exact tokenProcessRequest_recent _ r w

theorem sendBare_RInv {s : State} (h : RInv s) (remote : Remote) (t : MType) (mid : Nat) :
    RInv (sendBare s remote t mid).1 := sendInitially_RInv h _ _ _ _

theorem fireEmptyAck_RInv {s : State} (h : RInv s) (remote : Remote) (token : Token) :
    RInv (fireEmptyAck s remote token).1 := by
  unfold fireEmptyAck
  split
  · exact h
  · exact sendBare_RInv (s := dropPiggy s remote token) (RInv_of_recent h rfl) _ _ _

theorem processRequest_RInv {s : State} (h : RInv s) (remote : Remote) (w : Wire) :
    RInv (processRequest s remote w).1 :=
  RInv_of_recent (fireEmptyAck_RInv h remote w.token) (processRequest_recent s remote w)

theorem drainBacklog_RInv (remote : Remote) (l : List Queued) :
    ∀ s : State, RInv s → RInv (drainBacklog s remote l).1 := by
  induction l with
  | nil => intro s h; exact RInv_of_recent h rfl
  | cons qd rest ih =>
    intro s h
    simp only [drainBacklog]
    have h1 : RInv ({ s with backlogs := setBacklog s.backlogs remote rest } : State) :=
      RInv_of_recent h rfl
    have h2 := sendInitially_RInv h1 remote qd.msg qd.monitor qd.maxRetr
    split
    · exact h2
    · exact ih _ h2

theorem continueBacklog_RInv {s : State} (h : RInv s) (remote : Remote) :
    RInv (continueBacklog s remote).1 := by
  unfold continueBacklog
  split
  · exact h
  · split
    · exact h
    · exact drainBacklog_RInv remote _ s h

theorem removeExchange_RInv {s : State} (h : RInv s) (remote : Remote) (w : Wire) :
    RInv (removeExchange s remote w).1 := by
  unfold removeExchange
  split
  · exact h
  · simp only
    apply continueBacklog_RInv
    split
    · exact RInv_of_recent (RInv_of_recent h rfl) (runMonitor_recent _ _)
    · exact RInv_of_recent h rfl

theorem dispatchOut_RInv {s : State} (h : RInv s) (remote : Remote) (w : Wire) (mon : Monitor)
    (k : Nat) : RInv (dispatchOut s remote w mon k).1 := by
  unfold dispatchOut
  split
  · exact RInv_of_recent h rfl
  · exact sendInitially_RInv h _ _ _ _

theorem sendMessage_RInv {s : State} (h : RInv s) (remote : Remote) (mc : Bool) (token : Token)
    (m : OutMsg) (wasNon : Bool) (mon : Monitor) :
    RInv (sendMessage s remote mc token m wasNon mon).1 := by
  have hp : RInv (dropPiggy s remote token) := RInv_of_recent h rfl
  have ht : RInv (takeMid s).2 := RInv_of_recent h rfl
  unfold sendMessage
  split
  · split
    · exact sendInitially_RInv hp _ _ _ _
    · exact dispatchOut_RInv hp _ _ _ _
  · split
    · exact h
    · dsimp only
      split
      · exact h
      · exact dispatchOut_RInv ht _ _ _ _

end Aiocoap.MsgLayer
