import Proofs.MsgLayer.Queue
import Proofs.MsgLayer.ReplyMid
/-!
Accounting of acknowledgements, per peer `R` and message ID `M`: every ACK with ID `M` sent to `R`
is paid for either by a confirmable message with ID `M` received from `R` in that very step
(duplicate answered from the table, matched CON response), or by a pending piggy-back opportunity
(`s.piggy`) for `(R, M)` that the step consumes; opportunities are only created by confirmable
requests.  Retransmissions and back-log drains send CONs only (`QInv`), so they are free.

    ackCount R M outputs + oppCount R M s'  ≤  oppCount R M s + conRecv R M event
-/
namespace Aiocoap.MsgLayer

/-- the output is an ACK with message ID `M` sent to `R` -/
def isAckTo (R : Remote) (M : Nat) : Out → Bool
  | .send _ r w => r == R && (w.mtype == .ack && w.mid == M)
  | _ => false

/-- number of ACKs with message ID `M` sent to `R` -/
def ackCount (R : Remote) (M : Nat) (os : List Out) : Nat := os.countP (isAckTo R M)

/-- pending piggy-back opportunities that will produce an ACK with ID `M` to `R` -/
def oppCount (R : Remote) (M : Nat) (s : State) : Nat :=
  s.piggy.countP (fun p => p.remote == R && p.mid == M)

/-- 1 for a confirmable message (request, duplicate, response, ping alike) from `R` with ID `M` -/
def conRecv (R : Remote) (M : Nat) : Ev → Nat
  | .recv r _ w => if r = R ∧ w.mtype = .con ∧ w.mid = M then 1 else 0
  | _ => 0

/-- the application does not itself pick the types ACK/RST for what it submits or responds -/
def AppOk : Ev → Prop
  | .submit _ _ _ _ m => m.mtype ≠ some .ack ∧ m.mtype ≠ some .rst
  | .respond _ m _ => m.mtype ≠ some .ack ∧ m.mtype ≠ some .rst
  | _ => True

/-- total number of confirmable messages with ID `M` received from `R` in an event sequence -/
def conRecvs (R : Remote) (M : Nat) (es : List TEv) : Nat :=
  (es.map (conRecv R M ∘ TEv.ev)).sum

-- outputs without ACKs -------------------------------------------------------------------------

def isAck : Out → Bool
  | .send _ _ w => w.mtype == .ack
  | _ => false

def NoAck (os : List Out) : Prop := ∀ o ∈ os, isAck o = false

theorem isAck_of_isAckTo {R : Remote} {M : Nat} {o : Out} (h : isAckTo R M o = true) :
    isAck o = true := by
  cases o <;> simp_all [isAckTo, isAck]

theorem ackCount_of_NoAck {os : List Out} (h : NoAck os) (R : Remote) (M : Nat) :
    ackCount R M os = 0 := by
  simp only [ackCount, List.countP_eq_zero]
  intro o ho ht
  have := isAck_of_isAckTo ht
  rw [h o ho] at this; cases this

theorem ackCount_append (R : Remote) (M : Nat) (a b : List Out) :
    ackCount R M (a ++ b) = ackCount R M a + ackCount R M b := by
  simp [ackCount, List.countP_append]

theorem ackCount_nil (R : Remote) (M : Nat) : ackCount R M [] = 0 := rfl

theorem NoAck_append {a b : List Out} (ha : NoAck a) (hb : NoAck b) : NoAck (a ++ b) := by
  intro o ho
  rcases List.mem_append.mp ho with h | h
  · exact ha o h
  · exact hb o h

theorem NoAck_nil : NoAck [] := by intro o ho; cases ho

theorem NoAck_send {t : Nat} {r : Remote} {w : Wire} (hw : w.mtype ≠ .ack) :
    NoAck [.send t r w] := by
  intro o ho
  simp only [List.mem_singleton] at ho
  subst ho
  simpa [isAck] using hw

/-- what a single datagram contributes -/
def ackIf (R : Remote) (M : Nat) (r : Remote) (w : Wire) : Nat :=
  if (r == R && (w.mtype == .ack && w.mid == M)) = true then 1 else 0

theorem ackCount_send (R : Remote) (M : Nat) (t : Nat) (r : Remote) (w : Wire) :
    ackCount R M [.send t r w] = ackIf R M r w := by
  simp [ackCount, isAckTo, ackIf, List.countP_cons]

/-- the piggy table is untouched and no ACK goes out -/
structure Quiet (s : State) (res : State × List Out) : Prop where
  pg : res.1.piggy = s.piggy
  na : NoAck res.2

theorem Quiet.trans {s : State} {r1 r2 : State × List Out}
    (h1 : Quiet s r1) (h2 : Quiet r1.1 r2) : Quiet s (r2.1, r1.2 ++ r2.2) :=
  ⟨h2.pg.trans h1.pg, NoAck_append h1.na h2.na⟩

theorem Quiet_refl (s : State) : Quiet s (s, []) := ⟨rfl, NoAck_nil⟩

theorem Quiet_of_piggy {s s' : State} {res : State × List Out} (h : Quiet s res)
    (e : s'.piggy = s.piggy) : Quiet s' res := ⟨h.pg.trans e.symm, h.na⟩

/-- the budget relation of one piece of a handler: the ACKs for `(R, M)` it sends plus the
opportunities it leaves are covered by the opportunities it found plus `k` -/
def Bud (R : Remote) (M : Nat) (k : Nat) (s : State) (res : State × List Out) : Prop :=
  ackCount R M res.2 + oppCount R M res.1 ≤ oppCount R M s + k

theorem Bud_of_Quiet {R : Remote} {M : Nat} {s : State} {res : State × List Out} (h : Quiet s res) :
    Bud R M 0 s res := by
  simp only [Bud, ackCount_of_NoAck h.na, oppCount, h.pg]; omega

theorem Bud.trans {R : Remote} {M k1 k2 : Nat} {s : State} {r1 r2 : State × List Out}
    (h1 : Bud R M k1 s r1) (h2 : Bud R M k2 r1.1 r2) : Bud R M (k1 + k2) s (r2.1, r1.2 ++ r2.2) := by
  simp only [Bud, ackCount_append] at *; omega

theorem Bud.mono {R : Remote} {M k k' : Nat} {s : State} {res : State × List Out}
    (h : Bud R M k s res) (hk : k ≤ k') : Bud R M k' s res := by
  simp only [Bud] at *; omega

theorem Bud_of_piggy {R : Remote} {M k : Nat} {s s' : State} {res : State × List Out}
    (h : Bud R M k s res) (e : s'.piggy = s.piggy) : Bud R M k s' res := by
  simp only [Bud, oppCount, e] at *; exact h

-- sending ----------------------------------------------------------------------------------------

theorem piggy_sendInitially (s : State) (r : Remote) (w : Wire) (m : Monitor) (k : Nat) :
    (sendInitially s r w m k).1.piggy = s.piggy := by
  unfold sendInitially storeReply
  dsimp only
  split <;> split <;> rfl

theorem sendInitially_Quiet (s : State) (r : Remote) (w : Wire) (m : Monitor) (k : Nat)
    (hw : w.mtype ≠ .ack) : Quiet s (sendInitially s r w m k) :=
  ⟨piggy_sendInitially s r w m k, NoAck_send hw⟩

theorem sendInitially_Bud (R : Remote) (M : Nat) (s : State) (r : Remote) (w : Wire) (m : Monitor)
    (k : Nat) : Bud R M (ackIf R M r w) s (sendInitially s r w m k) := by
  have h1 : (sendInitially s r w m k).2 = [.send s.now r w] := rfl
  simp only [Bud, oppCount, piggy_sendInitially, h1, ackCount_send]
  omega

theorem drainBacklog_Quiet (remote : Remote) (l : List Queued) :
    ∀ s : State, (∀ q ∈ l, q.msg.mtype = .con) → Quiet s (drainBacklog s remote l) := by
  induction l with
  | nil => intro s _; exact ⟨rfl, NoAck_nil⟩
  | cons qd rest ih =>
    intro s hl
    simp only [drainBacklog]
    have hqd : qd.msg.mtype ≠ .ack := by rw [hl qd List.mem_cons_self]; simp
    have h1 := sendInitially_Quiet ({ s with backlogs := setBacklog s.backlogs remote rest } : State)
      remote qd.msg qd.monitor qd.maxRetr hqd
    split
    · exact ⟨h1.pg, h1.na⟩
    · have h2 := ih (sendInitially { s with backlogs := setBacklog s.backlogs remote rest } remote
        qd.msg qd.monitor qd.maxRetr).1 (fun q hq => hl q (List.mem_cons_of_mem _ hq))
      exact ⟨h2.pg.trans h1.pg, NoAck_append h1.na h2.na⟩

theorem continueBacklog_Quiet {s : State} (h : QInv s) (remote : Remote) :
    Quiet s (continueBacklog s remote) := by
  unfold continueBacklog
  split
  · exact Quiet_refl s
  · split
    · exact Quiet_refl s
    · rename_i r l hf
      exact drainBacklog_Quiet remote l s (backlog_find_con h hf)

theorem dispatchOut_Bud (R : Remote) (M : Nat) (s : State) (r : Remote) (w : Wire) (mon : Monitor)
    (k : Nat) : Bud R M (ackIf R M r w) s (dispatchOut s r w mon k) := by
  unfold dispatchOut
  split
  · exact (Bud_of_Quiet ⟨rfl, NoAck_nil⟩).mono (Nat.zero_le _)
  · exact sendInitially_Bud R M s r w mon k

theorem dispatchOut_Quiet (s : State) (r : Remote) (w : Wire) (mon : Monitor) (k : Nat)
    (hw : w.mtype ≠ .ack) : Quiet s (dispatchOut s r w mon k) := by
  unfold dispatchOut
  split
  · exact ⟨rfl, NoAck_nil⟩
  · exact sendInitially_Quiet s r w mon k hw

theorem sendBare_Quiet (s : State) (remote : Remote) (t : MType) (mid : Nat) (ht : t ≠ .ack) :
    Quiet s (sendBare s remote t mid) := sendInitially_Quiet _ _ _ _ _ ht

-- consuming an opportunity -----------------------------------------------------------------------

theorem countP_filter_not_add {α : Type} (P Q : α → Bool) (l : List α) (p : α) (hp : p ∈ l)
    (hq : Q p = true) :
    (l.filter (fun x => !Q x)).countP P + (if P p = true then 1 else 0) ≤ l.countP P := by
  induction l with
  | nil => cases hp
  | cons a l ih =>
    simp only [List.filter_cons, List.countP_cons]
    rcases List.mem_cons.mp hp with rfl | hp'
    · simp only [hq, Bool.not_true, Bool.false_eq_true, ↓reduceIte]
      have : (l.filter (fun x => !Q x)).countP P ≤ l.countP P :=
        List.Sublist.countP_le List.filter_sublist
      omega
    · have := ih hp'
      by_cases hqa : Q a = true
      · simp only [hqa, Bool.not_true, Bool.false_eq_true, ↓reduceIte]
        omega
      · have hqa' : Q a = false := by simpa using hqa
        simp only [hqa', Bool.not_false, ↓reduceIte, List.countP_cons]
        omega

/-- dropping the entries of `(remote, token)` removes at least the opportunity `p` found there -/
theorem oppCount_dropPiggy (R : Remote) (M : Nat) {s : State} {remote : Remote} {token : Token}
    {p : Piggy} (hp : p ∈ s.piggy) (hr : p.remote = remote) (ht : p.token = token) :
    oppCount R M (dropPiggy s remote token) +
      (if (p.remote == R && p.mid == M) = true then 1 else 0) ≤ oppCount R M s := by
  simp only [oppCount, dropPiggy]
  exact countP_filter_not_add (fun p => p.remote == R && p.mid == M)
    (fun p => p.remote == remote && p.token == token) s.piggy p hp (by simp [hr, ht])

theorem find_piggy_spec {s : State} {remote : Remote} {token : Token} {p : Piggy}
    (h : s.piggy.find? (fun p => p.remote == remote && p.token == token) = some p) :
    p ∈ s.piggy ∧ p.remote = remote ∧ p.token = token := by
  have hk := List.find?_some h
  simp only [Bool.and_eq_true, beq_iff_eq] at hk
  exact ⟨List.mem_of_find?_eq_some h, hk.1, hk.2⟩

theorem findPiggy_spec {s : State} {remote : Remote} {token : Token} {m : OutMsg} {p : Piggy}
    (h : findPiggy s remote token m = some p) :
    p ∈ s.piggy ∧ p.remote = remote ∧ p.token = token := by
  unfold findPiggy at h
  split at h
  · exact find_piggy_spec h
  · cases h

/-- an ACK with the ID of the opportunity `p`, sent after dropping `p`, is paid for by `p` -/
theorem consume_Bud {R : Remote} {M : Nat} {s : State} {remote : Remote} {token : Token} {p : Piggy}
    (hp : p ∈ s.piggy) (hr : p.remote = remote) (ht : p.token = token) (w : Wire)
    (hw : w.mid = p.mid) {res : State × List Out}
    (hb : Bud R M (ackIf R M remote w) (dropPiggy s remote token) res) : Bud R M 0 s res := by
  have h1 := oppCount_dropPiggy R M hp hr ht
  have h2 : ackIf R M remote w ≤ (if (p.remote == R && p.mid == M) = true then 1 else 0) := by
    simp only [ackIf, hw, hr]
    by_cases e1 : (remote == R) = true <;> by_cases e2 : (p.mid == M) = true <;>
      simp [e1, e2] <;> split <;> omega
  simp only [Bud] at *
  omega

theorem chooseType_ne_ack (s : State) (mc wasNon : Bool) (m : OutMsg) (hm : m.mtype ≠ some .ack) :
    chooseType s mc wasNon m ≠ .ack := by
  unfold chooseType
  split
  · split
    · simp
    · split
      · simp
      · split <;> first | (simp; done) | (split <;> simp)
  · rename_i t ht
    split
    · simp
    · intro h; subst h; exact hm ht

/-- `send_message` for an application message whose type is not set to ACK: an ACK goes out only
by consuming the opportunity of `(remote, token)`, under that opportunity's ID -/
theorem sendMessage_Bud (R : Remote) (M : Nat) (s : State) (remote : Remote) (mc : Bool)
    (token : Token) (m : OutMsg) (wasNon : Bool) (mon : Monitor) (hm : m.mtype ≠ some .ack) :
    Bud R M 0 s ((sendMessage s remote mc token m wasNon mon).1,
                 (sendMessage s remote mc token m wasNon mon).2.1) := by
  unfold sendMessage
  split
  · rename_i p hf
    obtain ⟨hp, hr, ht⟩ := findPiggy_spec hf
    split
    · exact consume_Bud hp hr ht
        { mtype := .ack, code := 0, mid := p.mid, token := [], obs := none, body := 0 }
        rfl (sendInitially_Bud R M _ _ _ _ _)
    · exact consume_Bud hp hr ht
        { mtype := .ack, code := m.code, mid := p.mid, token := token, obs := m.obs, body := m.body }
        rfl (dispatchOut_Bud R M _ _ _ _ _)
  · split
    · exact Bud_of_Quiet (Quiet_refl s)
    · dsimp only
      split
      · exact Bud_of_Quiet (Quiet_refl s)
      · have := dispatchOut_Quiet (takeMid s).2 remote
          { mtype := chooseType s mc wasNon m, code := m.code, mid := (takeMid s).1, token,
            obs := m.obs, body := m.body } mon m.maxRetr (chooseType_ne_ack s mc wasNon m hm)
        exact Bud_of_Quiet ⟨this.pg, this.na⟩

-- token manager ----------------------------------------------------------------------------------

theorem NoAck_map_stop (l : List InReq) : NoAck (l.map (fun i => Out.stop i.srv)) := by
  intro o ho
  obtain ⟨i, _, rfl⟩ := List.mem_map.mp ho
  rfl

theorem NoAck_map_fail (l : List OutReq) (k : ErrKind) :
    NoAck (l.map (fun o => Out.fail o.req k)) := by
  intro o ho
  obtain ⟨i, _, rfl⟩ := List.mem_map.mp ho
  rfl

theorem runMonitor_Quiet (s : State) (m : Monitor) : Quiet s (runMonitor s m) := by
  unfold runMonitor
  cases m with
  | req r =>
    simp only
    split
    · refine ⟨rfl, ?_⟩
      intro o ho; simp only [List.mem_singleton] at ho; subst ho; rfl
    · exact Quiet_refl s
  | srv sv =>
    simp only
    split
    · refine ⟨rfl, ?_⟩
      intro o ho; simp only [List.mem_singleton] at ho; subst ho; rfl
    · exact Quiet_refl s
  | none => exact Quiet_refl s

theorem tokenDispatchError_Quiet (s : State) (remote : Remote) (k : ErrKind) :
    Quiet s (tokenDispatchError s remote k) := by
  unfold tokenDispatchError
  split
  · exact Quiet_refl s
  · exact ⟨rfl, NoAck_append (NoAck_map_fail _ _) (NoAck_map_stop _)⟩

theorem processResponse_Quiet (s : State) (remote : Remote) (w : Wire) :
    Quiet s ((processResponse s remote w).1, (processResponse s remote w).2.1) := by
  unfold processResponse
  simp only
  split
  · exact Quiet_refl s
  · refine ⟨?_, ?_⟩
    · dsimp only; split <;> rfl
    · intro o ho; simp only [List.mem_singleton] at ho; subst ho; rfl

theorem tokenProcessRequest_Quiet (s : State) (remote : Remote) (w : Wire) :
    Quiet s (tokenProcessRequest s remote w) := by
  unfold tokenProcessRequest
  simp only
  refine ⟨?_, ?_⟩
  · split <;> rfl
  · intro o ho
    split at ho <;>
      simp only [List.mem_append, List.mem_cons, List.not_mem_nil, or_false,
        false_or] at ho <;>
      (try rcases ho with rfl | rfl) <;> (try subst ho) <;> rfl

-- incoming ---------------------------------------------------------------------------------------

theorem removeExchange_Quiet {s : State} (h : QInv s) (remote : Remote) (w : Wire) :
    Quiet s (removeExchange s remote w) := by
  unfold removeExchange
  split
  · exact Quiet_refl s
  · rename_i e _
    simp only
    have hd := dropExchange_QInv h remote w.mid
    have h1 : Quiet s (if w.mtype == .rst then runMonitor (dropExchange s remote w.mid) e.monitor
        else (dropExchange s remote w.mid, [])) ∧
        QInv (if w.mtype == .rst then runMonitor (dropExchange s remote w.mid) e.monitor
        else (dropExchange s remote w.mid, [])).1 := by
      split
      · exact ⟨Quiet_of_piggy (runMonitor_Quiet (dropExchange s remote w.mid) e.monitor) rfl,
               QInv_of_tables hd (runMonitor_tables _ _).1 (runMonitor_tables _ _).2⟩
      · exact ⟨⟨rfl, NoAck_nil⟩, hd⟩
    exact h1.1.trans (continueBacklog_Quiet h1.2 remote)

/-- the empty-ACK timer consumes the opportunity it acknowledges -/
theorem fireEmptyAck_Bud (R : Remote) (M : Nat) (s : State) (remote : Remote) (token : Token) :
    Bud R M 0 s (fireEmptyAck s remote token) := by
  unfold fireEmptyAck
  split
  · exact Bud_of_Quiet (Quiet_refl s)
  · rename_i p hf
    obtain ⟨hp, hr, ht⟩ := find_piggy_spec hf
    exact consume_Bud hp hr ht
      { mtype := .ack, code := 0, mid := p.mid, token := [], obs := none, body := 0 }
      rfl (sendInitially_Bud R M _ _ _ _ _)

/-- a request flushes the opportunity of an earlier request on its token (paid for by that
opportunity); a confirmable one then opens at most one opportunity, under its own ID -/
theorem processRequest_Bud (R : Remote) (M : Nat) (s : State) (remote : Remote) (mcl : Bool)
    (w : Wire) : Bud R M (conRecv R M (.recv remote mcl w)) s (processRequest s remote w) := by
  have hf := fireEmptyAck_Bud R M s remote w.token
  unfold processRequest
  simp only
  generalize fireEmptyAck s remote w.token = r0 at hf
  split
  · rename_i hc
    have hc' : w.mtype = .con := by simpa using hc
    generalize hs1 : ({ r0.1 with piggy := r0.1.piggy ++
        [{ remote, token := w.token, mid := w.mid, fireAt := r0.1.now + r0.1.cfg.emptyAckDelay }] } : State) = s1
    have hq := tokenProcessRequest_Quiet s1 remote w
    have h1 : oppCount R M s1 ≤ oppCount R M r0.1 + conRecv R M (.recv remote mcl w) := by
      rw [← hs1]
      simp only [oppCount, List.countP_append]
      have key : List.countP (fun p => p.remote == R && p.mid == M)
          [({ remote, token := w.token, mid := w.mid, fireAt := r0.1.now + r0.1.cfg.emptyAckDelay } : Piggy)] ≤
          conRecv R M (.recv remote mcl w) := by
        simp only [List.countP_cons, List.countP_nil, conRecv, hc', true_and]
        by_cases e1 : remote = R <;> by_cases e2 : w.mid = M <;> simp [e1, e2]
      omega
    have h2 := Bud_of_Quiet (R := R) (M := M) hq
    simp only [Bud, ackCount_append] at *
    omega
  · have h2 := Bud_of_Quiet (R := R) (M := M) (tokenProcessRequest_Quiet r0.1 remote w)
    simp only [Bud, ackCount_append] at *
    omega

theorem ackIf_le_conRecv (R : Remote) (M : Nat) (remote : Remote) (mcl : Bool) (w w' : Wire)
    (hc : w.mtype = .con) (hm : w'.mid = w.mid) :
    ackIf R M remote w' ≤ conRecv R M (.recv remote mcl w) := by
  simp only [ackIf, conRecv, hc, hm, true_and]
  by_cases e1 : remote = R <;> by_cases e2 : w.mid = M <;> simp [e1, e2] <;> split <;> omega

/-- a duplicate CON is answered at most once, under its own ID (`RMid`) -/
theorem recvDup_Bud (R : Remote) (M : Nat) {s : State} (hr : RMid s) (remote : Remote) (mcl : Bool)
    (w : Wire) : Bud R M (conRecv R M (.recv remote mcl w)) s (recvDup s remote w) := by
  unfold recvDup
  split
  · rename_i hc
    have hc' : w.mtype = .con := by simpa using hc
    split
    · rename_i reply hs
      exact (sendInitially_Bud R M s remote reply .none 0).mono
        (ackIf_le_conRecv R M remote mcl w reply hc' (storedReply_mid hr hs))
    · exact (Bud_of_Quiet (Quiet_refl s)).mono (Nat.zero_le _)
  · exact (Bud_of_Quiet (Quiet_refl s)).mono (Nat.zero_le _)

theorem recvCode_Bud (R : Remote) (M : Nat) (s : State) (remote : Remote) (mcl : Bool) (w : Wire) :
    Bud R M (conRecv R M (.recv remote mcl w)) s (recvCode s remote mcl w) := by
  have hp := processResponse_Quiet s remote w
  have z : ∀ {res : State × List Out}, Quiet s res →
      Bud R M (conRecv R M (.recv remote mcl w)) s res :=
    fun h => (Bud_of_Quiet h).mono (Nat.zero_le _)
  unfold recvCode
  split
  · exact z (sendBare_Quiet _ _ _ _ (by simp))
  · split
    · exact z (Quiet_refl s)
    · split
      · exact processRequest_Bud R M s remote mcl w
      · split
        · dsimp only
          split
          · split
            · rename_i hc
              have hc' : w.mtype = .con := by simpa using hc
              have h2 := sendInitially_Bud R M (processResponse s remote w).1 remote
                { mtype := .ack, code := 0, mid := w.mid, token := [], obs := none, body := 0 } .none 0
              have h3 := (Bud_of_Quiet (R := R) (M := M) hp).trans h2
              exact h3.mono (by
                rw [Nat.zero_add]
                exact ackIf_le_conRecv R M remote mcl w _ hc' rfl)
            · exact z hp
          · split
            · have h3 := hp.trans (sendBare_Quiet (processResponse s remote w).1 remote .rst w.mid (by simp))
              -- the unmatched branch discards the (empty) response outputs
              refine z ⟨h3.pg, ?_⟩
              intro o ho
              exact h3.na o (List.mem_append_right _ ho)
            · exact z hp
        · exact z (Quiet_refl s)

theorem recv_Bud (R : Remote) (M : Nat) {s : State} (hq : QInv s) (hr : RMid s) (remote : Remote)
    (mcl : Bool) (w : Wire) : Bud R M (conRecv R M (.recv remote mcl w)) s (recv s remote mcl w) := by
  unfold recv
  split
  · exact recvDup_Bud R M hr remote mcl w
  · dsimp only
    generalize hs0 : (if dedupable w = true then
        ({ s with recent := s.recent ++ [(⟨remote, w.mid, none, s.now + s.cfg.exchangeLifetime⟩ : Recent)] } : State)
        else s) = s0
    have e0 : s0.piggy = s.piggy := by
      rw [← hs0]; split <;> rfl
    have hq0 : QInv s0 := by
      rw [← hs0]; split
      · exact QInv_of_tables hq rfl rfl
      · exact hq
    generalize hx : (if fitsReply w = true then removeExchange s0 remote w
        else (s0, [])) = x
    have h1 : Quiet s x := by
      rw [← hx]
      split
      · exact Quiet_of_piggy (removeExchange_Quiet hq0 remote w) e0.symm
      · exact ⟨e0, NoAck_nil⟩
    have := (Bud_of_Quiet (R := R) (M := M) h1).trans (recvCode_Bud R M x.1 remote mcl w)
    exact this.mono (by omega)

-- errors, timers, application --------------------------------------------------------------------

theorem dispatchError_Quiet (s : State) (remote : Remote) : Quiet s (dispatchError s remote) := by
  unfold dispatchError
  split
  · exact Quiet_refl s
  · have := tokenDispatchError_Quiet s remote .networkError
    exact ⟨this.pg, this.na⟩

theorem fireRetransmit_Quiet {s : State} (h : QInv s) (remote : Remote) (mid : Nat) :
    Quiet s (fireRetransmit s remote mid) := by
  unfold fireRetransmit
  split
  · exact Quiet_refl s
  · rename_i e hf
    dsimp only
    split
    · refine ⟨rfl, NoAck_send ?_⟩
      rw [h.ex e (List.mem_of_find?_eq_some hf)]; simp
    · exact Quiet_of_piggy (tokenDispatchError_Quiet (dropBacklog (dropExchange s remote mid) remote)
        remote .conRetransmitsExceeded) rfl

theorem submit_Bud (R : Remote) (M : Nat) (s : State) (r : Nat) (remote : Remote) (mc ob : Bool)
    (m : OutMsg) (hm : m.mtype ≠ some .ack) : Bud R M 0 s (submit s r remote mc ob m) := by
  unfold submit
  split
  · refine Bud_of_Quiet ⟨rfl, ?_⟩
    intro o ho; simp only [List.mem_singleton] at ho; subst ho; rfl
  · have hb := sendMessage_Bud R M (registerOutgoing s r remote mc ob) remote mc (nextToken s) m false
      (.req r) hm
    rcases hsm : sendMessage (registerOutgoing s r remote mc ob) remote mc (nextToken s) m false (.req r)
      with ⟨s2, o, res⟩
    rw [hsm] at hb
    have hb' : Bud R M 0 s (s2, o) := Bud_of_piggy hb rfl
    simp only [hsm]
    cases res with
    | conToMulticast =>
      have hx : Quiet s2 (dropOutgoing s2 r, [Out.fail r .conToMulticast]) := by
        refine ⟨rfl, ?_⟩
        intro o ho; simp only [List.mem_singleton] at ho; subst ho; rfl
      exact hb'.trans (Bud_of_Quiet hx)
    | sent => exact hb'
    | suppressed => exact hb'

theorem respond_Bud (R : Remote) (M : Nat) (s : State) (sv : Nat) (m : OutMsg) (isLast : Bool)
    (hm : m.mtype ≠ some .ack) : Bud R M 0 s (respond s sv m isLast) := by
  unfold respond
  split
  · exact Bud_of_Quiet (Quiet_refl s)
  · rename_i i _
    have hb := sendMessage_Bud R M s i.remote false i.token m i.wasNon (.srv sv) hm
    dsimp only
    split
    · exact hb
    · exact hb

theorem shutdown_Bud (R : Remote) (M : Nat) (s : State) : Bud R M 0 s (shutdown s) := by
  unfold shutdown
  split
  · exact Bud_of_Quiet (Quiet_refl s)
  · have hn : NoAck (s.incoming.map (fun i => Out.stop i.srv) ++
        s.outgoing.map (fun x => Out.fail x.req .libraryShutdown)) :=
      NoAck_append (NoAck_map_stop _) (NoAck_map_fail _ _)
    simp only [Bud, ackCount_of_NoAck hn, oppCount, List.countP_nil]
    omega

/-- **the step lemma**: per peer and message ID, the ACKs sent in a step plus the opportunities
left are covered by the opportunities found plus the confirmable message received (if any) -/
theorem handle_Bud (R : Remote) (M : Nat) {s : State} (hq : QInv s) (hr : RMid s) (ev : Ev)
    (ha : AppOk ev) :
    ackCount R M (handle s ev).2 + oppCount R M (handle s ev).1 ≤ oppCount R M s + conRecv R M ev := by
  have z : ∀ {res : State × List Out} {k : Nat}, Quiet s res → Bud R M k s res :=
    fun h => (Bud_of_Quiet h).mono (Nat.zero_le _)
  show Bud R M (conRecv R M ev) s (handle s ev)
  cases ev with
  | submit r remote mc ob m => exact submit_Bud R M s r remote mc ob m ha.1
  | recv remote mcl w =>
    simp only [handle]; split
    · exact z (Quiet_refl s)
    · exact recv_Bud R M hq hr remote mcl w
  | respond sv m il => exact respond_Bud R M s sv m il ha.1
  | appCancel r => exact z ⟨rfl, NoAck_nil⟩
  | error remote => exact z (dispatchError_Quiet s remote)
  | fireRetransmit remote mid => exact z (fireRetransmit_Quiet hq remote mid)
  | fireEmptyAck remote token => exact fireEmptyAck_Bud R M s remote token
  | fireExpire remote mid => exact z ⟨rfl, NoAck_nil⟩
  | shutdown => exact shutdown_Bud R M s

instance : DecidablePred AppOk := by
  intro ev; cases ev <;> unfold AppOk <;> infer_instance

/-- `AppOk` is necessary: an application message submitted with its type set to ACK goes out as an
ACK (under a fresh ID) although no confirmable message was received and no opportunity was
pending — the step inequality fails on the initial state. -/
example :
    let s := init { exchangeLifetime := 1000, emptyAckDelay := 10 } 500 0 (fun _ => 20)
    let ev : Ev := .submit 0 1 false false
      { mtype := some .ack, reliability := none, code := 1, obs := none, body := 0, noResponse := 0,
        maxRetr := 4 }
    ¬ AppOk ev ∧
    ¬ (ackCount 1 500 (handle s ev).2 + oppCount 1 500 (handle s ev).1 ≤
        oppCount 1 500 s + conRecv 1 500 ev) := by decide

theorem step_Bud (R : Remote) (M : Nat) {s : State} (hq : QInv s) (hr : RMid s) (e : TEv)
    (ha : AppOk e.ev) :
    ackCount R M (step s e).2 + oppCount R M (step s e).1 ≤ oppCount R M s + conRecv R M e.ev :=
  handle_Bud R M (s := setNow s e.time) (QInv_of_tables hq rfl rfl) (RMid_of_recent hr rfl) e.ev ha

/-- **the budget over a whole run** -/
theorem run_Bud (R : Remote) (M : Nat) {s : State} (hq : QInv s) (hr : RMid s) (es : List TEv)
    (ha : ∀ e ∈ es, AppOk e.ev) :
    ackCount R M (run s es).2 + oppCount R M (run s es).1 ≤ oppCount R M s + conRecvs R M es := by
  induction es generalizing s with
  | nil => simp [run, ackCount, conRecvs]
  | cons e es ih =>
    simp only [run, ackCount_append]
    have h1 := step_Bud R M hq hr e (ha e List.mem_cons_self)
    have h2 := ih (step_QInv hq e) (step_RMid hr e) (fun x hx => ha x (List.mem_cons_of_mem _ hx))
    have h3 : conRecvs R M (e :: es) = conRecv R M e.ev + conRecvs R M es := by
      simp [conRecvs]
    omega

theorem conRecvs_eq_zero {R : Remote} {M : Nat} {es : List TEv}
    (hno : ∀ e ∈ es, ∀ mcl w, e.ev = .recv R mcl w → w.mtype = .con → w.mid ≠ M) :
    conRecvs R M es = 0 := by
  induction es with
  | nil => rfl
  | cons e es ih =>
    have h1 : conRecvs R M (e :: es) = conRecv R M e.ev + conRecvs R M es := by simp [conRecvs]
    rw [h1, ih (fun x hx => hno x (List.mem_cons_of_mem _ hx)), Nat.add_zero]
    have h2 := hno e List.mem_cons_self
    cases he : e.ev with
    | recv r mcl w =>
      simp only [conRecv]
      split
      · rename_i hc
        obtain ⟨rfl, hcon, hmid⟩ := hc
        exact absurd hmid (h2 mcl w he hcon)
      · rfl
    | _ => rfl

end Aiocoap.MsgLayer
