import Proofs.MsgLayer.Account
import Proofs.Codec.Bytes
/-! Tokens of outstanding requests are pairwise different (fewer than 2^64 requests issued). -/
namespace Aiocoap.MsgLayer

/-- the request table only shrinks and the token counters are untouched -/
structure Frame (s s' : State) : Prop where
  og : s'.outgoing.Sublist s.outgoing
  iss : s'.issued = s.issued
  ctr : s'.tokenCtr = s.tokenCtr
  c0 : s'.tokenCtr0 = s.tokenCtr0

theorem Frame.refl (s : State) : Frame s s := ⟨List.Sublist.refl _, rfl, rfl, rfl⟩
theorem Frame.trans {a b c : State} (h1 : Frame a b) (h2 : Frame b c) : Frame a c :=
  ⟨h2.og.trans h1.og, h2.iss.trans h1.iss, h2.ctr.trans h1.ctr, h2.c0.trans h1.c0⟩

theorem Frame_of_eq {s s' : State} (h1 : s'.outgoing = s.outgoing) (h2 : s'.issued = s.issued)
    (h3 : s'.tokenCtr = s.tokenCtr) (h4 : s'.tokenCtr0 = s.tokenCtr0) : Frame s s' :=
  ⟨h1 ▸ List.Sublist.refl _, h2, h3, h4⟩

theorem sendInitially_Frame (s : State) (r : Remote) (w : Wire) (m : Monitor) (k : Nat) :
    Frame s (sendInitially s r w m k).1 := by
  unfold sendInitially storeReply addExchange
  dsimp only
  split <;> split <;> exact Frame_of_eq rfl rfl rfl rfl

theorem drainBacklog_Frame (remote : Remote) (l : List Queued) :
    ∀ s : State, Frame s (drainBacklog s remote l).1 := by
  induction l with
  | nil => intro s; exact Frame_of_eq rfl rfl rfl rfl
  | cons qd rest ih =>
    intro s
    simp only [drainBacklog]
    have h0 : Frame s ({ s with backlogs := setBacklog s.backlogs remote rest } : State) :=
      Frame_of_eq rfl rfl rfl rfl
    have h1 := h0.trans (sendInitially_Frame _ remote qd.msg qd.monitor qd.maxRetr)
    split
    · exact h1
    · exact h1.trans (ih _)

theorem continueBacklog_Frame (s : State) (remote : Remote) : Frame s (continueBacklog s remote).1 := by
  unfold continueBacklog
  split
  · exact Frame.refl s
  · split
    · exact Frame.refl s
    · exact drainBacklog_Frame remote _ s

theorem dropOutgoing_Frame (s : State) (r : Nat) : Frame s (dropOutgoing s r) :=
  ⟨List.filter_sublist, rfl, rfl, rfl⟩

theorem runMonitor_Frame (s : State) (m : Monitor) : Frame s (runMonitor s m).1 := by
  unfold runMonitor
  cases m with
  | req r => simp only; split; exact dropOutgoing_Frame s r; exact Frame.refl s
  | srv sv => simp only; split; exact Frame_of_eq rfl rfl rfl rfl; exact Frame.refl s
  | none => exact Frame.refl s

theorem tokenDispatchError_Frame (s : State) (r : Remote) (k : ErrKind) :
    Frame s (tokenDispatchError s r k).1 := by
  unfold tokenDispatchError
  split
  · exact Frame.refl s
  · exact ⟨List.filter_sublist, rfl, rfl, rfl⟩

theorem processResponse_Frame (s : State) (r : Remote) (w : Wire) :
    Frame s (processResponse s r w).1 := by
  unfold processResponse
  simp only
  split
  · exact Frame.refl s
  · split
    · exact dropOutgoing_Frame s _
    · exact Frame.refl s


theorem removeExchange_Frame (s : State) (remote : Remote) (w : Wire) :
    Frame s (removeExchange s remote w).1 := by
  unfold removeExchange
  split
  · exact Frame.refl s
  · rename_i e _
    simp only
    have h0 : Frame s (dropExchange s remote w.mid) := Frame_of_eq rfl rfl rfl rfl
    have h1 : Frame s (if w.mtype == .rst then runMonitor (dropExchange s remote w.mid) e.monitor
        else (dropExchange s remote w.mid, [])).1 := by
      split
      · exact h0.trans (runMonitor_Frame _ _)
      · exact h0
    exact h1.trans (continueBacklog_Frame _ remote)

theorem dispatchOut_Frame (s : State) (remote : Remote) (w : Wire) (mon : Monitor) (k : Nat) :
    Frame s (dispatchOut s remote w mon k).1 := by
  unfold dispatchOut
  split
  · exact Frame_of_eq rfl rfl rfl rfl
  · exact sendInitially_Frame _ _ _ _ _

theorem sendMessage_Frame (s : State) (remote : Remote) (mc : Bool) (token : Token) (m : OutMsg)
    (wasNon : Bool) (mon : Monitor) : Frame s (sendMessage s remote mc token m wasNon mon).1 := by
  have hp : Frame s (dropPiggy s remote token) := Frame_of_eq rfl rfl rfl rfl
  have ht : Frame s (takeMid s).2 := Frame_of_eq rfl rfl rfl rfl
  unfold sendMessage
  split
  · rename_i p _
    split
    · exact hp.trans (sendInitially_Frame (dropPiggy s remote token) remote
        { mtype := .ack, code := 0, mid := p.mid, token := [], obs := none, body := 0 } mon m.maxRetr)
    · exact hp.trans (dispatchOut_Frame (dropPiggy s remote token) remote
        { mtype := .ack, code := m.code, mid := p.mid, token, obs := m.obs, body := m.body } mon m.maxRetr)
  · split
    · exact Frame.refl s
    · dsimp only
      split
      · exact Frame.refl s
      · exact ht.trans (dispatchOut_Frame (takeMid s).2 remote
          { mtype := chooseType s mc wasNon m, code := m.code, mid := (takeMid s).1, token,
            obs := m.obs, body := m.body } mon m.maxRetr)

theorem sendBare_Frame (s : State) (remote : Remote) (t : MType) (mid : Nat) :
    Frame s (sendBare s remote t mid).1 := sendInitially_Frame _ _ _ _ _

theorem fireEmptyAck_Frame (s : State) (remote : Remote) (token : Token) :
    Frame s (fireEmptyAck s remote token).1 := by
  unfold fireEmptyAck
  split
  · exact Frame.refl s
  · exact (Frame_of_eq (s := s) (s' := dropPiggy s remote token) rfl rfl rfl rfl).trans
      (sendBare_Frame _ _ _ _)

theorem tokenProcessRequest_Frame (s : State) (r : Remote) (w : Wire) :
    Frame s (tokenProcessRequest s r w).1 := by
  unfold tokenProcessRequest
  simp only
  split <;> exact Frame_of_eq rfl rfl rfl rfl

theorem processRequest_Frame (s : State) (r : Remote) (w : Wire) :
    Frame s (processRequest s r w).1 := by
  have h0 := fireEmptyAck_Frame s r w.token
  unfold processRequest
  simp only
  generalize (fireEmptyAck s r w.token).1 = s0 at h0
  split
  · refine (h0.trans ?_).trans (tokenProcessRequest_Frame _ r w)
    exact Frame_of_eq rfl rfl rfl rfl
  · exact h0.trans (tokenProcessRequest_Frame s0 r w)

theorem recvCode_Frame (s : State) (remote : Remote) (mcLocal : Bool) (w : Wire) :
    Frame s (recvCode s remote mcLocal w).1 := by
  have hp := processResponse_Frame s remote w
  unfold recvCode
  split
  · exact sendBare_Frame _ _ _ _
  · split
    · exact Frame.refl s
    · split
      · exact processRequest_Frame _ _ _
      · split
        · dsimp only
          split
          · split
            · exact hp.trans (sendBare_Frame (processResponse s remote w).1 remote .ack w.mid)
            · exact hp
          · split
            · exact hp.trans (sendBare_Frame (processResponse s remote w).1 remote .rst w.mid)
            · exact hp
        · exact Frame.refl s

theorem recv_Frame (s : State) (remote : Remote) (mcLocal : Bool) (w : Wire) :
    Frame s (recv s remote mcLocal w).1 := by
  unfold recv
  split
  · unfold recvDup
    split
    · split
      · exact sendInitially_Frame _ _ _ _ _
      · exact Frame.refl s
    · exact Frame.refl s
  · dsimp only
    generalize hs0 : (if dedupable w = true then
        ({ s with recent := s.recent ++ [(⟨remote, w.mid, none, s.now + s.cfg.exchangeLifetime⟩ : Recent)] } : State)
        else s) = s0
    have e0 : Frame s s0 := by
      rw [← hs0]; split
      · exact Frame_of_eq rfl rfl rfl rfl
      · exact Frame.refl s
    generalize hx : (if fitsReply w = true then removeExchange s0 remote w
        else (s0, [])) = x
    have h1 : Frame s x.1 := by
      rw [← hx]
      split
      · exact e0.trans (removeExchange_Frame s0 remote w)
      · exact e0
    exact h1.trans (recvCode_Frame x.1 remote mcLocal w)

/-- every event except a submission only shrinks the request table -/
theorem handle_Frame (s : State) (ev : Ev) (hns : ∀ r rem mc ob m, ev ≠ .submit r rem mc ob m) :
    Frame s (handle s ev).1 := by
  cases ev with
  | submit r remote mc ob m => exact absurd rfl (hns r remote mc ob m)
  | recv remote mcl w =>
    simp only [handle]; split
    · exact Frame.refl s
    · exact recv_Frame s remote mcl w
  | respond sv m il =>
    simp only [handle, respond]
    split
    · exact Frame.refl s
    · rename_i i _
      have h2 := sendMessage_Frame s i.remote false i.token m i.wasNon (.srv sv)
      split
      · exact h2.trans (Frame_of_eq rfl rfl rfl rfl)
      · exact h2
  | appCancel r => exact dropOutgoing_Frame s r
  | error remote =>
    simp only [handle, dispatchError]
    split
    · exact Frame.refl s
    · exact (tokenDispatchError_Frame s remote _).trans (Frame_of_eq rfl rfl rfl rfl)
  | fireRetransmit remote mid =>
    simp only [handle, fireRetransmit]
    split
    · exact Frame.refl s
    · split
      · exact Frame_of_eq rfl rfl rfl rfl
      · exact (Frame_of_eq (s := s) (s' := dropBacklog (dropExchange s remote mid) remote) rfl rfl rfl rfl).trans
          (tokenDispatchError_Frame _ remote _)
  | fireEmptyAck remote token =>
    simp only [handle, fireEmptyAck]
    split
    · exact Frame.refl s
    · exact (Frame_of_eq (s := s) (s' := dropPiggy s remote token) rfl rfl rfl rfl).trans
        (sendBare_Frame _ _ _ _)
  | fireExpire remote mid => exact Frame_of_eq rfl rfl rfl rfl
  | shutdown =>
    simp only [handle, shutdown]
    split
    · exact Frame.refl s
    · exact ⟨List.nil_sublist _, rfl, rfl, rfl⟩

-- the token invariant --------------------------------------------------------------------------

/-- every outstanding request carries the token of its own issue number; issue numbers are
pairwise different and below the number of tokens issued; the counter is `initial + issued` -/
structure TInv (s : State) : Prop where
  ctr : s.tokenCtr = (s.tokenCtr0 + s.issued) % 2 ^ 64
  tok : ∀ o ∈ s.outgoing, o.idx < s.issued ∧ o.token = tokenOf ((s.tokenCtr0 + o.idx + 1) % 2 ^ 64)
  nd : (s.outgoing.map (·.idx)).Nodup

theorem TInv_of_Frame {s s' : State} (h : TInv s) (f : Frame s s') : TInv s' := by
  refine ⟨?_, ?_, ?_⟩
  · rw [f.ctr, f.c0, f.iss]; exact h.ctr
  · intro o ho
    have := h.tok o (f.og.subset ho)
    rw [f.iss, f.c0]; exact this
  · exact List.Nodup.sublist (f.og.map _) h.nd

theorem TInv_register {s : State} (h : TInv s) (r : Nat) (remote : Remote) (mc ob : Bool) :
    TInv (registerOutgoing s r remote mc ob) := by
  refine ⟨?_, ?_, ?_⟩
  · simp only [registerOutgoing]
    rw [h.ctr]
    simp only [Nat.add_mod, Nat.mod_mod]
    omega
  · intro o ho
    simp only [registerOutgoing, List.mem_append, List.mem_singleton] at ho ⊢
    rcases ho with ho | rfl
    · have := h.tok o ho
      exact ⟨by omega, this.2⟩
    · refine ⟨Nat.lt_succ_self _, ?_⟩
      simp only [nextToken]
      rw [h.ctr]
      congr 1
      omega
  · simp only [registerOutgoing, List.map_append, List.map_cons, List.map_nil]
    apply nodup_snoc h.nd
    intro hin
    obtain ⟨o, ho, hidx⟩ := List.mem_map.mp hin
    have := (h.tok o ho).1
    omega

theorem submit_TInv {s : State} (h : TInv s) (r : Nat) (remote : Remote) (mc ob : Bool) (m : OutMsg) :
    TInv (submit s r remote mc ob m).1 := by
  unfold submit
  split
  · exact h
  · have h1 := TInv_register h r remote mc ob
    have h2 := TInv_of_Frame h1 (sendMessage_Frame _ remote mc (nextToken s) m false (.req r))
    dsimp only
    split
    · exact TInv_of_Frame h2 (dropOutgoing_Frame _ r)
    · exact h2

theorem handle_TInv {s : State} (h : TInv s) (ev : Ev) : TInv (handle s ev).1 := by
  by_cases hs : ∃ r rem mc ob m, ev = .submit r rem mc ob m
  · obtain ⟨r, rem, mc, ob, m, rfl⟩ := hs
    exact submit_TInv h r rem mc ob m
  · exact TInv_of_Frame h (handle_Frame s ev (fun r rem mc ob m e => hs ⟨r, rem, mc, ob, m, e⟩))

theorem run_TInv {s : State} (h : TInv s) (es : List TEv) : TInv (run s es).1 := by
  induction es generalizing s with
  | nil => exact h
  | cons e es ih =>
    simp only [run]
    apply ih
    unfold step
    exact handle_TInv (s := setNow s e.time) ⟨h.ctr, h.tok, h.nd⟩ e.ev

theorem init_TInv (cfg : Cfg) (mid token : Nat) (f : Nat → Nat) (ht : token < 2 ^ 64) :
    TInv (init cfg mid token f) :=
  ⟨by simp [init, Nat.mod_eq_of_lt ht], fun o ho => by simp [init] at ho, by simp [init]⟩

theorem tokenOf_injective {a b : Nat} (h : tokenOf a = tokenOf b) : a = b := by
  have := congrArg beToNat h
  simpa [tokenOf, beToNat_natToMinBE] using this

end Aiocoap.MsgLayer
