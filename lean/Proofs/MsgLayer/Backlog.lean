import Proofs.MsgLayer.Inv
/-! Queue behaviour of the per-remote backlog. -/
namespace Aiocoap.MsgLayer

/-- the messages held back for `remote`, oldest first -/
def backlogOf (s : State) (remote : Remote) : List Queued :=
  match s.backlogs.find? (fun b => b.1 == remote) with
  | some (_, l) => l
  | none => []

theorem find_map_fst {α β} (f : α × β → α × β) (hf : ∀ b, (f b).1 = b.1) (p : α → Bool)
    (l : List (α × β)) :
    (l.map f).find? (fun b => p b.1) = (l.find? (fun b => p b.1)).map f := by
  induction l with
  | nil => rfl
  | cons b bs ih =>
    simp only [List.map_cons, List.find?_cons, hf]
    cases p b.1 with
    | true => rfl
    | false => exact ih

theorem find_appendBacklog (bl : List (Remote × List Queued)) (remote r : Remote) (q : Queued) :
    (appendBacklog bl remote q).find? (fun b => b.1 == r) =
      (bl.find? (fun b => b.1 == r)).map (fun b => if b.1 == remote then (b.1, b.2 ++ [q]) else b) :=
  find_map_fst _ (fun b => by by_cases h : (b.1 == remote) = true <;> simp [h]) (· == r) bl

theorem find_setBacklog (bl : List (Remote × List Queued)) (remote r : Remote) (l : List Queued) :
    (setBacklog bl remote l).find? (fun b => b.1 == r) =
      (bl.find? (fun b => b.1 == r)).map (fun b => if b.1 == remote then (b.1, l) else b) :=
  find_map_fst _ (fun b => by by_cases h : (b.1 == remote) = true <;> simp [h]) (· == r) bl

theorem backlogOf_append (s : State) (remote : Remote) (q : Queued) (h : remote ∈ blK s) :
    backlogOf ({ s with backlogs := appendBacklog s.backlogs remote q } : State) remote =
      backlogOf s remote ++ [q] := by
  simp only [backlogOf, find_appendBacklog]
  cases hf : s.backlogs.find? (fun b => b.1 == remote) with
  | none =>
    exfalso
    simp only [blK, List.mem_map] at h
    obtain ⟨b, hb, hbr⟩ := h
    have := List.find?_eq_none.mp hf b hb
    simp [hbr] at this
  | some b =>
    have : (b.1 == remote) = true := List.find?_some (p := fun (b : Remote × List Queued) => b.1 == remote) hf
    have hb' : b.1 = remote := by simpa using this
    simp [hb']

theorem backlogOf_append_other (s : State) (remote r : Remote) (q : Queued) (h : r ≠ remote) :
    backlogOf ({ s with backlogs := appendBacklog s.backlogs remote q } : State) r =
      backlogOf s r := by
  simp only [backlogOf, find_appendBacklog]
  cases hf : s.backlogs.find? (fun b => b.1 == r) with
  | none => rfl
  | some b =>
    have hb : (b.1 == r) = true := List.find?_some (p := fun (b : Remote × List Queued) => b.1 == r) hf
    have : b.1 = r := by simpa using hb
    have hne : ¬ b.1 = remote := by rw [this]; exact h
    simp [hne]

theorem hasBacklog_dropBacklog (s : State) (remote : Remote) :
    hasBacklog (dropBacklog s remote) remote = false := by
  simp [hasBacklog, dropBacklog, List.any_filter]

theorem continueBacklog_head {s : State} {remote : Remote} (h1 : hasExchange s remote = false)
    {br : Remote} {q : Queued} {rest : List Queued}
    (h2 : s.backlogs.find? (fun b => b.1 == remote) = some (br, q :: rest)) (hqc : q.msg.mtype = .con) :
    continueBacklog s remote =
      sendInitially { s with backlogs := setBacklog s.backlogs remote rest } remote q.msg q.monitor
        q.maxRetr := by
  unfold continueBacklog
  simp only [h1, Bool.false_eq_true, ↓reduceIte, h2, drainBacklog, hqc, beq_self_eq_true]

end Aiocoap.MsgLayer
