import Proofs.MsgLayer.Deliver
/-!
The keys of the de-duplication table are unique: an entry is appended only when its key is not in
the table, replies are stored in place, and expiry only removes.  Hence "the" entry of an
identifier, and the expiry timer of an identifier fires exactly at the expiry recorded at the
first arrival.
-/
namespace Aiocoap.MsgLayer

/-- the keys of `_recent_messages`, in table order -/
def rkeys (s : State) : List (Remote × Nat) := s.recent.map (fun r => (r.remote, r.mid))

/-- no identifier is recorded twice -/
def KInv (s : State) : Prop := (rkeys s).Nodup

theorem rkeys_of_recent {s s' : State} (e : s'.recent = s.recent) : rkeys s' = rkeys s := by
  unfold rkeys; rw [e]

theorem storeReply_rkeys (s : State) (rem : Remote) (w : Wire) :
    rkeys (storeReply s rem w) = rkeys s := by
  unfold storeReply
  split
  · simp only [rkeys, List.map_map]
    apply List.map_congr_left
    intro a _
    simp only [Function.comp]
    split <;> rfl
  · rfl

theorem sendInitially_rkeys (s : State) (r : Remote) (w : Wire) (m : Monitor) (k : Nat) :
    rkeys (sendInitially s r w m k).1 = rkeys s := by
  unfold sendInitially
  dsimp only
  rw [storeReply_rkeys]
  split <;> rfl

theorem drainBacklog_rkeys (rem : Remote) (l : List Queued) :
    ∀ s : State, rkeys (drainBacklog s rem l).1 = rkeys s := by
  induction l with
  | nil => intro s; rfl
  | cons qd rest ih =>
    intro s
    simp only [drainBacklog]
    have h2 := sendInitially_rkeys { s with backlogs := setBacklog s.backlogs rem rest } rem qd.msg
      qd.monitor qd.maxRetr
    split
    · exact h2
    · exact (ih _).trans h2

theorem continueBacklog_rkeys (s : State) (rem : Remote) :
    rkeys (continueBacklog s rem).1 = rkeys s := by
  unfold continueBacklog
  split
  · rfl
  · split
    · rfl
    · exact drainBacklog_rkeys rem _ s

theorem removeExchange_rkeys (s : State) (rem : Remote) (w : Wire) :
    rkeys (removeExchange s rem w).1 = rkeys s := by
  unfold removeExchange
  split
  · rfl
  · simp only
    rw [continueBacklog_rkeys]
    split
    · exact rkeys_of_recent (runMonitor_recent _ _)
    · rfl

theorem dispatchOut_rkeys (s : State) (rem : Remote) (w : Wire) (mon : Monitor) (k : Nat) :
    rkeys (dispatchOut s rem w mon k).1 = rkeys s := by
  unfold dispatchOut
  split
  · rfl
  · exact sendInitially_rkeys _ _ _ _ _

theorem sendMessage_rkeys (s : State) (rem : Remote) (mc : Bool) (token : Token) (m : OutMsg)
    (wasNon : Bool) (mon : Monitor) : rkeys (sendMessage s rem mc token m wasNon mon).1 = rkeys s := by
  unfold sendMessage
  split
  · split
    · exact sendInitially_rkeys (dropPiggy s rem token) rem _ mon m.maxRetr
    · exact dispatchOut_rkeys (dropPiggy s rem token) rem _ mon m.maxRetr
  · split
    · rfl
    · dsimp only
      split
      · rfl
      · exact dispatchOut_rkeys (takeMid s).2 rem _ mon m.maxRetr

theorem sendBare_rkeys (s : State) (rem : Remote) (t : MType) (m : Nat) :
    rkeys (sendBare s rem t m).1 = rkeys s := sendInitially_rkeys _ _ _ _ _

theorem fireEmptyAck_rkeys (s : State) (rem : Remote) (token : Token) :
    rkeys (fireEmptyAck s rem token).1 = rkeys s := by
  unfold fireEmptyAck
  split
  · rfl
  · exact sendBare_rkeys (dropPiggy s rem token) _ _ _

theorem recvCode_rkeys (s : State) (rem : Remote) (mcl : Bool) (w : Wire) :
    rkeys (recvCode s rem mcl w).1 = rkeys s := by
  have hpr : rkeys (processResponse s rem w).1 = rkeys s :=
    rkeys_of_recent (processResponse_recent s rem w)
  unfold recvCode
  split
  · exact sendBare_rkeys _ _ _ _
  · split
    · rfl
    · split
      · exact (rkeys_of_recent (processRequest_recent s rem w)).trans (fireEmptyAck_rkeys s rem w.token)
      · split
        · dsimp only
          split
          · split
            · exact (sendBare_rkeys (processResponse s rem w).1 rem .ack w.mid).trans hpr
            · exact hpr
          · split
            · exact (sendBare_rkeys (processResponse s rem w).1 rem .rst w.mid).trans hpr
            · exact hpr
        · rfl

theorem recvDup_rkeys (s : State) (rem : Remote) (w : Wire) : rkeys (recvDup s rem w).1 = rkeys s := by
  unfold recvDup
  split
  · split
    · exact sendInitially_rkeys _ _ _ _ _
    · rfl
  · rfl

/-- a received datagram adds at most its own key, and only when that key is not in the table -/
theorem recv_rkeys (s : State) (rem : Remote) (mcl : Bool) (w : Wire) :
    rkeys (recv s rem mcl w).1 =
      if (!isDup s rem w && dedupable w) = true then rkeys s ++ [(rem, w.mid)] else rkeys s := by
  unfold recv
  split
  · rename_i hd
    simp only [hd, Bool.not_true, Bool.false_and, Bool.false_eq_true, ↓reduceIte]
    exact recvDup_rkeys s rem w
  · rename_i hd
    simp only [hd, Bool.not_false, Bool.true_and]
    have h0 : rkeys (if dedupable w = true then
        { s with recent := s.recent ++ [{ remote := rem, mid := w.mid, reply := none,
                                          expiry := s.now + s.cfg.exchangeLifetime }] } else s) =
        if dedupable w = true then rkeys s ++ [(rem, w.mid)] else rkeys s := by
      split
      · simp [rkeys]
      · rfl
    rw [← h0]
    generalize (if dedupable w = true then _ else s) = s0
    rw [recvCode_rkeys]
    split
    · exact removeExchange_rkeys s0 rem w
    · rfl

theorem mem_rkeys {s : State} {R : Remote} {M : Nat} : (R, M) ∈ rkeys s ↔ keyed R M s = true := by
  simp only [rkeys, keyed, List.mem_map, List.any_eq_true, Bool.and_eq_true, beq_iff_eq, Prod.mk.injEq]

/-- the keys after an event: unchanged, or one new key appended, or filtered -/
theorem handle_rkeys (s : State) (ev : Ev) :
    rkeys (handle s ev).1 = rkeys s ∨
    (∃ k, k ∉ rkeys s ∧ rkeys (handle s ev).1 = rkeys s ++ [k] ∧ ∃ mcl w, ev = .recv k.1 mcl w) ∨
    (∃ p, rkeys (handle s ev).1 = (rkeys s).filter p ∧ ∃ r m, ev = .fireExpire r m) := by
  cases ev with
  | submit r rem mc ob m =>
    left
    simp only [handle, submit]
    split
    · rfl
    · have h2 := sendMessage_rkeys (registerOutgoing s r rem mc ob) rem mc (nextToken s) m false (.req r)
      split
      · exact h2
      · exact h2
  | recv rem mcl w =>
    simp only [handle]
    split
    · left; rfl
    · rw [recv_rkeys]
      split
      · rename_i hc
        simp only [Bool.and_eq_true, Bool.not_eq_true'] at hc
        right; left
        refine ⟨(rem, w.mid), ?_, rfl, mcl, w, rfl⟩
        rw [mem_rkeys]
        have e : isDup s rem w = (dedupable w && keyed rem w.mid s) := rfl
        rw [e, hc.2] at hc
        simpa using hc.1
      · left; rfl
  | respond sv m il =>
    left
    simp only [handle, respond]
    split
    · rfl
    · rename_i i _
      have h2 := sendMessage_rkeys s i.remote false i.token m i.wasNon (.srv sv)
      split
      · exact h2
      · exact h2
  | appCancel r => left; rfl
  | error rem =>
    left
    simp only [handle, dispatchError]
    split
    · rfl
    · exact rkeys_of_recent (tokenDispatchError_recent s rem _)
  | fireRetransmit rem m =>
    left
    simp only [handle, fireRetransmit]
    split
    · rfl
    · split
      · rfl
      · exact rkeys_of_recent (tokenDispatchError_recent _ rem _)
  | fireEmptyAck rem token =>
    left
    simp only [handle, fireEmptyAck]
    split
    · rfl
    · exact sendBare_rkeys (dropPiggy s rem token) _ _ _
  | fireExpire rem m =>
    right; right
    refine ⟨fun k => !(k.1 == rem && k.2 == m), ?_, rem, m, rfl⟩
    simp only [handle, fireExpire, rkeys, List.filter_map]
    rfl
  | shutdown =>
    left
    simp only [handle, shutdown]
    split
    · rfl
    · rfl

theorem handle_KInv {s : State} (h : KInv s) (ev : Ev) : KInv (handle s ev).1 := by
  unfold KInv at *
  rcases handle_rkeys s ev with e | ⟨k, hk, e, _⟩ | ⟨p, e, _⟩
  · rw [e]; exact h
  · rw [e]; exact nodup_snoc h hk
  · rw [e]; exact List.Nodup.sublist List.filter_sublist h

theorem step_KInv {s : State} (h : KInv s) (e : TEv) : KInv (step s e).1 :=
  handle_KInv (s := setNow s e.time) h e.ev

theorem run_KInv {s : State} (h : KInv s) (es : List TEv) : KInv (run s es).1 := by
  induction es generalizing s with
  | nil => exact h
  | cons e es ih => simp only [run]; exact ih (step_KInv h e)

theorem init_KInv (cfg : Cfg) (mid token : Nat) (f : Nat → Nat) : KInv (init cfg mid token f) :=
  List.nodup_nil

/-- with unique keys, the expiry recorded for an identifier is unique -/
theorem HasEntry_unique {s : State} (hk : KInv s) {R : Remote} {M x y : Nat}
    (h1 : HasEntry s R M x) (h2 : HasEntry s R M y) : x = y := by
  obtain ⟨r1, hr1, a1, b1, c1⟩ := h1
  obtain ⟨r2, hr2, a2, b2, c2⟩ := h2
  have : r1 = r2 := map_inj_of_nodup (f := fun r : Recent => (r.remote, r.mid)) hk hr1 hr2
    (by simp only [a1, b1, a2, b2])
  subst this
  rw [← c1, ← c2]

/-- timer events never add a key -/
theorem timer_step_keyed {s : State} {R : Remote} {M : Nat} (t : Nat) (tm : Timer)
    (h : keyed R M (step s ⟨t, tm.toEv⟩).1 = true) : keyed R M s = true := by
  rw [← mem_rkeys] at h ⊢
  have e : rkeys (setNow s t) = rkeys s := rfl
  unfold step at h
  rcases handle_rkeys (setNow s t) tm.toEv with e1 | ⟨k, _, _, mcl, w, e1⟩ | ⟨p, e1, _⟩
  · rw [← e, ← e1]; exact h
  · cases tm <;> cases e1
  · rw [e1] at h
    rw [← e]
    exact (List.mem_filter.mp h).1

theorem fireExpire_not_keyed (s : State) (R : Remote) (M : Nat) :
    keyed R M (fireExpire s R M).1 = false := by
  simp only [keyed, fireExpire]
  rw [List.any_eq_false]
  intro r hr
  have := (List.mem_filter.mp hr).2
  cases hb : (r.remote == R && r.mid == M) <;> simp [hb] at this ⊢

/-- while an identifier is not in the table, the event loop has no expiry timer to fire for it -/
theorem advance_no_expire (fuel : Nat) (s : State) (bound : Nat) (R : Remote) (M : Nat)
    (hk : keyed R M s = false) : ∀ e ∈ (advance fuel s bound).2.2, e.ev ≠ .fireExpire R M := by
  induction fuel generalizing s with
  | zero => simp [advance]
  | succ n ih =>
    simp only [advance]
    split
    · simp
    · rename_i t tm he
      intro e hmem
      simp only [List.mem_cons] at hmem
      rcases hmem with rfl | hmem
      · intro hev
        have := keyed_iff.mpr ⟨t, HasEntry_of_timer (earliestBefore_mem he).1 hev⟩
        rw [hk] at this
        cases this
      · refine ih _ ?_ e hmem
        cases hk' : keyed R M (step s ⟨t, tm.toEv⟩).1 with
        | false => rfl
        | true => rw [timer_step_keyed t tm hk'] at hk; cases hk

/-- **the expiry timer of an identifier fires exactly at the recorded expiry**: with unique keys,
if `(R, M)` is recorded with expiry `x`, every expiry event for `(R, M)` that `advance` fires has
time `x` (and there is at most one: afterwards the identifier is not in the table). -/
theorem advance_fireExpire_time (fuel : Nat) (s : State) (bound : Nat) (R : Remote) (M x : Nat)
    (hK : KInv s) (h : HasEntry s R M x) :
    ∀ e ∈ (advance fuel s bound).2.2, e.ev = .fireExpire R M → e.time = x := by
  induction fuel generalizing s with
  | zero => simp [advance]
  | succ n ih =>
    simp only [advance]
    split
    · simp
    · rename_i t tm he
      intro e hmem hev
      simp only [List.mem_cons] at hmem
      by_cases h0 : tm.toEv = .fireExpire R M
      · rcases hmem with rfl | hmem
        · exact HasEntry_unique hK (HasEntry_of_timer (earliestBefore_mem he).1 h0) h
        · have hnk : keyed R M (step s ⟨t, tm.toEv⟩).1 = false := by
            rw [h0]; exact fireExpire_not_keyed (setNow s t) R M
          exact absurd hev (advance_no_expire n _ bound R M hnk e hmem)
      · rcases hmem with rfl | hmem
        · exact absurd hev h0
        · have h1 : HasEntry (step s ⟨t, tm.toEv⟩).1 R M x :=
            handle_HasEntry (s := setNow s t) (HasEntry_of_recent h rfl) _ h0
          exact ih _ (step_KInv hK _) h1 e hmem hev

end Aiocoap.MsgLayer
