import Proofs.MsgLayer.Dedup
import Proofs.MsgLayer.Schedule
/-!
Delivery accounting for the de-duplication table.

For a fixed identifier (endpoint `R`, message id `M`): every hand-over of a request `(R, M)` to
the application consumes the "free slot" of the identifier (it puts an entry with that key into
`recent`), and the only thing that ever frees the slot again is the expiry timer of `(R, M)`.
Hence, over any sequence of events,

  deliveries of (R, M)  +  free slots at the end  ≤  free slots at the start  +  expiries of (R, M).
-/
namespace Aiocoap.MsgLayer

/-- is this output a request handed to the application? -/
def isDel : Out → Bool
  | .deliver _ _ _ => true
  | _ => false

/-- number of requests (of any identifier) handed to the application -/
def delCount (os : List Out) : Nat := os.countP isDel

/-- is this output the hand-over of a request from endpoint `R` with message id `M`? -/
def isDelOf (R : Remote) (M : Nat) : Out → Bool
  | .deliver _ r w => r == R && w.mid == M
  | _ => false

/-- number of `.deliver _ R w` outputs with `w.mid = M` -/
def deliverCount (R : Remote) (M : Nat) (os : List Out) : Nat := os.countP (isDelOf R M)

/-- an entry for the identifier is in the de-duplication table -/
def keyed (R : Remote) (M : Nat) (s : State) : Bool :=
  s.recent.any (fun r => r.remote == R && r.mid == M)

/-- 1 when the identifier is not in the table (its next request will be executed), else 0 -/
def free (R : Remote) (M : Nat) (s : State) : Nat := if keyed R M s then 0 else 1

/-- 1 for the expiry timer of `(R, M)`, 0 for every other event -/
def expires (R : Remote) (M : Nat) : Ev → Nat
  | .fireExpire r m => if r == R && m == M then 1 else 0
  | _ => 0

/-- number of times the expiry timer of `(R, M)` fires in a sequence of events -/
def expiryCount (R : Remote) (M : Nat) (es : List TEv) : Nat :=
  (es.map (expires R M ∘ TEv.ev)).sum

@[simp] theorem delCount_nil : delCount [] = 0 := rfl
@[simp] theorem delCount_append (a b : List Out) : delCount (a ++ b) = delCount a + delCount b :=
  List.countP_append
@[simp] theorem deliverCount_nil (R : Remote) (M : Nat) : deliverCount R M [] = 0 := rfl
@[simp] theorem deliverCount_append (R : Remote) (M : Nat) (a b : List Out) :
    deliverCount R M (a ++ b) = deliverCount R M a + deliverCount R M b :=
  List.countP_append
@[simp] theorem expiryCount_nil (R : Remote) (M : Nat) : expiryCount R M [] = 0 := rfl
@[simp] theorem expiryCount_cons (R : Remote) (M : Nat) (e : TEv) (es : List TEv) :
    expiryCount R M (e :: es) = expires R M e.ev + expiryCount R M es := by
  simp [expiryCount]

theorem deliverCount_le_delCount (R : Remote) (M : Nat) (os : List Out) :
    deliverCount R M os ≤ delCount os := by
  induction os with
  | nil => exact Nat.le_refl _
  | cons o os ih =>
    simp only [deliverCount, delCount, List.countP_cons] at ih ⊢
    cases o <;> simp [isDelOf, isDel] <;> (try split) <;> omega

theorem deliverCount_eq_zero {os : List Out} (h : delCount os = 0) (R : Remote) (M : Nat) :
    deliverCount R M os = 0 := by
  have := deliverCount_le_delCount R M os
  omega

theorem delCount_map {α} (f : α → Out) (h : ∀ a, isDel (f a) = false) (l : List α) :
    delCount (l.map f) = 0 := by
  induction l with
  | nil => rfl
  | cons a l ih =>
    simp only [delCount, List.map_cons, List.countP_cons, h a] at ih ⊢
    simp [ih]

-- the table in terms of `HasEntry` ---------------------------------------------------------------

theorem keyed_iff {R : Remote} {M : Nat} {s : State} : keyed R M s = true ↔ ∃ x, HasEntry s R M x := by
  simp only [keyed, HasEntry, List.any_eq_true, Bool.and_eq_true, beq_iff_eq]
  constructor
  · rintro ⟨r, hr, h1, h2⟩; exact ⟨r.expiry, r, hr, h1, h2, rfl⟩
  · rintro ⟨x, r, hr, h1, h2, _⟩; exact ⟨r, hr, h1, h2⟩

theorem free_le_one (R : Remote) (M : Nat) (s : State) : free R M s ≤ 1 := by
  unfold free; split <;> omega

theorem free_mono {R : Remote} {M : Nat} {s s' : State}
    (h : keyed R M s = true → keyed R M s' = true) : free R M s' ≤ free R M s := by
  unfold free
  by_cases hk : keyed R M s = true
  · simp [hk, h hk]
  · rw [if_neg hk]; split <;> omega

-- no function other than `tokenProcessRequest` hands anything to the application ---------------

theorem sendInitially_delCount (s : State) (r : Remote) (w : Wire) (m : Monitor) (k : Nat) :
    delCount (sendInitially s r w m k).2 = 0 := rfl

theorem dispatchOut_delCount (s : State) (r : Remote) (w : Wire) (m : Monitor) (k : Nat) :
    delCount (dispatchOut s r w m k).2 = 0 := by
  unfold dispatchOut
  split
  · rfl
  · rfl

theorem sendMessage_delCount (s : State) (rem : Remote) (mc : Bool) (token : Token) (m : OutMsg)
    (wasNon : Bool) (mon : Monitor) : delCount (sendMessage s rem mc token m wasNon mon).2.1 = 0 := by
  unfold sendMessage
  split
  · split
    · rfl
    · exact dispatchOut_delCount (dropPiggy s rem token) rem _ mon m.maxRetr
  · split
    · rfl
    · dsimp only
      split
      · rfl
      · exact dispatchOut_delCount (takeMid s).2 rem _ mon m.maxRetr

theorem sendBare_delCount (s : State) (rem : Remote) (t : MType) (m : Nat) :
    delCount (sendBare s rem t m).2 = 0 := rfl

theorem fireEmptyAck_delCount (s : State) (rem : Remote) (token : Token) :
    delCount (fireEmptyAck s rem token).2 = 0 := by
  unfold fireEmptyAck
  split <;> rfl

theorem runMonitor_delCount (s : State) (m : Monitor) : delCount (runMonitor s m).2 = 0 := by
  unfold runMonitor
  cases m with
  | req r => simp only; split <;> rfl
  | srv sv => simp only; split <;> rfl
  | none => rfl

theorem tokenDispatchError_delCount (s : State) (r : Remote) (k : ErrKind) :
    delCount (tokenDispatchError s r k).2 = 0 := by
  unfold tokenDispatchError
  split
  · rfl
  · simp only [delCount_append]
    rw [delCount_map _ (fun _ => rfl), delCount_map _ (fun _ => rfl)]

theorem processResponse_delCount (s : State) (r : Remote) (w : Wire) :
    delCount (processResponse s r w).2.1 = 0 := by
  unfold processResponse
  simp only
  split
  · rfl
  · rfl

theorem drainBacklog_delCount (rem : Remote) (l : List Queued) :
    ∀ s : State, delCount (drainBacklog s rem l).2 = 0 := by
  induction l with
  | nil => intro s; rfl
  | cons qd rest ih =>
    intro s
    simp only [drainBacklog]
    split
    · rfl
    · simp only [delCount_append, ih, sendInitially_delCount]

theorem continueBacklog_delCount (s : State) (rem : Remote) :
    delCount (continueBacklog s rem).2 = 0 := by
  unfold continueBacklog
  split
  · rfl
  · split
    · rfl
    · exact drainBacklog_delCount rem _ s

theorem removeExchange_delCount (s : State) (rem : Remote) (w : Wire) :
    delCount (removeExchange s rem w).2 = 0 := by
  unfold removeExchange
  split
  · rfl
  · simp only [delCount_append, continueBacklog_delCount, Nat.add_zero]
    split
    · exact runMonitor_delCount _ _
    · rfl

theorem recvDup_delCount (s : State) (rem : Remote) (w : Wire) :
    delCount (recvDup s rem w).2 = 0 := by
  unfold recvDup
  split
  · split
    · rfl
    · rfl
  · rfl

-- the one place where requests are handed over ------------------------------------------------

theorem tokenProcessRequest_deliverCount (R : Remote) (M : Nat) (s : State) (rem : Remote) (w : Wire) :
    deliverCount R M (tokenProcessRequest s rem w).2 = if (rem == R && w.mid == M) = true then 1 else 0 := by
  unfold tokenProcessRequest
  simp only
  split <;> simp [deliverCount, isDelOf, List.countP_cons]

theorem recvCode_deliverCount (R : Remote) (M : Nat) (s : State) (rem : Remote) (mcl : Bool) (w : Wire) :
    deliverCount R M (recvCode s rem mcl w).2 ≤
      if (dedupable w && (rem == R && w.mid == M)) = true then 1 else 0 := by
  unfold recvCode
  split
  · have := deliverCount_eq_zero (sendBare_delCount s rem .rst w.mid) R M
    omega
  · split
    · simp
    · split
      · rename_i hc
        have hdd : dedupable w = true := hc
        simp only [hdd, Bool.true_and]
        unfold processRequest
        simp only [deliverCount_append]
        have h0 : deliverCount R M (fireEmptyAck s rem w.token).2 = 0 :=
          deliverCount_eq_zero (fireEmptyAck_delCount s rem w.token) R M
        rw [h0, Nat.zero_add]
        exact Nat.le_of_eq (tokenProcessRequest_deliverCount R M _ rem w)
      · split
        · dsimp only
          split
          · split
            · have := deliverCount_eq_zero (sendBare_delCount (processResponse s rem w).1 rem .ack w.mid) R M
              have hpr := deliverCount_eq_zero (processResponse_delCount s rem w) R M
              simp only [deliverCount_append]
              rw [hpr]; omega
            · have hpr := deliverCount_eq_zero (processResponse_delCount s rem w) R M
              simp only; rw [hpr]; omega
          · split
            · have := deliverCount_eq_zero (sendBare_delCount (processResponse s rem w).1 rem .rst w.mid) R M
              omega
            · have hpr := deliverCount_eq_zero (processResponse_delCount s rem w) R M
              simp only; rw [hpr]; omega
        · simp

/-- a request whose identifier is not in the table is recorded, whatever its type -/
theorem recv_HasEntry_of_new {s : State} {rem : Remote} {w : Wire} (mcl : Bool)
    (hreq : dedupable w = true) (hnew : isDup s rem w = false) :
    HasEntry (recv s rem mcl w).1 rem w.mid (s.now + s.cfg.exchangeLifetime) := by
  unfold recv
  rw [if_neg (by simp [hnew])]
  dsimp only
  rw [if_pos hreq]
  apply recvCode_HasEntry
  have h0 : HasEntry
      { s with recent := s.recent ++ [{ remote := rem, mid := w.mid, reply := none,
                                        expiry := s.now + s.cfg.exchangeLifetime }] }
      rem w.mid (s.now + s.cfg.exchangeLifetime) :=
    ⟨_, List.mem_append_right _ (List.mem_singleton.mpr rfl), rfl, rfl, rfl⟩
  split
  · exact removeExchange_HasEntry h0 _ _
  · exact h0

theorem recv_deliverCount (R : Remote) (M : Nat) (s : State) (rem : Remote) (mcl : Bool) (w : Wire) :
    deliverCount R M (recv s rem mcl w).2 ≤
      if (!isDup s rem w && (dedupable w && (rem == R && w.mid == M))) = true then 1 else 0 := by
  unfold recv
  split
  · have := deliverCount_eq_zero (recvDup_delCount s rem w) R M
    omega
  · rename_i hd
    simp only [hd, Bool.not_false, Bool.true_and]
    generalize (if dedupable w = true then _ else s) = s0
    generalize hp : (if fitsReply w = true then
      removeExchange s0 rem w else (s0, [])) = p
    have h1 : delCount p.2 = 0 := by
      rw [← hp]
      split
      · exact removeExchange_delCount _ _ _
      · rfl
    have h1' := deliverCount_eq_zero h1 R M
    have h2 := recvCode_deliverCount R M p.1 rem mcl w
    simp only [deliverCount_append]
    rw [h1']
    omega

/-- the accounting step for a received datagram -/
theorem recv_account (R : Remote) (M : Nat) (s : State) (rem : Remote) (mcl : Bool) (w : Wire) :
    deliverCount R M (recv s rem mcl w).2 + free R M (recv s rem mcl w).1 ≤ free R M s := by
  have hd := recv_deliverCount R M s rem mcl w
  have hmono : free R M (recv s rem mcl w).1 ≤ free R M s := free_mono fun hk => by
    obtain ⟨x, hx⟩ := keyed_iff.mp hk
    exact keyed_iff.mpr ⟨x, recv_HasEntry hx _ _ _⟩
  by_cases hc : (!isDup s rem w && (dedupable w && (rem == R && w.mid == M))) = true
  · rw [if_pos hc] at hd
    simp only [Bool.and_eq_true, Bool.not_eq_true', beq_iff_eq] at hc
    obtain ⟨hnew, hreq, rfl, rfl⟩ := hc
    have hk' : keyed rem w.mid (recv s rem mcl w).1 = true :=
      keyed_iff.mpr ⟨_, recv_HasEntry_of_new mcl hreq hnew⟩
    have hk : keyed rem w.mid s = false := by
      have e : isDup s rem w = (dedupable w && keyed rem w.mid s) := rfl
      rw [e, hreq] at hnew
      simpa using hnew
    simp only [free, hk', hk] at hmono ⊢
    simp only [↓reduceIte, Bool.false_eq_true] at ⊢
    omega
  · rw [if_neg hc] at hd
    omega

theorem handle_delCount (s : State) (ev : Ev) (h : ∀ rem mcl w, ev ≠ .recv rem mcl w) :
    delCount (handle s ev).2 = 0 := by
  cases ev with
  | submit r rem mc ob m =>
    simp only [handle, submit]
    split
    · rfl
    · have h2 := sendMessage_delCount (registerOutgoing s r rem mc ob) rem mc (nextToken s) m false (.req r)
      split
      · simp only [delCount_append]; rw [h2]; rfl
      · exact h2
  | recv rem mcl w => exact absurd rfl (h rem mcl w)
  | respond sv m il =>
    simp only [handle, respond]
    split
    · rfl
    · rename_i i _
      have h2 := sendMessage_delCount s i.remote false i.token m i.wasNon (.srv sv)
      split
      · exact h2
      · exact h2
  | appCancel r => rfl
  | error rem =>
    simp only [handle, dispatchError]
    split
    · rfl
    · exact tokenDispatchError_delCount s rem _
  | fireRetransmit rem m =>
    simp only [handle, fireRetransmit]
    split
    · rfl
    · split
      · rfl
      · exact tokenDispatchError_delCount _ rem _
  | fireEmptyAck rem token =>
    simp only [handle, fireEmptyAck]
    split
    · rfl
    · rfl
  | fireExpire rem m => rfl
  | shutdown =>
    simp only [handle, shutdown]
    split
    · rfl
    · simp only [delCount_append]
      rw [delCount_map _ (fun _ => rfl), delCount_map _ (fun _ => rfl)]

/-- **the accounting step**: for every state and every event, deliveries of `(R, M)` plus the
free slot afterwards are covered by the free slot before plus the expiry of `(R, M)` -/
theorem handle_account (R : Remote) (M : Nat) (s : State) (ev : Ev) :
    deliverCount R M (handle s ev).2 + free R M (handle s ev).1 ≤ free R M s + expires R M ev := by
  by_cases hev : ev = .fireExpire R M
  · subst hev
    have h1 := free_le_one R M (handle s (.fireExpire R M)).1
    have h2 : deliverCount R M (handle s (.fireExpire R M)).2 = 0 := rfl
    have h3 : expires R M (.fireExpire R M) = 1 := by simp [expires]
    omega
  · have hm : free R M (handle s ev).1 ≤ free R M s := free_mono fun hk => by
      obtain ⟨x, hx⟩ := keyed_iff.mp hk
      exact keyed_iff.mpr ⟨x, handle_HasEntry hx ev hev⟩
    by_cases hr : ∃ rem mcl w, ev = .recv rem mcl w
    · obtain ⟨rem, mcl, w, rfl⟩ := hr
      simp only [handle]
      split
      · simp [free]
      · exact Nat.le_trans (recv_account R M s rem mcl w) (Nat.le_add_right _ _)
    · have h0 := deliverCount_eq_zero (handle_delCount s ev fun rem mcl w h => hr ⟨rem, mcl, w, h⟩) R M
      omega

theorem step_account (R : Remote) (M : Nat) (s : State) (e : TEv) :
    deliverCount R M (step s e).2 + free R M (step s e).1 ≤ free R M s + expires R M e.ev :=
  handle_account R M (setNow s e.time) e.ev

/-- **the accounting invariant over runs** -/
theorem run_account (R : Remote) (M : Nat) (s : State) (es : List TEv) :
    deliverCount R M (run s es).2 + free R M (run s es).1 ≤ free R M s + expiryCount R M es := by
  induction es generalizing s with
  | nil => simp [run]
  | cons e es ih =>
    have h1 := step_account R M s e
    have h2 := ih (step s e).1
    simp only [run, expiryCount_cons, deliverCount_append]
    omega

theorem expiryCount_eq_zero {R : Remote} {M : Nat} {es : List TEv}
    (h : ∀ e ∈ es, e.ev ≠ .fireExpire R M) : expiryCount R M es = 0 := by
  induction es with
  | nil => rfl
  | cons e es ih =>
    rw [expiryCount_cons, ih (fun e' he' => h e' (List.mem_cons_of_mem _ he'))]
    have h0 := h e List.mem_cons_self
    cases hev : e.ev with
    | fireExpire r m =>
      simp only [expires, Nat.add_zero]
      split
      · rename_i hc
        simp only [Bool.and_eq_true, beq_iff_eq] at hc
        rw [hev, hc.1, hc.2] at h0
        exact absurd rfl h0
      · rfl
    | _ => rfl

-- runs and the timers the event loop fires -------------------------------------------------------

theorem run_append (s : State) (es fs : List TEv) :
    run s (es ++ fs) = ((run (run s es).1 fs).1, (run s es).2 ++ (run (run s es).1 fs).2) := by
  induction es generalizing s with
  | nil => simp [run]
  | cons e es ih => simp only [List.cons_append, run, ih, List.append_assoc]

/-- `advance` is `run` on the timer events it reports -/
theorem advance_eq_run (fuel : Nat) (s : State) (bound : Nat) :
    run s (advance fuel s bound).2.2 = ((advance fuel s bound).1, (advance fuel s bound).2.1) := by
  induction fuel generalizing s with
  | zero => rfl
  | succ n ih =>
    simp only [advance]
    split
    · rfl
    · simp only [run, ih]

/-- a pending expiry timer belongs to a table entry with that key and that expiry -/
theorem HasEntry_of_timer {s : State} {R : Remote} {M t : Nat} {tm : Timer}
    (hmem : (t, tm) ∈ timers s) (hev : tm.toEv = .fireExpire R M) : HasEntry s R M t := by
  cases tm with
  | retransmit r m => cases hev
  | emptyAck r tok => cases hev
  | expire r m =>
    simp only [Timer.toEv, Ev.fireExpire.injEq] at hev
    obtain ⟨rfl, rfl⟩ := hev
    simp only [timers, List.mem_append, List.mem_map] at hmem
    rcases hmem with (⟨e, _, heq⟩ | ⟨p, _, heq⟩) | ⟨q, hq, heq⟩
    · simp at heq
    · simp at heq
    · simp only [Prod.mk.injEq, Timer.expire.injEq] at heq
      exact ⟨q, hq, heq.2.1, heq.2.2, heq.1⟩

/-- every expiry event fired by `advance` fires at the expiry recorded in an entry with its key,
in the state it fires in (the state reached by the timer events fired before it) -/
theorem advance_fireExpire (fuel : Nat) (s : State) (bound : Nat) (R : Remote) (M : Nat)
    (pre post : List TEv) (e : TEv) (hsplit : (advance fuel s bound).2.2 = pre ++ e :: post)
    (hev : e.ev = .fireExpire R M) : HasEntry (run s pre).1 R M e.time ∧ e.time < bound := by
  induction fuel generalizing s pre with
  | zero => simp [advance] at hsplit
  | succ n ih =>
    simp only [advance] at hsplit
    split at hsplit
    · simp at hsplit
    · rename_i t tm he
      simp only at hsplit
      cases pre with
      | nil =>
        simp only [List.nil_append, List.cons.injEq] at hsplit
        obtain ⟨rfl, _⟩ := hsplit
        have hm := earliestBefore_mem he
        exact ⟨HasEntry_of_timer hm.1 hev, hm.2⟩
      | cons p pre =>
        simp only [List.cons_append, List.cons.injEq] at hsplit
        obtain ⟨rfl, hrest⟩ := hsplit
        simp only [run]
        exact ih _ pre hrest

end Aiocoap.MsgLayer
