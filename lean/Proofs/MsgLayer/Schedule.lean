import Proofs.MsgLayer.Retransmit
/-!
The driver's `advance` (what the event loop does between two external events: fire the pending
timers earliest-first) only produces `Timely` event sequences, i.e. the sequences the C03 schedule
theorem quantifies over are exactly what the correspondence runs.
-/
namespace Aiocoap.MsgLayer

theorem earliestBefore_mem {s : State} {bound : Nat} {t : Nat} {tm : Timer}
    (h : earliestBefore s bound = some (t, tm)) : (t, tm) ∈ timers s ∧ t < bound := by
  unfold earliestBefore at h
  have key : ∀ (l : List (Nat × Timer)) (acc : Option (Nat × Timer)),
      (∀ a, acc = some a → (a ∈ timers s ∧ a.1 < bound)) → (∀ x ∈ l, x ∈ timers s) →
      ∀ r, l.foldl (fun acc t =>
        if t.1 < bound then
          match acc with
          | none => some t
          | some a => if t.1 < a.1 then some t else some a
        else acc) acc = some r → (r ∈ timers s ∧ r.1 < bound) := by
    intro l
    induction l with
    | nil => intro acc hacc _ r hr; exact hacc r hr
    | cons x xs ih =>
      intro acc hacc hl r hr
      simp only [List.foldl_cons] at hr
      apply ih _ _ (fun y hy => hl y (List.mem_cons_of_mem _ hy)) r hr
      intro a ha
      by_cases hx : x.1 < bound
      · simp only [hx, ↓reduceIte] at ha
        cases acc with
        | none => simp at ha; subst ha; exact ⟨hl x List.mem_cons_self, hx⟩
        | some a0 =>
          simp only at ha
          split at ha
          · simp at ha; subst ha; exact ⟨hl x List.mem_cons_self, hx⟩
          · simp at ha; subst ha; exact hacc a0 rfl
      · simp only [hx, ↓reduceIte] at ha
        exact hacc a ha
  exact key (timers s) none (by intro a ha; cases ha) (fun x hx => hx) (t, tm) h

/-- a timer event taken from the pending-timer list is timely (given one exchange per remote) -/
theorem timer_event_timely {s : State} (hn : NInv s) {t : Nat} {tm : Timer}
    (hmem : (t, tm) ∈ timers s) : TimelyEv s { time := t, ev := tm.toEv } := by
  unfold TimelyEv
  cases tm with
  | emptyAck r tok => simp [Timer.toEv]
  | expire r m => simp [Timer.toEv]
  | retransmit r m =>
    simp only [Timer.toEv]
    cases hf : findExchange s r m with
    | none => trivial
    | some x =>
      simp only
      -- the timer entry comes from an exchange with this key; by uniqueness it is `x`
      simp only [timers, List.mem_append, List.mem_map] at hmem
      rcases hmem with (⟨e, he, heq⟩ | ⟨p, _, heq⟩) | ⟨q, _, heq⟩
      · simp only [Prod.mk.injEq, Timer.retransmit.injEq] at heq
        obtain ⟨h1, h2, h3⟩ := heq
        have hx : x ∈ s.exchanges := List.mem_of_find?_eq_some hf
        have hxk : x.remote = r := by
          have := List.find?_some hf
          simp only [Bool.and_eq_true, beq_iff_eq] at this
          exact this.1
        have : e = x := map_inj_of_nodup hn.exNodup he hx (by rw [h2, hxk])
        subst this
        exact h1.symm
      · simp at heq
      · simp at heq

theorem advance_Timely (fuel : Nat) {s : State} (h : Inv s) (bound : Nat) :
    Timely s (advance fuel s bound).2.2 := by
  induction fuel generalizing s with
  | zero => simp [advance, Timely]
  | succ n ih =>
    simp only [advance]
    cases he : earliestBefore s bound with
    | none => simp [Timely]
    | some p =>
      obtain ⟨t, tm⟩ := p
      simp only
      refine ⟨timer_event_timely h.n (earliestBefore_mem he).1, ?_⟩
      exact ih (step_Inv h _)

end Aiocoap.MsgLayer
