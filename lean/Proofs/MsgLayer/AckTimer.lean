import Proofs.MsgLayer.AckBudget
import Proofs.MsgLayer.Schedule
/-!
Liveness half of "acknowledged exactly once": a pending piggy-back opportunity is consumed by its
own empty-ACK timer at the latest.  Needs that there is at most one opportunity per
(remote, token) (`PInv`; `_process_request` replaces an older one), so that the timer, which looks
the opportunity up by that key, finds *this* opportunity.
-/
namespace Aiocoap.MsgLayer

def pkey (p : Piggy) : Remote × Token := (p.remote, p.token)

/-- at most one pending opportunity per (remote, token) -/
def PInv (s : State) : Prop := (s.piggy.map pkey).Nodup

theorem init_PInv (cfg : Cfg) (mid token : Nat) (f : Nat → Nat) : PInv (init cfg mid token f) :=
  List.nodup_nil

theorem PInv_of_sublist {s s' : State} (h : PInv s) (hs : s'.piggy.Sublist s.piggy) : PInv s' :=
  List.Nodup.sublist (hs.map pkey) h

theorem PInv_of_piggy {s s' : State} (h : PInv s) (e : s'.piggy = s.piggy) : PInv s' := by
  unfold PInv; rw [e]; exact h

theorem PInv_unique {s : State} (h : PInv s) {p q : Piggy} (hp : p ∈ s.piggy) (hq : q ∈ s.piggy)
    (hr : p.remote = q.remote) (ht : p.token = q.token) : p = q :=
  map_inj_of_nodup h hp hq (by simp [pkey, hr, ht])

-- how the handlers change the table ----------------------------------------------------------------

/-- the handler only removes opportunities -/
def PSub (s : State) (res : State × List Out) : Prop := res.1.piggy.Sublist s.piggy

theorem PSub_of_Quiet {s : State} {res : State × List Out} (h : Quiet s res) : PSub s res := by
  unfold PSub; rw [h.pg]; exact List.Sublist.refl _

theorem piggy_dispatchOut (s : State) (r : Remote) (w : Wire) (mon : Monitor) (k : Nat) :
    (dispatchOut s r w mon k).1.piggy = s.piggy := by
  unfold dispatchOut
  split
  · rfl
  · exact piggy_sendInitially s r w mon k

theorem sendMessage_PSub (s : State) (remote : Remote) (mc : Bool) (token : Token) (m : OutMsg)
    (wasNon : Bool) (mon : Monitor) :
    (sendMessage s remote mc token m wasNon mon).1.piggy.Sublist s.piggy := by
  have hd : (dropPiggy s remote token).piggy.Sublist s.piggy := List.filter_sublist
  unfold sendMessage
  split
  · rename_i p _
    split
    · have := piggy_sendInitially (dropPiggy s remote token) remote
        { mtype := .ack, code := 0, mid := p.mid, token := [], obs := none, body := 0 } mon m.maxRetr
      exact this ▸ hd
    · have := piggy_dispatchOut (dropPiggy s remote token) remote
        { mtype := .ack, code := m.code, mid := p.mid, token := token, obs := m.obs, body := m.body }
        mon m.maxRetr
      exact this ▸ hd
  · split
    · exact List.Sublist.refl _
    · dsimp only
      split
      · exact List.Sublist.refl _
      · have := piggy_dispatchOut (takeMid s).2 remote
          { mtype := chooseType s mc wasNon m, code := m.code, mid := (takeMid s).1, token := token,
            obs := m.obs, body := m.body } mon m.maxRetr
        exact this ▸ List.Sublist.refl _

theorem fireEmptyAck_piggy (s : State) (remote : Remote) (token : Token) :
    (fireEmptyAck s remote token).1.piggy = s.piggy ∨
    (fireEmptyAck s remote token).1.piggy =
      s.piggy.filter (fun p => !(p.remote == remote && p.token == token)) := by
  unfold fireEmptyAck
  split
  · exact Or.inl rfl
  · exact Or.inr (piggy_sendInitially _ _ _ _ _)

theorem fireEmptyAck_PSub (s : State) (remote : Remote) (token : Token) :
    PSub s (fireEmptyAck s remote token) := by
  unfold PSub
  rcases fireEmptyAck_piggy s remote token with h | h <;> rw [h]
  · exact List.Sublist.refl _
  · exact List.filter_sublist

theorem fireRetransmit_piggy (s : State) (remote : Remote) (mid : Nat) :
    (fireRetransmit s remote mid).1.piggy = s.piggy := by
  unfold fireRetransmit
  split
  · rfl
  · dsimp only
    split
    · rfl
    · exact (tokenDispatchError_Quiet (dropBacklog (dropExchange s remote mid) remote) remote
        .conRetransmitsExceeded).pg

/-- after the flush no opportunity is left under that key -/
theorem fireEmptyAck_nokey (s : State) (remote : Remote) (token : Token) :
    ∀ x ∈ (fireEmptyAck s remote token).1.piggy, (x.remote == remote && x.token == token) = false := by
  unfold fireEmptyAck
  split
  · rename_i hn
    intro x hx
    have := List.find?_eq_none.mp hn x hx
    simpa using this
  · intro x hx
    unfold sendBare at hx
    rw [piggy_sendInitially] at hx
    have hf := (List.mem_filter.mp hx).2
    cases hb : (x.remote == remote && x.token == token)
    · rfl
    · rw [hb] at hf; cases hf

theorem processRequest_PInv {s : State} (h : PInv s) (remote : Remote) (w : Wire) :
    PInv (processRequest s remote w).1 := by
  have h0 : PInv (fireEmptyAck s remote w.token).1 := PInv_of_sublist h (fireEmptyAck_PSub s remote w.token)
  have hk := fireEmptyAck_nokey s remote w.token
  unfold processRequest
  simp only
  generalize (fireEmptyAck s remote w.token).1 = s0 at h0 hk
  split
  · refine PInv_of_piggy ?_ (tokenProcessRequest_Quiet _ remote w).pg
    show ((s0.piggy ++
        [({ remote, token := w.token, mid := w.mid, fireAt := s0.now + s0.cfg.emptyAckDelay } : Piggy)]).map
          pkey).Nodup
    simp only [List.map_append, List.map_cons, List.map_nil]
    refine nodup_snoc h0 ?_
    intro hin
    obtain ⟨x, hx, hk'⟩ := List.mem_map.mp hin
    have hf := hk x hx
    simp only [pkey, Prod.mk.injEq] at hk'
    simp [hk'.1, hk'.2] at hf
  · exact PInv_of_piggy h0 (tokenProcessRequest_Quiet s0 remote w).pg

theorem recvCode_PInv {s : State} (h : PInv s) (remote : Remote) (mcl : Bool) (w : Wire) :
    PInv (recvCode s remote mcl w).1 := by
  have hp : PInv (processResponse s remote w).1 := PInv_of_piggy h (processResponse_Quiet s remote w).pg
  unfold recvCode
  split
  · exact PInv_of_piggy h (piggy_sendInitially _ _ _ _ _)
  · split
    · exact h
    · split
      · exact processRequest_PInv h remote w
      · split
        · dsimp only
          split
          · split
            · exact PInv_of_piggy hp (piggy_sendInitially (processResponse s remote w).1 remote
                { mtype := .ack, code := 0, mid := w.mid, token := [], obs := none, body := 0 } .none 0)
            · exact hp
          · split
            · exact PInv_of_piggy hp (piggy_sendInitially (processResponse s remote w).1 remote
                { mtype := .rst, code := 0, mid := w.mid, token := [], obs := none, body := 0 } .none 0)
            · exact hp
        · exact h

theorem recv_PInv {s : State} (hq : QInv s) (h : PInv s) (remote : Remote) (mcl : Bool) (w : Wire) :
    PInv (recv s remote mcl w).1 := by
  unfold recv
  split
  · unfold recvDup
    split
    · split
      · exact PInv_of_piggy h (piggy_sendInitially _ _ _ _ _)
      · exact h
    · exact h
  · dsimp only
    apply recvCode_PInv
    generalize hs0 : (if dedupable w = true then
        ({ s with recent := s.recent ++ [(⟨remote, w.mid, none, s.now + s.cfg.exchangeLifetime⟩ : Recent)] } : State)
        else s) = s0
    have e0 : s0.piggy = s.piggy := by
      rw [← hs0]; split <;> rfl
    have hq0 : QInv s0 := by
      rw [← hs0]; split
      · exact QInv_of_tables hq rfl rfl
      · exact hq
    split
    · exact PInv_of_piggy h ((removeExchange_Quiet hq0 remote w).pg.trans e0)
    · exact PInv_of_piggy h e0

theorem handle_PInv {s : State} (hq : QInv s) (h : PInv s) (ev : Ev) : PInv (handle s ev).1 := by
  cases ev with
  | submit r remote mc ob m =>
    simp only [handle, submit]
    split
    · exact h
    · have h2 : PInv (sendMessage (registerOutgoing s r remote mc ob) remote mc (nextToken s) m false
          (.req r)).1 :=
        PInv_of_sublist (s := registerOutgoing s r remote mc ob) h (sendMessage_PSub _ _ _ _ _ _ _)
      split
      · exact PInv_of_piggy h2 rfl
      · exact h2
  | recv remote mcl w =>
    simp only [handle]; split
    · exact h
    · exact recv_PInv hq h _ _ _
  | respond sv m il =>
    simp only [handle, respond]
    split
    · exact h
    · rename_i i _
      have h2 := PInv_of_sublist h (sendMessage_PSub s i.remote false i.token m i.wasNon (.srv sv))
      split
      · exact PInv_of_piggy h2 rfl
      · exact h2
  | appCancel r => exact PInv_of_piggy h rfl
  | error remote => exact PInv_of_piggy h (dispatchError_Quiet s remote).pg
  | fireRetransmit remote mid => exact PInv_of_piggy h (fireRetransmit_piggy s remote mid)
  | fireEmptyAck remote token => exact PInv_of_sublist h (fireEmptyAck_PSub s remote token)
  | fireExpire remote mid => exact PInv_of_piggy h rfl
  | shutdown =>
    simp only [handle, shutdown]
    split
    · exact h
    · exact List.nodup_nil

theorem step_PInv {s : State} (hq : QInv s) (h : PInv s) (e : TEv) : PInv (step s e).1 := by
  unfold step
  exact handle_PInv (s := setNow s e.time) (QInv_of_tables hq rfl rfl) (PInv_of_piggy h rfl) e.ev

theorem run_PInv {s : State} (hq : QInv s) (h : PInv s) (es : List TEv) : PInv (run s es).1 := by
  induction es generalizing s with
  | nil => exact h
  | cons e es ih => simp only [run]; exact ih (step_QInv hq e) (step_PInv hq h e)

-- timers ------------------------------------------------------------------------------------------

theorem earliestBefore_none {s : State} {bound : Nat} (h : earliestBefore s bound = none) :
    ∀ x ∈ timers s, ¬ x.1 < bound := by
  unfold earliestBefore at h
  have key : ∀ (l : List (Nat × Timer)) (acc : Option (Nat × Timer)),
      l.foldl (fun acc t =>
        if t.1 < bound then
          match acc with
          | none => some t
          | some a => if t.1 < a.1 then some t else some a
        else acc) acc = none → acc = none ∧ ∀ x ∈ l, ¬ x.1 < bound := by
    intro l
    induction l with
    | nil => intro acc h; exact ⟨h, fun x hx => by cases hx⟩
    | cons x xs ih =>
      intro acc h
      simp only [List.foldl_cons] at h
      obtain ⟨h1, h2⟩ := ih _ h
      by_cases hx : x.1 < bound
      · simp only [hx, ↓reduceIte] at h1
        cases acc with
        | none => simp at h1
        | some a => simp only at h1; split at h1 <;> cases h1
      · simp only [hx, ↓reduceIte] at h1
        refine ⟨h1, ?_⟩
        intro y hy
        rcases List.mem_cons.mp hy with rfl | hy'
        · exact hx
        · exact h2 y hy'
  exact (key (timers s) none h).2

theorem piggy_timer_mem {s : State} {p : Piggy} (hp : p ∈ s.piggy) :
    (p.fireAt, Timer.emptyAck p.remote p.token) ∈ timers s := by
  simp only [timers, List.mem_append, List.mem_map]
  exact Or.inl (Or.inr ⟨p, hp, rfl⟩)

/-- the pending timer entry with `p`'s key is `p`'s own: it is due at `p.fireAt` -/
theorem piggy_timer_time {s : State} (hk : PInv s) {p : Piggy} (hp : p ∈ s.piggy) {t : Nat}
    (hm : (t, Timer.emptyAck p.remote p.token) ∈ timers s) : t = p.fireAt := by
  simp only [timers, List.mem_append, List.mem_map] at hm
  rcases hm with (⟨e, _, heq⟩ | ⟨q, hq, heq⟩) | ⟨r, _, heq⟩
  · simp at heq
  · simp only [Prod.mk.injEq, Timer.emptyAck.injEq] at heq
    obtain ⟨h1, h2, h3⟩ := heq
    have : q = p := PInv_unique hk hq hp h2 h3
    subst this
    exact h1.symm
  · simp at heq

/-- the empty-ACK timer of `p`'s key finds `p` and acknowledges under `p`'s message ID -/
theorem fireEmptyAck_fires {s : State} (hk : PInv s) {p : Piggy} (hp : p ∈ s.piggy) :
    (fireEmptyAck s p.remote p.token).2 =
      [.send s.now p.remote { mtype := .ack, code := 0, mid := p.mid, token := [], obs := none, body := 0 }] := by
  unfold fireEmptyAck
  split
  · rename_i hf
    rw [List.find?_eq_none] at hf
    exact absurd (hf p hp) (by simp)
  · rename_i q hf
    obtain ⟨hq, hr, ht⟩ := find_piggy_spec hf
    have : q = p := PInv_unique hk hq hp hr ht
    subst this
    rfl

/-- a timer other than `p`'s own leaves `p` pending -/
theorem timer_step_keeps {s : State} {p : Piggy} (hp : p ∈ s.piggy) (t : Nat) (tm : Timer)
    (hne : tm ≠ .emptyAck p.remote p.token) : p ∈ (step s ⟨t, tm.toEv⟩).1.piggy := by
  cases tm with
  | retransmit r m =>
    simp only [step, Timer.toEv, handle]
    rw [fireRetransmit_piggy]; exact hp
  | expire r m => exact hp
  | emptyAck r tok =>
    simp only [step, Timer.toEv, handle]
    rcases fireEmptyAck_piggy (setNow s t) r tok with h | h <;> rw [h]
    · exact hp
    · refine List.mem_filter.mpr ⟨hp, ?_⟩
      have : ¬ (p.remote = r ∧ p.token = tok) := by
        rintro ⟨rfl, rfl⟩; exact hne rfl
      cases hb : (p.remote == r && p.token == tok) with
      | false => rfl
      | true => simp only [Bool.and_eq_true, beq_iff_eq] at hb; exact absurd hb this

theorem timer_step_PInv {s : State} (hk : PInv s) (t : Nat) (tm : Timer) :
    PInv (step s ⟨t, tm.toEv⟩).1 := by
  cases tm with
  | retransmit r m =>
    exact PInv_of_piggy (s := setNow s t) (PInv_of_piggy hk rfl) (fireRetransmit_piggy _ r m)
  | expire r m => exact PInv_of_piggy hk rfl
  | emptyAck r tok =>
    exact PInv_of_sublist (s := setNow s t) (PInv_of_piggy hk rfl) (fireEmptyAck_PSub _ r tok)

/-- **the opportunity's deadline**: when the event loop runs the timers due before `bound`
(`advance`) and is not cut short by its fuel, a pending opportunity `p` due before `bound` has
produced its empty ACK — at `p.fireAt`, to `p.remote`, under `p.mid`. -/
theorem advance_fires (fuel : Nat) :
    ∀ (s : State) (bound : Nat) (p : Piggy), PInv s → p ∈ s.piggy → p.fireAt < bound →
      (advance fuel s bound).2.2.length < fuel →
      Out.send p.fireAt p.remote
        { mtype := .ack, code := 0, mid := p.mid, token := [], obs := none, body := 0 } ∈
          (advance fuel s bound).2.1 := by
  induction fuel with
  | zero => intro s bound p _ _ _ hf; simp [advance] at hf
  | succ n ih =>
    intro s bound p hk hp hb hf
    simp only [advance] at hf ⊢
    cases he : earliestBefore s bound with
    | none => exact absurd hb (earliestBefore_none he _ (piggy_timer_mem hp))
    | some x =>
      obtain ⟨t, tm⟩ := x
      simp only [he, List.length_cons] at hf ⊢
      by_cases htm : tm = .emptyAck p.remote p.token
      · subst htm
        have ht : t = p.fireAt := piggy_timer_time hk hp (earliestBefore_mem he).1
        subst ht
        apply List.mem_append_left
        have := fireEmptyAck_fires (s := setNow s p.fireAt) (PInv_of_piggy hk rfl) hp
        simp only [step, Timer.toEv, handle]
        rw [this]
        exact List.mem_singleton.mpr rfl
      · apply List.mem_append_right
        refine ih _ bound p (timer_step_PInv hk t tm) (timer_step_keeps hp t tm htm) hb ?_
        exact Nat.lt_of_succ_lt_succ hf

end Aiocoap.MsgLayer
