import Properties.C14Queue
import Proofs.MsgLayer.Queue
import Proofs.MsgLayer.Deliver
/-!
# The per-remote queue of confirmable messages is a FIFO queue — for every event

`pending s R` (`Properties/C14Queue.lean`) is the message in flight to `R` followed by the
held-back ones.  This file computes, for **every** event `ev` and **every** remote `R`, what the
handler does to that list:

    pending (handle s ev).1 R = (pending s R).drop (departures s R ev) ++ arrivals s R ev

where `arrivals s R ev` are the confirmable messages the application hands to the message layer for
`R` in this event (at most one: a `submit`/`respond` that `send_message` types CON) and
`departures s R ev` is the number of messages that leave the queue *at its head*: one when an
ACK/RST matches the exchange in flight, the whole queue when the remote errors, the exchange gives
up, or the library shuts down, zero otherwise.  Nothing is ever removed from the middle, inserted
before the tail, or reordered.

(The bare shape `∃ k xs, p' = p.drop k ++ xs` alone would say nothing — `k := p.length`,
`xs := p'` satisfies it for any two lists — which is why `k` and `xs` are pinned to the event.)

It also computes which confirmable messages go on the wire to `R` (`conSends`): for every event
other than a retransmission timer of `R`, exactly the new head of `R`'s queue when the queue was
empty or its head departed in this step, and nothing otherwise; a retransmission timer of `R`
repeats the (unchanged) head.  Lifted to runs at the end (`run_Fifo`).
-/
namespace Aiocoap.MsgLayer

-- the definitions the statements are about -------------------------------------------------------

/-- the confirmable messages put on the wire to `R` among the outputs `os` -/
def conSends (R : Remote) (os : List Out) : List Wire :=
  os.filterMap fun o =>
    match o with
    | .send _ r w => if r == R && w.mtype == .con then some w else none
    | _ => none

/-- the confirmable message `send_message` hands to the NSTART queue (`dispatchOut`) for this
submission, if any: no piggy-backed ACK is possible, the No-Response option does not suppress the
message, `chooseType` settles on CON and the destination is not multicast.  It carries the next
message ID. -/
def offeredCon (s : State) (remote : Remote) (mc : Bool) (token : Token) (m : OutMsg)
    (wasNon : Bool) : List Wire :=
  match findPiggy s remote token m with
  | some _ => []
  | none =>
    if suppressed m then []
    else if chooseType s mc wasNon m == .con && !mc then
      [{ mtype := .con, code := m.code, mid := s.nextMid, token, obs := m.obs, body := m.body }]
    else []

/-- the confirmable messages for `R` that event `ev` hands to the message layer in state `s` -/
def arrivals (s : State) (R : Remote) : Ev → List Wire
  | .submit _ remote mc _ m =>
    if s.shutTok then []
    else if remote == R then offeredCon s remote mc (nextToken s) m false else []
  | .respond sv m _ =>
    match s.incoming.find? (fun i => i.srv == sv) with
    | some i => if i.remote == R then offeredCon s i.remote false i.token m i.wasNon else []
    | none => []
  | _ => []

/-- how many messages leave `R`'s queue (at its head) in event `ev`: one when an ACK/RST from `R`
(empty, or an ACK with a response code; layer not shut down) carries the ID of the exchange in flight; all of
them when `R` errors, the exchange in flight gives up, or the library shuts down -/
def departures (s : State) (R : Remote) : Ev → Nat
  | .recv remote _ w =>
    if s.shutMsg then 0
    else if isDup s remote w then 0
    else if fitsReply w && remote == R &&
        (findExchange s remote w.mid).isSome then 1
    else 0
  | .error remote => if s.shutMsg then 0 else if remote == R then (pending s R).length else 0
  | .fireRetransmit remote mid =>
    match findExchange s remote mid with
    | some e => if e.counter < e.maxRetr then 0 else if remote == R then (pending s R).length else 0
    | none => 0
  | .shutdown => if s.shutTok then 0 else (pending s R).length
  | _ => 0

-- list-level facts -------------------------------------------------------------------------------

theorem conSends_append (R : Remote) (a b : List Out) :
    conSends R (a ++ b) = conSends R a ++ conSends R b := by
  simp only [conSends, List.filterMap_append]

@[simp] theorem conSends_nil (R : Remote) : conSends R [] = [] := rfl

theorem conSends_send (R : Remote) (t : Nat) (r : Remote) (w : Wire) :
    conSends R [.send t r w] = if r = R ∧ w.mtype = .con then [w] else [] := by
  simp only [conSends, List.filterMap_cons, List.filterMap_nil]
  by_cases h : r = R ∧ w.mtype = .con
  · simp [h.1, h.2]
  · rw [if_neg h]
    have : (r == R && w.mtype == MType.con) = false := by
      cases h1 : (r == R && w.mtype == MType.con) with
      | false => rfl
      | true =>
        simp only [Bool.and_eq_true, beq_iff_eq] at h1
        exact absurd h1 h
    simp [this]

/-- outputs without datagrams -/
def NoSend (os : List Out) : Prop := ∀ o ∈ os, ∀ t r w, o ≠ .send t r w

theorem conSends_of_NoSend {os : List Out} (h : NoSend os) (R : Remote) : conSends R os = [] := by
  simp only [conSends, List.filterMap_eq_nil_iff]
  intro o ho
  cases o with
  | send t r w => exact absurd rfl (h _ ho t r w)
  | _ => rfl

theorem NoSend_nil : NoSend [] := fun _ h => by cases h

theorem NoSend_append {a b : List Out} (ha : NoSend a) (hb : NoSend b) : NoSend (a ++ b) := by
  intro o ho
  rcases List.mem_append.mp ho with h | h
  · exact ha o h
  · exact hb o h

theorem pending_of_tables {s s' : State} (he : s'.exchanges = s.exchanges)
    (hb : s'.backlogs = s.backlogs) (R : Remote) : pending s' R = pending s R := by
  simp only [pending, inFlight, backlogOf, he, hb]

theorem inFlight_of_exchanges {s s' : State} (he : s'.exchanges = s.exchanges) (R : Remote) :
    inFlight s' R = inFlight s R := by
  simp only [inFlight, he]

theorem backlogOf_of_backlogs {s s' : State} (hb : s'.backlogs = s.backlogs) (R : Remote) :
    backlogOf s' R = backlogOf s R := by
  simp only [backlogOf, hb]

/-- the in-flight part of a table of exchanges -/
def inFl (ex : List Exchange) (R : Remote) : List Wire :=
  (ex.filter (fun e => e.remote == R)).map (·.msg)

theorem inFlight_eq (s : State) (R : Remote) : inFlight s R = inFl s.exchanges R := rfl

theorem inFl_append (a b : List Exchange) (R : Remote) : inFl (a ++ b) R = inFl a R ++ inFl b R := by
  simp only [inFl, List.filter_append, List.map_append]

theorem inFl_singleton (x : Exchange) (R : Remote) :
    inFl [x] R = if x.remote = R then [x.msg] else [] := by
  by_cases h : x.remote = R <;> simp [inFl, h]

theorem inFl_filter_keep (ex : List Exchange) (R : Remote) (q : Exchange → Bool)
    (h : ∀ x ∈ ex, x.remote = R → q x = true) : inFl (ex.filter q) R = inFl ex R := by
  simp only [inFl, List.filter_filter]
  congr 1
  apply List.filter_congr
  intro x hx
  by_cases hr : x.remote = R
  · simp [hr, h x hx hr]
  · simp [hr]

theorem inFl_filter_nil (ex : List Exchange) (R : Remote) (q : Exchange → Bool)
    (h : ∀ x ∈ ex, x.remote = R → q x = false) : inFl (ex.filter q) R = [] := by
  simp only [inFl, List.filter_filter, List.map_eq_nil_iff, List.filter_eq_nil_iff]
  intro x hx hc
  simp only [Bool.and_eq_true, beq_iff_eq] at hc
  rw [h x hx hc.1] at hc
  exact absurd hc.2 (by simp)

theorem inFl_nil_of_not_mem {ex : List Exchange} {R : Remote} (h : R ∉ ex.map (·.remote)) :
    inFl ex R = [] := by
  simp only [inFl, List.map_eq_nil_iff, List.filter_eq_nil_iff]
  intro e he hb
  exact h (List.mem_map.mpr ⟨e, he, by simpa using hb⟩)

/-- the held-back part of a table of backlogs -/
def blOf (bl : List (Remote × List Queued)) (R : Remote) : List Queued :=
  match bl.find? (fun b => b.1 == R) with
  | some (_, l) => l
  | none => []

theorem backlogOf_eq (s : State) (R : Remote) : backlogOf s R = blOf s.backlogs R := rfl

theorem pending_eq (s : State) (R : Remote) :
    pending s R = inFl s.exchanges R ++ (blOf s.backlogs R).map (·.msg) := rfl

theorem blOf_setBacklog_other (bl : List (Remote × List Queued)) (remote R : Remote)
    (l : List Queued) (h : R ≠ remote) : blOf (setBacklog bl remote l) R = blOf bl R := by
  simp only [blOf, find_setBacklog]
  cases hf : bl.find? (fun b => b.1 == R) with
  | none => rfl
  | some b =>
    have hb : (b.1 == R) = true := List.find?_some (p := fun (b : Remote × List Queued) => b.1 == R) hf
    have : b.1 = R := by simpa using hb
    have hne : ¬ b.1 = remote := by rw [this]; exact h
    simp [hne]

theorem blOf_setBacklog_same (bl : List (Remote × List Queued)) (remote : Remote)
    (l : List Queued) {b : Remote × List Queued} (hf : bl.find? (fun b => b.1 == remote) = some b) :
    blOf (setBacklog bl remote l) remote = l := by
  simp only [blOf, find_setBacklog, hf]
  have hb : (b.1 == remote) = true :=
    List.find?_some (p := fun (b : Remote × List Queued) => b.1 == remote) hf
  have hb' : b.1 = remote := by simpa using hb
  simp [hb']

theorem blOf_filter_same (bl : List (Remote × List Queued)) (remote : Remote) :
    blOf (bl.filter (fun b => !(b.1 == remote))) remote = [] := by
  have : (bl.filter (fun b => !(b.1 == remote))).find? (fun b => b.1 == remote) = none := by
    rw [List.find?_eq_none]
    intro b hb hp
    have := (List.mem_filter.mp hb).2
    simp [hp] at this
  simp only [blOf, this]

theorem find?_congr' {α} {p q : α → Bool} {l : List α} (h : ∀ x ∈ l, p x = q x) :
    l.find? p = l.find? q := by
  induction l with
  | nil => rfl
  | cons a as ih =>
    simp only [List.find?_cons, h a (List.mem_cons_self ..)]
    rw [ih (fun x hx => h x (List.mem_cons_of_mem _ hx))]

theorem blOf_filter_other (bl : List (Remote × List Queued)) (remote R : Remote) (h : R ≠ remote) :
    blOf (bl.filter (fun b => !(b.1 == remote))) R = blOf bl R := by
  have : (bl.filter (fun b => !(b.1 == remote))).find? (fun b => b.1 == R) =
      bl.find? (fun b => b.1 == R) := by
    rw [List.find?_filter]
    apply find?_congr'
    intro b _
    by_cases hbR : b.1 = R
    · simp [hbR, h]
    · simp [hbR]
  simp only [blOf, this]

theorem blOf_snoc_empty (bl : List (Remote × List Queued)) (remote R : Remote) :
    blOf (bl ++ [(remote, [])]) R = blOf bl R := by
  simp only [blOf, List.find?_append]
  cases hf : bl.find? (fun b => b.1 == R) with
  | some b => rfl
  | none =>
    by_cases hr : remote = R <;> simp [hr]

theorem blOf_nil_of_not_mem {bl : List (Remote × List Queued)} {R : Remote}
    (h : R ∉ bl.map (·.1)) : blOf bl R = [] := by
  simp only [blOf]
  cases hf : bl.find? (fun b => b.1 == R) with
  | none => rfl
  | some b =>
    exfalso; apply h
    have hb : (b.1 == R) = true := List.find?_some (p := fun (b : Remote × List Queued) => b.1 == R) hf
    exact List.mem_map.mpr ⟨b, List.mem_of_find?_eq_some hf, by simpa using hb⟩

-- sending ----------------------------------------------------------------------------------------

/-- a step that leaves `R`'s queue alone and puts no CON on the wire to `R` -/
structure Neutral (s s' : State) (os : List Out) (R : Remote) : Prop where
  pend : pending s' R = pending s R
  sent : conSends R os = []

theorem Neutral.refl (s : State) (R : Remote) : Neutral s s [] R := ⟨rfl, rfl⟩

theorem Neutral.of_tables {s s' : State} {os : List Out} {R : Remote}
    (he : s'.exchanges = s.exchanges) (hb : s'.backlogs = s.backlogs) (ho : conSends R os = []) :
    Neutral s s' os R := ⟨pending_of_tables he hb R, ho⟩

theorem Neutral.trans {s s' s'' : State} {os os' : List Out} {R : Remote}
    (h1 : Neutral s s' os R) (h2 : Neutral s' s'' os' R) : Neutral s s'' (os ++ os') R :=
  ⟨h2.pend.trans h1.pend, by rw [conSends_append, h1.sent, h2.sent]; rfl⟩

theorem sendInitially_nonCon_tables (s : State) (remote : Remote) (w : Wire) (mon : Monitor)
    (k : Nat) (hw : w.mtype ≠ .con) :
    (sendInitially s remote w mon k).1.exchanges = s.exchanges ∧
    (sendInitially s remote w mon k).1.backlogs = s.backlogs := by
  have : (w.mtype == MType.con) = false := by simpa using hw
  simp only [sendInitially, this, Bool.false_eq_true, ↓reduceIte, storeReply_exchanges,
    storeReply_backlogs, and_self]

/-- a non-CON goes straight out: no queue changes, no CON on the wire -/
theorem sendInitially_nonCon_Neutral (s : State) (remote : Remote) (w : Wire) (mon : Monitor)
    (k : Nat) (hw : w.mtype ≠ .con) (R : Remote) :
    Neutral s (sendInitially s remote w mon k).1 (sendInitially s remote w mon k).2 R := by
  have ht := sendInitially_nonCon_tables s remote w mon k hw
  refine Neutral.of_tables ht.1 ht.2 ?_
  show conSends R [.send s.now remote w] = []
  rw [conSends_send, if_neg (fun h => hw h.2)]

/-- a CON opens an exchange at the end of the table; the back-logs keep their contents -/
theorem sendInitially_con_parts (s : State) (remote : Remote) (w : Wire) (mon : Monitor) (k : Nat)
    (hw : w.mtype = .con) (R : Remote) :
    inFlight (sendInitially s remote w mon k).1 R =
      inFlight s R ++ (if remote = R then [w] else []) ∧
    backlogOf (sendInitially s remote w mon k).1 R = backlogOf s R := by
  constructor
  · simp only [inFlight_eq, sendInitially, hw, beq_self_eq_true, ↓reduceIte, storeReply_exchanges,
      addExchange, inFl_append, inFl_singleton]
  · simp only [backlogOf_eq, sendInitially, hw, beq_self_eq_true, ↓reduceIte, storeReply_backlogs,
      addExchange]
    split
    · rfl
    · exact blOf_snoc_empty _ _ _

theorem dispatchOut_nonCon (s : State) (remote : Remote) (w : Wire) (mon : Monitor) (k : Nat)
    (hw : w.mtype ≠ .con) : dispatchOut s remote w mon k = sendInitially s remote w mon k := by
  have : (w.mtype == MType.con) = false := by simpa using hw
  simp only [dispatchOut, this, Bool.false_and, Bool.false_eq_true, ↓reduceIte]

theorem pending_ne_nil_of_exchange {s : State} {R : Remote} (h : R ∈ exR s) : pending s R ≠ [] := by
  obtain ⟨e, he, her⟩ := List.mem_map.mp h
  have : e.msg ∈ inFlight s R := by
    simp only [inFlight, List.mem_map, List.mem_filter]
    exact ⟨e, ⟨he, by simp [her]⟩, rfl⟩
  intro hnil
  simp only [pending, List.append_eq_nil_iff] at hnil
  rw [hnil.1] at this; cases this

theorem pending_nil_of_idle {s : State} (hn : NInv s) {R : Remote} (h : R ∉ exR s) :
    pending s R = [] := by
  have hb : R ∉ blK s := fun hb => h ((hn.iff R).mp hb)
  simp [pending, inFlight_nil_of_no_exchange h, backlogOf_nil_of_no_key hb]

/-- **push**: a CON for `remote` is appended at the tail of `remote`'s queue and of no other; it
goes on the wire at once exactly when that queue was empty -/
theorem dispatchOut_con_eff {s : State} (hi : Inv s) (remote : Remote) (w : Wire) (mon : Monitor)
    (k : Nat) (hw : w.mtype = .con) (R : Remote) :
    pending (dispatchOut s remote w mon k).1 R =
      pending s R ++ (if remote = R then [w] else []) ∧
    conSends R (dispatchOut s remote w mon k).2 =
      if pending s R = [] then (if remote = R then [w] else []) else [] := by
  by_cases hr : remote = R
  · subst hr
    obtain ⟨h1, h2, h3⟩ := C14_queue_push s hi remote w mon k hw
    simp only [↓reduceIte]
    refine ⟨h1, ?_⟩
    by_cases hp : pending s remote = []
    · rw [h2.mpr hp, if_pos hp, conSends_send, if_pos ⟨rfl, hw⟩]
    · rw [h3.mpr hp, if_neg hp]; rfl
  · simp only [hr, ↓reduceIte, List.append_nil, ite_self]
    by_cases hb : hasBacklog s remote = true
    · simp only [dispatchOut, hw, hb, beq_self_eq_true, Bool.and_self, ↓reduceIte, conSends_nil,
        and_true]
      simp only [pending, inFlight]
      rw [backlogOf_append_other s remote R _ (fun e => hr e.symm)]
    · have hb' : hasBacklog s remote = false := by simpa using hb
      simp only [dispatchOut, hw, hb', beq_self_eq_true, Bool.and_false, Bool.false_eq_true,
        ↓reduceIte]
      have hp := sendInitially_con_parts s remote w mon k hw R
      simp only [hr, ↓reduceIte, List.append_nil] at hp
      refine ⟨by simp only [pending, hp.1, hp.2], ?_⟩
      show conSends R [.send s.now remote w] = []
      rw [conSends_send, if_neg (fun h => hr h.1)]

theorem offeredCon_length (s : State) (remote : Remote) (mc : Bool) (token : Token) (m : OutMsg)
    (wasNon : Bool) : (offeredCon s remote mc token m wasNon).length ≤ 1 := by
  unfold offeredCon
  split
  · simp
  · split
    · simp
    · split <;> simp

theorem offeredCon_con (s : State) (remote : Remote) (mc : Bool) (token : Token) (m : OutMsg)
    (wasNon : Bool) : ∀ w ∈ offeredCon s remote mc token m wasNon, w.mtype = .con := by
  unfold offeredCon
  intro w hw
  split at hw
  · cases hw
  · split at hw
    · cases hw
    · split at hw
      · simp only [List.mem_singleton] at hw; rw [hw]
      · cases hw

/-- `send_message`: what it does to `R`'s queue and which CON it puts on the wire to `R` -/
theorem sendMessage_eff {s : State} (hi : Inv s) (remote : Remote) (mc : Bool) (token : Token)
    (m : OutMsg) (wasNon : Bool) (mon : Monitor) (R : Remote) :
    pending (sendMessage s remote mc token m wasNon mon).1 R =
      pending s R ++ (if remote = R then offeredCon s remote mc token m wasNon else []) ∧
    conSends R (sendMessage s remote mc token m wasNon mon).2.1 =
      if pending s R = [] then (if remote = R then offeredCon s remote mc token m wasNon else [])
      else [] := by
  have neutral : ∀ {s' : State} {os : List Out}, Neutral s s' os R →
      pending s' R = pending s R ++ (if remote = R then ([] : List Wire) else []) ∧
      conSends R os = if pending s R = [] then (if remote = R then ([] : List Wire) else []) else [] := by
    intro s' os h
    simp only [ite_self, List.append_nil]
    exact ⟨h.pend, h.sent⟩
  cases hfp : findPiggy s remote token m with
  | some p =>
    have hd : Neutral s (dropPiggy s remote token) [] R := Neutral.of_tables rfl rfl rfl
    by_cases hsup : suppressed m = true
    · simp only [sendMessage, offeredCon, hfp, hsup, ↓reduceIte]
      exact neutral (hd.trans (sendInitially_nonCon_Neutral (dropPiggy s remote token) remote
        { mtype := .ack, code := 0, mid := p.mid, token := [], obs := none, body := 0 } mon m.maxRetr
        (by simp) R))
    · simp only [sendMessage, offeredCon, hfp, hsup]
      rw [dispatchOut_nonCon _ _ _ _ _ (by simp)]
      exact neutral (hd.trans (sendInitially_nonCon_Neutral (dropPiggy s remote token) remote
        { mtype := .ack, code := m.code, mid := p.mid, token, obs := m.obs, body := m.body } mon
        m.maxRetr (by simp) R))
  | none =>
    by_cases hsup : suppressed m = true
    · simp only [sendMessage, offeredCon, hfp, hsup, ↓reduceIte]
      exact neutral (Neutral.refl s R)
    · by_cases hc : chooseType s mc wasNon m = .con
      · cases mc with
        | true =>
          simp only [sendMessage, offeredCon, hfp, hsup, hc, beq_self_eq_true, Bool.and_self,
            ↓reduceIte, Bool.not_true, Bool.and_false, Bool.false_eq_true]
          exact neutral (Neutral.refl s R)
        | false =>
          simp only [sendMessage, offeredCon, hfp, hsup, hc, beq_self_eq_true, Bool.and_false,
            Bool.false_eq_true, ↓reduceIte, Bool.not_false, Bool.and_self]
          have hi1 : Inv (takeMid s).2 := Inv_of_fields hi rfl rfl rfl
          exact dispatchOut_con_eff hi1 remote
            { mtype := .con, code := m.code, mid := s.nextMid, token, obs := m.obs, body := m.body }
            mon m.maxRetr rfl R
      · have hc' : (chooseType s mc wasNon m == MType.con) = false := by simpa using hc
        simp only [sendMessage, offeredCon, hfp, hsup, hc', Bool.false_and, Bool.false_eq_true,
          ↓reduceIte]
        rw [dispatchOut_nonCon _ _ _ _ _ (by simpa using hc)]
        have ht : Neutral s (takeMid s).2 [] R := Neutral.of_tables rfl rfl rfl
        exact neutral (ht.trans (sendInitially_nonCon_Neutral (takeMid s).2 remote _ mon m.maxRetr
          (by simpa using hc) R))

theorem sendBare_Neutral (s : State) (remote : Remote) (t : MType) (mid : Nat) (ht : t ≠ .con)
    (R : Remote) : Neutral s (sendBare s remote t mid).1 (sendBare s remote t mid).2 R :=
  sendInitially_nonCon_Neutral s remote _ .none 0 (by simpa using ht) R

-- receiving --------------------------------------------------------------------------------------

theorem NoSend_runMonitor (s : State) (mon : Monitor) : NoSend (runMonitor s mon).2 := by
  unfold runMonitor
  cases mon with
  | req r =>
    simp only; split
    · intro o ho; simp only [List.mem_singleton] at ho; subst ho; intro _ _ _ h; cases h
    · exact NoSend_nil
  | srv sv =>
    simp only; split
    · intro o ho; simp only [List.mem_singleton] at ho; subst ho; intro _ _ _ h; cases h
    · exact NoSend_nil
  | none => exact NoSend_nil

theorem NoSend_tokenDispatchError (s : State) (r : Remote) (k : ErrKind) :
    NoSend (tokenDispatchError s r k).2 := by
  unfold tokenDispatchError
  split
  · exact NoSend_nil
  · intro o ho
    simp only [List.mem_append, List.mem_map] at ho
    rcases ho with ⟨x, _, rfl⟩ | ⟨x, _, rfl⟩ <;> (intro _ _ _ h; cases h)

theorem runMonitor_Neutral (s : State) (mon : Monitor) (R : Remote) :
    Neutral s (runMonitor s mon).1 (runMonitor s mon).2 R :=
  Neutral.of_tables (runMonitor_tables s mon).1 (runMonitor_tables s mon).2
    (conSends_of_NoSend (NoSend_runMonitor s mon) R)

theorem tokenDispatchError_Neutral (s : State) (r : Remote) (k : ErrKind) (R : Remote) :
    Neutral s (tokenDispatchError s r k).1 (tokenDispatchError s r k).2 R :=
  Neutral.of_tables (tokenDispatchError_tables s r k).1 (tokenDispatchError_tables s r k).2
    (conSends_of_NoSend (NoSend_tokenDispatchError s r k) R)

theorem findExchange_key {s : State} {remote : Remote} {mid : Nat} {e : Exchange}
    (hf : findExchange s remote mid = some e) : e ∈ s.exchanges ∧ e.remote = remote ∧ e.msg.mid = mid := by
  unfold findExchange at hf
  have := List.find?_some hf
  simp only [Bool.and_eq_true, beq_iff_eq] at this
  exact ⟨List.mem_of_find?_eq_some hf, this.1, this.2⟩

/-- with one exchange per remote, the in-flight part of `remote`'s queue is that exchange's message -/
theorem inFlight_of_find {s : State} (hn : NInv s) {remote : Remote} {mid : Nat} {e : Exchange}
    (hf : findExchange s remote mid = some e) : inFlight s remote = [e.msg] := by
  obtain ⟨hmem, hkey, _⟩ := findExchange_key hf
  have := filter_key_eq_singleton (f := Exchange.remote) hn.exNodup hmem
  rw [hkey] at this
  simp [inFlight, this]

/-- `_continue_backlog` (no exchange with `remote` active): the head of the back-log becomes the
message in flight — `remote`'s queue as a whole, and every other queue, is unchanged — and that
head is what goes on the wire -/
theorem continueBacklog_eff {s : State} {remote : Remote} (hp : PreInv s remote) (hq : QInv s)
    (R : Remote) :
    pending (continueBacklog s remote).1 R = pending s R ∧
    conSends R (continueBacklog s remote).2 =
      if remote = R then (pending s R).head?.toList else [] := by
  have hne : hasExchange s remote = false := by
    cases hb : hasExchange s remote with
    | false => rfl
    | true => exact absurd ((hasExchange_iff s remote).mp hb) hp.noEx
  have hin : inFlight s remote = [] := inFlight_nil_of_no_exchange hp.noEx
  cases hf : s.backlogs.find? (fun b => b.1 == remote) with
  | none =>
    have hc : continueBacklog s remote = (s, []) := by
      simp only [continueBacklog, hne, Bool.false_eq_true, ↓reduceIte, hf]
    rw [hc]
    refine ⟨rfl, ?_⟩
    by_cases hr : remote = R
    · subst hr
      simp only [↓reduceIte, pending, hin, backlogOf, hf]; rfl
    · simp only [hr, ↓reduceIte]; rfl
  | some b =>
    obtain ⟨br, l⟩ := b
    have hbl : backlogOf s remote = l := by simp only [backlogOf, hf]
    cases l with
    | nil =>
      have hc : continueBacklog s remote =
          ({ s with backlogs := s.backlogs.filter (fun b => !(b.1 == remote)) }, []) := by
        simp only [continueBacklog, hne, Bool.false_eq_true, ↓reduceIte, hf, drainBacklog]
      rw [hc]
      by_cases hr : remote = R
      · subst hr
        simp only [↓reduceIte, pending_eq, blOf_filter_same]
        rw [← inFlight_eq, ← backlogOf_eq, hin, hbl]
        exact ⟨rfl, rfl⟩
      · simp only [hr, ↓reduceIte, pending_eq]
        rw [blOf_filter_other _ _ _ (fun e => hr e.symm)]
        exact ⟨rfl, rfl⟩
    | cons q rest =>
      have hqc : q.msg.mtype = .con := backlog_find_con hq hf q (List.mem_cons_self ..)
      rw [continueBacklog_head hne hf hqc]
      have hparts := sendInitially_con_parts
        ({ s with backlogs := setBacklog s.backlogs remote rest } : State) remote q.msg q.monitor
        q.maxRetr hqc R
      refine ⟨?_, ?_⟩
      · simp only [pending, hparts.1, hparts.2]
        by_cases hr : remote = R
        · subst hr
          have h1 : inFlight ({ s with backlogs := setBacklog s.backlogs remote rest } : State) remote = [] := hin
          have h2 : backlogOf ({ s with backlogs := setBacklog s.backlogs remote rest } : State) remote = rest :=
            blOf_setBacklog_same _ _ _ hf
          rw [h1, h2, hin, hbl]
          simp
        · have h1 : inFlight ({ s with backlogs := setBacklog s.backlogs remote rest } : State) R =
              inFlight s R := rfl
          have h2 : backlogOf ({ s with backlogs := setBacklog s.backlogs remote rest } : State) R =
              backlogOf s R := blOf_setBacklog_other _ _ _ _ (fun e => hr e.symm)
          rw [h1, h2]
          simp [hr]
      · show conSends R [.send s.now remote q.msg] = _
        rw [conSends_send]
        by_cases hr : remote = R
        · subst hr
          simp only [hqc, and_self, ↓reduceIte, pending, hin, hbl]
          rfl
        · simp [hr]

/-- dropping the exchange `(remote, mid)` removes the head of `remote`'s queue and nothing else -/
theorem dropExchange_pending {s : State} (hn : NInv s) {remote : Remote} {mid : Nat} {e : Exchange}
    (hf : findExchange s remote mid = some e) (R : Remote) :
    pending (dropExchange s remote mid) R = (pending s R).drop (if remote = R then 1 else 0) := by
  by_cases hr : remote = R
  · subst hr
    have h1 := inFlight_of_find hn hf
    have h2 : inFlight (dropExchange s remote mid) remote = [] :=
      inFlight_nil_of_no_exchange (PreInv_remove hn hf).noEx
    have h3 : backlogOf (dropExchange s remote mid) remote = backlogOf s remote := rfl
    simp only [pending, h1, h2, h3, ↓reduceIte]
    rfl
  · simp only [hr, ↓reduceIte, List.drop_zero, pending_eq]
    have : inFl (dropExchange s remote mid).exchanges R = inFl s.exchanges R := by
      apply inFl_filter_keep
      intro x _ hx
      have : ¬ x.remote = remote := by rw [hx]; exact fun e => hr e.symm
      simp [this]
    rw [this]; rfl

/-- **pop**: `_remove_exchange` for an ACK/RST from `remote` with message ID `w.mid`: when it
matches the exchange in flight, `remote`'s queue loses its head (and only that) and the new head, if
any, goes on the wire; otherwise, and for every other remote, nothing happens -/
theorem removeExchange_eff {s : State} (hi : Inv s) (hq : QInv s) (remote : Remote) (w : Wire)
    (R : Remote) :
    pending (removeExchange s remote w).1 R =
      (pending s R).drop (if remote = R ∧ (findExchange s remote w.mid).isSome = true then 1 else 0) ∧
    conSends R (removeExchange s remote w).2 =
      if remote = R ∧ (findExchange s remote w.mid).isSome = true
      then (pending (removeExchange s remote w).1 R).head?.toList else [] := by
  cases hf : findExchange s remote w.mid with
  | none =>
    have hc : removeExchange s remote w = (s, []) := by simp only [removeExchange, hf]
    rw [hc]
    simp
  | some e =>
    have hp := PreInv_remove hi.n hf
    have hq1 := dropExchange_QInv hq remote w.mid
    have hd := dropExchange_pending hi.n hf R
    generalize hs1 : dropExchange s remote w.mid = s1 at hp hq1 hd
    have hX : ∃ X : State × List Out,
        X = (if w.mtype == .rst then runMonitor s1 e.monitor else (s1, [])) ∧
        Neutral s1 X.1 X.2 R ∧ PreInv X.1 remote ∧ QInv X.1 := by
      refine ⟨_, rfl, ?_⟩
      split
      · exact ⟨runMonitor_Neutral s1 e.monitor R,
          PreInv_of_tables hp (runMonitor_tables s1 e.monitor).1 (runMonitor_tables s1 e.monitor).2,
          QInv_of_tables hq1 (runMonitor_tables s1 e.monitor).1 (runMonitor_tables s1 e.monitor).2⟩
      · exact ⟨Neutral.refl s1 R, hp, hq1⟩
    obtain ⟨X, hXe, hXn, hXp, hXq⟩ := hX
    have hc : removeExchange s remote w =
        ((continueBacklog X.1 remote).1, X.2 ++ (continueBacklog X.1 remote).2) := by
      simp only [removeExchange, hf, hXe, hs1]
    rw [hc]
    obtain ⟨hc1, hc2⟩ := continueBacklog_eff hXp hXq R
    simp only [Option.isSome_some, and_true]
    refine ⟨?_, ?_⟩
    · rw [hc1, hXn.pend, hd]
    · rw [conSends_append, hXn.sent, hc2, hc1, List.nil_append]

theorem recvDup_Neutral {s : State} (hi : Inv s) (remote : Remote) (w : Wire) (R : Remote) :
    Neutral s (recvDup s remote w).1 (recvDup s remote w).2 R := by
  unfold recvDup
  split
  · split
    · rename_i reply hs
      exact sendInitially_nonCon_Neutral s remote reply .none 0 (storedReply_nonCon hi.r hs) R
    · exact Neutral.refl s R
  · exact Neutral.refl s R

theorem NoSend_processResponse (s : State) (remote : Remote) (w : Wire) :
    NoSend (processResponse s remote w).2.1 := by
  unfold processResponse
  simp only
  split
  · exact NoSend_nil
  · intro o ho; simp only [List.mem_singleton] at ho; subst ho; intro _ _ _ h; cases h

theorem NoSend_tokenProcessRequest (s : State) (remote : Remote) (w : Wire) :
    NoSend (tokenProcessRequest s remote w).2 := by
  unfold tokenProcessRequest
  simp only
  intro o ho
  simp only [List.mem_append, List.mem_singleton] at ho
  rcases ho with ho | rfl
  · split at ho
    · simp only [List.mem_singleton] at ho; subst ho; intro _ _ _ h; cases h
    · cases ho
  · intro _ _ _ h; cases h

theorem processRequest_Neutral (s : State) (remote : Remote) (w : Wire) (R : Remote) :
    Neutral s (processRequest s remote w).1 (processRequest s remote w).2 R := by
  refine Neutral.of_tables (processRequest_tables s remote w).1 (processRequest_tables s remote w).2 ?_
  unfold processRequest
  simp only
  rw [conSends_append, conSends_of_NoSend (NoSend_tokenProcessRequest _ _ _), List.append_nil]
  unfold fireEmptyAck
  split
  · rfl
  · simp [sendBare, sendInitially, conSends]

theorem processResponse_Neutral (s : State) (remote : Remote) (w : Wire) (R : Remote) :
    Neutral s (processResponse s remote w).1 (processResponse s remote w).2.1 R :=
  Neutral.of_tables (processResponse_tables s remote w).1 (processResponse_tables s remote w).2
    (conSends_of_NoSend (NoSend_processResponse s remote w) R)

theorem recvCode_Neutral (s : State) (remote : Remote) (mcLocal : Bool) (w : Wire) (R : Remote) :
    Neutral s (recvCode s remote mcLocal w).1 (recvCode s remote mcLocal w).2 R := by
  have hpr := processResponse_Neutral s remote w R
  unfold recvCode
  split
  · exact sendBare_Neutral s remote .rst w.mid (by simp) R
  · split
    · exact Neutral.refl s R
    · split
      · exact processRequest_Neutral s remote w R
      · split
        · dsimp only
          split
          · split
            · exact hpr.trans (sendBare_Neutral _ remote .ack w.mid (by simp) R)
            · exact hpr
          · split
            · have := (Neutral.of_tables (s := s) (os := []) (R := R)
                (processResponse_tables s remote w).1 (processResponse_tables s remote w).2 rfl).trans
                (sendBare_Neutral (processResponse s remote w).1 remote .rst w.mid (by simp) R)
              exact this
            · exact hpr
        · exact Neutral.refl s R

-- the shape of one step, on lists --------------------------------------------------------------------

/-- one step of `R`'s queue: `dep` messages leave at the head, `arr` are appended at the tail, and
the CONs put on the wire to `R` are: the new head, if the queue was empty or lost its head in this
step; nothing otherwise -/
def Spec (p p' cs : List Wire) (dep : Nat) (arr : List Wire) : Prop :=
  p' = p.drop dep ++ arr ∧ cs = if p = [] ∨ dep ≠ 0 then p'.head?.toList else []

theorem Spec.of_neutral {s s' : State} {os : List Out} {R : Remote} (h : Neutral s s' os R) :
    Spec (pending s R) (pending s' R) (conSends R os) 0 [] := by
  refine ⟨by simp [h.pend], ?_⟩
  rw [h.sent, h.pend]
  by_cases hp : pending s R = [] <;> simp [hp]

theorem Spec.of_push {p p' cs A : List Wire} (h1 : p' = p ++ A)
    (h2 : cs = if p = [] then A else []) (hA : A.length ≤ 1) : Spec p p' cs 0 A := by
  refine ⟨by simp [h1], ?_⟩
  rw [h2, h1]
  by_cases hp : p = []
  · subst hp
    match A, hA with
    | [], _ => simp
    | [a], _ => simp
  · simp [hp]

theorem Spec.of_pop {p p' cs : List Wire} {d : Nat} (h1 : p' = p.drop d)
    (h2 : cs = if d ≠ 0 then p'.head?.toList else []) : Spec p p' cs d [] := by
  refine ⟨by simp [h1], ?_⟩
  rw [h2]
  by_cases hd : d = 0
  · subst hd
    by_cases hp : p = []
    · subst hp; simp [h1]
    · simp [hp]
  · simp [hd]

theorem Spec.of_clear {p p' cs : List Wire} (h1 : p' = []) (h2 : cs = []) :
    Spec p p' cs p.length [] := by
  refine ⟨by simp [h1], ?_⟩
  rw [h2, h1]; simp

theorem ite_pop {α} (C : Prop) [Decidable C] (X : List α) :
    (if C then X else []) = if (if C then 1 else 0) ≠ 0 then X else [] := by
  by_cases h : C <;> simp [h]

-- the events ---------------------------------------------------------------------------------------

theorem recv_Spec {s : State} (hi : Inv s) (hq : QInv s) (hsm : s.shutMsg = false) (remote : Remote)
    (mcLocal : Bool) (w : Wire) (R : Remote) :
    Spec (pending s R) (pending (recv s remote mcLocal w).1 R) (conSends R (recv s remote mcLocal w).2)
      (departures s R (.recv remote mcLocal w)) [] := by
  by_cases hdup : isDup s remote w = true
  · have hc : recv s remote mcLocal w = recvDup s remote w := by simp only [recv, hdup, ↓reduceIte]
    rw [hc]
    have : departures s R (.recv remote mcLocal w) = 0 := by
      simp only [departures, hsm, hdup, Bool.false_eq_true, ↓reduceIte]
    rw [this]
    exact Spec.of_neutral (recvDup_Neutral hi remote w R)
  · -- the entry added to the de-duplication table touches neither exchanges nor back-logs
    have h0 : ∃ s0 : State, s0 = (if dedupable w = true then
          { s with recent := s.recent ++ [{ remote, mid := w.mid, reply := none,
                                            expiry := s.now + s.cfg.exchangeLifetime }] } else s) ∧
        s0.exchanges = s.exchanges ∧ s0.backlogs = s.backlogs ∧ Inv s0 ∧ QInv s0 := by
      refine ⟨_, rfl, ?_⟩
      split
      · refine ⟨rfl, rfl, ⟨NInv_of_tables hi.n rfl rfl, ?_⟩, QInv_of_tables hq rfl rfl⟩
        intro r hr w' hw'
        simp only [List.mem_append, List.mem_singleton] at hr
        rcases hr with hr | rfl
        · exact hi.r r hr w' hw'
        · cases hw'
      · exact ⟨rfl, rfl, hi, hq⟩
    obtain ⟨s0, hs0, he0, hb0, hi0, hq0⟩ := h0
    have hp0 : pending s0 R = pending s R := pending_of_tables he0 hb0 R
    have hf0 : findExchange s0 remote w.mid = findExchange s remote w.mid := by
      simp only [findExchange, he0]
    by_cases hack : fitsReply w = true
    · have hc : recv s remote mcLocal w =
          ((recvCode (removeExchange s0 remote w).1 remote mcLocal w).1,
           (removeExchange s0 remote w).2 ++ (recvCode (removeExchange s0 remote w).1 remote mcLocal w).2) := by
        simp only [recv, hdup, Bool.false_eq_true, ↓reduceIte, ← hs0, hack]
      rw [hc]
      obtain ⟨h1, h2⟩ := removeExchange_eff hi0 hq0 remote w R
      have hn := recvCode_Neutral (removeExchange s0 remote w).1 remote mcLocal w R
      have hd : departures s R (.recv remote mcLocal w) =
          if remote = R ∧ (findExchange s0 remote w.mid).isSome = true then 1 else 0 := by
        simp only [departures, hsm, hdup, Bool.false_eq_true, ↓reduceIte, hack, Bool.true_and, hf0,
          Bool.and_eq_true, beq_iff_eq]
      rw [hd]
      apply Spec.of_pop
      · rw [hn.pend, h1, hp0]
      · rw [conSends_append, hn.sent, List.append_nil, h2, hn.pend]
        exact ite_pop _ _
    · have hc : recv s remote mcLocal w =
          ((recvCode s0 remote mcLocal w).1, [] ++ (recvCode s0 remote mcLocal w).2) := by
        simp only [recv, hdup, Bool.false_eq_true, ↓reduceIte, ← hs0, hack]
      rw [hc]
      have hn := recvCode_Neutral s0 remote mcLocal w R
      have hd : departures s R (.recv remote mcLocal w) = 0 := by
        simp only [departures, hsm, hdup, Bool.false_eq_true, ↓reduceIte, hack, Bool.false_and]
      rw [hd, ← hp0]
      exact Spec.of_neutral ((Neutral.refl s0 R).trans hn)

/-- dropping everything held for `remote` empties its queue and touches no other -/
theorem pend_clear (ex : List Exchange) (bl : List (Remote × List Queued)) (remote R : Remote) :
    inFl (ex.filter (fun e => !(e.remote == remote))) R ++
      (blOf (bl.filter (fun b => !(b.1 == remote))) R).map (·.msg) =
    if remote = R then [] else inFl ex R ++ (blOf bl R).map (·.msg) := by
  by_cases hr : remote = R
  · subst hr
    rw [inFl_filter_nil _ _ _ (by intro x _ hx; simp [hx]), blOf_filter_same]
    simp
  · rw [inFl_filter_keep _ _ _ (by
        intro x _ hx
        have : ¬ x.remote = remote := by rw [hx]; exact fun e => hr e.symm
        simp [this]),
      blOf_filter_other _ _ _ (fun e => hr e.symm)]
    simp [hr]

theorem dispatchError_Spec (s : State) (remote R : Remote) :
    Spec (pending s R) (pending (dispatchError s remote).1 R) (conSends R (dispatchError s remote).2)
      (departures s R (.error remote)) [] := by
  by_cases hsm : s.shutMsg = true
  · have hc : dispatchError s remote = (s, []) := by simp only [dispatchError, hsm, ↓reduceIte]
    have hd : departures s R (.error remote) = 0 := by simp only [departures, hsm, ↓reduceIte]
    rw [hc, hd]
    exact Spec.of_neutral (Neutral.refl s R)
  · have hsm' : s.shutMsg = false := by simpa using hsm
    have ht := tokenDispatchError_tables s remote .networkError
    have hn := tokenDispatchError_Neutral s remote .networkError R
    have hp : pending (dispatchError s remote).1 R = if remote = R then [] else pending s R := by
      simp only [dispatchError, hsm', Bool.false_eq_true, ↓reduceIte, dropBacklog, pending_eq, ht.1,
        ht.2]
      exact pend_clear _ _ _ _
    have ho : conSends R (dispatchError s remote).2 = [] := by
      simp only [dispatchError, hsm', Bool.false_eq_true, ↓reduceIte]
      exact hn.sent
    by_cases hr : remote = R
    · have hd : departures s R (.error remote) = (pending s R).length := by
        simp only [departures, hsm', Bool.false_eq_true, ↓reduceIte, hr, beq_self_eq_true]
      rw [hd]
      exact Spec.of_clear (by rw [hp, if_pos hr]) ho
    · have hd : departures s R (.error remote) = 0 := by
        have : (remote == R) = false := by simpa using hr
        simp only [departures, hsm', Bool.false_eq_true, ↓reduceIte, this]
      rw [hd]
      exact Spec.of_neutral ⟨by rw [hp, if_neg hr], ho⟩

/-- the retransmission timer: a retransmission keeps every queue (the exchange comes back with the
same message); giving up empties `remote`'s queue -/
theorem fireRetransmit_pending {s : State} (hi : Inv s) (remote : Remote) (mid : Nat) (R : Remote) :
    pending (fireRetransmit s remote mid).1 R =
      (pending s R).drop (departures s R (.fireRetransmit remote mid)) := by
  cases hf : findExchange s remote mid with
  | none => simp only [fireRetransmit, departures, hf, List.drop_zero]
  | some e =>
    obtain ⟨_, hkey, _⟩ := findExchange_key hf
    have hdrop := dropExchange_pending hi.n hf R
    by_cases hlt : e.counter < e.maxRetr
    · simp only [fireRetransmit, departures, hf, hlt, ↓reduceIte, List.drop_zero]
      simp only [pending_eq, inFl_append, inFl_singleton, Exchange.next, hkey]
      simp only [pending_eq] at hdrop
      by_cases hr : remote = R
      · subst hr
        have h1 : inFl (dropExchange s remote mid).exchanges remote = [] := by
          rw [← inFlight_eq]; exact inFlight_nil_of_no_exchange (PreInv_remove hi.n hf).noEx
        have h2 : inFl s.exchanges remote = [e.msg] := inFlight_of_find hi.n hf
        simp only [h1, h2, ↓reduceIte, List.nil_append]
        rfl
      · simp only [hr, ↓reduceIte, List.drop_zero, List.append_nil] at hdrop ⊢
        exact hdrop
    · have ht := tokenDispatchError_tables (dropBacklog (dropExchange s remote mid) remote) remote
        .conRetransmitsExceeded
      simp only [fireRetransmit, departures, hf, hlt, ↓reduceIte, pending_eq, ht.1, ht.2]
      simp only [pending_eq] at hdrop
      by_cases hr : remote = R
      · subst hr
        have h1 : inFl (dropExchange s remote mid).exchanges remote = [] := by
          rw [← inFlight_eq]; exact inFlight_nil_of_no_exchange (PreInv_remove hi.n hf).noEx
        simp only [dropBacklog, h1, blOf_filter_same, beq_self_eq_true, ↓reduceIte, List.map_nil,
          List.append_nil]
        rw [← pending_eq, List.drop_length]
      · have : (remote == R) = false := by simpa using hr
        simp only [hr, ↓reduceIte, List.drop_zero] at hdrop
        simp only [this, Bool.false_eq_true, ↓reduceIte, List.drop_zero, dropBacklog]
        rw [blOf_filter_other _ _ _ (fun e => hr e.symm)]
        exact hdrop

theorem fireRetransmit_outs (s : State) (remote : Remote) (mid : Nat) (R : Remote) :
    conSends R (fireRetransmit s remote mid).2 =
      match findExchange s remote mid with
      | some e => if e.counter < e.maxRetr ∧ remote = R ∧ e.msg.mtype = .con then [e.msg] else []
      | none => [] := by
  cases hf : findExchange s remote mid with
  | none => simp only [fireRetransmit, hf]; rfl
  | some e =>
    by_cases hlt : e.counter < e.maxRetr
    · simp only [fireRetransmit, hf, hlt, ↓reduceIte, true_and]
      exact conSends_send _ _ _ _
    · simp only [fireRetransmit, hf, hlt, ↓reduceIte, false_and]
      exact (tokenDispatchError_Neutral _ remote _ R).sent

theorem fireRetransmit_Spec_other {s : State} (hi : Inv s) (remote : Remote) (mid : Nat) (R : Remote)
    (hne : remote ≠ R) :
    Spec (pending s R) (pending (fireRetransmit s remote mid).1 R)
      (conSends R (fireRetransmit s remote mid).2) (departures s R (.fireRetransmit remote mid)) [] := by
  have hd : departures s R (.fireRetransmit remote mid) = 0 := by
    have : (remote == R) = false := by simpa using hne
    simp only [departures, this, Bool.false_eq_true, ↓reduceIte]
    split
    · split <;> rfl
    · rfl
  have hp := fireRetransmit_pending hi remote mid R
  have ho : conSends R (fireRetransmit s remote mid).2 = [] := by
    rw [fireRetransmit_outs]
    split
    · simp [hne]
    · rfl
  rw [hd] at hp ⊢
  exact Spec.of_neutral ⟨by simpa using hp, ho⟩

/-- what a retransmission timer of `R` itself puts on the wire is the (unchanged) head of `R`'s queue -/
theorem fireRetransmit_head {s : State} (hi : Inv s) (remote : Remote) (mid : Nat) :
    ∀ w ∈ conSends remote (fireRetransmit s remote mid).2,
      (pending s remote).head? = some w ∧ (pending (fireRetransmit s remote mid).1 remote).head? = some w := by
  intro w hw
  rw [fireRetransmit_outs] at hw
  cases hf : findExchange s remote mid with
  | none => simp only [hf] at hw; cases hw
  | some e =>
    simp only [hf] at hw
    split at hw
    · rename_i hc
      simp only [List.mem_singleton] at hw
      subst hw
      have hp := fireRetransmit_pending hi remote mid remote
      have hd : departures s remote (.fireRetransmit remote mid) = 0 := by
        simp only [departures, hf, hc.1, ↓reduceIte]
      have hh : (pending s remote).head? = some e.msg := by
        simp only [pending, inFlight_of_find hi.n hf]; rfl
      rw [hd, List.drop_zero] at hp
      rw [hp]
      exact ⟨hh, hh⟩
    · cases hw

theorem fireEmptyAck_Neutral (s : State) (remote : Remote) (token : Token) (R : Remote) :
    Neutral s (fireEmptyAck s remote token).1 (fireEmptyAck s remote token).2 R := by
  unfold fireEmptyAck
  split
  · exact Neutral.refl s R
  · rename_i p _
    have hd : Neutral s (dropPiggy s remote token) [] R := Neutral.of_tables rfl rfl rfl
    exact hd.trans (sendBare_Neutral (dropPiggy s remote token) remote .ack p.mid (by simp) R)

theorem submit_Spec {s : State} (hi : Inv s) (r : Nat) (remote : Remote) (mc ob : Bool) (m : OutMsg)
    (R : Remote) :
    Spec (pending s R) (pending (submit s r remote mc ob m).1 R)
      (conSends R (submit s r remote mc ob m).2) 0 (arrivals s R (.submit r remote mc ob m)) := by
  by_cases hst : s.shutTok = true
  · have hc : submit s r remote mc ob m = (s, [.fail r .libraryShutdown]) := by
      simp only [submit, hst, ↓reduceIte]
    have ha : arrivals s R (.submit r remote mc ob m) = [] := by simp only [arrivals, hst, ↓reduceIte]
    rw [hc, ha]
    exact Spec.of_neutral ⟨rfl, rfl⟩
  · have hst' : s.shutTok = false := by simpa using hst
    have hi1 : Inv (registerOutgoing s r remote mc ob) := Inv_of_fields hi rfl rfl rfl
    obtain ⟨h1, h2⟩ := sendMessage_eff hi1 remote mc (nextToken s) m false (.req r) R
    have hA : (if remote = R then
          offeredCon (registerOutgoing s r remote mc ob) remote mc (nextToken s) m false else []) =
        arrivals s R (.submit r remote mc ob m) := by
      simp only [arrivals, hst', Bool.false_eq_true, ↓reduceIte, beq_iff_eq]
      rfl
    rw [hA] at h1 h2
    have hlen : (arrivals s R (.submit r remote mc ob m)).length ≤ 1 := by
      rw [← hA]; split
      · exact offeredCon_length _ _ _ _ _ _
      · simp
    have hs : pending (submit s r remote mc ob m).1 R =
          pending (sendMessage (registerOutgoing s r remote mc ob) remote mc (nextToken s) m false (.req r)).1 R ∧
        conSends R (submit s r remote mc ob m).2 =
          conSends R (sendMessage (registerOutgoing s r remote mc ob) remote mc (nextToken s) m false (.req r)).2.1 := by
      simp only [submit, hst', Bool.false_eq_true, ↓reduceIte]
      split
      · refine ⟨rfl, ?_⟩
        rw [conSends_append]
        exact List.append_nil _
      · exact ⟨rfl, rfl⟩
    rw [hs.1, hs.2]
    exact Spec.of_push h1 h2 hlen

theorem respond_Spec {s : State} (hi : Inv s) (sv : Nat) (m : OutMsg) (isLast : Bool) (R : Remote) :
    Spec (pending s R) (pending (respond s sv m isLast).1 R)
      (conSends R (respond s sv m isLast).2) 0 (arrivals s R (.respond sv m isLast)) := by
  cases hf : s.incoming.find? (fun i => i.srv == sv) with
  | none =>
    have hc : respond s sv m isLast = (s, []) := by simp only [respond, hf]
    have ha : arrivals s R (.respond sv m isLast) = [] := by simp only [arrivals, hf]
    rw [hc, ha]
    exact Spec.of_neutral (Neutral.refl s R)
  | some i =>
    obtain ⟨h1, h2⟩ := sendMessage_eff hi i.remote false i.token m i.wasNon (.srv sv) R
    have hA : (if i.remote = R then offeredCon s i.remote false i.token m i.wasNon else []) =
        arrivals s R (.respond sv m isLast) := by
      simp only [arrivals, hf, beq_iff_eq]
    rw [hA] at h1 h2
    have hlen : (arrivals s R (.respond sv m isLast)).length ≤ 1 := by
      rw [← hA]; split
      · exact offeredCon_length _ _ _ _ _ _
      · simp
    have hs : pending (respond s sv m isLast).1 R =
          pending (sendMessage s i.remote false i.token m i.wasNon (.srv sv)).1 R ∧
        conSends R (respond s sv m isLast).2 =
          conSends R (sendMessage s i.remote false i.token m i.wasNon (.srv sv)).2.1 := by
      simp only [respond, hf]
      split <;> exact ⟨rfl, rfl⟩
    rw [hs.1, hs.2]
    exact Spec.of_push h1 h2 hlen

theorem shutdown_Spec (s : State) (R : Remote) :
    Spec (pending s R) (pending (shutdown s).1 R) (conSends R (shutdown s).2)
      (departures s R .shutdown) [] := by
  by_cases hst : s.shutTok = true
  · have hc : shutdown s = (s, []) := by simp only [shutdown, hst, ↓reduceIte]
    have hd : departures s R .shutdown = 0 := by simp only [departures, hst, ↓reduceIte]
    rw [hc, hd]
    exact Spec.of_neutral (Neutral.refl s R)
  · have hst' : s.shutTok = false := by simpa using hst
    have hd : departures s R .shutdown = (pending s R).length := by
      simp only [departures, hst', Bool.false_eq_true, ↓reduceIte]
    rw [hd]
    apply Spec.of_clear
    · simp only [shutdown, hst', Bool.false_eq_true, ↓reduceIte]; rfl
    · simp only [shutdown, hst', Bool.false_eq_true, ↓reduceIte]
      apply conSends_of_NoSend
      intro o ho
      simp only [List.mem_append, List.mem_map] at ho
      rcases ho with ⟨x, _, rfl⟩ | ⟨x, _, rfl⟩ <;> (intro _ _ _ h; cases h)

-- every event ---------------------------------------------------------------------------------------

/-- **Every event is a FIFO step of every queue, and only a new head goes on the wire.**  For every
event other than a retransmission timer of `R` itself. -/
theorem handle_Spec {s : State} (hi : Inv s) (hq : QInv s) (ev : Ev) (R : Remote)
    (hne : ∀ mid, ev ≠ .fireRetransmit R mid) :
    Spec (pending s R) (pending (handle s ev).1 R) (conSends R (handle s ev).2)
      (departures s R ev) (arrivals s R ev) := by
  cases ev with
  | submit r remote mc ob m => exact submit_Spec hi r remote mc ob m R
  | recv remote mcl w =>
    by_cases hsm : s.shutMsg = true
    · have hc : handle s (.recv remote mcl w) = (s, []) := by simp only [handle, hsm, ↓reduceIte]
      have hd : departures s R (.recv remote mcl w) = 0 := by simp only [departures, hsm, ↓reduceIte]
      rw [hc, hd]
      exact Spec.of_neutral (Neutral.refl s R)
    · have hsm' : s.shutMsg = false := by simpa using hsm
      have hc : handle s (.recv remote mcl w) = recv s remote mcl w := by
        simp only [handle, hsm', Bool.false_eq_true, ↓reduceIte]
      rw [hc]
      exact recv_Spec hi hq hsm' remote mcl w R
  | respond sv m il => exact respond_Spec hi sv m il R
  | appCancel r =>
    exact Spec.of_neutral (s' := (appCancel s r).1) (os := []) (Neutral.of_tables rfl rfl rfl)
  | error remote => exact dispatchError_Spec s remote R
  | fireRetransmit remote mid =>
    by_cases hr : remote = R
    · subst hr; exact absurd rfl (hne mid)
    · exact fireRetransmit_Spec_other hi remote mid R hr
  | fireEmptyAck remote token => exact Spec.of_neutral (fireEmptyAck_Neutral s remote token R)
  | fireExpire remote mid =>
    exact Spec.of_neutral (s' := (fireExpire s remote mid).1) (os := []) (Neutral.of_tables rfl rfl rfl)
  | shutdown => exact shutdown_Spec s R

/-- **Every event is a FIFO step of every queue**: `departures` messages leave at the head,
`arrivals` are appended at the tail, nothing else changes — retransmission timers included. -/
theorem handle_Fifo {s : State} (hi : Inv s) (hq : QInv s) (ev : Ev) (R : Remote) :
    pending (handle s ev).1 R = (pending s R).drop (departures s R ev) ++ arrivals s R ev := by
  by_cases hne : ∀ mid, ev ≠ .fireRetransmit R mid
  · exact (handle_Spec hi hq ev R hne).1
  · have : ∃ mid, ev = .fireRetransmit R mid := by
      cases ev with
      | fireRetransmit remote mid =>
        by_cases hr : remote = R
        · exact ⟨mid, by rw [hr]⟩
        · exact absurd (fun mid' h => hr (by cases h; rfl)) hne
      | _ => exact absurd (fun _ h => by cases h) hne
    obtain ⟨mid, rfl⟩ := this
    have := fireRetransmit_pending hi R mid R
    simp only [handle, arrivals, List.append_nil]
    exact this

/-- **Only the head of a queue is ever on the wire**: every CON put on the wire to `R` by any event
(first transmissions and retransmissions alike) is the head of `R`'s queue after that event. -/
theorem handle_conSends_head {s : State} (hi : Inv s) (hq : QInv s) (ev : Ev) (R : Remote) :
    ∀ w ∈ conSends R (handle s ev).2, (pending (handle s ev).1 R).head? = some w := by
  intro w hw
  by_cases hne : ∀ mid, ev ≠ .fireRetransmit R mid
  · have h := (handle_Spec hi hq ev R hne).2
    rw [h] at hw
    split at hw
    · simpa using hw
    · cases hw
  · have : ∃ mid, ev = .fireRetransmit R mid := by
      cases ev with
      | fireRetransmit remote mid =>
        by_cases hr : remote = R
        · exact ⟨mid, by rw [hr]⟩
        · exact absurd (fun mid' h => hr (by cases h; rfl)) hne
      | _ => exact absurd (fun _ h => by cases h) hne
    obtain ⟨mid, rfl⟩ := this
    exact (fireRetransmit_head hi R mid w hw).2

/-- at most one CON goes on the wire to `R` per event -/
theorem handle_conSends_length {s : State} (hi : Inv s) (hq : QInv s) (ev : Ev) (R : Remote) :
    (conSends R (handle s ev).2).length ≤ 1 := by
  by_cases hne : ∀ mid, ev ≠ .fireRetransmit R mid
  · rw [(handle_Spec hi hq ev R hne).2]
    split
    · cases (pending (handle s ev).1 R).head? <;> simp
    · simp
  · have : ∃ mid, ev = .fireRetransmit R mid := by
      cases ev with
      | fireRetransmit remote mid =>
        by_cases hr : remote = R
        · exact ⟨mid, by rw [hr]⟩
        · exact absurd (fun mid' h => hr (by cases h; rfl)) hne
      | _ => exact absurd (fun _ h => by cases h) hne
    obtain ⟨mid, rfl⟩ := this
    show (conSends R (fireRetransmit s R mid).2).length ≤ 1
    rw [fireRetransmit_outs]
    split
    · split <;> simp
    · simp

theorem arrivals_length (s : State) (R : Remote) (ev : Ev) : (arrivals s R ev).length ≤ 1 := by
  cases ev with
  | submit r remote mc ob m =>
    simp only [arrivals]
    split
    · simp
    · split
      · exact offeredCon_length _ _ _ _ _ _
      · simp
  | respond sv m il =>
    simp only [arrivals]
    split
    · split
      · exact offeredCon_length _ _ _ _ _ _
      · simp
    · simp
  | _ => simp [arrivals]

theorem arrivals_con (s : State) (R : Remote) (ev : Ev) : ∀ w ∈ arrivals s R ev, w.mtype = .con := by
  intro w hw
  cases ev with
  | submit r remote mc ob m =>
    simp only [arrivals] at hw
    split at hw
    · cases hw
    · split at hw
      · exact offeredCon_con _ _ _ _ _ _ w hw
      · cases hw
  | respond sv m il =>
    simp only [arrivals] at hw
    split at hw
    · split at hw
      · exact offeredCon_con _ _ _ _ _ _ w hw
      · cases hw
    · cases hw
  | _ => simp [arrivals] at hw

/-- no more messages leave a queue than it holds -/
theorem departures_le {s : State} (hi : Inv s) (R : Remote) (ev : Ev) :
    departures s R ev ≤ (pending s R).length := by
  cases ev with
  | recv remote mcl w =>
    simp only [departures]
    split
    · omega
    · split
      · omega
      · split
        · rename_i hc
          simp only [Bool.and_eq_true, beq_iff_eq] at hc
          obtain ⟨⟨_, hr⟩, hsome⟩ := hc
          subst hr
          cases hf : findExchange s remote w.mid with
          | none => rw [hf] at hsome; cases hsome
          | some e =>
            simp only [pending, inFlight_of_find hi.n hf, List.length_append, List.length_cons,
              List.length_nil]
            omega
        · omega
  | error remote =>
    simp only [departures]
    split
    · omega
    · split <;> omega
  | fireRetransmit remote mid =>
    simp only [departures]
    split
    · split
      · omega
      · split <;> omega
    · omega
  | shutdown =>
    simp only [departures]
    split <;> omega
  | _ => simp [departures]

theorem arrivals_setNow (s : State) (t : Nat) (R : Remote) (ev : Ev) :
    arrivals (setNow s t) R ev = arrivals s R ev := by
  cases ev <;> rfl

theorem departures_setNow (s : State) (t : Nat) (R : Remote) (ev : Ev) :
    departures (setNow s t) R ev = departures s R ev := by
  cases ev <;> rfl

theorem step_Fifo {s : State} (hi : Inv s) (hq : QInv s) (e : TEv) (R : Remote) :
    pending (step s e).1 R = (pending s R).drop (departures s R e.ev) ++ arrivals s R e.ev := by
  have h := handle_Fifo (s := setNow s e.time) (Inv_of_fields hi rfl rfl rfl)
    (QInv_of_tables hq rfl rfl) e.ev R
  rw [arrivals_setNow, departures_setNow] at h
  exact h

-- runs ---------------------------------------------------------------------------------------------

/-- the confirmable messages handed to the message layer for `R` during a run, in order -/
def arrivalsRun (s : State) (R : Remote) : List TEv → List Wire
  | [] => []
  | e :: es => arrivals s R e.ev ++ arrivalsRun (step s e).1 R es

/-- the number of messages that left the head of `R`'s queue during a run -/
def departuresRun (s : State) (R : Remote) : List TEv → Nat
  | [] => 0
  | e :: es => departures s R e.ev + departuresRun (step s e).1 R es

/-- **FIFO over every run**: after any sequence of events, `R`'s queue is what it was, followed by
everything that arrived for `R` since, in arrival order, minus the `departuresRun` oldest. -/
theorem run_Fifo {s : State} (hi : Inv s) (hq : QInv s) (es : List TEv) (R : Remote) :
    pending (run s es).1 R = (pending s R ++ arrivalsRun s R es).drop (departuresRun s R es) ∧
    departuresRun s R es ≤ (pending s R).length + (arrivalsRun s R es).length := by
  induction es generalizing s with
  | nil => simp [run, arrivalsRun, departuresRun]
  | cons e es ih =>
    obtain ⟨ih1, ih2⟩ := ih (step_Inv hi e) (step_QInv hq e)
    have hs := step_Fifo hi hq e R
    have hk := departures_le hi R e.ev
    simp only [run, arrivalsRun, departuresRun]
    rw [hs] at ih1 ih2
    refine ⟨?_, ?_⟩
    · rw [ih1, List.append_assoc, ← List.drop_append_of_le_length hk, List.drop_drop]
    · simp only [List.length_append, List.length_drop] at ih2 ⊢
      omega

theorem arrivalsRun_append (s : State) (R : Remote) (es fs : List TEv) :
    arrivalsRun s R (es ++ fs) = arrivalsRun s R es ++ arrivalsRun (run s es).1 R fs := by
  induction es generalizing s with
  | nil => simp [arrivalsRun, run]
  | cons e es ih => simp only [List.cons_append, arrivalsRun, run, ih, List.append_assoc]

theorem departuresRun_append (s : State) (R : Remote) (es fs : List TEv) :
    departuresRun s R (es ++ fs) = departuresRun s R es + departuresRun (run s es).1 R fs := by
  induction es generalizing s with
  | nil => simp [departuresRun, run]
  | cons e es ih => simp only [List.cons_append, departuresRun, run, ih, Nat.add_assoc]

-- the wire, over runs ------------------------------------------------------------------------------

/-- is `ev` a retransmission timer of `R`? -/
def isRetransmitOf (R : Remote) : Ev → Bool
  | .fireRetransmit r _ => r == R
  | _ => false

theorem not_isRetransmitOf {R : Remote} {ev : Ev} (h : isRetransmitOf R ev = false) :
    ∀ mid, ev ≠ .fireRetransmit R mid := by
  intro mid he
  subst he
  simp [isRetransmitOf] at h

/-- the confirmable messages put on the wire to `R` during a run by events other than `R`'s
retransmission timers — the *first* transmissions —, in wire order -/
def firstSendsRun (s : State) (R : Remote) : List TEv → List Wire
  | [] => []
  | e :: es =>
    (if isRetransmitOf R e.ev then [] else conSends R (step s e).2) ++
      firstSendsRun (step s e).1 R es

theorem step_Spec {s : State} (hi : Inv s) (hq : QInv s) (e : TEv) (R : Remote)
    (hne : ∀ mid, e.ev ≠ .fireRetransmit R mid) :
    Spec (pending s R) (pending (step s e).1 R) (conSends R (step s e).2)
      (departures s R e.ev) (arrivals s R e.ev) := by
  have h := handle_Spec (s := setNow s e.time) (Inv_of_fields hi rfl rfl rfl)
    (QInv_of_tables hq rfl rfl) e.ev R hne
  rw [arrivals_setNow, departures_setNow] at h
  exact h

theorem drop_sublist_drop {α} (l : List α) {m n : Nat} (h : m ≤ n) :
    (l.drop n).Sublist (l.drop m) := by
  have : l.drop n = (l.drop m).drop (n - m) := by rw [List.drop_drop]; congr 1; omega
  rw [this]; exact List.drop_sublist _ _

theorem head_toList_append_drop {α} (l : List α) : l.head?.toList ++ l.drop 1 = l := by
  cases l <;> simp

theorem sublist_step {α} (Q a A rest f : List α) (k : Nat)
    (hf : f = [] ∨ ((Q = [] ∨ k ≠ 0) ∧ f = (Q.drop k ++ a).head?.toList))
    (ih : rest.Sublist ((Q.drop k ++ a).drop 1 ++ A)) :
    (f ++ rest).Sublist (Q.drop 1 ++ (a ++ A)) := by
  rcases hf with rfl | ⟨hc, rfl⟩
  · rw [List.nil_append, ← List.append_assoc]
    refine ih.trans (List.Sublist.append ?_ (List.Sublist.refl _))
    rw [List.drop_append, List.drop_drop]
    exact List.Sublist.append (drop_sublist_drop Q (by omega)) (List.drop_sublist _ _)
  · have h1 : ((Q.drop k ++ a).head?.toList ++ rest).Sublist (Q.drop k ++ a ++ A) := by
      have := List.Sublist.append (List.Sublist.refl (Q.drop k ++ a).head?.toList) ih
      rwa [← List.append_assoc, head_toList_append_drop] at this
    refine h1.trans ?_
    rw [List.append_assoc]
    refine List.Sublist.append ?_ (List.Sublist.refl _)
    rcases hc with rfl | hk
    · simp
    · exact drop_sublist_drop Q (by omega)

/-- **FIFO on the wire, over every run**: the first transmissions to `R` during a run, in wire
order, are a subsequence of the messages that were waiting behind the head at the start followed by
the arrivals for `R` during the run, in queue / arrival order. -/
theorem run_firstSends_sublist {s : State} (hi : Inv s) (hq : QInv s) (es : List TEv) (R : Remote) :
    (firstSendsRun s R es).Sublist ((pending s R).drop 1 ++ arrivalsRun s R es) := by
  induction es generalizing s with
  | nil => simp [firstSendsRun]
  | cons e es ih =>
    have ih' := ih (step_Inv hi e) (step_QInv hq e)
    have hs := step_Fifo hi hq e R
    simp only [firstSendsRun, arrivalsRun]
    rw [hs] at ih'
    apply sublist_step _ _ _ _ _ (departures s R e.ev) ?_ ih'
    cases hr : isRetransmitOf R e.ev with
    | true => exact Or.inl (by simp)
    | false =>
      have hsp := (step_Spec hi hq e R (not_isRetransmitOf hr)).2
      rw [hs] at hsp
      simp only [Bool.false_eq_true, ↓reduceIte]
      by_cases hc : pending s R = [] ∨ departures s R e.ev ≠ 0
      · exact Or.inr ⟨hc, by rw [hsp, if_pos hc]⟩
      · exact Or.inl (by rw [hsp, if_neg hc])

-- the bare shape ---------------------------------------------------------------------------------

/-- the bare queue shape: something is dropped at the head, something is appended at the tail -/
def FifoStep (p p' : List Wire) : Prop := ∃ k xs, p' = p.drop k ++ xs

theorem FifoStep.refl (p : List Wire) : FifoStep p p := ⟨0, [], by simp⟩

theorem FifoStep.trans {p p' p'' : List Wire} (h1 : FifoStep p p') (h2 : FifoStep p' p'') :
    FifoStep p p'' := by
  obtain ⟨k, xs, rfl⟩ := h1
  obtain ⟨k', xs', rfl⟩ := h2
  exact ⟨k + k', xs.drop (k' - (p.drop k).length) ++ xs', by
    rw [List.drop_append, List.drop_drop, List.append_assoc]⟩

/-- On its own this shape says nothing — every pair of lists has it (drop everything, append the
new list) —, and its transitive closure even less.  The theorems above therefore pin `k` and `xs`
to the event (`departures`, `arrivals`); the two below are kept as the weakest corollaries. -/
theorem FifoStep_trivial (p p' : List Wire) : FifoStep p p' := ⟨p.length, p', by simp⟩

theorem handle_FifoStep {s : State} (hi : Inv s) (hq : QInv s) (ev : Ev) (R : Remote) :
    FifoStep (pending s R) (pending (handle s ev).1 R) :=
  ⟨departures s R ev, arrivals s R ev, handle_Fifo hi hq ev R⟩

theorem run_FifoStep {s : State} (hi : Inv s) (hq : QInv s) (es : List TEv) (R : Remote) :
    FifoStep (pending s R) (pending (run s es).1 R) := by
  induction es generalizing s with
  | nil => exact FifoStep.refl _
  | cons e es ih =>
    simp only [run]
    refine FifoStep.trans ?_ (ih (step_Inv hi e) (step_QInv hq e))
    exact ⟨departures s R e.ev, arrivals s R e.ev, step_Fifo hi hq e R⟩

end Aiocoap.MsgLayer
