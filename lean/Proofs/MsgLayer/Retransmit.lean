import Proofs.MsgLayer.Backlog
/-! Predicates on all active exchanges, preserved by every event; the retransmission schedule. -/
namespace Aiocoap.MsgLayer

/-- every active exchange satisfies `P` -/
def AllEx (P : Exchange → Prop) (s : State) : Prop := ∀ x ∈ s.exchanges, P x

/-- `P` holds of every freshly opened exchange -/
def Fresh (P : Exchange → Prop) : Prop :=
  ∀ remote w T maxRetr now mon,
    P { remote, msg := w, timeout := T, counter := 0, maxRetr, fireAt := now + T, monitor := mon,
        t0 := now, T0 := T }

variable {P : Exchange → Prop}

theorem AllEx_of_exchanges {s s' : State} (h : AllEx P s) (e : s'.exchanges = s.exchanges) :
    AllEx P s' := by intro x hx; rw [e] at hx; exact h x hx

theorem AllEx_of_sub {s s' : State} (h : AllEx P s) (e : ∀ x ∈ s'.exchanges, x ∈ s.exchanges) :
    AllEx P s' := fun x hx => h x (e x hx)

theorem addExchange_AllEx (hf : Fresh P) {s : State} (h : AllEx P s) (r : Remote) (w : Wire)
    (m : Monitor) (k : Nat) : AllEx P (addExchange s r w m k) := by
  intro x hx
  simp only [addExchange, List.mem_append, List.mem_singleton] at hx
  rcases hx with hx | rfl
  · exact h x hx
  · exact hf _ _ _ _ _ _

theorem sendInitially_AllEx (hf : Fresh P) {s : State} (h : AllEx P s) (r : Remote) (w : Wire)
    (m : Monitor) (k : Nat) : AllEx P (sendInitially s r w m k).1 := by
  unfold sendInitially
  dsimp only
  have h1 : AllEx P (if (w.mtype == MType.con) = true then addExchange s r w m k else s) := by
    split
    · exact addExchange_AllEx hf h _ _ _ _
    · exact h
  exact AllEx_of_exchanges h1 (storeReply_exchanges _ _ _)

theorem drainBacklog_AllEx (hf : Fresh P) (remote : Remote) (l : List Queued) :
    ∀ s : State, AllEx P s → AllEx P (drainBacklog s remote l).1 := by
  induction l with
  | nil => intro s h; exact AllEx_of_exchanges h rfl
  | cons qd rest ih =>
    intro s h
    simp only [drainBacklog]
    have h1 : AllEx P ({ s with backlogs := setBacklog s.backlogs remote rest } : State) :=
      AllEx_of_exchanges h rfl
    have h2 := sendInitially_AllEx hf h1 remote qd.msg qd.monitor qd.maxRetr
    split
    · exact h2
    · exact ih _ h2

theorem continueBacklog_AllEx (hf : Fresh P) {s : State} (h : AllEx P s) (remote : Remote) :
    AllEx P (continueBacklog s remote).1 := by
  unfold continueBacklog
  split
  · exact h
  · split
    · exact h
    · exact drainBacklog_AllEx hf remote _ s h

theorem dropExchange_AllEx {s : State} (h : AllEx P s) (remote : Remote) (mid : Nat) :
    AllEx P (dropExchange s remote mid) :=
  AllEx_of_sub h fun _ hx => (List.mem_filter.mp hx).1

theorem removeExchange_AllEx (hf : Fresh P) {s : State} (h : AllEx P s) (remote : Remote) (w : Wire) :
    AllEx P (removeExchange s remote w).1 := by
  unfold removeExchange
  split
  · exact h
  · simp only
    apply continueBacklog_AllEx hf
    split
    · exact AllEx_of_exchanges (dropExchange_AllEx h _ _) (runMonitor_tables _ _).1
    · exact dropExchange_AllEx h _ _

theorem dispatchOut_AllEx (hf : Fresh P) {s : State} (h : AllEx P s) (remote : Remote) (w : Wire)
    (mon : Monitor) (k : Nat) : AllEx P (dispatchOut s remote w mon k).1 := by
  unfold dispatchOut
  split
  · exact AllEx_of_exchanges h rfl
  · exact sendInitially_AllEx hf h _ _ _ _

theorem sendMessage_AllEx (hf : Fresh P) {s : State} (h : AllEx P s) (remote : Remote) (mc : Bool)
    (token : Token) (m : OutMsg) (wasNon : Bool) (mon : Monitor) :
    AllEx P (sendMessage s remote mc token m wasNon mon).1 := by
  have hp : AllEx P (dropPiggy s remote token) := AllEx_of_exchanges h rfl
  have ht : AllEx P (takeMid s).2 := AllEx_of_exchanges h rfl
  unfold sendMessage
  split
  · split
    · exact sendInitially_AllEx hf hp _ _ _ _
    · exact dispatchOut_AllEx hf hp _ _ _ _
  · split
    · exact h
    · dsimp only
      split
      · exact h
      · exact dispatchOut_AllEx hf ht _ _ _ _

theorem sendBare_AllEx (hf : Fresh P) {s : State} (h : AllEx P s) (remote : Remote) (t : MType)
    (mid : Nat) : AllEx P (sendBare s remote t mid).1 := sendInitially_AllEx hf h _ _ _ _

theorem recvDup_AllEx (hf : Fresh P) {s : State} (h : AllEx P s) (remote : Remote) (w : Wire) :
    AllEx P (recvDup s remote w).1 := by
  unfold recvDup
  split
  · split
    · exact sendInitially_AllEx hf h _ _ _ _
    · exact h
  · exact h

theorem recvCode_AllEx (hf : Fresh P) {s : State} (h : AllEx P s) (remote : Remote) (mcLocal : Bool)
    (w : Wire) : AllEx P (recvCode s remote mcLocal w).1 := by
  have hpr : AllEx P (processResponse s remote w).1 :=
    AllEx_of_exchanges h (processResponse_tables s remote w).1
  unfold recvCode
  split
  · exact sendBare_AllEx hf h _ _ _
  · split
    · exact h
    · split
      · exact AllEx_of_exchanges h (processRequest_tables s remote w).1
      · split
        · dsimp only
          split
          · split
            · exact sendBare_AllEx hf hpr _ _ _
            · exact hpr
          · split
            · exact sendBare_AllEx hf hpr _ _ _
            · exact hpr
        · exact h

theorem recv_AllEx (hf : Fresh P) {s : State} (h : AllEx P s) (remote : Remote) (mcLocal : Bool)
    (w : Wire) : AllEx P (recv s remote mcLocal w).1 := by
  unfold recv
  split
  · exact recvDup_AllEx hf h _ _
  · dsimp only
    apply recvCode_AllEx hf
    have h0 : AllEx P (if dedupable w = true then
        { s with recent := s.recent ++ [{ remote, mid := w.mid, reply := none,
                                          expiry := s.now + s.cfg.exchangeLifetime }] } else s) := by
      split
      · exact AllEx_of_exchanges h rfl
      · exact h
    split
    · exact removeExchange_AllEx hf h0 _ _
    · exact h0

theorem dispatchError_AllEx {s : State} (h : AllEx P s) (remote : Remote) :
    AllEx P (dispatchError s remote).1 := by
  unfold dispatchError
  split
  · exact h
  · dsimp only
    intro x hx
    have hx' : x ∈ (tokenDispatchError s remote ErrKind.networkError).1.exchanges :=
      (List.mem_filter.mp hx).1
    rw [(tokenDispatchError_tables s remote _).1] at hx'
    exact h x hx'

/-- the retransmission timer: the only place where an exchange is modified -/
theorem fireRetransmit_AllEx {s : State} (h : AllEx P s) (remote : Remote) (mid : Nat)
    (hnext : ∀ x, findExchange s remote mid = some x → x.counter < x.maxRetr → P (x.next s.now)) :
    AllEx P (fireRetransmit s remote mid).1 := by
  unfold fireRetransmit
  split
  · exact h
  · rename_i e hf
    dsimp only
    split
    · rename_i hlt
      intro x hx
      simp only [List.mem_append, List.mem_singleton] at hx
      rcases hx with hx | rfl
      · exact dropExchange_AllEx h _ _ x hx
      · exact hnext e hf hlt
    · exact AllEx_of_exchanges (s := dropBacklog (dropExchange s remote mid) remote)
        (AllEx_of_exchanges (dropExchange_AllEx h remote mid) rfl)
        (tokenDispatchError_tables _ remote _).1

theorem handle_AllEx (hf : Fresh P) {s : State} (h : AllEx P s) (ev : Ev)
    (hnext : ∀ remote mid x, ev = .fireRetransmit remote mid → findExchange s remote mid = some x →
      x.counter < x.maxRetr → P (x.next s.now)) :
    AllEx P (handle s ev).1 := by
  cases ev with
  | submit r remote mc ob m =>
    simp only [handle, submit]
    split
    · exact h
    · have h1 : AllEx P (registerOutgoing s r remote mc ob) := AllEx_of_exchanges h rfl
      have h2 := sendMessage_AllEx hf h1 remote mc (nextToken s) m false (.req r)
      split
      · exact AllEx_of_exchanges h2 rfl
      · exact h2
  | recv remote mcl w =>
    simp only [handle]; split
    · exact h
    · exact recv_AllEx hf h _ _ _
  | respond sv m il =>
    simp only [handle, respond]
    split
    · exact h
    · rename_i i _
      have h2 := sendMessage_AllEx hf h i.remote false i.token m i.wasNon (.srv sv)
      split
      · exact AllEx_of_exchanges h2 rfl
      · exact h2
  | appCancel r => exact AllEx_of_exchanges h rfl
  | error remote => exact dispatchError_AllEx h _
  | fireRetransmit remote mid =>
    exact fireRetransmit_AllEx h remote mid (fun x hx hlt => hnext remote mid x rfl hx hlt)
  | fireEmptyAck remote token =>
    simp only [handle, fireEmptyAck]
    split
    · exact h
    · exact sendBare_AllEx hf (s := dropPiggy s remote token) (AllEx_of_exchanges h rfl) _ _ _
  | fireExpire remote mid => exact AllEx_of_exchanges h rfl
  | shutdown =>
    simp only [handle, shutdown]
    split
    · exact h
    · intro x hx; cases hx

-- the schedule -----------------------------------------------------------------------------------

/-- closed form of an exchange's timer state: after `counter` retransmissions the running
interval is `2^counter · T0` and the next timer is due at `t0 + (2^(counter+1) − 1) · T0` -/
def ExInv (x : Exchange) : Prop :=
  x.timeout = 2 ^ x.counter * x.T0 ∧ x.fireAt = x.t0 + (2 ^ (x.counter + 1) - 1) * x.T0 ∧
  x.counter ≤ x.maxRetr

theorem ExInv_fresh : Fresh ExInv := by
  intro remote w T maxRetr now mon
  refine ⟨by simp, by simp, Nat.zero_le _⟩

theorem ExInv_next {x : Exchange} (h : ExInv x) (hlt : x.counter < x.maxRetr) :
    ExInv (x.next x.fireAt) := by
  obtain ⟨h1, h2, _⟩ := h
  refine ⟨?_, ?_, hlt⟩
  · simp only [Exchange.next, h1, Nat.pow_succ]; rw [Nat.mul_right_comm]
  · simp only [Exchange.next, h1, h2]
    have hp : 1 ≤ 2 ^ (x.counter + 1) := Nat.one_le_two_pow
    have e2 : 2 ^ (x.counter + 1 + 1) = 2 ^ (x.counter + 1) + 2 ^ (x.counter + 1) := by
      rw [Nat.pow_succ]; omega
    have e3 : 2 ^ x.counter * x.T0 * 2 = 2 ^ (x.counter + 1) * x.T0 := by
      rw [Nat.pow_succ, Nat.mul_right_comm]
    rw [e3, e2, Nat.add_assoc, ← Nat.add_mul]
    congr 2
    omega

/-- timers of retransmissions fire exactly at their deadline -/
def TimelyEv (s : State) (e : TEv) : Prop :=
  match e.ev with
  | .fireRetransmit remote mid =>
    match findExchange s remote mid with
    | some x => e.time = x.fireAt
    | none => True
  | _ => True

instance (s : State) (e : TEv) : Decidable (TimelyEv s e) := by
  unfold TimelyEv
  split
  · split <;> exact inferInstance
  · exact inferInstance

theorem TimelyEv.time_eq {s : State} {e : TEv} (h : TimelyEv s e) {remote : Remote} {mid : Nat}
    {x : Exchange} (hev : e.ev = .fireRetransmit remote mid) (hf : findExchange s remote mid = some x) :
    e.time = x.fireAt := by
  unfold TimelyEv at h
  rw [hev] at h
  simp only [hf] at h
  exact h

def Timely : State → List TEv → Prop
  | _, [] => True
  | s, e :: es => TimelyEv s e ∧ Timely (step s e).1 es

instance : (s : State) → (es : List TEv) → Decidable (Timely s es)
  | _, [] => isTrue trivial
  | s, e :: es =>
    have := instDecidableTimely (step s e).1 es
    inferInstanceAs (Decidable (TimelyEv s e ∧ Timely (step s e).1 es))

theorem step_ExInv {s : State} (h : AllEx ExInv s) (e : TEv) (ht : TimelyEv s e) :
    AllEx ExInv (step s e).1 := by
  unfold step
  apply handle_AllEx ExInv_fresh (s := setNow s e.time) (AllEx_of_exchanges h rfl)
  intro remote mid x hev hf hlt
  have hf' : findExchange s remote mid = some x := hf
  have hx : ExInv x := h x (List.mem_of_find?_eq_some hf')
  have : (setNow s e.time).now = x.fireAt := ht.time_eq hev hf'
  rw [this]
  exact ExInv_next hx hlt

theorem run_ExInv {s : State} (h : AllEx ExInv s) (es : List TEv) (ht : Timely s es) :
    AllEx ExInv (run s es).1 := by
  induction es generalizing s with
  | nil => exact h
  | cons e es ih => simp only [run]; exact ih (step_ExInv h e ht.1) ht.2

end Aiocoap.MsgLayer
