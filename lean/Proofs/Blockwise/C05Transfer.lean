import Proofs.Blockwise.C05Wire
/-! Closed loop: the client machine against the reference server (`interact`). A joint invariant
`J` of client phase and server state is preserved by every exchange, whatever size exponent the
server chooses, and a measure decreases. -/
namespace Aiocoap.BwClient

-- `interact` is `go` on the responses the server gave -----------------------------------------

theorem interact_eq_go (cfg : Cfg) (ph : Phase) (s : Srv) (cs : List Choice) :
    go cfg ph (interact cfg ph s cs).resps
      = ((interact cfg ph s cs).reqs, (interact cfg ph s cs).outcome) := by
  induction cs generalizing ph s with
  | nil => cases ph <;> simp [interact, go]
  | cons c cs ih =>
    cases ph with
    | done o => simp [interact]
    | b1 st cur =>
      simp only [interact, go]
      rw [ih]
    | b2 t a cur =>
      simp only [interact, go]
      rw [ih]

-- the reference server in the situations the client creates -------------------------------------

/-- the two shapes of the response that carries the (first block of the) representation; `q` is
the Block2 option of the request it answers (the application's size hint, if any): the block is
not larger than the request asked for -/
def FirstShape (rep : Bytes) (q : Option BlockOpt) (r : Resp) : Prop :=
  (r.block2 = none ∧ r.payload = rep) ∨
  (∃ z, z ≤ 6 ∧ (∀ b, q = some b → z ≤ b.szx) ∧
        r.block2 = some { num := 0, more := decide (blockSize z < rep.length), szx := z } ∧
        r.payload = rep.take (blockSize z))

theorem respondSzx_le (q : Option BlockOpt) (c : Choice) :
    respondSzx q c ≤ 6 ∧ ∀ b, q = some b → respondSzx q c ≤ b.szx := by
  unfold respondSzx
  cases q with
  | none => exact ⟨Nat.min_le_right _ _, fun b hb => by cases hb⟩
  | some b0 =>
    refine ⟨Nat.le_trans (Nat.min_le_right _ _) (Nat.min_le_right _ _), ?_⟩
    intro b hb
    cases hb
    exact Nat.le_trans (Nat.min_le_right _ _) (Nat.min_le_left _ _)

theorem respond_spec (s : Srv) (body : Bytes) (ack : Option BlockOpt) (q : Option BlockOpt)
    (c : Choice) :
    (s.respond body ack q c).1 = { s with buf := [], recorded := some body } ∧
    (s.respond body ack q c).2.code = s.code ∧
    (s.respond body ack q c).2.block1 = ack ∧
    (s.respond body ack q c).2.etag = s.etag ∧
    FirstShape s.rep q (s.respond body ack q c).2 := by
  obtain ⟨hz6, hzq⟩ := respondSzx_le q c
  unfold Srv.respond
  simp only
  by_cases hc : s.rep.length > blockSize (respondSzx q c) ∨ c.explicitB2 = true
  · simp only [hc, ↓reduceIte, sliceResp, Nat.zero_add, List.drop_zero, true_and]
    right
    exact ⟨respondSzx q c, hz6, hzq, by simp [Nat.zero_div], rfl⟩
  · simp only [hc, ↓reduceIte, true_and]
    left
    exact ⟨rfl, rfl⟩

theorem body_block_spec (s : Srv) (req : Req) (c : Choice) (b : BlockOpt)
    (hb : req.block1 = some b) (h7 : b.szx ≤ 7)
    (hlen : b.more = true → BlkLen b.szx req.payload.length)
    (hoff : b.num * b.size = (if b.num = 0 then [] else s.buf).length) :
    s.body req c =
      if b.more then
        ({ s with buf := (if b.num = 0 then [] else s.buf) ++ req.payload },
         { code := codeContinue,
           block1 := some { num := b.num, more := b.more, szx := min c.szx (min b.szx 6) },
           block2 := none, etag := none, payload := [] })
      else s.respond ((if b.num = 0 then [] else s.buf) ++ req.payload)
             (some { num := b.num, more := b.more, szx := min c.szx (min b.szx 6) }) req.block2 c := by
  unfold Srv.body
  simp only [hb]
  have h1 : ¬ b.szx > 7 := by omega
  have h2 : ¬ (b.more = true ∧ ¬ BlkLen b.szx req.payload.length) := fun ⟨hm, hne⟩ => hne (hlen hm)
  simp only [h1, ↓reduceIte, h2, hoff, ne_eq, not_true_eq_false]

-- the joint invariant -----------------------------------------------------------------------------

/-- `rep`, `etag`, `code` are what the server serves; `cfg.payload` what the client uploads -/
def J (cfg : Cfg) (rep : Bytes) (etag : Option Bytes) (code : Nat) : Phase → Srv → Prop
  | .b1 st cur, s =>
    s.rep = rep ∧ s.etag = etag ∧ s.code = code ∧
    B1Inv cfg st ∧ nextRequest cfg st = some cur ∧
    (if st.cursor = 0 then ([] : Bytes) else s.buf) = cfg.payload.take (st.cursor * unit st.szx)
  | .b2 t a cur, s =>
    s.rep = rep ∧ s.etag = etag ∧ s.code = code ∧
    s.recorded = some cfg.payload ∧ a.code = code ∧ a.etag = etag ∧ a.block2.szx ≤ 6 ∧
    nextBlock2Request cfg.szx0 t a = some cur ∧
    ∃ k, 0 < k ∧ k < rep.length ∧ a.payload = rep.take k ∧ blockSize a.block2.szx ∣ k
  | .done o, s =>
    s.rep = rep ∧ s.etag = etag ∧ s.code = code ∧
    s.recorded = some cfg.payload ∧ o = .ok { code := code, etag := etag, payload := rep }

/-- what is left to do -/
def mu (cfg : Cfg) (rep : Bytes) : Phase → Nat
  | .b1 st _ => (cfg.payload.length - st.cursor * unit st.szx) + rep.length + 2
  | .b2 _ a _ => rep.length - a.payload.length
  | .done _ => 0

theorem J_complete (cfg : Cfg) (cur : Req) (s : Srv) (r : Resp)
    (hrec : s.recorded = some cfg.payload) (hcode : r.code = s.code) (hetag : r.etag = s.etag)
    (hshape : FirstShape s.rep cur.block2 r) :
    J cfg s.rep s.etag s.code (completeBlock2 cfg cur r) s ∧
    mu cfg s.rep (completeBlock2 cfg cur r) ≤ s.rep.length := by
  rcases hshape with ⟨hb, hp⟩ | ⟨z, hz, hzq, hb, hp⟩
  · rw [completeBlock2_none hb]
    refine ⟨⟨rfl, rfl, rfl, hrec, ?_⟩, Nat.zero_le _⟩
    simp [bodyOf, hcode, hetag, hp]
  · -- the block is not larger than the request asked for
    have hnog : ∀ m, ¬ szxGrows cur ⟨0, m, z⟩ = true := by
      intro m
      unfold szxGrows
      cases hq : cur.block2 with
      | none => simp
      | some q => have := hzq q hq; simp only [decide_eq_true_eq]; omega
    by_cases hm : blockSize z < s.rep.length
    · -- more blocks follow
      simp only [hm, decide_true] at hb
      rw [completeBlock2_some hb, if_neg (by simp [BlockOpt.start]), if_neg (hnog true)]
      have hlen : r.payload.length = blockSize z := by
        rw [hp, List.length_take]; omega
      have hsz : BlockOpt.size ⟨0, true, z⟩ = blockSize z := BlockOpt.size_eq (b := ⟨0, true, z⟩) hz
      have hz7 : ¬ z = 7 := by omega
      have hv : BlockOpt.okFor ⟨0, true, z⟩ r.payload.length = true := by
        have := blockSize_pos z
        simp [BlockOpt.okFor, BlockOpt.validFor, hz7, hsz, hlen]
        omega
      simp only [Bool.not_true, Bool.false_eq_true, ↓reduceIte, ne_eq, not_true_eq_false, hv]
      have hinv : B2Inv ⟨r.code, r.etag, r.payload, ⟨0, true, z⟩⟩ := by
        simp only [B2Inv, hsz, hlen]
        exact Nat.dvd_refl _
      obtain ⟨cur', hc1, hc2, _⟩ := enterB2_of_inv cfg cur hinv
      rw [hc2]
      refine ⟨⟨rfl, rfl, rfl, hrec, hcode, hetag, hz, hc1, blockSize z, blockSize_pos z, hm, hp,
        Nat.dvd_refl _⟩, ?_⟩
      simp only [mu]
      omega
    · simp only [hm, decide_false] at hb
      rw [completeBlock2_some hb, if_neg (by simp [BlockOpt.start]), if_neg (hnog false)]
      simp only [Bool.not_false, ↓reduceIte]
      refine ⟨⟨rfl, rfl, rfl, hrec, ?_⟩, Nat.zero_le _⟩
      simp only [bodyOf, hcode, hetag, hp]
      rw [List.take_of_length_le (by omega)]

theorem respond_const (s : Srv) (body : Bytes) (ack : Option BlockOpt) (q : Option BlockOpt)
    (c : Choice) :
    (s.respond body ack q c).1.rep = s.rep ∧ (s.respond body ack q c).1.etag = s.etag ∧
    (s.respond body ack q c).1.code = s.code ∧
    (s.respond body ack q c).1.recorded = some body := by
  rw [(respond_spec s body ack q c).1]
  exact ⟨rfl, rfl, rfl, rfl⟩

/-- a request of the Block1 phase (no Block2 option, or the size hint with block number 0) is not
a continuation of a download -/
theorem handle_of_hint (cfg : Cfg) (s : Srv) {req : Req} (c : Choice) (h : req.block2 = hintOpt cfg) :
    s.handle req c = s.body req c := by
  unfold Srv.handle
  rw [h]
  unfold hintOpt
  cases cfg.hint2 <;> simp

/-- One exchange preserves the invariant and makes progress. -/
theorem J.exchange {cfg : Cfg} {rep : Bytes} {etag : Option Bytes} {code : Nat} {ph : Phase} {s : Srv}
    (hJ : J cfg rep etag code ph s) (hcode : code ≠ codeContinue) {cur : Req}
    (hout : ph.outstanding = some cur) (c : Choice) :
    J cfg rep etag code (step cfg ph (s.handle cur c).2) (s.handle cur c).1 ∧
    mu cfg rep (step cfg ph (s.handle cur c).2) < mu cfg rep ph := by
  cases ph with
  | done o => cases hout
  | b1 st cur0 =>
    simp only [Phase.outstanding, Option.some.injEq] at hout
    subst hout
    obtain ⟨hrep, hetag, hcd, hinv, hcur, hbuf⟩ := hJ
    subst hrep hetag hcd
    have hcur0 := hcur
    rw [nextRequest_eq hinv] at hcur
    by_cases hf : fragmented cfg st.szx = true
    · -- a block of a fragmented transfer
      have hfacts := (b1_cur_facts hinv hcur0).2
      have hnextinv := fun hsm t => B1Inv.next hinv hcur0 hsm t
      simp only [hf, Bool.false_eq_true, ↓reduceIte, Option.some.injEq] at hcur
      have hin := inside_off hinv hf
      obtain ⟨hbpos, _, _, hblen⟩ := blk_spec (mp := cfg.maxPayload) hinv.szx_le hinv.bert
      have hb2 : cur0.block2 = hintOpt cfg := by rw [← hcur]
      have hhandle : s.handle cur0 c = s.body cur0 c := handle_of_hint cfg s c hb2
      have hb1 : cur0.block1 = some ⟨st.cursor,
          decide (st.cursor * unit st.szx + blk cfg.maxPayload st.szx < cfg.payload.length), st.szx⟩ := by
        rw [← hcur]
      have hpay : cur0.payload
          = (cfg.payload.drop (st.cursor * unit st.szx)).take (blk cfg.maxPayload st.szx) := by
        rw [← hcur]
      have hbuflen : (if st.cursor = 0 then ([] : Bytes) else s.buf).length = st.cursor * unit st.szx := by
        rw [hbuf, List.length_take]; omega
      have hspec := body_block_spec s cur0 c _ hb1 hinv.szx_le
        (by
          intro hm
          simp only [decide_eq_true_eq] at hm
          show BlkLen st.szx cur0.payload.length
          rw [hpay, slice_len hm]
          exact hblen)
        (by simp only; rw [hbuflen]; rfl)
      simp only at hspec
      have hnewbuf : (if st.cursor = 0 then ([] : Bytes) else s.buf) ++ cur0.payload
          = cfg.payload.take (st.cursor * unit st.szx + blk cfg.maxPayload st.szx) := by
        rw [hbuf, hpay, take_append_slice]
      have hsent : sentBlock1 st cur0 = ⟨st.cursor,
          decide (st.cursor * unit st.szx + blk cfg.maxPayload st.szx < cfg.payload.length), st.szx⟩ := by
        simp [sentBlock1, hb1]
      rw [hhandle, hspec]
      by_cases hm : st.cursor * unit st.szx + blk cfg.maxPayload st.szx < cfg.payload.length
      · -- 2.31, the loop continues
        have hsm : (sentBlock1 st cur0).more = true := by rw [hsent]; simp [hm]
        simp only [hm, decide_true, ↓reduceIte]
        rw [step_b1_some (a := ⟨st.cursor, true, min c.szx (min st.szx 6)⟩) rfl]
        simp only [hsent, hm, decide_true, ne_eq, not_true_eq_false, ↓reduceIte, Bool.not_true,
          Bool.false_eq_true]
        have hnext := hnextinv hsm (min c.szx (min st.szx 6))
        obtain ⟨cur', hc1, hc2⟩ := enterB1_of_inv hnext
        rw [hc2]
        have hoff := reduceB_offset (t := min c.szx (min st.szx 6)) (advance st cur0) hinv.szx_le
        rw [(hfacts hsm).2.2] at hoff
        refine ⟨⟨rfl, rfl, rfl, hnext, hc1, ?_⟩, ?_⟩
        · simp only
          rw [hoff]
          have hne : (reduceB (min c.szx (min st.szx 6)) st.szx (advance st cur0)).2 ≠ 0 := by
            intro h0
            rw [h0, Nat.zero_mul] at hoff
            omega
          simp only [hne, ↓reduceIte]
          exact hnewbuf
        · simp only [mu]
          rw [hoff]
          omega
      · -- the last block: the body is complete
        simp only [hm, decide_false, Bool.false_eq_true, ↓reduceIte]
        obtain ⟨hs1, hs2, hs3, hs4, hs5⟩ := respond_spec s
          ((if st.cursor = 0 then ([] : Bytes) else s.buf) ++ cur0.payload)
          (some ⟨st.cursor, false, min c.szx (min st.szx 6)⟩) cur0.block2 c
        obtain ⟨hk1, hk2, hk3, hk4⟩ := respond_const s
          ((if st.cursor = 0 then ([] : Bytes) else s.buf) ++ cur0.payload)
          (some ⟨st.cursor, false, min c.szx (min st.szx 6)⟩) cur0.block2 c
        rw [step_b1_some hs3]
        have hcc : ¬ ((s.respond ((if st.cursor = 0 then ([] : Bytes) else s.buf) ++ cur0.payload)
            (some ⟨st.cursor, false, min c.szx (min st.szx 6)⟩) cur0.block2 c).2.code
              = codeContinue) := by rw [hs2]; exact hcode
        simp only [hsent, hm, decide_false, ne_eq, not_true_eq_false, ↓reduceIte, Bool.not_false,
          Bool.false_or, beq_iff_eq, hcc]
        have hrec : (s.respond ((if st.cursor = 0 then ([] : Bytes) else s.buf) ++ cur0.payload)
            (some ⟨st.cursor, false, min c.szx (min st.szx 6)⟩) cur0.block2 c).1.recorded
              = some cfg.payload := by
          rw [hk4, hnewbuf, List.take_of_length_le (by omega)]
        have := J_complete cfg cur0 _ _ hrec (by rw [hs2, hk3]) (by rw [hs4, hk2])
          (by rw [hk1]; exact hs5)
        rw [hk1, hk2, hk3] at this
        refine ⟨this.1, ?_⟩
        have h2 := this.2
        have hmu : mu cfg s.rep (Phase.b1 st cur0)
            = (cfg.payload.length - st.cursor * unit st.szx) + s.rep.length + 2 := rfl
        rw [hmu]
        omega
    · -- the whole payload in one request
      simp only [hf, Bool.false_eq_true, ↓reduceIte, Option.some.injEq] at hcur
      have hb2 : cur0.block2 = hintOpt cfg := by rw [← hcur]
      have hhandle : s.handle cur0 c = s.respond cfg.payload none cur0.block2 c := by
        rw [handle_of_hint cfg s c hb2, ← hcur]; simp [Srv.body]
      rw [hhandle]
      obtain ⟨hs1, hs2, hs3, hs4, hs5⟩ := respond_spec s cfg.payload none cur0.block2 c
      obtain ⟨hk1, hk2, hk3, hk4⟩ := respond_const s cfg.payload none cur0.block2 c
      rw [step_b1_none_final hs3 (by rw [hs2]; exact hcode) (by rw [← hcur]; rfl)]
      have := J_complete cfg cur0 _ _ hk4 (by rw [hs2, hk3]) (by rw [hs4, hk2])
        (by rw [hk1]; exact hs5)
      rw [hk1, hk2, hk3] at this
      refine ⟨this.1, ?_⟩
      have h2 := this.2
      have hmu : mu cfg s.rep (Phase.b1 st cur0)
          = (cfg.payload.length - st.cursor * unit st.szx) + s.rep.length + 2 := rfl
      rw [hmu]
      omega
  | b2 t a cur0 =>
    simp only [Phase.outstanding, Option.some.injEq] at hout
    subst hout
    obtain ⟨hrep, hetag, hcd, hrec, hacode, haetag, haszx, hcur, k, hk0, hklt, hapay, hdvd⟩ := hJ
    subst hrep hetag hcd
    have halen : a.payload.length = k := by rw [hapay, List.length_take]; omega
    have hinv : B2Inv a := by
      simp only [B2Inv, BlockOpt.size_eq haszx, halen]; exact hdvd
    obtain ⟨cur', hc1, _, hcb1, hcpay, hcb2⟩ := enterB2_of_inv cfg t hinv
    rw [hcur] at hc1
    simp only [Option.some.injEq] at hc1
    subst hc1
    -- the Block2 option of the request: byte offset k, exponent at most 6
    have hqstart : ((nextOpt a).reducedTo cfg.szx0).start = k := by
      rw [BlockOpt.reducedTo_start, nextOpt_start hinv, halen]
    have hqszx : ((nextOpt a).reducedTo cfg.szx0).szx ≤ 6 := by
      rw [BlockOpt.reducedTo_szx]
      have : (nextOpt a).szx = a.block2.szx := rfl
      rw [this]
      have := Nat.min_le_left a.block2.szx cfg.szx0
      omega
    generalize hq : (nextOpt a).reducedTo cfg.szx0 = q at hcb2 hqstart hqszx
    have hqoff : q.num * blockSize q.szx = k := by
      rw [← hqstart, BlockOpt.start, BlockOpt.size_eq hqszx]
    have hqnum : q.num ≠ 0 := by
      intro h0; rw [h0, Nat.zero_mul] at hqoff; omega
    -- the server's answer
    have hqoff' : q.num * q.size = k := by rw [BlockOpt.size_eq hqszx]; exact hqoff
    have hhandle : s.handle cur0 c = (s, sliceResp s k (min c.szx (min q.szx 6)) none) := by
      unfold Srv.handle
      simp only [hcb2, hqnum, ne_eq, not_false_eq_true, ↓reduceIte, hqoff']
      have h1 : ¬ q.szx > 7 := by omega
      have h2 : ¬ k ≥ s.rep.length := by omega
      simp only [h1, ↓reduceIte, h2]
    rw [hhandle]
    simp only
    have hz : min c.szx (min q.szx 6) ≤ 6 := by omega
    generalize hzdef : min c.szx (min q.szx 6) = z at hz
    have hzq : z ≤ q.szx := by rw [← hzdef]; omega
    have hbsdvd : blockSize z ∣ k := by
      rw [← hqoff]
      exact Nat.dvd_trans (blockSize_dvd hzq) (Nat.dvd_mul_left _ _)
    have hbspos := blockSize_pos z
    have hsize : ∀ m, BlockOpt.size ⟨k / blockSize z, m, z⟩ = blockSize z :=
      fun m => BlockOpt.size_eq (b := ⟨k / blockSize z, m, z⟩) hz
    have hstart : ∀ m, BlockOpt.start ⟨k / blockSize z, m, z⟩ = k := by
      intro m
      simp only [BlockOpt.start, hsize]
      exact Nat.div_mul_cancel hbsdvd
    have hplen : ((s.rep.drop k).take (blockSize z)).length = min (blockSize z) (s.rep.length - k) := by
      rw [List.length_take, List.length_drop]
    rw [step_b2_some (b := ⟨k / blockSize z, decide (k + blockSize z < s.rep.length), z⟩)
      (by simp [sliceResp])]
    have hz7 : ¬ z = 7 := by omega
    have hvalid : BlockOpt.okFor ⟨k / blockSize z, decide (k + blockSize z < s.rep.length), z⟩
        (sliceResp s k z none).payload.length = true := by
      simp only [sliceResp, hplen, BlockOpt.okFor, BlockOpt.validFor, hsize, hz7, ↓reduceIte]
      by_cases hm : k + blockSize z < s.rep.length
      · simp only [hm, decide_true, ↓reduceIte, Bool.and_eq_true, beq_iff_eq, Bool.true_and,
          Bool.not_eq_true', beq_eq_false_iff_ne, ne_eq]
        omega
      · simp only [hm, decide_false, Bool.false_eq_true, ↓reduceIte, decide_eq_true_eq,
          Bool.false_and, Bool.not_false, Bool.and_true]
        omega
    have hnew : a.payload ++ (sliceResp s k z none).payload = s.rep.take (k + blockSize z) := by
      simp only [sliceResp]
      rw [hapay, take_append_slice]
    have hnogrow : szxGrows cur0 ⟨k / blockSize z, decide (k + blockSize z < s.rep.length), z⟩ = false := by
      unfold szxGrows
      rw [hcb2]
      simp only [decide_eq_false_iff_not]
      omega
    rw [if_neg (by simp [hnogrow])]
    rw [if_neg (by simp [sliceResp, hacode])]
    simp only [hvalid, Bool.not_true, Bool.false_eq_true, ↓reduceIte, hstart, halen, ne_eq,
      not_true_eq_false]
    have het : (sliceResp s k z none).etag = a.etag := by simp [sliceResp, haetag]
    simp only [het, not_true_eq_false, ↓reduceIte]
    by_cases hm : k + blockSize z < s.rep.length
    · simp only [hm, decide_true, Bool.not_true, Bool.false_eq_true, ↓reduceIte]
      have hinv' : B2Inv ⟨a.code, a.etag, a.payload ++ (sliceResp s k z none).payload,
          ⟨k / blockSize z, true, z⟩⟩ := by
        simp only [B2Inv, hsize, hnew, List.length_take]
        rw [Nat.min_eq_left (by omega)]
        exact Nat.dvd_add hbsdvd (Nat.dvd_refl _)
      obtain ⟨cur', hc1, hc2, _⟩ := enterB2_of_inv cfg t hinv'
      rw [hc2]
      refine ⟨⟨rfl, rfl, rfl, hrec, hacode, haetag, hz, hc1, k + blockSize z, by omega, hm, hnew,
        Nat.dvd_add hbsdvd (Nat.dvd_refl _)⟩, ?_⟩
      simp only [mu, hnew, halen, List.length_take]
      omega
    · simp only [hm, decide_false, Bool.not_false, ↓reduceIte]
      refine ⟨⟨rfl, rfl, rfl, hrec, ?_⟩, ?_⟩
      · rw [hnew, hacode, haetag, List.take_of_length_le (by omega)]
      · simp only [mu, halen]; omega

-- whole runs ------------------------------------------------------------------------------------------

theorem J.const {cfg : Cfg} {rep : Bytes} {etag : Option Bytes} {code : Nat} {ph : Phase} {s : Srv}
    (hJ : J cfg rep etag code ph s) : s.rep = rep ∧ s.etag = etag ∧ s.code = code := by
  cases ph <;> exact ⟨hJ.1, hJ.2.1, hJ.2.2.1⟩

/-- safety: the run is still pending or both bodies arrived intact -/
theorem J.run_safe {cfg : Cfg} {rep : Bytes} {etag : Option Bytes} {code : Nat} {ph : Phase} {s : Srv}
    (hJ : J cfg rep etag code ph s) (hcode : code ≠ codeContinue) (cs : List Choice) :
    (BwClient.interact cfg ph s cs).outcome = .pending ∨
    ((BwClient.interact cfg ph s cs).outcome = .ok { code := code, etag := etag, payload := rep } ∧
     (BwClient.interact cfg ph s cs).srv.recorded = some cfg.payload) := by
  induction cs generalizing ph s with
  | nil =>
    cases ph with
    | done o => right; simp only [BwClient.interact]; exact ⟨hJ.2.2.2.2, hJ.2.2.2.1⟩
    | b1 st cur => left; rfl
    | b2 t a cur => left; rfl
  | cons c cs ih =>
    cases ph with
    | done o => right; simp only [BwClient.interact]; exact ⟨hJ.2.2.2.2, hJ.2.2.2.1⟩
    | b1 st cur =>
      simp only [BwClient.interact]
      exact ih (hJ.exchange hcode rfl c).1
    | b2 t a cur =>
      simp only [BwClient.interact]
      exact ih (hJ.exchange hcode rfl c).1

/-- progress: with enough exchanges the run is not pending -/
theorem J.run_done {cfg : Cfg} {rep : Bytes} {etag : Option Bytes} {code : Nat} {ph : Phase}
    {s : Srv} (hJ : J cfg rep etag code ph s) (hcode : code ≠ codeContinue) (cs : List Choice)
    (hlen : mu cfg rep ph ≤ cs.length) :
    (BwClient.interact cfg ph s cs).outcome ≠ .pending := by
  induction cs generalizing ph s with
  | nil =>
    cases ph with
    | done o => simp only [BwClient.interact]; rw [hJ.2.2.2.2]; simp
    | b1 st cur => simp [mu] at hlen
    | b2 t a cur =>
      obtain ⟨_, _, _, _, _, _, _, _, k, hk0, hklt, hapay, _⟩ := hJ
      have : a.payload.length = k := by rw [hapay, List.length_take]; omega
      simp only [mu, List.length_nil] at hlen
      omega
  | cons c cs ih =>
    cases ph with
    | done o => simp only [BwClient.interact]; rw [hJ.2.2.2.2]; simp
    | b1 st cur =>
      simp only [BwClient.interact]
      have := hJ.exchange hcode (cur := cur) rfl c
      exact ih this.1 (by simp only [List.length_cons] at hlen; omega)
    | b2 t a cur =>
      simp only [BwClient.interact]
      have := hJ.exchange hcode (cur := cur) rfl c
      exact ih this.1 (by simp only [List.length_cons] at hlen; omega)

/-- the start of a transfer satisfies the invariant -/
theorem J.start {cfg : Cfg} (h6 : cfg.Ok) (rep : Bytes) (etag : Option Bytes) (code : Nat) :
    ∃ cur, start cfg = .b1 { szx := startSzx cfg, cursor := 0 } cur ∧
      J cfg rep etag code (start cfg) (Srv.init rep etag code) := by
  obtain ⟨cur, h1, h2⟩ := enterB1_of_inv (B1Inv.start h6)
  refine ⟨cur, h2, ?_⟩
  unfold BwClient.start
  rw [h2]
  exact ⟨rfl, rfl, rfl, B1Inv.start h6, h1, by simp⟩

end Aiocoap.BwClient
