import Proofs.Blockwise.C06History
/-! Lifting the `TimeoutDict` lifetime argument to the spool and the rendering cache inside
`Resource._render_to_pipe`: requests under other block keys do not touch an entry. -/
set_option linter.unusedSectionVars false
set_option linter.unusedSimpArgs false
set_option linter.unusedVariables false

namespace Aiocoap.BwServer
namespace TD
variable {κ : Type} {ν : Type} [DecidableEq κ]

/-- `td'` results from `td` (at time `now`) by operations that do not concern key `k` -/
def Untouches (T now : Nat) (k : κ) (td td' : TD κ ν) : Prop :=
  (td.WF → td'.WF) ∧ (td.Bounded T now → td'.Bounded T now) ∧
  (td.WF → alookup k td'.items = alookup k td.items ∧ td'.deathTime T k = td.deathTime T k)

theorem Untouches.refl (T now : Nat) (k : κ) (td : TD κ ν) : Untouches T now k td td :=
  ⟨id, id, fun _ => ⟨rfl, rfl⟩⟩

theorem Untouches.trans {T now : Nat} {k : κ} {a b c : TD κ ν} (h1 : Untouches T now k a b)
    (h2 : Untouches T now k b c) : Untouches T now k a c :=
  ⟨fun h => h2.1 (h1.1 h), fun h => h2.2.1 (h1.2.1 h), fun h => by
    obtain ⟨e1, e2⟩ := h1.2.2 h
    obtain ⟨e3, e4⟩ := h2.2.2 (h1.1 h)
    exact ⟨e3.trans e1, e4.trans e2⟩⟩

theorem untouches_applyOp {T now : Nat} {k : κ} (td : TD κ ν) (op : Op κ ν) (hne : op.key ≠ k) :
    Untouches T now k td (td.applyOp T now op) :=
  ⟨fun h => applyOp_wf h op, fun h => applyOp_bounded h op, fun h => applyOp_other h op hne⟩

theorem untouches_accessed {T now : Nat} {k k' : κ} (td : TD κ ν) (hne : k' ≠ k) :
    Untouches T now k td (td.accessed T now k') :=
  ⟨fun _ => accessed_wf _ _ _ _, fun h => accessed_bounded h _, fun h =>
    ⟨by rw [accessed_items], accessed_deathTime_ne (fun hd => by rw [h hd]; rfl) hne⟩⟩

theorem untouches_set {T now : Nat} {k k' : κ} (td : TD κ ν) (v : ν) (hne : k' ≠ k) :
    Untouches T now k td (td.set T now k' v) :=
  untouches_applyOp td (.set k' v) hne

theorem untouches_mutate {T now : Nat} {k k' : κ} (td : TD κ ν) (v : ν) (hne : k' ≠ k) :
    Untouches T now k td (td.mutate k' v) :=
  untouches_applyOp (T := T) (now := now) td (.mutate k' v) hne

theorem linv_of_untouches {T now u D : Nat} {td td' : TD κ ν} {k : κ} (h : LInv T td now k D)
    (hle : now ≤ u) (hu : Untouches T u k (td.advance T u) td') : LInv T td' u k D := by
  have hwf := advance_wf h.wf (T := T) u
  have hb := advance_bounded h.bounded hle
  obtain ⟨ho1, ho2⟩ := hu.2.2 hwf
  refine ⟨hu.1 hwf, hu.2.1 hb, ?_⟩
  rw [ho1, ho2]
  rcases h.state with ⟨hd, hlt⟩ | ⟨ha, hge⟩
  · obtain ⟨h1, h2⟩ := advance_deathTime hd u
    by_cases hu' : u < D
    · exact Or.inl ⟨h1 hu', hu'⟩
    · exact Or.inr ⟨h2 (by omega), by omega⟩
  · exact Or.inr ⟨advance_absent ha u, by omega⟩

-- entries that have just been accessed ----------------------------------------------------------

/-- state right after the timers ran, or after further accesses at the same instant -/
structure Settled (T now : Nat) (td : TD κ ν) : Prop where
  wf : td.WF
  bounded : td.Bounded T now
  notDue : ∀ d, td.deadline = some d → now ≤ d

theorem settled_advance {T now u : Nat} {td : TD κ ν} (hwf : td.WF) (hb : td.Bounded T now)
    (hle : now ≤ u) : Settled T u (td.advance T u) :=
  ⟨advance_wf hwf u, advance_bounded hb hle, fun d hd => Nat.le_of_lt (advance_not_due T u td d hd)⟩

theorem settled_accessed {T now : Nat} {td : TD κ ν} (h : Settled T now td) (k : κ) :
    Settled T now (td.accessed T now k) := by
  refine ⟨accessed_wf _ _ _ _, accessed_bounded h.bounded _, ?_⟩
  intro d hd
  unfold accessed at hd
  split at hd
  · simp only [Option.some.injEq] at hd; omega
  · rename_i d' hd'
    simp only at hd
    exact h.notDue d (by rw [← hd])

theorem settled_set {T now : Nat} {td : TD κ ν} (h : Settled T now td) (k : κ) (v : ν) :
    Settled T now (td.set T now k v) := by
  refine ⟨accessed_wf _ _ _ _, ?_, ?_⟩
  · exact accessed_bounded (td := { td with items := ainsert k v td.items }) h.bounded _
  · intro d hd
    simp only [set, accessed] at hd
    split at hd
    · simp only [Option.some.injEq] at hd; omega
    · rename_i d' hd'
      simp only at hd hd'
      exact h.notDue d (by rw [← hd])

theorem settled_mutate {T now : Nat} {td : TD κ ν} (h : Settled T now td) (k : κ) (v : ν) :
    Settled T now (td.mutate k v) := by
  unfold mutate
  cases hl : alookup k td.items with
  | none => exact h
  | some v' =>
    refine ⟨?_, h.bounded, h.notDue⟩
    intro hd
    have := h.wf hd
    rw [this] at hl; simp at hl

/-- an access of a present key at `now` puts its death time into `[now+T, now+2T]` -/
theorem deathTime_accessed {T now : Nat} {td : TD κ ν} (h : Settled T now td) {k : κ} {v : ν}
    (hl : alookup k td.items = some v) :
    ∃ D, (td.accessed T now k).deathTime T k = some D ∧ now + T ≤ D ∧ D ≤ now + 2 * T :=
  accessed_deathTime_self hl h.notDue h.bounded

theorem deathTime_set {T now : Nat} {td : TD κ ν} (h : Settled T now td) (k : κ) (v : ν) :
    ∃ D, (td.set T now k v).deathTime T k = some D ∧ now + T ≤ D ∧ D ≤ now + 2 * T :=
  accessed_deathTime_self (td := { td with items := ainsert k v td.items })
    (alookup_ainsert_self _ _ _) h.notDue h.bounded

theorem deathTime_mutate_self {T : Nat} {td : TD κ ν} {k : κ} {v v' : ν}
    (hl : alookup k td.items = some v) : (td.mutate k v').deathTime T k = td.deathTime T k := by
  simp only [mutate, hl, deathTime, alookup_ainsert_self]
  cases td.deadline <;> rfl

theorem linv_of_deathTime {T now D : Nat} {td : TD κ ν} {k : κ} (h : Settled T now td)
    (hd : td.deathTime T k = some D) (hlt : now < D) : LInv T td now k D :=
  ⟨h.wf, h.bounded, Or.inl ⟨hd, hlt⟩⟩

/-- what `lifetime_aux` says when nothing more happens -/
theorem linv_final {T now D t' : Nat} {td : TD κ ν} {k : κ} (h : LInv T td now k D) (hle : now ≤ t') :
    (t' < D → (td.advance T t').present k = true) ∧ (D ≤ t' → (td.advance T t').present k = false) := by
  have := lifetime_aux (T := T) (D := D) (k := k) ([] : List (Nat × Op κ ν)) h trivial
    (fun p hp => by cases hp) t' (fun p hp => by cases hp) hle
  simpa [runOps] using this

end TD

open TD

-- the spool and the cache inside `step` ------------------------------------------------------------

theorem delIf_eq_applyOp {ν : Type} (T now : Nat) (c : TD Key ν) (k : Key) :
    delIf c k = c.applyOp T now (.del k) := by
  simp only [delIf, applyOp]
  cases c.del k <;> rfl

theorem untouches_delIf {ν : Type} {T now : Nat} {k k' : Key} (td : TD Key ν) (hne : k' ≠ k) :
    Untouches T now k td (delIf td k') := by
  rw [delIf_eq_applyOp T now]
  exact untouches_applyOp _ _ hne

theorem settled_delIf {ν : Type} {T now : Nat} {td : TD Key ν} (h : Settled T now td) (k : Key) :
    Settled T now (delIf td k) := by
  refine ⟨?_, ?_, fun d hd => h.notDue d (by rwa [delIf_deadline] at hd)⟩
  · rw [delIf_eq_applyOp T now]; exact applyOp_wf h.wf _
  · rw [delIf_eq_applyOp T now]; exact applyOp_bounded h.bounded _

theorem feed_untouches {T now : Nat} {sp : TD Key Msg} {req : Msg} {k : Key}
    (hne : blockKey req ≠ k) : Untouches T now k sp (feedAndTake T now sp req).1 := by
  cases hb : req.block1 with
  | none => rw [feed_none hb]; exact Untouches.refl _ _ _ _
  | some b =>
    rcases feed_cases T now sp req b hb with ⟨h0, _, e⟩ | ⟨h0, _, e⟩ | ⟨h0, _, e⟩ |
        ⟨h0, self, er, hl, ha, e⟩ | ⟨h0, self, self', hl, ha, e⟩
    · rw [e]; exact Untouches.refl _ _ _ _
    · rw [e]
      split
      · exact untouches_set _ _ hne
      · exact ((untouches_set _ _ hne).trans (untouches_accessed _ hne)).trans (untouches_delIf _ hne)
    · rw [e]; exact Untouches.refl _ _ _ _
    · rw [e]; exact untouches_accessed _ hne
    · rw [e]
      split
      · exact (untouches_accessed _ hne).trans (untouches_mutate _ _ hne)
      · exact (((untouches_accessed _ hne).trans (untouches_mutate _ _ hne)).trans
          (untouches_accessed _ hne)).trans (untouches_delIf _ hne)

theorem extract_untouches {T now : Nat} {c : TD Key Resp} {m : Msg} {render : Msg → Outcome} {k : Key}
    (hne : blockKey m ≠ k) : Untouches T now k c (extractOrInsert T now c m render).1 := by
  by_cases hf : isFresh m = true
  · cases hr : render m with
    | ok a =>
      rw [extract_fresh hf hr]
      split
      · exact (untouches_delIf _ hne).trans (untouches_set _ _ hne)
      · exact untouches_delIf _ hne
    | error code =>
      rw [extract_fresh_raised hf hr]
      exact untouches_delIf _ hne
    | junk =>
      rw [extract_fresh_junk hf hr]
      exact untouches_delIf _ hne
  · have hf' : isFresh m = false := by simpa using hf
    obtain ⟨b, hb, hb0⟩ := later_of_not_fresh hf'
    cases hl : alookup (blockKey m) c.items with
    | none => rw [extract_later_none hb hb0 hl]; exact Untouches.refl _ _ _ _
    | some a =>
      rw [extract_later_some hb hb0 hl]
      exact (untouches_accessed _ hne).trans (untouches_set _ _ hne)

theorem pass_key {T now : Nat} {hist : List Msg} {sp : TD Key Msg} {req m : Msg}
    (h : SpoolInv hist sp) (hp : (feedAndTake T now sp req).2 = .pass m) :
    blockKey m = blockKey req := by
  rcases (feed_spoolInv (T := T) (now := now) req h).2 m hp with ⟨_, e⟩ | ⟨e, _⟩
  · rw [e]
  · exact e

theorem step_spool_untouches {T : Nat} {st : RState} {i : In} {k : Key}
    (hne : i.assemble = true → blockKey i.req ≠ k) :
    Untouches T i.now k (spoolAt T st i) (step T st i).1.spool := by
  rw [step_spool_eq]
  by_cases ha : i.assemble = true
  · simp only [ha, ↓reduceIte]; exact feed_untouches (hne ha)
  · have ha' : i.assemble = false := by simpa using ha
    simp only [ha', Bool.false_eq_true, ↓reduceIte]; exact Untouches.refl _ _ _ _

theorem step_cache_untouches {T : Nat} {st : RState} {i : In} {k : Key} {hist : List Msg}
    (hs : SpoolInv hist st.spool) (hne : i.assemble = true → blockKey i.req ≠ k) :
    Untouches T i.now k (cacheAt T st i) (step T st i).1.cache := by
  by_cases ha : i.assemble = true
  · cases hfe : (feedAndTake T i.now (spoolAt T st i) i.req).2 with
    | cont b => rw [step_cont ha hfe]; exact Untouches.refl _ _ _ _
    | incomplete => rw [step_incomplete ha hfe]; exact Untouches.refl _ _ _ _
    | badRequest => rw [step_badRequest ha hfe]; exact Untouches.refl _ _ _ _
    | keyError => exact absurd hfe (feed_ne_keyError _ _ _ _)
    | pass m =>
      rw [step_pass ⟨ha, hfe⟩]
      have hadv : SpoolInv hist (spoolAt T st i) := hs.of_items (fun k v hl => advance_lookup_some hl)
      have hk := pass_key hadv hfe
      exact extract_untouches (by rw [hk]; exact hne ha)
  · have ha' : i.assemble = false := by simpa using ha
    rw [step_no_assembly ha']; exact Untouches.refl _ _ _ _

-- reachable states ------------------------------------------------------------------------------------

/-- arrival times do not go backwards, none before `t` -/
def TimeOrdered : Nat → List In → Prop
  | _, [] => True
  | t, i :: r => t ≤ i.now ∧ TimeOrdered i.now r

theorem timeOrdered_append {t : Nat} {a : List In} {i : In} {b : List In}
    (h : TimeOrdered t (a ++ i :: b)) :
    TimeOrdered t a ∧ (∀ x ∈ a, x.now ≤ i.now) ∧ t ≤ i.now ∧ TimeOrdered i.now b := by
  induction a generalizing t with
  | nil =>
    refine ⟨trivial, ?_, h.1, h.2⟩
    intro x hx; cases hx
  | cons x r ih =>
    obtain ⟨h1, h2⟩ := h
    obtain ⟨i1, i2, i3, i4⟩ := ih h2
    refine ⟨⟨h1, i1⟩, ?_, by omega, i4⟩
    intro y hy
    rcases List.mem_cons.mp hy with e | hy
    · subst e; exact i3
    · exact i2 y hy

/-- invariants of every state reached in a time-ordered history, as of time `now` -/
structure RInv (T now : Nat) (st : RState) : Prop where
  swf : st.spool.WF
  sb : st.spool.Bounded T now
  cwf : st.cache.WF
  cb : st.cache.Bounded T now
  hist : ∃ h0, SpoolInv h0 st.spool

theorem rinv_init (T now : Nat) : RInv T now RState.init :=
  ⟨empty_wf, empty_bounded T now, empty_wf, empty_bounded T now, [], spoolInv_empty []⟩

def otherKey (k : Key) : Key := { k with rkey := k.rkey + 1 }

theorem otherKey_ne (k : Key) : k ≠ otherKey k := by
  intro h
  have := congrArg Key.rkey h
  simp [otherKey] at this

theorem step_rinv {T now : Nat} {st : RState} (h : RInv T now st) (i : In) (hle : now ≤ i.now) :
    RInv T i.now (step T st i).1 := by
  obtain ⟨h0, hs⟩ := h.hist
  have hk : i.assemble = true → blockKey i.req ≠ otherKey (blockKey i.req) := fun _ => otherKey_ne _
  have us := step_spool_untouches (T := T) (st := st) (i := i) hk
  have uc := step_cache_untouches (T := T) (st := st) (i := i) hs hk
  exact ⟨us.1 (advance_wf h.swf _), us.2.1 (advance_bounded h.sb hle),
         uc.1 (advance_wf h.cwf _), uc.2.1 (advance_bounded h.cb hle),
         _, step_spoolInv (T := T) i hs⟩

theorem stateAfter_rinv {T : Nat} (hist : List In) :
    ∀ {st : RState} {now : Nat}, RInv T now st → TimeOrdered now hist → ∀ t,
      (∀ i ∈ hist, i.now ≤ t) → now ≤ t → RInv T t (stateAfter T st hist) := by
  induction hist with
  | nil =>
    intro st now h _ t _ hle
    exact ⟨h.swf, bounded_mono h.sb hle, h.cwf, bounded_mono h.cb hle, h.hist⟩
  | cons i rest ih =>
    intro st now h ho t ht hle
    exact ih (step_rinv h i ho.1) ho.2 t (fun x hx => ht x (List.mem_cons_of_mem _ hx))
      (ht i List.mem_cons_self)

-- lifetime of an entry across requests of other block keys ---------------------------------------

theorem spool_lifetime_aux {T D : Nat} {k : Key} (rest : List In) :
    ∀ {st : RState} {now : Nat}, LInv T st.spool now k D → TimeOrdered now rest →
      (∀ i ∈ rest, i.assemble = true → blockKey i.req ≠ k) → ∀ t', (∀ i ∈ rest, i.now ≤ t') →
      now ≤ t' →
      (t' < D → ((stateAfter T st rest).spool.advance T t').present k = true) ∧
      (D ≤ t' → ((stateAfter T st rest).spool.advance T t').present k = false) := by
  induction rest with
  | nil => intro st now h _ _ t' _ hle; exact linv_final h hle
  | cons i rest ih =>
    intro st now h ho hne t' ht hle
    have h' : LInv T (step T st i).1.spool i.now k D :=
      linv_of_untouches h ho.1 (step_spool_untouches (hne i List.mem_cons_self))
    exact ih h' ho.2 (fun x hx => hne x (List.mem_cons_of_mem _ hx)) t'
      (fun x hx => ht x (List.mem_cons_of_mem _ hx)) (ht i List.mem_cons_self)

theorem cache_lifetime_aux {T D : Nat} {k : Key} (rest : List In) :
    ∀ {st : RState} {now : Nat}, LInv T st.cache now k D → (∃ h0, SpoolInv h0 st.spool) →
      TimeOrdered now rest →
      (∀ i ∈ rest, i.assemble = true → blockKey i.req ≠ k) → ∀ t', (∀ i ∈ rest, i.now ≤ t') →
      now ≤ t' →
      (t' < D → ((stateAfter T st rest).cache.advance T t').present k = true) ∧
      (D ≤ t' → ((stateAfter T st rest).cache.advance T t').present k = false) := by
  induction rest with
  | nil => intro st now h _ _ _ t' _ hle; exact linv_final h hle
  | cons i rest ih =>
    intro st now h hs ho hne t' ht hle
    obtain ⟨h0, hs⟩ := hs
    have h' : LInv T (step T st i).1.cache i.now k D :=
      linv_of_untouches h ho.1 (step_cache_untouches hs (hne i List.mem_cons_self))
    exact ih h' ⟨_, step_spoolInv (T := T) i hs⟩ ho.2
      (fun x hx => hne x (List.mem_cons_of_mem _ hx)) t'
      (fun x hx => ht x (List.mem_cons_of_mem _ hx)) (ht i List.mem_cons_self)

/-- an entry that is still there after requests of other block keys is the one that was there -/
theorem lookup_back {T : Nat} {k : Key} (rest : List In) :
    ∀ {st : RState} {now : Nat}, RInv T now st → TimeOrdered now rest →
      (∀ i ∈ rest, i.assemble = true → blockKey i.req ≠ k) → ∀ t',
      (∀ v, alookup k ((stateAfter T st rest).spool.advance T t').items = some v →
            alookup k st.spool.items = some v) ∧
      (∀ v, alookup k ((stateAfter T st rest).cache.advance T t').items = some v →
            alookup k st.cache.items = some v) := by
  induction rest with
  | nil =>
    intro st now _ _ _ t'
    exact ⟨fun v hv => advance_lookup_some hv, fun v hv => advance_lookup_some hv⟩
  | cons i rest ih =>
    intro st now h ho hne t'
    obtain ⟨i1, i2⟩ := ih (step_rinv h i ho.1) ho.2 (fun x hx => hne x (List.mem_cons_of_mem _ hx)) t'
    obtain ⟨h0, hs⟩ := h.hist
    have us := step_spool_untouches (T := T) (st := st) (i := i) (hne i List.mem_cons_self)
    have uc := step_cache_untouches (T := T) (st := st) (i := i) hs (hne i List.mem_cons_self)
    constructor
    · intro v hv
      have := i1 v hv
      rw [(us.2.2 (advance_wf h.swf _)).1] at this
      exact advance_lookup_some this
    · intro v hv
      have := i2 v hv
      rw [(uc.2.2 (advance_wf h.cwf _)).1] at this
      exact advance_lookup_some this


theorem stateAfter_append (T : Nat) (st : RState) (a b : List In) :
    stateAfter T st (a ++ b) = stateAfter T (stateAfter T st a) b := by
  induction a generalizing st with
  | nil => rfl
  | cons i r ih => simp [stateAfter, ih]

-- the entry of a block key right after it was used ----------------------------------------------

/-- what `feed_and_take` leaves under the block key of an accepted intermediate block -/
theorem accepted_spool {T : Nat} {st : RState} {cur : In} {b : Blk}
    (hb : cur.req.block1 = some b) (hm : b.more = true) (hacc : Accepted T st cur b) :
    ∃ asm prev, (b.num = 0 ∧ prev = [] ∨
                 b.num ≠ 0 ∧ ∃ old, alookup (blockKey cur.req) (spoolAt T st cur).items = some old ∧
                   prev = old.payload) ∧
      asm.payload = prev ++ cur.req.payload ∧
      (feedAndTake T cur.now (spoolAt T st cur) cur.req).1 =
          (if b.num = 0 then (spoolAt T st cur).set T cur.now (blockKey cur.req) asm
           else ((spoolAt T st cur).accessed T cur.now (blockKey cur.req)).mutate (blockKey cur.req) asm) := by
  by_cases h0 : b.num = 0
  · have hs0 : sizeOk b cur.req.payload.length = true := by
      rcases hacc with ⟨_, h⟩ | ⟨_, _, _, h, _⟩ <;> exact h
    refine ⟨cur.req, [], Or.inl ⟨h0, rfl⟩, rfl, ?_⟩
    rw [feed_first hb h0 hs0]
    simp [h0, hm]
  · rcases hacc with h | ⟨old, hl, hc, hs, hst⟩
    · exact absurd h.1 h0
    · obtain ⟨self', hok⟩ : ∃ s, appendRequestBlock old cur.req b = .ok s :=
        ⟨_, append_ok_iff.mpr ⟨hc, hs, hst, rfl⟩⟩
      have hp : self'.payload = old.payload ++ cur.req.payload := by
        obtain ⟨_, _, _, e⟩ := append_ok_iff.mp hok
        rw [e]
      refine ⟨self', old.payload, Or.inr ⟨h0, old, hl, rfl⟩, hp, ?_⟩
      rw [feed_append_ok hb h0 hl hok]
      simp [h0, hm]

theorem accepted_linv {T t0 : Nat} (hT : 0 < T) {st : RState} (h : RInv T t0 st) (cur : In)
    (hle : t0 ≤ cur.now) (ha : cur.assemble = true) {b : Blk} (hb : cur.req.block1 = some b)
    (hm : b.more = true) (hacc : Accepted T st cur b) :
    ∃ D asm, cur.now + T ≤ D ∧ D ≤ cur.now + 2 * T ∧
      LInv T (step T st cur).1.spool cur.now (blockKey cur.req) D ∧
      alookup (blockKey cur.req) (step T st cur).1.spool.items = some asm := by
  have hset : Settled T cur.now (spoolAt T st cur) := settled_advance h.swf h.sb hle
  obtain ⟨asm, prev, _, _, hform⟩ := accepted_spool hb hm hacc
  rw [step_spool_eq]
  simp only [ha, ↓reduceIte]
  rw [hform]
  by_cases h0 : b.num = 0
  · simp only [h0, ↓reduceIte]
    obtain ⟨D, hD, h1, h2⟩ := deathTime_set hset (blockKey cur.req) asm
    exact ⟨D, asm, h1, h2, linv_of_deathTime (settled_set hset _ _) hD (by omega),
      by simp [TD.set, accessed_items, alookup_ainsert_self]⟩
  · simp only [h0, ↓reduceIte]
    rcases hacc with e | ⟨old, hl, _, _, _⟩
    · exact absurd e.1 h0
    · obtain ⟨D, hD, h1, h2⟩ := deathTime_accessed hset hl
      have hl' : alookup (blockKey cur.req)
          ((spoolAt T st cur).accessed T cur.now (blockKey cur.req)).items = some old := by
        rw [accessed_items]; exact hl
      refine ⟨D, asm, h1, h2,
        linv_of_deathTime (settled_mutate (settled_accessed hset _) _ _) ?_ (by omega), ?_⟩
      · rw [deathTime_mutate_self hl']; exact hD
      · simp [TD.mutate, hl', alookup_ainsert_self]

/-- a block key under which nothing is stored stays empty while only other block keys are used -/
theorem spool_absent_aux {T : Nat} {k : Key} (rest : List In) :
    ∀ {st : RState} {now : Nat}, RInv T now st → alookup k st.spool.items = none →
      TimeOrdered now rest → (∀ i ∈ rest, i.assemble = true → blockKey i.req ≠ k) → ∀ t',
      alookup k ((stateAfter T st rest).spool.advance T t').items = none := by
  induction rest with
  | nil => intro st now _ h _ _ t'; exact advance_absent h t'
  | cons i rest ih =>
    intro st now h habs ho hne t'
    have us := step_spool_untouches (T := T) (st := st) (i := i) (hne i List.mem_cons_self)
    have h1 : alookup k (step T st i).1.spool.items = none := by
      rw [(us.2.2 (advance_wf h.swf _)).1]
      exact advance_absent habs _
    exact ih (step_rinv h i ho.1) h1 ho.2 (fun x hx => hne x (List.mem_cons_of_mem _ hx)) t'

/-- … and likewise for the rendering cache -/
theorem cache_absent_aux {T : Nat} {k : Key} (rest : List In) :
    ∀ {st : RState} {now : Nat}, RInv T now st → alookup k st.cache.items = none →
      TimeOrdered now rest → (∀ i ∈ rest, i.assemble = true → blockKey i.req ≠ k) → ∀ t',
      alookup k ((stateAfter T st rest).cache.advance T t').items = none := by
  induction rest with
  | nil => intro st now _ h _ _ t'; exact advance_absent h t'
  | cons i rest ih =>
    intro st now h habs ho hne t'
    obtain ⟨h0, hs⟩ := h.hist
    have uc := step_cache_untouches (T := T) (st := st) (i := i) hs (hne i List.mem_cons_self)
    have h1 : alookup k (step T st i).1.cache.items = none := by
      rw [(uc.2.2 (advance_wf h.cwf _)).1]
      exact advance_absent habs _
    exact ih (step_rinv h i ho.1) h1 ho.2 (fun x hx => hne x (List.mem_cons_of_mem _ hx)) t'

/-- an accepted final block leaves nothing under its block key -/
theorem passes_block1_absent {T : Nat} {st : RState} {i : In} {m : Msg} {b : Blk}
    (hp : Passes T st i m) (hb : i.req.block1 = some b) :
    alookup (blockKey i.req) (step T st i).1.spool.items = none := by
  rw [step_spool_eq]
  simp only [hp.1, ↓reduceIte]
  exact feed_pass_absent hb hp.2

/-- the rendering a request was answered from in blocks is kept under its key, freshly used -/
theorem served_linv {T t0 : Nat} (hT : 0 < T) {st : RState} (h : RInv T t0 st) (cur : In)
    (hle : t0 ≤ cur.now) {m : Msg} {a : Resp} (hp : Passes T st cur m) (hsrc : Source T st cur m a)
    (hchunk : needsChunking m a.payload.length = true) :
    ∃ D, cur.now + T ≤ D ∧ D ≤ cur.now + 2 * T ∧
      LInv T (step T st cur).1.cache cur.now (blockKey m) D ∧
      alookup (blockKey m) (step T st cur).1.cache.items = some a := by
  have hset : Settled T cur.now (cacheAt T st cur) := settled_advance h.cwf h.cb hle
  rw [step_pass hp]
  simp only
  rcases hsrc with ⟨hf, ha⟩ | ⟨hf, hl⟩
  · rw [extract_fresh hf ha]
    simp only [hchunk, ↓reduceIte]
    have hset := settled_delIf hset (blockKey m)
    obtain ⟨D, hD, h1, h2⟩ := deathTime_set hset (blockKey m) a
    exact ⟨D, h1, h2, linv_of_deathTime (settled_set hset _ _) hD (by omega),
      by simp [TD.set, accessed_items, alookup_ainsert_self]⟩
  · obtain ⟨b, hb, h0⟩ := later_of_not_fresh hf
    rw [extract_later_some hb h0 hl]
    simp only
    have hs1 := settled_accessed hset (blockKey m)
    obtain ⟨D, hD, h1, h2⟩ := deathTime_set hs1 (blockKey m) a
    exact ⟨D, h1, h2, linv_of_deathTime (settled_set hs1 _ _) hD (by omega),
      by simp [TD.set, accessed_items, alookup_ainsert_self]⟩

end Aiocoap.BwServer
