import Proofs.Blockwise.C05Wire
/-! Two more open-loop facts (against *every* response sequence):

* the size exponents of the Block2 options of the client's requests never grow (`b2_pairwise_go`):
  the application's size hint on the requests of the Block1 phase, then the Block2 loop;
* a run that yields a response has emitted the final Block1 request, unless the server itself
  FAILED the upload early (unsuccessful code, in one of two exactly described shapes)
  (`ok_upload_go`); a run that yields a SUCCESSFUL response has emitted it, or the result is a
  single later response without Block2 option (`success_upload_go`). -/
namespace Aiocoap.BwClient

-- the Block2 requests ---------------------------------------------------------------------------

/-- the Block2 options of a list of requests, in order -/
def b2Opts (reqs : List Req) : List BlockOpt := reqs.filterMap (·.block2)

theorem nextBlock2Request_block2 {m : Nat} {t : Req} {a : Asm} {cur : Req}
    (h : nextBlock2Request m t a = some cur) : cur.block2 = some ((nextOpt a).reducedTo m) := by
  unfold nextBlock2Request at h
  simp only at h
  split at h
  · cases h
  · cases h; rfl

theorem enterB2_cases (cfg : Cfg) (t : Req) (a : Asm) :
    enterB2 cfg t a = .done (.error .assertion) ∨
    ∃ cur, enterB2 cfg t a = .b2 t a cur ∧ cur.block2 = some ((nextOpt a).reducedTo cfg.szx0) := by
  unfold enterB2
  cases h : nextBlock2Request cfg.szx0 t a with
  | none => left; rfl
  | some cur => right; exact ⟨cur, rfl, nextBlock2Request_block2 h⟩

/-- a round of the Block2 loop ends the transfer, or the block was not larger than requested and
the loop goes on with it as the last appended block -/
theorem step_b2_cases (cfg : Cfg) (t : Req) (a : Asm) (cur : Req) (r : Resp) :
    (∃ o, step cfg (.b2 t a cur) r = .done o) ∨
    (∃ b2, r.block2 = some b2 ∧ szxGrows cur b2 = false ∧
      step cfg (.b2 t a cur) r
        = enterB2 cfg t { a with payload := a.payload ++ r.payload, block2 := b2 }) := by
  cases hb : r.block2 with
  | none => left; exact ⟨_, step_b2_none hb⟩
  | some b2 =>
    rw [step_b2_some hb]
    by_cases hg : szxGrows cur b2 = true
    · left; exact ⟨_, by rw [if_pos hg]⟩
    · rw [if_neg hg]
      have hg' : szxGrows cur b2 = false := by simpa using hg
      repeat' split
      all_goals first | exact Or.inl ⟨_, rfl⟩ | exact Or.inr ⟨b2, rfl, hg', rfl⟩

theorem b2Opts_cons_some {cur : Req} {q : BlockOpt} (h : cur.block2 = some q) (rest : List Req) :
    b2Opts (cur :: rest) = q :: b2Opts rest := by
  simp [b2Opts, h]

theorem b2Opts_cons_none {cur : Req} (h : cur.block2 = none) (rest : List Req) :
    b2Opts (cur :: rest) = b2Opts rest := by
  simp [b2Opts, h]

/-- inside the Block2 loop: no later request uses a larger exponent than the outstanding one -/
theorem b2_szx_go (cfg : Cfg) (t : Req) (rs : List Resp) :
    ∀ (a : Asm) (cur : Req) (q : BlockOpt), cur.block2 = some q →
      List.Pairwise (fun x y : BlockOpt => y.szx ≤ x.szx) (b2Opts (go cfg (.b2 t a cur) rs).1) ∧
      ∀ b ∈ b2Opts (go cfg (.b2 t a cur) rs).1, b.szx ≤ q.szx := by
  induction rs with
  | nil =>
    intro a cur q hq
    rw [go_nil]
    simp only [Phase.outstanding, Option.toList_some, b2Opts_cons_some hq]
    simp [b2Opts]
  | cons r rs ih =>
    intro a cur q hq
    rw [go_cons]
    simp only [Phase.outstanding, Option.toList_some, List.cons_append, List.nil_append,
      b2Opts_cons_some hq]
    suffices h : List.Pairwise (fun x y : BlockOpt => y.szx ≤ x.szx)
          (b2Opts (go cfg (step cfg (.b2 t a cur) r) rs).1) ∧
        ∀ b ∈ b2Opts (go cfg (step cfg (.b2 t a cur) r) rs).1, b.szx ≤ q.szx by
      refine ⟨List.pairwise_cons.mpr ⟨fun b hb => h.2 b hb, h.1⟩, ?_⟩
      intro b hb
      rcases List.mem_cons.mp hb with rfl | hb
      · exact Nat.le_refl _
      · exact h.2 b hb
    rcases step_b2_cases cfg t a cur r with ⟨o, ho⟩ | ⟨b2, _, hg, hstep⟩
    · rw [ho]; simp [b2Opts]
    · rw [hstep]
      have hle : b2.szx ≤ q.szx := by
        unfold szxGrows at hg
        rw [hq] at hg
        simpa using hg
      rcases enterB2_cases cfg t { a with payload := a.payload ++ r.payload, block2 := b2 } with
        he | ⟨cur', he, hq'⟩
      · rw [he]; simp [b2Opts]
      · rw [he]
        obtain ⟨h1, h2⟩ := ih _ cur' _ hq'
        refine ⟨h1, fun b hb => Nat.le_trans (h2 b hb) ?_⟩
        rw [BlockOpt.reducedTo_szx]
        have : (nextOpt { a with payload := a.payload ++ r.payload, block2 := b2 }).szx = b2.szx := rfl
        rw [this]
        exact Nat.le_trans (Nat.min_le_left _ _) hle

/-- what can follow a Block1 round, finer than `step_b1_cases`: an error, the loop goes on with
the next block, or the upload phase ends with this response -/
theorem step_b1_trichotomy (cfg : Cfg) (st : B1State) (cur : Req) (r : Resp) :
    (∃ e, step cfg (.b1 st cur) r = .done (.error e)) ∨
    ((sentBlock1 st cur).more = true ∧ ∃ t,
      step cfg (.b1 st cur) r = enterB1 cfg { szx := (reduceB t st.szx (advance st cur)).1,
                                               cursor := (reduceB t st.szx (advance st cur)).2 }) ∨
    step cfg (.b1 st cur) r = completeBlock2 cfg cur r := by
  cases ha : r.block1 with
  | none =>
    rw [step_b1_none ha]
    split
    · exact Or.inl ⟨_, rfl⟩
    · split
      · exact Or.inl ⟨_, rfl⟩
      · exact Or.inr (Or.inr rfl)
  | some a =>
    rw [step_b1_some ha]
    by_cases hnum : a.num ≠ (sentBlock1 st cur).num
    · left; exact ⟨_, by rw [if_pos hnum]⟩
    · simp only [hnum, ↓reduceIte]
      by_cases hsm : (sentBlock1 st cur).more = true
      · by_cases ham : a.more = true
        · right; left; exact ⟨hsm, a.szx, by simp [hsm, ham]⟩
        · by_cases hsucc : isSuccessful r.code = true
          · right; left; exact ⟨hsm, a.szx, by simp [hsm, ham, hsucc]⟩
          · right; right
            simp [hsm, ham, hsucc]
      · simp only [hsm, Bool.not_false, ↓reduceIte]
        split
        · exact Or.inl ⟨_, rfl⟩
        · exact Or.inr (Or.inr rfl)

/-- the first response ends the transfer, or it is a first block that is not larger than what the
request asked for (if it asked) and the Block2 loop starts with it -/
theorem completeBlock2_cases (cfg : Cfg) (t : Req) (r : Resp) :
    (∃ o, completeBlock2 cfg t r = .done o) ∨
    (∃ b2, r.block2 = some b2 ∧ szxGrows t b2 = false ∧
      completeBlock2 cfg t r
        = enterB2 cfg t { code := r.code, etag := r.etag, payload := r.payload, block2 := b2 }) := by
  cases hb : r.block2 with
  | none => left; exact ⟨_, completeBlock2_none hb⟩
  | some b2 =>
    rw [completeBlock2_some hb]
    by_cases hst : b2.start ≠ 0
    · left; exact ⟨_, by rw [if_pos hst]⟩
    rw [if_neg hst]
    by_cases hg : szxGrows t b2 = true
    · left; exact ⟨_, by rw [if_pos hg]⟩
    rw [if_neg hg]
    have hg' : szxGrows t b2 = false := by simpa using hg
    repeat' split
    all_goals first | exact Or.inl ⟨_, rfl⟩ | exact Or.inr ⟨b2, rfl, hg', rfl⟩

def Phase.isB1 : Phase → Prop
  | .b1 _ _ => True
  | _ => False

/-- **Against any response sequence the size exponents of the Block2 options of the client's
requests never grow** -- and while the Block1 phase lasts none of those still to come exceeds the
application's size hint (which the requests of the Block1 phase carry). -/
theorem b2_pairwise_bound_go {cfg : Cfg} {ph : Phase} (h : PhaseOk cfg ph) (rs : List Resp) :
    List.Pairwise (fun x y : BlockOpt => y.szx ≤ x.szx) (b2Opts (go cfg ph rs).1) ∧
    (ph.isB1 → ∀ q, hintOpt cfg = some q → ∀ b ∈ b2Opts (go cfg ph rs).1, b.szx ≤ q.szx) := by
  induction rs generalizing ph with
  | nil =>
    rw [go_nil]
    cases ph with
    | done o => simp [Phase.outstanding, b2Opts, Phase.isB1]
    | b1 st cur =>
      have hc := (b1_cur_facts h.1 h.2).1
      simp only [Phase.outstanding, Option.toList_some]
      cases hh : hintOpt cfg with
      | none =>
        rw [hh] at hc
        rw [b2Opts_cons_none hc]
        simp [b2Opts]
      | some q =>
        rw [hh] at hc
        rw [b2Opts_cons_some hc]
        simp [b2Opts]
    | b2 t a cur =>
      simp only [Phase.outstanding, Option.toList_some,
        b2Opts_cons_some (nextBlock2Request_block2 h.2)]
      simp [b2Opts, Phase.isB1]
  | cons r rs ih =>
    cases ph with
    | done o => simp [b2Opts, Phase.isB1]
    | b2 t a cur =>
      exact ⟨(b2_szx_go cfg t (r :: rs) a cur _ (nextBlock2Request_block2 h.2)).1,
        fun hb => absurd hb (by simp [Phase.isB1])⟩
    | b1 st cur =>
      obtain ⟨hc, hfacts⟩ := b1_cur_facts h.1 h.2
      have hok' := PhaseOk.step (ph := .b1 st cur) h r
      obtain ⟨ihp, ihb⟩ := ih hok'
      -- everything that follows stays below the hint
      have hbound : ∀ q, hintOpt cfg = some q →
          ∀ b ∈ b2Opts (go cfg (step cfg (.b1 st cur) r) rs).1, b.szx ≤ q.szx := by
        intro q hq
        rcases step_b1_trichotomy cfg st cur r with ⟨e, he⟩ | ⟨hsm, t, ht⟩ | hcomp
        · rw [he]; simp [b2Opts]
        · obtain ⟨cur', _, hc2⟩ := enterB1_of_inv (B1Inv.next h.1 h.2 hsm t)
          rw [ht, hc2] at ihb ⊢
          exact ihb trivial q hq
        · rw [hcomp]
          rcases completeBlock2_cases cfg cur r with ⟨o, ho⟩ | ⟨b2, _, hg, hstep⟩
          · rw [ho]; simp [b2Opts]
          · rw [hstep]
            have hle : b2.szx ≤ q.szx := by
              unfold szxGrows at hg
              rw [hc, hq] at hg
              simpa using hg
            rcases enterB2_cases cfg cur
                { code := r.code, etag := r.etag, payload := r.payload, block2 := b2 } with
              he | ⟨cur', he, hq'⟩
            · rw [he]; simp [b2Opts]
            · rw [he]
              intro b hb
              have h2 := (b2_szx_go cfg cur rs _ cur' _ hq').2 b hb
              refine Nat.le_trans h2 ?_
              rw [BlockOpt.reducedTo_szx]
              exact Nat.le_trans (Nat.min_le_left _ _) hle
      rw [go_cons]
      simp only [Phase.outstanding, Option.toList_some, List.cons_append, List.nil_append]
      cases hh : hintOpt cfg with
      | none =>
        rw [hh] at hc
        rw [b2Opts_cons_none hc]
        exact ⟨ihp, fun _ q hq => by cases hq⟩
      | some q =>
        rw [hh] at hc
        rw [b2Opts_cons_some hc]
        refine ⟨List.pairwise_cons.mpr ⟨fun b hb => hbound q hh b hb, ihp⟩, ?_⟩
        intro _ q' hq' b hb
        cases hq'
        rcases List.mem_cons.mp hb with rfl | hb
        · exact Nat.le_refl _
        · exact hbound q hh b hb

theorem b2_pairwise_go {cfg : Cfg} {ph : Phase} (h : PhaseOk cfg ph) (rs : List Resp) :
    List.Pairwise (fun x y : BlockOpt => y.szx ≤ x.szx) (b2Opts (go cfg ph rs).1) :=
  (b2_pairwise_bound_go h rs).1

-- a response implies a complete upload, with two exceptions made by the server --------------------

/-- The two ways in which a SERVER ends an upload although the block it answers is not the final
one (`BlockwiseRequest._run`, protocol.py:959-982 and 1042-1045) -- both are FAILURES of the
request, the code is unsuccessful:

* `ignoredBlock1`: its response carries no Block1 option at all and an unsuccessful code (4.13,
  4.08, 5.00 … answered to the block as if it were a whole request). After the fix a SUCCESSFUL
  code without the option to a non-final block is a protocol error (`Misbehaves.successWithoutBlock1`);
* `failed`: it acknowledged the block with the more flag cleared and an unsuccessful code
  (RFC 7959 2.9: 4.08, 4.13 … ends the transfer). -/
inductive EndsUploadEarly (r : Resp) : Prop
  | ignoredBlock1 : r.block1 = none → isSuccessful r.code = false → EndsUploadEarly r
  | failed {a : BlockOpt} : r.block1 = some a → a.more = false → isSuccessful r.code = false →
      EndsUploadEarly r

theorem EndsUploadEarly.unsuccessful {r : Resp} (h : EndsUploadEarly r) :
    isSuccessful r.code = false := by
  cases h with
  | ignoredBlock1 _ h => exact h
  | failed _ _ h => exact h

theorem finalReq_of_sent {st : B1State} {cur : Req} (h : (sentBlock1 st cur).more = false) :
    FinalReq cur := by
  unfold sentBlock1 at h
  cases hc : cur.block1 with
  | none => exact Or.inl hc
  | some b => rw [hc] at h; exact Or.inr ⟨b, hc, h⟩

theorem mem_b1Reqs_cons {cfg : Cfg} {cur : Req} (h : cur.block2 = hintOpt cfg) (rest : List Req) :
    b1Reqs (cur :: rest) = cur :: b1Reqs rest := by
  simp [b1Reqs, isB1Phase_hint cfg h]

/-- **A response implies that the final Block1 request was emitted** — or the upload was ended by
the server: the response `e` to a non-final block had one of the two shapes of `EndsUploadEarly`
(an unsuccessful code) and the client went on with it as the (first block of the) result. -/
theorem ok_upload_go {cfg : Cfg} (rs : List Resp) :
    ∀ {st : B1State} {cur : Req}, B1Inv cfg st → nextRequest cfg st = some cur →
    ∀ o, (go cfg (.b1 st cur) rs).2 = .ok o →
    (∃ r ∈ b1Reqs (go cfg (.b1 st cur) rs).1, FinalReq r) ∨
    (∃ pre e suf st' cur', rs = pre ++ e :: suf ∧ phaseAfter cfg (.b1 st cur) pre = .b1 st' cur' ∧
      (sentBlock1 st' cur').more = true ∧ EndsUploadEarly e ∧
      step cfg (.b1 st' cur') e = completeBlock2 cfg cur' e) := by
  induction rs with
  | nil => intro st cur _ _ o hok; simp [go] at hok
  | cons r rs ih =>
    intro st cur hinv hcur o hok
    obtain ⟨hcb2, hfacts⟩ := b1_cur_facts hinv hcur
    rw [go_cons] at hok ⊢
    simp only [Phase.outstanding, Option.toList_some, List.cons_append, List.nil_append,
      mem_b1Reqs_cons hcb2] at hok ⊢
    by_cases hsm : (sentBlock1 st cur).more = true
    · -- the loop goes on: induction hypothesis, one response further
      have goOn : ∀ tz, step cfg (.b1 st cur) r = enterB1 cfg
            { szx := (reduceB tz st.szx (advance st cur)).1,
              cursor := (reduceB tz st.szx (advance st cur)).2 } →
          (∃ r' ∈ cur :: b1Reqs (go cfg (step cfg (.b1 st cur) r) rs).1, FinalReq r') ∨
          (∃ pre e suf st' cur', r :: rs = pre ++ e :: suf ∧
            phaseAfter cfg (.b1 st cur) pre = .b1 st' cur' ∧
            (sentBlock1 st' cur').more = true ∧ EndsUploadEarly e ∧
            step cfg (.b1 st' cur') e = completeBlock2 cfg cur' e) := by
        intro tz hstep
        have hnext := B1Inv.next hinv hcur hsm tz
        obtain ⟨cur', hc1, hc2⟩ := enterB1_of_inv hnext
        rw [hstep, hc2] at hok
        rcases ih hnext hc1 o hok with ⟨r', hr', hfin⟩ | ⟨pre, e, suf, st', cur'', hrs, hph, h3, h4, h5⟩
        · left
          rw [hstep, hc2]
          exact ⟨r', List.mem_cons_of_mem _ hr', hfin⟩
        · right
          refine ⟨r :: pre, e, suf, st', cur'', by rw [hrs]; rfl, ?_, h3, h4, h5⟩
          simp only [phaseAfter, List.foldl_cons] at hph ⊢
          rw [hstep, hc2]
          exact hph
      cases ha : r.block1 with
      | none =>
        by_cases hsucc : isSuccessful r.code = true
        · rw [step_b1_none_success ha hsucc hsm] at hok
          simp at hok
        · have hsucc' : isSuccessful r.code = false := by simpa using hsucc
          right
          exact ⟨[], r, rs, st, cur, rfl, rfl, hsm, .ignoredBlock1 ha hsucc',
            step_b1_none_failed ha hsucc'⟩
      | some a =>
        have hst := step_b1_some (cfg := cfg) (st := st) (cur := cur) ha
        by_cases hnum : a.num ≠ (sentBlock1 st cur).num
        · rw [hst, if_pos hnum] at hok
          simp at hok
        · rw [if_neg hnum] at hst
          simp only [hsm, Bool.not_true, Bool.false_eq_true, ↓reduceIte] at hst
          by_cases ham : a.more = true
          · simp only [ham, ↓reduceIte] at hst
            exact goOn a.szx hst
          · by_cases hsucc : isSuccessful r.code = true
            · simp only [ham, hsucc, Bool.false_eq_true, ↓reduceIte, Bool.not_true] at hst
              exact goOn a.szx hst
            · simp only [ham, hsucc, Bool.false_eq_true, ↓reduceIte, Bool.not_false] at hst
              right
              exact ⟨[], r, rs, st, cur, rfl, rfl, hsm,
                .failed ha (by simpa using ham) (by simpa using hsucc), hst⟩
    · left
      exact ⟨cur, List.mem_cons_self, finalReq_of_sent (by simpa using hsm)⟩

-- a SUCCESSFUL response implies a complete upload -------------------------------------------------

/-- how a round of the Block2 loop can end -/
theorem step_b2_tetrachotomy (cfg : Cfg) (t : Req) (a : Asm) (cur : Req) (r : Resp) :
    (∃ e, step cfg (.b2 t a cur) r = .done (.error e)) ∨
    (r.block2 = none ∧ step cfg (.b2 t a cur) r = .done (.ok (bodyOf r))) ∨
    (∃ pl, step cfg (.b2 t a cur) r = .done (.ok { code := a.code, etag := a.etag, payload := pl })) ∨
    (∃ b2, step cfg (.b2 t a cur) r
        = enterB2 cfg t { a with payload := a.payload ++ r.payload, block2 := b2 }) := by
  cases hb : r.block2 with
  | none => right; left; exact ⟨rfl, step_b2_none hb⟩
  | some b2 =>
    rw [step_b2_some hb]
    repeat' split
    all_goals first
      | exact Or.inl ⟨_, rfl⟩
      | exact Or.inr (Or.inr (Or.inl ⟨_, rfl⟩))
      | exact Or.inr (Or.inr (Or.inr ⟨b2, rfl⟩))

/-- the Block2 loop keeps the code of the first block: what it returns has that code, or is one
later response that came without a Block2 option (returned alone) -/
theorem b2_ok_code (cfg : Cfg) (t : Req) (rs : List Resp) :
    ∀ (a : Asm) (cur : Req) (o : Body), (go cfg (.b2 t a cur) rs).2 = .ok o →
      o.code = a.code ∨ SingleResponse rs o := by
  induction rs with
  | nil => intro a cur o h; simp [go] at h
  | cons r rs ih =>
    intro a cur o h
    rw [go_cons] at h
    simp only at h
    rcases step_b2_tetrachotomy cfg t a cur r with ⟨e, he⟩ | ⟨hn, he⟩ | ⟨pl, he⟩ | ⟨b2, he⟩
    · rw [he] at h; simp at h
    · rw [he] at h
      simp only [go_done, Outcome.ok.injEq] at h
      exact Or.inr ⟨r, List.mem_cons_self, hn, h.symm⟩
    · rw [he] at h
      simp only [go_done, Outcome.ok.injEq] at h
      left; rw [← h]
    · rw [he] at h
      unfold enterB2 at h
      split at h
      · simp at h
      · rcases ih _ _ o h with h' | h'
        · exact Or.inl h'
        · exact Or.inr (h'.cons r)

theorem completeBlock2_ok_code (cfg : Cfg) (t : Req) (e : Resp) (rs : List Resp) (o : Body)
    (h : (go cfg (completeBlock2 cfg t e) rs).2 = .ok o) : o.code = e.code ∨ SingleResponse rs o := by
  cases hb : e.block2 with
  | none =>
    rw [completeBlock2_none hb] at h
    simp only [go_done, Outcome.ok.injEq] at h
    left; rw [← h]; rfl
  | some b =>
    rw [completeBlock2_some hb] at h
    by_cases hst : b.start ≠ 0
    · simp [hst] at h
    rw [if_neg hst] at h
    by_cases hg : szxGrows t b = true
    · simp [hg] at h
    rw [if_neg hg] at h
    by_cases hm : b.more = true
    · by_cases hn : b.num ≠ 0
      · simp [hm, hn] at h
      · by_cases hv : b.okFor e.payload.length = true
        · simp only [hm, Bool.not_true, Bool.false_eq_true, ↓reduceIte, hn, hv] at h
          unfold enterB2 at h
          split at h
          · simp at h
          · exact b2_ok_code cfg t rs _ _ o h
        · simp [hm, hn, hv] at h
    · simp only [hm, Bool.not_false, ↓reduceIte, go_done, Outcome.ok.injEq] at h
      left; rw [← h]; rfl

/-- a first response whose Block2 option (if any) lacks the more flag is the result as it came, or
an error -/
theorem completeBlock2_nomore (cfg : Cfg) (t : Req) (r : Resp)
    (h : ∀ b, r.block2 = some b → b.more = false) :
    completeBlock2 cfg t r = .done (.ok (bodyOf r)) ∨
    ∃ e, completeBlock2 cfg t r = .done (.error e) := by
  cases hb : r.block2 with
  | none => left; exact completeBlock2_none hb
  | some b =>
    rw [completeBlock2_some hb]
    have hm := h b hb
    by_cases hst : b.start ≠ 0
    · right; exact ⟨_, by rw [if_pos hst]⟩
    rw [if_neg hst]
    by_cases hg : szxGrows t b = true
    · right; exact ⟨_, by rw [if_pos hg]⟩
    rw [if_neg hg]
    left
    simp [hm]

-- the Block2 loop never asks for the same block twice ------------------------------------------------

/-- the byte offsets asked for by the requests of the Block2 loop (those that ask for a LATER block
of the response: a Block2 option with a block number other than 0), in order -/
def loopStarts (reqs : List Req) : List Nat :=
  (b2Opts (reqs.filter (fun r => !isB1Phase r))).map (·.start)

theorem loopStarts_cons_b1 {cur : Req} (h : isB1Phase cur = true) (rest : List Req) :
    loopStarts (cur :: rest) = loopStarts rest := by
  simp [loopStarts, h]

theorem loopStarts_cons_loop {cur : Req} {q : BlockOpt} (h : isB1Phase cur = false)
    (hq : cur.block2 = some q) (rest : List Req) :
    loopStarts (cur :: rest) = q.start :: loopStarts rest := by
  simp [loopStarts, h, b2Opts, hq]

/-- a round of the Block2 loop ends the transfer, or a NON-EMPTY payload was appended and the loop
goes on (a valid non-final block is never empty -- for BERT blocks a fix) -/
theorem step_b2_progress (cfg : Cfg) (t : Req) (a : Asm) (cur : Req) (r : Resp) :
    (∃ o, step cfg (.b2 t a cur) r = .done o) ∨
    (∃ b2, r.payload ≠ [] ∧ step cfg (.b2 t a cur) r
        = enterB2 cfg t { a with payload := a.payload ++ r.payload, block2 := b2 }) := by
  cases hb : r.block2 with
  | none => left; exact ⟨_, step_b2_none hb⟩
  | some b2 =>
    rw [step_b2_some hb]
    by_cases hg : szxGrows cur b2 = true
    · left; exact ⟨_, by rw [if_pos hg]⟩
    rw [if_neg hg]
    by_cases hc : r.code ≠ a.code
    · left; exact ⟨_, by rw [if_pos hc]⟩
    rw [if_neg hc]
    by_cases hv : b2.okFor r.payload.length = true
    · by_cases hs : b2.start ≠ a.payload.length
      · left; exact ⟨.error .notImplemented, by simp [hv, hs]⟩
      · by_cases he : r.etag ≠ a.etag
        · left; exact ⟨.error .resourceChanged, by simp [hv, hs, he]⟩
        · by_cases hm : b2.more = true
          · right
            exact ⟨b2, payload_ne_nil_of_valid hm hv, by simp [hv, hs, he, hm]⟩
          · left
            exact ⟨.ok { code := a.code, etag := a.etag, payload := a.payload ++ r.payload },
              by simp [hv, hs, he, hm]⟩
    · left; exact ⟨.error .unexpectedBlock2, by simp [hv]⟩

/-- inside the Block2 loop: the offsets asked for increase strictly, from the bytes assembled so
far on -/
theorem b2_starts_go (cfg : Cfg) (t : Req) (rs : List Resp) :
    ∀ (a : Asm) (cur : Req), PhaseOk cfg (.b2 t a cur) →
      List.Pairwise (· < ·) (loopStarts (go cfg (.b2 t a cur) rs).1) ∧
      ∀ x ∈ loopStarts (go cfg (.b2 t a cur) rs).1, a.payload.length ≤ x := by
  induction rs with
  | nil =>
    intro a cur hok
    rw [go_nil]
    obtain ⟨cur', hc1, _, _, _, hq⟩ := enterB2_of_inv cfg t hok.1
    rw [hok.2] at hc1; cases hc1
    have hst : ((nextOpt a).reducedTo cfg.szx0).start = a.payload.length := by
      rw [BlockOpt.reducedTo_start, nextOpt_start hok.1]
    simp only [Phase.outstanding, Option.toList_some]
    by_cases hb : isB1Phase cur = true
    · rw [loopStarts_cons_b1 hb]; simp [loopStarts, b2Opts]
    · rw [loopStarts_cons_loop (by simpa using hb) hq, hst]; simp [loopStarts, b2Opts]
  | cons r rs ih =>
    intro a cur hok
    rw [go_cons]
    obtain ⟨cur', hc1, _, _, _, hq⟩ := enterB2_of_inv cfg t hok.1
    rw [hok.2] at hc1; cases hc1
    have hst : ((nextOpt a).reducedTo cfg.szx0).start = a.payload.length := by
      rw [BlockOpt.reducedTo_start, nextOpt_start hok.1]
    simp only [Phase.outstanding, Option.toList_some, List.cons_append, List.nil_append]
    suffices h : List.Pairwise (· < ·) (loopStarts (go cfg (step cfg (.b2 t a cur) r) rs).1) ∧
        ∀ x ∈ loopStarts (go cfg (step cfg (.b2 t a cur) r) rs).1, a.payload.length < x by
      by_cases hb : isB1Phase cur = true
      · rw [loopStarts_cons_b1 hb]
        exact ⟨h.1, fun x hx => Nat.le_of_lt (h.2 x hx)⟩
      · rw [loopStarts_cons_loop (by simpa using hb) hq, hst]
        refine ⟨List.pairwise_cons.mpr ⟨h.2, h.1⟩, ?_⟩
        intro x hx
        rcases List.mem_cons.mp hx with rfl | hx
        · exact Nat.le_refl _
        · exact Nat.le_of_lt (h.2 x hx)
    have hok' := PhaseOk.step (ph := .b2 t a cur) hok r
    rcases step_b2_progress cfg t a cur r with ⟨o, ho⟩ | ⟨b2, hne, hstep⟩
    · rw [ho]; simp [loopStarts, b2Opts]
    · rw [hstep] at hok' ⊢
      rcases enterB2_cases cfg t { a with payload := a.payload ++ r.payload, block2 := b2 } with
        he | ⟨cur', he, _⟩
      · rw [he]; simp [loopStarts, b2Opts]
      · rw [he] at hok' ⊢
        obtain ⟨h1, h2⟩ := ih _ cur' hok'
        refine ⟨h1, fun x hx => ?_⟩
        have := h2 x hx
        simp only [List.length_append] at this
        have hpos : 0 < r.payload.length := List.length_pos_iff.mpr hne
        omega

/-- **Against any response sequence the requests of the Block2 loop ask for strictly increasing
byte offsets**: the same block is never asked for twice. -/
theorem loop_starts_go {cfg : Cfg} {ph : Phase} (h : PhaseOk cfg ph) (rs : List Resp) :
    List.Pairwise (· < ·) (loopStarts (go cfg ph rs).1) := by
  induction rs generalizing ph with
  | nil =>
    cases ph with
    | done o => simp [loopStarts, b2Opts]
    | b1 st cur =>
      rw [go_nil]
      simp only [Phase.outstanding, Option.toList_some]
      rw [loopStarts_cons_b1 (isB1Phase_hint cfg (b1_cur_facts h.1 h.2).1)]
      simp [loopStarts, b2Opts]
    | b2 t a cur => exact (b2_starts_go cfg t [] a cur h).1
  | cons r rs ih =>
    cases ph with
    | done o => simp [loopStarts, b2Opts]
    | b2 t a cur => exact (b2_starts_go cfg t (r :: rs) a cur h).1
    | b1 st cur =>
      rw [go_cons]
      simp only [Phase.outstanding, Option.toList_some, List.cons_append, List.nil_append]
      rw [loopStarts_cons_b1 (isB1Phase_hint cfg (b1_cur_facts h.1 h.2).1)]
      exact ih (PhaseOk.step (ph := .b1 st cur) h r)

end Aiocoap.BwClient
