import Proofs.Blockwise.C05Wire
/-! Two more open-loop facts (against *every* response sequence):

* the size exponents of the Block2 requests never grow (`b2_pairwise_go`);
* a run that yields a response has emitted the final Block1 request, unless the server itself ended
  the upload early in one of two exactly described ways (`ok_upload_go`). -/
namespace Aiocoap.BwClient

-- the Block2 requests ---------------------------------------------------------------------------

/-- the Block2 options of a list of requests, in order -/
def b2Opts (reqs : List Req) : List BlockOpt := reqs.filterMap (·.block2)

theorem nextBlock2Request_block2 {m : Nat} {t : Req} {a : Asm} {cur : Req}
    (h : nextBlock2Request m t a = some cur) : cur.block2 = some ((nextOpt a).reducedTo m) := by
  unfold nextBlock2Request at h
  simp only at h
  split at h
  · cases h
  · cases h; rfl

theorem enterB2_cases (cfg : Cfg) (t : Req) (a : Asm) :
    enterB2 cfg t a = .done (.error .assertion) ∨
    ∃ cur, enterB2 cfg t a = .b2 t a cur ∧ cur.block2 = some ((nextOpt a).reducedTo cfg.szx0) := by
  unfold enterB2
  cases h : nextBlock2Request cfg.szx0 t a with
  | none => left; rfl
  | some cur => right; exact ⟨cur, rfl, nextBlock2Request_block2 h⟩

/-- a round of the Block2 loop ends the transfer, or the block was not larger than requested and
the loop goes on with it as the last appended block -/
theorem step_b2_cases (cfg : Cfg) (t : Req) (a : Asm) (cur : Req) (r : Resp) :
    (∃ o, step cfg (.b2 t a cur) r = .done o) ∨
    (∃ b2, r.block2 = some b2 ∧ szxGrows cur b2 = false ∧
      step cfg (.b2 t a cur) r
        = enterB2 cfg t { a with payload := a.payload ++ r.payload, block2 := b2 }) := by
  cases hb : r.block2 with
  | none => left; exact ⟨_, step_b2_none hb⟩
  | some b2 =>
    rw [step_b2_some hb]
    by_cases hg : szxGrows cur b2 = true
    · left; exact ⟨_, by rw [if_pos hg]⟩
    · rw [if_neg hg]
      have hg' : szxGrows cur b2 = false := by simpa using hg
      repeat' split
      all_goals first | exact Or.inl ⟨_, rfl⟩ | exact Or.inr ⟨b2, rfl, hg', rfl⟩

theorem b2Opts_cons_some {cur : Req} {q : BlockOpt} (h : cur.block2 = some q) (rest : List Req) :
    b2Opts (cur :: rest) = q :: b2Opts rest := by
  simp [b2Opts, h]

theorem b2Opts_cons_none {cur : Req} (h : cur.block2 = none) (rest : List Req) :
    b2Opts (cur :: rest) = b2Opts rest := by
  simp [b2Opts, h]

/-- inside the Block2 loop: no later request uses a larger exponent than the outstanding one -/
theorem b2_szx_go (cfg : Cfg) (t : Req) (rs : List Resp) :
    ∀ (a : Asm) (cur : Req) (q : BlockOpt), cur.block2 = some q →
      List.Pairwise (fun x y : BlockOpt => y.szx ≤ x.szx) (b2Opts (go cfg (.b2 t a cur) rs).1) ∧
      ∀ b ∈ b2Opts (go cfg (.b2 t a cur) rs).1, b.szx ≤ q.szx := by
  induction rs with
  | nil =>
    intro a cur q hq
    rw [go_nil]
    simp only [Phase.outstanding, Option.toList_some, b2Opts_cons_some hq]
    simp [b2Opts]
  | cons r rs ih =>
    intro a cur q hq
    rw [go_cons]
    simp only [Phase.outstanding, Option.toList_some, List.cons_append, List.nil_append,
      b2Opts_cons_some hq]
    suffices h : List.Pairwise (fun x y : BlockOpt => y.szx ≤ x.szx)
          (b2Opts (go cfg (step cfg (.b2 t a cur) r) rs).1) ∧
        ∀ b ∈ b2Opts (go cfg (step cfg (.b2 t a cur) r) rs).1, b.szx ≤ q.szx by
      refine ⟨List.pairwise_cons.mpr ⟨fun b hb => h.2 b hb, h.1⟩, ?_⟩
      intro b hb
      rcases List.mem_cons.mp hb with rfl | hb
      · exact Nat.le_refl _
      · exact h.2 b hb
    rcases step_b2_cases cfg t a cur r with ⟨o, ho⟩ | ⟨b2, _, hg, hstep⟩
    · rw [ho]; simp [b2Opts]
    · rw [hstep]
      have hle : b2.szx ≤ q.szx := by
        unfold szxGrows at hg
        rw [hq] at hg
        simpa using hg
      rcases enterB2_cases cfg t { a with payload := a.payload ++ r.payload, block2 := b2 } with
        he | ⟨cur', he, hq'⟩
      · rw [he]; simp [b2Opts]
      · rw [he]
        obtain ⟨h1, h2⟩ := ih _ cur' _ hq'
        refine ⟨h1, fun b hb => Nat.le_trans (h2 b hb) ?_⟩
        rw [BlockOpt.reducedTo_szx]
        have : (nextOpt { a with payload := a.payload ++ r.payload, block2 := b2 }).szx = b2.szx := rfl
        rw [this]
        exact Nat.le_trans (Nat.min_le_left _ _) hle

/-- the outstanding request of the Block1 loop has no Block2 option; if it is a non-final block,
the transfer is fragmented and bytes remain behind the block -/
theorem b1_cur_facts {cfg : Cfg} {st : B1State} {cur : Req} (hinv : B1Inv cfg st)
    (hcur : nextRequest cfg st = some cur) :
    cur.block2 = none ∧ ((sentBlock1 st cur).more = true →
      cfg.payload.length > threshold cfg st.szx ∧
      st.cursor * blockSize st.szx + blockSize st.szx < cfg.payload.length) := by
  rw [nextRequest_eq hinv] at hcur
  by_cases hf : cfg.payload.length > threshold cfg st.szx
  · simp only [hf, ↓reduceIte, Option.some.injEq] at hcur
    subst hcur
    refine ⟨rfl, fun hsm => ⟨hf, ?_⟩⟩
    simpa [sentBlock1] using hsm
  · simp only [hf, ↓reduceIte, Option.some.injEq] at hcur
    subst hcur
    exact ⟨rfl, fun hsm => by simp [sentBlock1] at hsm⟩

/-- **Against any response sequence the size exponents of the Block2 requests never grow.** -/
theorem b2_pairwise_go {cfg : Cfg} {ph : Phase} (h : PhaseOk cfg ph) (rs : List Resp) :
    List.Pairwise (fun x y : BlockOpt => y.szx ≤ x.szx) (b2Opts (go cfg ph rs).1) := by
  induction rs generalizing ph with
  | nil =>
    rw [go_nil]
    cases ph with
    | done o => simp [Phase.outstanding, b2Opts]
    | b1 st cur =>
      simp only [Phase.outstanding, Option.toList_some, b2Opts_cons_none (b1_cur_facts h.1 h.2).1]
      simp [b2Opts]
    | b2 t a cur =>
      simp only [Phase.outstanding, Option.toList_some,
        b2Opts_cons_some (nextBlock2Request_block2 h.2)]
      simp [b2Opts]
  | cons r rs ih =>
    cases ph with
    | done o => simp [b2Opts]
    | b2 t a cur => exact (b2_szx_go cfg t (r :: rs) a cur _ (nextBlock2Request_block2 h.2)).1
    | b1 st cur =>
      rw [go_cons]
      simp only [Phase.outstanding, Option.toList_some, List.cons_append, List.nil_append,
        b2Opts_cons_none (b1_cur_facts h.1 h.2).1]
      exact ih (PhaseOk.step (ph := .b1 st cur) h r)

-- a response implies a complete upload, with two exceptions made by the server --------------------

/-- The two ways in which a SERVER ends an upload although the block it answers is not the final
one (`BlockwiseRequest._run`, protocol.py:959-974 and 1033-1036):

* `ignoredBlock1`: its response carries no Block1 option at all and another code than 2.31 — it
  answered the block as if it were a whole request ("Block1 option completely ignored by server,
  assuming it knows what it is doing"; also an error response without the option, e.g. 4.13 / 4.08);
* `failed`: it acknowledged the block with the more flag cleared and an unsuccessful code
  (RFC 7959 2.9: 4.08, 4.13 … ends the transfer). -/
inductive EndsUploadEarly (r : Resp) : Prop
  | ignoredBlock1 : r.block1 = none → r.code ≠ codeContinue → EndsUploadEarly r
  | failed {a : BlockOpt} : r.block1 = some a → a.more = false → isSuccessful r.code = false →
      EndsUploadEarly r

theorem finalReq_of_sent {st : B1State} {cur : Req} (h : (sentBlock1 st cur).more = false) :
    FinalReq cur := by
  unfold sentBlock1 at h
  cases hc : cur.block1 with
  | none => exact Or.inl hc
  | some b => rw [hc] at h; exact Or.inr ⟨b, hc, h⟩

theorem mem_b1Reqs_cons {cur : Req} (h : cur.block2 = none) (rest : List Req) :
    b1Reqs (cur :: rest) = cur :: b1Reqs rest := by
  simp [b1Reqs, h]

/-- **A response implies that the final Block1 request was emitted** — or the upload was ended by
the server: the response `e` to a non-final block had one of the two shapes of `EndsUploadEarly`
and the client went on with it as the (first block of the) result. -/
theorem ok_upload_go {cfg : Cfg} (rs : List Resp) :
    ∀ {st : B1State} {cur : Req}, B1Inv cfg st → nextRequest cfg st = some cur →
    ∀ o, (go cfg (.b1 st cur) rs).2 = .ok o →
    (∃ r ∈ b1Reqs (go cfg (.b1 st cur) rs).1, FinalReq r) ∨
    (∃ pre e suf st' cur', rs = pre ++ e :: suf ∧ phaseAfter cfg (.b1 st cur) pre = .b1 st' cur' ∧
      (sentBlock1 st' cur').more = true ∧ EndsUploadEarly e ∧
      step cfg (.b1 st' cur') e = completeBlock2 cfg cur' e) := by
  induction rs with
  | nil => intro st cur _ _ o hok; simp [go] at hok
  | cons r rs ih =>
    intro st cur hinv hcur o hok
    obtain ⟨hcb2, hfacts⟩ := b1_cur_facts hinv hcur
    rw [go_cons] at hok ⊢
    simp only [Phase.outstanding, Option.toList_some, List.cons_append, List.nil_append,
      mem_b1Reqs_cons hcb2] at hok ⊢
    by_cases hsm : (sentBlock1 st cur).more = true
    · obtain ⟨hf, hmore⟩ := hfacts hsm
      -- the loop goes on: induction hypothesis, one response further
      have goOn : ∀ tz, step cfg (.b1 st cur) r = enterB1 cfg
            { szx := (reduce tz st.szx (st.cursor + 1)).1,
              cursor := (reduce tz st.szx (st.cursor + 1)).2 } →
          (∃ r' ∈ cur :: b1Reqs (go cfg (step cfg (.b1 st cur) r) rs).1, FinalReq r') ∨
          (∃ pre e suf st' cur', r :: rs = pre ++ e :: suf ∧
            phaseAfter cfg (.b1 st cur) pre = .b1 st' cur' ∧
            (sentBlock1 st' cur').more = true ∧ EndsUploadEarly e ∧
            step cfg (.b1 st' cur') e = completeBlock2 cfg cur' e) := by
        intro tz hstep
        have hnext := B1Inv.next hinv hf hmore tz
        obtain ⟨cur', hc1, hc2⟩ := enterB1_of_inv hnext
        rw [hstep, hc2] at hok
        rcases ih hnext hc1 o hok with ⟨r', hr', hfin⟩ | ⟨pre, e, suf, st', cur'', hrs, hph, h3, h4, h5⟩
        · left
          rw [hstep, hc2]
          exact ⟨r', List.mem_cons_of_mem _ hr', hfin⟩
        · right
          refine ⟨r :: pre, e, suf, st', cur'', by rw [hrs]; rfl, ?_, h3, h4, h5⟩
          simp only [phaseAfter, List.foldl_cons] at hph ⊢
          rw [hstep, hc2]
          exact hph
      cases ha : r.block1 with
      | none =>
        by_cases hc : r.code = codeContinue
        · rw [step_b1_none_continue ha hc] at hok
          simp at hok
        · right
          exact ⟨[], r, rs, st, cur, rfl, rfl, hsm, .ignoredBlock1 ha hc, step_b1_none_final ha hc⟩
      | some a =>
        have hst := step_b1_some (cfg := cfg) (st := st) (cur := cur) ha
        by_cases hnum : a.num ≠ (sentBlock1 st cur).num
        · rw [hst, if_pos hnum] at hok
          simp at hok
        · rw [if_neg hnum] at hst
          simp only [hsm, Bool.not_true, Bool.false_eq_true, ↓reduceIte] at hst
          by_cases ham : a.more = true
          · simp only [ham, ↓reduceIte] at hst
            exact goOn a.szx hst
          · by_cases hsucc : isSuccessful r.code = true
            · simp only [ham, hsucc, Bool.false_eq_true, ↓reduceIte, Bool.not_true] at hst
              exact goOn a.szx hst
            · simp only [ham, hsucc, Bool.false_eq_true, ↓reduceIte, Bool.not_false] at hst
              right
              exact ⟨[], r, rs, st, cur, rfl, rfl, hsm,
                .failed ha (by simpa using ham) (by simpa using hsucc), hst⟩
    · left
      exact ⟨cur, List.mem_cons_self, finalReq_of_sent (by simpa using hsm)⟩

end Aiocoap.BwClient
