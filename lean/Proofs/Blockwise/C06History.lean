import Proofs.Blockwise.C06Server
/-! History invariants of the block-wise server model: what is in the spool was assembled in
order from requests received earlier under one block key; what is in the rendering cache is the
latest rendering made for that block key. -/
set_option linter.unusedSectionVars false
set_option linter.unusedSimpArgs false
set_option linter.unusedVariables false

namespace Aiocoap.BwServer
open TD

-- lookups only ever lose entries through timers --------------------------------------------------

theorem advance_lookup_some {κ ν : Type} [DecidableEq κ] {T now : Nat} {td : TD κ ν} {k : κ} {v : ν}
    (h : alookup k (td.advance T now).items = some v) : alookup k td.items = some v := by
  have t1 : ∀ (td : TD κ ν) d, alookup k (td.tick T d).items = some v → alookup k td.items = some v := by
    intro td d h
    rw [tick_lookup] at h
    split at h
    · exact h
    · cases h
  unfold advance at h
  split at h
  · exact h
  · split at h
    · simp only at h
      split at h
      · exact t1 _ _ h
      · split at h
        · exact t1 _ _ (t1 _ _ h)
        · exact t1 _ _ h
    · exact h

-- the spool ----------------------------------------------------------------------------------------

/-- `blocks` (in order of receipt) are Block1 requests of block key `k`, each passing the size
check, the first with block number 0, each later one starting exactly where the concatenation of
the earlier payloads ends; `body` is that concatenation.  (Since block 0 passes the size check as
well, the byte offsets are block numbers: `Assembly.num_eq_index`.) -/
inductive Assembly (k : Key) : List Msg → Bytes → Prop
  | first {m : Msg} {b : Blk} : blockKey m = k → m.block1 = some b → b.num = 0 →
      sizeOk b m.payload.length = true → Assembly k [m] m.payload
  | next {ms : List Msg} {body : Bytes} {m : Msg} {b : Blk} : Assembly k ms body →
      blockKey m = k → m.block1 = some b → b.num ≠ 0 → sizeOk b m.payload.length = true →
      b.start = body.length → Assembly k (ms ++ [m]) (body ++ m.payload)

theorem Assembly.body_eq {k : Key} {ms : List Msg} {body : Bytes} (h : Assembly k ms body) :
    body = (ms.map (·.payload)).flatten := by
  induction h with
  | first => simp
  | next _ _ _ _ _ _ ih => simp [ih]

theorem Assembly.keys {k : Key} {ms : List Msg} {body : Bytes} (h : Assembly k ms body) :
    ∀ m ∈ ms, blockKey m = k ∧ m.block1.isSome := by
  induction h with
  | first hk hb _ _ => intro m hm; simp at hm; subst hm; exact ⟨hk, by simp [hb]⟩
  | next _ hk hb _ _ _ ih =>
    intro m hm
    simp only [List.mem_append, List.mem_singleton] at hm
    rcases hm with hm | hm
    · exact ih m hm
    · subst hm; exact ⟨hk, by simp [hb]⟩

theorem Assembly.sizes {k : Key} {ms : List Msg} {body : Bytes} (h : Assembly k ms body) :
    ∀ m ∈ ms, ∀ b, m.block1 = some b → sizeOk b m.payload.length = true := by
  induction h with
  | first _ hb _ hs =>
    intro m hm b' hb'; simp at hm; subst hm; rw [hb] at hb'; cases hb'; exact hs
  | next _ _ hb _ hs _ ih =>
    intro m hm b' hb'
    simp only [List.mem_append, List.mem_singleton] at hm
    rcases hm with hm | hm
    · exact ih m hm b' hb'
    · subst hm; rw [hb] at hb'; cases hb'; exact hs

theorem Assembly.ne_nil {k : Key} {ms : List Msg} {body : Bytes} (h : Assembly k ms body) :
    ms ≠ [] := by
  cases h <;> simp

theorem Assembly.head_zero {k : Key} {ms : List Msg} {body : Bytes} (h : Assembly k ms body) :
    ∃ m b, ms.head? = some m ∧ m.block1 = some b ∧ b.num = 0 := by
  induction h with
  | first _ hb h0 _ => exact ⟨_, _, rfl, hb, h0⟩
  | next hprev _ _ _ _ _ ih =>
    obtain ⟨m, b, hh, hb, h0⟩ := ih
    refine ⟨m, b, ?_, hb, h0⟩
    cases hms : (‹List Msg›) with
    | nil => rw [hms] at hh; cases hh
    | cons x xs => rw [hms] at hh; simpa using hh

/-- every block of the list carries the more flag -/
def AllMore (ms : List Msg) : Prop := ∀ m ∈ ms, ∀ b, m.block1 = some b → b.more = true

theorem allMore_nil : AllMore [] := by intro m hm; cases hm

theorem AllMore.snoc {ms : List Msg} {m : Msg} {b : Blk} (h : AllMore ms) (hb : m.block1 = some b)
    (hm : b.more = true) : AllMore (ms ++ [m]) := by
  intro x hx b' hb'
  simp only [List.mem_append, List.mem_singleton] at hx
  rcases hx with hx | hx
  · exact h x hx b' hb'
  · subst hx; rw [hb] at hb'; cases hb'; exact hm

/-- all blocks of the list use size exponent `s` -/
def UniformSzx (s : Nat) (ms : List Msg) : Prop := ∀ m ∈ ms, ∀ b, m.block1 = some b → b.szx = s

theorem sizeOk_more_regular {b : Blk} {len : Nat} (hm : b.more = true) (hs : b.szx ≤ 6)
    (h : sizeOk b len = true) : len = 2 ^ (b.szx + 4) := by
  have h7 : b.szx ≠ 7 := by omega
  simp only [sizeOk, hm, ↓reduceIte, Bool.or_eq_true, beq_iff_eq, Bool.and_eq_true, h7, false_and,
    or_false] at h
  rw [h, Blk.size, Nat.min_eq_left hs]

/-- blocks of one regular size that all carry the more flag: the body is that many whole blocks -/
theorem Assembly.length_uniform {k : Key} {ms : List Msg} {body : Bytes} (h : Assembly k ms body)
    {s : Nat} (hs : s ≤ 6) (hu : UniformSzx s ms) (hm : AllMore ms) :
    body.length = ms.length * 2 ^ (s + 4) := by
  induction h with
  | @first m b _ hb _ hsz =>
    have hsx : b.szx = s := hu m (by simp) b hb
    have := sizeOk_more_regular (hm m (by simp) b hb) (by omega) hsz
    simp [this, hsx]
  | @next ms body m b _ _ hb _ hsz _ ih =>
    have hsx : b.szx = s := hu m (by simp) b hb
    have hlen := sizeOk_more_regular (hm m (by simp) b hb) (by omega) hsz
    have := ih (fun x hx => hu x (List.mem_append_left _ hx))
      (fun x hx => hm x (List.mem_append_left _ hx))
    simp only [List.length_append, List.length_cons, List.length_nil, this, hlen, hsx]
    rw [Nat.add_mul]; simp

/-- **offsets are block numbers**: in an assembly whose blocks all use one regular size exponent
and of which only the last may lack the more flag, the block at position `i` has block number `i`
— nothing skipped, nothing twice -/
theorem Assembly.num_eq_index {k : Key} {ms : List Msg} {body : Bytes} (h : Assembly k ms body)
    {s : Nat} (hs : s ≤ 6) (hu : UniformSzx s ms) (hm : AllMore ms.dropLast) :
    ∀ (i : Nat) (x : Msg), ms[i]? = some x → ∃ b : Blk, x.block1 = some b ∧ b.num = i := by
  induction h with
  | @first m b _ hb h0 _ =>
    intro i x hx
    cases i with
    | zero => simp at hx; subst hx; exact ⟨b, hb, h0⟩
    | succ n => simp at hx
  | @next ms body m b hprev _ hb _ _ hst ih =>
    intro i x hx
    have hm' : AllMore ms := by simpa using hm
    have hu' : UniformSzx s ms := fun y hy => hu y (List.mem_append_left _ hy)
    by_cases hi : i < ms.length
    · rw [List.getElem?_append_left hi] at hx
      exact ih hu' (fun y hy => hm' y (List.dropLast_subset _ hy)) i x hx
    · have hlen := hprev.length_uniform hs hu' hm'
      have hsx : b.szx = s := hu m (by simp) b hb
      rw [List.getElem?_append_right (by omega)] at hx
      have hi0 : i - ms.length = 0 := by
        cases hd : i - ms.length with
        | zero => rfl
        | succ n => rw [hd] at hx; simp at hx
      rw [hi0] at hx
      simp only [List.getElem?_cons_zero, Option.some.injEq] at hx
      subst hx
      refine ⟨b, hb, ?_⟩
      have hsz : b.size = 2 ^ (s + 4) := by rw [Blk.size, hsx, Nat.min_eq_left hs]
      rw [Blk.start, hsz, hlen] at hst
      have := Nat.eq_of_mul_eq_mul_right (Nat.two_pow_pos _) hst
      omega

/-- what is stored under block key `k` was built, in order, from requests of `hist`, none of
which was a final block (a completed assembly does not stay in the spool) -/
def KeyInv (k : Key) (hist : List Msg) (sp : TD Key Msg) : Prop :=
  ∀ asm, alookup k sp.items = some asm →
    blockKey asm = k ∧ ∃ ms, Assembly k ms asm.payload ∧ AllMore ms ∧ ms.Sublist hist

/-- every stored assembly was built, in order, from requests of the history -/
def SpoolInv (hist : List Msg) (sp : TD Key Msg) : Prop := ∀ k, KeyInv k hist sp

theorem KeyInv.weaken {k : Key} {hist : List Msg} {sp : TD Key Msg} (h : KeyInv k hist sp)
    (more : List Msg) : KeyInv k (hist ++ more) sp := by
  intro asm hl
  obtain ⟨hk, ms, ha, hm, hs⟩ := h asm hl
  exact ⟨hk, ms, ha, hm, hs.trans (List.sublist_append_left _ _)⟩

theorem KeyInv.of_lookup {k : Key} {hist : List Msg} {sp sp' : TD Key Msg} (h : KeyInv k hist sp)
    (hi : ∀ v, alookup k sp'.items = some v → alookup k sp.items = some v) : KeyInv k hist sp' :=
  fun asm hl => h asm (hi asm hl)

/-- nothing stored under the key: the invariant holds for any history, in particular the empty one -/
theorem keyInv_absent {k : Key} {sp : TD Key Msg} (h : alookup k sp.items = none) (hist : List Msg) :
    KeyInv k hist sp := by
  intro asm hl; rw [h] at hl; cases hl

theorem SpoolInv.weaken {hist : List Msg} {sp : TD Key Msg} (h : SpoolInv hist sp) (more : List Msg) :
    SpoolInv (hist ++ more) sp := fun k => (h k).weaken more

theorem SpoolInv.of_items {hist : List Msg} {sp sp' : TD Key Msg} (h : SpoolInv hist sp)
    (hi : ∀ k v, alookup k sp'.items = some v → alookup k sp.items = some v) : SpoolInv hist sp' :=
  fun k => (h k).of_lookup (hi k)

theorem spoolInv_empty (hist : List Msg) : SpoolInv hist (TD.empty : TD Key Msg) := by
  intro k asm hl; simp [TD.empty] at hl

theorem blockKey_append {self next : Msg} {b : Blk} {self' : Msg}
    (h : appendRequestBlock self next b = .ok self') : blockKey self' = blockKey self := by
  obtain ⟨_, _, _, e⟩ := append_ok_iff.mp h
  subst e; rfl

theorem mutate_lookup_ne {sp : TD Key Msg} {k k' : Key} (h : k' ≠ k) (v : Msg) :
    alookup k' (sp.mutate k v).items = alookup k' sp.items := by
  unfold TD.mutate
  cases alookup k sp.items with
  | none => rfl
  | some _ => exact alookup_ainsert_ne h _ _

/-- `feed_and_take` leaves the entries of all other block keys alone -/
theorem feed_lookup_ne {T now : Nat} {sp : TD Key Msg} {req : Msg} {k : Key} (hne : k ≠ blockKey req) :
    alookup k (feedAndTake T now sp req).1.items = alookup k sp.items := by
  cases hb : req.block1 with
  | none => rw [feed_none hb]
  | some b =>
    rcases feed_cases T now sp req b hb with ⟨h0, _, e⟩ | ⟨h0, hs0, e⟩ | ⟨h0, _, e⟩ |
        ⟨h0, self, er, hl, ha, e⟩ | ⟨h0, self, self', hl, ha, e⟩
    · rw [e]
    · rw [e]
      split
      · simp [TD.set, accessed_items, alookup_ainsert_ne hne]
      · simp [delIf_lookup_ne _ hne, TD.set, accessed_items, alookup_ainsert_ne hne]
    · rw [e]
    · rw [e]; simp [accessed_items]
    · rw [e]
      split
      · simp [mutate_lookup_ne hne, accessed_items]
      · simp [delIf_lookup_ne _ hne, accessed_items, mutate_lookup_ne hne]

/-- one request through `feed_and_take`, seen from its own block key: the invariant is kept, and a
request that comes out was either passed through unchanged (no Block1) or assembled in order from
received blocks of its block key — intermediate blocks, then this request as the final one — and
the assembly is gone from the spool -/
theorem feed_keyInv_self {T now : Nat} {hist : List Msg} {sp : TD Key Msg} (req : Msg)
    (h : KeyInv (blockKey req) hist sp) :
    KeyInv (blockKey req) (hist ++ [req]) (feedAndTake T now sp req).1 ∧
    ∀ m, (feedAndTake T now sp req).2 = .pass m →
      (req.block1 = none ∧ m = req) ∨
      (blockKey m = blockKey req ∧
       alookup (blockKey req) (feedAndTake T now sp req).1.items = none ∧
       ∃ ms, Assembly (blockKey req) ms m.payload ∧ ms.Sublist (hist ++ [req]) ∧
         ms.getLast? = some req ∧ AllMore ms.dropLast) := by
  cases hb : req.block1 with
  | none =>
    rw [feed_none hb]
    exact ⟨h.weaken _, fun m hm => Or.inl ⟨rfl, by simpa using hm.symm⟩⟩
  | some b =>
    rcases feed_cases T now sp req b hb with ⟨h0, _, e⟩ | ⟨h0, hs0, e⟩ | ⟨h0, _, e⟩ |
        ⟨h0, self, er, hl, ha, e⟩ | ⟨h0, self, self', hl, ha, e⟩
    · rw [e]
      exact ⟨h.weaken _, fun m hm => by simp at hm⟩
    · rw [e]
      by_cases hm : b.more = true
      · simp only [hm, ↓reduceIte]
        refine ⟨?_, fun m hm' => by simp at hm'⟩
        intro asm hl
        simp only [TD.set, accessed_items, alookup_ainsert_self, Option.some.injEq] at hl
        subst hl
        exact ⟨rfl, [req], Assembly.first rfl hb h0 hs0, allMore_nil.snoc hb hm,
          List.sublist_append_right _ _⟩
      · simp only [hm, Bool.false_eq_true, ↓reduceIte]
        refine ⟨keyInv_absent (delIf_lookup_self _ _) _, fun m hm' => Or.inr ?_⟩
        simp only [Feed.pass.injEq] at hm'
        subst hm'
        exact ⟨rfl, delIf_lookup_self _ _, [req], Assembly.first rfl hb h0 hs0,
          List.sublist_append_right _ _, rfl, by simpa using allMore_nil⟩
    · rw [e]
      exact ⟨h.weaken _, fun m hm => by simp at hm⟩
    · rw [e]
      exact ⟨(h.weaken _).of_lookup (fun v hv => by rwa [accessed_items] at hv),
        fun m hm => by cases er <;> simp [feedOfErr] at hm⟩
    · obtain ⟨hk, ms, hasm, hall, hsub⟩ := h self hl
      obtain ⟨_, hs, hst, e'⟩ := append_ok_iff.mp ha
      have hkey : blockKey self' = blockKey req := by rw [blockKey_append ha, hk]
      have hnew : Assembly (blockKey req) (ms ++ [req]) self'.payload := by
        subst e'
        exact Assembly.next hasm rfl hb h0 hs hst
      have hsub' : (ms ++ [req]).Sublist (hist ++ [req]) :=
        List.Sublist.append hsub (List.Sublist.refl _)
      rw [e]
      by_cases hm : b.more = true
      · simp only [hm, ↓reduceIte]
        refine ⟨?_, fun m hm' => by simp at hm'⟩
        intro asm hl'
        have hl'' : alookup (blockKey req) (sp.accessed T now (blockKey req)).items = some self := by
          rw [accessed_items]; exact hl
        simp only [TD.mutate, hl'', alookup_ainsert_self, Option.some.injEq] at hl'
        subst hl'
        exact ⟨hkey, ms ++ [req], hnew, hall.snoc hb hm, hsub'⟩
      · simp only [hm, Bool.false_eq_true, ↓reduceIte]
        refine ⟨keyInv_absent (delIf_lookup_self _ _) _, fun m hm' => Or.inr ?_⟩
        simp only [Feed.pass.injEq] at hm'
        subst hm'
        exact ⟨hkey, delIf_lookup_self _ _, ms ++ [req], hnew, hsub', by simp, by simpa using hall⟩

/-- … and seen from any block key -/
theorem feed_keyInv {T now : Nat} {hist : List Msg} {sp : TD Key Msg} (req : Msg) (k : Key)
    (h : KeyInv k hist sp) : KeyInv k (hist ++ [req]) (feedAndTake T now sp req).1 := by
  by_cases hk : k = blockKey req
  · subst hk; exact (feed_keyInv_self req h).1
  · exact (h.weaken _).of_lookup (fun v hv => by rwa [feed_lookup_ne hk] at hv)

/-- one request through `feed_and_take`: the invariant is kept, and a request that comes out was
either passed through unchanged (no Block1) or assembled in order from received blocks of its
block key, the last of which is this request and the only one without the more flag -/
theorem feed_spoolInv {T now : Nat} {hist : List Msg} {sp : TD Key Msg} (req : Msg)
    (h : SpoolInv hist sp) :
    SpoolInv (hist ++ [req]) (feedAndTake T now sp req).1 ∧
    ∀ m, (feedAndTake T now sp req).2 = .pass m →
      (req.block1 = none ∧ m = req) ∨
      (blockKey m = blockKey req ∧ ∃ ms, Assembly (blockKey req) ms m.payload ∧
        ms.Sublist (hist ++ [req]) ∧ ms.getLast? = some req ∧ AllMore ms.dropLast) := by
  refine ⟨fun k => feed_keyInv req k (h k), fun m hm => ?_⟩
  rcases (feed_keyInv_self (T := T) (now := now) req (h (blockKey req))).2 m hm with e | ⟨e, _, r⟩
  · exact Or.inl e
  · exact Or.inr ⟨e, r⟩

/-- the requests of a history that went through the block-wise machinery, oldest first -/
def received (hist : List In) : List Msg := (hist.filter (·.assemble)).map (·.req)

theorem received_append (a b : List In) : received (a ++ b) = received a ++ received b := by
  simp [received]

theorem step_spoolInv {T : Nat} {st : RState} {h0 : List Msg} (i : In)
    (h : SpoolInv h0 st.spool) : SpoolInv (h0 ++ received [i]) (step T st i).1.spool := by
  have hadv : SpoolInv h0 (spoolAt T st i) := h.of_items (fun k v hl => advance_lookup_some hl)
  by_cases ha : i.assemble = true
  · have hr : received [i] = [i.req] := by simp [received, ha]
    rw [hr]
    have hf := (feed_spoolInv (T := T) (now := i.now) i.req hadv).1
    cases hfe : (feedAndTake T i.now (spoolAt T st i) i.req).2 with
    | cont b => rw [step_cont ha hfe]; exact hf
    | incomplete => rw [step_incomplete ha hfe]; exact hf
    | badRequest => rw [step_badRequest ha hfe]; exact hf
    | keyError => exact absurd hfe (feed_ne_keyError _ _ _ _)
    | pass m => rw [step_pass ⟨ha, hfe⟩]; exact hf
  · have ha' : i.assemble = false := by simpa using ha
    have hr : received [i] = [] := by simp [received, ha']
    rw [hr, step_no_assembly ha', List.append_nil]
    exact hadv

theorem stateAfter_spoolInv {T : Nat} (hist : List In) :
    ∀ {st : RState} {h0 : List Msg}, SpoolInv h0 st.spool →
      SpoolInv (h0 ++ received hist) (stateAfter T st hist).spool := by
  induction hist with
  | nil => intro st h0 h; simpa [received, stateAfter] using h
  | cons i rest ih =>
    intro st h0 h
    have := ih (step_spoolInv (T := T) i h)
    simp only [stateAfter]
    rw [show i :: rest = [i] ++ rest from rfl, received_append, ← List.append_assoc]
    exact this

theorem step_keyInv {T : Nat} {st : RState} {k : Key} {h0 : List Msg} (i : In)
    (h : KeyInv k h0 st.spool) : KeyInv k (h0 ++ received [i]) (step T st i).1.spool := by
  have hadv : KeyInv k h0 (spoolAt T st i) := h.of_lookup (fun v hl => advance_lookup_some hl)
  rw [step_spool_eq]
  by_cases ha : i.assemble = true
  · have hr : received [i] = [i.req] := by simp [received, ha]
    simp only [ha, ↓reduceIte, hr]
    exact feed_keyInv i.req k hadv
  · have ha' : i.assemble = false := by simpa using ha
    have hr : received [i] = [] := by simp [received, ha']
    simp only [ha', Bool.false_eq_true, ↓reduceIte, hr, List.append_nil]
    exact hadv

theorem stateAfter_keyInv {T : Nat} {k : Key} (hist : List In) :
    ∀ {st : RState} {h0 : List Msg}, KeyInv k h0 st.spool →
      KeyInv k (h0 ++ received hist) (stateAfter T st hist).spool := by
  induction hist with
  | nil => intro st h0 h; simpa [received, stateAfter] using h
  | cons i rest ih =>
    intro st h0 h
    have := ih (step_keyInv (T := T) i h)
    simp only [stateAfter]
    rw [show i :: rest = [i] ++ rest from rfl, received_append, ← List.append_assoc]
    exact this

/-- the handler is only reached through the second stage -/
theorem seen_passes {T : Nat} {st : RState} {i : In} {m : Msg} (ha : i.assemble = true)
    (h : (step T st i).2.seen = some m) : Passes T st i m ∧ isFresh m = true := by
  cases hfe : (feedAndTake T i.now (spoolAt T st i) i.req).2 with
  | cont b => rw [step_cont ha hfe] at h; cases h
  | incomplete => rw [step_incomplete ha hfe] at h; cases h
  | badRequest => rw [step_badRequest ha hfe] at h; cases h
  | keyError => exact absurd hfe (feed_ne_keyError _ _ _ _)
  | pass m' =>
    have hp : Passes T st i m' := ⟨ha, hfe⟩
    rw [step_pass hp] at h
    simp only at h
    split at h
    · rename_i hc
      simp only [Option.some.injEq] at h
      subst h
      refine ⟨hp, ?_⟩
      by_cases hf : isFresh m' = true
      · exact hf
      · have hf' : isFresh m' = false := by simpa using hf
        obtain ⟨b, hb, hb0⟩ := later_of_not_fresh hf'
        cases hl : alookup (blockKey m') (cacheAt T st i).items with
        | none => rw [extract_later_none hb hb0 hl] at hc; cases hc
        | some a => rw [extract_later_some hb hb0 hl] at hc; cases hc
    · cases h


-- the rendering cache ---------------------------------------------------------------------------------

/-- what the machinery obtained from the handler in this step — a rendering, or an exception —
with the block key of the request it was invoked with -/
def rendered (T : Nat) (st : RState) (i : In) : Option (Key × Outcome) :=
  if i.assemble then (step T st i).2.seen.map (fun m => (blockKey m, i.render m)) else none

/-- all renderings of a history, oldest first -/
def renderLog (T : Nat) : RState → List In → List (Key × Outcome)
  | _, [] => []
  | st, i :: rest => (rendered T st i).toList ++ renderLog T (step T st i).1 rest

/-- the outcome of the latest handler invocation for block key `k` -/
def latest (k : Key) (log : List (Key × Outcome)) : Option Outcome := alookup k log.reverse

theorem latest_snoc_self (k : Key) (r : Outcome) (log : List (Key × Outcome)) :
    latest k (log ++ [(k, r)]) = some r := by
  simp [latest, alookup]

theorem latest_snoc_ne {k k' : Key} (h : k' ≠ k) (r : Outcome) (log : List (Key × Outcome)) :
    latest k (log ++ [(k', r)]) = latest k log := by
  simp [latest, alookup, h]

/-- whatever is kept under a block key is what the latest handler invocation for it returned (in
particular nothing is kept when that invocation raised) -/
def CacheInv (log : List (Key × Outcome)) (c : TD Key Resp) : Prop :=
  ∀ k a, alookup k c.items = some a → latest k log = some (.ok a)

theorem CacheInv.of_items {log : List (Key × Outcome)} {c c' : TD Key Resp} (h : CacheInv log c)
    (hi : ∀ k v, alookup k c'.items = some v → alookup k c.items = some v) : CacheInv log c' :=
  fun k a hl => h k a (hi k a hl)

theorem cacheInv_empty (log : List (Key × Outcome)) : CacheInv log (TD.empty : TD Key Resp) := by
  intro k a hl; simp [TD.empty] at hl

theorem cacheInv_set_same {T now : Nat} {log : List (Key × Outcome)} {c : TD Key Resp} {k : Key}
    {a : Resp} (h : CacheInv log c) (hl : latest k log = some (.ok a)) :
    CacheInv log (c.set T now k a) := by
  intro k' a' hl'
  simp only [TD.set, accessed_items] at hl'
  by_cases hk : k' = k
  · subst hk
    rw [alookup_ainsert_self] at hl'
    simp only [Option.some.injEq] at hl'
    subst hl'; exact hl
  · rw [alookup_ainsert_ne hk] at hl'
    exact h k' a' hl'

theorem cacheInv_set_new {T now : Nat} {log : List (Key × Outcome)} {c : TD Key Resp} (k : Key)
    (a : Resp) (h : CacheInv log c) : CacheInv (log ++ [(k, .ok a)]) (c.set T now k a) := by
  intro k' a' hl'
  simp only [TD.set, accessed_items] at hl'
  by_cases hk : k' = k
  · subst hk
    rw [alookup_ainsert_self] at hl'
    simp only [Option.some.injEq] at hl'
    subst hl'; exact latest_snoc_self _ _ _
  · rw [alookup_ainsert_ne hk] at hl'
    rw [latest_snoc_ne (Ne.symm hk)]
    exact h k' a' hl'

theorem cacheInv_del_new {log : List (Key × Outcome)} {c : TD Key Resp} (k : Key) (a : Outcome)
    (h : CacheInv log c) : CacheInv (log ++ [(k, a)]) (delIf c k) := by
  intro k' a' hl'
  by_cases hk : k' = k
  · subst hk; rw [delIf_lookup_self] at hl'; cases hl'
  · rw [delIf_lookup_ne c hk] at hl'
    rw [latest_snoc_ne (Ne.symm hk)]
    exact h k' a' hl'

theorem rendered_of_seen {T : Nat} {st : RState} {i : In} (ha : i.assemble = true) :
    rendered T st i = (step T st i).2.seen.map (fun m => (blockKey m, i.render m)) := by
  simp [rendered, ha]

theorem step_cacheInv {T : Nat} {st : RState} {log : List (Key × Outcome)} (i : In)
    (h : CacheInv log st.cache) :
    CacheInv (log ++ (rendered T st i).toList) (step T st i).1.cache := by
  have hadv : CacheInv log (cacheAt T st i) := h.of_items (fun k v hl => advance_lookup_some hl)
  by_cases ha : i.assemble = true
  · rw [rendered_of_seen ha]
    cases hfe : (feedAndTake T i.now (spoolAt T st i) i.req).2 with
    | cont b => rw [step_cont ha hfe]; simpa using hadv
    | incomplete => rw [step_incomplete ha hfe]; simpa using hadv
    | badRequest => rw [step_badRequest ha hfe]; simpa using hadv
    | keyError => exact absurd hfe (feed_ne_keyError _ _ _ _)
    | pass m =>
      rw [step_pass ⟨ha, hfe⟩]
      simp only
      by_cases hf : isFresh m = true
      · cases hr : i.render m with
        | ok a =>
          rw [extract_fresh hf hr]
          have hdel : CacheInv log (delIf (cacheAt T st i) (blockKey m)) :=
            hadv.of_items (fun k v hl => by
              by_cases hk : k = blockKey m
              · subst hk; rw [delIf_lookup_self] at hl; cases hl
              · rwa [delIf_lookup_ne _ hk] at hl)
          split
          · simpa [hr] using cacheInv_set_new (blockKey m) a hdel
          · simpa [hr] using cacheInv_del_new (blockKey m) (.ok a) hadv
        | error code =>
          rw [extract_fresh_raised hf hr]
          simpa [hr] using cacheInv_del_new (blockKey m) (.error code) hadv
        | junk =>
          rw [extract_fresh_junk hf hr]
          simpa [hr] using cacheInv_del_new (blockKey m) .junk hadv
      · have hf' : isFresh m = false := by simpa using hf
        obtain ⟨b, hb, hb0⟩ := later_of_not_fresh hf'
        cases hl : alookup (blockKey m) (cacheAt T st i).items with
        | none => rw [extract_later_none hb hb0 hl]; simpa using hadv
        | some a =>
          rw [extract_later_some hb hb0 hl]
          have hacc : CacheInv log ((cacheAt T st i).accessed T i.now (blockKey m)) :=
            hadv.of_items (fun k v hl => by rwa [accessed_items] at hl)
          simpa using cacheInv_set_same hacc (hadv _ _ hl)
  · have ha' : i.assemble = false := by simpa using ha
    simp only [rendered, ha', Bool.false_eq_true, ↓reduceIte, Option.toList_none, List.append_nil]
    rw [step_no_assembly ha']
    exact hadv

theorem stateAfter_cacheInv {T : Nat} (hist : List In) :
    ∀ {st : RState} {log : List (Key × Outcome)}, CacheInv log st.cache →
      CacheInv (log ++ renderLog T st hist) (stateAfter T st hist).cache := by
  induction hist with
  | nil => intro st log h; simpa [renderLog, stateAfter] using h
  | cons i rest ih =>
    intro st log h
    have := ih (step_cacheInv (T := T) i h)
    simpa [renderLog, stateAfter, List.append_assoc] using this

end Aiocoap.BwServer
