import Proofs.Blockwise.C05Basic
/-! Open-loop facts about the client machine: they hold against *every* response sequence. -/
namespace Aiocoap.BwClient

-- `go` ------------------------------------------------------------------------------------

@[simp] theorem go_done (cfg : Cfg) (o : Outcome) (rs : List Resp) : go cfg (.done o) rs = ([], o) := by
  cases rs <;> rfl

@[simp] theorem step_done (cfg : Cfg) (o : Outcome) (r : Resp) : step cfg (.done o) r = .done o := rfl

theorem go_cons (cfg : Cfg) (ph : Phase) (r : Resp) (rs : List Resp) :
    go cfg ph (r :: rs) =
      (ph.outstanding.toList ++ (go cfg (step cfg ph r) rs).1, (go cfg (step cfg ph r) rs).2) := by
  cases ph <;> simp [go, Phase.outstanding]

theorem go_nil (cfg : Cfg) (ph : Phase) :
    go cfg ph [] = (ph.outstanding.toList,
      match ph with | .done o => o | _ => .pending) := by
  cases ph <;> simp [go, Phase.outstanding]

/-- the phase reached after a list of responses -/
def phaseAfter (cfg : Cfg) (ph : Phase) (rs : List Resp) : Phase := rs.foldl (step cfg) ph

theorem phaseAfter_done (cfg : Cfg) (o : Outcome) (rs : List Resp) :
    phaseAfter cfg (.done o) rs = .done o := by
  induction rs with
  | nil => rfl
  | cons r rs ih => simpa [phaseAfter] using ih

/-- the outcome only depends on the phase reached -/
theorem go_outcome_append (cfg : Cfg) (ph : Phase) (pre rest : List Resp) :
    (go cfg ph (pre ++ rest)).2 = (go cfg (phaseAfter cfg ph pre) rest).2 := by
  induction pre generalizing ph with
  | nil => rfl
  | cons r pre ih =>
    rw [List.cons_append, go_cons]
    simp only [phaseAfter, List.foldl_cons]
    exact ih _

-- invariant of the Block1 loop ---------------------------------------------------------------

/-- The cursor stays inside the payload (or the payload is empty and the request is block 0 of
it: only with the Block1 size hint) and a transfer that was fragmented stays fragmented. -/
structure B1Inv (cfg : Cfg) (st : B1State) : Prop where
  szx_le : st.szx ≤ 7
  bert : st.szx = 7 → 1024 ≤ cfg.maxPayload
  inside : fragmented cfg st.szx = true →
    st.cursor * unit st.szx < cfg.payload.length ∨ (st.cursor = 0 ∧ cfg.payload.length = 0)
  whole : ¬ fragmented cfg st.szx = true → st.cursor = 0

/-- the configurations the theorems are about: the exponent the Block1 loop starts with (the
remote's maximum, or the application's deprecated Block1 size hint) is 0..7, and when it is 7
(BERT) the remote takes at least 1 KiB of payload (RFC 8323: BERT needs a Max-Message-Size above
1152; `rfc8323common.maximum_payload_size` is never below 1124) -/
structure Cfg.Ok (cfg : Cfg) : Prop where
  szx_le : startSzx cfg ≤ 7
  bert : startSzx cfg = 7 → 1024 ≤ cfg.maxPayload

/-- without the Block1 hint that is: the remote's maximum is 0..7, and ≥ 1 KiB payload for BERT -/
theorem Cfg.Ok.of_remote {cfg : Cfg} (hh : cfg.hint1 = none) (h7 : cfg.szx0 ≤ 7)
    (hb : cfg.szx0 = 7 → 1024 ≤ cfg.maxPayload) : cfg.Ok := by
  have : startSzx cfg = cfg.szx0 := by simp [startSzx, hh]
  exact ⟨by rw [this]; exact h7, by rw [this]; exact hb⟩

theorem B1Inv.start {cfg : Cfg} (h : cfg.Ok) : B1Inv cfg { szx := startSzx cfg, cursor := 0 } :=
  ⟨h.szx_le, h.bert, fun _ => by
      by_cases h0 : cfg.payload.length = 0
      · exact Or.inr ⟨rfl, h0⟩
      · exact Or.inl (by show 0 * _ < _; rw [Nat.zero_mul]; omega),
    fun _ => rfl⟩

theorem fragmented_of_hint {cfg : Cfg} (h : cfg.hint1.isSome = true) (s : Nat) :
    fragmented cfg s = true := by
  simp [fragmented, h]

theorem fragmented_iff {cfg : Cfg} (h : cfg.hint1.isSome = false) (s : Nat) :
    fragmented cfg s = true ↔ cfg.payload.length > threshold cfg s := by
  simp [fragmented, h]

/-- the request of a round, in closed form -/
theorem nextRequest_eq {cfg : Cfg} {st : B1State} (h : B1Inv cfg st) :
    nextRequest cfg st =
      if fragmented cfg st.szx = true then
        some { block1 := some { num := st.cursor,
                                more := decide (st.cursor * unit st.szx + blk cfg.maxPayload st.szx
                                                  < cfg.payload.length),
                                szx := st.szx },
               block2 := hintOpt cfg,
               size1 := if st.cursor = 0 then some cfg.payload.length else none,
               payload := (cfg.payload.drop (st.cursor * unit st.szx)).take (blk cfg.maxPayload st.szx) }
      else some { block1 := none, block2 := hintOpt cfg, size1 := none, payload := cfg.payload } := by
  unfold nextRequest
  by_cases hf : fragmented cfg st.szx = true
  · simp only [hf, ↓reduceIte]
    rw [extractBlock_eq h.szx_le (h.inside hf)]
  · simp [hf]

theorem enterB1_of_inv {cfg : Cfg} {st : B1State} (h : B1Inv cfg st) :
    ∃ cur, nextRequest cfg st = some cur ∧ enterB1 cfg st = .b1 st cur := by
  unfold enterB1
  rw [nextRequest_eq h]
  by_cases hf : fragmented cfg st.szx = true <;> simp [hf]

theorem threshold_small {cfg : Cfg} {s : Nat} (h : s < 6) : threshold cfg s = blockSize s := by
  unfold threshold blockSize
  have : ¬ s ≥ 6 := by omega
  simp [this]

/-- the outstanding request of the Block1 loop carries the application's Block2 option (none, or
the size hint); if it is a non-final block, the transfer is fragmented, bytes remain behind the
block, and the cursor advanced by `advance` stands at the end of the block -/
theorem b1_cur_facts {cfg : Cfg} {st : B1State} {cur : Req} (hinv : B1Inv cfg st)
    (hcur : nextRequest cfg st = some cur) :
    cur.block2 = hintOpt cfg ∧ ((sentBlock1 st cur).more = true →
      fragmented cfg st.szx = true ∧
      st.cursor * unit st.szx + blk cfg.maxPayload st.szx < cfg.payload.length ∧
      advance st cur * unit st.szx = st.cursor * unit st.szx + blk cfg.maxPayload st.szx) := by
  rw [nextRequest_eq hinv] at hcur
  by_cases hf : fragmented cfg st.szx = true
  · simp only [hf, Bool.false_eq_true, ↓reduceIte, Option.some.injEq] at hcur
    subst hcur
    refine ⟨rfl, fun hsm => ?_⟩
    have hm : st.cursor * unit st.szx + blk cfg.maxPayload st.szx < cfg.payload.length := by
      simpa [sentBlock1] using hsm
    refine ⟨hf, hm, ?_⟩
    unfold advance
    by_cases h7 : st.szx = 7
    · simp only [h7, ↓reduceIte, List.length_take, List.length_drop]
      rw [h7] at hm
      rw [unit_seven] at hm ⊢
      rw [Nat.min_eq_left (by omega), blk_seven, Nat.mul_div_cancel_left _ (by decide : 0 < 1024)]
      rw [blk_seven] at hm
      rw [Nat.add_mul, Nat.mul_comm (cfg.maxPayload / 1024)]
    · have h6 : st.szx ≤ 6 := by have := hinv.szx_le; omega
      simp only [h7, ↓reduceIte]
      rw [blk_le6 h6, unit_le6 h6, Nat.add_mul, Nat.one_mul]
  · simp only [hf, Bool.false_eq_true, ↓reduceIte, Option.some.injEq] at hcur
    subst hcur
    exact ⟨rfl, fun hsm => by simp [sentBlock1] at hsm⟩

/-- after an acknowledged non-final block the invariant holds for the (possibly reduced) state -/
theorem B1Inv.next {cfg : Cfg} {st : B1State} {cur : Req} (h : B1Inv cfg st)
    (hcur : nextRequest cfg st = some cur) (hsm : (sentBlock1 st cur).more = true) (t : Nat) :
    B1Inv cfg { szx := (reduceB t st.szx (advance st cur)).1,
                cursor := (reduceB t st.szx (advance st cur)).2 } := by
  obtain ⟨hf, hmore, hadv⟩ := (b1_cur_facts h hcur).2 hsm
  have h7 := h.szx_le
  have hoff := reduceB_offset (t := t) (advance st cur) h7
  have hszx := reduceB_szx (t := t) (advance st cur) h7
  obtain ⟨_, _, hule, _⟩ := blk_spec (mp := cfg.maxPayload) h7 h.bert
  have hle : (reduceB t st.szx (advance st cur)).1 ≤ st.szx := by
    rw [hszx]; exact Nat.min_le_right _ _
  have hin : (reduceB t st.szx (advance st cur)).2 * unit (reduceB t st.szx (advance st cur)).1
      < cfg.payload.length := by
    rw [hoff, hadv]; exact hmore
  have hfrag : fragmented cfg (reduceB t st.szx (advance st cur)).1 = true := by
    by_cases hh : cfg.hint1.isSome = true
    · exact fragmented_of_hint hh _
    have hh' : cfg.hint1.isSome = false := by simpa using hh
    rw [fragmented_iff hh'] at hf ⊢
    by_cases h6 : (reduceB t st.szx (advance st cur)).1 < 6
    · rw [threshold_small h6]
      have h1 : blockSize (reduceB t st.szx (advance st cur)).1 ≤ unit st.szx := by
        unfold unit
        exact blockSize_mono (by omega)
      have h2 : 0 ≤ st.cursor * unit st.szx := Nat.zero_le _
      omega
    · have : threshold cfg (reduceB t st.szx (advance st cur)).1 = threshold cfg st.szx := by
        unfold threshold
        rw [if_pos (by omega), if_pos (by omega)]
      rw [this]; exact hf
  refine ⟨?_, fun h7' => h.bert ?_, fun _ => Or.inl hin, fun hn => absurd hfrag hn⟩
  · show (reduceB t st.szx (advance st cur)).1 ≤ 7
    omega
  · have h7'' : (reduceB t st.szx (advance st cur)).1 = 7 := h7'
    omega

-- invariant of the Block2 loop ---------------------------------------------------------------

/-- what was assembled so far is a whole number of blocks of the last block's size -/
def B2Inv (a : Asm) : Prop := a.block2.size ∣ a.payload.length

/-- the Block2 option computed by `_generate_next_block2_request` before capping -/
def nextOpt (a : Asm) : BlockOpt :=
  ⟨a.payload.length / a.block2.size, false, a.block2.szx⟩

theorem nextOpt_start {a : Asm} (h : B2Inv a) : (nextOpt a).start = a.payload.length := by
  simp only [nextOpt, BlockOpt.start, BlockOpt.size]
  exact Nat.div_mul_cancel h

theorem enterB2_of_inv (cfg : Cfg) (t : Req) {a : Asm} (h : B2Inv a) :
    ∃ cur, nextBlock2Request cfg.szx0 t a = some cur ∧ enterB2 cfg t a = .b2 t a cur ∧
      cur.block1 = none ∧ cur.payload = [] ∧
      cur.block2 = some ((nextOpt a).reducedTo cfg.szx0) := by
  have hs := nextOpt_start h
  unfold nextOpt at hs
  unfold enterB2 nextBlock2Request nextOpt
  simp [hs]

/-- no phase ever is the failed assertion or the out-of-bounds `BadRequest` -/
def PhaseOk (cfg : Cfg) : Phase → Prop
  | .b1 st cur => B1Inv cfg st ∧ nextRequest cfg st = some cur
  | .b2 t a cur => B2Inv a ∧ nextBlock2Request cfg.szx0 t a = some cur
  | .done o => o ≠ .error .assertion ∧ o ≠ .error .badRequest

theorem PhaseOk.enterB1 {cfg : Cfg} {st : B1State} (h : B1Inv cfg st) : PhaseOk cfg (enterB1 cfg st) := by
  obtain ⟨cur, h1, h2⟩ := enterB1_of_inv h
  rw [h2]; exact ⟨h, h1⟩

theorem PhaseOk.enterB2 (cfg : Cfg) (t : Req) {a : Asm} (h : B2Inv a) : PhaseOk cfg (enterB2 cfg t a) := by
  obtain ⟨cur, h1, h2, _⟩ := enterB2_of_inv cfg t h
  rw [h2]; exact ⟨h, h1⟩

/-- a valid non-final block carries a positive whole number of blocks: exactly one, or (BERT) one
or more KiB -- never none (after the fix also for BERT) -/
theorem okFor_more {b : BlockOpt} {n : Nat} (hm : b.more = true) (h : b.okFor n = true) :
    0 < n ∧ b.size ∣ n ∧ (b.szx ≠ 7 → n = b.size) := by
  unfold BlockOpt.okFor BlockOpt.validFor at h
  by_cases h7 : b.szx = 7
  · simp only [h7, ↓reduceIte, hm, Bool.and_eq_true, beq_iff_eq, Bool.true_and, Bool.not_eq_true',
      beq_eq_false_iff_ne, ne_eq] at h
    have hs : b.size = 1024 := by rw [BlockOpt.size_unit, h7, unit_seven]
    exact ⟨by omega, by rw [hs]; exact Nat.dvd_of_mod_eq_zero h.1.2, fun hc => absurd h7 hc⟩
  · simp only [h7, ↓reduceIte, hm, Bool.and_eq_true, beq_iff_eq, Bool.true_and, Bool.not_eq_true',
      beq_eq_false_iff_ne, ne_eq] at h
    exact ⟨by rw [h.1]; exact b.size_pos, by rw [h.1]; exact Nat.dvd_refl _, fun _ => h.1⟩

theorem PhaseOk.completeBlock2 (cfg : Cfg) (t : Req) (r : Resp) : PhaseOk cfg (completeBlock2 cfg t r) := by
  cases hb : r.block2 with
  | none => rw [completeBlock2_none hb]; simp [PhaseOk]
  | some b2 =>
    rw [completeBlock2_some hb]
    by_cases hst : b2.start ≠ 0
    · simp [hst, PhaseOk]
    rw [if_neg hst]
    by_cases hg : szxGrows t b2 = true
    · simp [hg, PhaseOk]
    rw [if_neg hg]
    by_cases hm : b2.more = true
    · by_cases hn : b2.num ≠ 0
      · simp [hm, hn, PhaseOk]
      · by_cases hv : b2.okFor r.payload.length = true
        · simp only [hm, Bool.not_true, Bool.false_eq_true, ↓reduceIte, hn, hv]
          apply PhaseOk.enterB2
          simp only [B2Inv]
          exact (okFor_more hm hv).2.1
        · simp [hm, hn, hv, PhaseOk]
    · simp [hm, PhaseOk]

/-- `PhaseOk` is an invariant of `step` -/
theorem PhaseOk.step {cfg : Cfg} {ph : Phase} (h : PhaseOk cfg ph) (r : Resp) :
    PhaseOk cfg (step cfg ph r) := by
  cases ph with
  | done o => exact h
  | b1 st cur =>
    obtain ⟨hinv, hcur⟩ := h
    cases ha : r.block1 with
    | none =>
      rw [step_b1_none ha]
      split
      · simp [PhaseOk]
      · split
        · simp [PhaseOk]
        · exact PhaseOk.completeBlock2 cfg cur r
    | some a =>
      rw [step_b1_some ha]
      by_cases hnum : a.num ≠ (sentBlock1 st cur).num
      · simp [hnum, PhaseOk]
      · simp only [hnum, ↓reduceIte]
        by_cases hsm : (sentBlock1 st cur).more = true
        · -- a non-final block was sent: the transfer is fragmented and bytes remain
          have hnext := B1Inv.next hinv hcur hsm a.szx
          simp only [hsm, Bool.not_true, Bool.false_eq_true, ↓reduceIte]
          by_cases ham : a.more = true
          · simp only [ham, ↓reduceIte]; exact PhaseOk.enterB1 hnext
          · by_cases hsucc : isSuccessful r.code = true
            · simp only [ham, hsucc, Bool.false_eq_true, ↓reduceIte, Bool.not_true]
              exact PhaseOk.enterB1 hnext
            · simp only [ham, hsucc, Bool.false_eq_true, ↓reduceIte, Bool.not_false]
              exact PhaseOk.completeBlock2 cfg _ r
        · simp only [hsm, Bool.not_false, ↓reduceIte]
          by_cases hx : (a.more || r.code == codeContinue) = true
          · simp [hx, PhaseOk]
          · simp only [hx, Bool.false_eq_true, ↓reduceIte]
            exact PhaseOk.completeBlock2 cfg cur r
  | b2 t a cur =>
    obtain ⟨hinv, hcur⟩ := h
    cases hb : r.block2 with
    | none => rw [step_b2_none hb]; simp [PhaseOk]
    | some b2 =>
      rw [step_b2_some hb]
      by_cases hg : szxGrows cur b2 = true
      · simp [hg, PhaseOk]
      rw [if_neg hg]
      by_cases hc : r.code ≠ a.code
      · simp [hc, PhaseOk]
      rw [if_neg hc]
      by_cases hv : b2.okFor r.payload.length = true
      · by_cases hs : b2.start ≠ a.payload.length
        · simp [hv, hs, PhaseOk]
        · by_cases he : r.etag ≠ a.etag
          · simp [hv, hs, he, PhaseOk]
          · by_cases hm : b2.more = true
            · simp only [hv, Bool.not_true, Bool.false_eq_true, ↓reduceIte, hs, he, hm]
              apply PhaseOk.enterB2
              simp only [B2Inv, List.length_append]
              have hs' : b2.start = a.payload.length := by simpa using hs
              rw [← hs', BlockOpt.start]
              exact Nat.dvd_add (Nat.dvd_mul_left _ _) (okFor_more hm hv).2.1
            · simp [hv, hs, he, hm, PhaseOk]
      · simp [hv, PhaseOk]

theorem PhaseOk.start {cfg : Cfg} (h : cfg.Ok) : PhaseOk cfg (start cfg) :=
  PhaseOk.enterB1 (B1Inv.start h)

theorem PhaseOk.go {cfg : Cfg} {ph : Phase} (h : PhaseOk cfg ph) (rs : List Resp) :
    (go cfg ph rs).2 ≠ .error .assertion ∧ (go cfg ph rs).2 ≠ .error .badRequest := by
  induction rs generalizing ph with
  | nil =>
    rw [go_nil]
    cases ph <;> simp_all [PhaseOk]
  | cons r rs ih =>
    rw [go_cons]
    exact ih (h.step r)

end Aiocoap.BwClient
