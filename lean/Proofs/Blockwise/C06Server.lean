import AiocoapModel.Blockwise.Server
import Proofs.Blockwise.C06TimeoutDict
/-! Helper lemmas about the block-wise server model: closed forms of `feedAndTake` and
`extractOrInsert`, and the history invariants of spool and cache. -/
set_option linter.unusedSectionVars false
set_option linter.unusedSimpArgs false
set_option linter.unusedVariables false

namespace Aiocoap.BwServer
open TD

-- `del` with the KeyError swallowed -----------------------------------------------------------

theorem delIf_deadline {ν : Type} (td : TD Key ν) (k : Key) : (delIf td k).deadline = td.deadline := by
  unfold delIf TD.del
  cases alookup k td.items <;> rfl

theorem delIf_lookup_self {ν : Type} (c : TD Key ν) (k : Key) : alookup k (delIf c k).items = none := by
  unfold delIf TD.del
  cases hl : alookup k c.items with
  | none => simpa using hl
  | some v => simpa using alookup_aerase_self _ _

theorem delIf_lookup_ne {ν : Type} (c : TD Key ν) {k k' : Key} (h : k' ≠ k) :
    alookup k' (delIf c k).items = alookup k' c.items := by
  unfold delIf TD.del
  cases hl : alookup k c.items with
  | none => rfl
  | some v => simpa using alookup_aerase_ne h _

/-- deleting only ever removes entries -/
theorem delIf_lookup_some {ν : Type} {c : TD Key ν} {k k' : Key} {v : ν}
    (h : alookup k' (delIf c k).items = some v) : alookup k' c.items = some v := by
  by_cases hk : k' = k
  · subst hk; rw [delIf_lookup_self] at h; cases h
  · rwa [delIf_lookup_ne c hk] at h

-- closed forms of Block1Spool.feed_and_take ----------------------------------------------------

theorem feed_none {T now : Nat} {sp : TD Key Msg} {req : Msg} (h : req.block1 = none) :
    feedAndTake T now sp req = (sp, .pass req) := by
  simp [feedAndTake, h]

theorem get_set_self (T now : Nat) (sp : TD Key Msg) (k : Key) (v : Msg) :
    (sp.set T now k v).get T now k = some (v, (sp.set T now k v).accessed T now k) := by
  simp [TD.get, TD.set, accessed_items, alookup_ainsert_self]

theorem feed_first {T now : Nat} {sp : TD Key Msg} {req : Msg} {b : Blk}
    (h : req.block1 = some b) (h0 : b.num = 0) (hs : sizeOk b req.payload.length = true) :
    feedAndTake T now sp req =
      if b.more then (sp.set T now (blockKey req) req, .cont b)
      else (delIf (((sp.set T now (blockKey req) req)).accessed T now (blockKey req)) (blockKey req),
            .pass req) := by
  simp [feedAndTake, h, h0, hs, get_set_self]

/-- block 0 whose payload length contradicts its block size: refused before anything is stored or
looked up -/
theorem feed_first_bad {T now : Nat} {sp : TD Key Msg} {req : Msg} {b : Blk}
    (h : req.block1 = some b) (h0 : b.num = 0) (hs : sizeOk b req.payload.length = false) :
    feedAndTake T now sp req = (sp, .badRequest) := by
  simp [feedAndTake, h, h0, hs]

theorem feed_unknown {T now : Nat} {sp : TD Key Msg} {req : Msg} {b : Blk}
    (h : req.block1 = some b) (h0 : b.num ≠ 0) (hl : alookup (blockKey req) sp.items = none) :
    feedAndTake T now sp req = (sp, .incomplete) := by
  simp [feedAndTake, h, h0, TD.get, hl]

theorem feed_append_error {T now : Nat} {sp : TD Key Msg} {req self : Msg} {b : Blk} {e : AppendErr}
    (h : req.block1 = some b) (h0 : b.num ≠ 0) (hl : alookup (blockKey req) sp.items = some self)
    (ha : appendRequestBlock self req b = .error e) :
    feedAndTake T now sp req =
      (sp.accessed T now (blockKey req), feedOfErr e) := by
  simp [feedAndTake, h, h0, TD.get, hl, ha]

theorem mutate_get_self {T now : Nat} {sp : TD Key Msg} {k : Key} {v v' : Msg}
    (hl : alookup k sp.items = some v) :
    (sp.mutate k v').get T now k = some (v', (sp.mutate k v').accessed T now k) := by
  simp [TD.get, TD.mutate, hl, alookup_ainsert_self]

theorem feed_append_ok {T now : Nat} {sp : TD Key Msg} {req self self' : Msg} {b : Blk}
    (h : req.block1 = some b) (h0 : b.num ≠ 0) (hl : alookup (blockKey req) sp.items = some self)
    (ha : appendRequestBlock self req b = .ok self') :
    feedAndTake T now sp req =
      if b.more then ((sp.accessed T now (blockKey req)).mutate (blockKey req) self', .cont b)
      else (delIf (((sp.accessed T now (blockKey req)).mutate (blockKey req) self').accessed T now
              (blockKey req)) (blockKey req), .pass self') := by
  have hl' : alookup (blockKey req) (sp.accessed T now (blockKey req)).items = some self := by
    rw [accessed_items]; exact hl
  have hm : alookup (blockKey req) ((sp.accessed T now (blockKey req)).mutate (blockKey req) self').items
      = some self' := by
    simp [TD.mutate, hl', alookup_ainsert_self]
  simp [feedAndTake, h, h0, TD.get, hl, ha, hm]


/-- all outcomes of `feed_and_take` for a request carrying Block1 -/
theorem feed_cases (T now : Nat) (sp : TD Key Msg) (req : Msg) (b : Blk) (h : req.block1 = some b) :
    (b.num = 0 ∧ sizeOk b req.payload.length = false ∧
        feedAndTake T now sp req = (sp, .badRequest)) ∨
    (b.num = 0 ∧ sizeOk b req.payload.length = true ∧ feedAndTake T now sp req =
        if b.more then (sp.set T now (blockKey req) req, .cont b)
        else (delIf (((sp.set T now (blockKey req) req)).accessed T now (blockKey req)) (blockKey req),
              .pass req)) ∨
    (b.num ≠ 0 ∧ alookup (blockKey req) sp.items = none ∧
        feedAndTake T now sp req = (sp, .incomplete)) ∨
    (b.num ≠ 0 ∧ ∃ self e, alookup (blockKey req) sp.items = some self ∧
        appendRequestBlock self req b = .error e ∧
        feedAndTake T now sp req = (sp.accessed T now (blockKey req), feedOfErr e)) ∨
    (b.num ≠ 0 ∧ ∃ self self', alookup (blockKey req) sp.items = some self ∧
        appendRequestBlock self req b = .ok self' ∧
        feedAndTake T now sp req =
          if b.more then ((sp.accessed T now (blockKey req)).mutate (blockKey req) self', .cont b)
          else (delIf (((sp.accessed T now (blockKey req)).mutate (blockKey req) self').accessed T now
                  (blockKey req)) (blockKey req), .pass self')) := by
  by_cases h0 : b.num = 0
  · cases hs : sizeOk b req.payload.length with
    | false => exact Or.inl ⟨h0, rfl, feed_first_bad h h0 hs⟩
    | true => exact Or.inr (Or.inl ⟨h0, rfl, feed_first h h0 hs⟩)
  · cases hl : alookup (blockKey req) sp.items with
    | none => exact Or.inr (Or.inr (Or.inl ⟨h0, rfl, feed_unknown h h0 hl⟩))
    | some self =>
      cases ha : appendRequestBlock self req b with
      | error e =>
        exact Or.inr (Or.inr (Or.inr (Or.inl ⟨h0, self, e, rfl, ha, feed_append_error h h0 hl ha⟩)))
      | ok self' =>
        exact Or.inr (Or.inr (Or.inr (Or.inr ⟨h0, self, self', rfl, ha, feed_append_ok h h0 hl ha⟩)))

/-- a Block1 request that comes out of `feed_and_take` leaves nothing under its block key: the
completed assembly is taken out of the spool -/
theorem feed_pass_absent {T now : Nat} {sp : TD Key Msg} {req m : Msg} {b : Blk}
    (h : req.block1 = some b) (hp : (feedAndTake T now sp req).2 = .pass m) :
    alookup (blockKey req) (feedAndTake T now sp req).1.items = none := by
  rcases feed_cases T now sp req b h with ⟨h0, _, e⟩ | ⟨h0, _, e⟩ | ⟨h0, _, e⟩ |
      ⟨h0, self, er, hl, ha, e⟩ | ⟨h0, self, self', hl, ha, e⟩
  · rw [e] at hp; simp at hp
  · rw [e] at hp ⊢
    by_cases hm : b.more = true
    · simp [hm] at hp
    · simp only [hm, Bool.false_eq_true, ↓reduceIte]; exact delIf_lookup_self _ _
  · rw [e] at hp; simp at hp
  · rw [e] at hp; cases er <;> simp [feedOfErr] at hp
  · rw [e] at hp ⊢
    by_cases hm : b.more = true
    · simp [hm] at hp
    · simp only [hm, Bool.false_eq_true, ↓reduceIte]; exact delIf_lookup_self _ _

/-- `feed_and_take` never lets a `KeyError` escape -/
theorem feed_ne_keyError (T now : Nat) (sp : TD Key Msg) (req : Msg) :
    (feedAndTake T now sp req).2 ≠ .keyError := by
  cases h : req.block1 with
  | none => simp [feed_none h]
  | some b =>
    rcases feed_cases T now sp req b h with ⟨_, _, e⟩ | ⟨_, _, e⟩ | ⟨_, _, e⟩ |
        ⟨_, self, er, _, _, e⟩ | ⟨_, self, self', _, _, e⟩
    · rw [e]; simp
    · rw [e]; split <;> simp
    · rw [e]; simp
    · rw [e]; cases er <;> simp [feedOfErr]
    · rw [e]; split <;> simp

-- closed forms of Message._append_request_block ----------------------------------------------

theorem append_ok_iff {self next : Msg} {b : Blk} {self' : Msg} :
    appendRequestBlock self next b = .ok self' ↔
      isRequestCode self.code = true ∧ sizeOk b next.payload.length = true ∧
      b.start = self.payload.length ∧
      self' = { self with
                payload := self.payload ++ next.payload
                block1 := some b
                block2 := if !b.more then next.block2 else self.block2 } := by
  unfold appendRequestBlock
  by_cases h1 : isRequestCode self.code = true
  · by_cases h2 : sizeOk b next.payload.length = true
    · by_cases h3 : b.start = self.payload.length
      · simp only [h1, h2, h3, Bool.not_true, Bool.false_eq_true, ↓reduceIte, Except.ok.injEq,
          true_and]
        exact eq_comm
      · simp [h1, h2, h3]
    · simp [h1, h2]
  · simp [h1]

theorem append_badRequest_iff {self next : Msg} {b : Blk} :
    appendRequestBlock self next b = .error .badRequest ↔
      isRequestCode self.code = true ∧ sizeOk b next.payload.length = false := by
  unfold appendRequestBlock
  by_cases h1 : isRequestCode self.code = true <;> by_cases h2 : sizeOk b next.payload.length = true <;>
    by_cases h3 : b.start = self.payload.length <;> simp [h1, h2, h3]

theorem append_valueError_iff {self next : Msg} {b : Blk} :
    appendRequestBlock self next b = .error .valueError ↔
      isRequestCode self.code = false ∨
      (sizeOk b next.payload.length = true ∧ b.start ≠ self.payload.length) := by
  unfold appendRequestBlock
  by_cases h1 : isRequestCode self.code = true <;> by_cases h2 : sizeOk b next.payload.length = true <;>
    by_cases h3 : b.start = self.payload.length <;> simp [h1, h2, h3]

/-- the two ways a payload length contradicts a block size make the size test fail -/
theorem sizeOk_false_of_contradiction {b : Blk} {len : Nat}
    (hsize : (b.more = true ∧ len ≠ b.size ∧ ¬ (b.szx = 7 ∧ len % b.size = 0 ∧ 0 < len)) ∨
             (b.more = false ∧ b.szx ≠ 7 ∧ b.size < len)) : sizeOk b len = false := by
  rcases hsize with ⟨h1, h2, h3⟩ | ⟨h1, h2, h3⟩
  · cases hs : sizeOk b len with
    | false => rfl
    | true =>
      exfalso
      simp only [sizeOk, h1, ↓reduceIte, Bool.or_eq_true, beq_iff_eq, Bool.and_eq_true,
        decide_eq_true_eq] at hs
      rcases hs with hs | ⟨⟨h7, hmod⟩, hpos⟩
      · exact h2 hs
      · exact h3 ⟨h7, hmod, hpos⟩
  · simp only [sizeOk, h1, Bool.false_eq_true, ↓reduceIte, Bool.or_eq_false_iff,
      beq_eq_false_iff_ne, ne_eq, decide_eq_false_iff_not]
    exact ⟨h2, by omega⟩

/-- what comes out of `feed_and_take` carries the block options of the request that went in -/
theorem feed_pass_options {T now : Nat} {sp : TD Key Msg} {req m : Msg}
    (hp : (feedAndTake T now sp req).2 = .pass m) :
    m.block1 = req.block1 ∧ m.block2 = req.block2 := by
  cases hb : req.block1 with
  | none =>
    rw [feed_none hb] at hp
    simp only [Feed.pass.injEq] at hp
    subst hp; exact ⟨hb, rfl⟩
  | some b =>
    rcases feed_cases T now sp req b hb with ⟨_, _, e⟩ | ⟨_, _, e⟩ | ⟨_, _, e⟩ |
        ⟨_, self, er, _, _, e⟩ | ⟨_, self, self', _, ha, e⟩
    · rw [e] at hp; simp at hp
    · rw [e] at hp
      by_cases hm : b.more = true
      · simp [hm] at hp
      · simp only [hm, Bool.false_eq_true, ↓reduceIte, Feed.pass.injEq] at hp
        subst hp; exact ⟨hb, rfl⟩
    · rw [e] at hp; simp at hp
    · rw [e] at hp; cases er <;> simp [feedOfErr] at hp
    · rw [e] at hp
      by_cases hm : b.more = true
      · simp [hm] at hp
      · simp only [hm, Bool.false_eq_true, ↓reduceIte, Feed.pass.injEq] at hp
        subst hp
        obtain ⟨_, _, _, e'⟩ := append_ok_iff.mp ha
        have hm' : b.more = false := by simpa using hm
        rw [e']; simp [hm']

-- closed forms of Message._extract_block ---------------------------------------------------------

theorem extractBlock_none {a : Resp} {num szx mps : Nat}
    (h : a.payload.length ≤ extractStart num szx) (h0 : 0 < extractStart num szx) :
    extractBlock a num szx mps = none := by
  simp [extractBlock, h, h0]

/-- when a representation has to be cut and the governing block starts at or beyond its end, that
block is not block 0 (the `and start > 0` of `_extract_block` makes no difference to
`extract_or_insert`) -/
theorem start_pos_of_chunking {m : Msg} {len : Nat} (hc : needsChunking m len = true)
    (hout : len ≤ extractStart (governing m).num (governing m).szx) :
    0 < extractStart (governing m).num (governing m).szx := by
  rcases Nat.eq_zero_or_pos (extractStart (governing m).num (governing m).szx) with h | h
  · exfalso
    rw [h] at hout
    have hl : len = 0 := by omega
    subst hl
    unfold needsChunking at hc
    cases hb : m.block2 with
    | none => simp [hb] at hc
    | some b =>
      simp only [hb, Nat.not_lt_zero, decide_false, Bool.false_or, ne_eq, decide_not,
        Bool.not_eq_eq_eq_not, Bool.not_true, decide_eq_false_iff_not] at hc
      simp only [governing, hb, extractStart] at h
      split at h
      · omega
      · have : 0 < 2 ^ (b.szx + 4) := Nat.pow_pos (by omega)
        rcases Nat.mul_eq_zero.mp h with h | h <;> omega
  · exact h

theorem take_stop (p : Bytes) (start size : Nat) :
    ((p.drop start).take ((if start + size < p.length then start + size else p.length) - start)) =
      (p.drop start).take size := by
  split
  · congr 1; omega
  · rename_i h
    rw [List.take_of_length_le (by simp), List.take_of_length_le (by simp; omega)]

theorem extractBlock_some {a : Resp} {num szx mps : Nat}
    (h : extractStart num szx < a.payload.length) (hc : isRequestCode a.code = false) :
    extractBlock a num szx mps =
      some { a with
             payload := (a.payload.drop (extractStart num szx)).take (extractSize szx mps)
             block2 := some { num := num, szx := szx,
                              more := decide (extractStart num szx + extractSize szx mps
                                        < a.payload.length) } } := by
  have hn : ¬ (a.payload.length ≤ extractStart num szx ∧ extractStart num szx > 0) := by omega
  simp only [extractBlock, ge_iff_le, hn, ↓reduceIte, hc, take_stop, Bool.false_eq_true,
    Option.some.injEq]
  congr 2
  split <;> simp_all

theorem extractBlock_code {a r : Resp} {num szx mps : Nat} (h : extractBlock a num szx mps = some r) :
    r.code = a.code ∧ r.opts = a.opts := by
  unfold extractBlock at h
  simp only at h
  split at h
  · cases h
  · split at h <;> (simp only [Option.some.injEq] at h; subst h; exact ⟨rfl, rfl⟩)

theorem sliceOf_cases (a : Resp) (m : Msg) :
    sliceOf a m = .badRequest ∨ ∃ r, sliceOf a m = .ok r ∧ r.code = a.code ∧ r.opts = a.opts := by
  unfold sliceOf
  cases h : extractBlock a (governing m).num (governing m).szx m.remote.maxPayload with
  | none => exact Or.inl rfl
  | some r => exact Or.inr ⟨r, rfl, extractBlock_code h⟩

-- closed forms of Block2Cache.extract_or_insert -----------------------------------------------

theorem extract_fresh {T now : Nat} {c : TD Key Resp} {req : Msg} {render : Msg → Outcome}
    {a : Resp} (hf : isFresh req = true) (hr : render req = .ok a) :
    extractOrInsert T now c req render =
      if needsChunking req a.payload.length then
        ((delIf c (blockKey req)).set T now (blockKey req) a, sliceOf a req, true)
      else (delIf c (blockKey req), .ok a, true) := by
  simp [extractOrInsert, hf, hr]

/-- the handler raises on a request for the beginning: nothing stays kept under the block key -/
theorem extract_fresh_raised {T now : Nat} {c : TD Key Resp} {req : Msg} {render : Msg → Outcome}
    {code : Nat} (hf : isFresh req = true) (hr : render req = .error code) :
    extractOrInsert T now c req render = (delIf c (blockKey req), .raised code, true) := by
  simp [extractOrInsert, hf, hr]

/-- the handler returns something that is no message: answered 5.00, nothing stays kept -/
theorem extract_fresh_junk {T now : Nat} {c : TD Key Resp} {req : Msg} {render : Msg → Outcome}
    (hf : isFresh req = true) (hr : render req = .junk) :
    extractOrInsert T now c req render =
      (delIf c (blockKey req), .raised INTERNAL_SERVER_ERROR, true) := by
  simp [extractOrInsert, hf, hr]

theorem isFresh_later {req : Msg} {b : Blk} (h : req.block2 = some b) (h0 : b.num ≠ 0) :
    isFresh req = false := by
  simp [isFresh, h, h0]

theorem governing_some {req : Msg} {b : Blk} (h : req.block2 = some b) : governing req = b := by
  simp [governing, h]

theorem needsChunking_later {req : Msg} {b : Blk} (h : req.block2 = some b) (h0 : b.num ≠ 0)
    (len : Nat) : needsChunking req len = true := by
  simp [needsChunking, h, h0]

theorem extract_later_none {T now : Nat} {c : TD Key Resp} {req : Msg} {render : Msg → Outcome}
    {b : Blk} (h : req.block2 = some b) (h0 : b.num ≠ 0)
    (hl : alookup (blockKey req) c.items = none) :
    extractOrInsert T now c req render = (c, .incomplete, false) := by
  simp [extractOrInsert, isFresh_later h h0, TD.get, hl]

theorem extract_later_some {T now : Nat} {c : TD Key Resp} {req : Msg} {render : Msg → Outcome}
    {b : Blk} {a : Resp} (h : req.block2 = some b) (h0 : b.num ≠ 0)
    (hl : alookup (blockKey req) c.items = some a) :
    extractOrInsert T now c req render =
      ((c.accessed T now (blockKey req)).set T now (blockKey req) a, sliceOf a req, false) := by
  simp [extractOrInsert, isFresh_later h h0, TD.get, hl, needsChunking_later h h0]

-- closed forms of Resource._render_to_pipe -----------------------------------------------------

/-- the spool / the cache as a request finds them (the timers due at its arrival have run) -/
def spoolAt (T : Nat) (st : RState) (i : In) : TD Key Msg := st.spool.advance T i.now
def cacheAt (T : Nat) (st : RState) (i : In) : TD Key Resp := st.cache.advance T i.now

/-- the request passes `feed_and_take` and reaches the second stage as `m` -/
def Passes (T : Nat) (st : RState) (i : In) (m : Msg) : Prop :=
  i.assemble = true ∧ (feedAndTake T i.now (spoolAt T st i) i.req).2 = .pass m

theorem step_cont {T : Nat} {st : RState} {i : In} {b : Blk} (ha : i.assemble = true)
    (hf : (feedAndTake T i.now (spoolAt T st i) i.req).2 = .cont b) :
    step T st i = ({ spool := (feedAndTake T i.now (spoolAt T st i) i.req).1, cache := cacheAt T st i },
                   { resp := errResp CONTINUE (some b), seen := none }) := by
  unfold spoolAt at hf
  simp [step, ha, hf, spoolAt, cacheAt]

theorem step_incomplete {T : Nat} {st : RState} {i : In} (ha : i.assemble = true)
    (hf : (feedAndTake T i.now (spoolAt T st i) i.req).2 = .incomplete) :
    step T st i = ({ spool := (feedAndTake T i.now (spoolAt T st i) i.req).1, cache := cacheAt T st i },
                   { resp := errResp REQUEST_ENTITY_INCOMPLETE none, seen := none }) := by
  unfold spoolAt at hf
  simp [step, ha, hf, spoolAt, cacheAt]

theorem step_badRequest {T : Nat} {st : RState} {i : In} (ha : i.assemble = true)
    (hf : (feedAndTake T i.now (spoolAt T st i) i.req).2 = .badRequest) :
    step T st i = ({ spool := (feedAndTake T i.now (spoolAt T st i) i.req).1, cache := cacheAt T st i },
                   { resp := errResp BAD_REQUEST none, seen := none }) := by
  unfold spoolAt at hf
  simp [step, ha, hf, spoolAt, cacheAt]

theorem step_pass {T : Nat} {st : RState} {i : In} {m : Msg} (hp : Passes T st i m) :
    step T st i =
      ({ spool := (feedAndTake T i.now (spoolAt T st i) i.req).1,
         cache := (extractOrInsert T i.now (cacheAt T st i) m i.render).1 },
       { resp := respondExtract m (extractOrInsert T i.now (cacheAt T st i) m i.render).2.1,
         seen := if (extractOrInsert T i.now (cacheAt T st i) m i.render).2.2 then some m else none }) := by
  obtain ⟨ha, hf⟩ := hp
  unfold spoolAt at hf
  simp only [step, ha, hf, spoolAt, cacheAt, ↓reduceIte]
  rfl

theorem step_no_assembly {T : Nat} {st : RState} {i : In} (ha : i.assemble = false) :
    step T st i = ({ spool := spoolAt T st i, cache := cacheAt T st i },
                   { resp := respondOutcome (i.render i.req), seen := some i.req }) := by
  simp [step, ha, spoolAt, cacheAt]

theorem step_spool_eq (T : Nat) (st : RState) (i : In) :
    (step T st i).1.spool =
      if i.assemble then (feedAndTake T i.now (spoolAt T st i) i.req).1 else spoolAt T st i := by
  by_cases ha : i.assemble = true
  · simp only [ha, ↓reduceIte]
    cases hfe : (feedAndTake T i.now (spoolAt T st i) i.req).2 with
    | cont b => rw [step_cont ha hfe]
    | incomplete => rw [step_incomplete ha hfe]
    | badRequest => rw [step_badRequest ha hfe]
    | keyError => exact absurd hfe (feed_ne_keyError _ _ _ _)
    | pass m => rw [step_pass ⟨ha, hfe⟩]
  · have ha' : i.assemble = false := by simpa using ha
    simp only [ha', Bool.false_eq_true, ↓reduceIte]
    rw [step_no_assembly ha']

/-- a request without Block1 passes unchanged -/
theorem passes_plain {T : Nat} {st : RState} {i : In} (ha : i.assemble = true)
    (h : i.req.block1 = none) : Passes T st i i.req :=
  ⟨ha, by rw [feed_none h]⟩

/-- a Block1 block is *accepted* when its payload fits its size and it either starts an assembly
(number 0) or continues the one stored under its block key exactly where that ends -/
def Accepted (T : Nat) (st : RState) (i : In) (b : Blk) : Prop :=
  (b.num = 0 ∧ sizeOk b i.req.payload.length = true) ∨
  ∃ asm, alookup (blockKey i.req) (spoolAt T st i).items = some asm ∧
    isRequestCode asm.code = true ∧ sizeOk b i.req.payload.length = true ∧
    b.start = asm.payload.length

theorem later_of_not_fresh {m : Msg} (h : isFresh m = false) :
    ∃ b, m.block2 = some b ∧ b.num ≠ 0 := by
  unfold isFresh at h
  cases hb : m.block2 with
  | none => simp [hb] at h
  | some b => exact ⟨b, rfl, by simpa [hb] using h⟩

/-- where the second stage takes the representation from: a fresh rendering by the handler, or
the rendering kept under the block key -/
def Source (T : Nat) (st : RState) (i : In) (m : Msg) (a : Resp) : Prop :=
  (isFresh m = true ∧ i.render m = .ok a) ∨
  (isFresh m = false ∧ alookup (blockKey m) (cacheAt T st i).items = some a)

/-- outcome of the second stage when it has to cut a block out of representation `a` -/
theorem extract_of_source {T : Nat} {st : RState} {i : In} {m : Msg} {a : Resp}
    (hsrc : Source T st i m a) (hchunk : needsChunking m a.payload.length = true) :
    (extractOrInsert T i.now (cacheAt T st i) m i.render).2 = (sliceOf a m, isFresh m) := by
  rcases hsrc with ⟨hf, ha⟩ | ⟨hf, hl⟩
  · rw [extract_fresh hf ha]; simp [hchunk, hf]
  · obtain ⟨b, hb, h0⟩ := later_of_not_fresh hf
    rw [extract_later_some hb h0 hl]; simp [hf]

end Aiocoap.BwServer
