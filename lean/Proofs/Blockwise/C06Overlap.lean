import AiocoapModel.Blockwise.Overlap
import Proofs.Blockwise.C06History
/-! Requests whose handlers overlap in time (`AiocoapModel/Blockwise/Overlap.lean`): an arrival that
is completed on the spot is `step`; the spool only depends on the arrivals; what is kept in the
rendering cache was rendered for the latest request for the beginning that arrived. -/
set_option linter.unusedSectionVars false
set_option linter.unusedSimpArgs false
set_option linter.unusedVariables false

namespace Aiocoap.BwServer
open TD

-- association lists ---------------------------------------------------------------------------------

section
variable {κ ν : Type} [DecidableEq κ]

theorem aerase_ainsert_absent {k : κ} {v : ν} {l : List (κ × ν)} (h : alookup k l = none) :
    aerase k (ainsert k v l) = l := by
  induction l with
  | nil => simp [ainsert, aerase]
  | cons p r ih =>
    obtain ⟨k', v'⟩ := p
    by_cases hk : k' = k
    · simp [alookup, hk] at h
    · simp only [alookup, hk, ↓reduceIte] at h
      have := ih h
      simp only [aerase] at this ⊢
      simp only [ainsert, hk, ↓reduceIte, List.filter_cons, ne_eq, not_false_eq_true, decide_true,
        this]

theorem alookup_append_single (x : κ) (l : List (κ × ν)) (y : κ) (v : ν) :
    alookup x (l ++ [(y, v)]) =
      match alookup x l with
      | some w => some w
      | none => if y = x then some v else none := by
  induction l with
  | nil => simp [alookup]
  | cons p r ih =>
    obtain ⟨k', v'⟩ := p
    by_cases hk : k' = x
    · simp [alookup, hk]
    · simp only [List.cons_append, alookup, hk, ↓reduceIte]
      exact ih

theorem alookup_mem {x : κ} {v : ν} {l : List (κ × ν)} (h : alookup x l = some v) : (x, v) ∈ l := by
  induction l with
  | nil => simp [alookup] at h
  | cons p r ih =>
    obtain ⟨k', v'⟩ := p
    by_cases hk : k' = x
    · simp only [alookup, hk, ↓reduceIte, Option.some.injEq] at h
      subst hk; subst h; simp
    · simp only [alookup, hk, ↓reduceIte] at h
      exact List.mem_cons_of_mem _ (ih h)

theorem alookup_none_of_not_mem {x : κ} {l : List (κ × ν)} (h : ∀ p ∈ l, p.1 ≠ x) :
    alookup x l = none := by
  induction l with
  | nil => rfl
  | cons p r ih =>
    obtain ⟨k', v'⟩ := p
    have hk : k' ≠ x := h (k', v') (by simp)
    simp only [alookup, hk, ↓reduceIte]
    exact ih (fun q hq => h q (List.mem_cons_of_mem _ hq))

/-- the last entry of a key in a log -/
def lastOf (k : κ) (log : List (κ × ν)) : Option ν := alookup k log.reverse

theorem lastOf_snoc_self (k : κ) (v : ν) (log : List (κ × ν)) : lastOf k (log ++ [(k, v)]) = some v := by
  simp [lastOf, alookup]

theorem lastOf_snoc_ne {k k' : κ} (h : k' ≠ k) (v : ν) (log : List (κ × ν)) :
    lastOf k (log ++ [(k', v)]) = lastOf k log := by
  simp [lastOf, alookup, h]

theorem advance_of_not_due {T now : Nat} {x : TD κ ν} (h : ∀ d, x.deadline = some d → now < d) :
    x.advance T now = x := by
  unfold advance
  cases hd : x.deadline with
  | none => rfl
  | some d =>
    have := h d hd
    simp only
    rw [if_neg (by omega)]

theorem advance_idem (T now : Nat) (td : TD κ ν) :
    (td.advance T now).advance T now = td.advance T now :=
  advance_of_not_due (advance_not_due T now td)

end

-- an arrival completed on the spot is `step` ----------------------------------------------------------

def arrOf (i : In) : Arr := { now := i.now, assemble := i.assemble, req := i.req }

theorem find_snoc_new {l : List Pending} {p : Pending} (h : ∀ q ∈ l, q.id ≠ p.id) :
    (l ++ [p]).find? (fun q => q.id == p.id) = some p := by
  rw [List.find?_append]
  have : l.find? (fun q => q.id == p.id) = none := by
    rw [List.find?_eq_none]
    intro q hq
    simpa using h q hq
  simp [this]

theorem filter_snoc_new {l : List Pending} {p : Pending} (h : ∀ q ∈ l, q.id ≠ p.id) :
    (l ++ [p]).filter (fun q => q.id != p.id) = l := by
  rw [List.filter_append]
  have : l.filter (fun q => q.id != p.id) = l := by
    rw [List.filter_eq_self]
    intro q hq
    simpa using h q hq
  simp [this]

/-- later blocks: `extractOrInsert` does not consult the handler -/
theorem extract_later_render_irrelevant {T now : Nat} {c : TD Key Resp} {m : Msg}
    (hf : isFresh m = false) (r1 r2 : Msg → Outcome) :
    extractOrInsert T now c m r1 = extractOrInsert T now c m r2 := by
  obtain ⟨b, hb, h0⟩ := later_of_not_fresh hf
  cases hl : alookup (blockKey m) c.items with
  | none => rw [extract_later_none hb h0 hl, extract_later_none hb h0 hl]
  | some a => rw [extract_later_some hb h0 hl, extract_later_some hb h0 hl]

theorem extract_later_not_seen {T now : Nat} {c : TD Key Resp} {m : Msg}
    (hf : isFresh m = false) (r : Msg → Outcome) : (extractOrInsert T now c m r).2.2 = false := by
  obtain ⟨b, hb, h0⟩ := later_of_not_fresh hf
  cases hl : alookup (blockKey m) c.items with
  | none => rw [extract_later_none hb h0 hl]
  | some a => rw [extract_later_some hb h0 hl]

/-- the part of `extract_or_insert` after the `await`, run by the latest request, is what
`extractOrInsert` does in one go -/
theorem afterBuild_latest_eq {T now : Nat} {c : TD Key Resp} {m : Msg} {render : Msg → Outcome}
    (hf : isFresh m = true) :
    (extractOrInsert T now c m render).1 =
      (afterBuild T now (delIf c (blockKey m)) m (render m) true).1 ∧
    (extractOrInsert T now c m render).2.1 =
      (afterBuild T now (delIf c (blockKey m)) m (render m) true).2 ∧
    (extractOrInsert T now c m render).2.2 = true := by
  cases hr : render m with
  | error code => rw [extract_fresh_raised hf hr]; simp [afterBuild]
  | junk => rw [extract_fresh_junk hf hr]; simp [afterBuild]
  | ok a =>
    rw [extract_fresh hf hr]
    by_cases hc : needsChunking m a.payload.length = true <;> simp [afterBuild, hc]


/-- **refinement.** Whatever else is pending: when no request for the beginning is being built under
the block key concerned and the token supply is fresh, a request that arrives and whose handler —
if it is invoked — ends at once with `i.render m` leaves the resource as `step` does and is
answered as `step` answers it.  (Block keys under which other requests are pending do not matter.) -/
theorem carrive_cfinish_eq_step (T : Nat) (st : CState) (i : In)
    (hids : ∀ q ∈ st.pending, q.id ≠ st.next)
    (hkey : ∀ m, Passes T st.r i m → alookup (blockKey m) st.building = none) :
    let r := carrive T st (arrOf i)
    (r.2.ticket = none →
      r.2.resp = some (step T st.r i).2.resp ∧ r.2.seen = none ∧ (step T st.r i).2.seen = none ∧
      r.1 = { st with r := (step T st.r i).1 }) ∧
    (∀ id, r.2.ticket = some id → ∃ m, r.2.seen = some m ∧ (step T st.r i).2.seen = some m ∧
      r.2.resp = none ∧
      (cfinish T r.1 i.now id (i.render m)).2 =
        { resp := some (step T st.r i).2.resp, seen := none, ticket := some id } ∧
      (cfinish T r.1 i.now id (i.render m)).1 =
        { st with r := (step T st.r i).1, next := st.next + 1 }) := by
  intro r
  by_cases ha : i.assemble = true
  · cases hfe : (feedAndTake T i.now (spoolAt T st.r i) i.req).2 with
    | keyError => exact absurd hfe (feed_ne_keyError _ _ _ _)
    | cont b =>
      have hr : r = ({ st with r := (step T st.r i).1 }, .answer (errResp CONTINUE (some b))) := by
        rw [step_cont ha hfe]; unfold spoolAt at hfe
        simp [r, carrive, arrOf, ha, hfe, spoolAt, cacheAt]
      rw [hr, step_cont ha hfe]
      exact ⟨fun _ => ⟨rfl, rfl, rfl, rfl⟩, fun id h => by simp [COut.answer] at h⟩
    | incomplete =>
      have hr : r = ({ st with r := (step T st.r i).1 },
          .answer (errResp REQUEST_ENTITY_INCOMPLETE none)) := by
        rw [step_incomplete ha hfe]; unfold spoolAt at hfe
        simp [r, carrive, arrOf, ha, hfe, spoolAt, cacheAt]
      rw [hr, step_incomplete ha hfe]
      exact ⟨fun _ => ⟨rfl, rfl, rfl, rfl⟩, fun id h => by simp [COut.answer] at h⟩
    | badRequest =>
      have hr : r = ({ st with r := (step T st.r i).1 }, .answer (errResp BAD_REQUEST none)) := by
        rw [step_badRequest ha hfe]; unfold spoolAt at hfe
        simp [r, carrive, arrOf, ha, hfe, spoolAt, cacheAt]
      rw [hr, step_badRequest ha hfe]
      exact ⟨fun _ => ⟨rfl, rfl, rfl, rfl⟩, fun id h => by simp [COut.answer] at h⟩
    | pass m =>
      have hp : Passes T st.r i m := ⟨ha, hfe⟩
      have hnb := hkey m hp
      have hfe' := hfe
      unfold spoolAt at hfe'
      by_cases hf : isFresh m = true
      · -- the handler is invoked: pending, then completed
        obtain ⟨e1, e2, e3⟩ := afterBuild_latest_eq (T := T) (now := i.now) (c := cacheAt T st.r i)
          (render := i.render) hf
        have hr : r = ({ st with r := { spool := (feedAndTake T i.now (spoolAt T st.r i) i.req).1,
                                        cache := delIf (cacheAt T st.r i) (blockKey m) }
                                 building := ainsert (blockKey m) st.next st.building
                                 pending := st.pending ++ [{ id := st.next, m := m, viaCache := true }]
                                 next := st.next + 1 },
                        { resp := none, seen := some m, ticket := some st.next }) := by
          simp [r, carrive, arrOf, ha, hfe', hf, spoolAt, cacheAt]
        rw [hr, step_pass hp]
        refine ⟨fun h => by simp at h, fun id hid => ?_⟩
        simp only [Option.some.injEq] at hid
        subst hid
        refine ⟨m, rfl, by simp [e3], rfl, ?_⟩
        have hfind := find_snoc_new (l := st.pending) (p := { id := st.next, m := m, viaCache := true })
          (by simpa using hids)
        have hfilt := filter_snoc_new (l := st.pending) (p := { id := st.next, m := m, viaCache := true })
          (by simpa using hids)
        simp only at hfind hfilt
        simp only [cfinish, hfind, ↓reduceIte, alookup_ainsert_self, beq_self_eq_true, hfilt,
          aerase_ainsert_absent hnb]
        have hadv : (delIf (cacheAt T st.r i) (blockKey m)).advance T i.now =
            delIf (cacheAt T st.r i) (blockKey m) := by
          apply advance_of_not_due
          intro d hd
          rw [delIf_deadline] at hd
          unfold cacheAt at hd; exact advance_not_due _ _ _ d hd
        rw [hadv, e1, e2]
        exact ⟨rfl, rfl⟩
      · have hf' : isFresh m = false := by simpa using hf
        have hnb' : isBuilding st (blockKey m) = false := by simp [isBuilding, hnb]
        have hirr := extract_later_render_irrelevant (T := T) (now := i.now) (c := cacheAt T st.r i) hf'
          (fun _ => .error INTERNAL_SERVER_ERROR) i.render
        have hr : r = ({ st with r := (step T st.r i).1 },
            .answer (respondExtract m (extractOrInsert T i.now (cacheAt T st.r i) m i.render).2.1)) := by
          rw [step_pass hp, ← hirr]
          simp [r, carrive, arrOf, ha, hfe', hf', hnb', spoolAt, cacheAt]
        rw [hr, step_pass hp]
        refine ⟨fun _ => ⟨rfl, rfl, ?_, rfl⟩, fun id h => by simp [COut.answer] at h⟩
        simp [extract_later_not_seen hf']
  · have ha' : i.assemble = false := by simpa using ha
    have hr : r = ({ st with r := (step T st.r i).1
                             pending := st.pending ++ [{ id := st.next, m := i.req, viaCache := false }]
                             next := st.next + 1 },
                   { resp := none, seen := some i.req, ticket := some st.next }) := by
      rw [step_no_assembly ha']
      simp [r, carrive, arrOf, ha', spoolAt, cacheAt]
    rw [hr, step_no_assembly ha']
    refine ⟨fun h => by simp at h, fun id hid => ?_⟩
    simp only [Option.some.injEq] at hid
    subst hid
    refine ⟨i.req, rfl, rfl, rfl, ?_⟩
    have hfind := find_snoc_new (l := st.pending) (p := { id := st.next, m := i.req, viaCache := false })
      (by simpa using hids)
    have hfilt := filter_snoc_new (l := st.pending) (p := { id := st.next, m := i.req, viaCache := false })
      (by simpa using hids)
    simp only at hfind hfilt
    simp only [cfinish, hfind, hfilt]
    exact ⟨rfl, rfl⟩


-- the log of handler invocations ----------------------------------------------------------------------

/-- what happened at one resource, read off the events and what they showed: `started` lists the
handler invocations made through the rendering cache in order of arrival (block key of the request,
token), `ended` the invocations that have returned or raised (token, outcome) -/
structure Ghost where
  started : List (Key × Nat)
  ended : List (Nat × Outcome)

def Ghost.init : Ghost := { started := [], ended := [] }

def ghostStep (g : Ghost) (e : Ev) (o : COut) : Ghost :=
  match e with
  | .arrive a =>
    match o.ticket, o.seen with
    | some id, some m => if a.assemble then { g with started := g.started ++ [(blockKey m, id)] } else g
    | _, _ => g
  | .finish _ id out =>
    match o.ticket with
    | some _ => { g with ended := g.ended ++ [(id, out)] }
    | none => g

def ghostAfter (T : Nat) : CState → Ghost → List Ev → Ghost
  | _, g, [] => g
  | st, g, e :: rest => ghostAfter T (cstep T st e).1 (ghostStep g e (cstep T st e).2) rest

/-- the invariant of a resource with overlapping requests -/
structure OInv (st : CState) (g : Ghost) : Prop where
  /-- a token in `_building` belongs to the latest request for the beginning under that key, which
  is pending -/
  building : ∀ k id, alookup k st.building = some id →
    lastOf k g.started = some id ∧ alookup id g.ended = none ∧
    ∃ p ∈ st.pending, p.id = id ∧ p.viaCache = true ∧ blockKey p.m = k
  /-- when nothing is being built under a key, what is kept under it is what the handler returned
  for the latest request for the beginning under that key -/
  cache : ∀ k a, alookup k st.building = none → alookup k st.r.cache.items = some a →
    ∃ id, lastOf k g.started = some id ∧ alookup id g.ended = some (.ok a)
  /-- while a request for the beginning is being built, nothing is kept under its key -/
  dropped : ∀ k id, alookup k st.building = some id → alookup k st.r.cache.items = none
  pendingIds : ∀ p ∈ st.pending, p.id < st.next ∧ alookup p.id g.ended = none
  unique : ∀ p ∈ st.pending, ∀ q ∈ st.pending, p.id = q.id → p = q
  endedIds : ∀ x ∈ g.ended, x.1 < st.next

theorem oinv_init : OInv CState.init Ghost.init :=
  { building := by intro k id h; simp [CState.init, alookup] at h
    cache := by intro k a _ h; simp [CState.init, RState.init, TD.empty, alookup] at h
    dropped := by intro k id h; simp [CState.init, alookup] at h
    pendingIds := by intro p hp; simp [CState.init] at hp
    unique := by intro p hp; simp [CState.init] at hp
    endedIds := by intro x hx; simp [Ghost.init] at hx }

theorem ended_none_of_lt {g : Ghost} {n : Nat} (h : ∀ x ∈ g.ended, x.1 < n) : alookup n g.ended = none :=
  alookup_none_of_not_mem (fun p hp => by have := h p hp; omega)

/-- an event that only moves the timers / answers from what is kept without changing lookups keeps
the invariant: `cache'` has no lookups that `cache` had not -/
theorem OInv.of_cache {st : CState} {g : Ghost} (h : OInv st g) (sp : TD Key Msg) (c : TD Key Resp)
    (hc : ∀ k a, alookup k c.items = some a → alookup k st.r.cache.items = some a) :
    OInv { st with r := { spool := sp, cache := c } } g :=
  { building := h.building
    cache := fun k a hb hl => h.cache k a hb (hc k a hl)
    dropped := fun k id hb => by
      cases hl : alookup k c.items with
      | none => rfl
      | some a => have := hc k a hl; rw [h.dropped k id hb] at this; cases this
    pendingIds := h.pendingIds
    unique := h.unique
    endedIds := h.endedIds }

theorem lookup_none_of_sub {k : Key} {c c' : List (Key × Resp)}
    (hsub : ∀ a, alookup k c' = some a → alookup k c = some a) (h : alookup k c = none) :
    alookup k c' = none := by
  cases hl : alookup k c' with
  | none => rfl
  | some a => rw [hsub a hl] at h; cases h

theorem advance_lookup_none {T now : Nat} {c : TD Key Resp} {k : Key} (h : alookup k c.items = none) :
    alookup k (c.advance T now).items = none :=
  lookup_none_of_sub (fun a hl => advance_lookup_some hl) h

theorem later_lookup {T now : Nat} {c : TD Key Resp} {m : Msg} (hf : isFresh m = false)
    (r : Msg → Outcome) :
    ∀ k a, alookup k (extractOrInsert T now c m r).1.items = some a → alookup k c.items = some a := by
  intro k a h
  obtain ⟨b, hb, h0⟩ := later_of_not_fresh hf
  cases hl : alookup (blockKey m) c.items with
  | none => rw [extract_later_none hb h0 hl] at h; exact h
  | some v =>
    rw [extract_later_some hb h0 hl] at h
    simp only [TD.set, accessed_items] at h
    by_cases hk : k = blockKey m
    · subst hk; rw [alookup_ainsert_self] at h; rw [hl]; exact h
    · rw [alookup_ainsert_ne hk] at h; exact h

theorem carrive_oinv {T : Nat} {st : CState} {g : Ghost} (h : OInv st g) (a : Arr) :
    OInv (carrive T st a).1 (ghostStep g (.arrive a) (carrive T st a).2) := by
  have hadv : ∀ k v, alookup k (st.r.cache.advance T a.now).items = some v →
      alookup k st.r.cache.items = some v := fun k v hl => advance_lookup_some hl
  by_cases ha : a.assemble = true
  · cases hfe : (feedAndTake T a.now (st.r.spool.advance T a.now) a.req).2 with
    | cont b => simpa [carrive, ha, hfe, ghostStep, COut.answer] using h.of_cache _ _ hadv
    | incomplete => simpa [carrive, ha, hfe, ghostStep, COut.answer] using h.of_cache _ _ hadv
    | badRequest => simpa [carrive, ha, hfe, ghostStep, COut.answer] using h.of_cache _ _ hadv
    | keyError => simpa [carrive, ha, hfe, ghostStep, COut.answer] using h.of_cache _ _ hadv
    | pass m =>
      by_cases hf : isFresh m = true
      · simp only [carrive, ha, hfe, hf, ↓reduceIte, ghostStep]
        refine { building := ?_, cache := ?_, dropped := ?_, pendingIds := ?_, unique := ?_,
                 endedIds := ?_ }
        · intro k id hl
          by_cases hk : k = blockKey m
          · subst hk
            rw [alookup_ainsert_self] at hl
            simp only [Option.some.injEq] at hl
            subst hl
            exact ⟨lastOf_snoc_self _ _ _, ended_none_of_lt h.endedIds,
              ⟨_, List.mem_append_right _ (List.mem_singleton.mpr rfl), rfl, rfl, rfl⟩⟩
          · rw [alookup_ainsert_ne hk] at hl
            obtain ⟨h1, h2, p, hp, h3⟩ := h.building k id hl
            exact ⟨by rw [lastOf_snoc_ne (Ne.symm hk)]; exact h1, h2,
              ⟨p, List.mem_append_left _ hp, h3⟩⟩
        · intro k v hb hl
          by_cases hk : k = blockKey m
          · subst hk; rw [alookup_ainsert_self] at hb; cases hb
          · rw [alookup_ainsert_ne hk] at hb
            obtain ⟨id, h1, h2⟩ := h.cache k v hb (hadv k v (delIf_lookup_some hl))
            exact ⟨id, by rw [lastOf_snoc_ne (Ne.symm hk)]; exact h1, h2⟩
        · intro k id hl
          by_cases hk : k = blockKey m
          · subst hk; exact delIf_lookup_self _ _
          · rw [alookup_ainsert_ne hk] at hl
            simp only
            rw [delIf_lookup_ne _ hk]
            exact advance_lookup_none (h.dropped k id hl)
        · intro p hp
          rcases List.mem_append.mp hp with hp | hp
          · have := h.pendingIds p hp; exact ⟨by simp only; omega, this.2⟩
          · simp only [List.mem_singleton] at hp; subst hp
            exact ⟨by simp, ended_none_of_lt h.endedIds⟩
        · intro p hp q hq hid
          rcases List.mem_append.mp hp with hp | hp <;> rcases List.mem_append.mp hq with hq | hq
          · exact h.unique p hp q hq hid
          · simp only [List.mem_singleton] at hq; subst hq
            have := (h.pendingIds p hp).1; simp only at hid; omega
          · simp only [List.mem_singleton] at hp; subst hp
            have := (h.pendingIds q hq).1; simp only at hid; omega
          · simp only [List.mem_singleton] at hp hq; subst hp; subst hq; rfl
        · intro x hx; have := h.endedIds x hx; simp only; omega
      · have hf' : isFresh m = false := by simpa using hf
        by_cases hbld : isBuilding st (blockKey m) = true
        · simpa [carrive, ha, hfe, hf', hbld, ghostStep, COut.answer] using h.of_cache _ _ hadv
        · have hbld' : isBuilding st (blockKey m) = false := by simpa using hbld
          simpa [carrive, ha, hfe, hf', hbld', ghostStep, COut.answer] using
            h.of_cache _ _ (fun k v hl => hadv k v (later_lookup hf' _ k v hl))
  · have ha' : a.assemble = false := by simpa using ha
    simp only [carrive, ha', Bool.false_eq_true, ↓reduceIte, ghostStep]
    refine { building := ?_, cache := ?_, dropped := ?_, pendingIds := ?_, unique := ?_, endedIds := ?_ }
    · intro k id hl
      obtain ⟨h1, h2, p, hp, h3⟩ := h.building k id hl
      exact ⟨h1, h2, ⟨p, List.mem_append_left _ hp, h3⟩⟩
    · intro k v hb hl; exact h.cache k v hb (hadv k v hl)
    · intro k id hl; exact advance_lookup_none (h.dropped k id hl)
    · intro p hp
      rcases List.mem_append.mp hp with hp | hp
      · have := h.pendingIds p hp; exact ⟨by simp only; omega, this.2⟩
      · simp only [List.mem_singleton] at hp; subst hp
        exact ⟨by simp, ended_none_of_lt h.endedIds⟩
    · intro p hp q hq hid
      rcases List.mem_append.mp hp with hp | hp <;> rcases List.mem_append.mp hq with hq | hq
      · exact h.unique p hp q hq hid
      · simp only [List.mem_singleton] at hq; subst hq
        have := (h.pendingIds p hp).1; simp only at hid; omega
      · simp only [List.mem_singleton] at hp; subst hp
        have := (h.pendingIds q hq).1; simp only at hid; omega
      · simp only [List.mem_singleton] at hp hq; subst hp; subst hq; rfl
    · intro x hx; have := h.endedIds x hx; simp only; omega


section
variable {ν : Type}
theorem ended_append_some {l : List (Nat × ν)} {x : Nat} {v : ν} (h : alookup x l = some v) (y : Nat) (w : ν) :
    alookup x (l ++ [(y, w)]) = some v := by
  rw [alookup_append_single, h]

theorem ended_append_none_ne {l : List (Nat × ν)} {x : Nat} (h : alookup x l = none) {y : Nat} (hne : y ≠ x)
    (w : ν) : alookup x (l ++ [(y, w)]) = none := by
  rw [alookup_append_single, h]; simp [hne]

theorem ended_append_self {l : List (Nat × ν)} {x : Nat} (h : alookup x l = none) (w : ν) :
    alookup x (l ++ [(x, w)]) = some w := by
  rw [alookup_append_single, h]; simp
end

theorem afterBuild_not_latest (T now : Nat) (c : TD Key Resp) (m : Msg) (out : Outcome) :
    (afterBuild T now c m out false).1 = c := by
  unfold afterBuild
  cases out with
  | error code => rfl
  | junk => rfl
  | ok a => by_cases hc : needsChunking m a.payload.length = true <;> simp [hc]

theorem afterBuild_response (T now : Nat) (c : TD Key Resp) (m : Msg) (out : Outcome) (l1 l2 : Bool) :
    (afterBuild T now c m out l1).2 = (afterBuild T now c m out l2).2 := by
  unfold afterBuild
  cases out with
  | error code => rfl
  | junk => rfl
  | ok a => by_cases hc : needsChunking m a.payload.length = true <;> simp [hc]

theorem afterBuild_latest_lookup_ne {T now : Nat} {c : TD Key Resp} {m : Msg} {out : Outcome} {k : Key}
    (hk : k ≠ blockKey m) :
    alookup k (afterBuild T now c m out true).1.items = alookup k c.items := by
  unfold afterBuild
  cases out with
  | error code => rfl
  | junk => rfl
  | ok a =>
    by_cases hc : needsChunking m a.payload.length = true
    · simp [hc, TD.set, accessed_items, alookup_ainsert_ne hk]
    · simp [hc]

/-- the latest request for the beginning completes over a cache that keeps nothing under its key (it
dropped that when it arrived): what is kept afterwards is what its handler returned -/
theorem afterBuild_latest_lookup_self {T now : Nat} {c : TD Key Resp} {m : Msg} {out : Outcome} {a : Resp}
    (hnone : alookup (blockKey m) c.items = none)
    (h : alookup (blockKey m) (afterBuild T now c m out true).1.items = some a) : out = .ok a := by
  unfold afterBuild at h
  cases out with
  | error code => simp [hnone] at h
  | junk => simp [hnone] at h
  | ok a' =>
    by_cases hc : needsChunking m a'.payload.length = true
    · simp [hc, TD.set, accessed_items, alookup_ainsert_self] at h
      rw [h]
    · simp [hc, hnone] at h

theorem find_mem {l : List Pending} {id : Nat} {p : Pending}
    (h : l.find? (fun q => q.id == id) = some p) : p ∈ l ∧ p.id = id := by
  refine ⟨List.mem_of_find?_eq_some h, ?_⟩
  have := List.find?_some h
  simpa using this

theorem cfinish_oinv {T : Nat} {st : CState} {g : Ghost} (h : OInv st g) (now id : Nat) (out : Outcome) :
    OInv (cfinish T st now id out).1 (ghostStep g (.finish now id out) (cfinish T st now id out).2) := by
  cases hfind : st.pending.find? (fun q => q.id == id) with
  | none => simpa [cfinish, hfind, ghostStep] using h
  | some p =>
    obtain ⟨hp, hpid⟩ := find_mem hfind
    have hidlt : id < st.next := by rw [← hpid]; exact (h.pendingIds p hp).1
    have hidnone : alookup id g.ended = none := by rw [← hpid]; exact (h.pendingIds p hp).2
    -- the parts that do not depend on the cache
    have hpend : ∀ q ∈ st.pending.filter (fun q => q.id != id),
        q.id < st.next ∧ alookup q.id (g.ended ++ [(id, out)]) = none := by
      intro q hq
      obtain ⟨hq1, hq2⟩ := List.mem_filter.mp hq
      have hne : id ≠ q.id := by
        intro e; simp [e] at hq2
      exact ⟨(h.pendingIds q hq1).1, ended_append_none_ne (h.pendingIds q hq1).2 hne out⟩
    have huniq : ∀ q ∈ st.pending.filter (fun q => q.id != id),
        ∀ q' ∈ st.pending.filter (fun q => q.id != id), q.id = q'.id → q = q' := by
      intro q hq q' hq' e
      exact h.unique q (List.mem_filter.mp hq).1 q' (List.mem_filter.mp hq').1 e
    have hended : ∀ x ∈ g.ended ++ [(id, out)], x.1 < st.next := by
      intro x hx
      rcases List.mem_append.mp hx with hx | hx
      · exact h.endedIds x hx
      · simp only [List.mem_singleton] at hx; subst hx; exact hidlt
    -- a token that stays in `_building` is not the one that ended
    have hbuild : ∀ (bld : List (Key × Nat)),
        (∀ k id', alookup k bld = some id' → alookup k st.building = some id' ∧ id' ≠ id) →
        ∀ k id', alookup k bld = some id' →
          lastOf k g.started = some id' ∧ alookup id' (g.ended ++ [(id, out)]) = none ∧
          ∃ q ∈ st.pending.filter (fun q => q.id != id), q.id = id' ∧ q.viaCache = true ∧ blockKey q.m = k := by
      intro bld hb k id' hl
      obtain ⟨hl', hne⟩ := hb k id' hl
      obtain ⟨h1, h2, q, hq, h3, h4, h5⟩ := h.building k id' hl'
      refine ⟨h1, ended_append_none_ne h2 (Ne.symm hne) out, q, ?_, h3, h4, h5⟩
      exact List.mem_filter.mpr ⟨hq, by simpa [h3] using hne⟩
    by_cases hv : p.viaCache = true
    · by_cases hlat : alookup (blockKey p.m) st.building = some id
      · -- the latest request for the beginning under its key
        have hlat' : (alookup (blockKey p.m) st.building == some id) = true := by simp [hlat]
        simp only [cfinish, hfind, hv, ↓reduceIte, hlat', ghostStep]
        have hnone : alookup (blockKey p.m) (st.r.cache.advance T now).items = none :=
          advance_lookup_none (h.dropped _ _ hlat)
        refine { building := ?_, cache := ?_, dropped := ?_, pendingIds := hpend, unique := huniq,
                 endedIds := hended }
        · refine hbuild _ ?_
          intro k id' hl
          by_cases hk : k = blockKey p.m
          · subst hk; rw [alookup_aerase_self] at hl; cases hl
          · rw [alookup_aerase_ne hk] at hl
            refine ⟨hl, ?_⟩
            intro e; subst e
            obtain ⟨_, _, q, hq, h3, _, h5⟩ := h.building k id' hl
            have := h.unique q hq p hp (by rw [h3, hpid])
            subst this; exact hk h5.symm
        · intro k a hb hl
          by_cases hk : k = blockKey p.m
          · subst hk
            have hout := afterBuild_latest_lookup_self hnone hl
            obtain ⟨h1, _, _⟩ := h.building _ _ hlat
            exact ⟨id, h1, by rw [hout]; exact ended_append_self hidnone _⟩
          · rw [alookup_aerase_ne hk] at hb
            rw [afterBuild_latest_lookup_ne hk] at hl
            obtain ⟨id0, h1, h2⟩ := h.cache k a hb (advance_lookup_some hl)
            exact ⟨id0, h1, ended_append_some h2 _ _⟩
        · intro k id' hl
          by_cases hk : k = blockKey p.m
          · subst hk; rw [alookup_aerase_self] at hl; cases hl
          · rw [alookup_aerase_ne hk] at hl
            simp only
            rw [afterBuild_latest_lookup_ne hk]
            exact advance_lookup_none (h.dropped k id' hl)
      · -- superseded: a newer request for the beginning arrived in the meantime
        have hlat' : (alookup (blockKey p.m) st.building == some id) = false := by simp [hlat]
        simp only [cfinish, hfind, hv, ↓reduceIte, hlat', Bool.false_eq_true, ghostStep,
          afterBuild_not_latest]
        refine { building := ?_, cache := ?_, dropped := ?_, pendingIds := hpend, unique := huniq,
                 endedIds := hended }
        · refine hbuild _ ?_
          intro k id' hl
          refine ⟨hl, ?_⟩
          intro e; subst e
          obtain ⟨_, _, q, hq, h3, _, h5⟩ := h.building k id' hl
          have := h.unique q hq p hp (by rw [h3, hpid])
          subst this; rw [h5] at hlat; exact hlat hl
        · intro k a hb hl
          obtain ⟨id0, h1, h2⟩ := h.cache k a hb (advance_lookup_some hl)
          exact ⟨id0, h1, ended_append_some h2 _ _⟩
        · intro k id' hl; exact advance_lookup_none (h.dropped k id' hl)
    · have hv' : p.viaCache = false := by simpa using hv
      simp only [cfinish, hfind, hv', Bool.false_eq_true, ↓reduceIte, ghostStep]
      refine { building := ?_, cache := ?_, dropped := h.dropped, pendingIds := hpend, unique := huniq,
               endedIds := hended }
      · refine hbuild _ ?_
        intro k id' hl
        refine ⟨hl, ?_⟩
        intro e; subst e
        obtain ⟨_, _, q, hq, h3, h4, _⟩ := h.building k id' hl
        have := h.unique q hq p hp (by rw [h3, hpid])
        subst this; rw [hv'] at h4; cases h4
      · intro k a hb hl
        obtain ⟨id0, h1, h2⟩ := h.cache k a hb hl
        exact ⟨id0, h1, ended_append_some h2 _ _⟩

theorem cstep_oinv {T : Nat} {st : CState} {g : Ghost} (h : OInv st g) (e : Ev) :
    OInv (cstep T st e).1 (ghostStep g e (cstep T st e).2) := by
  cases e with
  | arrive a => exact carrive_oinv h a
  | finish now id out => exact cfinish_oinv h now id out

theorem cstateAfter_oinv {T : Nat} (evs : List Ev) :
    ∀ {st : CState} {g : Ghost}, OInv st g → OInv (cstateAfter T st evs) (ghostAfter T st g evs) := by
  induction evs with
  | nil => intro st g h; exact h
  | cons e rest ih => intro st g h; exact ih (cstep_oinv h e)


-- the spool only depends on the arrivals ----------------------------------------------------------------

/-- an arrival as a request of the sequential model (what the handler answers plays no part in the
first stage) -/
def inOf (a : Arr) : In :=
  { now := a.now, assemble := a.assemble, req := a.req, render := fun _ => .error INTERNAL_SERVER_ERROR }

/-- the requests of an event sequence, in order of arrival -/
def arrivals : List Ev → List In
  | [] => []
  | .arrive a :: rest => inOf a :: arrivals rest
  | .finish _ _ _ :: rest => arrivals rest

theorem carrive_spool (T : Nat) (st : CState) (a : Arr) :
    (carrive T st a).1.r.spool =
      if a.assemble then (feedAndTake T a.now (st.r.spool.advance T a.now) a.req).1
      else st.r.spool.advance T a.now := by
  by_cases ha : a.assemble = true
  · cases hfe : (feedAndTake T a.now (st.r.spool.advance T a.now) a.req).2 with
    | cont b => simp [carrive, ha, hfe]
    | incomplete => simp [carrive, ha, hfe]
    | badRequest => simp [carrive, ha, hfe]
    | keyError => simp [carrive, ha, hfe]
    | pass m =>
      by_cases hf : isFresh m = true
      · simp [carrive, ha, hfe, hf]
      · have hf' : isFresh m = false := by simpa using hf
        by_cases hb : isBuilding st (blockKey m) = true
        · simp [carrive, ha, hfe, hf', hb]
        · have hb' : isBuilding st (blockKey m) = false := by simpa using hb
          simp [carrive, ha, hfe, hf', hb']
  · have ha' : a.assemble = false := by simpa using ha
    simp [carrive, ha']

theorem cfinish_spool (T : Nat) (st : CState) (now id : Nat) (out : Outcome) :
    (cfinish T st now id out).1.r.spool = st.r.spool := by
  unfold cfinish
  cases st.pending.find? (fun p => p.id == id) with
  | none => rfl
  | some p => by_cases hv : p.viaCache = true <;> simp [hv]

theorem cstateAfter_spool (T : Nat) (evs : List Ev) :
    ∀ (st : CState) (rs : RState), st.r.spool = rs.spool →
      (cstateAfter T st evs).r.spool = (stateAfter T rs (arrivals evs)).spool := by
  induction evs with
  | nil => intro st rs h; exact h
  | cons e rest ih =>
    intro st rs h
    cases e with
    | arrive a =>
      simp only [cstateAfter, cstep, arrivals, stateAfter]
      apply ih
      rw [carrive_spool, step_spool_eq]
      simp only [inOf, spoolAt, h]
      by_cases ha : a.assemble = true <;> simp [ha]
    | finish now id out =>
      simp only [cstateAfter, cstep, arrivals]
      apply ih
      rw [cfinish_spool]; exact h

/-- the handler is only reached through the second stage: what an arrival shows as `seen` under
block-wise assembly came out of `feed_and_take` and asks for the beginning -/
theorem carrive_seen {T : Nat} {st : CState} {a : Arr} {m : Msg} (ha : a.assemble = true)
    (h : (carrive T st a).2.seen = some m) :
    (feedAndTake T a.now (st.r.spool.advance T a.now) a.req).2 = .pass m ∧ isFresh m = true := by
  cases hfe : (feedAndTake T a.now (st.r.spool.advance T a.now) a.req).2 with
  | cont b => simp [carrive, ha, hfe, COut.answer] at h
  | incomplete => simp [carrive, ha, hfe, COut.answer] at h
  | badRequest => simp [carrive, ha, hfe, COut.answer] at h
  | keyError => simp [carrive, ha, hfe, COut.answer] at h
  | pass m' =>
    by_cases hf : isFresh m' = true
    · simp [carrive, ha, hfe, hf] at h; subst h; exact ⟨rfl, hf⟩
    · have hf' : isFresh m' = false := by simpa using hf
      by_cases hb : isBuilding st (blockKey m') = true
      · simp [carrive, ha, hfe, hf', hb, COut.answer] at h
      · have hb' : isBuilding st (blockKey m') = false := by simpa using hb
        simp [carrive, ha, hfe, hf', hb', COut.answer] at h

end Aiocoap.BwServer
