import AiocoapModel.Blockwise.TimeoutDict
/-! Helper lemmas about the `TimeoutDict` model: association lists, the timer invariants and
the "death time" of an entry that is no longer accessed. -/
set_option linter.unusedSectionVars false
set_option linter.unusedSimpArgs false
set_option linter.unusedVariables false

namespace Aiocoap.BwServer

section assoc
variable {κ : Type} {ν : Type} [DecidableEq κ]

@[simp] theorem alookup_nil (k : κ) : alookup k ([] : List (κ × ν)) = none := rfl

theorem alookup_ainsert_self (k : κ) (v : ν) (l : List (κ × ν)) :
    alookup k (ainsert k v l) = some v := by
  induction l with
  | nil => simp [ainsert, alookup]
  | cons p r ih =>
    obtain ⟨k', v'⟩ := p
    by_cases h : k' = k
    · simp [ainsert, alookup, h]
    · simp [ainsert, alookup, h, ih]

theorem alookup_ainsert_ne {k k' : κ} (h : k' ≠ k) (v : ν) (l : List (κ × ν)) :
    alookup k' (ainsert k v l) = alookup k' l := by
  induction l with
  | nil => simp [ainsert, alookup, Ne.symm h]
  | cons p r ih =>
    obtain ⟨k'', v''⟩ := p
    by_cases h1 : k'' = k
    · subst h1
      simp [ainsert, alookup, Ne.symm h]
    · by_cases h2 : k'' = k'
      · subst h2
        simp [ainsert, alookup, h1]
      · simp [ainsert, alookup, h1, h2, ih]

theorem alookup_filter (k : κ) (f : κ → Bool) (l : List (κ × ν)) :
    alookup k (l.filter (fun p => f p.1)) = if f k then alookup k l else none := by
  induction l with
  | nil => simp
  | cons p r ih =>
    obtain ⟨k', v'⟩ := p
    by_cases hk : k' = k
    · subst hk
      by_cases hf : f k' = true
      · simp [List.filter, hf, alookup]
      · simp only [Bool.not_eq_true] at hf
        simp [List.filter, hf, ih]
    · by_cases hf : f k' = true
      · simp [List.filter, hf, alookup, hk, ih]
      · simp only [Bool.not_eq_true] at hf
        simp [List.filter, hf, alookup, hk, ih]

theorem alookup_aerase_self (k : κ) (l : List (κ × ν)) : alookup k (aerase k l) = none := by
  have := alookup_filter k (fun x => decide (x ≠ k)) l
  simpa [aerase] using this

theorem alookup_aerase_ne {k k' : κ} (h : k' ≠ k) (l : List (κ × ν)) :
    alookup k' (aerase k l) = alookup k' l := by
  have := alookup_filter k' (fun x => decide (x ≠ k)) l
  simpa [aerase, h] using this

theorem alookup_isSome_ne_nil {k : κ} {l : List (κ × ν)} {v : ν} (h : alookup k l = some v) :
    l ≠ [] := by
  intro e; subst e; simp at h

end assoc

namespace TD
variable {κ : Type} {ν : Type} [DecidableEq κ]

/-- without a pending timer the dictionary is empty -/
def WF (td : TD κ ν) : Prop := td.deadline = none → td.items = []

/-- a pending timer fires at most `T` after `now` -/
def Bounded (T now : Nat) (td : TD κ ν) : Prop := ∀ d, td.deadline = some d → d ≤ now + T

theorem empty_wf : (empty : TD κ ν).WF := fun _ => rfl
theorem empty_bounded (T now : Nat) : (empty : TD κ ν).Bounded T now := by
  intro d h; simp [empty] at h

-- effect of the single operations on lookups ------------------------------------------------

theorem accessed_items (T now : Nat) (td : TD κ ν) (k : κ) :
    (td.accessed T now k).items = td.items := by
  unfold accessed; split <;> rfl

theorem accessed_deadline_isSome (T now : Nat) (td : TD κ ν) (k : κ) :
    (td.accessed T now k).deadline.isSome := by
  unfold accessed; split <;> simp_all

theorem accessed_wf (T now : Nat) (td : TD κ ν) (k : κ) : (td.accessed T now k).WF := by
  intro h
  have := accessed_deadline_isSome T now td k
  rw [h] at this; cases this

theorem accessed_bounded {T now : Nat} {td : TD κ ν} (h : td.Bounded T now) (k : κ) :
    (td.accessed T now k).Bounded T now := by
  intro d hd
  unfold accessed at hd
  split at hd
  · simp only [Option.some.injEq] at hd; omega
  · rename_i d' hd'
    simp only at hd
    exact h d (by rw [← hd])

theorem bounded_mono {T now now' : Nat} {td : TD κ ν} (h : td.Bounded T now) (hle : now ≤ now') :
    td.Bounded T now' := by
  intro d hd
  have := h d hd
  omega

theorem tick_wf (T : Nat) (td : TD κ ν) (d : Nat) : (td.tick T d).WF := by
  intro h
  unfold tick at h ⊢
  simp only at h ⊢
  split
  · rfl
  · rename_i hne
    simp [hne] at h

theorem advance_wf {T : Nat} {td : TD κ ν} (h : td.WF) (now : Nat) : (td.advance T now).WF := by
  unfold advance
  split
  · exact h
  · split
    · simp only
      split
      · exact tick_wf T td _
      · split
        · exact tick_wf T _ _
        · exact tick_wf T td _
    · exact h

theorem tick_deadline (T : Nat) (td : TD κ ν) (d d' : Nat) (h : (td.tick T d).deadline = some d') :
    d' = d + T ∧ (td.tick T d).recent = [] := by
  unfold tick at h ⊢
  simp only at h ⊢
  split
  · rename_i he; simp [he] at h
  · rename_i he; simp [he] at h; exact ⟨h.symm, rfl⟩

theorem tick_recent_nil (T : Nat) (td : TD κ ν) (d : Nat) (h : td.recent = []) :
    td.tick T d = { items := [], recent := [], deadline := none } := by
  unfold tick
  simp [h]

theorem advance_bounded {T now now' : Nat} {td : TD κ ν} (h : td.Bounded T now) (hle : now ≤ now') :
    (td.advance T now').Bounded T now' := by
  intro d' hd'
  unfold advance at hd'
  split at hd'
  · rename_i hn; rw [hn] at hd'; cases hd'
  · rename_i d hd
    split at hd'
    · rename_i hdue
      simp only at hd'
      split at hd'
      · rename_i h1; rw [h1] at hd'; cases hd'
      · rename_i d1 h1
        have := (tick_deadline T td d d1 h1).1
        split at hd'
        · -- a second tick always empties the dictionary
          exfalso
          have hr := (tick_deadline T td d d1 h1).2
          rw [tick_recent_nil T _ d1 hr] at hd'
          cases hd'
        · rw [h1] at hd'
          simp only [Option.some.injEq] at hd'
          omega
    · have := h d (by rw [hd])
      rw [hd] at hd'
      simp only [Option.some.injEq] at hd'
      omega

/-- after `advance` no timer is due any more (so the two unrolled ticks are all there are) -/
theorem advance_not_due (T now : Nat) (td : TD κ ν) :
    ∀ d, (td.advance T now).deadline = some d → now < d := by
  intro d' hd'
  unfold advance at hd'
  split at hd'
  · rename_i hn; rw [hn] at hd'; cases hd'
  · rename_i d hd
    split at hd'
    · simp only at hd'
      split at hd'
      · rename_i h1; rw [h1] at hd'; cases hd'
      · rename_i d1 h1
        split at hd'
        · exfalso
          have hr := (tick_deadline T td d d1 h1).2
          rw [tick_recent_nil T _ d1 hr] at hd'
          cases hd'
        · rw [h1] at hd'
          simp only [Option.some.injEq] at hd'
          omega
    · rw [hd] at hd'
      simp only [Option.some.injEq] at hd'
      omega

-- death time ----------------------------------------------------------------------------------

/-- the instant at which an entry that is not accessed any more is dropped: the next tick if
it was not accessed since the timer was armed, the one after that otherwise -/
def deathTime (T : Nat) (td : TD κ ν) (k : κ) : Option Nat :=
  match alookup k td.items, td.deadline with
  | some _, some d => some (if k ∈ td.recent then d + T else d)
  | _, _ => none

theorem deathTime_some {T : Nat} {td : TD κ ν} {k : κ} {D : Nat} (h : td.deathTime T k = some D) :
    ∃ v d, alookup k td.items = some v ∧ td.deadline = some d ∧
      D = if k ∈ td.recent then d + T else d := by
  unfold deathTime at h
  split at h
  · rename_i v d hv hd
    simp only [Option.some.injEq] at h
    exact ⟨v, d, hv, hd, h.symm⟩
  · cases h

theorem filter_recent_nil (l : List (κ × ν)) :
    l.filter (fun p => decide (p.1 ∈ ([] : List κ))) = [] := by
  simp

theorem tick_lookup (T : Nat) (td : TD κ ν) (d : Nat) (k : κ) :
    alookup k (td.tick T d).items = if k ∈ td.recent then alookup k td.items else none := by
  unfold tick
  simp only
  have hf := alookup_filter k (fun x => decide (x ∈ td.recent)) td.items
  split
  · rename_i he
    simp only [List.isEmpty_iff] at he
    rw [he] at hf
    simp only [alookup_nil, decide_eq_true_eq] at hf
    simpa using hf
  · simpa using hf

theorem advance_absent {T : Nat} {td : TD κ ν} {k : κ} (h : alookup k td.items = none) (now : Nat) :
    alookup k (td.advance T now).items = none := by
  have t1 : ∀ d, alookup k (td.tick T d).items = none := by
    intro d; rw [tick_lookup]; split <;> simp [h]
  unfold advance
  split
  · exact h
  · split
    · simp only
      split
      · exact t1 _
      · split
        · rw [tick_lookup]; split <;> simp [t1]
        · exact t1 _
    · exact h

/-- Lemma A: an entry with death time `D` is still there (with the same death time) after the
timers up to any `now < D` ran, and is gone once the timers up to some `now ≥ D` ran. -/
theorem advance_deathTime {T : Nat} {td : TD κ ν} {k : κ} {D : Nat}
    (h : td.deathTime T k = some D) (now : Nat) :
    (now < D → (td.advance T now).deathTime T k = some D) ∧
    (D ≤ now → alookup k (td.advance T now).items = none) := by
  obtain ⟨v, d, hv, hd, hD⟩ := deathTime_some h
  unfold advance
  simp only [hd]
  by_cases hdue : d ≤ now
  · simp only [hdue, ↓reduceIte]
    by_cases hr : k ∈ td.recent
    · simp only [hr, ↓reduceIte] at hD
      have hl : alookup k (td.tick T d).items = some v := by rw [tick_lookup]; simp [hr, hv]
      -- the first tick keeps the entry and re-arms the timer
      have hne : (td.items.filter (fun p => decide (p.1 ∈ td.recent))).isEmpty = false := by
        have := hl
        unfold tick at this
        simp only at this
        split at this
        · simp at this
        · rename_i he; simpa using he
      have ht : td.tick T d = { items := td.items.filter (fun p => decide (p.1 ∈ td.recent)),
                                recent := [], deadline := some (d + T) } := by
        unfold tick; simp only [hne]; rfl
      rw [ht]
      simp only
      by_cases hdue1 : d + T ≤ now
      · simp only [hdue1, ↓reduceIte]
        refine ⟨fun hlt => by omega, fun _ => ?_⟩
        rw [tick_lookup]; simp
      · simp only [hdue1, ↓reduceIte]
        refine ⟨fun _ => ?_, fun hle => by omega⟩
        rw [← ht]
        unfold deathTime
        rw [hl, ht]
        simp [hD]
    · simp only [hr, ↓reduceIte] at hD
      have hl : alookup k (td.tick T d).items = none := by rw [tick_lookup]; simp [hr]
      refine ⟨fun hlt => by omega, fun _ => ?_⟩
      split
      · exact hl
      · split
        · rw [tick_lookup]; split <;> simp [hl]
        · exact hl
  · simp only [hdue, ↓reduceIte]
    have : now < D := by split at hD <;> omega
    exact ⟨fun _ => h, fun hle => by omega⟩

-- operations that do not touch `k` ----------------------------------------------------------

theorem accessed_deathTime_ne {T now : Nat} {td : TD κ ν} {k k' : κ}
    (hnone : td.deadline = none → alookup k td.items = none) (hne : k' ≠ k) :
    (td.accessed T now k').deathTime T k = td.deathTime T k := by
  unfold accessed
  cases hd : td.deadline with
  | none =>
    have := hnone hd
    simp [deathTime, this]
  | some d =>
    simp only [deathTime, hd]
    cases alookup k td.items with
    | none => rfl
    | some v => simp [Ne.symm hne]

/-- the operation proper (timers already run) -/
def applyOp (T : Nat) (td : TD κ ν) (now : Nat) (op : Op κ ν) : TD κ ν :=
  match op with
  | .get k => match td.get T now k with | some (_, td') => td' | none => td
  | .set k v => td.set T now k v
  | .del k => match td.del k with | some td' => td' | none => td
  | .mutate k v => td.mutate k v

theorem apply_eq (T : Nat) (td : TD κ ν) (now : Nat) (op : Op κ ν) :
    td.apply T now op = (td.advance T now).applyOp T now op := by
  unfold apply applyOp; cases op <;> rfl

theorem applyOp_wf {T now : Nat} {td : TD κ ν} (h : td.WF) (op : Op κ ν) :
    (td.applyOp T now op).WF := by
  cases op with
  | get k =>
    simp only [applyOp, get]
    cases alookup k td.items with
    | none => exact h
    | some v => exact accessed_wf _ _ _ _
  | set k v => exact accessed_wf _ _ _ _
  | del k =>
    simp only [applyOp, del]
    cases hl : alookup k td.items with
    | none => exact h
    | some v =>
      intro hd
      have := h hd
      simp only at hd ⊢
      simp [this, aerase]
  | mutate k v =>
    simp only [applyOp, mutate]
    cases hl : alookup k td.items with
    | none => exact h
    | some v' =>
      intro hd
      have := h hd
      rw [this] at hl; simp at hl

theorem applyOp_bounded {T now : Nat} {td : TD κ ν} (h : td.Bounded T now) (op : Op κ ν) :
    (td.applyOp T now op).Bounded T now := by
  cases op with
  | get k =>
    simp only [applyOp, get]
    cases alookup k td.items with
    | none => exact h
    | some v => exact accessed_bounded h _
  | set k v =>
    simp only [applyOp, set]
    exact accessed_bounded (td := { td with items := ainsert k v td.items }) h _
  | del k =>
    simp only [applyOp, del]
    cases alookup k td.items with
    | none => exact h
    | some v => exact h
  | mutate k v =>
    simp only [applyOp, mutate]
    cases alookup k td.items with
    | none => exact h
    | some v' => exact h

/-- Lemma B: operations on other keys change neither presence nor death time of `k` -/
theorem applyOp_other {T now : Nat} {td : TD κ ν} (hwf : td.WF) {k : κ} (op : Op κ ν)
    (hne : op.key ≠ k) :
    alookup k (td.applyOp T now op).items = alookup k td.items ∧
    (td.applyOp T now op).deathTime T k = td.deathTime T k := by
  cases op with
  | get k' =>
    simp only [Op.key] at hne
    simp only [applyOp, get]
    cases alookup k' td.items with
    | none => exact ⟨rfl, rfl⟩
    | some v =>
      exact ⟨by rw [accessed_items], accessed_deathTime_ne (fun hd => by rw [hwf hd]; rfl) hne⟩
  | set k' v =>
    simp only [Op.key] at hne
    simp only [applyOp, set]
    have hl : alookup k (ainsert k' v td.items) = alookup k td.items :=
      alookup_ainsert_ne (Ne.symm hne) _ _
    refine ⟨by rw [accessed_items]; exact hl, ?_⟩
    rw [accessed_deathTime_ne (td := { td with items := ainsert k' v td.items }) ?_ hne]
    · simp only [deathTime, hl]
    · intro hd
      simp only at hd ⊢
      rw [hl, hwf hd]; rfl
  | del k' =>
    simp only [Op.key] at hne
    simp only [applyOp, del]
    cases hl : alookup k' td.items with
    | none => exact ⟨rfl, rfl⟩
    | some v =>
      refine ⟨alookup_aerase_ne (Ne.symm hne) _, ?_⟩
      simp only [deathTime, alookup_aerase_ne (Ne.symm hne)]
  | mutate k' v =>
    simp only [Op.key] at hne
    simp only [applyOp, mutate]
    cases hl : alookup k' td.items with
    | none => exact ⟨rfl, rfl⟩
    | some v' =>
      refine ⟨alookup_ainsert_ne (Ne.symm hne) _ _, ?_⟩
      simp only [deathTime, alookup_ainsert_ne (Ne.symm hne)]

/-- Lemma C: an access at `now` (no timer due) puts the death time into `[now+T, now+2T]` -/
theorem accessed_deathTime_self {T now : Nat} {td : TD κ ν} {k : κ} {v : ν}
    (hl : alookup k td.items = some v) (hnd : ∀ d, td.deadline = some d → now ≤ d)
    (hb : td.Bounded T now) :
    ∃ D, (td.accessed T now k).deathTime T k = some D ∧ now + T ≤ D ∧ D ≤ now + 2 * T := by
  unfold accessed
  cases hd : td.deadline with
  | none =>
    refine ⟨now + T, ?_, by omega, by omega⟩
    simp [deathTime, hl]
  | some d =>
    have h1 := hnd d hd
    have h2 := hb d hd
    refine ⟨d + T, ?_, by omega, by omega⟩
    simp [deathTime, hl, hd]

/-- nondecreasing operation times, none before `t` -/
def Chain : Nat → List (Nat × Op κ ν) → Prop
  | _, [] => True
  | t, (u, _) :: r => t ≤ u ∧ Chain u r

/-- the invariant carried along operations that do not touch `k`: the entry dies at `D` -/
structure LInv (T : Nat) (td : TD κ ν) (now : Nat) (k : κ) (D : Nat) : Prop where
  wf : td.WF
  bounded : td.Bounded T now
  state : (td.deathTime T k = some D ∧ now < D) ∨ (alookup k td.items = none ∧ D ≤ now)

theorem linv_apply {T now u D : Nat} {td : TD κ ν} {k : κ} (h : LInv T td now k D) (hle : now ≤ u)
    (op : Op κ ν) (hne : op.key ≠ k) : LInv T (td.apply T u op) u k D := by
  rw [apply_eq]
  have hwf := advance_wf h.wf (T := T) u
  have hb := advance_bounded h.bounded hle
  obtain ⟨ho1, ho2⟩ := applyOp_other (T := T) (now := u) hwf op hne
  refine ⟨applyOp_wf hwf op, applyOp_bounded hb op, ?_⟩
  rw [ho1, ho2]
  rcases h.state with ⟨hd, hlt⟩ | ⟨ha, hge⟩
  · obtain ⟨h1, h2⟩ := advance_deathTime hd u
    by_cases hu : u < D
    · exact Or.inl ⟨h1 hu, hu⟩
    · exact Or.inr ⟨h2 (by omega), by omega⟩
  · exact Or.inr ⟨advance_absent ha u, by omega⟩

theorem present_of_deathTime {T : Nat} {td : TD κ ν} {k : κ} {D : Nat}
    (h : td.deathTime T k = some D) : td.present k = true := by
  obtain ⟨v, d, hv, _, _⟩ := deathTime_some h
  simp [present, hv]

/-- an entry whose death time is `D` is present at every later instant before `D` and absent
from `D` on, whatever is done to other keys in between -/
theorem lifetime_aux {T D : Nat} {k : κ} (rest : List (Nat × Op κ ν)) :
    ∀ {td : TD κ ν} {now : Nat}, LInv T td now k D → Chain now rest →
      (∀ p ∈ rest, p.2.key ≠ k) → ∀ t', (∀ p ∈ rest, p.1 ≤ t') → now ≤ t' →
      (t' < D → ((runOps T td rest).advance T t').present k = true) ∧
      (D ≤ t' → ((runOps T td rest).advance T t').present k = false) := by
  induction rest with
  | nil =>
    intro td now h _ _ t' _ hnow
    simp only [runOps]
    rcases h.state with ⟨hd, hlt⟩ | ⟨ha, hge⟩
    · obtain ⟨h1, h2⟩ := advance_deathTime hd t'
      exact ⟨fun hl => present_of_deathTime (h1 hl), fun hg => by simp [present, h2 hg]⟩
    · exact ⟨fun hl => by omega, fun _ => by simp [present, advance_absent ha t']⟩
  | cons p rest ih =>
    intro td now h hc hne t' hle hnow
    obtain ⟨u, op⟩ := p
    simp only [runOps]
    have hu : u ≤ t' := hle (u, op) (List.mem_cons_self)
    exact ih (linv_apply h hc.1 op (hne (u, op) (List.mem_cons_self))) hc.2
      (fun q hq => hne q (List.mem_cons_of_mem _ hq)) t'
      (fun q hq => hle q (List.mem_cons_of_mem _ hq)) hu

theorem runOps_append (T : Nat) (td : TD κ ν) (a b : List (Nat × Op κ ν)) :
    runOps T td (a ++ b) = runOps T (runOps T td a) b := by
  induction a generalizing td with
  | nil => rfl
  | cons p r ih => obtain ⟨u, op⟩ := p; simp [runOps, ih]

theorem apply_wf_bounded {T now u : Nat} {td : TD κ ν} (hwf : td.WF) (hb : td.Bounded T now)
    (hle : now ≤ u) (op : Op κ ν) : (td.apply T u op).WF ∧ (td.apply T u op).Bounded T u := by
  rw [apply_eq]
  exact ⟨applyOp_wf (advance_wf hwf u) op, applyOp_bounded (advance_bounded hb hle) op⟩

theorem runOps_wf_bounded {T : Nat} (ops : List (Nat × Op κ ν)) :
    ∀ {td : TD κ ν} {now : Nat}, td.WF → td.Bounded T now → Chain now ops → ∀ t,
      (∀ p ∈ ops, p.1 ≤ t) → now ≤ t → (runOps T td ops).WF ∧ (runOps T td ops).Bounded T t := by
  induction ops with
  | nil => intro td now hwf hb _ t _ hle; exact ⟨hwf, bounded_mono hb hle⟩
  | cons p r ih =>
    intro td now hwf hb hc t ht hle
    obtain ⟨u, op⟩ := p
    obtain ⟨h1, h2⟩ := apply_wf_bounded hwf hb hc.1 op
    exact ih h1 h2 hc.2 t (fun q hq => ht q (List.mem_cons_of_mem _ hq)) (ht (u, op) List.mem_cons_self)

/-- a successful access (`set`, or `get` of a present key) at `t > 0·T` starts the invariant -/
theorem linv_of_access {T t : Nat} (hT : 0 < T) {td : TD κ ν} {k : κ} (hwf : td.WF)
    (hb : td.Bounded T t) (op : Op κ ν)
    (hop : (∃ v, op = .set k v) ∨ (op = .get k ∧ (td.advance T t).present k = true)) :
    ∃ D, t + T ≤ D ∧ D ≤ t + 2 * T ∧ LInv T (td.apply T t op) t k D := by
  have hwf' := advance_wf hwf (T := T) t
  have hb' := advance_bounded hb (Nat.le_refl t)
  have hnd : ∀ d, (td.advance T t).deadline = some d → t ≤ d :=
    fun d hd => Nat.le_of_lt (advance_not_due T t td d hd)
  rw [apply_eq]
  rcases hop with ⟨v, rfl⟩ | ⟨rfl, hp⟩
  · simp only [applyOp, set]
    obtain ⟨D, hD, h1, h2⟩ := accessed_deathTime_self (T := T) (now := t) (k := k) (v := v)
      (td := { td.advance T t with items := ainsert k v (td.advance T t).items })
      (alookup_ainsert_self _ _ _) hnd hb'
    exact ⟨D, h1, h2, accessed_wf _ _ _ _,
      accessed_bounded (td := { td.advance T t with items := ainsert k v (td.advance T t).items }) hb' _,
      Or.inl ⟨hD, by omega⟩⟩
  · simp only [applyOp, get]
    cases hl : alookup k (td.advance T t).items with
    | none => simp [present, hl] at hp
    | some v =>
      obtain ⟨D, hD, h1, h2⟩ := accessed_deathTime_self (T := T) hl hnd hb'
      exact ⟨D, h1, h2, accessed_wf _ _ _ _, accessed_bounded hb' _, Or.inl ⟨hD, by omega⟩⟩

end TD
end Aiocoap.BwServer
