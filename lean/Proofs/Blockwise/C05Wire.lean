import Proofs.Blockwise.C05Client
/-! The Block1 requests the client emits against *any* response sequence form an in-order cut
of the payload (`Cut`); consequences for the reference reassembly.  The Block2 loop against any
response sequence whose same-ETag blocks are truthful slices returns the body or fails. -/
namespace Aiocoap.BwClient

/-- a request of the Block1 phase: it carries no Block2 option, or the application's size hint
`(0, False, szx)`; the requests of the Block2 loop ask for a block number ≥ 1 (`NoB1.enterB2`) -/
def isB1Phase (r : Req) : Bool :=
  match r.block2 with
  | none => true
  | some q => q.num == 0

/-- requests of the Block1 phase -/
def b1Reqs (reqs : List Req) : List Req := reqs.filter isB1Phase

theorem isB1Phase_hint (cfg : Cfg) {r : Req} (h : r.block2 = hintOpt cfg) : isB1Phase r = true := by
  unfold isB1Phase
  rw [h]
  unfold hintOpt
  cases cfg.hint2 <;> simp

@[simp] theorem isB1Phase_mk_hint (cfg : Cfg) (b1 : Option BlockOpt) (s1 : Option Nat) (pl : Bytes) :
    isB1Phase { block1 := b1, block2 := hintOpt cfg, size1 := s1, payload := pl } = true :=
  isB1Phase_hint cfg rfl

/-- phases that emit no Block1-phase request any more -/
def NoB1 : Phase → Prop
  | .b1 _ _ => False
  | .b2 _ a cur => a.payload ≠ [] ∧ isB1Phase cur = false
  | .done _ => True

/-- the requests of the Block2 loop ask for the byte offset received so far, which is not 0 -/
theorem NoB1.enterB2 (cfg : Cfg) (t : Req) (a : Asm) (ha : a.payload ≠ []) :
    NoB1 (enterB2 cfg t a) := by
  unfold BwClient.enterB2
  cases h : nextBlock2Request cfg.szx0 t a with
  | none => trivial
  | some cur =>
    simp only [nextBlock2Request] at h
    split at h
    · cases h
    · rename_i hs
      cases h
      refine ⟨ha, ?_⟩
      simp only [isB1Phase, beq_eq_false_iff_ne, ne_eq]
      intro hq
      have h0 := BlockOpt.start_eq_zero.mpr hq
      rw [BlockOpt.reducedTo_start] at h0
      have hlen : a.payload.length = 0 := by
        have hs' := Classical.not_not.mp hs
        rw [← hs']; exact h0
      exact ha (List.eq_nil_of_length_eq_zero hlen)

theorem payload_ne_nil_of_valid {b : BlockOpt} {pl : Bytes} (hm : b.more = true)
    (hv : b.okFor pl.length = true) : pl ≠ [] := by
  intro h
  have := (okFor_more hm hv).1
  rw [h] at this
  simp at this

theorem NoB1.completeBlock2 (cfg : Cfg) (t : Req) (r : Resp) : NoB1 (completeBlock2 cfg t r) := by
  cases hb : r.block2 with
  | none => rw [completeBlock2_none hb]; trivial
  | some b =>
    rw [completeBlock2_some hb]
    by_cases hst : b.start ≠ 0
    · rw [if_pos hst]; trivial
    rw [if_neg hst]
    by_cases hg : szxGrows t b = true
    · rw [if_pos hg]; trivial
    rw [if_neg hg]
    by_cases hm : b.more = true
    · by_cases hn : b.num ≠ 0
      · simp [hm, hn, NoB1]
      · by_cases hv : b.okFor r.payload.length = true
        · simp only [hm, Bool.not_true, Bool.false_eq_true, ↓reduceIte, hn, hv]
          exact NoB1.enterB2 _ _ _ (payload_ne_nil_of_valid hm hv)
        · simp [hm, hn, hv, NoB1]
    · simp [hm, NoB1]

theorem NoB1.step {cfg : Cfg} {ph : Phase} (h : NoB1 ph) (r : Resp) : NoB1 (step cfg ph r) := by
  cases ph with
  | b1 st cur => exact absurd h (by simp [NoB1])
  | done o => trivial
  | b2 t a cur =>
    cases hb : r.block2 with
    | none => rw [step_b2_none hb]; trivial
    | some b =>
      rw [step_b2_some hb]
      repeat' split
      all_goals first | trivial | exact NoB1.enterB2 _ _ _ (by simp [h.1])

theorem NoB1.go {cfg : Cfg} {ph : Phase} (h : NoB1 ph) (rs : List Resp) :
    b1Reqs (go cfg ph rs).1 = [] := by
  induction rs generalizing ph with
  | nil =>
    rw [go_nil]
    cases ph with
    | b1 st cur => exact absurd h (by simp [NoB1])
    | done o => rfl
    | b2 t a cur => simp [b1Reqs, Phase.outstanding, h.2]
  | cons r rs ih =>
    rw [go_cons]
    have := ih (h.step (cfg := cfg) r)
    cases ph with
    | b1 st cur => exact absurd h (by simp [NoB1])
    | done o => simp [b1Reqs, Phase.outstanding]
    | b2 t a cur =>
      simp only [b1Reqs] at this
      simp [b1Reqs, Phase.outstanding, h.2, this]

/-- what can follow a Block1 round: either the Block1 phase is over, or a non-final block was
sent and the loop continues from the (reduced) next state -/
theorem step_b1_cases (cfg : Cfg) (st : B1State) (cur : Req) (r : Resp) :
    NoB1 (step cfg (.b1 st cur) r) ∨
    ((sentBlock1 st cur).more = true ∧ ∃ t,
      step cfg (.b1 st cur) r = enterB1 cfg { szx := (reduceB t st.szx (advance st cur)).1,
                                               cursor := (reduceB t st.szx (advance st cur)).2 }) := by
  cases ha : r.block1 with
  | none =>
    left
    rw [step_b1_none ha]
    split
    · trivial
    · split
      · trivial
      · exact NoB1.completeBlock2 _ _ _
  | some a =>
    rw [step_b1_some ha]
    by_cases hnum : a.num ≠ (sentBlock1 st cur).num
    · left; simp [hnum, NoB1]
    · simp only [hnum, ↓reduceIte]
      by_cases hsm : (sentBlock1 st cur).more = true
      · by_cases ham : a.more = true
        · right; exact ⟨hsm, a.szx, by simp [hsm, ham]⟩
        · by_cases hsucc : isSuccessful r.code = true
          · right; exact ⟨hsm, a.szx, by simp [hsm, ham, hsucc]⟩
          · left
            simp only [hsm, ham, hsucc, Bool.false_eq_true, ↓reduceIte, Bool.not_false, Bool.not_true]
            exact NoB1.completeBlock2 _ _ _
      · left
        simp only [hsm, Bool.not_false, ↓reduceIte]
        split
        · trivial
        · exact NoB1.completeBlock2 _ _ _

/-- `reqs` cuts `p` in order starting at byte `off`, with size exponents bounded by `s` and
never growing: each request carries the Block2 option `hb` of the application's request and
`p[off, off + n)` -- `n` one block, or (BERT) a positive whole number of KiB --, is numbered
`off / size` (`size` = 1024 for BERT), starts inside `p` (or is block 0 of an EMPTY `p`: a request
with the Block1 size hint and no payload), has the more
flag iff bytes remain after it, and nothing follows a block without the more flag. -/
inductive Cut (p : Bytes) (hb : Option BlockOpt) : Nat → Nat → List Req → Prop
  | nil (off s : Nat) : Cut p hb off s []
  | whole (s : Nat) : Cut p hb 0 s [{ block1 := none, block2 := hb, size1 := none, payload := p }]
  | block {off s n : Nat} {b : BlockOpt} {sz1 : Option Nat} {rest : List Req} :
      b.szx ≤ s → b.szx ≤ 7 → BlkLen b.szx n → b.num * b.size = off →
      (off < p.length ∨ (off = 0 ∧ p.length = 0)) →
      (b.more = true ↔ off + n < p.length) →
      (b.more = false → rest = []) →
      Cut p hb (off + n) b.szx rest →
      Cut p hb off s ({ block1 := some b, block2 := hb, size1 := sz1,
                        payload := (p.drop off).take n } :: rest)

theorem Cut.weaken {p : Bytes} {off s s' : Nat} {hb : Option BlockOpt} {reqs : List Req} (h : Cut p hb off s reqs)
    (hs : s ≤ s') : Cut p hb off s' reqs := by
  cases h with
  | nil => exact Cut.nil _ _
  | whole => exact Cut.whole _
  | block h1 h2 h3 h4 h5 h6 h7 h8 => exact Cut.block (by omega) h2 h3 h4 h5 h6 h7 h8

theorem inside_off {cfg : Cfg} {st : B1State} (hinv : B1Inv cfg st) (hf : fragmented cfg st.szx = true) :
    st.cursor * unit st.szx < cfg.payload.length ∨
      (st.cursor * unit st.szx = 0 ∧ cfg.payload.length = 0) := by
  rcases hinv.inside hf with h | ⟨h0, hl⟩
  · exact Or.inl h
  · exact Or.inr ⟨by rw [h0, Nat.zero_mul], hl⟩

/-- **The Block1 requests emitted against any response sequence are an in-order cut.** -/
theorem cut_go {cfg : Cfg} {st : B1State} {cur : Req} (hinv : B1Inv cfg st)
    (hcur : nextRequest cfg st = some cur) (rs : List Resp) :
    Cut cfg.payload (hintOpt cfg) (st.cursor * unit st.szx) st.szx (b1Reqs (go cfg (.b1 st cur) rs).1) := by
  induction rs generalizing st cur with
  | nil =>
    rw [go_nil]
    rw [nextRequest_eq hinv] at hcur
    obtain ⟨_, _, _, hlen⟩ := blk_spec (mp := cfg.maxPayload) hinv.szx_le hinv.bert
    by_cases hf : fragmented cfg st.szx = true
    · simp only [hf, Bool.false_eq_true, ↓reduceIte, Option.some.injEq] at hcur
      subst hcur
      simp only [Phase.outstanding, Option.toList_some, b1Reqs, List.filter_cons, isB1Phase_mk_hint,
        ↓reduceIte, List.filter_nil]
      exact Cut.block (Nat.le_refl _) hinv.szx_le hlen rfl (inside_off hinv hf) (by simp) (fun _ => rfl)
        (Cut.nil _ _)
    · simp only [hf, Bool.false_eq_true, ↓reduceIte, Option.some.injEq] at hcur
      subst hcur
      rw [hinv.whole hf]
      simp only [Phase.outstanding, Option.toList_some, b1Reqs, List.filter_cons, isB1Phase_mk_hint,
        ↓reduceIte, List.filter_nil, Nat.zero_mul]
      exact Cut.whole _
  | cons r rs ih =>
    rw [go_cons]
    have hcur0 := hcur
    have hfacts := (b1_cur_facts hinv hcur0).2
    rw [nextRequest_eq hinv] at hcur
    obtain ⟨_, _, _, hlen⟩ := blk_spec (mp := cfg.maxPayload) hinv.szx_le hinv.bert
    have hcases := step_b1_cases cfg st cur r
    by_cases hf : fragmented cfg st.szx = true
    · simp only [hf, Bool.false_eq_true, ↓reduceIte, Option.some.injEq] at hcur
      have hsent : (sentBlock1 st cur).more
          = decide (st.cursor * unit st.szx + blk cfg.maxPayload st.szx < cfg.payload.length) := by
        rw [← hcur]; rfl
      have hnextinv : ∀ t, (sentBlock1 st cur).more = true →
          B1Inv cfg { szx := (reduceB t st.szx (advance st cur)).1,
                      cursor := (reduceB t st.szx (advance st cur)).2 } :=
        fun t hsm => B1Inv.next hinv hcur0 hsm t
      have hadv : (sentBlock1 st cur).more = true →
          advance st cur * unit st.szx = st.cursor * unit st.szx + blk cfg.maxPayload st.szx :=
        fun hsm => (hfacts hsm).2.2
      rw [hsent] at hcases hnextinv hadv
      simp only [decide_eq_true_eq] at hcases hnextinv hadv
      generalize advance st cur = adv at hcases hnextinv hadv
      subst hcur
      simp only [Phase.outstanding, Option.toList_some, b1Reqs, List.cons_append, List.nil_append,
        List.filter_cons, isB1Phase_mk_hint, ↓reduceIte]
      refine Cut.block (Nat.le_refl _) hinv.szx_le hlen rfl (inside_off hinv hf) (by simp) ?_ ?_
      · intro hm
        simp only [decide_eq_false_iff_not] at hm
        rcases hcases with h | ⟨h, _⟩
        · exact h.go (cfg := cfg) rs
        · exact absurd h hm
      · rcases hcases with h | ⟨h, t, ht⟩
        · have := h.go (cfg := cfg) rs
          simp only [b1Reqs] at this
          rw [this]; exact Cut.nil _ _
        · have hnext := hnextinv t h
          obtain ⟨cur', hc1, hc2⟩ := enterB1_of_inv hnext
          rw [ht, hc2]
          have := ih hnext hc1
          simp only [b1Reqs] at this
          rw [reduceB_offset _ hinv.szx_le, hadv h] at this
          exact this.weaken (by rw [reduceB_szx _ hinv.szx_le]; exact Nat.min_le_right _ _)
    · simp only [hf, Bool.false_eq_true, ↓reduceIte, Option.some.injEq] at hcur
      have hsent : (sentBlock1 st cur).more = false := by rw [← hcur]; rfl
      rw [hsent] at hcases
      subst hcur
      simp only [Phase.outstanding, Option.toList_some, b1Reqs, List.cons_append, List.nil_append,
        List.filter_cons, isB1Phase_mk_hint, ↓reduceIte]
      rcases hcases with h | ⟨h, _⟩
      · have := h.go (cfg := cfg) rs
        simp only [b1Reqs] at this
        rw [this, hinv.whole hf, Nat.zero_mul]
        exact Cut.whole _
      · cases h

-- consequences of `Cut` ------------------------------------------------------------------------

theorem take_append_slice (p : Bytes) (off n : Nat) :
    p.take off ++ (p.drop off).take n = p.take (off + n) := by
  rw [List.take_add]

/-- the bytes a block of a cut carries: exactly `n` of them while more follow -/
theorem slice_len {p : Bytes} {off n : Nat} (h : off + n < p.length) :
    ((p.drop off).take n).length = n := by
  rw [List.length_take, List.length_drop]; omega

/-- one round of the reference reassembly on a block of a cut -/
theorem goR_block {p : Bytes} {off n : Nat} {b : BlockOpt} {hb : Option BlockOpt} {sz1 : Option Nat}
    {rest : List Req} (hoff : off ≤ p.length) (h2 : b.szx ≤ 7) (hl : BlkLen b.szx n)
    (h3 : b.num * b.size = off) (h5 : b.more = true ↔ off + n < p.length) :
    reassemble.goR (p.take off) ({ block1 := some b, block2 := hb, size1 := sz1,
                                   payload := (p.drop off).take n } :: rest)
      = reassemble.goR (p.take (off + n)) rest := by
  have hlen : (p.take off).length = off := by rw [List.length_take]; omega
  have hnot : ¬ (b.more = true ∧ ¬ BlkLen b.szx ((p.drop off).take n).length) := by
    rintro ⟨hm, hne⟩
    apply hne
    rw [slice_len (h5.mp hm)]
    exact hl
  conv => lhs; unfold reassemble.goR
  simp only [show ¬ b.szx > 7 by omega, ↓reduceIte, hlen, h3, ne_eq, not_true_eq_false, hnot]
  rw [take_append_slice]

/-- the reference reassembly of a cut is a prefix of the payload that reaches at least to the
end of the last block -/
theorem Cut.reassemble {p : Bytes} {off s : Nat} {hb : Option BlockOpt} {reqs : List Req} (h : Cut p hb off s reqs)
    (hoff : off ≤ p.length) :
    ∃ k, reassemble.goR (p.take off) reqs = some (p.take k) ∧ off ≤ k := by
  induction h with
  | nil off s => exact ⟨off, rfl, Nat.le_refl _⟩
  | whole s => exact ⟨p.length, by simp [reassemble.goR], Nat.zero_le _⟩
  | @block off s n b sz1 rest h1 h2 hl h3 h4 h5 h6 h7 ih =>
    rw [goR_block hoff h2 hl h3 h5]
    by_cases hm : b.more = true
    · have hlt := h5.mp hm
      obtain ⟨k, hk, hle⟩ := ih (by omega)
      exact ⟨k, hk, by omega⟩
    · have : rest = [] := h6 (by simpa using hm)
      subst this
      exact ⟨off + n, by simp [reassemble.goR], by omega⟩

/-- a request that ends the upload: unfragmented, or a block without the more flag -/
def FinalReq (r : Req) : Prop := r.block1 = none ∨ ∃ b, r.block1 = some b ∧ b.more = false

/-- once the final block is among the requests, the reference reassembly is the whole payload -/
theorem Cut.reassemble_final {p : Bytes} {off s : Nat} {hb : Option BlockOpt} {reqs : List Req} (h : Cut p hb off s reqs)
    (hoff : off ≤ p.length) (hfin : ∃ r ∈ reqs, FinalReq r) :
    reassemble.goR (p.take off) reqs = some p := by
  induction h with
  | nil off s => obtain ⟨r, hr, _⟩ := hfin; cases hr
  | whole s => simp [reassemble.goR]
  | @block off s n b sz1 rest h1 h2 hl h3 h4 h5 h6 h7 ih =>
    rw [goR_block hoff h2 hl h3 h5]
    by_cases hm : b.more = true
    · have hlt := h5.mp hm
      apply ih (by omega)
      obtain ⟨r, hr, hf⟩ := hfin
      rcases List.mem_cons.mp hr with rfl | hr
      · rcases hf with hf | ⟨b', hb', hmf⟩
        · cases hf
        · simp only [Option.some.injEq] at hb'
          subst hb'
          rw [hm] at hmf; cases hmf
      · exact ⟨r, hr, hf⟩
    · have hrest : rest = [] := h6 (by simpa using hm)
      subst hrest
      have : ¬ (off + n < p.length) := fun hc => hm (h5.mpr hc)
      simp only [reassemble.goR]
      rw [List.take_of_length_le (by omega)]

/-- nothing follows the final request -/
theorem Cut.final_last {p : Bytes} {off s : Nat} {hb : Option BlockOpt} {reqs : List Req} (h : Cut p hb off s reqs) :
    ∀ (pre : List Req) (r : Req) (post : List Req), reqs = pre ++ r :: post → FinalReq r → post = [] := by
  induction h with
  | nil off s => intro pre r post he; cases pre <;> cases he
  | whole s =>
    intro pre r post he _
    cases pre with
    | nil => simp only [List.nil_append, List.cons.injEq] at he; exact he.2.symm
    | cons x pre => simp only [List.cons_append, List.cons.injEq] at he; cases pre <;> cases he.2
  | @block off s n b sz1 rest h1 h2 hl h3 h4 h5 h6 h7 ih =>
    intro pre r post he hf
    cases pre with
    | nil =>
      simp only [List.nil_append, List.cons.injEq] at he
      obtain ⟨hr, hrest⟩ := he
      subst hr
      rcases hf with hf | ⟨b', hb', hm⟩
      · cases hf
      · simp only [Option.some.injEq] at hb'
        subst hb'
        rw [← hrest]; exact h6 hm
    | cons x pre =>
      simp only [List.cons_append, List.cons.injEq] at he
      exact ih pre r post he.2 hf

/-- every Block1 request of a cut: exponent bounded, carries exactly `payload[start, start+n)` for
a block length `n` (one block, BERT: a positive whole number of KiB), the more flag is set iff
bytes remain behind the block -/
theorem Cut.each {p : Bytes} {off s : Nat} {hb : Option BlockOpt} {reqs : List Req} (h : Cut p hb off s reqs) :
    ∀ r ∈ reqs, ∀ b, r.block1 = some b →
      b.szx ≤ s ∧ b.szx ≤ 7 ∧ off ≤ b.start ∧
      (b.start < p.length ∨ (b.start = 0 ∧ p.length = 0)) ∧
      ∃ n, BlkLen b.szx n ∧ r.payload = (p.drop b.start).take n ∧
        (b.more = true ↔ b.start + n < p.length) := by
  induction h with
  | nil => intro r hr; cases hr
  | whole s => intro r hr b hb; simp at hr; subst hr; cases hb
  | @block off s n b0 sz1 rest h1 h2 hl h3 h4 h5 h6 h7 ih =>
    intro r hr b hb
    rcases List.mem_cons.mp hr with rfl | hr
    · simp only [Option.some.injEq] at hb
      subst hb
      have hst : b0.start = off := h3
      rw [hst]
      exact ⟨h1, h2, Nat.le_refl _, h4, n, hl, rfl, h5⟩
    · obtain ⟨a1, a2, a3, a4, a5⟩ := ih r hr b hb
      exact ⟨by omega, a2, by omega, a4, a5⟩

/-- size exponents never grow along a cut -/
theorem Cut.pairwise {p : Bytes} {off s : Nat} {hb : Option BlockOpt} {reqs : List Req} (h : Cut p hb off s reqs) :
    List.Pairwise (fun a b : BlockOpt => b.szx ≤ a.szx) (reqs.filterMap (·.block1)) := by
  induction h with
  | nil => simp
  | whole s => simp
  | @block off s n b0 sz1 rest h1 h2 hl h3 h4 h5 h6 h7 ih =>
    simp only [List.filterMap_cons, List.pairwise_cons]
    refine ⟨?_, ih⟩
    intro b hb
    obtain ⟨r, hr, hrb⟩ := List.mem_filterMap.mp hb
    exact (h7.each r hr b hrb).1

/-- offsets strictly increase along a cut: no block is sent twice -/
theorem Cut.starts {p : Bytes} {off s : Nat} {hb : Option BlockOpt} {reqs : List Req} (h : Cut p hb off s reqs) :
    List.Pairwise (fun a b : BlockOpt => a.start + a.size ≤ b.start) (reqs.filterMap (·.block1)) := by
  induction h with
  | nil => simp
  | whole s => simp
  | @block off s n b0 sz1 rest h1 h2 hl h3 h4 h5 h6 h7 ih =>
    simp only [List.filterMap_cons, List.pairwise_cons]
    refine ⟨?_, ih⟩
    intro b hb
    obtain ⟨r, hr, hrb⟩ := List.mem_filterMap.mp hb
    have := (h7.each r hr b hrb).2.2.1
    have hst : b0.start = off := h3
    have hun := hl.unit_le h2
    rw [hst, BlockOpt.size_unit]
    omega

-- the Block2 loop against truthful slices ----------------------------------------------------------

/-- `r` is the block of `body` its Block2 option says it is: the `n` bytes at its offset, `n`
being the block size (BERT, exponent 7: any number, the message may carry several KiB), with the
more flag set iff bytes remain behind them -/
def Truthful (body : Bytes) (r : Resp) : Prop :=
  ∃ b n, r.block2 = some b ∧ (b.szx ≠ 7 → n = b.size) ∧ r.payload = (body.drop b.start).take n ∧
    (b.more = true ↔ b.start + n < body.length)

/-- what the Block2 loop can return: the assembled body, or -- the one exemption -- exactly one
later response that came WITHOUT a Block2 option ("accepting single response"), taken alone: its
own code, ETag and payload, never combined with the blocks received before it -/
def SingleResponse (rs : List Resp) (o : Body) : Prop :=
  ∃ r ∈ rs, r.block2 = none ∧ o = bodyOf r

theorem SingleResponse.cons {rs : List Resp} {o : Body} (r : Resp) (h : SingleResponse rs o) :
    SingleResponse (r :: rs) o := by
  obtain ⟨r', hr', h1, h2⟩ := h
  exact ⟨r', List.mem_cons_of_mem _ hr', h1, h2⟩

theorem b2_ok_is_body (cfg : Cfg) (t : Req) (body : Bytes) (rs : List Resp) :
    ∀ (a : Asm) (cur : Req) (k : Nat), k ≤ body.length → a.payload = body.take k →
    (∀ r ∈ rs, r.block2.isSome = true → r.etag = a.etag → r.code = a.code → Truthful body r) →
    ∀ o, (go cfg (.b2 t a cur) rs).2 = .ok o →
      (o.payload = body ∧ o.etag = a.etag ∧ o.code = a.code) ∨ SingleResponse rs o := by
  induction rs with
  | nil => intro a cur k _ _ _ o h; simp [go] at h
  | cons r rs ih =>
    intro a cur k hk ha H o h
    rw [go_cons] at h
    simp only at h
    cases hb0 : r.block2 with
    | none =>
      rw [step_b2_none hb0] at h
      simp only [go_done, Outcome.ok.injEq] at h
      exact Or.inr ⟨r, List.mem_cons_self, hb0, h.symm⟩
    | some b =>
    have hb := hb0
    have htr := H r (List.mem_cons_self) (by rw [hb]; rfl)
    rw [step_b2_some hb] at h
    by_cases hg : szxGrows cur b = true
    · simp [hg] at h
    rw [if_neg hg] at h
    by_cases hc : r.code ≠ a.code
    · simp [hc] at h
    rw [if_neg hc] at h
    have hc' : r.code = a.code := by simpa using hc
    by_cases hv : b.okFor r.payload.length = true
    · by_cases hs : b.start ≠ a.payload.length
      · simp [hv, hs] at h
      · by_cases he : r.etag ≠ a.etag
        · simp [hv, hs, he] at h
        · have hs' : b.start = a.payload.length := by simpa using hs
          have he' : r.etag = a.etag := by simpa using he
          obtain ⟨b', n, hb', _, hpay, hmore⟩ := htr he' hc'
          rw [hb] at hb'; cases hb'
          have hlen : a.payload.length = k := by rw [ha, List.length_take]; omega
          have hnew : a.payload ++ r.payload = body.take (k + n) := by
            rw [hpay, hs', hlen, ha, take_append_slice]
          by_cases hm : b.more = true
          · simp only [hv, Bool.not_true, Bool.false_eq_true, ↓reduceIte, hs, he, hm] at h
            have hlt := hmore.mp hm
            rw [hs', hlen] at hlt
            -- enterB2: the assertion or the next round
            unfold enterB2 at h
            split at h
            · simp at h
            · rcases ih { a with payload := a.payload ++ r.payload, block2 := b } _ (k + n)
                (by omega) hnew (fun r' hr' => H r' (List.mem_cons_of_mem _ hr')) o h with h' | h'
              · exact Or.inl h'
              · exact Or.inr (h'.cons r)
          · simp only [hv, Bool.not_true, Bool.false_eq_true, ↓reduceIte, hs, he, hm,
              Bool.not_false, go_done, Outcome.ok.injEq] at h
            subst h
            refine Or.inl ⟨?_, rfl, rfl⟩
            simp only
            rw [hnew]
            apply List.take_of_length_le
            have : ¬ (b.start + n < body.length) := fun hc => hm (hmore.mpr hc)
            rw [hs', hlen] at this
            omega
    · simp [hv] at h

/-- From the first response on: the first response only has to be truthfully labelled (a first
block that does not start at offset 0 is refused, whatever its more flag); later responses are
arbitrary unless they carry a Block2 option AND the first block's ETag AND response code. The
result is the body, or exactly one later response without a Block2 option. -/
theorem completeBlock2_ok_is_body (cfg : Cfg) (t : Req) (body : Bytes) (initial : Resp)
    (rs : List Resp) (h0 : Truthful body initial)
    (H : ∀ r ∈ rs, r.block2.isSome = true → r.etag = initial.etag → r.code = initial.code →
      Truthful body r) :
    ∀ o, (go cfg (completeBlock2 cfg t initial) rs).2 = .ok o →
      (o.payload = body ∧ o.etag = initial.etag ∧ o.code = initial.code) ∨ SingleResponse rs o := by
  intro o h
  obtain ⟨b, n, hb, _, hpay, hmore⟩ := h0
  rw [completeBlock2_some hb] at h
  by_cases hst : b.start ≠ 0
  · simp [hst] at h
  rw [if_neg hst] at h
  have hst' : b.start = 0 := by simpa using hst
  have hnum : b.num = 0 := BlockOpt.start_eq_zero.mp hst'
  rw [hst', List.drop_zero] at hpay
  rw [hst', Nat.zero_add] at hmore
  by_cases hg : szxGrows t b = true
  · simp [hg] at h
  rw [if_neg hg] at h
  by_cases hm : b.more = true
  · have hlt := hmore.mp hm
    by_cases hv : b.okFor initial.payload.length = true
    · simp only [hm, Bool.not_true, Bool.false_eq_true, ↓reduceIte, hnum, ne_eq, not_true_eq_false,
        hv] at h
      unfold enterB2 at h
      split at h
      · simp at h
      · exact b2_ok_is_body cfg t body rs _ _ n (by omega) hpay H o h
    · simp [hm, hnum, hv] at h
  · simp only [hm, Bool.not_false, ↓reduceIte, go_done, Outcome.ok.injEq] at h
    subst h
    refine Or.inl ⟨?_, rfl, rfl⟩
    simp only [bodyOf]
    rw [hpay]
    apply List.take_of_length_le
    have : ¬ (n < body.length) := fun hc => hm (hmore.mpr hc)
    omega

end Aiocoap.BwClient
