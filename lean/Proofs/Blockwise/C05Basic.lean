import AiocoapModel.Blockwise.RefServer
/-! Helper lemmas for C05: block option arithmetic, `extractBlock`, the size reduction loop. -/
namespace Aiocoap.BwClient

theorem blockSize_pos (szx : Nat) : 0 < blockSize szx := Nat.two_pow_pos _

theorem blockSize_ge (szx : Nat) : 16 ≤ blockSize szx := by
  unfold blockSize
  calc 16 = 2 ^ 4 := by decide
    _ ≤ 2 ^ (szx + 4) := Nat.pow_le_pow_right (by decide) (by omega)

theorem BlockOpt.size_pos (b : BlockOpt) : 0 < b.size := Nat.two_pow_pos _

theorem BlockOpt.size_eq {b : BlockOpt} (h : b.szx ≤ 6) : b.size = blockSize b.szx := by
  unfold BlockOpt.size blockSize
  rw [Nat.min_eq_left h]

theorem BlockOpt.start_eq_zero {b : BlockOpt} : b.start = 0 ↔ b.num = 0 := by
  unfold BlockOpt.start
  have := b.size_pos
  constructor
  · intro h
    rcases Nat.mul_eq_zero.mp h with h | h
    · exact h
    · omega
  · intro h; rw [h, Nat.zero_mul]

theorem BlockOpt.size_ge (b : BlockOpt) : 16 ≤ b.size := by
  unfold BlockOpt.size
  calc 16 = 2 ^ 4 := by decide
    _ ≤ 2 ^ (min b.szx 6 + 4) := Nat.pow_le_pow_right (by decide) (by omega)

/-- `2^(a-b) * 2^(b+4) = 2^(a+4)` -/
theorem pow_split {a b : Nat} (h : b ≤ a) : 2 ^ (a - b) * 2 ^ (b + 4) = 2 ^ (a + 4) := by
  rw [← Nat.pow_add]
  congr 1
  omega

/-- a smaller block size divides a larger one -/
theorem blockSize_dvd {a b : Nat} (h : b ≤ a) : blockSize b ∣ blockSize a :=
  Nat.pow_dvd_pow 2 (by omega)

theorem blockSize_mono {a b : Nat} (h : b ≤ a) : blockSize b ≤ blockSize a :=
  Nat.pow_le_pow_right (by decide) (by omega)

/-- **`reduced_to` keeps the byte offset** (for every option value and every cap). -/
theorem BlockOpt.reducedTo_start (b : BlockOpt) (m : Nat) : (b.reducedTo m).start = b.start := by
  unfold BlockOpt.reducedTo
  by_cases h : m ≥ b.szx
  · simp [h]
  · simp only [h, ↓reduceIte, BlockOpt.start, BlockOpt.size, Nat.shiftLeft_eq]
    rw [Nat.mul_assoc]
    congr 1
    by_cases h6 : b.szx ≤ 6
    · rw [Nat.min_eq_left h6, Nat.min_eq_left (by omega : m ≤ 6)]
      exact pow_split (by omega)
    · rw [Nat.min_eq_right (by omega : 6 ≤ b.szx)]
      by_cases hm : m ≤ 6
      · rw [Nat.min_eq_left hm]; exact pow_split hm
      · rw [Nat.min_eq_right (by omega : 6 ≤ m)]
        have : 6 - m = 0 := by omega
        simp [this]

theorem BlockOpt.reducedTo_szx (b : BlockOpt) (m : Nat) : (b.reducedTo m).szx = min b.szx m := by
  unfold BlockOpt.reducedTo
  by_cases h : m ≥ b.szx
  · simp [h, Nat.min_eq_left h]
  · simp [h]; omega

theorem BlockOpt.reducedTo_more (b : BlockOpt) (m : Nat) : (b.reducedTo m).more = b.more := by
  unfold BlockOpt.reducedTo
  by_cases h : m ≥ b.szx <;> simp [h]

/-- closed form of the `while block1.size_exponent < size_exp` loop -/
theorem reduce_eq (t s c : Nat) :
    reduce t s c = if t < s then (t, c * 2 ^ (s - t)) else (s, c) := by
  induction s generalizing c with
  | zero => simp [reduce]
  | succ s ih =>
    unfold reduce
    by_cases h : t < s + 1
    · simp only [h, ↓reduceIte]
      rw [ih]
      by_cases h2 : t < s
      · simp only [h2, ↓reduceIte]
        have : s + 1 - t = (s - t) + 1 := by omega
        rw [this, Nat.pow_succ]
        congr 1
        rw [Nat.mul_assoc, Nat.mul_comm 2]
      · have : t = s := by omega
        subst this
        simp
    · simp [h]

theorem reduce_szx (t s c : Nat) : (reduce t s c).1 = min t s := by
  rw [reduce_eq]
  by_cases h : t < s <;> simp [h] <;> omega

/-- the size reduction keeps the byte offset of the cursor -/
theorem reduce_offset (t s c : Nat) :
    (reduce t s c).2 * blockSize (reduce t s c).1 = c * blockSize s := by
  rw [reduce_eq]
  by_cases h : t < s
  · simp only [h, ↓reduceIte, blockSize]
    rw [Nat.mul_assoc, pow_split (by omega)]
  · simp [h]

theorem extract_aux (p : Bytes) (n szx sz : Nat) (h : n * sz < p.length) :
    (if n * sz ≥ p.length then (none : Option (BlockOpt × Bytes))
     else
      let stop := if n * sz + sz < p.length then n * sz + sz else p.length
      some ({ num := n, more := decide (stop < p.length), szx := szx }, (p.take stop).drop (n * sz))) =
    some ({ num := n, more := decide (n * sz + sz < p.length), szx := szx },
          (p.drop (n * sz)).take sz) := by
  have h1 : ¬ (n * sz ≥ p.length) := by omega
  simp only [h1, ↓reduceIte]
  by_cases h2 : n * sz + sz < p.length
  · simp only [h2, ↓reduceIte, decide_true]
    rw [List.drop_take]
    congr 3
    omega
  · simp only [h2, ↓reduceIte, Nat.lt_irrefl, decide_false, List.take_length]
    rw [List.take_of_length_le]
    rw [List.length_drop]
    omega

/-- `_extract_block` inside the body: the block option and `payload[start:start+size]` -/
theorem extractBlock_eq {p : Bytes} {n szx : Nat} (h : n * blockSize szx < p.length) :
    extractBlock p n szx =
      some ({ num := n, more := decide (n * blockSize szx + blockSize szx < p.length), szx := szx },
            (p.drop (n * blockSize szx)).take (blockSize szx)) := by
  unfold extractBlock
  exact extract_aux p n szx (2 ^ (szx + 4)) h

theorem extractBlock_none {p : Bytes} {n szx : Nat} (h : p.length ≤ n * blockSize szx) :
    extractBlock p n szx = none := by
  unfold extractBlock
  simp only [blockSize] at h
  simp [h]

-- equations of `step` / `completeBlock2` ----------------------------------------------------

theorem step_b1_none {cfg : Cfg} {st : B1State} {cur : Req} {r : Resp} (h : r.block1 = none) :
    step cfg (.b1 st cur) r =
      if r.code == codeContinue then .done (.error .unexpectedBlock1)
      else if isSuccessful r.code && (sentBlock1 st cur).more then .done (.error .unexpectedBlock1)
      else completeBlock2 cfg cur r := by
  simp only [step, h]

/-- a response without Block1 option ends the upload phase when its code is unsuccessful (whatever
block it answers) ... -/
theorem step_b1_none_failed {cfg : Cfg} {st : B1State} {cur : Req} {r : Resp} (h : r.block1 = none)
    (hc : isSuccessful r.code = false) : step cfg (.b1 st cur) r = completeBlock2 cfg cur r := by
  rw [step_b1_none h]
  have hne : ¬ r.code = codeContinue := by
    intro he; rw [he] at hc; revert hc; decide
  simp [hne, hc]

/-- ... or when it answers the final (or only) block with another code than 2.31 -/
theorem step_b1_none_final {cfg : Cfg} {st : B1State} {cur : Req} {r : Resp} (h : r.block1 = none)
    (hc : r.code ≠ codeContinue) (hs : (sentBlock1 st cur).more = false) :
    step cfg (.b1 st cur) r = completeBlock2 cfg cur r := by
  rw [step_b1_none h]
  simp [hc, hs]

/-- 2.31 without Block1 option: protocol error -/
theorem step_b1_none_continue {cfg : Cfg} {st : B1State} {cur : Req} {r : Resp} (h : r.block1 = none)
    (hc : r.code = codeContinue) : step cfg (.b1 st cur) r = .done (.error .unexpectedBlock1) := by
  rw [step_b1_none h]
  simp [hc]

/-- a successful code without Block1 option in answer to a NON-final block: protocol error -/
theorem step_b1_none_success {cfg : Cfg} {st : B1State} {cur : Req} {r : Resp} (h : r.block1 = none)
    (hc : isSuccessful r.code = true) (hs : (sentBlock1 st cur).more = true) :
    step cfg (.b1 st cur) r = .done (.error .unexpectedBlock1) := by
  rw [step_b1_none h]
  simp [hc, hs]

theorem step_b1_some {cfg : Cfg} {st : B1State} {cur : Req} {r : Resp} {a : BlockOpt}
    (h : r.block1 = some a) :
    step cfg (.b1 st cur) r =
      if a.num ≠ (sentBlock1 st cur).num then .done (.error .unexpectedBlock1)
      else if !(sentBlock1 st cur).more then
        if a.more || r.code == codeContinue then .done (.error .unexpectedBlock1)
        else completeBlock2 cfg cur r
      else if a.more then
        enterB1 cfg { szx := (reduce a.szx st.szx (st.cursor + 1)).1,
                      cursor := (reduce a.szx st.szx (st.cursor + 1)).2 }
      else if !(isSuccessful r.code) then completeBlock2 cfg cur r
      else enterB1 cfg { szx := (reduce a.szx st.szx (st.cursor + 1)).1,
                         cursor := (reduce a.szx st.szx (st.cursor + 1)).2 } := by
  simp only [step, h]

theorem step_b2_none {cfg : Cfg} {t : Req} {a : Asm} {cur : Req} {r : Resp} (h : r.block2 = none) :
    step cfg (.b2 t a cur) r = .done (.ok (bodyOf r)) := by
  simp only [step, h]

theorem step_b2_some {cfg : Cfg} {t : Req} {a : Asm} {cur : Req} {r : Resp} {b : BlockOpt}
    (h : r.block2 = some b) :
    step cfg (.b2 t a cur) r =
      if szxGrows cur b then .done (.error .unexpectedBlock2)
      else if r.code ≠ a.code then .done (.error .unexpectedBlock2)
      else if !b.validFor r.payload.length then .done (.error .unexpectedBlock2)
      else if b.start ≠ a.payload.length then .done (.error .notImplemented)
      else if r.etag ≠ a.etag then .done (.error .resourceChanged)
      else if !b.more then .done (.ok { code := a.code, etag := a.etag, payload := a.payload ++ r.payload })
      else enterB2 cfg t { a with payload := a.payload ++ r.payload, block2 := b } := by
  simp only [step, h]

theorem completeBlock2_none {cfg : Cfg} {t : Req} {r : Resp} (h : r.block2 = none) :
    completeBlock2 cfg t r = .done (.ok (bodyOf r)) := by
  simp only [completeBlock2, h]

theorem completeBlock2_some {cfg : Cfg} {t : Req} {r : Resp} {b : BlockOpt} (h : r.block2 = some b) :
    completeBlock2 cfg t r =
      if b.start ≠ 0 then .done (.error .unexpectedBlock2)
      else if szxGrows t b then .done (.error .unexpectedBlock2)
      else if !b.more then .done (.ok (bodyOf r))
      else if b.num ≠ 0 then .done (.error .unexpectedBlock2)
      else if !b.validFor r.payload.length then .done (.error .unexpectedBlock2)
      else enterB2 cfg t { code := r.code, etag := r.etag, payload := r.payload, block2 := b } := by
  simp only [completeBlock2, h]
end Aiocoap.BwClient
