import AiocoapModel.Blockwise.RefServer
/-! Helper lemmas for C05: block option arithmetic, `extractBlock`, the size reduction loop. -/
namespace Aiocoap.BwClient

theorem blockSize_pos (szx : Nat) : 0 < blockSize szx := Nat.two_pow_pos _

theorem blockSize_ge (szx : Nat) : 16 ≤ blockSize szx := by
  unfold blockSize
  calc 16 = 2 ^ 4 := by decide
    _ ≤ 2 ^ (szx + 4) := Nat.pow_le_pow_right (by decide) (by omega)

theorem BlockOpt.size_pos (b : BlockOpt) : 0 < b.size := Nat.two_pow_pos _

/-- bytes per unit of a block number / of the Block1 cursor: `2^(szx+4)`, and 1024 for BERT -/
def unit (szx : Nat) : Nat := blockSize (min szx 6)

/-- bytes of one Block1 block cut by `_extract_block`: one block, or (BERT) as many whole KiB as
the remote's maximum payload size allows -/
def blk (mp szx : Nat) : Nat := if szx = 7 then 1024 * (mp / 1024) else blockSize szx

theorem BlockOpt.size_unit (b : BlockOpt) : b.size = unit b.szx := rfl

theorem unit_le6 {s : Nat} (h : s ≤ 6) : unit s = blockSize s := by
  unfold unit; rw [Nat.min_eq_left h]

theorem unit_seven : unit 7 = 1024 := by decide

theorem unit_pos (s : Nat) : 0 < unit s := blockSize_pos _

theorem blk_le6 {mp s : Nat} (h : s ≤ 6) : blk mp s = blockSize s := by
  unfold blk; rw [if_neg (by omega)]

theorem blk_seven (mp : Nat) : blk mp 7 = 1024 * (mp / 1024) := by
  unfold blk; rw [if_pos rfl]

/-- the block length is a positive whole number of units (for BERT: when the remote takes at
least 1 KiB) -/
theorem blk_spec {mp s : Nat} (h7 : s ≤ 7) (hb : s = 7 → 1024 ≤ mp) :
    0 < blk mp s ∧ unit s ∣ blk mp s ∧ unit s ≤ blk mp s ∧ BlkLen s (blk mp s) := by
  by_cases h : s = 7
  · subst h
    have hk : 0 < mp / 1024 := Nat.div_pos (hb rfl) (by decide)
    rw [blk_seven, unit_seven]
    refine ⟨by omega, Nat.dvd_mul_right _ _, by omega, ?_⟩
    simp only [BlkLen, ↓reduceIte]
    exact ⟨by omega, Nat.mul_mod_right _ _⟩
  · have h6 : s ≤ 6 := by omega
    rw [blk_le6 h6, unit_le6 h6]
    refine ⟨blockSize_pos _, Nat.dvd_refl _, Nat.le_refl _, ?_⟩
    simp only [BlkLen, h, ↓reduceIte]

theorem BlkLen.pos {s n : Nat} (h : BlkLen s n) : 0 < n := by
  unfold BlkLen at h
  split at h
  · exact h.1
  · rw [h]; exact blockSize_pos _

theorem BlkLen.unit_le {s n : Nat} (h : BlkLen s n) (h7 : s ≤ 7) : unit s ≤ n := by
  unfold BlkLen at h
  split at h
  · rename_i hs; subst hs; rw [unit_seven]; omega
  · rw [h, unit_le6 (by omega)]; exact Nat.le_refl _

theorem BlkLen.unit_dvd {s n : Nat} (h : BlkLen s n) (h7 : s ≤ 7) : unit s ∣ n := by
  unfold BlkLen at h
  split at h
  · rename_i hs; subst hs; rw [unit_seven]; exact Nat.dvd_of_mod_eq_zero h.2
  · rw [h, unit_le6 (by omega)]; exact Nat.dvd_refl _

/-- the code's BERT special case of `reduced_to`: capping exponent 7 to 6 keeps the number -/
theorem BlockOpt.reducedTo_bert (num : Nat) (more : Bool) :
    (BlockOpt.mk num more 7).reducedTo 6 = ⟨num, more, 6⟩ := by
  simp [BlockOpt.reducedTo]

theorem BlockOpt.size_eq {b : BlockOpt} (h : b.szx ≤ 6) : b.size = blockSize b.szx := by
  unfold BlockOpt.size blockSize
  rw [Nat.min_eq_left h]

theorem BlockOpt.start_eq_zero {b : BlockOpt} : b.start = 0 ↔ b.num = 0 := by
  unfold BlockOpt.start
  have := b.size_pos
  constructor
  · intro h
    rcases Nat.mul_eq_zero.mp h with h | h
    · exact h
    · omega
  · intro h; rw [h, Nat.zero_mul]

theorem BlockOpt.size_ge (b : BlockOpt) : 16 ≤ b.size := by
  unfold BlockOpt.size
  calc 16 = 2 ^ 4 := by decide
    _ ≤ 2 ^ (min b.szx 6 + 4) := Nat.pow_le_pow_right (by decide) (by omega)

/-- `2^(a-b) * 2^(b+4) = 2^(a+4)` -/
theorem pow_split {a b : Nat} (h : b ≤ a) : 2 ^ (a - b) * 2 ^ (b + 4) = 2 ^ (a + 4) := by
  rw [← Nat.pow_add]
  congr 1
  omega

/-- a smaller block size divides a larger one -/
theorem blockSize_dvd {a b : Nat} (h : b ≤ a) : blockSize b ∣ blockSize a :=
  Nat.pow_dvd_pow 2 (by omega)

theorem blockSize_mono {a b : Nat} (h : b ≤ a) : blockSize b ≤ blockSize a :=
  Nat.pow_le_pow_right (by decide) (by omega)

/-- **`reduced_to` keeps the byte offset** (for every option value and every cap). -/
theorem BlockOpt.reducedTo_start (b : BlockOpt) (m : Nat) : (b.reducedTo m).start = b.start := by
  unfold BlockOpt.reducedTo
  by_cases h : m ≥ b.szx
  · simp [h]
  · simp only [h, ↓reduceIte, BlockOpt.start, BlockOpt.size, Nat.shiftLeft_eq]
    rw [Nat.mul_assoc]
    congr 1
    by_cases h6 : b.szx ≤ 6
    · rw [Nat.min_eq_left h6, Nat.min_eq_left (by omega : m ≤ 6)]
      exact pow_split (by omega)
    · rw [Nat.min_eq_right (by omega : 6 ≤ b.szx)]
      by_cases hm : m ≤ 6
      · rw [Nat.min_eq_left hm]; exact pow_split hm
      · rw [Nat.min_eq_right (by omega : 6 ≤ m)]
        have : 6 - m = 0 := by omega
        simp [this]

theorem BlockOpt.reducedTo_szx (b : BlockOpt) (m : Nat) : (b.reducedTo m).szx = min b.szx m := by
  unfold BlockOpt.reducedTo
  by_cases h : m ≥ b.szx
  · simp [h, Nat.min_eq_left h]
  · simp [h]; omega

theorem BlockOpt.reducedTo_more (b : BlockOpt) (m : Nat) : (b.reducedTo m).more = b.more := by
  unfold BlockOpt.reducedTo
  by_cases h : m ≥ b.szx <;> simp [h]

/-- closed form of the `while block1.size_exponent < size_exp` loop -/
theorem reduce_eq (t s c : Nat) :
    reduce t s c = if t < s then (t, c * 2 ^ (s - t)) else (s, c) := by
  induction s generalizing c with
  | zero => simp [reduce]
  | succ s ih =>
    unfold reduce
    by_cases h : t < s + 1
    · simp only [h, ↓reduceIte]
      rw [ih]
      by_cases h2 : t < s
      · simp only [h2, ↓reduceIte]
        have : s + 1 - t = (s - t) + 1 := by omega
        rw [this, Nat.pow_succ]
        congr 1
        rw [Nat.mul_assoc, Nat.mul_comm 2]
      · have : t = s := by omega
        subst this
        simp
    · simp [h]

theorem reduce_szx (t s c : Nat) : (reduce t s c).1 = min t s := by
  rw [reduce_eq]
  by_cases h : t < s <;> simp [h] <;> omega

/-- the size reduction keeps the byte offset of the cursor -/
theorem reduce_offset (t s c : Nat) :
    (reduce t s c).2 * blockSize (reduce t s c).1 = c * blockSize s := by
  rw [reduce_eq]
  by_cases h : t < s
  · simp only [h, ↓reduceIte, blockSize]
    rw [Nat.mul_assoc, pow_split (by omega)]
  · simp [h]

theorem extract_aux (p : Bytes) (n szx st sz : Nat) (h : st < p.length ∨ (st = 0 ∧ p.length = 0)) :
    (if st ≥ p.length ∧ st > 0 then (none : Option (BlockOpt × Bytes))
     else
      let stop := if st + sz < p.length then st + sz else p.length
      some ({ num := n, more := decide (stop < p.length), szx := szx }, (p.take stop).drop st)) =
    some ({ num := n, more := decide (st + sz < p.length), szx := szx },
          (p.drop st).take sz) := by
  have h1 : ¬ (st ≥ p.length ∧ st > 0) := by omega
  simp only [h1, ↓reduceIte]
  rcases h with h | ⟨h0, hl⟩
  case inr =>
    have hp : p = [] := List.eq_nil_of_length_eq_zero hl
    subst hp
    simp
  by_cases h2 : st + sz < p.length
  · simp only [h2, ↓reduceIte, decide_true]
    rw [List.drop_take]
    congr 3
    omega
  · simp only [h2, ↓reduceIte, Nat.lt_irrefl, decide_false, List.take_length]
    rw [List.take_of_length_le]
    rw [List.length_drop]
    omega

/-- `_extract_block` inside the body: the block option and `payload[start:start+size]`, the start
counted in units, the size that of a block (BERT: all the KiB the remote takes) -/
theorem extractBlock_eq {p : Bytes} {n szx mp : Nat} (h7 : szx ≤ 7)
    (h : n * unit szx < p.length ∨ (n = 0 ∧ p.length = 0)) :
    extractBlock p n szx mp =
      some ({ num := n, more := decide (n * unit szx + blk mp szx < p.length), szx := szx },
            (p.drop (n * unit szx)).take (blk mp szx)) := by
  unfold extractBlock
  by_cases hs : szx = 7
  · subst hs
    simp only [↓reduceIte, blk_seven]
    rw [unit_seven] at *
    exact extract_aux p n 7 (n * 1024) _ (by omega)
  · have h6 : szx ≤ 6 := by omega
    simp only [hs, ↓reduceIte, blk_le6 h6]
    rw [unit_le6 h6] at *
    refine extract_aux p n szx (n * 2 ^ (szx + 4)) (2 ^ (szx + 4)) ?_
    rcases h with h | ⟨h0, hl⟩
    · exact Or.inl h
    · exact Or.inr ⟨by rw [h0, Nat.zero_mul], hl⟩

/-- closed form of the size reduction with the BERT step (the fixed code) -/
theorem reduceB_szx {t s : Nat} (c : Nat) (h7 : s ≤ 7) : (reduceB t s c).1 = min t s := by
  unfold reduceB
  by_cases h : s = 7 ∧ t < 7
  · rw [if_pos h, reduce_szx]; omega
  · rw [if_neg h, reduce_szx]

/-- **the size reduction keeps the byte offset of the cursor** -- also across the step from BERT
(exponent 7) to exponent 6, which is no halving: both count KiB (false of the unfixed code, which
doubled the cursor there) -/
theorem reduceB_offset {t s : Nat} (c : Nat) (h7 : s ≤ 7) :
    (reduceB t s c).2 * unit (reduceB t s c).1 = c * unit s := by
  unfold reduceB
  by_cases h : s = 7 ∧ t < 7
  · rw [if_pos h]
    obtain ⟨hs, ht⟩ := h
    subst hs
    have := reduce_offset t 6 c
    rw [unit_le6 (by rw [reduce_szx]; omega), this, unit_seven]
    rfl
  · rw [if_neg h]
    by_cases hs : s = 7
    · subst hs
      have ht : ¬ t < 7 := fun ht => h ⟨rfl, ht⟩
      rw [reduce_eq, if_neg ht]
    · have h6 : s ≤ 6 := by omega
      rw [unit_le6 (by rw [reduce_szx]; omega), unit_le6 h6]
      exact reduce_offset t s c

-- equations of `step` / `completeBlock2` ----------------------------------------------------

theorem step_b1_none {cfg : Cfg} {st : B1State} {cur : Req} {r : Resp} (h : r.block1 = none) :
    step cfg (.b1 st cur) r =
      if r.code == codeContinue then .done (.error .unexpectedBlock1)
      else if isSuccessful r.code && (sentBlock1 st cur).more then .done (.error .unexpectedBlock1)
      else completeBlock2 cfg cur r := by
  simp only [step, h]

/-- a response without Block1 option ends the upload phase when its code is unsuccessful (whatever
block it answers) ... -/
theorem step_b1_none_failed {cfg : Cfg} {st : B1State} {cur : Req} {r : Resp} (h : r.block1 = none)
    (hc : isSuccessful r.code = false) : step cfg (.b1 st cur) r = completeBlock2 cfg cur r := by
  rw [step_b1_none h]
  have hne : ¬ r.code = codeContinue := by
    intro he; rw [he] at hc; revert hc; decide
  simp [hne, hc]

/-- ... or when it answers the final (or only) block with another code than 2.31 -/
theorem step_b1_none_final {cfg : Cfg} {st : B1State} {cur : Req} {r : Resp} (h : r.block1 = none)
    (hc : r.code ≠ codeContinue) (hs : (sentBlock1 st cur).more = false) :
    step cfg (.b1 st cur) r = completeBlock2 cfg cur r := by
  rw [step_b1_none h]
  simp [hc, hs]

/-- 2.31 without Block1 option: protocol error -/
theorem step_b1_none_continue {cfg : Cfg} {st : B1State} {cur : Req} {r : Resp} (h : r.block1 = none)
    (hc : r.code = codeContinue) : step cfg (.b1 st cur) r = .done (.error .unexpectedBlock1) := by
  rw [step_b1_none h]
  simp [hc]

/-- a successful code without Block1 option in answer to a NON-final block: protocol error -/
theorem step_b1_none_success {cfg : Cfg} {st : B1State} {cur : Req} {r : Resp} (h : r.block1 = none)
    (hc : isSuccessful r.code = true) (hs : (sentBlock1 st cur).more = true) :
    step cfg (.b1 st cur) r = .done (.error .unexpectedBlock1) := by
  rw [step_b1_none h]
  simp [hc, hs]

theorem step_b1_some {cfg : Cfg} {st : B1State} {cur : Req} {r : Resp} {a : BlockOpt}
    (h : r.block1 = some a) :
    step cfg (.b1 st cur) r =
      if a.num ≠ (sentBlock1 st cur).num then .done (.error .unexpectedBlock1)
      else if !(sentBlock1 st cur).more then
        if a.more || r.code == codeContinue then .done (.error .unexpectedBlock1)
        else completeBlock2 cfg cur r
      else if a.more then
        enterB1 cfg { szx := (reduceB a.szx st.szx (advance st cur)).1,
                      cursor := (reduceB a.szx st.szx (advance st cur)).2 }
      else if !(isSuccessful r.code) then completeBlock2 cfg cur r
      else enterB1 cfg { szx := (reduceB a.szx st.szx (advance st cur)).1,
                         cursor := (reduceB a.szx st.szx (advance st cur)).2 } := by
  simp only [step, h]

theorem step_b2_none {cfg : Cfg} {t : Req} {a : Asm} {cur : Req} {r : Resp} (h : r.block2 = none) :
    step cfg (.b2 t a cur) r = .done (.ok (bodyOf r)) := by
  simp only [step, h]

theorem step_b2_some {cfg : Cfg} {t : Req} {a : Asm} {cur : Req} {r : Resp} {b : BlockOpt}
    (h : r.block2 = some b) :
    step cfg (.b2 t a cur) r =
      if szxGrows cur b then .done (.error .unexpectedBlock2)
      else if r.code ≠ a.code then .done (.error .unexpectedBlock2)
      else if !b.okFor r.payload.length then .done (.error .unexpectedBlock2)
      else if b.start ≠ a.payload.length then .done (.error .notImplemented)
      else if r.etag ≠ a.etag then .done (.error .resourceChanged)
      else if !b.more then .done (.ok { code := a.code, etag := a.etag, payload := a.payload ++ r.payload })
      else enterB2 cfg t { a with payload := a.payload ++ r.payload, block2 := b } := by
  simp only [step, h]

theorem completeBlock2_none {cfg : Cfg} {t : Req} {r : Resp} (h : r.block2 = none) :
    completeBlock2 cfg t r = .done (.ok (bodyOf r)) := by
  simp only [completeBlock2, h]

theorem completeBlock2_some {cfg : Cfg} {t : Req} {r : Resp} {b : BlockOpt} (h : r.block2 = some b) :
    completeBlock2 cfg t r =
      if b.start ≠ 0 then .done (.error .unexpectedBlock2)
      else if szxGrows t b then .done (.error .unexpectedBlock2)
      else if !b.more then .done (.ok (bodyOf r))
      else if b.num ≠ 0 then .done (.error .unexpectedBlock2)
      else if !b.okFor r.payload.length then .done (.error .unexpectedBlock2)
      else enterB2 cfg t { code := r.code, etag := r.etag, payload := r.payload, block2 := b } := by
  simp only [completeBlock2, h]
end Aiocoap.BwClient
