import Proofs.Render.Pipe
/-! Invariants of the request table and the per-step accounting of final responses. -/
namespace Aiocoap.Render

/-- final (`is_last`) sends among effects -/
def finalsEff (o : List Eff) : List Resp :=
  o.filterMap fun e => match e with
    | .send m true => some m
    | _ => none

/-- what the rendering coroutine's end puts on the wire side of the outer pipe -/
def finalOfRes : Res → Option Resp
  | .responds m => some (if isResponseCode m.code then m else bare500)
  | .raises e => some (excToMessage e).1
  | .raisesCancelled => some bare500
  | .pending => none

theorem finalsEff_append (a b : List Eff) : finalsEff (a ++ b) = finalsEff a ++ finalsEff b := by
  simp [finalsEff, List.filterMap_append]

theorem finalsEff_excLogs (e : Exc) : finalsEff (excToMessage e).2 = [] := by
  cases e with
  | renderable c d => simp only [excToMessage]; split <;> rfl
  | rendererRaises t => rfl
  | rendererNone => rfl
  | other t => rfl

/-- a message that is no response, added to the live pipe, is the coroutine's failure -/
theorem runDriving_responds_start (m : Resp) :
    runDriving (.responds m) .start =
      if isResponseCode m.code then (.done, [.send m true, .unregister, .cancelTask])
      else (.done, [.log .unhandled, .send bare500 true, .unregister, .cancelTask]) := by
  unfold runDriving
  by_cases h : isResponseCode m.code = true
  · simp only [h, Bool.true_or, ↓reduceIte]; rfl
  · have h' : isResponseCode m.code = false := by simpa using h
    simp only [h', Bool.false_or, Bool.false_eq_true, ↓reduceIte]
    rfl

theorem runDriving_responds_done (m : Resp) :
    runDriving (.responds m) .done = (.done, [.log .lateResponse]) := by
  unfold runDriving
  have : ReqState.done.outer.isNone = true := rfl
  simp only [this, Bool.or_true, ↓reduceIte]
  rfl

theorem runDriving_start (res : Res) :
    (runDriving res .start).1 = (if res = .pending then .start else .done) ∧
    finalsEff (runDriving res .start).2 = (finalOfRes res).toList := by
  cases res with
  | responds m =>
    rw [runDriving_responds_start]
    by_cases h : isResponseCode m.code = true
    · simp only [h, ↓reduceIte, finalOfRes]; exact ⟨rfl, rfl⟩
    · have h' : isResponseCode m.code = false := by simpa using h
      simp only [h', Bool.false_eq_true, ↓reduceIte, finalOfRes]; exact ⟨rfl, rfl⟩
  | raises e =>
    refine ⟨?_, ?_⟩
    · simp [runDriving, raise_start]
    · simp only [runDriving, raise_start, finalsEff_append, finalsEff_excLogs, finalOfRes]
      rfl
  | raisesCancelled => exact ⟨rfl, rfl⟩
  | pending => exact ⟨rfl, rfl⟩

/-- everything the end of a coroutine can cause on a freshly wired request -/
inductive StartEff : Eff → Prop
  | logUnhandled : StartEff (.log .unhandled)
  | logRenderer : StartEff (.log .rendererFailed)
  | send (m : Resp) : isResponseCode m.code = true → StartEff (.send m true)
  | unregister : StartEff .unregister
  | cancel : StartEff .cancelTask

theorem excToMessage_code (e : Exc) : isResponseCode (excToMessage e).1.code = true := by
  cases e with
  | renderable c d =>
    simp only [excToMessage]
    split
    · assumption
    · rfl
  | rendererRaises t => rfl
  | rendererNone => rfl
  | other t => rfl

theorem excToMessage_logs (e : Exc) :
    ∀ x ∈ (excToMessage e).2, x = .log .unhandled ∨ x = .log .rendererFailed := by
  cases e with
  | renderable c d =>
    simp only [excToMessage]
    split <;> simp
  | rendererRaises t => simp [excToMessage]
  | rendererNone => simp [excToMessage]
  | other t => simp [excToMessage]

theorem runDriving_start_effs (res : Res) : ∀ x ∈ (runDriving res .start).2, StartEff x := by
  cases res with
  | responds m =>
    rw [runDriving_responds_start]
    by_cases h : isResponseCode m.code = true
    · simp only [h, ↓reduceIte, List.mem_cons, List.not_mem_nil, or_false]
      rintro x (rfl | rfl | rfl)
      · exact .send m h
      · exact .unregister
      · exact .cancel
    · have h' : isResponseCode m.code = false := by simpa using h
      simp only [h', Bool.false_eq_true, ↓reduceIte, List.mem_cons, List.not_mem_nil, or_false]
      rintro x (rfl | rfl | rfl | rfl)
      · exact .logUnhandled
      · exact .send bare500 rfl
      · exact .unregister
      · exact .cancel
  | raises e =>
    simp only [runDriving, raise_start, List.mem_append, List.mem_cons, List.not_mem_nil, or_false]
    rintro x (hx | rfl | rfl | rfl)
    · rcases excToMessage_logs e x hx with rfl | rfl
      · exact .logUnhandled
      · exact .logRenderer
    · exact .send _ (excToMessage_code e)
    · exact .unregister
    · exact .cancel
  | raisesCancelled =>
    have : runDriving .raisesCancelled .start =
        (.done, [.log .unhandled, .send bare500 true, .unregister, .cancelTask]) := rfl
    rw [this]
    simp only [List.mem_cons, List.not_mem_nil, or_false]
    rintro x (rfl | rfl | rfl | rfl)
    · exact .logUnhandled
    · exact .send bare500 rfl
    · exact .unregister
    · exact .cancel
  | pending => simp [runDriving]

theorem runDriving_done (res : Res) :
    (runDriving res .done).1 = .done ∧ finalsEff (runDriving res .done).2 = [] := by
  cases res with
  | responds m => rw [runDriving_responds_done]; exact ⟨rfl, rfl⟩
  | raises e => simp [runDriving, raise_done, finalsEff]
  | raisesCancelled => exact ⟨rfl, rfl⟩
  | pending => exact ⟨rfl, rfl⟩

/-- no effect of a step on a `done` request reaches the peer or the tables -/
theorem runDriving_done_quiet (res : Res) :
    ∀ e ∈ (runDriving res .done).2, ∃ k, e = .log k := by
  cases res with
  | responds m => intro e he; exact ⟨.lateResponse, by simpa [runDriving_responds_done] using he⟩
  | raises x => intro e he; exact ⟨.discarded, by simpa [runDriving, raise_done] using he⟩
  | raisesCancelled => intro e he; simp [runDriving, ReqState.done] at he
  | pending => intro e he; simp [runDriving] at he

/-- the wiring of a request is always one of the two -/
def Good (e : Entry) : Prop := (e.st = .start ∧ e.finished = false) ∨ e.st = .done

def SysGood (s : Sys) : Prop :=
  ∀ i e, s.entries i = some e → Good e ∧ e.res = contextRender s.site e.req

theorem init_good (site : Option Site) : SysGood (Sys.init site) := by
  intro i e h; simp [Sys.init] at h

theorem set_entries_self (s : Sys) (i : Nat) (e : Entry) : (s.set i e).entries i = some e := by
  simp [Sys.set]

theorem set_entries_other (s : Sys) {i j : Nat} (e : Entry) (h : j ≠ i) :
    (s.set i e).entries j = s.entries j := by
  simp [Sys.set, h]

theorem set_site (s : Sys) (i : Nat) (e : Entry) : (s.set i e).site = s.site := rfl

theorem set_good {s : Sys} (h : SysGood s) (i : Nat) (e : Entry) (he : Good e)
    (hr : e.res = contextRender s.site e.req) : SysGood (s.set i e) := by
  intro j e' hj
  by_cases hji : j = i
  · subst hji
    rw [set_entries_self] at hj
    cases hj
    exact ⟨he, hr⟩
  · rw [set_entries_other s e hji] at hj
    exact h j e' hj

theorem finalsOf_append (i : Nat) (a b : List Out) :
    finalsOf i (a ++ b) = finalsOf i a ++ finalsOf i b := by
  simp [finalsOf, List.filterMap_append]

theorem finalsOf_tag (i j : Nat) (e : Entry) (o : List Eff) :
    finalsOf i (tag j e o) = if j = i then (finalsEff o).map (fun m => (e.req.token, m)) else [] := by
  induction o with
  | nil => simp [tag, finalsOf, finalsEff]
  | cons x xs ih =>
    simp only [tag, List.map_cons] at ih ⊢
    simp only [finalsOf, List.filterMap_cons] at ih ⊢
    cases x with
    | send m l =>
      cases l
      · simpa [finalsEff] using ih
      · by_cases hji : j = i
        · simp only [hji, ↓reduceIte] at ih ⊢
          simp [finalsEff, ih]
        · simp only [hji, ↓reduceIte] at ih ⊢
          simpa using ih
    | unregister => simpa [finalsEff] using ih
    | cancelTask => simpa [finalsEff] using ih
    | log k => simpa [finalsEff] using ih
    | strayTombstone => simpa [finalsEff] using ih

theorem step_site (s : Sys) (a : In) : (step s a).1.site = s.site := by
  cases a <;> simp only [step] <;> split <;> try rfl
  · split <;> rfl

theorem outerStop_good {st : ReqState} (h : st = .start ∨ st = .done) :
    (outerStop st).1 = .done ∧ finalsEff (outerStop st).2 = [] := by
  rcases h with h | h <;> subst h
  · exact ⟨rfl, rfl⟩
  · exact ⟨rfl, rfl⟩

theorem step_good {s : Sys} (h : SysGood s) (a : In) : SysGood (step s a).1 := by
  cases a with
  | deliver id req =>
    simp only [step]
    split
    · exact h
    · exact set_good h _ _ (Or.inl ⟨rfl, rfl⟩) rfl
  | complete id =>
    simp only [step]
    split
    · exact h
    · rename_i e he
      split
      · exact h
      · rename_i hcond
        have hg := h id e he
        refine set_good h _ _ ?_ hg.2
        right
        rcases hg.1 with ⟨hs, _⟩ | hs
        · have hp : e.res ≠ .pending := by
            intro hp; simp [hp] at hcond
          simp [hs, (runDriving_start e.res).1, hp]
        · simp [hs, (runDriving_done e.res).1]
  | stop id =>
    simp only [step]
    split
    · exact h
    · rename_i e he
      have hg := h id e he
      refine set_good h _ _ ?_ hg.2
      right
      have : e.st = .start ∨ e.st = .done := hg.1.elim (fun x => Or.inl x.1) Or.inr
      simp [(outerStop_good this).1]

theorem run_good {s : Sys} (h : SysGood s) (ins : List In) : SysGood (run s ins).1 := by
  induction ins generalizing s with
  | nil => exact h
  | cons a as ih => exact ih (step_good h a)

theorem run_append (s : Sys) (a b : List In) :
    run s (a ++ b) = ((run (run s a).1 b).1, (run s a).2 ++ (run (run s a).1 b).2) := by
  induction a generalizing s with
  | nil => simp [run]
  | cons x xs ih => simp [run, ih, List.append_assoc]

/-- how many final responses request `i` can still produce -/
def budget (s : Sys) (i : Nat) : Nat :=
  match s.entries i with
  | none => 1
  | some e => if e.st = .start then 1 else 0

theorem start_ne_done : ReqState.start ≠ ReqState.done := by decide

theorem step_budget {s : Sys} (h : SysGood s) (a : In) (i : Nat) :
    (finalsOf i (step s a).2).length + budget (step s a).1 i ≤ budget s i := by
  by_cases hid : a.id = i
  · cases a with
    | deliver id req =>
      simp only [In.id] at hid; subst hid
      simp only [step]
      split
      · simp [finalsOf]
      · rename_i hn
        simp [finalsOf, budget, hn, set_entries_self]
    | complete id =>
      simp only [In.id] at hid; subst hid
      simp only [step]
      split
      · simp [finalsOf]
      · rename_i e he
        split
        · simp [finalsOf]
        · have hg := (h id e he).1
          simp only [finalsOf_tag, ↓reduceIte, List.length_map, budget, set_entries_self, he]
          rcases hg with ⟨hs, _⟩ | hs
          · rw [hs]
            have h1 := runDriving_start e.res
            rw [h1.2]
            by_cases hp : e.res = .pending
            · simp only [hp, finalOfRes, Option.toList_none, List.length_nil, Nat.zero_add]
              split <;> simp
            · simp only [h1.1, hp, ↓reduceIte, start_ne_done.symm]
              cases finalOfRes e.res <;> simp
          · rw [hs]
            simp [(runDriving_done e.res).1, (runDriving_done e.res).2, start_ne_done.symm]
    | stop id =>
      simp only [In.id] at hid; subst hid
      simp only [step]
      split
      · simp [finalsOf]
      · rename_i e he
        have hg := (h id e he).1
        have hw : e.st = .start ∨ e.st = .done := hg.elim (fun x => Or.inl x.1) Or.inr
        simp [finalsOf_tag, budget, set_entries_self, (outerStop_good hw).1, (outerStop_good hw).2,
          start_ne_done.symm]
  · -- a step of another request neither produces outputs for `i` nor touches its entry
    have hne : i ≠ a.id := fun h' => hid h'.symm
    cases a with
    | deliver id req =>
      simp only [In.id] at hne
      simp only [step]
      split
      · simp [finalsOf]
      · simp [finalsOf, budget, set_entries_other _ _ hne]
    | complete id =>
      simp only [In.id] at hne hid
      simp only [step]
      split
      · simp [finalsOf]
      · split
        · simp [finalsOf]
        · simp [finalsOf_tag, hid, budget, set_entries_other _ _ hne]
    | stop id =>
      simp only [In.id] at hne hid
      simp only [step]
      split
      · simp [finalsOf]
      · simp [finalsOf_tag, hid, budget, set_entries_other _ _ hne]

theorem run_budget {s : Sys} (h : SysGood s) (ins : List In) (i : Nat) :
    (finalsOf i (run s ins).2).length + budget (run s ins).1 i ≤ budget s i := by
  induction ins generalizing s with
  | nil => simp [run, finalsOf]
  | cons a as ih =>
    simp only [run, finalsOf_append, List.length_append]
    have h1 := step_budget h a i
    have h2 := ih (step_good h a)
    omega

theorem budget_le_one (s : Sys) (i : Nat) : budget s i ≤ 1 := by
  unfold budget; split
  · exact Nat.le_refl 1
  · split <;> simp

end Aiocoap.Render
