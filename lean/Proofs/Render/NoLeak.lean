import Proofs.Render.System
/-! Non-interference: the outputs of a schedule do not depend on the texts carried by exceptions
and wrongly returned values. -/
namespace Aiocoap.Render

def Outcome.eraseText : Outcome → Outcome
  | .raisesOther _ => .raisesOther []
  | .returnsNonMessage _ => .returnsNonMessage []
  | .rendererFails b _ => .rendererFails b []
  | o => o

def Site.eraseText (s : Site) : Site :=
  { resources := s.resources.map fun pr => (pr.1, pr.2.map fun h => (h.1, h.2.eraseText)) }

def Exc.eraseText : Exc → Exc
  | .other _ => .other []
  | .rendererRaises _ => .rendererRaises []
  | e => e

def Res.eraseText : Res → Res
  | .raises e => .raises e.eraseText
  | r => r

theorem lookup_map_snd {α β γ : Type} [BEq α] (f : β → γ) (k : α) (l : List (α × β)) :
    (l.map fun p => (p.1, f p.2)).lookup k = (l.lookup k).map f := by
  induction l with
  | nil => rfl
  | cons x xs ih =>
    obtain ⟨a, b⟩ := x
    simp only [List.map_cons, List.lookup_cons]
    cases k == a <;> simp [ih]

theorem resourceRender_erase (req : Request) (r : Resource) :
    resourceRender req (r.map fun h => (h.1, h.2.eraseText)) = (resourceRender req r).eraseText := by
  unfold resourceRender
  split
  · rfl
  · rw [lookup_map_snd]
    cases r.lookup req.code with
    | none => rfl
    | some o =>
      cases o with
      | rendererFails b t => cases b <;> rfl
      | _ => rfl

theorem contextRender_erase (site : Option Site) (req : Request) :
    contextRender (site.map Site.eraseText) req = (contextRender site req).eraseText := by
  cases site with
  | none => rfl
  | some s =>
    simp only [Option.map_some, contextRender, siteRender, Site.eraseText]
    rw [lookup_map_snd]
    cases s.resources.lookup req.path with
    | none => rfl
    | some r => exact resourceRender_erase req r

theorem excToMessage_erase (e : Exc) : excToMessage e.eraseText = excToMessage e := by
  cases e <;> rfl

theorem runDriving_erase (res : Res) {st : ReqState} (h : st = .start ∨ st = .done) :
    runDriving res.eraseText st = runDriving res st := by
  cases res with
  | raises e =>
    rcases h with rfl | rfl
    · simp only [Res.eraseText, runDriving, raise_start, excToMessage_erase]
    · simp only [Res.eraseText, runDriving, raise_done]
  | _ => rfl

theorem eraseText_pending (res : Res) : (res.eraseText == Res.pending) = (res == Res.pending) := by
  cases res <;> rfl

/-- the erased system mirrors the original one -/
def Sim (s s' : Sys) : Prop :=
  s'.site = s.site.map Site.eraseText ∧
  ∀ i, match s.entries i, s'.entries i with
    | none, none => True
    | some e, some e' =>
      e'.req = e.req ∧ e'.st = e.st ∧ e'.finished = e.finished ∧ e'.res = e.res.eraseText
    | _, _ => False

theorem Sim_set {s s' : Sys} (h : Sim s s') (i : Nat) (e e' : Entry)
    (he : e'.req = e.req ∧ e'.st = e.st ∧ e'.finished = e.finished ∧ e'.res = e.res.eraseText) :
    Sim (s.set i e) (s'.set i e') := by
  refine ⟨h.1, ?_⟩
  intro j
  by_cases hj : j = i
  · subst hj; simp only [set_entries_self]; exact he
  · simp only [set_entries_other _ _ hj]; exact h.2 j

theorem step_Sim {s s' : Sys} (g : SysGood s) (h : Sim s s') (a : In) :
    Sim (step s a).1 (step s' a).1 ∧ (step s' a).2 = (step s a).2 := by
  cases a with
  | deliver id req =>
    have hi := h.2 id
    cases he : s.entries id with
    | some e =>
      cases he' : s'.entries id with
      | none => simp [he, he'] at hi
      | some e' => simp [step, he, he', h]
    | none =>
      cases he' : s'.entries id with
      | some e' => simp [he, he'] at hi
      | none =>
        simp only [step, he, he', and_true]
        apply Sim_set h
        refine ⟨rfl, rfl, rfl, ?_⟩
        show contextRender s'.site req = _
        rw [h.1, contextRender_erase]
  | complete id =>
    have hi := h.2 id
    cases he : s.entries id with
    | none =>
      cases he' : s'.entries id with
      | some e' => simp [he, he'] at hi
      | none => simp [step, he, he', h]
    | some e =>
      cases he' : s'.entries id with
      | none => simp [he, he'] at hi
      | some e' =>
        simp only [he, he'] at hi
        obtain ⟨hreq, hst, hfin, hres⟩ := hi
        have hw : e.st = .start ∨ e.st = .done := (g id e he).1.elim (fun x => Or.inl x.1) Or.inr
        simp only [step, he, he', hfin, hres, eraseText_pending, hst]
        split
        · exact ⟨h, rfl⟩
        · rw [runDriving_erase e.res hw]
          refine ⟨?_, by simp [tag, hreq]⟩
          apply Sim_set h
          exact ⟨hreq, rfl, rfl, rfl⟩
  | stop id =>
    have hi := h.2 id
    cases he : s.entries id with
    | none =>
      cases he' : s'.entries id with
      | some e' => simp [he, he'] at hi
      | none => simp [step, he, he', h]
    | some e =>
      cases he' : s'.entries id with
      | none => simp [he, he'] at hi
      | some e' =>
        simp only [he, he'] at hi
        obtain ⟨hreq, hst, hfin, hres⟩ := hi
        simp only [step, he, he', hst]
        refine ⟨?_, by simp [tag, hreq]⟩
        apply Sim_set h
        exact ⟨hreq, rfl, hfin, hres⟩

theorem run_Sim (ins : List In) :
    ∀ {s s' : Sys}, SysGood s → Sim s s' → (run s' ins).2 = (run s ins).2 := by
  induction ins with
  | nil => intro s s' _ _; rfl
  | cons a as ih =>
    intro s s' g h
    have h1 := step_Sim g h a
    simp only [run, h1.2, ih (step_good g a) h1.1]

theorem init_Sim (site : Option Site) : Sim (Sys.init site) (Sys.init (site.map Site.eraseText)) :=
  ⟨rfl, fun _ => trivial⟩

end Aiocoap.Render
