import Proofs.Render.System
/-! Steps of other requests, projection of a schedule on one request, and the decision table as a
function of the site and the request. -/
namespace Aiocoap.Render

theorem step_outs_id (s : Sys) (a : In) : ∀ o ∈ (step s a).2, o.id = a.id := by
  cases a with
  | deliver id req =>
    simp only [step]; split <;> simp
  | complete id =>
    simp only [step]; split
    · simp
    · split
      · simp
      · intro o ho
        simp only [tag, List.mem_map] at ho
        obtain ⟨_, _, rfl⟩ := ho
        rfl
  | stop id =>
    simp only [step]; split
    · simp
    · intro o ho
      simp only [tag, List.mem_map] at ho
      obtain ⟨_, _, rfl⟩ := ho
      rfl

theorem step_entries_other (s : Sys) (a : In) {j : Nat} (h : a.id ≠ j) :
    (step s a).1.entries j = s.entries j := by
  have hne : j ≠ a.id := fun h' => h h'.symm
  cases a with
  | deliver id req =>
    simp only [step]; split
    · rfl
    · exact set_entries_other _ _ hne
  | complete id =>
    simp only [step]; split
    · rfl
    · split
      · rfl
      · exact set_entries_other _ _ hne
  | stop id =>
    simp only [step]; split
    · rfl
    · exact set_entries_other _ _ hne

/-- `step` reads nothing but the site and the entry of the request the input names -/
theorem step_congr {s s' : Sys} (a : In) (hs : s.site = s'.site)
    (he : s.entries a.id = s'.entries a.id) :
    (step s a).2 = (step s' a).2 ∧ (step s a).1.entries a.id = (step s' a).1.entries a.id := by
  cases a with
  | deliver id req =>
    simp only [In.id] at he
    simp only [step, In.id, ← he, hs]
    cases h : s.entries id with
    | none => simp [set_entries_self]
    | some e => simp [he ▸ h, h]
  | complete id =>
    simp only [In.id] at he
    simp only [step, In.id, ← he]
    cases h : s.entries id with
    | none => simp [he ▸ h, h]
    | some e =>
      simp only
      split
      · simp [h, he ▸ h]
      · simp [set_entries_self]
  | stop id =>
    simp only [In.id] at he
    simp only [step, In.id, ← he]
    cases h : s.entries id with
    | none => simp [he ▸ h, h]
    | some e => simp [set_entries_self]

/-- **projection**: what a schedule does to request `j` is what its sub-schedule of inputs naming
`j` does, whatever else is interleaved -/
theorem run_project (j : Nat) (ins : List In) :
    ∀ s s' : Sys, s.site = s'.site → s.entries j = s'.entries j →
      (run s ins).2.filter (fun o => o.id = j) = (run s' (ins.filter (fun a => a.id = j))).2 ∧
      (run s ins).1.entries j = (run s' (ins.filter (fun a => a.id = j))).1.entries j := by
  induction ins with
  | nil => intro s s' _ he; simp [run, he]
  | cons a as ih =>
    intro s s' hs he
    by_cases ha : a.id = j
    · subst ha
      have hc := step_congr a hs he
      have hs' : (step s a).1.site = (step s' a).1.site := by rw [step_site, step_site, hs]
      have := ih (step s a).1 (step s' a).1 hs' hc.2
      simp only [run, List.filter_append, decide_true, List.filter_cons_of_pos]
      refine ⟨?_, this.2⟩
      rw [this.1, ← hc.1]
      congr 1
      apply List.filter_eq_self.mpr
      intro o ho
      simp [step_outs_id s a o ho]
    · have hs' : (step s a).1.site = s'.site := by rw [step_site, hs]
      have he' : (step s a).1.entries j = s'.entries j := by rw [step_entries_other s a ha, he]
      have := ih (step s a).1 s' hs' he'
      simp only [run, List.filter_append, ha, decide_false, Bool.false_eq_true, not_false_eq_true,
        List.filter_cons_of_neg]
      refine ⟨?_, this.2⟩
      rw [this.1]
      have : (step s a).2.filter (fun o => decide (o.id = j)) = [] := by
        apply List.filter_eq_nil_iff.mpr
        intro o ho
        simp [step_outs_id s a o ho, ha]
      simp [this]

/-- inputs that leave request `i` alone: they name another request, or try to deliver under a
number that is already taken -/
def Quiet (i : Nat) (a : In) : Prop := a.id ≠ i ∨ ∃ r, a = .deliver i r

theorem run_quiet {i : Nat} {e : Entry} (ins : List In) (hq : ∀ a ∈ ins, Quiet i a) :
    ∀ s : Sys, s.entries i = some e →
      (run s ins).1.entries i = some e ∧ finalsOf i (run s ins).2 = [] := by
  induction ins with
  | nil => intro s he; simp [run, he, finalsOf]
  | cons a as ih =>
    intro s he
    have hqa := hq a (List.mem_cons_self)
    have hqs : ∀ b ∈ as, Quiet i b := fun b hb => hq b (List.mem_cons_of_mem _ hb)
    have h1 : (step s a).1.entries i = some e ∧ finalsOf i (step s a).2 = [] := by
      rcases hqa with hne | ⟨r, rfl⟩
      · refine ⟨by rw [step_entries_other s a hne, he], ?_⟩
        simp only [finalsOf, List.filterMap_eq_nil_iff]
        intro o ho
        have := step_outs_id s a o ho
        cases hx : o.eff with
        | send m l => cases l <;> simp [this, hne]
        | _ => simp
      · simp [step, he, finalsOf]
    have h2 := ih hqs (step s a).1 h1.1
    simp [run, finalsOf_append, h1.2, h2]

theorem run_absent {i : Nat} (ins : List In) (hq : ∀ a ∈ ins, a.id ≠ i) :
    ∀ s : Sys, (run s ins).1.entries i = s.entries i ∧ finalsOf i (run s ins).2 = [] := by
  induction ins with
  | nil => intro s; simp [run, finalsOf]
  | cons a as ih =>
    intro s
    have hne := hq a (List.mem_cons_self)
    have h2 := ih (fun b hb => hq b (List.mem_cons_of_mem _ hb)) (step s a).1
    have h1 : finalsOf i (step s a).2 = [] := by
      simp only [finalsOf, List.filterMap_eq_nil_iff]
      intro o ho
      have := step_outs_id s a o ho
      cases hx : o.eff with
      | send m l => cases l <;> simp [this, hne]
      | _ => simp
    simp [run, finalsOf_append, h1, h2, step_entries_other s a hne]

/-- once the budget is used up nothing final comes any more -/
theorem run_spent {s : Sys} (h : SysGood s) (ins : List In) (i : Nat) (hb : budget s i = 0) :
    finalsOf i (run s ins).2 = [] := by
  have := run_budget h ins i
  rw [hb] at this
  exact List.eq_nil_of_length_eq_zero (by omega)

/-- a request whose handler never returns never gets a final response -/
theorem run_pending (ins : List In) (i : Nat) :
    ∀ s : Sys, SysGood s → (∃ e, s.entries i = some e ∧ e.res = .pending) →
      finalsOf i (run s ins).2 = [] := by
  induction ins with
  | nil => intro s _ _; simp [run, finalsOf]
  | cons a as ih =>
    intro s hg ⟨e, he, hp⟩
    have hstep : finalsOf i (step s a).2 = [] ∧
        ∃ e', (step s a).1.entries i = some e' ∧ e'.res = .pending := by
      by_cases ha : a.id = i
      · cases a with
        | deliver id req =>
          simp only [In.id] at ha; subst ha
          simp [step, he, finalsOf, hp]
        | complete id =>
          simp only [In.id] at ha; subst ha
          simp [step, he, hp, finalsOf]
        | stop id =>
          simp only [In.id] at ha; subst ha
          have hw : e.st = .start ∨ e.st = .done := (hg id e he).1.elim (fun x => Or.inl x.1) Or.inr
          simp [step, he, finalsOf_tag, (outerStop_good hw).2, set_entries_self, hp]
      · refine ⟨?_, e, by rw [step_entries_other s a ha, he], hp⟩
        simp only [finalsOf, List.filterMap_eq_nil_iff]
        intro o ho
        have := step_outs_id s a o ho
        cases hx : o.eff with
        | send m l => cases l <;> simp [this, ha]
        | _ => simp
    have := ih (step s a).1 (step_good hg a) hstep.2
    simp [run, finalsOf_append, hstep.1, this]

/-- every message the token manager is asked to send is a final one -/
theorem step_sends_final {s : Sys} (h : SysGood s) (a : In) :
    ∀ o ∈ (step s a).2, ∀ m l, o.eff = .send m l → l = true := by
  have key : ∀ (st : ReqState) (eff : List Eff) (id : Nat) (e : Entry),
      (∀ x ∈ eff, ∀ m l, x = .send m l → l = true) →
      ∀ o ∈ tag id e eff, ∀ m l, o.eff = .send m l → l = true := by
    intro _ eff id e hx o ho m l hs
    simp only [tag, List.mem_map] at ho
    obtain ⟨x, hxm, rfl⟩ := ho
    exact hx x hxm m l hs
  cases a with
  | deliver id req => simp only [step]; split <;> simp
  | complete id =>
    simp only [step]; split
    · simp
    · rename_i e he
      split
      · simp
      · apply key e.st
        intro x hx m l hxe
        rcases (h id e he).1 with ⟨hs, _⟩ | hs
        · rw [hs] at hx
          cases runDriving_start_effs e.res x hx with
          | send m' _ => simp_all
          | _ => simp at hxe
        · rw [hs] at hx
          obtain ⟨k, rfl⟩ := runDriving_done_quiet e.res x hx
          simp at hxe
  | stop id =>
    simp only [step]; split
    · simp
    · rename_i e he
      apply key e.st
      intro x hx m l hxe
      rcases (h id e he).1 with ⟨hs, _⟩ | hs
      · rw [hs, stop_start] at hx
        simp only [List.mem_cons, List.not_mem_nil, or_false] at hx
        rcases hx with rfl | rfl <;> simp at hxe
      · rw [hs, stop_done] at hx; simp at hx

theorem run_sends_final {s : Sys} (h : SysGood s) (ins : List In) :
    ∀ o ∈ (run s ins).2, ∀ m l, o.eff = .send m l → l = true := by
  induction ins generalizing s with
  | nil => simp [run]
  | cons a as ih =>
    intro o ho m l hs
    simp only [run, List.mem_append] at ho
    rcases ho with ho | ho
    · exact step_sends_final h a o ho m l hs
    · exact ih (step_good h a) o ho m l hs

/-- every message the token manager is asked to send carries a response code -/
theorem step_sends_response {s : Sys} (h : SysGood s) (a : In) :
    ∀ o ∈ (step s a).2, ∀ m l, o.eff = .send m l → isResponseCode m.code = true := by
  have key : ∀ (eff : List Eff) (id : Nat) (e : Entry),
      (∀ x ∈ eff, ∀ m l, x = .send m l → isResponseCode m.code = true) →
      ∀ o ∈ tag id e eff, ∀ m l, o.eff = .send m l → isResponseCode m.code = true := by
    intro eff id e hx o ho m l hs
    simp only [tag, List.mem_map] at ho
    obtain ⟨x, hxm, rfl⟩ := ho
    exact hx x hxm m l hs
  cases a with
  | deliver id req => simp only [step]; split <;> simp
  | complete id =>
    simp only [step]; split
    · simp
    · rename_i e he
      split
      · simp
      · apply key
        intro x hx m l hxe
        rcases (h id e he).1 with ⟨hs, _⟩ | hs
        · rw [hs] at hx
          cases runDriving_start_effs e.res x hx with
          | send m' hm' => simp only [Eff.send.injEq] at hxe; rw [← hxe.1]; exact hm'
          | _ => simp at hxe
        · rw [hs] at hx
          obtain ⟨k, rfl⟩ := runDriving_done_quiet e.res x hx
          simp at hxe
  | stop id =>
    simp only [step]; split
    · simp
    · rename_i e he
      apply key
      intro x hx m l hxe
      rcases (h id e he).1 with ⟨hs, _⟩ | hs
      · rw [hs, stop_start] at hx
        simp only [List.mem_cons, List.not_mem_nil, or_false] at hx
        rcases hx with rfl | rfl <;> simp at hxe
      · rw [hs, stop_done] at hx; simp at hx

theorem run_sends_response {s : Sys} (h : SysGood s) (ins : List In) :
    ∀ o ∈ (run s ins).2, ∀ m l, o.eff = .send m l → isResponseCode m.code = true := by
  induction ins generalizing s with
  | nil => simp [run]
  | cons a as ih =>
    intro o ho m l hs
    simp only [run, List.mem_append] at ho
    rcases ho with ho | ho
    · exact step_sends_response h a o ho m l hs
    · exact ih (step_good h a) o ho m l hs

/-- the `strayTombstone` branch and the token manager's "received an error" branch are dead -/
theorem step_no_stray {s : Sys} (h : SysGood s) (a : In) :
    ∀ o ∈ (step s a).2, o.eff ≠ .strayTombstone ∧ o.eff ≠ .log .tmGotError := by
  have key : ∀ (eff : List Eff) (id : Nat) (e : Entry),
      (∀ x ∈ eff, x ≠ .strayTombstone ∧ x ≠ .log .tmGotError) →
      ∀ o ∈ tag id e eff, o.eff ≠ .strayTombstone ∧ o.eff ≠ .log .tmGotError := by
    intro eff id e hx o ho
    simp only [tag, List.mem_map] at ho
    obtain ⟨x, hxm, rfl⟩ := ho
    exact hx x hxm
  cases a with
  | deliver id req => simp only [step]; split <;> simp
  | complete id =>
    simp only [step]; split
    · simp
    · rename_i e he
      split
      · simp
      · apply key
        intro x hx
        rcases (h id e he).1 with ⟨hs, _⟩ | hs
        · rw [hs] at hx
          cases runDriving_start_effs e.res x hx <;> simp
        · rw [hs] at hx
          cases hr : e.res with
          | responds m' => rw [hr] at hx; simp [runDriving_responds_done] at hx; simp [hx]
          | raises x' => rw [hr] at hx; simp [runDriving, raise_done] at hx; simp [hx]
          | raisesCancelled => rw [hr] at hx; simp [runDriving, ReqState.done] at hx
          | pending => rw [hr] at hx; simp [runDriving] at hx
  | stop id =>
    simp only [step]; split
    · simp
    · rename_i e he
      apply key
      intro x hx
      rcases (h id e he).1 with ⟨hs, _⟩ | hs
      · rw [hs, stop_start] at hx
        simp only [List.mem_cons, List.not_mem_nil, or_false] at hx
        rcases hx with rfl | rfl <;> simp
      · rw [hs, stop_done] at hx; simp at hx

theorem run_no_stray {s : Sys} (h : SysGood s) (ins : List In) :
    ∀ o ∈ (run s ins).2, o.eff ≠ .strayTombstone ∧ o.eff ≠ .log .tmGotError := by
  induction ins generalizing s with
  | nil => simp [run]
  | cons a as ih =>
    intro o ho
    simp only [run, List.mem_append] at ho
    rcases ho with ho | ho
    · exact step_no_stray h a o ho
    · exact ih (step_good h a) o ho


/-- the request that was delivered (first) under number `i` -/
def firstDeliver (ins : List In) (i : Nat) : Option Request :=
  ins.findSome? fun a => match a with
    | .deliver j r => if j = i then some r else none
    | _ => none

theorem run_token (ins : List In) :
    ∀ (s : Sys) (o : Out), o ∈ (run s ins).2 →
      match s.entries o.id with
      | some e => o.token = e.req.token
      | none => ∃ req, firstDeliver ins o.id = some req ∧ o.token = req.token := by
  induction ins with
  | nil => intro s o ho; simp [run] at ho
  | cons a as ih =>
    intro s o ho
    simp only [run, List.mem_append] at ho
    rcases ho with ho | ho
    · -- produced by this step: the entry exists and the output is tagged with its token
      have hid := step_outs_id s a o ho
      cases a with
      | deliver id req => simp only [step] at ho; split at ho <;> simp at ho
      | complete id =>
        simp only [In.id] at hid
        simp only [step] at ho
        split at ho
        · simp at ho
        · rename_i e he
          split at ho
          · simp at ho
          · simp only [tag, List.mem_map] at ho
            obtain ⟨_, _, rfl⟩ := ho
            simp [he]
      | stop id =>
        simp only [In.id] at hid
        simp only [step] at ho
        split at ho
        · simp at ho
        · rename_i e he
          simp only [tag, List.mem_map] at ho
          obtain ⟨_, _, rfl⟩ := ho
          simp [he]
    · have h := ih (step s a).1 o ho
      by_cases hne : a.id = o.id
      · cases a with
        | deliver id req =>
          simp only [In.id] at hne; subst hne
          cases he : s.entries o.id with
          | none =>
            have : (step s (.deliver o.id req)).1.entries o.id =
                some { req, res := contextRender s.site req, st := .start, finished := false } := by
              simp [step, he, set_entries_self]
            rw [this] at h
            simp only at h ⊢
            exact ⟨req, by simp [firstDeliver], h⟩
          | some e =>
            have : (step s (.deliver o.id req)).1.entries o.id = some e := by simp [step, he]
            rw [this] at h
            simpa using h
        | complete id =>
          simp only [In.id] at hne; subst hne
          cases he : s.entries o.id with
          | none =>
            have : (step s (.complete o.id)).1.entries o.id = none := by simp [step, he]
            rw [this] at h
            simp only at h ⊢
            obtain ⟨req, hf, ht⟩ := h
            exact ⟨req, by simpa [firstDeliver] using hf, ht⟩
          | some e =>
            simp only
            by_cases hc : (e.finished || e.res == Res.pending) = true
            · have : (step s (.complete o.id)).1.entries o.id = some e := by simp [step, he, hc]
              rw [this] at h; simpa using h
            · have : (step s (.complete o.id)).1.entries o.id =
                  some { e with st := (runDriving e.res e.st).1, finished := true } := by
                simp [step, he, hc, set_entries_self]
              rw [this] at h; simpa using h
        | stop id =>
          simp only [In.id] at hne; subst hne
          cases he : s.entries o.id with
          | none =>
            have : (step s (.stop o.id)).1.entries o.id = none := by simp [step, he]
            rw [this] at h
            simp only at h ⊢
            obtain ⟨req, hf, ht⟩ := h
            exact ⟨req, by simpa [firstDeliver] using hf, ht⟩
          | some e =>
            have : (step s (.stop o.id)).1.entries o.id = some { e with st := (outerStop e.st).1 } := by
              simp [step, he, set_entries_self]
            rw [this] at h; simpa using h
      · rw [step_entries_other s a hne] at h
        cases he : s.entries o.id with
        | some e => rw [he] at h; simpa using h
        | none =>
          rw [he] at h
          simp only at h ⊢
          obtain ⟨req, hf, ht⟩ := h
          refine ⟨req, ?_, ht⟩
          cases a with
          | deliver id r =>
            simp only [In.id] at hne
            simp [firstDeliver, hne] at hf ⊢
            exact hf
          | complete id => simpa [firstDeliver] using hf
          | stop id => simpa [firstDeliver] using hf

end Aiocoap.Render
