import Proofs.Render.Schedule
