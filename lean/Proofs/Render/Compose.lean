import AiocoapModel.MsgLayer.Model
import AiocoapModel.Render.Render
/-! Composition of the rendering model with the message-layer model: a final response put on the
pipe of incoming request `sv` is what `MsgLayer.respond … isLast = true` sends. -/
namespace Aiocoap.MsgLayer

/-- server-side request numbers in the table are below the counter -/
def SrvFresh (s : State) : Prop := ∀ i ∈ s.incoming, i.srv < s.nextSrv

/-- the table of incoming requests only shrinks and the counter is untouched -/
structure IFrame (s s' : State) : Prop where
  inc : s'.incoming.Sublist s.incoming
  nxt : s'.nextSrv = s.nextSrv

theorem IFrame.refl (s : State) : IFrame s s := ⟨List.Sublist.refl _, rfl⟩
theorem IFrame.trans {a b c : State} (h1 : IFrame a b) (h2 : IFrame b c) : IFrame a c :=
  ⟨h2.inc.trans h1.inc, h2.nxt.trans h1.nxt⟩
theorem IFrame_of_eq {s s' : State} (h1 : s'.incoming = s.incoming) (h2 : s'.nextSrv = s.nextSrv) :
    IFrame s s' := ⟨h1 ▸ List.Sublist.refl _, h2⟩

theorem SrvFresh_of_IFrame {s s' : State} (h : SrvFresh s) (f : IFrame s s') : SrvFresh s' := by
  intro i hi
  rw [f.nxt]
  exact h i (f.inc.subset hi)

theorem sendInitially_IFrame (s : State) (r : Remote) (w : Wire) (m : Monitor) (k : Nat) :
    IFrame s (sendInitially s r w m k).1 := by
  unfold sendInitially storeReply addExchange
  dsimp only
  split <;> split <;> exact IFrame_of_eq rfl rfl

theorem drainBacklog_IFrame (remote : Remote) (l : List Queued) :
    ∀ s : State, IFrame s (drainBacklog s remote l).1 := by
  induction l with
  | nil => intro s; exact IFrame_of_eq rfl rfl
  | cons qd rest ih =>
    intro s
    simp only [drainBacklog]
    have h0 : IFrame s ({ s with backlogs := setBacklog s.backlogs remote rest } : State) :=
      IFrame_of_eq rfl rfl
    have h1 := h0.trans (sendInitially_IFrame _ remote qd.msg qd.monitor qd.maxRetr)
    split
    · exact h1
    · exact h1.trans (ih _)

theorem continueBacklog_IFrame (s : State) (remote : Remote) :
    IFrame s (continueBacklog s remote).1 := by
  unfold continueBacklog
  split
  · exact IFrame.refl s
  · split
    · exact IFrame.refl s
    · exact drainBacklog_IFrame remote _ s

theorem dropIncoming_IFrame (s : State) (sv : Nat) : IFrame s (dropIncoming s sv) :=
  ⟨List.filter_sublist, rfl⟩

theorem runMonitor_IFrame (s : State) (m : Monitor) : IFrame s (runMonitor s m).1 := by
  unfold runMonitor
  cases m with
  | req r => simp only; split; exact IFrame_of_eq rfl rfl; exact IFrame.refl s
  | srv sv => simp only; split; exact dropIncoming_IFrame s sv; exact IFrame.refl s
  | none => exact IFrame.refl s

theorem tokenDispatchError_IFrame (s : State) (r : Remote) (k : ErrKind) :
    IFrame s (tokenDispatchError s r k).1 := by
  unfold tokenDispatchError
  split
  · exact IFrame.refl s
  · exact ⟨List.filter_sublist, rfl⟩

theorem processResponse_IFrame (s : State) (r : Remote) (w : Wire) :
    IFrame s (processResponse s r w).1 := by
  unfold processResponse
  simp only
  split
  · exact IFrame.refl s
  · split
    · exact IFrame_of_eq rfl rfl
    · exact IFrame.refl s

theorem removeExchange_IFrame (s : State) (remote : Remote) (w : Wire) :
    IFrame s (removeExchange s remote w).1 := by
  unfold removeExchange
  split
  · exact IFrame.refl s
  · rename_i e _
    simp only
    have h0 : IFrame s (dropExchange s remote w.mid) := IFrame_of_eq rfl rfl
    have h1 : IFrame s (if w.mtype == .rst then runMonitor (dropExchange s remote w.mid) e.monitor
        else (dropExchange s remote w.mid, [])).1 := by
      split
      · exact h0.trans (runMonitor_IFrame _ _)
      · exact h0
    exact h1.trans (continueBacklog_IFrame _ remote)

theorem dispatchOut_IFrame (s : State) (remote : Remote) (w : Wire) (mon : Monitor) (k : Nat) :
    IFrame s (dispatchOut s remote w mon k).1 := by
  unfold dispatchOut
  split
  · exact IFrame_of_eq rfl rfl
  · exact sendInitially_IFrame _ _ _ _ _

theorem sendInitially_incoming (s : State) (r : Remote) (w : Wire) (m : Monitor) (k : Nat) :
    (sendInitially s r w m k).1.incoming = s.incoming := by
  unfold sendInitially storeReply addExchange
  dsimp only
  split <;> split <;> rfl

theorem dispatchOut_incoming (s : State) (remote : Remote) (w : Wire) (mon : Monitor) (k : Nat) :
    (dispatchOut s remote w mon k).1.incoming = s.incoming := by
  unfold dispatchOut
  split
  · rfl
  · exact sendInitially_incoming _ _ _ _ _

/-- `send_message` does not touch the table of incoming requests -/
theorem sendMessage_incoming (s : State) (remote : Remote) (mc : Bool) (token : Token) (m : OutMsg)
    (wasNon : Bool) (mon : Monitor) :
    (sendMessage s remote mc token m wasNon mon).1.incoming = s.incoming ∧
    (sendMessage s remote mc token m wasNon mon).1.nextSrv = s.nextSrv := by
  unfold sendMessage
  split
  · split
    · exact ⟨sendInitially_incoming _ _ _ _ _, (sendInitially_IFrame _ _ _ _ _).nxt⟩
    · exact ⟨dispatchOut_incoming _ _ _ _ _, (dispatchOut_IFrame _ _ _ _ _).nxt⟩
  · split
    · exact ⟨rfl, rfl⟩
    · dsimp only
      split
      · exact ⟨rfl, rfl⟩
      · exact ⟨dispatchOut_incoming _ _ _ _ _, (dispatchOut_IFrame _ _ _ _ _).nxt⟩

theorem sendMessage_IFrame (s : State) (remote : Remote) (mc : Bool) (token : Token) (m : OutMsg)
    (wasNon : Bool) (mon : Monitor) : IFrame s (sendMessage s remote mc token m wasNon mon).1 :=
  IFrame_of_eq (sendMessage_incoming s remote mc token m wasNon mon).1
    (sendMessage_incoming s remote mc token m wasNon mon).2

theorem sendBare_IFrame (s : State) (remote : Remote) (t : MType) (mid : Nat) :
    IFrame s (sendBare s remote t mid).1 := sendInitially_IFrame _ _ _ _ _

/-- `process_request` keeps the numbers fresh: the new entry gets the counter's value -/
theorem tokenProcessRequest_SrvFresh {s : State} (h : SrvFresh s) (remote : Remote) (w : Wire) :
    SrvFresh (tokenProcessRequest s remote w).1 := by
  unfold tokenProcessRequest
  simp only
  split
  · rename_i i _
    intro x hx
    simp only [List.mem_append, List.mem_singleton] at hx
    rcases hx with hx | rfl
    · have := h x ((dropIncoming_IFrame s i.srv).inc.subset hx)
      show x.srv < s.nextSrv + 1
      omega
    · show s.nextSrv < s.nextSrv + 1
      omega
  · intro x hx
    simp only [List.mem_append, List.mem_singleton] at hx
    rcases hx with hx | rfl
    · have := h x hx
      show x.srv < s.nextSrv + 1
      omega
    · show s.nextSrv < s.nextSrv + 1
      omega

theorem fireEmptyAck_IFrame (s : State) (remote : Remote) (token : Token) :
    IFrame s (fireEmptyAck s remote token).1 := by
  unfold fireEmptyAck
  split
  · exact IFrame.refl s
  · exact (IFrame_of_eq (s := s) (s' := dropPiggy s remote token) rfl rfl).trans (sendBare_IFrame _ _ _ _)

theorem processRequest_SrvFresh {s : State} (h : SrvFresh s) (remote : Remote) (w : Wire) :
    SrvFresh (processRequest s remote w).1 := by
  have h0 : SrvFresh (fireEmptyAck s remote w.token).1 :=
    SrvFresh_of_IFrame h (fireEmptyAck_IFrame s remote w.token)
  unfold processRequest
  simp only
  apply tokenProcessRequest_SrvFresh
  split
  · exact h0
  · exact h0

theorem recvCode_SrvFresh {s : State} (h : SrvFresh s) (remote : Remote) (mcLocal : Bool) (w : Wire) :
    SrvFresh (recvCode s remote mcLocal w).1 := by
  have hp := processResponse_IFrame s remote w
  unfold recvCode
  split
  · exact SrvFresh_of_IFrame h (sendBare_IFrame _ _ _ _)
  · split
    · exact h
    · split
      · exact processRequest_SrvFresh h _ _
      · split
        · dsimp only
          split
          · split
            · exact SrvFresh_of_IFrame h
                (hp.trans (sendBare_IFrame (processResponse s remote w).1 remote .ack w.mid))
            · exact SrvFresh_of_IFrame h hp
          · split
            · exact SrvFresh_of_IFrame h
                (hp.trans (sendBare_IFrame (processResponse s remote w).1 remote .rst w.mid))
            · exact SrvFresh_of_IFrame h hp
        · exact h

theorem recv_SrvFresh {s : State} (h : SrvFresh s) (remote : Remote) (mcLocal : Bool) (w : Wire) :
    SrvFresh (recv s remote mcLocal w).1 := by
  unfold recv
  split
  · unfold recvDup
    split
    · split
      · exact SrvFresh_of_IFrame h (sendInitially_IFrame _ _ _ _ _)
      · exact h
    · exact h
  · dsimp only
    generalize hs0 : (if dedupable w = true then
        ({ s with recent := s.recent ++ [(⟨remote, w.mid, none, s.now + s.cfg.exchangeLifetime⟩ : Recent)] } : State)
        else s) = s0
    have e0 : IFrame s s0 := by
      rw [← hs0]; split
      · exact IFrame_of_eq rfl rfl
      · exact IFrame.refl s
    generalize hx : (if fitsReply w = true then removeExchange s0 remote w
        else (s0, [])) = x
    have h1 : IFrame s x.1 := by
      rw [← hx]
      split
      · exact e0.trans (removeExchange_IFrame s0 remote w)
      · exact e0
    exact recvCode_SrvFresh (SrvFresh_of_IFrame h h1) remote mcLocal w

theorem handle_SrvFresh {s : State} (h : SrvFresh s) (ev : Ev) : SrvFresh (handle s ev).1 := by
  cases ev with
  | submit r remote mc ob m =>
    simp only [handle, submit]
    split
    · exact h
    · have h1 : SrvFresh (registerOutgoing s r remote mc ob) := h
      have h2 := SrvFresh_of_IFrame h1
        (sendMessage_IFrame (registerOutgoing s r remote mc ob) remote mc (nextToken s) m false (.req r))
      split
      · exact SrvFresh_of_IFrame h2 (IFrame_of_eq rfl rfl)
      · exact h2
  | recv remote mcl w =>
    simp only [handle]; split
    · exact h
    · exact recv_SrvFresh h remote mcl w
  | respond sv m il =>
    simp only [handle, respond]
    split
    · exact h
    · rename_i i _
      have h2 := sendMessage_IFrame s i.remote false i.token m i.wasNon (.srv sv)
      split
      · exact SrvFresh_of_IFrame h (h2.trans (dropIncoming_IFrame _ sv))
      · exact SrvFresh_of_IFrame h h2
  | appCancel r => exact h
  | error remote =>
    simp only [handle, dispatchError]
    split
    · exact h
    · exact SrvFresh_of_IFrame h
        ((tokenDispatchError_IFrame s remote _).trans (IFrame_of_eq rfl rfl))
  | fireRetransmit remote mid =>
    simp only [handle, fireRetransmit]
    split
    · exact h
    · split
      · exact h
      · exact SrvFresh_of_IFrame h
          ((IFrame_of_eq (s := s) (s' := dropBacklog (dropExchange s remote mid) remote) rfl rfl).trans
            (tokenDispatchError_IFrame _ remote _))
  | fireEmptyAck remote token =>
    simp only [handle, fireEmptyAck]
    split
    · exact h
    · exact SrvFresh_of_IFrame h
        ((IFrame_of_eq (s := s) (s' := dropPiggy s remote token) rfl rfl).trans (sendBare_IFrame _ _ _ _))
  | fireExpire remote mid => exact h
  | shutdown =>
    simp only [handle, shutdown]
    split
    · exact h
    · intro i hi; simp at hi

theorem run_SrvFresh {s : State} (h : SrvFresh s) (es : List TEv) : SrvFresh (run s es).1 := by
  induction es generalizing s with
  | nil => exact h
  | cons e es ih =>
    simp only [run]
    apply ih
    unfold step
    exact handle_SrvFresh (s := setNow s e.time) h e.ev

theorem init_SrvFresh (cfg : Cfg) (mid token : Nat) (f : Nat → Nat) :
    SrvFresh (init cfg mid token f) := by
  intro i hi; simp [init] at hi

-- what `send_message` emits -------------------------------------------------------------------

def emptyAck (mid : Nat) : Wire :=
  { mtype := .ack, code := 0, mid, token := [], obs := none, body := 0 }

/-- `w` is response message `m` on the wire, carrying `token` -/
def Carries (w : Wire) (token : Token) (m : OutMsg) : Prop :=
  w.code = m.code ∧ w.token = token ∧ w.body = m.body ∧ w.obs = m.obs

theorem dispatchOut_out (s : State) (remote : Remote) (w : Wire) (mon : Monitor) (k : Nat) :
    ((dispatchOut s remote w mon k).2 = [.send s.now remote w]) ∨
    ((dispatchOut s remote w mon k).2 = [] ∧ w.mtype = .con ∧
       ∃ b ∈ (dispatchOut s remote w mon k).1.backlogs, b.1 = remote ∧
         (⟨w, mon, k⟩ : Queued) ∈ b.2) := by
  unfold dispatchOut
  split
  · rename_i hc
    right
    simp only [Bool.and_eq_true, beq_iff_eq] at hc
    refine ⟨rfl, hc.1, ?_⟩
    simp only [hasBacklog, List.any_eq_true, beq_iff_eq] at hc
    obtain ⟨b, hb, hbr⟩ := hc.2
    refine ⟨(b.1, b.2 ++ [⟨w, mon, k⟩]), ?_, hbr, by simp⟩
    simp only [appendBacklog, List.mem_map]
    exact ⟨b, hb, by simp [hbr]⟩
  · left; rfl

/-- the outputs of `send_message` for a response: nothing, one bare ACK (a suppressed response
using up the piggy-back opportunity), or the response itself — on the wire now or queued behind
the exchange in flight to the same remote -/
theorem sendMessage_response_out (s : State) (remote : Remote) (token : Token) (m : OutMsg)
    (wasNon : Bool) (mon : Monitor) :
    (suppressed m = true →
      (sendMessage s remote false token m wasNon mon).2.1 = [] ∨
      ∃ mid, (sendMessage s remote false token m wasNon mon).2.1 = [.send s.now remote (emptyAck mid)]) ∧
    (suppressed m = false →
      ∃ w, Carries w token m ∧
        ((sendMessage s remote false token m wasNon mon).2.1 = [.send s.now remote w] ∨
         ((sendMessage s remote false token m wasNon mon).2.1 = [] ∧
          ∃ b ∈ (sendMessage s remote false token m wasNon mon).1.backlogs, b.1 = remote ∧
            ∃ qd ∈ b.2, qd.msg = w))) := by
  constructor
  · intro hs
    unfold sendMessage
    split
    · rename_i p _
      simp only [hs, ↓reduceIte]
      right
      exact ⟨p.mid, rfl⟩
    · simp only [hs, ↓reduceIte]
      left; trivial
  · intro hs
    unfold sendMessage
    split
    · rename_i p _
      simp only [hs, Bool.false_eq_true, ↓reduceIte]
      refine ⟨{ mtype := .ack, code := m.code, mid := p.mid, token, obs := m.obs, body := m.body },
        ⟨rfl, rfl, rfl, rfl⟩, ?_⟩
      rcases dispatchOut_out (dropPiggy s remote token) remote
        { mtype := .ack, code := m.code, mid := p.mid, token, obs := m.obs, body := m.body } mon m.maxRetr
        with h | ⟨h, _, b, hb, hbr, hq⟩
      · left; rw [h]; rfl
      · right; exact ⟨h, b, hb, hbr, _, hq, rfl⟩
    · simp only [hs, Bool.false_eq_true, ↓reduceIte]
      have hmc : (chooseType s false wasNon m == MType.con && false) = false := by simp
      simp only [hmc, Bool.false_eq_true, ↓reduceIte]
      refine ⟨{ mtype := chooseType s false wasNon m, code := m.code, mid := (takeMid s).1, token,
                obs := m.obs, body := m.body }, ⟨rfl, rfl, rfl, rfl⟩, ?_⟩
      rcases dispatchOut_out (takeMid s).2 remote
        { mtype := chooseType s false wasNon m, code := m.code, mid := (takeMid s).1, token,
          obs := m.obs, body := m.body } mon m.maxRetr
        with h | ⟨h, _, b, hb, hbr, hq⟩
      · left; rw [h]; rfl
      · right; exact ⟨h, b, hb, hbr, _, hq, rfl⟩

theorem find_dropIncoming (s : State) (sv : Nat) :
    (dropIncoming s sv).incoming.find? (fun i => i.srv == sv) = none := by
  simp only [dropIncoming, List.find?_eq_none, List.mem_filter]
  intro x hx
  simpa using hx.2

end Aiocoap.MsgLayer
