import AiocoapModel.Render.Render
/-! The two reachable wirings of a request (`start`, `done`) and what every operation does on
them. -/
namespace Aiocoap.Render

theorem start_eq : ReqState.start =
    { outer := some [(.tmSend, true), (.tmOnEnd, false), (.e2mRemove, false)],
      inner := some [(.e2mEvent, true), (.taskCancel, false)],
      registered := true, cancelRequested := false } := by
  rfl

/-- none of the three `on_interest_end` registrations of the wiring fires at registration time -/
theorem start_no_immediate_call :
    (onInterestEnd (onEvent (some []) PCb.tmSend true) PCb.tmOnEnd).2 = false ∧
    (onInterestEnd (onInterestEnd (onEvent (some []) PCb.tmSend true) PCb.tmOnEnd).1 PCb.e2mRemove).2 = false ∧
    (onInterestEnd (onEvent (some []) ECb.e2mEvent true) ECb.taskCancel).2 = false := by
  decide

theorem respond_start (m : Resp) :
    outerAddEvent (.message m true) .start = (.done, [.send m true, .unregister, .cancelTask]) := by
  rfl

theorem raise_start (e : Exc) :
    innerAddEvent (.exception e) .start =
      (.done, (excToMessage e).2 ++ [.send (excToMessage e).1 true, .unregister, .cancelTask]) := by
  cases e <;> rfl

theorem stop_start : outerStop .start = (.done, [.unregister, .cancelTask]) := by
  rfl

theorem respond_done (m : Resp) (l : Bool) :
    outerAddEvent (.message m l) .done = (.done, [.log .lateResponse]) := by
  rfl

theorem raise_done (e : Exc) :
    innerAddEvent (.exception e) .done = (.done, [.log .discarded]) := by
  rfl

theorem stop_done : outerStop .done = (.done, []) := by
  rfl

end Aiocoap.Render
