import AiocoapModel.Render.Tcp
import Proofs.Tcp.Frame
import Proofs.Codec.Bytes
/-! A final response handed to the TCP token interface is written as exactly one RFC 8323 frame
(or not at all when No-Response suppresses it). -/
namespace Aiocoap.Render

theorem noResponseOf_toTcpMsg (token : Bytes) (m : Resp) :
    Tcp.noResponseOf (toTcpMsg token m).opts = m.noResponse.getD 0 := by
  unfold toTcpMsg
  cases m.noResponse with
  | none => rfl
  | some n => simp [Tcp.noResponseOf, beToNat_natToMinBE]

theorem filter_toTcpMsg (token : Bytes) (m : Resp) :
    (toTcpMsg token m).opts.filter (fun o => o.num != 258) = [] := by
  unfold toTcpMsg
  cases m.noResponse <;> simp

theorem serialize_plain (code : Nat) (token payload : Bytes) (htok : token.length ≤ 8)
    (hlen : payload.length < 4294967296) :
    ∃ b, Tcp.serialize { code, token, opts := [], payload } = some b := by
  unfold Tcp.serialize
  simp only [Tcp.encodeOpts, List.nil_append]
  have ht : ¬ token.length > 8 := by omega
  simp only [ht, ↓reduceIte]
  unfold Tcp.frameBytes
  have hb : (Tcp.payloadPart payload).length ≤ payload.length + 1 := by
    unfold Tcp.payloadPart; split <;> simp
  cases he : Tcp.encodeLength (Tcp.payloadPart payload).length with
  | some r => exact ⟨_, rfl⟩
  | none =>
    exfalso
    unfold Tcp.encodeLength at he
    split at he
    · simp at he
    · split at he
      · simp at he
      · split at he
        · simp at he
        · split at he
          · simp at he
          · omega

theorem tcpSend_final (token : Bytes) (m : Resp)
    (hcode : 64 ≤ m.code ∧ m.code < 192) (htok : token.length ≤ 8)
    (hlen : m.payload.length < 4294967296) :
    (((m.noResponse.getD 0).testBit (m.code / 32 - 1) = true → tcpSend token m = []) ∧
     ((m.noResponse.getD 0).testBit (m.code / 32 - 1) = false →
        ∃ b, tcpSend token m = [.write b] ∧
          Tcp.Rfc8323.Message b { code := m.code, token, opts := [], payload := m.payload })) := by
  have hc : 64 ≤ (toTcpMsg token m).code ∧ (toTcpMsg token m).code < 192 := hcode
  constructor
  · intro hbit
    unfold tcpSend Tcp.poolSend
    rw [if_pos hc, noResponseOf_toTcpMsg]
    simp only [show (toTcpMsg token m).code = m.code from rfl, hbit, ↓reduceIte]
  · intro hbit
    obtain ⟨b, hb⟩ := serialize_plain m.code token m.payload htok hlen
    refine ⟨b, ?_, Tcp.serialize_message hb⟩
    unfold tcpSend Tcp.poolSend
    rw [if_pos hc, noResponseOf_toTcpMsg]
    simp only [show (toTcpMsg token m).code = m.code from rfl, hbit, Bool.false_eq_true, ↓reduceIte]
    rw [filter_toTcpMsg]
    show Tcp.sendMessage { code := m.code, token, opts := [], payload := m.payload } = _
    unfold Tcp.sendMessage
    rw [hb]

end Aiocoap.Render
