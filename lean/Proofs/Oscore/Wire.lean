import AiocoapModel.Oscore.Wire
import Proofs.Oscore.ReplayWindow
/-!
Helper lemmas about `unprotectWire`: whatever the (unauthenticated) outer code is, one call of
`unprotect` is exactly one of

* the request flow `Aiocoap.Oscore.unprotect` (outer code FETCH or POST, partial IV present),
* the response flow `unprotectResponse` (outer code of class 2.xx-5.xx),
* a refusal that leaves the context untouched (every other code, or a non-response without
  partial IV).
-/
namespace Aiocoap.Oscore

theorem codeStyleOk_spec {c : Nat} (h : codeStyleOk c = true) :
    codeIsRequest c = true ∧ codeIsResponse c = false := by
  simp only [codeStyleOk, codeFETCH, codePOST, Bool.or_eq_true, beq_iff_eq] at h
  rcases h with h | h <;> subst h <;> decide

theorem codeIsResponse_not_request {c : Nat} (h : codeIsResponse c = true) :
    codeIsRequest c = false := by
  simp only [codeIsResponse, codeIsRequest, Bool.and_eq_true, decide_eq_true_eq] at h ⊢
  simp only [Bool.and_eq_false_imp, decide_eq_true_eq, decide_eq_false_iff_not]
  omega

/-- what the message is processed as -/
def classify (m : WireMsg) : Option Msg :=
  if codeIsResponse m.code then some (.resp { seq := m.piv, authentic := m.asResponse })
  else match m.piv with
    | some n =>
      if codeStyleOk m.code && m.kid then some (.req { seq := n, authentic := m.asRequest, echo := m.echo })
      else none
    | none => none

theorem unprotectWire_response (c : Ctx) (m : WireMsg) (h : codeIsResponse m.code = true) :
    unprotectWire c m =
      ((unprotectResponse c { seq := m.piv, authentic := m.asResponse }).1,
       .plain (unprotectResponse c { seq := m.piv, authentic := m.asResponse }).2) := by
  have hq := codeIsResponse_not_request h
  obtain ⟨size, win, er⟩ := c
  unfold unprotectWire unprotectResponse
  cases hp : m.piv with
  | none => cases ha : m.asResponse <;> cases win <;> cases er <;> simp [h]
  | some n =>
    cases ha : m.asResponse <;> cases win <;> cases er <;> simp [h, hq]

theorem unprotectWire_request (c : Ctx) (m : WireMsg) (n : Nat) (hp : m.piv = some n)
    (h : codeStyleOk m.code = true) (hk : m.kid = true) :
    unprotectWire c m =
      ((unprotect c { seq := n, authentic := m.asRequest, echo := m.echo }).1,
       .plain (unprotect c { seq := n, authentic := m.asRequest, echo := m.echo }).2) := by
  obtain ⟨hq, hr⟩ := codeStyleOk_spec h
  obtain ⟨size, win, er⟩ := c
  unfold unprotectWire unprotect
  simp only [hp, hr, h, hq, hk]
  cases win with
  | none =>
    cases er with
    | none => simp
    | some e =>
      cases ha : m.asRequest with
      | false => simp
      | true =>
        by_cases hec : (m.echo == some e) = true
        · simp [hec]
        · simp [hec]
  | some w =>
    cases hv : w.isValid n with
    | false =>
      cases er <;> cases ha : m.asRequest <;> simp [hv]
    | true =>
      obtain ⟨w', hst⟩ := RW.strikeOut_isSome hv
      cases ha : m.asRequest with
      | false => cases er <;> simp [hv]
      | true => cases er <;> simp [hv, hst]

theorem unprotectWire_other (c : Ctx) (m : WireMsg) (hr : codeIsResponse m.code = false)
    (h : m.piv = none ∨ codeStyleOk m.code = false ∨ m.kid = false) :
    (unprotectWire c m).1 = c ∧ (unprotectWire c m).2 ≠ .plain .accepted := by
  unfold unprotectWire
  cases hs : codeStyleOk m.code with
  | false => simp [hr]
  | true =>
    cases hk : m.kid with
    | false => simp [hr]
    | true =>
      cases hp : m.piv with
      | none => simp [hr]
      | some n =>
        rcases h with h | h | h
        · rw [hp] at h; cases h
        · rw [hs] at h; cases h
        · rw [hk] at h; cases h

/-- the classification is exhaustive and exact -/
theorem unprotectWire_classify (c : Ctx) (m : WireMsg) :
    (∃ msg, classify m = some msg ∧
      unprotectWire c m = ((stepMsg c msg).1, .plain (stepMsg c msg).2)) ∨
    (classify m = none ∧ (unprotectWire c m).1 = c ∧ (unprotectWire c m).2 ≠ .plain .accepted) := by
  unfold classify
  cases hr : codeIsResponse m.code with
  | true =>
    left
    exact ⟨.resp { seq := m.piv, authentic := m.asResponse }, by simp,
      by simpa [stepMsg] using unprotectWire_response c m hr⟩
  | false =>
    cases hp : m.piv with
    | none =>
      right
      exact ⟨by simp, unprotectWire_other c m hr (Or.inl hp)⟩
    | some n =>
      cases hs : codeStyleOk m.code with
      | true =>
        cases hk : m.kid with
        | true =>
          left
          exact ⟨.req { seq := n, authentic := m.asRequest, echo := m.echo }, by simp,
            by simpa [stepMsg] using unprotectWire_request c m n hp hs hk⟩
        | false =>
          right
          exact ⟨by simp, unprotectWire_other c m hr (Or.inr (Or.inr hk))⟩
      | false =>
        right
        exact ⟨by simp, unprotectWire_other c m hr (Or.inr (Or.inl hs))⟩

end Aiocoap.Oscore
