import AiocoapModel.Oscore.ReplayWindow
/-! Helper lemmas about the replay-window model. -/
namespace Aiocoap.Oscore

theorem shr_mod2 (bf k : Nat) : ((bf >>> k) % 2 == 0) = !bf.testBit k := by
  rw [Nat.testBit_eq_decide_div_mod_eq, Nat.shiftRight_eq_div_pow]
  by_cases h : bf / 2 ^ k % 2 = 1 <;> simp [h]
  omega

theorem one_testBit (j : Nat) : Nat.testBit 1 j = decide (j = 0) := by
  cases j <;> simp [Nat.testBit_succ]

/-- `isValid` in terms of `testBit` -/
theorem RW.isValid_eq (w : RW) (n : Nat) :
    w.isValid n = if n < w.index then false
      else if n ≥ w.index + w.size then true
      else !w.bitfield.testBit (n - w.index) := by
  unfold RW.isValid; rw [shr_mod2]

/-- Closed form of a successful strike. -/
theorem RW.strikeOut_some {w w' : RW} {n : Nat} (h : w.strikeOut n = some w') :
    w.isValid n = true ∧
    w'.size = w.size ∧
    w'.index = w.index + (n + 1 - (w.index + w.size)) ∧
    w'.bitfield = (w.bitfield >>> (n + 1 - (w.index + w.size))) ||| (1 <<< (n - w'.index)) := by
  unfold RW.strikeOut at h
  by_cases hv : w.isValid n = true
  · simp only [hv, Bool.not_true, Bool.false_eq_true, ↓reduceIte, Option.some.injEq] at h
    subst h
    by_cases ho : n + 1 - (w.index + w.size) > 0
    · simp [ho, hv]
    · have : n + 1 - (w.index + w.size) = 0 := by omega
      simp [this, hv]
  · simp [hv] at h

theorem RW.strikeOut_isSome {w : RW} {n : Nat} (h : w.isValid n = true) :
    ∃ w', w.strikeOut n = some w' := by
  unfold RW.strikeOut; simp [h]

/-- after a strike the number is invalid (needs a window of at least one slot) -/
theorem RW.strike_invalidates {w w' : RW} {n : Nat} (hs : 0 < w.size)
    (h : w.strikeOut n = some w') : w'.isValid n = false := by
  obtain ⟨hv, hsz, hidx, hbf⟩ := RW.strikeOut_some h
  rw [RW.isValid_eq] at hv ⊢
  have hge : ¬ n < w.index := by
    intro hlt; simp [hlt] at hv
  have h1 : ¬ n < w'.index := by omega
  have h2 : ¬ n ≥ w'.index + w'.size := by omega
  simp only [h1, h2, ↓reduceIte, hbf, Nat.testBit_or, Nat.testBit_shiftLeft, one_testBit]
  simp

/-- a strike never makes an invalid number valid again -/
theorem RW.strike_mono {w w' : RW} {n m : Nat}
    (h : w.strikeOut n = some w') (hm : w.isValid m = false) : w'.isValid m = false := by
  obtain ⟨hv, hsz, hidx, hbf⟩ := RW.strikeOut_some h
  rw [RW.isValid_eq] at hm hv ⊢
  by_cases c1 : m < w'.index
  · simp [c1]
  · have c0 : ¬ m < w.index := by omega
    have hnge : ¬ n < w.index := by intro hlt; simp [hlt] at hv
    by_cases c2 : m ≥ w.index + w.size
    · simp [c0, c2] at hm
    · simp only [c0, c2, ↓reduceIte, Bool.not_eq_eq_eq_not, Bool.not_false] at hm
      have c3 : ¬ m ≥ w'.index + w'.size := by omega
      simp only [c1, c3, ↓reduceIte, hbf, Nat.testBit_or, Nat.testBit_shiftRight]
      have : n + 1 - (w.index + w.size) + (m - w'.index) = m - w.index := by omega
      rw [this, hm]; simp

/-- representation invariant: a window has at least one slot and no bits beyond its size -/
def RW.wf (w : RW) : Prop := 0 < w.size ∧ w.bitfield < 2 ^ w.size

theorem RW.empty_wf {size : Nat} (h : 0 < size) : (RW.empty size).wf :=
  ⟨h, Nat.pow_pos (by decide)⟩

theorem RW.freshlySeen_wf {size seen : Nat} (h : 0 < size) : (RW.freshlySeen size seen).wf := by
  refine ⟨h, ?_⟩
  show 1 < 2 ^ size
  exact Nat.one_lt_two_pow (by omega)

theorem testBit_of_lt_pow {x i j : Nat} (h : x < 2 ^ i) (hij : i ≤ j) : x.testBit j = false :=
  Nat.testBit_lt_two_pow (Nat.lt_of_lt_of_le h (Nat.pow_le_pow_right (by decide) hij))

theorem RW.strike_wf {w w' : RW} {n : Nat} (hw : w.wf)
    (h : w.strikeOut n = some w') : w'.wf := by
  obtain ⟨hv, hsz, hidx, hbf⟩ := RW.strikeOut_some h
  rw [RW.isValid_eq] at hv
  have hnge : ¬ n < w.index := by intro hlt; simp [hlt] at hv
  refine ⟨by rw [hsz]; exact hw.1, ?_⟩
  rw [hbf, hsz]
  apply Nat.or_lt_two_pow
  · exact Nat.lt_of_le_of_lt (Nat.shiftRight_le _ _) hw.2
  · rw [Nat.one_shiftLeft]
    apply Nat.pow_lt_pow_right (by decide)
    have := hw.1
    omega

/-- a strike only invalidates the struck number and numbers below the new index -/
theorem RW.strike_frame {w w' : RW} {n m : Nat} (hw : w.wf)
    (h : w.strikeOut n = some w') (hne : m ≠ n) (hidx' : w'.index ≤ m)
    (hm : w.isValid m = true) : w'.isValid m = true := by
  obtain ⟨hv, hsz, hidx, hbf⟩ := RW.strikeOut_some h
  rw [RW.isValid_eq] at hm hv ⊢
  have c1 : ¬ m < w'.index := by omega
  have c0 : ¬ m < w.index := by omega
  have hnge : ¬ n < w.index := by intro hlt; simp [hlt] at hv
  by_cases c3 : m ≥ w'.index + w'.size
  · simp [c1, c3]
  · simp only [c1, c3, ↓reduceIte, hbf, Nat.testBit_or, Nat.testBit_shiftRight,
      Nat.testBit_shiftLeft, one_testBit]
    have e : n + 1 - (w.index + w.size) + (m - w'.index) = m - w.index := by omega
    have hb : w.bitfield.testBit (m - w.index) = false := by
      by_cases c2 : m ≥ w.index + w.size
      · exact testBit_of_lt_pow hw.2 (by omega)
      · simpa [c0, c2] using hm
    rw [e, hb]
    simp only [Bool.false_or, Bool.not_eq_eq_eq_not, Bool.not_true, Bool.and_eq_false_imp,
      decide_eq_true_eq, decide_eq_false_iff_not]
    omega

theorem RW.strike_index_le {w w' : RW} {n : Nat} (hs : 0 < w.size)
    (h : w.strikeOut n = some w') : w'.index ≤ n ∧ n < w'.index + w'.size ∧ w.index ≤ w'.index := by
  obtain ⟨hv, hsz, hidx, _⟩ := RW.strikeOut_some h
  rw [RW.isValid_eq] at hv
  have hnge : ¬ n < w.index := by intro hlt; simp [hlt] at hv
  omega

end Aiocoap.Oscore
