import AiocoapModel.Oscore.ReplayWindow
/-! Helper lemmas about the replay-window model. -/
namespace Aiocoap.Oscore

theorem shr_mod2 (bf k : Nat) : ((bf >>> k) % 2 == 0) = !bf.testBit k := by
  rw [Nat.testBit_eq_decide_div_mod_eq, Nat.shiftRight_eq_div_pow]
  by_cases h : bf / 2 ^ k % 2 = 1 <;> simp [h]
  omega

theorem one_testBit (j : Nat) : Nat.testBit 1 j = decide (j = 0) := by
  cases j <;> simp [Nat.testBit_succ]

/-- `isValid` in terms of `testBit` -/
theorem RW.isValid_eq (w : RW) (n : Nat) :
    w.isValid n = if n < w.index then false
      else if n ≥ w.index + w.size then true
      else !w.bitfield.testBit (n - w.index) := by
  unfold RW.isValid; rw [shr_mod2]

/-- Closed form of a successful strike. -/
theorem RW.strikeOut_some {w w' : RW} {n : Nat} (h : w.strikeOut n = some w') :
    w.isValid n = true ∧
    w'.size = w.size ∧
    w'.index = w.index + (n + 1 - (w.index + w.size)) ∧
    w'.bitfield = (w.bitfield >>> (n + 1 - (w.index + w.size))) ||| (1 <<< (n - w'.index)) := by
  unfold RW.strikeOut at h
  by_cases hv : w.isValid n = true
  · simp only [hv, Bool.not_true, Bool.false_eq_true, ↓reduceIte, Option.some.injEq] at h
    subst h
    by_cases ho : n + 1 - (w.index + w.size) > 0
    · simp [ho, hv]
    · have : n + 1 - (w.index + w.size) = 0 := by omega
      simp [this, hv]
  · simp [hv] at h

theorem RW.strikeOut_isSome {w : RW} {n : Nat} (h : w.isValid n = true) :
    ∃ w', w.strikeOut n = some w' := by
  unfold RW.strikeOut; simp [h]

/-- after a strike the number is invalid (needs a window of at least one slot) -/
theorem RW.strike_invalidates {w w' : RW} {n : Nat} (hs : 0 < w.size)
    (h : w.strikeOut n = some w') : w'.isValid n = false := by
  obtain ⟨hv, hsz, hidx, hbf⟩ := RW.strikeOut_some h
  rw [RW.isValid_eq] at hv ⊢
  have hge : ¬ n < w.index := by
    intro hlt; simp [hlt] at hv
  have h1 : ¬ n < w'.index := by omega
  have h2 : ¬ n ≥ w'.index + w'.size := by omega
  simp only [h1, h2, ↓reduceIte, hbf, Nat.testBit_or, Nat.testBit_shiftLeft, one_testBit]
  simp

/-- a strike never makes an invalid number valid again -/
theorem RW.strike_mono {w w' : RW} {n m : Nat}
    (h : w.strikeOut n = some w') (hm : w.isValid m = false) : w'.isValid m = false := by
  obtain ⟨hv, hsz, hidx, hbf⟩ := RW.strikeOut_some h
  rw [RW.isValid_eq] at hm hv ⊢
  by_cases c1 : m < w'.index
  · simp [c1]
  · have c0 : ¬ m < w.index := by omega
    have hnge : ¬ n < w.index := by intro hlt; simp [hlt] at hv
    by_cases c2 : m ≥ w.index + w.size
    · simp [c0, c2] at hm
    · simp only [c0, c2, ↓reduceIte, Bool.not_eq_eq_eq_not, Bool.not_false] at hm
      have c3 : ¬ m ≥ w'.index + w'.size := by omega
      simp only [c1, c3, ↓reduceIte, hbf, Nat.testBit_or, Nat.testBit_shiftRight]
      have : n + 1 - (w.index + w.size) + (m - w'.index) = m - w.index := by omega
      rw [this, hm]; simp

/-- representation invariant: a window has at least one slot and no bits beyond its size -/
def RW.wf (w : RW) : Prop := 0 < w.size ∧ w.bitfield < 2 ^ w.size

theorem RW.empty_wf {size : Nat} (h : 0 < size) : (RW.empty size).wf :=
  ⟨h, Nat.pow_pos (by decide)⟩

theorem RW.freshlySeen_wf {size seen : Nat} (h : 0 < size) : (RW.freshlySeen size seen).wf := by
  refine ⟨h, ?_⟩
  show 1 < 2 ^ size
  exact Nat.one_lt_two_pow (by omega)

theorem testBit_of_lt_pow {x i j : Nat} (h : x < 2 ^ i) (hij : i ≤ j) : x.testBit j = false :=
  Nat.testBit_lt_two_pow (Nat.lt_of_lt_of_le h (Nat.pow_le_pow_right (by decide) hij))

theorem RW.strike_wf {w w' : RW} {n : Nat} (hw : w.wf)
    (h : w.strikeOut n = some w') : w'.wf := by
  obtain ⟨hv, hsz, hidx, hbf⟩ := RW.strikeOut_some h
  rw [RW.isValid_eq] at hv
  have hnge : ¬ n < w.index := by intro hlt; simp [hlt] at hv
  refine ⟨by rw [hsz]; exact hw.1, ?_⟩
  rw [hbf, hsz]
  apply Nat.or_lt_two_pow
  · exact Nat.lt_of_le_of_lt (Nat.shiftRight_le _ _) hw.2
  · rw [Nat.one_shiftLeft]
    apply Nat.pow_lt_pow_right (by decide)
    have := hw.1
    omega

/-- a strike only invalidates the struck number and numbers below the new index -/
theorem RW.strike_frame {w w' : RW} {n m : Nat} (hw : w.wf)
    (h : w.strikeOut n = some w') (hne : m ≠ n) (hidx' : w'.index ≤ m)
    (hm : w.isValid m = true) : w'.isValid m = true := by
  obtain ⟨hv, hsz, hidx, hbf⟩ := RW.strikeOut_some h
  rw [RW.isValid_eq] at hm hv ⊢
  have c1 : ¬ m < w'.index := by omega
  have c0 : ¬ m < w.index := by omega
  have hnge : ¬ n < w.index := by intro hlt; simp [hlt] at hv
  by_cases c3 : m ≥ w'.index + w'.size
  · simp [c1, c3]
  · simp only [c1, c3, ↓reduceIte, hbf, Nat.testBit_or, Nat.testBit_shiftRight,
      Nat.testBit_shiftLeft, one_testBit]
    have e : n + 1 - (w.index + w.size) + (m - w'.index) = m - w.index := by omega
    have hb : w.bitfield.testBit (m - w.index) = false := by
      by_cases c2 : m ≥ w.index + w.size
      · exact testBit_of_lt_pow hw.2 (by omega)
      · simpa [c0, c2] using hm
    rw [e, hb]
    simp only [Bool.false_or, Bool.not_eq_eq_eq_not, Bool.not_true, Bool.and_eq_false_imp,
      decide_eq_true_eq, decide_eq_false_iff_not]
    omega

theorem RW.strike_index_le {w w' : RW} {n : Nat} (hs : 0 < w.size)
    (h : w.strikeOut n = some w') : w'.index ≤ n ∧ n < w'.index + w'.size ∧ w.index ≤ w'.index := by
  obtain ⟨hv, hsz, hidx, _⟩ := RW.strikeOut_some h
  rw [RW.isValid_eq] at hv
  have hnge : ¬ n < w.index := by intro hlt; simp [hlt] at hv
  omega

-- `initialize_from_persisted` ------------------------------------------------------------------

theorem lt_two_pow_bitLength (b : Nat) : b < 2 ^ bitLength b := by
  unfold bitLength
  by_cases h : b = 0
  · subst h; decide
  · simp only [h, ↓reduceIte]; exact Nat.lt_log2_self

theorem bitLength_le_of_lt {b k : Nat} (h : b < 2 ^ k) : bitLength b ≤ k := by
  unfold bitLength
  by_cases h0 : b = 0
  · simp [h0]
  · simp only [h0, ↓reduceIte]
    have := (Nat.log2_lt h0).mpr h
    omega

theorem RW.fromPersisted_size (size i b : Nat) : (RW.fromPersisted size i b).size = size := by
  unfold RW.fromPersisted
  by_cases h : bitLength b - size > 0 <;> simp [h]

/-- a persisted state that fits the window is taken over as it is -/
theorem RW.fromPersisted_of_fits {size i b : Nat} (h : b < 2 ^ size) :
    RW.fromPersisted size i b = { size, index := i, bitfield := b } := by
  unfold RW.fromPersisted
  have := bitLength_le_of_lt h
  have h0 : ¬ bitLength b - size > 0 := by omega
  simp [h0]

/-- closed form: index and bitfield move by the excess width -/
theorem RW.fromPersisted_eq (size i b : Nat) :
    RW.fromPersisted size i b =
      { size, index := i + (bitLength b - size), bitfield := b >>> (bitLength b - size) } := by
  unfold RW.fromPersisted
  by_cases h : bitLength b - size > 0
  · simp [h]
  · have : bitLength b - size = 0 := by omega
    simp [this]

/-- whatever was persisted, the loaded window satisfies the representation invariant -/
theorem RW.fromPersisted_wf {size : Nat} (hs : 0 < size) (i b : Nat) :
    (RW.fromPersisted size i b).wf := by
  rw [RW.fromPersisted_eq]
  refine ⟨hs, ?_⟩
  show b >>> (bitLength b - size) < 2 ^ size
  rw [Nat.shiftRight_eq_div_pow, Nat.div_lt_iff_lt_mul (Nat.pow_pos (by decide)), ← Nat.pow_add]
  have h1 := lt_two_pow_bitLength b
  exact Nat.lt_of_lt_of_le h1 (Nat.pow_le_pow_right (by decide) (by omega))

/-- **no recorded number is lost on load**: everything below the persisted index and every
number whose bit is set in the persisted bitfield — at whatever position, also beyond the
configured size — is refused by the loaded window -/
theorem RW.fromPersisted_keeps_seen (size i b n : Nat)
    (h : n < i ∨ b.testBit (n - i) = true) : (RW.fromPersisted size i b).isValid n = false := by
  rw [RW.fromPersisted_eq, RW.isValid_eq]
  simp only
  by_cases c1 : n < i + (bitLength b - size)
  · simp [c1]
  · rcases h with h | h
    · omega
    · simp only [c1, ↓reduceIte]
      by_cases c2 : n ≥ i + (bitLength b - size) + size
      · -- beyond the loaded window there is no set bit
        have hlt : n - i ≥ bitLength b := by omega
        have := testBit_of_lt_pow (lt_two_pow_bitLength b) hlt
        rw [this] at h; cases h
      · simp only [c2, ↓reduceIte, Nat.testBit_shiftRight]
        have : bitLength b - size + (n - (i + (bitLength b - size))) = n - i := by omega
        rw [this, h]; rfl

/-- what the window that wrote the state refuses, the window loaded from it refuses -/
theorem RW.fromPersisted_keeps_refused (w : RW) (size n : Nat) (h : w.isValid n = false) :
    (RW.fromPersisted size w.index w.bitfield).isValid n = false := by
  apply RW.fromPersisted_keeps_seen
  rw [RW.isValid_eq] at h
  by_cases c1 : n < w.index
  · exact Or.inl c1
  · by_cases c2 : n ≥ w.index + w.size
    · simp [c1, c2] at h
    · right; simpa [c1, c2] using h

/-- … and nothing at or above the loaded index is refused without having been recorded -/
theorem RW.fromPersisted_frame (size i b n : Nat)
    (hge : (RW.fromPersisted size i b).index ≤ n) (h : b.testBit (n - i) = false) :
    (RW.fromPersisted size i b).isValid n = true := by
  rw [RW.fromPersisted_eq] at hge ⊢
  rw [RW.isValid_eq]
  simp only at hge ⊢
  have c1 : ¬ n < i + (bitLength b - size) := by omega
  simp only [c1, ↓reduceIte]
  by_cases c2 : n ≥ i + (bitLength b - size) + size
  · simp [c2]
  · simp only [c2, ↓reduceIte, Nat.testBit_shiftRight]
    have : bitLength b - size + (n - (i + (bitLength b - size))) = n - i := by omega
    rw [this, h]; rfl

end Aiocoap.Oscore
