import Proofs.Oscore.PersistWin
/-! C13 helper lemmas: the invariant tying `sequence.json` to the in-memory replay window, and
its consequences one step at a time. -/
namespace Aiocoap.Oscore.Persist
open Aiocoap.Oscore

/-- the disk is never ahead of the memory in a dangerous way: a load yields either an
uninitialised window, or exactly the given one, or the given one put through
`initialize_from_persisted` (which refuses at least what the given one refuses) -/
def Safe (cfg : Cfg) (d : Dir) (ow : Option RW) : Prop :=
  diskWindow cfg d = none ∨ diskWindow cfg d = ow ∨ diskWindow cfg d = reloaded cfg ow

/-- facts about a live process and its directory -/
structure Live (cfg : Cfg) (d : Dir) (m : Mem) : Prop where
  unknown : m.windowPersisted = false → DiskUnknown d
  safe : Safe cfg d m.window
  size : ∀ w, m.window = some w → w.size = cfg.size

/-- Invariant of the recipient side. -/
def InvW (cfg : Cfg) (s : State) : Prop := ∀ m, s.mem = some m → Live cfg s.dir m

/-- the window in force: the live one, or the one the next process will load -/
def curWindow (cfg : Cfg) (s : State) : Option RW :=
  match s.mem with
  | some m => m.window
  | none => diskWindow cfg s.dir

/-- `n` cannot be accepted by striking it from this window (uninitialised counts) -/
def Blocked (ow : Option RW) (n : Nat) : Prop := ∀ w, ow = some w → w.isValid n = false

/-- the window is initialised and refuses `n` -/
def Refused (ow : Option RW) (n : Nat) : Prop := ∃ w, ow = some w ∧ w.isValid n = false

theorem Refused.blocked {ow : Option RW} {n : Nat} (h : Refused ow n) : Blocked ow n := by
  obtain ⟨w, hw, hv⟩ := h
  intro w' hw'
  rw [hw] at hw'; cases hw'; exact hv

/-- accepted through Echo recovery -/
def isEchoAccept : Out → Bool
  | .accepted _ true => true
  | _ => false

/-- `"unknown"` on disk and (if alive) the flag cleared: stays so until a clean shutdown -/
def Unknown (s : State) : Prop :=
  DiskUnknown s.dir ∧ ∀ m, s.mem = some m → m.windowPersisted = false

/-- the event completes a clean shutdown's `os.replace` -/
def completesClean : Ev → Bool
  | .cleanShutdown c => completes c
  | _ => false

/-- no process death in this event -/
def noCrash : Ev → Bool
  | .kill => false
  | .protect c => c.isNone
  | .recv _ c => c.isNone
  | .cleanShutdown c => c.isNone
  | .load _ => true

-- stores ------------------------------------------------------------------------------------

theorem received_eq (m : Mem) :
    received m = if m.windowPersisted then .window (persistWindow m.window) else .unknown := rfl

/-- what a load sees after `_store` wrote the live state -/
theorem store_received {cfg : Cfg} {d : Dir} {m : Mem} (n : Nat) (c : Option Nat)
    (h : Live cfg d m) :
    Safe cfg (store d { nextToSend := n, received := received m } c) m.window ∧
    (m.windowPersisted = false →
      DiskUnknown (store d { nextToSend := n, received := received m } c)) := by
  by_cases hc : completes c = true
  · cases hp : m.windowPersisted with
    | false =>
      have : received m = .unknown := by rw [received_eq, hp]; rfl
      rw [this]
      have hu := diskUnknown_store_unknown d n c hc
      exact ⟨Or.inl (diskWindow_unknown hu), fun _ => hu⟩
    | true =>
      have : received m = .window (persistWindow m.window) := by rw [received_eq, hp]; rfl
      rw [this]
      exact ⟨Or.inr (Or.inr (diskWindow_store_window cfg d n m.window hc)), fun h' => by cases h'⟩
  · have hc' : completes c = false := by simpa using hc
    refine ⟨?_, fun hp => diskUnknown_store_incomplete _ hc' (h.unknown hp)⟩
    unfold Safe
    rw [diskWindow_store_incomplete cfg d _ hc']
    exact h.safe

-- protect -----------------------------------------------------------------------------------

/-- `protect` does not touch the window or its flag; it leaves the directory alone or stores
the live state; it never reports an acceptance -/
theorem protect_frame (cfg : Cfg) (d : Dir) (m : Mem) (c : Option Nat) :
    (∀ m', (protect cfg d m c).1.mem = some m' →
        m'.window = m.window ∧ m'.windowPersisted = m.windowPersisted ∧ c = none) ∧
    (c = none → ∃ m', (protect cfg d m c).1.mem = some m') ∧
    ((protect cfg d m c).1.dir = d ∨
      ∃ n, (protect cfg d m c).1.dir = store d { nextToSend := n, received := received m } c) ∧
    (∀ n v, (protect cfg d m c).2 ≠ .accepted n v) := by
  unfold protect
  by_cases hex : m.ssn ≥ MAX_SEQNO
  · cases c <;> simp [hex]
  · simp only [hex, ↓reduceIte]
    by_cases hst : m.ssn + 1 > m.persisted
    · simp only [hst, ↓reduceIte]
      cases c with
      | none =>
        by_cases ha : m.ssn + 1 > m.persisted + m.chunk
        · simp only [ha, ↓reduceIte]
          refine ⟨?_, ?_, Or.inr ⟨_, rfl⟩, ?_⟩ <;> simp
        · simp only [ha, ↓reduceIte]
          refine ⟨?_, ?_, Or.inr ⟨_, rfl⟩, ?_⟩ <;> simp
      | some j =>
        refine ⟨?_, ?_, Or.inr ⟨_, rfl⟩, ?_⟩ <;> simp
    · simp only [hst, ↓reduceIte]
      cases c <;> simp


-- window steps -----------------------------------------------------------------------------

theorem freshlySeen_refuses (size n : Nat) (hs : 0 < size) :
    (RW.freshlySeen size n).isValid n = false := by
  rw [RW.isValid_eq]
  simp only [RW.freshlySeen]
  have h2 : ¬ n ≥ n + size := by omega
  simp [h2]

theorem WinStep.size {sz : Nat} {win win' : Option RW} {a : Arrival} {o : Out}
    (hs : WinStep sz win a win' o) (h : ∀ w, win = some w → w.size = sz) :
    ∀ w, win' = some w → w.size = sz := by
  cases hs with
  | refused oc => exact h
  | strike w w' hw hst =>
    intro w'' e; cases e
    rw [(RW.strikeOut_some hst).2.1]; exact h w hw
  | echo hw => intro w'' e; cases e; rfl

theorem WinStep.blocked {sz : Nat} {win win' : Option RW} {a : Arrival} {o : Out}
    (hs : WinStep sz win a win' o) {n : Nat} (hb : Blocked win n) (he : isEchoAccept o = false) :
    Blocked win' n := by
  cases hs with
  | refused oc => exact hb
  | strike w w' hw hst =>
    intro w'' e; cases e
    exact RW.strike_mono hst (hb w hw)
  | echo hw => simp [isEchoAccept] at he

theorem WinStep.refused_stable {sz : Nat} {win win' : Option RW} {a : Arrival} {o : Out}
    (hs : WinStep sz win a win' o) {n : Nat} (hr : Refused win n) : Refused win' n := by
  obtain ⟨w0, hw0, hv⟩ := hr
  cases hs with
  | refused oc => exact ⟨w0, hw0, hv⟩
  | strike w w' hw hst =>
    rw [hw0] at hw; cases hw
    exact ⟨w', rfl, RW.strike_mono hst hv⟩
  | echo hw => rw [hw0] at hw; cases hw

theorem WinStep.accepted_refused {sz : Nat} {win win' : Option RW} {a : Arrival} {o : Out}
    (hs : WinStep sz win a win' o) (hsz : 0 < sz) (h : ∀ w, win = some w → w.size = sz)
    {n : Nat} {v : Bool} (ho : o = .accepted n v) : Refused win' n := by
  cases hs with
  | refused oc => cases ho
  | strike w w' hw hst =>
    cases ho
    exact ⟨w', rfl, RW.strike_invalidates (by rw [h w hw]; exact hsz) hst⟩
  | echo hw =>
    cases ho
    exact ⟨_, rfl, freshlySeen_refuses _ _ hsz⟩

theorem Blocked.reloaded {cfg : Cfg} {ow : Option RW} {n : Nat} (hb : Blocked ow n) :
    Blocked (reloaded cfg ow) n := by
  intro w' hw'
  cases ow with
  | none => simp [Persist.reloaded] at hw'
  | some w =>
    simp only [Persist.reloaded, Option.map_some, Option.some.injEq] at hw'
    subst hw'
    exact RW.fromPersisted_keeps_refused w cfg.size n (hb w rfl)

theorem Refused.reloaded {cfg : Cfg} {ow : Option RW} {n : Nat} (hr : Refused ow n) :
    Refused (reloaded cfg ow) n := by
  obtain ⟨w, hw, hv⟩ := hr
  subst hw
  exact ⟨_, rfl, RW.fromPersisted_keeps_refused w cfg.size n hv⟩

theorem Safe.blocked {cfg : Cfg} {d : Dir} {ow : Option RW} (h : Safe cfg d ow) {n : Nat}
    (hb : Blocked ow n) : Blocked (diskWindow cfg d) n := by
  rcases h with h | h | h
  · intro w hw; rw [h] at hw; cases hw
  · rw [h]; exact hb
  · rw [h]; exact hb.reloaded

theorem diskUnknown_store_received {d : Dir} {m : Mem} (n : Nat) (c : Option Nat)
    (hp : m.windowPersisted = false) (h : DiskUnknown d) :
    DiskUnknown (store d { nextToSend := n, received := received m } c) := by
  have : received m = .unknown := by rw [received_eq, hp]; rfl
  rw [this]
  by_cases hc : completes c = true
  · exact diskUnknown_store_unknown d n c hc
  · exact diskUnknown_store_incomplete _ (by simpa using hc) h

theorem load_of_unknown {cfg : Cfg} {d : Dir} (e : Nat) (h : DiskUnknown d) :
    (load cfg d e).windowPersisted = false := by
  obtain ⟨f, hf, hr⟩ := h
  obtain ⟨seq, temps⟩ := d
  obtain ⟨n, r⟩ := f
  simp only at hf hr
  subst hf hr
  rfl

/-- the state a clean shutdown writes is a live state with the flag set -/
theorem Live.forShutdown {cfg : Cfg} {d : Dir} {m : Mem} (h : Live cfg d m) :
    Live cfg d { m with windowPersisted := true, persisted := m.ssn } :=
  ⟨fun h' => (by cases h'), h.safe, h.size⟩

theorem cleanShutdown_dir (d : Dir) (m : Mem) (c : Option Nat) :
    (cleanShutdown d m c).1.dir =
      store d { nextToSend := m.ssn, received := .window (persistWindow m.window) } c ∧
    (cleanShutdown d m c).1.mem = none := ⟨rfl, rfl⟩

-- the invariant is kept ---------------------------------------------------------------------

theorem step_invW (cfg : Cfg) (s : State) (ev : Ev) (h : InvW cfg s) :
    InvW cfg (step cfg s ev).1 := by
  obtain ⟨d, mem⟩ := s
  cases mem with
  | none =>
    cases ev with
    | load e =>
      intro m hm
      simp only [step, Option.some.injEq] at hm
      subst hm
      exact ⟨fun hp => load_wp_false hp, Or.inr (Or.inl (load_window cfg d e).symm),
        fun w hw => load_size hw⟩
    | _ => intro m hm; simp [step] at hm
  | some m =>
    have L : Live cfg d m := h m rfl
    cases ev with
    | load e => simpa [step] using h
    | kill => intro m' hm; simp [step] at hm
    | cleanShutdown c => intro m' hm; simp [step, cleanShutdown] at hm
    | protect c =>
      obtain ⟨f1, _, f3, _⟩ := protect_frame cfg d m c
      intro m' hm
      simp only [step] at hm ⊢
      obtain ⟨hw, hp, _⟩ := f1 m' hm
      rcases f3 with hd | ⟨n, hd⟩
      · rw [hd]
        exact ⟨fun h' => L.unknown (by rw [← hp]; exact h'), by rw [hw]; exact L.safe,
          by rw [hw]; exact L.size⟩
      · rw [hd]
        obtain ⟨s1, s2⟩ := store_received n c L
        exact ⟨fun h' => s2 (by rw [← hp]; exact h'), by rw [hw]; exact s1, by rw [hw]; exact L.size⟩
    | recv a c =>
      obtain ⟨win', o, hs, heq⟩ := recv_spec cfg d m a c
      intro m' hm
      simp only [step, heq] at hm ⊢
      have hsize := hs.size L.size
      unfold recvResult at hm ⊢
      by_cases hb : struck o = true ∧ m.windowPersisted = true
      · simp only [hb, and_self, ↓reduceIte] at hm ⊢
        cases c with
        | some j => simp at hm
        | none =>
          simp only [Option.some.injEq] at hm
          subst hm
          have hu := diskUnknown_store_unknown d m.persisted none rfl
          exact ⟨fun _ => hu, Or.inl (diskWindow_unknown hu), hsize⟩
      · simp only [hb, ↓reduceIte] at hm ⊢
        cases c with
        | some j => simp at hm
        | none =>
          simp only [Option.some.injEq] at hm
          subst hm
          refine ⟨L.unknown, ?_, hsize⟩
          cases hs with
          | refused oc => exact L.safe
          | strike w w' hw hst =>
            have hp : m.windowPersisted = false := by
              cases hp : m.windowPersisted with
              | false => rfl
              | true => exact absurd ⟨rfl, hp⟩ hb
            exact Or.inl (diskWindow_unknown (L.unknown hp))
          | echo hw =>
            rcases L.safe with h' | h' | h'
            · exact Or.inl h'
            · exact Or.inl (by rw [h', hw])
            · exact Or.inl (by rw [h', hw]; rfl)

theorem run_invW (cfg : Cfg) (evs : List Ev) (s : State) (h : InvW cfg s) :
    InvW cfg (run cfg s evs).1 := by
  induction evs generalizing s with
  | nil => exact h
  | cons ev evs ih => exact ih _ (step_invW cfg s ev h)

end Aiocoap.Oscore.Persist
