import AiocoapModel.Oscore.Session
import Proofs.Oscore.ProtRoundtrip
import Proofs.Oscore.ReplayWindow
/-! Helper lemmas for the stateful reading of `unprotect` (C11, several messages on one context). -/
namespace Aiocoap.Oscore.Prot
open Aiocoap.Oscore (RW)

/-- when the message processing gets as far as building its parameters, the replay window was
consulted with exactly the sequence number those parameters carry -/
theorem requestSeqno_of_recvParams {tb : Nat} {B : Ctx} {o : Msg} {rp : RecvParams}
    (h : recvParams tb B none o = .ok rp) : requestSeqno B o = rp.seqno := by
  obtain ⟨option, u, s, hcode, hopt, hu, hids, hsel, _, _, _, _, _, hseq⟩ := recvParams_ok_inv h
  have hr : isResponse o.code = false := by simpa using hcode.symm
  rw [hr] at hids
  unfold requestSeqno
  simp only [hopt, hu, hids, Bool.not_true, Bool.false_eq_true, ↓reduceIte]
  rw [hseq]
  unfold selectPiv at hsel
  cases hp : u.piv with
  | none => simp [hp] at hsel
  | some piv =>
    simp only [hp] at hsel
    split at hsel
    · cases hsel; rfl
    · cases hsel

theorem echoRecovery_error_state (st : RState) (n : Nat) (u : Unprotected) (rid : ReqId) (e : SErr)
    (h : (echoRecovery st n u rid).2 = .error e) : (echoRecovery st n u rid).1 = st := by
  unfold echoRecovery at h ⊢
  cases hw : st.win with
  | some w => rfl
  | none =>
    simp only [hw] at h ⊢
    by_cases he : (findOpt 252 u.opts == st.echo) = true
    · simp [he] at h
    · simp [he]

theorem afterDecrypt_error_state (st : RState) (n : Nat) (replay : Bool)
    (r : Except Err (Unprotected × ReqId)) (e : SErr)
    (h : (afterDecrypt st n replay r).2 = .error e) (hne : e ≠ .base .unparsable) :
    (afterDecrypt st n replay r).1 = st := by
  cases r with
  | error e0 =>
    simp only [afterDecrypt] at h ⊢
    cases h
    have : e0 ≠ .unparsable := fun h0 => hne (by rw [h0])
    simp [this]
  | ok p =>
    obtain ⟨u, rid⟩ := p
    simp only [afterDecrypt] at h ⊢
    cases replay with
    | true => exact echoRecovery_error_state st n u _ e (by simpa using h)
    | false => simp at h

/-- a rejected message — anything but an authentic one whose plaintext does not parse — leaves
the recipient state exactly as it was -/
theorem sessionStep_error_state (E : AEAD) (B : Ctx) (st : RState) (o : Msg) (e : SErr)
    (h : (sessionStep E B st o).2 = .error e) (hne : e ≠ .base .unparsable) :
    (sessionStep E B st o).1 = st := by
  unfold sessionStep at h ⊢
  by_cases hr : isResponse o.code = true
  · simp [hr]
  · simp only [hr, Bool.false_eq_true, ↓reduceIte] at h ⊢
    by_cases hc : (!(o.code == 2 || o.code == 5)) = true
    · simp [hc]
    simp only [hc, Bool.false_eq_true, ↓reduceIte] at h ⊢
    cases hn : requestSeqno B o with
    | none =>
      simp only [hn] at h ⊢
      cases unprotect E B none o <;> rfl
    | some n =>
      simp only [hn] at h ⊢
      by_cases hrep : (replayFlag st n && st.echo.isNone) = true
      · simp [hrep]
      · simp only [hrep, Bool.false_eq_true, ↓reduceIte] at h ⊢
        exact afterDecrypt_error_state st n _ _ e h hne

def Rejected (r : Except SErr (Unprotected × ReqId)) : Prop :=
  ∃ e, r = .error e ∧ e ≠ .base .unparsable

theorem sessionRun_cons (E : AEAD) (B : Ctx) (st : RState) (o : Msg) (os : List Msg) :
    sessionRun E B st (o :: os) =
      ((sessionRun E B (sessionStep E B st o).1 os).1,
       (sessionStep E B st o).2 :: (sessionRun E B (sessionStep E B st o).1 os).2) := rfl

/-- any number of rejected messages leave the recipient state as it was -/
theorem sessionRun_rejected_state (E : AEAD) (B : Ctx) (os : List Msg) (st : RState)
    (h : ∀ r ∈ (sessionRun E B st os).2, Rejected r) : (sessionRun E B st os).1 = st := by
  induction os generalizing st with
  | nil => rfl
  | cons o os ih =>
    rw [sessionRun_cons] at h ⊢
    simp only [List.mem_cons, forall_eq_or_imp] at h
    obtain ⟨⟨e, he, hne⟩, hrest⟩ := h
    have hst := sessionStep_error_state E B st o e he hne
    rw [hst] at hrest ⊢
    exact ih st hrest

end Aiocoap.Oscore.Prot
