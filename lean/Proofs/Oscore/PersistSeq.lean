import AiocoapModel.Oscore.Persist
/-! Helper lemmas for C13, sender side: what is on disk bounds what has been handed out. -/
namespace Aiocoap.Oscore.Persist
open Aiocoap.Oscore

theorem store_seq (d : Dir) (data : SeqFile) (c : Option Nat) :
    (store d data c).seq = if completes c then some data else d.seq := by
  unfold store
  split
  · rfl
  · split <;> rfl

/-- the number a process loading this directory starts with -/
def diskNext (d : Dir) : Nat := (load ⟨0, 0, 0⟩ d 0).ssn

theorem diskNext_eq (d : Dir) :
    diskNext d = match d.seq with | none => 0 | some f => f.nextToSend := by
  obtain ⟨seq, temps⟩ := d
  cases seq with
  | none => rfl
  | some f => obtain ⟨n, r⟩ := f; cases r <;> rfl

theorem load_ssn (cfg : Cfg) (d : Dir) (e : Nat) :
    (load cfg d e).ssn = diskNext d ∧ (load cfg d e).persisted = diskNext d := by
  obtain ⟨seq, temps⟩ := d
  cases seq with
  | none => exact ⟨rfl, rfl⟩
  | some f => obtain ⟨n, r⟩ := f; cases r <;> exact ⟨rfl, rfl⟩

theorem diskNext_store (d : Dir) (data : SeqFile) (c : Option Nat) :
    diskNext (store d data c) = if completes c then data.nextToSend else diskNext d := by
  rw [diskNext_eq, diskNext_eq, store_seq]
  by_cases h : completes c = true <;> simp [h]

/-- Invariant: while a process is alive, `sequence.json` holds exactly its
`sequence_number_persisted`. -/
def InvS (s : State) : Prop := ∀ m, s.mem = some m → diskNext s.dir = m.persisted

/-- Everything below the frontier may have been handed out; nothing at or above it has.
Alive: the next number (capped by what is persisted, which only matters in the state after a
failed `assert`); no process: what the next load will start from. -/
def frontier (s : State) : Nat :=
  match s.mem with
  | some m => min m.ssn m.persisted
  | none => diskNext s.dir

/-- the one-step fact behind C13_no_reuse -/
def StepSeq (s : State) (r : State × Out) : Prop :=
  InvS r.1 ∧ frontier s ≤ frontier r.1 ∧
    ∀ n, r.2 = .issued n → frontier s ≤ n ∧ n < frontier r.1 ∧ n < MAX_SEQNO

theorem protect_seq (cfg : Cfg) (d : Dir) (m : Mem) (c : Option Nat)
    (h : diskNext d = m.persisted) :
    StepSeq { dir := d, mem := some m } (protect cfg d m c) := by
  unfold protect StepSeq
  by_cases hex : m.ssn ≥ MAX_SEQNO
  · cases c <;> simp [hex, InvS, frontier, h] <;> omega
  · simp only [hex, ↓reduceIte]
    by_cases hst : m.ssn + 1 > m.persisted
    · simp only [hst, ↓reduceIte]
      cases c with
      | none =>
        by_cases ha : m.ssn + 1 > m.persisted + m.chunk
        · simp [ha, InvS, frontier, diskNext_store, completes]; omega
        · simp [ha, InvS, frontier, diskNext_store, completes]; omega
      | some j =>
        by_cases hj : 4 ≤ j <;>
          simp [InvS, frontier, diskNext_store, completes, hj, h] <;> omega
    · simp only [hst, ↓reduceIte]
      cases c <;> simp [InvS, frontier, h] <;> omega

theorem recv_seq (cfg : Cfg) (d : Dir) (m : Mem) (a : Arrival) (c : Option Nat)
    (h : diskNext d = m.persisted) :
    StepSeq { dir := d, mem := some m } (recv cfg d m a c) := by
  unfold recv StepSeq
  simp only
  split
  · cases c with
    | none => simp [InvS, frontier, diskNext_store, completes]; split <;> simp
    | some j =>
      by_cases hj : 4 ≤ j <;> simp [InvS, frontier, diskNext_store, completes, hj, h] <;> omega
  · cases c with
    | none => simp [InvS, frontier, h]; split <;> simp
    | some j => simp [InvS, frontier, h]; omega

theorem cleanShutdown_seq (d : Dir) (m : Mem) (c : Option Nat)
    (h : diskNext d = m.persisted) :
    StepSeq { dir := d, mem := some m } (cleanShutdown d m c) := by
  unfold cleanShutdown StepSeq
  cases c with
  | none => simp [InvS, frontier, diskNext_store, completes]; omega
  | some j =>
    by_cases hj : 4 ≤ j <;> simp [InvS, frontier, diskNext_store, completes, hj, h] <;> omega

theorem step_seq (cfg : Cfg) (s : State) (ev : Ev) (h : InvS s) :
    StepSeq s (step cfg s ev) := by
  obtain ⟨d, mem⟩ := s
  cases mem with
  | none =>
    cases ev <;> simp [step, StepSeq, InvS, frontier, load_ssn]
  | some m =>
    have hd : diskNext d = m.persisted := h m rfl
    cases ev with
    | load e => simp [step, StepSeq]; exact h
    | protect c => exact protect_seq cfg d m c hd
    | recv a c => exact recv_seq cfg d m a c hd
    | cleanShutdown c => exact cleanShutdown_seq d m c hd
    | kill => simp [step, StepSeq, InvS, frontier, hd]; omega

/-- every history: the issued numbers are strictly increasing and start at the frontier -/
theorem run_seq (cfg : Cfg) (evs : List Ev) (s : State) (h : InvS s) :
    InvS (run cfg s evs).1 ∧ frontier s ≤ frontier (run cfg s evs).1 ∧
    (issuedOf (run cfg s evs).2).Pairwise (· < ·) ∧
    ∀ n ∈ issuedOf (run cfg s evs).2,
      frontier s ≤ n ∧ n < frontier (run cfg s evs).1 ∧ n < MAX_SEQNO := by
  induction evs generalizing s with
  | nil => simp [run, issuedOf]; exact h
  | cons ev evs ih =>
    obtain ⟨h1, h2, h3⟩ := step_seq cfg s ev h
    obtain ⟨i1, i2, i3, i4⟩ := ih (step cfg s ev).1 h1
    simp only [run]
    refine ⟨i1, by omega, ?_, ?_⟩
    · cases ho : (step cfg s ev).2 with
      | issued n =>
        simp only [issuedOf, List.pairwise_cons]
        refine ⟨?_, i3⟩
        intro n' hn'
        have := (h3 n ho).2.1
        have := (i4 n' hn').1
        omega
      | _ => simpa [issuedOf] using i3
    · intro n hn
      cases ho : (step cfg s ev).2 with
      | issued n0 =>
        rw [ho] at hn
        simp only [issuedOf, List.mem_cons] at hn
        rcases hn with rfl | hn
        · have := h3 n ho; omega
        · have := i4 n hn; omega
      | _ =>
        rw [ho] at hn
        simp only [issuedOf] at hn
        have := i4 n hn; omega


-- the `assert` of post_seqnoincrease --------------------------------------------------------

/-- with chunk sizes ≥ 1 the live counter never runs ahead of what is persisted -/
def InvA (s : State) : Prop := ∀ m, s.mem = some m → m.ssn ≤ m.persisted ∧ 1 ≤ m.chunk

theorem step_invA (cfg : Cfg) (hs : 1 ≤ cfg.start) (hl : 1 ≤ cfg.limit) (s : State) (ev : Ev)
    (h : InvA s) : InvA (step cfg s ev).1 ∧ (step cfg s ev).2 ≠ .assertion := by
  obtain ⟨d, mem⟩ := s
  cases mem with
  | none =>
    cases ev with
    | load e =>
      refine ⟨?_, by simp [step]⟩
      intro m hm
      simp only [step, Option.some.injEq] at hm
      subst hm
      have := load_ssn cfg d e
      refine ⟨by omega, ?_⟩
      obtain ⟨seq, temps⟩ := d
      cases seq with
      | none => exact hs
      | some f => obtain ⟨n, r⟩ := f; cases r <;> exact hs
    | _ => simp [step, InvA]
  | some m =>
    obtain ⟨h1, h2⟩ := h m rfl
    cases ev with
    | load e => simpa [step] using h
    | kill => simp [step, InvA]
    | cleanShutdown c => cases c <;> simp [step, cleanShutdown, InvA]
    | recv a c =>
      simp only [step]
      unfold recv
      simp only
      split
      · cases c with
        | none => simp [InvA]; refine ⟨⟨h1, h2⟩, ?_⟩; split <;> simp
        | some j => simp [InvA]
      · cases c with
        | none => simp [InvA]; refine ⟨⟨h1, h2⟩, ?_⟩; split <;> simp
        | some j => simp [InvA]
    | protect c =>
      simp only [step]
      unfold protect
      by_cases hex : m.ssn ≥ MAX_SEQNO
      · cases c <;> simp [hex, InvA]; exact ⟨h1, h2⟩
      · simp only [hex, ↓reduceIte]
        by_cases hst : m.ssn + 1 > m.persisted
        · simp only [hst, ↓reduceIte]
          cases c with
          | none =>
            have ha : ¬ m.ssn + 1 > m.persisted + m.chunk := by omega
            simp [ha, InvA]; omega
          | some j => simp [InvA]
        · simp only [hst, ↓reduceIte]
          cases c <;> simp [InvA]; omega

theorem run_invA (cfg : Cfg) (hs : 1 ≤ cfg.start) (hl : 1 ≤ cfg.limit) (evs : List Ev) (s : State)
    (h : InvA s) : InvA (run cfg s evs).1 ∧ Out.assertion ∉ (run cfg s evs).2 := by
  induction evs generalizing s with
  | nil => simp [run]; exact h
  | cons ev evs ih =>
    obtain ⟨h1, h2⟩ := step_invA cfg hs hl s ev h
    obtain ⟨i1, i2⟩ := ih _ h1
    simp only [run]
    refine ⟨i1, ?_⟩
    simp only [List.mem_cons, not_or]
    exact ⟨fun e => h2 e.symm, i2⟩

end Aiocoap.Oscore.Persist
