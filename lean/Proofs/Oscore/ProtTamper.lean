import Proofs.Oscore.ProtRoundtrip
/-! Lemmas behind the binding and tamper clauses. -/
namespace Aiocoap.Oscore.Prot

theorem selectPiv_rid_some {B : Ctx} {r : ReqId} {code : Nat} {u : Unprot} {s : Selected}
    (h : selectPiv B (some r) code u = .ok s) : s.rid = r := by
  unfold selectPiv at h
  split at h
  · cases h; rename_i heq; cases heq; rfl
  · rename_i heq; cases heq
  · cases h; rename_i heq; cases heq; rfl
  · rename_i heq; cases heq

/-- for a request the AAD identifiers are the recipient id and the received Partial IV bytes -/
theorem selectPiv_none_rid {B : Ctx} {code : Nat} {u : Unprot} {s : Selected}
    (h : selectPiv B none code u = .ok s) :
    ∃ p, u.piv = some p ∧ s.rid.kid = B.recipientId ∧ s.rid.piv = p ∧ s.piv = p ∧
      s.gen = B.recipientId := by
  unfold selectPiv at h
  split at h
  · rename_i heq; cases heq
  · cases h
  · rename_i heq; cases heq
  · rename_i piv hpiv heq
    split at h
    · cases h; exact ⟨piv, hpiv, rfl, rfl, rfl, rfl⟩
    · cases h

/-- where the nonce of a response comes from: the responder's id and the Partial IV in the
option if there is one, else the request's generator id and Partial IV — as (id, number) -/
def nonceSource (B : Ctx) (r : ReqId) (u : Unprot) : Bytes × Nat :=
  match u.piv with
  | some p => (B.recipientId, beToNat p)
  | none => (r.kid, beToNat r.piv)

theorem selectPiv_source {B : Ctx} {r : ReqId} {code : Nat} {u : Unprot} {s : Selected}
    (h : selectPiv B (some r) code u = .ok s) : (s.gen, beToNat s.piv) = nonceSource B r u := by
  unfold selectPiv at h
  unfold nonceSource
  split at h
  · rename_i hpiv heq; cases heq; cases h; simp [hpiv]
  · rename_i heq; cases heq
  · rename_i hpiv heq; cases heq; cases h; simp [hpiv]
  · rename_i heq; cases heq

/-- `recvParams` does not look at the recipient key -/
theorem recvParams_key_irrel (tb : Nat) (B : Ctx) (k : Bytes) (rid : Option ReqId) (o : Msg) :
    recvParams tb { B with recipientKey := k } rid o = recvParams tb B rid o := by
  simp only [recvParams, idsAcceptable]
  rfl

/-- `recvParams` looks at the payload only for the length check -/
theorem recvParams_payload_irrel {tb : Nat} {B : Ctx} {rid : Option ReqId} {o : Msg} {c : Bytes}
    {rp : RecvParams} (h : recvParams tb B rid o = .ok rp) :
    recvParams tb B rid { o with payload := c } = .ok rp ∨
    recvParams tb B rid { o with payload := c } = .error .protectionInvalid := by
  obtain ⟨option, u, s, hcode, hopt, hu, hids, hsel, hg, _, hn, ha, hr, hq⟩ := recvParams_ok_inv h
  by_cases hl : tb + 1 ≤ c.length
  · left
    have := recvParams_of_fields (tb := tb) (B := B) (rid := rid) (o := { o with payload := c })
      hcode hopt hu hids hsel hg hl hn
    rw [this]
    cases rp; simp_all
  · right
    have hl' : c.length < tb + 1 := by omega
    simp [recvParams, hcode, hopt, hu, hids, hsel, hg, hl']

theorem recvParams_payload_long {tb : Nat} {B : Ctx} {rid : Option ReqId} {o : Msg} {c : Bytes}
    {rp : RecvParams} (h : recvParams tb B rid o = .ok rp) (hl : tb + 1 ≤ c.length) :
    recvParams tb B rid { o with payload := c } = .ok rp := by
  rcases recvParams_payload_irrel (c := c) h with h1 | h1
  · exact h1
  · obtain ⟨option, u, s, hcode, hopt, hu, hids, hsel, hg, _, hn, ha, hr, hq⟩ := recvParams_ok_inv h
    have := recvParams_of_fields (tb := tb) (B := B) (rid := rid) (o := { o with payload := c })
      hcode hopt hu hids hsel hg hl hn
    rw [this] at h1; cases h1

theorem parsePlaintext_ne_nil {pt : Bytes} {inner : Msg} (h : parsePlaintext pt = some inner) :
    1 ≤ pt.length := by
  cases pt with
  | nil => simp [parsePlaintext] at h
  | cons x xs => simp

theorem padPiv_zero_cons {p : Bytes} (h : p.length < 5) : padPiv (0 :: p) = padPiv p := by
  simp only [padPiv, List.length_cons]
  have : 5 - p.length = (5 - (p.length + 1)) + 1 := by omega
  rw [this, List.replicate_succ', List.append_assoc]
  rfl

theorem beToNat_zero_cons (p : Bytes) : beToNat (0 :: p) = beToNat p := by
  rw [beToNat_cons]; simp

theorem wf_len_lt {B : Ctx} (hB : B.wf) {n : Nat} (h : n ≤ B.ivBytes - 6) : n < 2 ^ 32 := by
  have := hB.ivHi
  have : (255 : Nat) < 2 ^ 32 := by decide
  omega

theorem five_lt {n : Nat} (h : n ≤ 5) : n < 2 ^ 32 := by
  have : (5 : Nat) < 2 ^ 32 := by decide
  omega

end Aiocoap.Oscore.Prot
