import AiocoapModel.Oscore.Persist
import Proofs.Oscore.ReplayWindow
import Proofs.Oscore.PersistSeq
/-! Helper lemmas for C13, recipient side: what the disk says about the replay window. -/
namespace Aiocoap.Oscore.Persist
open Aiocoap.Oscore

/-- The three ways `unprotect` can go (restated from the C12 development so that this file
only depends on the replay-window lemmas). -/
theorem unprotect_cases (c : Ctx) (a : Arrival) :
    ((unprotect c a).1 = c ∧ (unprotect c a).2 ≠ .accepted) ∨
    (∃ w w', c.win = some w ∧ w.strikeOut a.seq = some w' ∧
        unprotect c a = ({ c with win := some w' }, .accepted)) ∨
    (c.win = none ∧
        unprotect c a = ({ c with win := some (RW.freshlySeen c.size a.seq) }, .accepted)) := by
  unfold unprotect
  cases hwin : c.win with
  | some w =>
    simp only
    by_cases hv : w.isValid a.seq = true
    · by_cases ha : a.authentic = true
      · obtain ⟨w', hst⟩ := RW.strikeOut_isSome hv
        right; left
        exact ⟨w, w', by simp, hst, by simp [hv, ha, hst]⟩
      · left; simp [hv, ha]
    · left
      by_cases he : c.echoRecovery.isNone = true <;> by_cases ha : a.authentic = true <;>
        simp [hv, he, ha]
  | none =>
    simp only
    by_cases he : c.echoRecovery.isNone = true
    · left; simp [he]
    · by_cases ha : a.authentic = true
      · by_cases hec : (a.echo == c.echoRecovery) = true
        · right; right
          exact ⟨by simp, by simp [he, ha, hec]⟩
        · left; simp [he, ha, hec]
      · left; simp [he, ha]

/-- how one arrival moves the in-memory window and what is reported -/
inductive WinStep (size : Nat) (win : Option RW) (a : Arrival) : Option RW → Out → Prop
  | refused (oc : Outcome) : WinStep size win a win (.refused oc)
  | strike (w w' : RW) : win = some w → w.strikeOut a.seq = some w' →
      WinStep size win a (some w') (.accepted a.seq false)
  | echo : win = none → WinStep size win a (some (RW.freshlySeen size a.seq)) (.accepted a.seq true)

/-- `strike_out` ran, so `_replay_window_changed` was called -/
def struck : Out → Bool
  | .accepted _ false => true
  | _ => false

/-- `recv` with the window step factored out -/
def recvResult (d : Dir) (m : Mem) (c : Option Nat) (win' : Option RW) (o : Out) : State × Out :=
  if struck o = true ∧ m.windowPersisted = true then
    ({ dir := store d { nextToSend := m.persisted, received := .unknown } c,
       mem := match c with
         | some _ => none
         | none => some { m with window := win', windowPersisted := false } },
     match c with | some _ => .died | none => o)
  else
    ({ dir := d, mem := match c with | some _ => none | none => some { m with window := win' } },
     match c with | some _ => .died | none => o)

theorem recv_spec (cfg : Cfg) (d : Dir) (m : Mem) (a : Arrival) (c : Option Nat) :
    ∃ win' o, WinStep cfg.size m.window a win' o ∧ recv cfg d m a c = recvResult d m c win' o := by
  have hc := unprotect_cases (Ctx.mk cfg.size m.window (some m.echo)) a
  rcases hc with ⟨h1, h2⟩ | ⟨w, w', hw, hst, h⟩ | ⟨hw, h⟩
  · refine ⟨m.window, Out.refused (unprotect (Ctx.mk cfg.size m.window (some m.echo)) a).2,
      WinStep.refused _, ?_⟩
    unfold recv recvResult
    simp only [h1, h2, struck]
    cases c <;> simp
  · simp only at hw
    refine ⟨some w', Out.accepted a.seq false, WinStep.strike w w' hw hst, ?_⟩
    unfold recv recvResult
    rw [hw] at h
    simp only [hw, h, struck]
    cases c <;> cases hp : m.windowPersisted <;> simp
  · simp only at hw
    refine ⟨_, Out.accepted a.seq true, WinStep.echo hw, ?_⟩
    unfold recv recvResult
    rw [hw] at h
    simp only [hw, h, struck]
    cases c <;> simp

-- the window a load would produce -----------------------------------------------------------

/-- the replay window a process loading this directory starts with -/
def diskWindow (cfg : Cfg) (d : Dir) : Option RW := (load cfg d 0).window

theorem load_window (cfg : Cfg) (d : Dir) (e : Nat) : (load cfg d e).window = diskWindow cfg d := by
  obtain ⟨seq, temps⟩ := d
  cases seq with
  | none => rfl
  | some f => obtain ⟨n, r⟩ := f; cases r <;> rfl

/-- `sequence.json` says `"unknown"` -/
def DiskUnknown (d : Dir) : Prop := ∃ f, d.seq = some f ∧ f.received = .unknown

theorem diskWindow_unknown {cfg : Cfg} {d : Dir} (h : DiskUnknown d) : diskWindow cfg d = none := by
  obtain ⟨f, hf, hr⟩ := h
  obtain ⟨seq, temps⟩ := d
  obtain ⟨n, r⟩ := f
  simp only at hf hr
  subst hf hr
  rfl

theorem load_wp_false {cfg : Cfg} {d : Dir} {e : Nat}
    (h : (load cfg d e).windowPersisted = false) : DiskUnknown d := by
  obtain ⟨seq, temps⟩ := d
  cases seq with
  | none => simp [load] at h
  | some f =>
    obtain ⟨n, r⟩ := f
    cases r with
    | unknown => exact ⟨_, rfl, rfl⟩
    | window w => simp [load] at h

theorem load_size {cfg : Cfg} {d : Dir} {e : Nat} {w : RW}
    (h : (load cfg d e).window = some w) : w.size = cfg.size := by
  obtain ⟨seq, temps⟩ := d
  cases seq with
  | none => simp [load, RW.empty] at h; subst h; rfl
  | some f =>
    obtain ⟨n, r⟩ := f
    cases r with
    | unknown => simp [load] at h
    | window ow =>
      cases ow with
      | none => simp [load] at h
      | some p => simp [load] at h; subst h; exact RW.fromPersisted_size _ _ _

/-- a completed store of `"unknown"` -/
theorem diskUnknown_store_unknown (d : Dir) (n : Nat) (c : Option Nat) (hc : completes c = true) :
    DiskUnknown (store d { nextToSend := n, received := .unknown } c) :=
  ⟨_, by rw [store_seq, hc]; rfl, rfl⟩

theorem diskUnknown_store_incomplete {d : Dir} (data : SeqFile) {c : Option Nat}
    (hc : completes c = false) (h : DiskUnknown d) : DiskUnknown (store d data c) := by
  obtain ⟨f, hf, hr⟩ := h
  exact ⟨f, by rw [store_seq, hc]; simpa using hf, hr⟩

theorem diskWindow_store_incomplete (cfg : Cfg) (d : Dir) (data : SeqFile) {c : Option Nat}
    (hc : completes c = false) : diskWindow cfg (store d data c) = diskWindow cfg d := by
  have : (store d data c).seq = d.seq := by rw [store_seq, hc]; rfl
  unfold diskWindow load
  rw [this]

/-- `initialize_from_persisted` of what `persist()` returned for this window -/
def reloaded (cfg : Cfg) (ow : Option RW) : Option RW :=
  ow.map fun w => RW.fromPersisted cfg.size w.index w.bitfield

/-- a completed store of a window reloads as that window put through `initialize_from_persisted` -/
theorem diskWindow_store_window (cfg : Cfg) (d : Dir) (n : Nat) (ow : Option RW) {c : Option Nat}
    (hc : completes c = true) :
    diskWindow cfg (store d { nextToSend := n, received := .window (persistWindow ow) } c)
      = reloaded cfg ow := by
  have : (store d { nextToSend := n, received := .window (persistWindow ow) } c).seq
      = some { nextToSend := n, received := .window (persistWindow ow) } := by
    rw [store_seq, hc]; rfl
  unfold diskWindow load reloaded
  rw [this]
  cases ow with
  | none => rfl
  | some w => rfl

/-- a window of the configured size without stray bits reloads as exactly itself -/
theorem reloaded_of_fits {cfg : Cfg} {w : RW} (hs : w.size = cfg.size)
    (hb : w.bitfield < 2 ^ cfg.size) : reloaded cfg (some w) = some w := by
  obtain ⟨sz, i, b⟩ := w
  simp only at hs hb
  subst hs
  simp [reloaded, RW.fromPersisted_of_fits hb]

end Aiocoap.Oscore.Persist
