import Proofs.Oscore.ProtUnprotect
/-! What the matching recipient computes for an honestly protected message. -/
namespace Aiocoap.Oscore.Prot

theorem outerCode_request {m : Msg} (h : isRequest m.code = true) :
    outerCode m none = 2 ∨ outerCode m none = 5 := by
  simp only [outerCode, h, if_true]
  split
  · exact Or.inr rfl
  · exact Or.inl rfl

theorem isResponse_of_post_fetch {c : Nat} (h : c = 2 ∨ c = 5) : isResponse c = false := by
  rcases h with h | h <;> subst h <;> rfl

theorem responseCode_isResponse (style : Nat) : isResponse (responseCode style) = true := by
  unfold responseCode; split <;> rfl

theorem responseCode_cases (style : Nat) : responseCode style = 68 ∨ responseCode style = 69 := by
  unfold responseCode; split
  · exact Or.inr rfl
  · exact Or.inl rfl

theorem reqUnprot_sendable {A : Ctx} (hA : A.wf) {seq : Nat} (hs : seq < maxSeqno) :
    (reqUnprot A seq).sendable := by
  refine ⟨?_, ?_⟩
  · intro p hp
    simp only [Option.some.injEq] at hp
    subst hp; exact ⟨(shortPiv_length hs).1, (shortPiv_length hs).2, shortPiv_minimal seq⟩
  · intro c hc
    exact hA.idctx c hc

theorem respUnprot_sendable (A : Ctx) {piv : Option Bytes}
    (hp : ∀ p, piv = some p → 1 ≤ p.length ∧ p.length ≤ 5 ∧ pivMinimal p = true) :
    (respUnprot A piv).sendable := by
  refine ⟨hp, ?_⟩
  intro c hc
  simp at hc

theorem uncompress_of_compress {u : Unprot} {o : Bytes} (hu : u.sendable) (h : compress u = some o) :
    uncompress o = some u := by
  obtain ⟨o', h1, h2⟩ := uncompress_compress u hu
  rw [h] at h1; cases h1; exact h2

theorem idsAcceptable_req {A B : Ctx} (hAB : Sends A B) (seq : Nat) (isResp : Bool) :
    idsAcceptable B isResp (reqUnprot A seq) = true := by
  simp only [idsAcceptable, hAB.id, beq_self_eq_true, Bool.and_true]
  rw [hAB.idctx]
  cases B.idContext <;> simp

theorem idsAcceptable_resp {A B : Ctx} (hAB : Sends A B) (piv : Option Bytes) :
    idsAcceptable B true (respUnprot A piv) = true := by
  simp only [idsAcceptable, respKid, Bool.true_and]
  split
  · rename_i k hk
    split at hk
    · cases hk; simp [hAB.id]
    · cases hk
  · rfl

/-- the matching recipient of an honest request derives exactly the sender's nonce and AAD -/
theorem recv_request {E : AEAD} {A B : Ctx} {seq : Nat} {m : Msg} {P : Protected}
    (hA : A.wf) (hAB : Sends A B) (h : protect E A seq m none = .ok P) :
    ∃ pt nonce,
      buildPlaintext m.code (innerOpts m) m.payload = some pt ∧
      constructNonce A.ivBytes A.commonIv (natToBE 5 seq) A.senderId = some nonce ∧
      P.outer.payload = E.enc A.senderKey nonce (aad A.algValue A.senderId (shortPiv seq)) pt ∧
      findOpt 6 P.outer.opts = findOpt 6 m.opts ∧
      recvParams E.tagBytes B none P.outer =
        .ok { nonce, aad := aad A.algValue A.senderId (shortPiv seq),
              rid := { kid := A.senderId, piv := shortPiv seq, canReuse := true,
                       style := P.outer.code },
              seqno := some seq } := by
  obtain ⟨hreq, hseq, _, pt, nonce, o, hpt, hn, hc, hP⟩ := protect_request_shape h
  subst hP
  refine ⟨pt, nonce, hpt, hn, rfl, by simp [findOpt_outerOpts_6, hreq], ?_⟩
  have hu := uncompress_of_compress (reqUnprot_sendable hA hseq) hc
  have hcode := outerCode_request hreq
  have hsel : selectPiv B none (outerCode m none) (reqUnprot A seq) =
      .ok { piv := shortPiv seq, gen := B.recipientId, seqno := some (beToNat (shortPiv seq)),
            rid := { kid := B.recipientId, piv := shortPiv seq, canReuse := true,
                     style := outerCode m none } } := by
    simp [selectPiv, hcode]
  have hlen : E.tagBytes + 1 ≤ (E.enc A.senderKey nonce
      (aad A.algValue A.senderId (shortPiv seq)) pt).length := by
    have := E.tagLen A.senderKey nonce (aad A.algValue A.senderId (shortPiv seq)) pt
    have := buildPlaintext_ne_nil hpt
    omega
  have hn' : constructNonce B.ivBytes B.commonIv (shortPiv seq) B.recipientId = some nonce := by
    rw [← hAB.iv, ← hAB.civ, ← hAB.id, constructNonce_shortPiv hseq]; exact hn
  have := recvParams_of_fields (tb := E.tagBytes) (B := B) (rid := none)
    (o := { code := outerCode m none, opts := outerOpts m o,
            payload := E.enc A.senderKey nonce (aad A.algValue A.senderId (shortPiv seq)) pt })
    (by simp [isResponse_of_post_fetch hcode]) (findOpt_outerOpts_9 m o) hu
    (idsAcceptable_req hAB seq _) hsel rfl hlen hn'
  rw [this]
  simp [hAB.alg, hAB.id, beToNat_shortPiv]

/-- the matching recipient of an honest response derives exactly the sender's nonce and AAD,
for both nonce modes; `rc` are the identifiers the requester kept, `r` those the responder got
from unprotecting the request -/
theorem recv_response {E : AEAD} {A B : Ctx} {seq : Nat} {m : Msg} {r rc : ReqId} {P : Protected}
    (hAB : Sends A B) (hk : rc.kid = r.kid) (hp : rc.piv = r.piv)
    (h : protect E A seq m (some r) = .ok P) :
    ∃ pt nonce,
      buildPlaintext m.code m.opts m.payload = some pt ∧
      P.outer.payload = E.enc A.senderKey nonce (aad A.algValue r.kid r.piv) pt ∧
      P.outer.code = responseCode r.style ∧
      findOpt 6 P.outer.opts = none ∧
      ((r.canReuse = true ∧ constructNonce B.ivBytes B.commonIv rc.piv rc.kid = some nonce) ∨
       (r.canReuse = false ∧ seq < maxSeqno ∧
        constructNonce B.ivBytes B.commonIv (shortPiv seq) B.recipientId = some nonce)) ∧
      recvParams E.tagBytes B (some rc) P.outer =
        .ok { nonce, aad := aad A.algValue r.kid r.piv, rid := rc,
              seqno := if r.canReuse then none else some seq } := by
  obtain ⟨_, _, pt, nonce, o, hpt, hmode, hP⟩ := protect_response_shape h
  have hnonce : (r.canReuse = true ∧ constructNonce B.ivBytes B.commonIv rc.piv rc.kid = some nonce) ∨
      (r.canReuse = false ∧ seq < maxSeqno ∧
        constructNonce B.ivBytes B.commonIv (shortPiv seq) B.recipientId = some nonce) := by
    rcases hmode with ⟨hcr, hn, _⟩ | ⟨hcr, hseq, hn, _⟩
    · left; refine ⟨hcr, ?_⟩
      rw [← hAB.iv, ← hAB.civ, hk, hp]; exact hn
    · right; refine ⟨hcr, hseq, ?_⟩
      rw [← hAB.iv, ← hAB.civ, ← hAB.id, constructNonce_shortPiv hseq]; exact hn
  refine ⟨pt, nonce, hpt, by rw [hP], by rw [hP], by rw [hP]; simp [findOpt], hnonce, ?_⟩
  have hlen : E.tagBytes + 1 ≤ (E.enc A.senderKey nonce (aad A.algValue r.kid r.piv) pt).length := by
    have := E.tagLen A.senderKey nonce (aad A.algValue r.kid r.piv) pt
    have := buildPlaintext_ne_nil hpt
    omega
  rw [hP]
  rcases hmode with ⟨hcr, hn, hc, _, _⟩ | ⟨hcr, hseq, hn, hc, _, _⟩
  · have hu := uncompress_of_compress (respUnprot_sendable A (piv := none) (by intro p hp; cases hp)) hc
    have hsel : selectPiv B (some rc) (responseCode r.style) (respUnprot A none) =
        .ok { piv := rc.piv, gen := rc.kid, seqno := none, rid := rc } := by
      simp [selectPiv]
    have hn' : constructNonce B.ivBytes B.commonIv rc.piv rc.kid = some nonce := by
      rw [← hAB.iv, ← hAB.civ, hk, hp]; exact hn
    have := recvParams_of_fields (tb := E.tagBytes) (B := B) (rid := some rc)
      (o := { code := responseCode r.style, opts := [(9, o)],
              payload := E.enc A.senderKey nonce (aad A.algValue r.kid r.piv) pt })
      (by simp [responseCode_isResponse]) (by simp [findOpt]) hu
      (by simp only [responseCode_isResponse]; exact idsAcceptable_resp hAB none) hsel rfl hlen hn'
    rw [this]
    simp [hAB.alg, hk, hp, hcr]
  · have hu := uncompress_of_compress (respUnprot_sendable A (piv := some (shortPiv seq))
      (by intro p hp; cases hp
          exact ⟨(shortPiv_length hseq).1, (shortPiv_length hseq).2, shortPiv_minimal seq⟩)) hc
    have hsel : selectPiv B (some rc) (responseCode r.style) (respUnprot A (some (shortPiv seq))) =
        .ok { piv := shortPiv seq, gen := B.recipientId, seqno := some (beToNat (shortPiv seq)),
              rid := rc } := by
      simp [selectPiv]
    have hn' : constructNonce B.ivBytes B.commonIv (shortPiv seq) B.recipientId = some nonce := by
      rw [← hAB.iv, ← hAB.civ, ← hAB.id, constructNonce_shortPiv hseq]; exact hn
    have := recvParams_of_fields (tb := E.tagBytes) (B := B) (rid := some rc)
      (o := { code := responseCode r.style, opts := [(9, o)],
              payload := E.enc A.senderKey nonce (aad A.algValue r.kid r.piv) pt })
      (by simp [responseCode_isResponse]) (by simp [findOpt]) hu
      (by simp only [responseCode_isResponse]; exact idsAcceptable_resp hAB _) hsel rfl hlen hn'
    rw [this]
    simp [hAB.alg, hk, hp, hcr, beToNat_shortPiv]

end Aiocoap.Oscore.Prot
