import AiocoapModel.Oscore.Compress
/-! `_uncompress ∘ _compress` is the identity on everything `protect` sends. -/
namespace Aiocoap.Oscore.Prot

/-- header maps `protect` can produce: a Partial IV of 1..5 bytes if any, a KID context of at
most 255 bytes if any -/
def Unprot.sendable (u : Unprot) : Prop :=
  (∀ p, u.piv = some p → 1 ≤ p.length ∧ p.length ≤ 5) ∧
  (∀ c, u.kidContext = some c → c.length ≤ 255)

/-- `uncompress` in terms of the decoded flag bits -/
theorem uncompress_cons (fb : Nat) (tail : Bytes) (n k h g : Nat)
    (hfb : fb = n + 8 * k + 16 * h + 32 * g)
    (hn : n ≤ 5) (hk : k ≤ 1) (hh : h ≤ 1) (hg : g ≤ 1) :
    uncompress (fb :: tail) =
      if tail.length < n then none else
      if h = 1 then
        match tail.drop n with
        | [] => none
        | s :: t =>
          if t.length < s then none else
          some { piv := if n = 0 then none else some (tail.take n), kidContext := some (t.take s),
                 kid := if k = 1 then some (t.drop s) else none, group := decide (g = 1) }
      else
        some { piv := if n = 0 then none else some (tail.take n), kidContext := none,
               kid := if k = 1 then some (tail.drop n) else none, group := decide (g = 1) } := by
  have f1 : fb / 64 % 4 = 0 := by omega
  have f2 : fb % 8 = n := by omega
  have f3 : fb / 8 % 2 = k := by omega
  have f4 : fb / 16 % 2 = h := by omega
  have f5 : fb / 32 % 2 = g := by omega
  simp only [uncompress, f1, f2, f3, f4, f5, ne_eq, not_true_eq_false, if_false]
  rw [if_neg (by omega)]
  rfl

theorem uncompress_compress (u : Unprot) (hu : u.sendable) :
    ∃ o, compress u = some o ∧ uncompress o = some u := by
  obtain ⟨piv, kid, ctx, g⟩ := u
  obtain ⟨hp, hc⟩ := hu
  simp only at hp hc
  cases ctx with
  | some c =>
    have hcl := hc c rfl
    cases piv with
    | none =>
      cases kid with
      | none =>
        cases g with
        | false =>
          refine ⟨16 :: (c.length :: c), by simp [compress]; omega, ?_⟩
          rw [uncompress_cons 16 _ 0 0 1 0 (by omega) (by omega) (by omega) (by omega) (by omega)]
          simp
        | true =>
          refine ⟨48 :: (c.length :: c), by simp [compress]; omega, ?_⟩
          rw [uncompress_cons 48 _ 0 0 1 1 (by omega) (by omega) (by omega) (by omega) (by omega)]
          simp
      | some k =>
        cases g with
        | false =>
          refine ⟨24 :: (c.length :: c ++ k), by simp [compress]; omega, ?_⟩
          rw [uncompress_cons 24 _ 0 1 1 0 (by omega) (by omega) (by omega) (by omega) (by omega)]
          simp
        | true =>
          refine ⟨56 :: (c.length :: c ++ k), by simp [compress]; omega, ?_⟩
          rw [uncompress_cons 56 _ 0 1 1 1 (by omega) (by omega) (by omega) (by omega) (by omega)]
          simp
    | some p =>
      have h1 := (hp p rfl).1
      have h2 := (hp p rfl).2
      have hne : p.length ≠ 0 := by omega
      cases kid with
      | none =>
        cases g with
        | false =>
          refine ⟨(p.length + 16) :: (p ++ (c.length :: c)), by simp [compress]; omega, ?_⟩
          rw [uncompress_cons _ _ p.length 0 1 0 (by omega) (by omega) (by omega) (by omega) (by omega)]
          simp [hne]
        | true =>
          refine ⟨(p.length + 16 + 32) :: (p ++ (c.length :: c)), by simp [compress]; omega, ?_⟩
          rw [uncompress_cons _ _ p.length 0 1 1 (by omega) (by omega) (by omega) (by omega) (by omega)]
          simp [hne]
      | some k =>
        cases g with
        | false =>
          refine ⟨(p.length + 8 + 16) :: (p ++ (c.length :: c) ++ k), by simp [compress]; omega, ?_⟩
          rw [uncompress_cons _ _ p.length 1 1 0 (by omega) (by omega) (by omega) (by omega) (by omega)]
          simp [hne]
        | true =>
          refine ⟨(p.length + 8 + 16 + 32) :: (p ++ (c.length :: c) ++ k), by simp [compress]; omega, ?_⟩
          rw [uncompress_cons _ _ p.length 1 1 1 (by omega) (by omega) (by omega) (by omega) (by omega)]
          simp [hne]
  | none =>
    cases piv with
    | none =>
      cases kid with
      | none =>
        cases g with
        | false => exact ⟨[], by simp [compress], by simp [uncompress, Unprot.empty]⟩
        | true =>
          refine ⟨[32], by simp [compress], ?_⟩
          rw [uncompress_cons 32 _ 0 0 0 1 (by omega) (by omega) (by omega) (by omega) (by omega)]
          simp
      | some k =>
        cases g with
        | false =>
          refine ⟨8 :: k, by simp [compress], ?_⟩
          rw [uncompress_cons 8 _ 0 1 0 0 (by omega) (by omega) (by omega) (by omega) (by omega)]
          simp
        | true =>
          refine ⟨40 :: k, by simp [compress], ?_⟩
          rw [uncompress_cons 40 _ 0 1 0 1 (by omega) (by omega) (by omega) (by omega) (by omega)]
          simp
    | some p =>
      have h1 := (hp p rfl).1
      have h2 := (hp p rfl).2
      have hne : p.length ≠ 0 := by omega
      cases kid with
      | none =>
        cases g with
        | false =>
          refine ⟨p.length :: p, ?_, ?_⟩
          · simp [compress]
            exact ⟨by omega, by intro h; subst h; simp at h1⟩
          · rw [uncompress_cons _ _ p.length 0 0 0 (by omega) (by omega) (by omega) (by omega) (by omega)]
            simp [hne]
        | true =>
          refine ⟨(p.length + 32) :: p, by simp [compress]; omega, ?_⟩
          rw [uncompress_cons _ _ p.length 0 0 1 (by omega) (by omega) (by omega) (by omega) (by omega)]
          simp [hne]
      | some k =>
        cases g with
        | false =>
          refine ⟨(p.length + 8) :: (p ++ k), by simp [compress]; omega, ?_⟩
          rw [uncompress_cons _ _ p.length 1 0 0 (by omega) (by omega) (by omega) (by omega) (by omega)]
          simp [hne]
        | true =>
          refine ⟨(p.length + 8 + 32) :: (p ++ k), by simp [compress]; omega, ?_⟩
          rw [uncompress_cons _ _ p.length 1 0 1 (by omega) (by omega) (by omega) (by omega) (by omega)]
          simp [hne]

end Aiocoap.Oscore.Prot
