import AiocoapModel.Oscore.Compress
/-! `_uncompress ∘ _compress` is the identity on everything `protect` sends. -/
namespace Aiocoap.Oscore.Prot

/-- header maps `protect` can produce: a Partial IV of 1..5 bytes in its shortest form if any, a
KID context of at most 255 bytes if any -/
def Unprot.sendable (u : Unprot) : Prop :=
  (∀ p, u.piv = some p → 1 ≤ p.length ∧ p.length ≤ 5 ∧ pivMinimal p = true) ∧
  (∀ c, u.kidContext = some c → c.length ≤ 255)

/-- `uncompress` in terms of the decoded flag bits -/
theorem uncompress_cons (fb : Nat) (tail : Bytes) (n k h g : Nat)
    (hfb : fb = n + 8 * k + 16 * h + 32 * g) (hpos : fb ≠ 0)
    (hn : n ≤ 5) (hk : k ≤ 1) (hh : h ≤ 1) (hg : g ≤ 1) :
    uncompress (fb :: tail) =
      if tail.length < n then none else
      if pivMinimal (tail.take n) = false then none else
      if h = 1 then
        match tail.drop n with
        | [] => none
        | s :: t =>
          if t.length < s then none else
          if k = 1 then
            some { piv := if n = 0 then none else some (tail.take n), kidContext := some (t.take s),
                   kid := some (t.drop s), group := decide (g = 1) }
          else if t.length ≠ s then none
          else some { piv := if n = 0 then none else some (tail.take n),
                      kidContext := some (t.take s), kid := none, group := decide (g = 1) }
      else
        if k = 1 then
          some { piv := if n = 0 then none else some (tail.take n), kidContext := none,
                 kid := some (tail.drop n), group := decide (g = 1) }
        else if (tail.drop n).length ≠ 0 then none
        else some { piv := if n = 0 then none else some (tail.take n), kidContext := none,
                    kid := none, group := decide (g = 1) } := by
  have f1 : fb / 64 % 4 = 0 := by omega
  have f2 : fb % 8 = n := by omega
  have f3 : fb / 8 % 2 = k := by omega
  have f4 : fb / 16 % 2 = h := by omega
  have f5 : fb / 32 % 2 = g := by omega
  simp only [uncompress, f1, f2, f3, f4, f5, ne_eq, not_true_eq_false, if_false, hpos]
  rw [if_neg (by omega)]
  simp only [Bool.not_eq_true']
  rfl

theorem uncompress_compress (u : Unprot) (hu : u.sendable) :
    ∃ o, compress u = some o ∧ uncompress o = some u := by
  obtain ⟨piv, kid, ctx, g⟩ := u
  obtain ⟨hp, hc⟩ := hu
  simp only at hp hc
  cases ctx with
  | some c =>
    have hcl := hc c rfl
    cases piv with
    | none =>
      cases kid with
      | none =>
        cases g with
        | false =>
          refine ⟨16 :: (c.length :: c), by simp [compress]; omega, ?_⟩
          rw [uncompress_cons 16 _ 0 0 1 0 (by omega) (by omega) (by omega) (by omega) (by omega) (by omega)]
          simp [pivMinimal]
        | true =>
          refine ⟨48 :: (c.length :: c), by simp [compress]; omega, ?_⟩
          rw [uncompress_cons 48 _ 0 0 1 1 (by omega) (by omega) (by omega) (by omega) (by omega) (by omega)]
          simp [pivMinimal]
      | some k =>
        cases g with
        | false =>
          refine ⟨24 :: (c.length :: c ++ k), by simp [compress]; omega, ?_⟩
          rw [uncompress_cons 24 _ 0 1 1 0 (by omega) (by omega) (by omega) (by omega) (by omega) (by omega)]
          simp [pivMinimal]
        | true =>
          refine ⟨56 :: (c.length :: c ++ k), by simp [compress]; omega, ?_⟩
          rw [uncompress_cons 56 _ 0 1 1 1 (by omega) (by omega) (by omega) (by omega) (by omega) (by omega)]
          simp [pivMinimal]
    | some p =>
      have h1 := (hp p rfl).1
      have h2 := (hp p rfl).2.1
      have hmin := (hp p rfl).2.2
      have hne : p.length ≠ 0 := by omega
      cases kid with
      | none =>
        cases g with
        | false =>
          refine ⟨(p.length + 16) :: (p ++ (c.length :: c)), by simp [compress]; omega, ?_⟩
          rw [uncompress_cons _ _ p.length 0 1 0 (by omega) (by omega) (by omega) (by omega) (by omega) (by omega)]
          simp [hne, hmin]
        | true =>
          refine ⟨(p.length + 16 + 32) :: (p ++ (c.length :: c)), by simp [compress]; omega, ?_⟩
          rw [uncompress_cons _ _ p.length 0 1 1 (by omega) (by omega) (by omega) (by omega) (by omega) (by omega)]
          simp [hne, hmin]
      | some k =>
        cases g with
        | false =>
          refine ⟨(p.length + 8 + 16) :: (p ++ (c.length :: c) ++ k), by simp [compress]; omega, ?_⟩
          rw [uncompress_cons _ _ p.length 1 1 0 (by omega) (by omega) (by omega) (by omega) (by omega) (by omega)]
          simp [hne, hmin]
        | true =>
          refine ⟨(p.length + 8 + 16 + 32) :: (p ++ (c.length :: c) ++ k), by simp [compress]; omega, ?_⟩
          rw [uncompress_cons _ _ p.length 1 1 1 (by omega) (by omega) (by omega) (by omega) (by omega) (by omega)]
          simp [hne, hmin]
  | none =>
    cases piv with
    | none =>
      cases kid with
      | none =>
        cases g with
        | false => exact ⟨[], by simp [compress], by simp [uncompress, Unprot.empty]⟩
        | true =>
          refine ⟨[32], by simp [compress], ?_⟩
          rw [uncompress_cons 32 _ 0 0 0 1 (by omega) (by omega) (by omega) (by omega) (by omega) (by omega)]
          simp [pivMinimal]
      | some k =>
        cases g with
        | false =>
          refine ⟨8 :: k, by simp [compress], ?_⟩
          rw [uncompress_cons 8 _ 0 1 0 0 (by omega) (by omega) (by omega) (by omega) (by omega) (by omega)]
          simp [pivMinimal]
        | true =>
          refine ⟨40 :: k, by simp [compress], ?_⟩
          rw [uncompress_cons 40 _ 0 1 0 1 (by omega) (by omega) (by omega) (by omega) (by omega) (by omega)]
          simp [pivMinimal]
    | some p =>
      have h1 := (hp p rfl).1
      have h2 := (hp p rfl).2.1
      have hmin := (hp p rfl).2.2
      have hne : p.length ≠ 0 := by omega
      cases kid with
      | none =>
        cases g with
        | false =>
          refine ⟨p.length :: p, ?_, ?_⟩
          · simp [compress]
            exact ⟨by omega, by intro h; subst h; simp at h1⟩
          · rw [uncompress_cons _ _ p.length 0 0 0 (by omega) (by omega) (by omega) (by omega) (by omega) (by omega)]
            simp [hne, hmin]
        | true =>
          refine ⟨(p.length + 32) :: p, by simp [compress]; omega, ?_⟩
          rw [uncompress_cons _ _ p.length 0 0 1 (by omega) (by omega) (by omega) (by omega) (by omega) (by omega)]
          simp [hne, hmin]
      | some k =>
        cases g with
        | false =>
          refine ⟨(p.length + 8) :: (p ++ k), by simp [compress]; omega, ?_⟩
          rw [uncompress_cons _ _ p.length 1 0 0 (by omega) (by omega) (by omega) (by omega) (by omega) (by omega)]
          simp [hne, hmin]
        | true =>
          refine ⟨(p.length + 8 + 32) :: (p ++ k), by simp [compress]; omega, ?_⟩
          rw [uncompress_cons _ _ p.length 1 0 1 (by omega) (by omega) (by omega) (by omega) (by omega) (by omega)]
          simp [hne, hmin]

/-- the Partial IV `_uncompress` hands out is in its shortest form, 1..5 bytes long -/
theorem uncompress_piv_minimal {o : Bytes} {u : Unprot} (h : uncompress o = some u) :
    ∀ p, u.piv = some p → pivMinimal p = true := by
  intro p hp
  unfold uncompress at h
  split at h
  · cases h; cases hp
  · rename_i fb tail
    simp only at h
    repeat' split at h
    all_goals (try (cases h))
    all_goals (try (cases hp))
    all_goals simp_all


/-- **`_compress` inverts `_uncompress`**: whatever option value `_uncompress` accepts is exactly
the encoding of the header it returns.  (`o.wf`: the option value consists of bytes.) -/
theorem compress_uncompress {o : Bytes} {u : Unprot} (hwf : o.wf) (h : uncompress o = some u) :
    compress u = some o := by
  cases o with
  | nil => simp [uncompress] at h; subst h; simp [compress, Unprot.empty]
  | cons fb tail =>
    have hfb : fb < 256 := hwf fb (by simp)
    have h0 : fb ≠ 0 := by
      intro h0; simp [uncompress, h0] at h
    have hres : fb / 64 % 4 = 0 := by
      by_cases hres : fb / 64 % 4 = 0
      · exact hres
      · simp [uncompress, h0, hres] at h
    have hn : fb % 8 ≤ 5 := by
      by_cases hn : fb % 8 ≤ 5
      · exact hn
      · simp [uncompress, h0, hres] at h; omega
    obtain ⟨n, k, hh, g, hfbeq, hn', hk, hhh, hg⟩ : ∃ n k hh g, fb = n + 8 * k + 16 * hh + 32 * g ∧
        n ≤ 5 ∧ k ≤ 1 ∧ hh ≤ 1 ∧ g ≤ 1 :=
      ⟨fb % 8, fb / 8 % 2, fb / 16 % 2, fb / 32 % 2, by omega, hn, by omega, by omega, by omega⟩
    rw [uncompress_cons fb tail n k hh g hfbeq h0 hn' hk hhh hg] at h
    subst hfbeq
    split at h
    · cases h
    rename_i hlen
    split at h
    · cases h
    have htl : (tail.take n).length = n := by simp; omega
    have hk : k = 0 ∨ k = 1 := by omega
    have hhh : hh = 0 ∨ hh = 1 := by omega
    have hg : g = 0 ∨ g = 1 := by omega
    rcases hhh with rfl | rfl
    · -- no KID context
      simp only [Nat.zero_ne_one, if_false] at h
      rcases hk with rfl | rfl
      · simp only [Nat.zero_ne_one, if_false] at h
        split at h
        · cases h
        rename_i hex
        have hnil : tail.drop n = [] := List.eq_nil_of_length_eq_zero (by omega)
        have htail : tail.take n = tail := by
          have := List.take_append_drop n tail
          rw [hnil, List.append_nil] at this; exact this
        cases h
        have hn0' : n = 0 → tail = [] := by
          intro hn0; subst hn0; simpa using hnil
        have hlt : tail.length = n := by rw [← htail]; exact htl
        rcases hg with rfl | rfl <;> by_cases hn0 : n = 0 <;>
          simp [compress, hn0, hlt, htail] <;> (try omega)
        all_goals (first | exact hn0' hn0 | skip)
        all_goals (
          have : tail ≠ [] := by intro h; rw [h] at hlt; simp at hlt; omega
          simp [this]; omega)
      · simp only [if_true] at h
        cases h
        have htd := List.take_append_drop n tail
        rcases hg with rfl | rfl <;> by_cases hn0 : n = 0 <;>
          simp [compress, hn0, htl, htd] <;> (try omega)
    · -- KID context
      simp only [if_true] at h
      split at h
      · cases h
      rename_i s t hdrop
      have hs : s < 256 := hwf s (by
        have : s ∈ tail.drop n := by rw [hdrop]; simp
        exact List.mem_cons_of_mem _ (List.mem_of_mem_drop this))
      split at h
      · cases h
      rename_i hts
      have hcl : (t.take s).length = s := by simp; omega
      have htd : tail.take n ++ s :: t = tail := by
        rw [← hdrop]; exact List.take_append_drop n tail
      rcases hk with rfl | rfl
      · simp only [Nat.zero_ne_one, if_false] at h
        split at h
        · cases h
        rename_i hex
        have hex : t.length = s := by omega
        have htake : t.take s = t := by rw [← hex]; exact List.take_length
        have hdn : t.drop s = [] := by rw [← hex]; exact List.drop_length
        cases h
        rcases hg with rfl | rfl <;> by_cases hn0 : n = 0 <;>
          (try simp [hn0] at htd) <;> simp [compress, hn0, htl, hcl, htd, htake, hex] <;> (try omega)
      · simp only [if_true] at h
        cases h
        rcases hg with rfl | rfl <;> by_cases hn0 : n = 0 <;>
          (try simp [hn0] at htd) <;> simp [compress, hn0, htl, hcl, htd] <;> (try omega)

/-- **`_uncompress` is injective**: two option values that decode to the same header are the same
bytes.  Hence every change to the bytes of an OSCORE option either makes it undecodable or
changes a decoded field (Partial IV, KID, KID context or the group flag). -/
theorem uncompress_injective {o o' : Bytes} {u : Unprot} (hwf : o.wf) (hwf' : o'.wf)
    (h : uncompress o = some u) (h' : uncompress o' = some u) : o = o' := by
  have := compress_uncompress hwf h
  rw [compress_uncompress hwf' h'] at this
  exact (Option.some.inj this).symm

end Aiocoap.Oscore.Prot
