import AiocoapModel.Oscore.Nonce
import AiocoapModel.Oscore.Protect
import Proofs.Oscore.ProtBytes
/-! `_construct_nonce`: defined on admissible inputs, injective in (generator id, numeric PIV). -/
namespace Aiocoap.Oscore.Prot

theorem xor_cancel {a x y : Nat} (h : a ^^^ x = a ^^^ y) : x = y := by
  have := congrArg (fun t => a ^^^ t) h
  simp only [← Nat.xor_assoc, Nat.xor_self, Nat.zero_xor] at this
  exact this

theorem zipWith_xor_inj : ∀ (a x y : Bytes), a.length = x.length → a.length = y.length →
    List.zipWith (· ^^^ ·) a x = List.zipWith (· ^^^ ·) a y → x = y
  | [], [], [], _, _, _ => rfl
  | [], _ :: _, _, h, _, _ => by simp at h
  | [], [], _ :: _, _, h, _ => by simp at h
  | _ :: _, [], _, h, _, _ => by simp at h
  | _ :: _, _ :: _, [], _, h, _ => by simp at h
  | a :: as, x :: xs, y :: ys, hx, hy, h => by
    simp only [List.zipWith_cons_cons, List.cons.injEq] at h
    simp only [List.length_cons, Nat.add_right_cancel_iff] at hx hy
    rw [xor_cancel h.1, zipWith_xor_inj as xs ys hx hy h.2]

theorem xorBytes_inj {a x y r : Bytes} (hx : xorBytes a x = some r) (hy : xorBytes a y = some r) :
    x = y := by
  unfold xorBytes at hx hy
  by_cases h1 : a.length = x.length
  · by_cases h2 : a.length = y.length
    · rw [if_pos h1] at hx; rw [if_pos h2] at hy
      exact zipWith_xor_inj a x y h1 h2 (by rw [Option.some.inj hx, Option.some.inj hy])
    · rw [if_neg h2] at hy; cases hy
  · rw [if_neg h1] at hx; cases hx

theorem padPiv_length {piv : Bytes} (h : piv.length ≤ 5) : (padPiv piv).length = 5 := by
  simp [padPiv]; omega

theorem nonceComponents_length {iv : Nat} {piv id : Bytes} (hiv : 6 ≤ iv)
    (hid : id.length ≤ iv - 6) (hp : piv.length ≤ 5) :
    (nonceComponents iv piv id).length = iv := by
  simp [nonceComponents, padPiv_length hp]; omega

/-- on admissible inputs the nonce exists -/
theorem constructNonce_isSome {iv : Nat} {civ piv id : Bytes} (hiv : 6 ≤ iv)
    (hciv : iv ≤ civ.length) (hid : id.length ≤ iv - 6) (hp : piv.length ≤ 5) :
    ∃ n, constructNonce iv civ piv id = some n := by
  have hl := nonceComponents_length hiv hid hp
  simp only [constructNonce, xorBytes, hl]
  rw [if_pos (by simp; omega)]
  exact ⟨_, rfl⟩

/-- the nonce only depends on the padded Partial IV -/
theorem constructNonce_padPiv_congr {iv : Nat} {civ piv piv' id : Bytes}
    (h : padPiv piv = padPiv piv') :
    constructNonce iv civ piv id = constructNonce iv civ piv' id := by
  simp [constructNonce, nonceComponents, h]

theorem padPiv_full {piv : Bytes} (h : piv.length = 5) : padPiv piv = piv := by
  simp [padPiv, h]

theorem shortPiv_length {seq : Nat} (h : seq < maxSeqno) :
    1 ≤ (shortPiv seq).length ∧ (shortPiv seq).length ≤ 5 := by
  unfold shortPiv
  split
  · simp
  · rename_i hne
    rw [natToMinBE_length]
    have : byteLen seq ≤ 5 := byteLen_le (by simp [maxSeqno] at h; omega)
    rw [byteLen_pos hne]; rw [byteLen_pos hne] at this
    omega

/-- what the sender puts on the wire is in the shortest form -/
theorem shortPiv_minimal (seq : Nat) : pivMinimal (shortPiv seq) = true := by
  unfold shortPiv
  split
  · rfl
  · rename_i hne
    obtain ⟨x, rest, hx, hx0⟩ := natToMinBE_head hne
    rw [hx]
    cases x with
    | zero => exact absurd rfl hx0
    | succ x => cases rest <;> rfl

/-- two Partial IVs in shortest form that pad to the same five bytes are the same bytes -/
theorem padPiv_inj_of_minimal {p q : Bytes} (hp : pivMinimal p = true) (hq : pivMinimal q = true)
    (hp1 : 1 ≤ p.length) (hp5 : p.length ≤ 5) (hq1 : 1 ≤ q.length) (hq5 : q.length ≤ 5)
    (h : padPiv p = padPiv q) : p = q := by
  have aux : ∀ (a b : Bytes), pivMinimal a = true → 1 ≤ b.length → b.length < a.length →
      a.length ≤ 5 → padPiv a = padPiv b → False := by
    intro a b ha hb1 hlt ha5 hab
    unfold padPiv at hab
    have hsplit : List.replicate (5 - b.length) 0 =
        List.replicate (5 - a.length) 0 ++ List.replicate (a.length - b.length) 0 := by
      rw [List.replicate_append_replicate]; congr 1; omega
    rw [hsplit, List.append_assoc] at hab
    have hab := List.append_cancel_left hab
    -- `a` starts with a zero byte and is longer than one byte
    have hpos : a.length - b.length = (a.length - b.length - 1) + 1 := by omega
    rw [hpos, List.replicate_succ] at hab
    cases a with
    | nil => simp at hlt
    | cons x xs =>
      cases xs with
      | nil => simp only [List.length_cons, List.length_nil] at hlt; omega
      | cons y ys =>
        simp only [List.cons_append, List.cons.injEq] at hab
        rw [hab.1] at ha
        simp [pivMinimal] at ha
  rcases Nat.lt_trichotomy p.length q.length with hlt | heq | hgt
  · exact (aux q p hq hp1 hlt hq5 h.symm).elim
  · unfold padPiv at h
    rw [heq] at h
    exact List.append_cancel_left h
  · exact (aux p q hp hq1 hgt hp5 h).elim

/-- `partial_iv.lstrip(b"\0") or b"\0"` pads back to the 5-byte sequence number -/
theorem padPiv_shortPiv {seq : Nat} (h : seq < maxSeqno) : padPiv (shortPiv seq) = natToBE 5 seq := by
  unfold shortPiv
  split
  · rename_i h0; subst h0; rw [natToBE_zero]; rfl
  · have hb : byteLen seq ≤ 5 := byteLen_le (by simp [maxSeqno] at h; omega)
    rw [natToBE_eq_pad 5 seq hb, padPiv, natToMinBE_length]

theorem beToNat_shortPiv (seq : Nat) : beToNat (shortPiv seq) = seq := by
  unfold shortPiv
  split
  · rename_i h; subst h; rfl
  · exact beToNat_natToMinBE seq

/-- the sender's nonce (5-byte sequence number) is the recipient's nonce (short Partial IV) -/
theorem constructNonce_shortPiv {iv : Nat} {civ id : Bytes} {seq : Nat} (h : seq < maxSeqno) :
    constructNonce iv civ (shortPiv seq) id = constructNonce iv civ (natToBE 5 seq) id := by
  apply constructNonce_padPiv_congr
  rw [padPiv_shortPiv h, padPiv_full (natToBE_length 5 seq)]

theorem beToNat_padPiv (piv : Bytes) : beToNat (padPiv piv) = beToNat piv := by
  simp [padPiv, beToNat_zeros_append]

/-- **nonce injectivity**: for a fixed common IV and nonce length, equal nonces come from the
same generator id and the same padded (hence numerically equal) Partial IV -/
theorem constructNonce_inj {iv : Nat} {civ piv id piv' id' n : Bytes} (hiv : 6 ≤ iv)
    (hid : id.length ≤ iv - 6) (hp : piv.length ≤ 5)
    (hid' : id'.length ≤ iv - 6) (hp' : piv'.length ≤ 5)
    (h : constructNonce iv civ piv id = some n) (h' : constructNonce iv civ piv' id' = some n) :
    id = id' ∧ padPiv piv = padPiv piv' := by
  have hl := nonceComponents_length hiv hid hp
  have hl' := nonceComponents_length hiv hid' hp'
  simp only [constructNonce, hl, hl'] at h h'
  have hc := xorBytes_inj h h'
  simp only [nonceComponents, List.cons.injEq] at hc
  obtain ⟨hlen, hrest⟩ := hc
  rw [hlen, List.append_assoc, List.append_assoc] at hrest
  have h2 := List.append_cancel_left hrest
  exact List.append_inj h2 hlen

end Aiocoap.Oscore.Prot
