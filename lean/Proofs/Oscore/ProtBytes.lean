import AiocoapModel.Basic.Bytes
/-! Big-endian helper lemmas used by the C11 proofs (core Lean only). -/
namespace Aiocoap.Oscore.Prot

theorem foldl_be (l : Bytes) (acc : Nat) :
    l.foldl (fun a x => a * 256 + x) acc = acc * 256 ^ l.length + beToNat l := by
  induction l generalizing acc with
  | nil => simp [beToNat]
  | cons x l ih =>
    simp only [List.foldl_cons, List.length_cons, beToNat]
    rw [ih, ih (0 * 256 + x)]
    simp only [Nat.pow_succ, Nat.zero_mul, Nat.zero_add]
    rw [Nat.add_mul, Nat.mul_assoc, Nat.mul_comm 256 (256 ^ l.length), Nat.add_assoc]

theorem beToNat_nil : beToNat [] = 0 := rfl

theorem beToNat_cons (x : Nat) (l : Bytes) : beToNat (x :: l) = x * 256 ^ l.length + beToNat l := by
  simp only [beToNat, List.foldl_cons]
  rw [foldl_be]; simp [beToNat]

theorem beToNat_append (a b : Bytes) :
    beToNat (a ++ b) = beToNat a * 256 ^ b.length + beToNat b := by
  simp only [beToNat, List.foldl_append]
  rw [foldl_be]; simp [beToNat]

theorem beToNat_replicate_zero (k : Nat) : beToNat (List.replicate k 0) = 0 := by
  induction k with
  | zero => rfl
  | succ k ih => rw [List.replicate_succ, beToNat_cons, ih]; simp

theorem beToNat_zeros_append (k : Nat) (b : Bytes) : beToNat (List.replicate k 0 ++ b) = beToNat b := by
  rw [beToNat_append, beToNat_replicate_zero]; simp

theorem natToBE_length (n v : Nat) : (natToBE n v).length = n := by
  induction n generalizing v with
  | zero => simp [natToBE]
  | succ n ih => simp [natToBE, ih]

theorem beToNat_natToBE (n v : Nat) : beToNat (natToBE n v) = v % 256 ^ n := by
  induction n generalizing v with
  | zero => simp [natToBE, beToNat, Nat.mod_one]
  | succ n ih =>
    simp only [natToBE]
    rw [beToNat_append, ih, beToNat_cons]
    simp only [List.length_cons, List.length_nil, Nat.pow_succ, Nat.pow_zero, List.length_nil,
      beToNat_nil]
    rw [Nat.mul_comm (256 ^ n) 256, Nat.mod_mul]
    omega

theorem natToBE_inj {n a b : Nat} (ha : a < 256 ^ n) (hb : b < 256 ^ n)
    (h : natToBE n a = natToBE n b) : a = b := by
  have := congrArg beToNat h
  rwa [beToNat_natToBE, beToNat_natToBE, Nat.mod_eq_of_lt ha, Nat.mod_eq_of_lt hb] at this

theorem natToBE_zero (n : Nat) : natToBE n 0 = List.replicate n 0 := by
  induction n with
  | zero => rfl
  | succ n ih => simp [natToBE, ih, List.replicate_succ']

theorem byteLen_zero : byteLen 0 = 0 := by unfold byteLen; simp

theorem byteLen_pos {v : Nat} (h : v ≠ 0) : byteLen v = byteLen (v / 256) + 1 := by
  rw [byteLen]; simp [h]

/-- a value that fits `k` bytes has `byteLen ≤ k` -/
theorem byteLen_le {k : Nat} : ∀ {v : Nat}, v < 256 ^ k → byteLen v ≤ k := by
  induction k with
  | zero => intro v h; simp at h; subst h; simp [byteLen_zero]
  | succ k ih =>
    intro v h
    by_cases hv : v = 0
    · subst hv; simp [byteLen_zero]
    · rw [byteLen_pos hv]
      have : v / 256 < 256 ^ k := by
        rw [Nat.pow_succ] at h
        exact Nat.div_lt_of_lt_mul (by rw [Nat.mul_comm]; exact h)
      have := ih this
      omega

/-- fixed-width encoding = zero padding in front of the minimal encoding -/
theorem natToBE_eq_pad : ∀ (k v : Nat), byteLen v ≤ k →
    natToBE k v = List.replicate (k - byteLen v) 0 ++ natToMinBE v := by
  intro k
  induction k with
  | zero =>
    intro v h
    have : byteLen v = 0 := by omega
    simp [natToBE, natToMinBE, this]
  | succ k ih =>
    intro v h
    by_cases hv : v = 0
    · subst hv
      rw [natToBE_zero]; simp [natToMinBE, byteLen_zero, natToBE]
    · have hb := byteLen_pos hv
      have hk : byteLen (v / 256) ≤ k := by omega
      simp only [natToBE, natToMinBE]
      rw [ih _ hk, hb]
      simp only [natToBE, natToMinBE, List.append_assoc]
      congr 2
      omega

theorem natToMinBE_length (v : Nat) : (natToMinBE v).length = byteLen v := by
  simp [natToMinBE, natToBE_length]

theorem beToNat_natToMinBE (v : Nat) : beToNat (natToMinBE v) = v := by
  induction v using Nat.strongRecOn with
  | _ v ih =>
    by_cases hv : v = 0
    · subst hv; simp [natToMinBE, byteLen_zero, natToBE, beToNat]
    · have hb := byteLen_pos hv
      simp only [natToMinBE, hb, natToBE]
      rw [beToNat_append]
      have := ih (v / 256) (by omega)
      simp only [natToMinBE] at this
      rw [this, beToNat_cons]
      simp [beToNat_nil]
      omega

/-- the minimal encoding of a non-zero value starts with a non-zero byte -/
theorem natToMinBE_head {v : Nat} (hv : v ≠ 0) : ∃ x rest, natToMinBE v = x :: rest ∧ x ≠ 0 := by
  induction v using Nat.strongRecOn with
  | _ v ih =>
    have hb := byteLen_pos hv
    have hstep : natToMinBE v = natToMinBE (v / 256) ++ [v % 256] := by
      simp only [natToMinBE, hb, natToBE]
    by_cases hq : v / 256 = 0
    · rw [hstep, hq]
      refine ⟨v % 256, [], by simp [natToMinBE, byteLen_zero, natToBE], by omega⟩
    · obtain ⟨x, rest, hx, hx0⟩ := ih (v / 256) (by omega) hq
      exact ⟨x, rest ++ [v % 256], by rw [hstep, hx]; rfl, hx0⟩

end Aiocoap.Oscore.Prot
