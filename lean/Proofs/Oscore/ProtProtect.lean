import AiocoapModel.Oscore.Protect
import Proofs.Oscore.ProtCbor
import Proofs.Oscore.ProtCompress
import Proofs.Oscore.ProtNonce
import Proofs.Oscore.ProtInner
/-! Shape of what `protect` produces and of what `unprotect` accepts. -/
namespace Aiocoap.Oscore.Prot

/-- a context admissible for its algorithm: identifiers fit the nonce (`len(id) ≤ iv_bytes − 6`),
the common IV covers the nonce, the ID context fits its one-byte length field -/
structure Ctx.wf (A : Ctx) : Prop where
  ivLo : 6 ≤ A.ivBytes
  ivHi : A.ivBytes ≤ 255
  sid : A.senderId.length ≤ A.ivBytes - 6
  rid : A.recipientId.length ≤ A.ivBytes - 6
  civ : A.ivBytes ≤ A.commonIv.length
  idctx : ∀ c, A.idContext = some c → c.length ≤ 255

/-- matching contexts, one direction: what `A` sends, `B` receives -/
structure Sends (A B : Ctx) : Prop where
  alg : A.algValue = B.algValue
  iv : A.ivBytes = B.ivBytes
  key : A.senderKey = B.recipientKey
  id : A.senderId = B.recipientId
  civ : A.commonIv = B.commonIv
  idctx : A.idContext = B.idContext

/-- request identifiers admissible for a context's algorithm (what its own `protect` /
`unprotect` produce) -/
def ReqId.wfFor (B : Ctx) (r : ReqId) : Prop := r.kid.length ≤ B.ivBytes - 6 ∧ r.piv.length ≤ 5

-- options of the outer message ------------------------------------------------------------

theorem findOpt_outerOpts_9 (m : Msg) (o : Bytes) : findOpt 9 (outerOpts m o) = some o := by
  unfold outerOpts
  split
  · cases findOpt 3 m.opts <;> cases findOpt 6 m.opts <;> simp [optOf, findOpt]
  · simp [findOpt]

theorem findOpt_outerOpts_6 (m : Msg) (o : Bytes) :
    findOpt 6 (outerOpts m o) = if isRequest m.code then findOpt 6 m.opts else none := by
  unfold outerOpts
  split
  · cases findOpt 3 m.opts <;> cases h : findOpt 6 m.opts <;> simp [optOf, findOpt]
  · simp [findOpt]

theorem outerOpts_nums (m : Msg) (o : Bytes) :
    ∀ x ∈ outerOpts m o, x.1 = 3 ∨ x.1 = 6 ∨ x.1 = 9 := by
  intro x hx
  unfold outerOpts at hx
  split at hx
  · simp only [List.mem_append, List.mem_singleton] at hx
    rcases hx with (hx | hx) | hx
    · cases h3 : findOpt 3 m.opts <;> simp [optOf, h3] at hx; simp [hx]
    · cases h6 : findOpt 6 m.opts <;> simp [optOf, h6] at hx; simp [hx]
    · simp [hx]
  · simp at hx; simp [hx]

theorem findOpt_filter {p : Opt → Bool} {num : Nat} (hp : ∀ v, p (num, v) = true) :
    ∀ (l : List Opt), findOpt num (l.filter p) = findOpt num l
  | [] => rfl
  | (n, v) :: rest => by
    by_cases hn : n = num
    · subst hn; simp [List.filter, hp, findOpt]
    · cases hpv : p (n, v)
      · simp [List.filter, hpv, findOpt, hn, findOpt_filter hp rest]
      · simp [List.filter, hpv, findOpt, hn, findOpt_filter hp rest]

theorem findOpt_innerOpts_6 (m : Msg) : findOpt 6 (innerOpts m) = findOpt 6 m.opts := by
  unfold innerOpts
  split
  · exact findOpt_filter (by intro v; simp [isOuterOnly]) _
  · rfl

-- what `protect` produces ----------------------------------------------------------------------

/-- the KID a response carries, if the context sends one -/
def respKid (A : Ctx) : Option Bytes := if A.responsesSendKid then some A.senderId else none

/-- header fields of a request: Partial IV, KID, the ID context if the context has one -/
abbrev reqUnprot (A : Ctx) (seq : Nat) : Unprot :=
  { piv := some (shortPiv seq), kid := some A.senderId, kidContext := A.idContext, group := false }

/-- header fields of a response: a Partial IV only when the request nonce is not reused -/
abbrev respUnprot (A : Ctx) (piv : Option Bytes) : Unprot :=
  { piv := piv, kid := respKid A, kidContext := none, group := false }

theorem protect_request_shape {E : AEAD} {A : Ctx} {seq : Nat} {m : Msg} {P : Protected}
    (h : protect E A seq m none = .ok P) :
    isRequest m.code = true ∧ seq < maxSeqno ∧ findOpt 35 m.opts = none ∧ ∃ pt nonce o,
      buildPlaintext m.code (innerOpts m) m.payload = some pt ∧
      constructNonce A.ivBytes A.commonIv (natToBE 5 seq) A.senderId = some nonce ∧
      compress (reqUnprot A seq) = some o ∧
      P = { outer := { code := outerCode m none, opts := outerOpts m o,
                       payload := E.enc A.senderKey nonce
                         (aad A.algValue A.senderId (shortPiv seq)) pt },
            rid := { kid := A.senderId, piv := shortPiv seq, canReuse := false,
                     style := outerCode m none },
            seq := seq + 1 } := by
  unfold protect at h
  by_cases hr : isRequest m.code = true
  · simp only [hr, Option.isNone_none, bne_self_eq_false, Bool.false_eq_true, if_false,
      Bool.not_true, Bool.false_and, Bool.true_and] at h
    cases h35 : findOpt 35 m.opts with
    | some x => simp [h35] at h
    | none =>
      simp only [h35, Option.isSome_none, Bool.false_eq_true, if_false] at h
      cases hpt : buildPlaintext m.code (innerOpts m) m.payload with
      | none => simp [hpt] at h
      | some pt =>
        simp only [hpt] at h
        simp only [sendParams] at h
        by_cases hs : seq ≥ maxSeqno
        · simp [hs] at h
        · simp only [hs, if_false] at h
          cases hn : constructNonce A.ivBytes A.commonIv (natToBE 5 seq) A.senderId with
          | none => simp [hn] at h
          | some nonce =>
            simp only [hn] at h
            cases hc : compress (reqUnprot A seq) with
            | none => simp [hc] at h
            | some o =>
              simp only [hc, Except.ok.injEq] at h
              exact ⟨hr, by omega, rfl, pt, nonce, o, rfl, rfl, rfl, h.symm⟩
  · simp [hr] at h

theorem protect_response_shape {E : AEAD} {A : Ctx} {seq : Nat} {m : Msg} {r : ReqId}
    {P : Protected} (h : protect E A seq m (some r) = .ok P) :
    isRequest m.code = false ∧ isResponse m.code = true ∧ ∃ pt nonce o,
      buildPlaintext m.code m.opts m.payload = some pt ∧
      ((r.canReuse = true ∧
          constructNonce A.ivBytes A.commonIv r.piv r.kid = some nonce ∧
          compress (respUnprot A none) = some o ∧
          P.seq = seq ∧ P.rid = { r with canReuse := false }) ∨
       (r.canReuse = false ∧ seq < maxSeqno ∧
          constructNonce A.ivBytes A.commonIv (natToBE 5 seq) A.senderId = some nonce ∧
          compress (respUnprot A (some (shortPiv seq))) = some o ∧
          P.seq = seq + 1 ∧ P.rid = r)) ∧
      P.outer = { code := responseCode r.style, opts := [(9, o)],
                  payload := E.enc A.senderKey nonce (aad A.algValue r.kid r.piv) pt } := by
  unfold protect at h
  by_cases hr : isRequest m.code = true
  · simp [hr] at h
  · have hr' : isRequest m.code = false := by simpa using hr
    simp only [hr', Option.isNone_some, bne_self_eq_false, Bool.false_eq_true, if_false,
      Bool.not_false, Bool.true_and, Bool.false_and] at h
    by_cases hresp : isResponse m.code = true
    · simp only [hresp, Bool.not_true, Bool.false_eq_true, if_false] at h
      have hin : innerOpts m = m.opts := by simp [innerOpts, hr']
      rw [hin] at h
      cases hpt : buildPlaintext m.code m.opts m.payload with
      | none => simp [hpt] at h
      | some pt =>
        simp only [hpt] at h
        simp only [sendParams] at h
        by_cases hcr : r.canReuse = true
        · simp only [hcr, if_true] at h
          cases hn : constructNonce A.ivBytes A.commonIv r.piv r.kid with
          | none => simp [hn] at h
          | some nonce =>
            simp only [hn] at h
            cases hc : compress (respUnprot A none) with
            | none => simp only [respUnprot, respKid] at hc; simp [hc] at h
            | some o =>
              simp only [respUnprot, respKid] at hc
              simp only [hc, Except.ok.injEq] at h
              subst h
              refine ⟨hr', hresp, pt, nonce, o, rfl, Or.inl ⟨hcr, rfl, ?_, rfl, rfl⟩, ?_⟩
              · rfl
              · simp [outerCode, outerOpts, hr']
        · have hcr' : r.canReuse = false := by simpa using hcr
          simp only [hcr', Bool.false_eq_true, if_false] at h
          by_cases hs : seq ≥ maxSeqno
          · simp [hs] at h
          · simp only [hs, if_false] at h
            cases hn : constructNonce A.ivBytes A.commonIv (natToBE 5 seq) A.senderId with
            | none => simp [hn] at h
            | some nonce =>
              simp only [hn] at h
              cases hc : compress (respUnprot A (some (shortPiv seq))) with
              | none => simp only [respUnprot, respKid] at hc; simp [hc] at h
              | some o =>
                simp only [respUnprot, respKid] at hc
                simp only [hc, Except.ok.injEq] at h
                subst h
                refine ⟨hr', hresp, pt, nonce, o, rfl,
                  Or.inr ⟨hcr', by omega, rfl, ?_, rfl, rfl⟩, ?_⟩
                · rfl
                · simp [outerCode, outerOpts, hr']
    · simp [hresp] at h

end Aiocoap.Oscore.Prot
