import Proofs.Oscore.PersistInv
/-! C13 helper lemmas: one-step facts about what the window in force refuses. -/
namespace Aiocoap.Oscore.Persist
open Aiocoap.Oscore

/-- a directory left by a (possibly interrupted) store of the live state -/
theorem blocked_after_protect {cfg : Cfg} {d : Dir} {m : Mem} (c : Option Nat) (L : Live cfg d m)
    {n : Nat} (hb : Blocked m.window n) :
    Blocked (curWindow cfg (protect cfg d m c).1) n := by
  obtain ⟨f1, _, f3, _⟩ := protect_frame cfg d m c
  unfold curWindow
  cases hm : (protect cfg d m c).1.mem with
  | some m' => simp only; rw [(f1 m' hm).1]; exact hb
  | none =>
    simp only
    rcases f3 with hd | ⟨k, hd⟩
    · rw [hd]; exact L.safe.blocked hb
    · rw [hd]; exact (store_received k c L).1.blocked hb

/-- **blocked stays blocked** unless a request is accepted through Echo recovery -/
theorem step_blocked (cfg : Cfg) (s : State) (ev : Ev) (h : InvW cfg s) (n : Nat)
    (hb : Blocked (curWindow cfg s) n) (he : isEchoAccept (step cfg s ev).2 = false) :
    Blocked (curWindow cfg (step cfg s ev).1) n := by
  obtain ⟨d, mem⟩ := s
  cases mem with
  | none =>
    cases ev with
    | load e =>
      simp only [step, curWindow] at hb ⊢
      rw [load_window]; exact hb
    | _ => simpa [step] using hb
  | some m =>
    have L : Live cfg d m := h m rfl
    simp only [curWindow] at hb
    cases ev with
    | load e => simpa [step, curWindow] using hb
    | kill => simp only [step, curWindow]; exact L.safe.blocked hb
    | cleanShutdown c =>
      simp only [step, curWindow, (cleanShutdown_dir d m c).1, (cleanShutdown_dir d m c).2]
      exact (store_received m.ssn c L.forShutdown).1.blocked hb
    | protect c => exact blocked_after_protect c L hb
    | recv a c =>
      obtain ⟨win', o, hs, heq⟩ := recv_spec cfg d m a c
      simp only [step, heq] at he ⊢
      unfold recvResult at he ⊢
      by_cases hbr : struck o = true ∧ m.windowPersisted = true
      · simp only [hbr, and_self, ↓reduceIte] at he ⊢
        cases c with
        | none =>
          simp only [curWindow]
          exact hs.blocked hb he
        | some j =>
          simp only [curWindow]
          by_cases hc : completes (some j) = true
          · rw [diskWindow_unknown (diskUnknown_store_unknown d m.persisted (some j) hc)]
            intro w hw; cases hw
          · rw [diskWindow_store_incomplete cfg d _ (by simpa using hc)]
            exact L.safe.blocked hb
      · simp only [hbr, ↓reduceIte] at he ⊢
        cases c with
        | none => simp only [curWindow]; exact hs.blocked hb he
        | some j => simp only [curWindow]; exact L.safe.blocked hb

/-- **an accepted number is refused right afterwards** (the process is still alive) -/
theorem step_accept (cfg : Cfg) (hsz : 0 < cfg.size) (s : State) (ev : Ev) (h : InvW cfg s)
    (n : Nat) (v : Bool) (ho : (step cfg s ev).2 = .accepted n v) :
    Refused (curWindow cfg (step cfg s ev).1) n := by
  obtain ⟨d, mem⟩ := s
  cases mem with
  | none => cases ev <;> simp [step] at ho
  | some m =>
    have L : Live cfg d m := h m rfl
    cases ev with
    | load e => simp [step] at ho
    | kill => simp [step] at ho
    | cleanShutdown c => cases c <;> simp [step, cleanShutdown] at ho
    | protect c => exact absurd ho ((protect_frame cfg d m c).2.2.2 n v)
    | recv a c =>
      obtain ⟨win', o, hs, heq⟩ := recv_spec cfg d m a c
      simp only [step, heq] at ho ⊢
      unfold recvResult at ho ⊢
      cases c with
      | some j => split at ho <;> simp at ho
      | none =>
        have ho' : o = .accepted n v := by split at ho <;> simpa using ho
        have := hs.accepted_refused hsz L.size ho'
        split <;> simpa [curWindow] using this

/-- **refused stays refused** as long as no process dies -/
theorem step_refused (cfg : Cfg) (s : State) (ev : Ev) (h : InvW cfg s) (hnc : noCrash ev = true)
    (n : Nat) (hr : Refused (curWindow cfg s) n) :
    Refused (curWindow cfg (step cfg s ev).1) n := by
  obtain ⟨d, mem⟩ := s
  cases mem with
  | none =>
    cases ev with
    | load e =>
      simp only [step, curWindow] at hr ⊢
      rw [load_window]; exact hr
    | _ => simpa [step] using hr
  | some m =>
    have L : Live cfg d m := h m rfl
    simp only [curWindow] at hr
    cases ev with
    | load e => simpa [step, curWindow] using hr
    | kill => simp [noCrash] at hnc
    | cleanShutdown c =>
      cases c with
      | some j => simp [noCrash] at hnc
      | none =>
        simp only [step, curWindow, (cleanShutdown_dir d m none).1, (cleanShutdown_dir d m none).2]
        rw [diskWindow_store_window cfg d m.ssn m.window rfl]
        exact hr.reloaded
    | protect c =>
      cases c with
      | some j => simp [noCrash] at hnc
      | none =>
        obtain ⟨f1, f2, _, _⟩ := protect_frame cfg d m none
        obtain ⟨m', hm'⟩ := f2 rfl
        simp only [step, curWindow, hm']
        rw [(f1 m' hm').1]; exact hr
    | recv a c =>
      cases c with
      | some j => simp [noCrash] at hnc
      | none =>
        obtain ⟨win', o, hs, heq⟩ := recv_spec cfg d m a none
        simp only [step, heq]
        unfold recvResult
        have := hs.refused_stable hr
        split <;> simpa [curWindow] using this

/-- **"unknown" sticks** until a clean shutdown completes -/
theorem step_unknown (cfg : Cfg) (s : State) (ev : Ev) (hu : Unknown s)
    (hcc : completesClean ev = false) : Unknown (step cfg s ev).1 := by
  obtain ⟨d, mem⟩ := s
  obtain ⟨hd, hm⟩ := hu
  simp only at hd hm
  cases mem with
  | none =>
    cases ev with
    | load e =>
      refine ⟨hd, ?_⟩
      intro m' hm'
      simp only [step, Option.some.injEq] at hm'
      subst hm'
      exact load_of_unknown e hd
    | _ => exact ⟨hd, by intro m' hm'; simp [step] at hm'⟩
  | some m =>
    have hp : m.windowPersisted = false := hm m rfl
    cases ev with
    | load e => exact ⟨hd, by simpa [step] using hm⟩
    | kill => exact ⟨hd, by intro m' hm'; simp [step] at hm'⟩
    | cleanShutdown c =>
      simp only [completesClean] at hcc
      refine ⟨?_, by intro m' hm'; simp [step, cleanShutdown] at hm'⟩
      simp only [step, (cleanShutdown_dir d m c).1]
      exact diskUnknown_store_incomplete _ hcc hd
    | protect c =>
      obtain ⟨f1, _, f3, _⟩ := protect_frame cfg d m c
      simp only [step]
      refine ⟨?_, fun m' hm' => by rw [(f1 m' hm').2.1]; exact hp⟩
      rcases f3 with hd' | ⟨k, hd'⟩
      · rw [hd']; exact hd
      · rw [hd']; exact diskUnknown_store_received k c hp hd
    | recv a c =>
      obtain ⟨win', o, hs, heq⟩ := recv_spec cfg d m a c
      simp only [step, heq]
      unfold recvResult
      simp only [hp, Bool.false_eq_true, and_false, ↓reduceIte]
      refine ⟨hd, ?_⟩
      intro m' hm'
      cases c with
      | some j => simp at hm'
      | none => simp only [Option.some.injEq] at hm'; subst hm'; rfl

/-- **a number accepted from an initialised window leaves "unknown" on disk** -/
theorem step_struck_unknown (cfg : Cfg) (s : State) (ev : Ev) (h : InvW cfg s) (n : Nat)
    (ho : (step cfg s ev).2 = .accepted n false) : Unknown (step cfg s ev).1 := by
  obtain ⟨d, mem⟩ := s
  cases mem with
  | none => cases ev <;> simp [step] at ho
  | some m =>
    have L : Live cfg d m := h m rfl
    cases ev with
    | load e => simp [step] at ho
    | kill => simp [step] at ho
    | cleanShutdown c => cases c <;> simp [step, cleanShutdown] at ho
    | protect c => exact absurd ho ((protect_frame cfg d m c).2.2.2 n false)
    | recv a c =>
      obtain ⟨win', o, hs, heq⟩ := recv_spec cfg d m a c
      simp only [step, heq] at ho ⊢
      unfold recvResult at ho ⊢
      cases c with
      | some j => split at ho <;> simp at ho
      | none =>
        have ho' : o = .accepted n false := by split at ho <;> simpa using ho
        subst ho'
        cases hp : m.windowPersisted with
        | true =>
          simp only [struck, and_self, ↓reduceIte]
          exact ⟨diskUnknown_store_unknown d m.persisted none rfl,
            by intro m' hm'; simp only [Option.some.injEq] at hm'; subst hm'; rfl⟩
        | false =>
          simp only [struck, Bool.false_eq_true, and_false, ↓reduceIte]
          exact ⟨L.unknown hp,
            by intro m' hm'; simp only [Option.some.injEq] at hm'; subst hm'; rfl⟩


/-- what `step` reports for an arrival, in terms of the window step -/
theorem step_accepted_inv (cfg : Cfg) (s : State) (ev : Ev) (n : Nat) (v : Bool)
    (ho : (step cfg s ev).2 = .accepted n v) :
    ∃ d m a win', s = { dir := d, mem := some m } ∧ ev = .recv a none ∧
      WinStep cfg.size m.window a win' (.accepted n v) := by
  obtain ⟨d, mem⟩ := s
  cases mem with
  | none => cases ev <;> simp [step] at ho
  | some m =>
    cases ev with
    | load e => simp [step] at ho
    | kill => simp [step] at ho
    | cleanShutdown c => cases c <;> simp [step, cleanShutdown] at ho
    | protect c => exact absurd ho ((protect_frame cfg d m c).2.2.2 n v)
    | recv a c =>
      obtain ⟨win', o, hs, heq⟩ := recv_spec cfg d m a c
      simp only [step, heq] at ho
      unfold recvResult at ho
      cases c with
      | some j => split at ho <;> simp at ho
      | none =>
        have ho' : o = .accepted n v := by split at ho <;> simpa using ho
        subst ho'
        exact ⟨d, m, a, win', rfl, rfl, hs⟩

/-- a blocked number is not accepted by striking -/
theorem step_blocked_not_struck (cfg : Cfg) (s : State) (ev : Ev) (n : Nat)
    (hb : Blocked (curWindow cfg s) n) : (step cfg s ev).2 ≠ .accepted n false := by
  intro ho
  obtain ⟨d, m, a, win', rfl, rfl, hs⟩ := step_accepted_inv cfg s ev n false ho
  simp only [curWindow] at hb
  generalize ho' : Out.accepted n false = o at hs
  cases hs with
  | refused oc => cases ho'
  | strike w w' hw hst =>
    cases ho'
    have := (RW.strikeOut_some hst).1
    rw [hb w hw] at this; cases this
  | echo hw => cases ho'

/-- a refused number is not accepted at all -/
theorem step_refused_not_accepted (cfg : Cfg) (s : State) (ev : Ev) (n : Nat) (v : Bool)
    (hr : Refused (curWindow cfg s) n) : (step cfg s ev).2 ≠ .accepted n v := by
  intro ho
  obtain ⟨d, m, a, win', rfl, rfl, hs⟩ := step_accepted_inv cfg s ev n v ho
  simp only [curWindow] at hr
  obtain ⟨w0, hw0, hv⟩ := hr
  generalize ho' : Out.accepted n v = o at hs
  cases hs with
  | refused oc => cases ho'
  | strike w w' hw hst =>
    cases ho'
    rw [hw0] at hw; cases hw
    have := (RW.strikeOut_some hst).1
    rw [hv] at this; cases this
  | echo hw => rw [hw0] at hw; cases hw

-- whole histories ----------------------------------------------------------------------------

theorem run_cons (cfg : Cfg) (s : State) (ev : Ev) (evs : List Ev) :
    run cfg s (ev :: evs) =
      ((run cfg (step cfg s ev).1 evs).1, (step cfg s ev).2 :: (run cfg (step cfg s ev).1 evs).2) :=
  rfl

theorem acceptedOf_cons (o : Out) (os : List Out) (n : Nat) :
    n ∈ acceptedOf (o :: os) ↔ (∃ v, o = .accepted n v) ∨ n ∈ acceptedOf os := by
  cases o <;> simp [acceptedOf, eq_comm]

/-- blocked + no Echo recovery in the rest of the history ⇒ never accepted again -/
theorem run_blocked (cfg : Cfg) (evs : List Ev) (s : State) (h : InvW cfg s) (n : Nat)
    (hb : Blocked (curWindow cfg s) n)
    (hne : ∀ o ∈ (run cfg s evs).2, isEchoAccept o = false) :
    n ∉ acceptedOf (run cfg s evs).2 := by
  induction evs generalizing s with
  | nil => simp [run, acceptedOf]
  | cons ev evs ih =>
    rw [run_cons] at hne ⊢
    simp only [List.mem_cons, forall_eq_or_imp] at hne
    rw [acceptedOf_cons]
    rintro (⟨v, ho⟩ | hin)
    · cases v with
      | false => exact step_blocked_not_struck cfg s ev n hb ho
      | true => have := hne.1; rw [ho] at this; simp [isEchoAccept] at this
    · exact ih _ (step_invW cfg s ev h) (step_blocked cfg s ev h n hb hne.1) hne.2 hin

/-- refused + no process death in the rest of the history ⇒ never accepted again -/
theorem run_refused (cfg : Cfg) (evs : List Ev) (s : State) (h : InvW cfg s) (n : Nat)
    (hr : Refused (curWindow cfg s) n) (hnc : ∀ ev ∈ evs, noCrash ev = true) :
    n ∉ acceptedOf (run cfg s evs).2 := by
  induction evs generalizing s with
  | nil => simp [run, acceptedOf]
  | cons ev evs ih =>
    rw [run_cons]
    simp only [List.mem_cons, forall_eq_or_imp] at hnc
    rw [acceptedOf_cons]
    rintro (⟨v, ho⟩ | hin)
    · exact step_refused_not_accepted cfg s ev n v hr ho
    · exact ih _ (step_invW cfg s ev h) (step_refused cfg s ev h hnc.1 n hr) hnc.2 hin

theorem run_unknown (cfg : Cfg) (evs : List Ev) (s : State) (hu : Unknown s)
    (hcc : ∀ ev ∈ evs, completesClean ev = false) : Unknown (run cfg s evs).1 := by
  induction evs generalizing s with
  | nil => exact hu
  | cons ev evs ih =>
    simp only [List.mem_cons, forall_eq_or_imp] at hcc
    exact ih _ (step_unknown cfg s ev hu hcc.1) hcc.2

end Aiocoap.Oscore.Persist
