import AiocoapModel.Oscore.ProtPersist
import Proofs.Oscore.ProtNonce
import Proofs.Oscore.ProtProtect
/-! Sender sequence numbers over crash histories strictly increase; so do the AEAD nonces. -/
namespace Aiocoap.Oscore.Prot

/-- what holds of a live persisted context between operations: every number it may still hand
out without writing is covered by the file -/
structure SendInv (s : SendState) : Prop where
  covered : s.mem.ssn ≤ s.mem.persisted
  onDisk : s.mem.persisted = s.disk
  chunk : 1 ≤ s.mem.chunk

theorem loadSend_inv {c : Chunks} (hc : 1 ≤ c.start) (d : Nat) : SendInv (loadSend c d) :=
  ⟨Nat.le_refl _, rfl, hc⟩

/-- one event keeps the invariant, never lowers the next number, and a number handed out is the
old next number, below the new one -/
theorem sendStep_spec {c : Chunks} (hs : 1 ≤ c.start) (hl : 1 ≤ c.limit) {s : SendState}
    (hi : SendInv s) (e : SendEv) :
    SendInv (sendStep c s e).2 ∧ s.mem.ssn ≤ (sendStep c s e).2.mem.ssn ∧
    ∀ n, (sendStep c s e).1 = some n → n = s.mem.ssn ∧ n < (sendStep c s e).2.mem.ssn ∧ n < maxSeqno := by
  cases e with
  | take =>
    simp only [sendStep, takeNumber]
    by_cases hx : s.mem.ssn ≥ maxSeqno
    · simp only [hx, if_true]
      exact ⟨hi, Nat.le_refl _, by intro n h; cases h⟩
    · simp only [hx, if_false]
      by_cases hp : s.mem.ssn + 1 > s.mem.persisted
      · simp only [hp, if_true]
        refine ⟨⟨?_, rfl, ?_⟩, by simp, ?_⟩
        · have := hi.covered; have := hi.chunk; simp only; omega
        · simp only; have := hi.chunk; omega
        · intro n h; cases h; exact ⟨rfl, by simp, by omega⟩
      · simp only [hp, if_false]
        refine ⟨⟨by simp only; omega, hi.onDisk, hi.chunk⟩, by simp, ?_⟩
        intro n h; cases h; exact ⟨rfl, by simp, by omega⟩
  | kill =>
    simp only [sendStep]
    refine ⟨loadSend_inv hs _, ?_, by intro n h; cases h⟩
    simp only [loadSend]
    have := hi.covered; have := hi.onDisk; omega
  | stop =>
    simp only [sendStep]
    exact ⟨loadSend_inv hs _, by simp [loadSend], by intro n h; cases h⟩

/-- over any history the numbers handed out are at least the starting number, below `MAX_SEQNO`,
and strictly increasing -/
theorem sendRun_increasing {c : Chunks} (hs : 1 ≤ c.start) (hl : 1 ≤ c.limit) (es : List SendEv) :
    ∀ s, SendInv s →
      (∀ n ∈ (sendRun c s es).1, s.mem.ssn ≤ n ∧ n < maxSeqno) ∧
      List.Pairwise (· < ·) (sendRun c s es).1 := by
  induction es with
  | nil => intro s _; simp [sendRun]
  | cons e es ih =>
    intro s hi
    obtain ⟨hi', hmono, hnum⟩ := sendStep_spec hs hl hi e
    obtain ⟨hge, hsorted⟩ := ih (sendStep c s e).2 hi'
    simp only [sendRun]
    cases hr : (sendStep c s e).1 with
    | none =>
      simp only
      exact ⟨fun n hn => ⟨Nat.le_trans hmono (hge n hn).1, (hge n hn).2⟩, hsorted⟩
    | some k =>
      simp only
      obtain ⟨hk, hlt, hmax⟩ := hnum k hr
      refine ⟨?_, ?_⟩
      · intro n hn
        rcases List.mem_cons.mp hn with h | h
        · subst h; exact ⟨by omega, hmax⟩
        · exact ⟨Nat.le_trans hmono (hge n h).1, (hge n h).2⟩
      · refine List.pairwise_cons.mpr ⟨?_, hsorted⟩
        intro n hn
        have := (hge n hn).1
        omega

/-- different numbers below `MAX_SEQNO` give different nonces -/
theorem ownNonce_inj {A : Ctx} (hA : A.wf) {n n' : Nat} (hn : n < maxSeqno) (hn' : n' < maxSeqno)
    {x : Bytes} (h : ownNonce A n = some x) (h' : ownNonce A n' = some x) : n = n' := by
  unfold ownNonce at h h'
  have l5 : (natToBE 5 n).length ≤ 5 := by rw [natToBE_length]; omega
  have l5' : (natToBE 5 n').length ≤ 5 := by rw [natToBE_length]; omega
  obtain ⟨_, hp⟩ := constructNonce_inj hA.ivLo hA.sid l5 hA.sid l5' h h'
  rw [padPiv_full (natToBE_length 5 n), padPiv_full (natToBE_length 5 n')] at hp
  have b : n < 256 ^ 5 := by simp [maxSeqno] at hn; omega
  have b' : n' < 256 ^ 5 := by simp [maxSeqno] at hn'; omega
  exact natToBE_inj b b' hp

end Aiocoap.Oscore.Prot
