import Proofs.Oscore.ProtProtect
/-! What `unprotect` does before and after the AEAD call. -/
namespace Aiocoap.Oscore.Prot

theorem uncompress_piv_bounds {o : Bytes} {u : Unprot} (h : uncompress o = some u) :
    ∀ p, u.piv = some p → 1 ≤ p.length ∧ p.length ≤ 5 := by
  intro p hp
  unfold uncompress at h
  split at h
  · cases h; simp [Unprot.empty] at hp
  · rename_i fb tail
    simp only at h
    split at h; · cases h
    split at h; · cases h
    split at h; · cases h
    split at h; · cases h
    rename_i h5 hlen
    repeat' split at h
    all_goals (try (cases h))
    all_goals (try (cases hp))
    all_goals (simp only [List.length_take]; omega)

/-- `recvParams` from its ingredients -/
theorem recvParams_of_fields {tb : Nat} {B : Ctx} {rid : Option ReqId} {o : Msg}
    {option : Bytes} {u : Unprot} {s : Selected} {nonce : Bytes}
    (hcode : rid.isSome = isResponse o.code) (hopt : findOpt 9 o.opts = some option)
    (hu : uncompress option = some u) (hids : idsAcceptable B (isResponse o.code) u = true)
    (hsel : selectPiv B rid o.code u = .ok s) (hg : u.group = false)
    (hlen : tb + 1 ≤ o.payload.length)
    (hn : constructNonce B.ivBytes B.commonIv s.piv s.gen = some nonce) :
    recvParams tb B rid o =
      .ok { nonce, aad := aad B.algValue s.rid.kid s.rid.piv, rid := s.rid, seqno := s.seqno } := by
  have hl : ¬ o.payload.length < tb + 1 := by omega
  have hreq : isResponse o.code = false → ¬o.code = 2 → o.code = 5 := by
    intro hr h2
    rw [hr] at hcode
    have : rid = none := by cases rid <;> simp_all
    subst this
    cases hp : u.piv with
    | none => simp [selectPiv, hp] at hsel
    | some piv =>
      simp only [selectPiv, hp] at hsel
      split at hsel
      · rename_i hc; rcases hc with hc | hc
        · exact absurd hc h2
        · exact hc
      · cases hsel
  simp [recvParams, hcode, hopt, hu, hids, hsel, hg, hl, hn]
  exact hreq

/-- … and back -/
theorem recvParams_ok_inv {tb : Nat} {B : Ctx} {rid : Option ReqId} {o : Msg} {rp : RecvParams}
    (h : recvParams tb B rid o = .ok rp) :
    ∃ option u s, rid.isSome = isResponse o.code ∧ findOpt 9 o.opts = some option ∧
      uncompress option = some u ∧ idsAcceptable B (isResponse o.code) u = true ∧
      selectPiv B rid o.code u = .ok s ∧ u.group = false ∧ tb + 1 ≤ o.payload.length ∧
      constructNonce B.ivBytes B.commonIv s.piv s.gen = some rp.nonce ∧
      rp.aad = aad B.algValue s.rid.kid s.rid.piv ∧ rp.rid = s.rid ∧ rp.seqno = s.seqno := by
  unfold recvParams at h
  split at h; · cases h
  rename_i hcode
  split at h; · cases h
  split at h; · cases h
  rename_i option hopt
  split at h; · cases h
  rename_i u hu
  split at h; · cases h
  rename_i hids
  split at h; · cases h
  rename_i s hsel
  split at h; · cases h
  rename_i hg
  split at h; · cases h
  rename_i hlen
  split at h; · cases h
  rename_i nonce hn
  cases h
  refine ⟨option, u, s, ?_, hopt, hu, ?_, hsel, ?_, by omega, hn, rfl, rfl, rfl⟩
  · simpa using hcode
  · simpa using hids
  · simpa using hg

/-- errors of `recvParams` other than protection errors, and when they occur -/
theorem recvParams_error_cases {tb : Nat} {B : Ctx} {rid : Option ReqId} {o : Msg} {e : Err}
    (h : recvParams tb B rid o = .error e) :
    e.isProtection = true ∨
    (e = .notProtected ∧ findOpt 9 o.opts = none) ∨
    (e = .assertion ∧ ∃ option u s, findOpt 9 o.opts = some option ∧ uncompress option = some u ∧
        selectPiv B rid o.code u = .ok s ∧
        constructNonce B.ivBytes B.commonIv s.piv s.gen = none) := by
  unfold recvParams at h
  split at h
  · cases h; left; rfl
  rename_i hcode
  split at h
  · cases h; left; rfl
  rename_i hreq
  split at h
  · rename_i hopt; cases h; right; left; exact ⟨rfl, hopt⟩
  rename_i option hopt
  split at h
  · cases h; left; rfl
  rename_i u hu
  split at h
  · cases h; left; rfl
  split at h
  · rename_i e' hsel
    cases h
    unfold selectPiv at hsel
    split at hsel
    · cases hsel
    · cases hsel; left; rfl
    · cases hsel
    · rename_i hrid
      split at hsel
      · cases hsel
      · rename_i hc
        -- not reachable: the request code was checked before
        exfalso
        have hr : isResponse o.code = false := by
          cases hr : isResponse o.code with
          | false => rfl
          | true => simp [hr] at hcode
        have h2 : ¬ o.code = 2 := fun h => hc (Or.inl h)
        have h5 : ¬ o.code = 5 := fun h => hc (Or.inr h)
        simp [hr, h2, h5] at hreq
  rename_i s hsel
  split at h
  · cases h; left; rfl
  split at h
  · cases h; left; rfl
  split at h
  · rename_i hn; cases h; right; right; exact ⟨rfl, option, u, s, hopt, hu, hsel, hn⟩
  · cases h

/-- what `selectPiv` selects is admissible for the nonce -/
theorem selectPiv_bounds {B : Ctx} {rid : Option ReqId} {code : Nat} {o : Bytes} {u : Unprot}
    {s : Selected} (hB : B.wf) (hrid : ∀ r, rid = some r → r.wfFor B)
    (hu : uncompress o = some u) (hs : selectPiv B rid code u = .ok s) :
    s.gen.length ≤ B.ivBytes - 6 ∧ s.piv.length ≤ 5 ∧ s.rid.wfFor B := by
  have hp := uncompress_piv_bounds hu
  unfold selectPiv at hs
  split at hs
  · rename_i r hpiv; cases hs
    exact ⟨(hrid r rfl).1, (hrid r rfl).2, hrid r rfl⟩
  · cases hs
  · rename_i piv r hpiv; cases hs
    exact ⟨hB.rid, (hp piv hpiv).2, hrid r rfl⟩
  · rename_i piv hpiv
    split at hs
    · cases hs; exact ⟨hB.rid, (hp piv hpiv).2, hB.rid, (hp piv hpiv).2⟩
    · cases hs

/-- with an admissible context and request identifiers and a present OSCORE option, every failure
before decryption is a protection error — whatever the outer code is -/
theorem recvParams_error_isProtection {tb : Nat} {B : Ctx} {rid : Option ReqId} {o : Msg} {e : Err}
    (hB : B.wf) (hrid : ∀ r, rid = some r → r.wfFor B)
    (hopt : (findOpt 9 o.opts).isSome = true)
    (h : recvParams tb B rid o = .error e) : e.isProtection = true := by
  rcases recvParams_error_cases h with h | ⟨_, h⟩ | ⟨_, option, u, s, _, hu, hs, hn⟩
  · exact h
  · rw [h] at hopt; cases hopt
  · obtain ⟨b1, b2, _⟩ := selectPiv_bounds hB hrid hu hs
    obtain ⟨n, hn'⟩ := constructNonce_isSome (civ := B.commonIv) hB.ivLo hB.civ b1 b2
    rw [hn] at hn'; cases hn'

theorem unprotect_of_recv_error {E : AEAD} {B : Ctx} {rid : Option ReqId} {o : Msg} {e : Err}
    (h : recvParams E.tagBytes B rid o = .error e) : unprotect E B rid o = .error e := by
  simp [unprotect, h]

theorem unprotect_of_dec_none {E : AEAD} {B : Ctx} {rid : Option ReqId} {o : Msg} {rp : RecvParams}
    (h : recvParams E.tagBytes B rid o = .ok rp)
    (hd : E.dec B.recipientKey rp.nonce rp.aad o.payload = none) :
    unprotect E B rid o = .error .protectionInvalid := by
  simp [unprotect, h, hd]

theorem unprotect_of_dec_some {E : AEAD} {B : Ctx} {rid : Option ReqId} {o : Msg} {rp : RecvParams}
    {pt : Bytes} {inner : Msg}
    (h : recvParams E.tagBytes B rid o = .ok rp)
    (hd : E.dec B.recipientKey rp.nonce rp.aad o.payload = some pt)
    (hp : parsePlaintext pt = some inner) :
    unprotect E B rid o = .ok (finishUnprotect inner o rp, rp.rid) := by
  simp [unprotect, h, hd, hp]

theorem unprotect_ok_inv {E : AEAD} {B : Ctx} {rid : Option ReqId} {o : Msg} {u : Unprotected}
    {r : ReqId} (h : unprotect E B rid o = .ok (u, r)) :
    ∃ rp pt inner, recvParams E.tagBytes B rid o = .ok rp ∧
      E.dec B.recipientKey rp.nonce rp.aad o.payload = some pt ∧
      parsePlaintext pt = some inner ∧ u = finishUnprotect inner o rp ∧ r = rp.rid := by
  unfold unprotect at h
  split at h; · cases h
  rename_i rp hrp
  split at h; · cases h
  rename_i pt hd
  split at h; · cases h
  rename_i inner hp
  cases h
  exact ⟨rp, pt, inner, hrp, hd, hp, rfl, rfl⟩

/-- **core of all tamper clauses.**  If the payload is an honest ciphertext made under
`(k, n, a)` and the recipient ends up using a different key, nonce or AAD, `unprotect` fails with
a protection error — whatever the outer code of the message is. -/
theorem unprotect_rejects {E : AEAD} {B : Ctx} {rid : Option ReqId} {o : Msg}
    {k n a pt : Bytes}
    (hB : B.wf) (hrid : ∀ r, rid = some r → r.wfFor B)
    (hopt : (findOpt 9 o.opts).isSome = true)
    (hpay : o.payload = E.enc k n a pt)
    (hdiff : ∀ rp, recvParams E.tagBytes B rid o = .ok rp →
      ¬ (k = B.recipientKey ∧ n = rp.nonce ∧ a = rp.aad)) :
    ∃ e, unprotect E B rid o = .error e ∧ e.isProtection = true := by
  cases hr : recvParams E.tagBytes B rid o with
  | error e =>
    exact ⟨e, unprotect_of_recv_error hr, recvParams_error_isProtection hB hrid hopt hr⟩
  | ok rp =>
    refine ⟨.protectionInvalid, unprotect_of_dec_none hr ?_, rfl⟩
    rw [hpay]
    exact E.dec_other pt (hdiff rp hr)

end Aiocoap.Oscore.Prot
