import AiocoapModel.Oscore.PersistAead
import Proofs.Oscore.PersistStep
/-! C13 helper lemmas for the ghost layer: nonces handed to the AEAD over whole histories. -/
namespace Aiocoap.Oscore.Persist
open Aiocoap.Oscore

/-- every own number whose nonce reached `encrypt` in a step lies between the frontier before and
the frontier after the step -/
theorem usedOwn_bounds (cfg : Cfg) (s : State) (ev : Ev) (h : InvS s) :
    ∀ n ∈ usedOwn s ev (step cfg s ev).2,
      frontier s ≤ n ∧ n < frontier (step cfg s ev).1 ∧ n < MAX_SEQNO := by
  intro n hn
  have hseq := step_seq cfg s ev h
  generalize ho : (step cfg s ev).2 = o at hn
  cases o with
  | issued n0 =>
    simp only [usedOwn, List.mem_singleton] at hn
    subst hn
    exact hseq.2.2 _ ho
  | died =>
    obtain ⟨d, mem⟩ := s
    cases mem with
    | none => simp [usedOwn] at hn
    | some m =>
      have hd : diskNext d = m.persisted := h m rfl
      cases ev with
      | protect c =>
        cases c with
        | none => simp [usedOwn] at hn
        | some j =>
          simp only [usedOwn] at hn
          by_cases hex : m.ssn ≥ MAX_SEQNO
          · simp [hex] at hn
          · simp only [hex, ↓reduceIte] at hn
            by_cases hst : m.ssn + 1 > m.persisted
            · simp only [hst, ↓reduceIte] at hn
              by_cases hj : 5 ≤ j ∧ ¬ m.ssn + 1 > m.persisted + m.chunk
              · simp only [hj, and_self, not_false_eq_true, ↓reduceIte, List.mem_singleton] at hn
                subst hn
                have h4 : 4 ≤ j := by omega
                simp [step, protect, hex, hst, frontier, diskNext_store, completes, h4]
                omega
              · exfalso
                simp at hn
                exact hj ⟨hn.1.1, by omega⟩
            · simp only [hst, ↓reduceIte, List.mem_singleton] at hn
              subst hn
              simp [step, protect, hex, hst, frontier, hd]
              omega
      | _ => simp [usedOwn] at hn
  | _ => simp [usedOwn] at hn

theorem usedOwn_length (s : State) (ev : Ev) (o : Out) : (usedOwn s ev o).length ≤ 1 := by
  unfold usedOwn
  repeat' split
  all_goals simp


-- small list facts ----------------------------------------------------------------------------

theorem nodup_of_length_le_one {α : Type} {l : List α} (h : l.length ≤ 1) : l.Nodup := by
  match l, h with
  | [], _ => exact List.nodup_nil
  | [x], _ => simp
  | _ :: _ :: _, h => simp at h

theorem pairwise_of_length_le_one {α : Type} {R : α → α → Prop} {l : List α} (h : l.length ≤ 1) :
    l.Pairwise R := by
  match l, h with
  | [], _ => exact List.Pairwise.nil
  | [x], _ => simp
  | _ :: _ :: _, h => simp at h

theorem mem_ownOf {l : List Nonce} {n : Nat} : n ∈ ownOf l ↔ Nonce.own n ∈ l := by
  induction l with
  | nil => simp [ownOf]
  | cons x l ih => cases x <;> simp [ownOf, ih]

theorem ownOf_map_own_append (l : List Nat) (l' : List Nonce) :
    ownOf (l.map Nonce.own ++ l') = l ++ ownOf l' := by
  induction l with
  | nil => rfl
  | cons x l ih => simp [ownOf, ih]

theorem peer_mem_map_own_append {l : List Nat} {l' : List Nonce} {n : Nat} :
    Nonce.peer n ∈ l.map Nonce.own ++ l' ↔ Nonce.peer n ∈ l' := by
  simp

-- Echo recovery moves the window above everything older ------------------------------------------

/-- the state after a request was accepted through Echo recovery -/
theorem step_echo_state (cfg : Cfg) (s : State) (ev : Ev) (k : Nat)
    (ho : (step cfg s ev).2 = .accepted k true) :
    ∃ m', (step cfg s ev).1.mem = some m' ∧ m'.window = some (RW.freshlySeen cfg.size k) := by
  obtain ⟨d, mem⟩ := s
  cases mem with
  | none => cases ev <;> simp [step] at ho
  | some m =>
    cases ev with
    | load e => simp [step] at ho
    | kill => simp [step] at ho
    | cleanShutdown c => cases c <;> simp [step, cleanShutdown] at ho
    | protect c => exact absurd ho ((protect_frame cfg d m c).2.2.2 k true)
    | recv a c =>
      obtain ⟨win', o, hs, heq⟩ := recv_spec cfg d m a c
      simp only [step, heq] at ho ⊢
      unfold recvResult at ho ⊢
      cases c with
      | some j => split at ho <;> simp at ho
      | none =>
        have ho' : o = .accepted k true := by split at ho <;> simpa using ho
        subst ho'
        generalize hgen : Out.accepted k true = o' at hs
        cases hs with
        | refused oc => cases hgen
        | strike w w' hw hst => cases hgen
        | echo hw =>
          cases hgen
          simp [struck]

/-- after an acceptance through Echo recovery every smaller number is refused -/
theorem step_echo_blocks (cfg : Cfg) (s : State) (ev : Ev) (k n : Nat)
    (ho : (step cfg s ev).2 = .accepted k true) (hlt : n < k) :
    Blocked (curWindow cfg (step cfg s ev).1) n := by
  obtain ⟨m', hm', hw⟩ := step_echo_state cfg s ev k ho
  intro w hcur
  simp only [curWindow, hm', hw, Option.some.injEq] at hcur
  subst hcur
  rw [RW.isValid_eq]
  simp [RW.freshlySeen, hlt]


-- sender side: nonces built from own numbers -----------------------------------------------------

/-- sender-side ghost invariant: every own number encrypted with lies below the frontier, and the
own numbers in the log are strictly decreasing from the newest to the oldest -/
structure SeqInv (g : G) : Prop where
  invS : InvS g.s
  below : ∀ n, Nonce.own n ∈ g.log → n < frontier g.s
  sorted : (ownOf g.log).Pairwise (· > ·)

theorem gbase_seqInv (cfg : Cfg) (g : G) (ev : Ev) (h : SeqInv g) : SeqInv (gbase cfg g ev).1 := by
  have hseq := step_seq cfg g.s ev h.invS
  have hb := usedOwn_bounds cfg g.s ev h.invS
  refine ⟨hseq.1, ?_, ?_⟩
  · intro n hn
    simp only [gbase, List.mem_append, List.mem_map] at hn
    rcases hn with hk | hn
    · exact (hb n (by simpa using hk)).2.1
    · have := h.below n hn
      have := hseq.2.1
      simp only [gbase]; omega
  · simp only [gbase, ownOf_map_own_append]
    rw [List.pairwise_append]
    refine ⟨pairwise_of_length_le_one (usedOwn_length _ _ _), h.sorted, ?_⟩
    · intro a ha b hb'
      have := (hb a ha).1
      have := h.below b (mem_ownOf.mp hb')
      omega

theorem gstep_seqInv (cfg : Cfg) (g : G) (ev : GEv) (h : SeqInv g) : SeqInv (gstep cfg g ev).1 := by
  cases ev with
  | base ev => exact gbase_seqInv cfg g ev h
  | respond n crash =>
    simp only [gstep]
    cases hm : g.s.mem with
    | none => exact h
    | some m =>
      simp only
      by_cases hr : n ∈ g.reusable
      · simp only [hr, ↓reduceIte]
        cases crash with
        | none =>
          refine ⟨h.invS, ?_, ?_⟩
          · intro k hk
            simp only [List.mem_cons] at hk
            rcases hk with hk | hk
            · cases hk
            · exact h.below k hk
          · simpa [ownOf] using h.sorted
        | some j =>
          have hseq := step_seq cfg g.s .kill h.invS
          refine ⟨hseq.1, ?_, ?_⟩
          · intro k hk
            simp only [List.mem_cons] at hk
            rcases hk with hk | hk
            · cases hk
            · have := h.below k hk
              have := hseq.2.1
              simp only; omega
          · simpa [ownOf] using h.sorted
      · simp only [hr, ↓reduceIte]
        exact gbase_seqInv cfg g _ h

theorem grun_seqInv (cfg : Cfg) (evs : List GEv) (g : G) (h : SeqInv g) :
    SeqInv (grun cfg g evs).1 := by
  induction evs generalizing g with
  | nil => exact h
  | cons ev evs ih => exact ih _ (gstep_seqInv cfg g ev h)


-- all nonces: own numbers and re-used request nonces ------------------------------------------------

/-- the ghost invariant behind nonce uniqueness -/
structure GInv (cfg : Cfg) (g : G) : Prop where
  seq : SeqInv g
  invW : InvW cfg g.s
  nodup : g.log.Nodup
  /-- a request nonce was only ever used for a request that was accepted -/
  peerAcc : ∀ n, Nonce.peer n ∈ g.log → n ∈ g.acc
  /-- live request identifiers that may still re-use the nonce belong to accepted requests whose
  nonce has not been used -/
  reusable : ∀ n ∈ g.reusable, Nonce.peer n ∉ g.log ∧ n ∈ g.acc
  /-- no accepted number can be accepted from the window in force -/
  blocked : ∀ n ∈ g.acc, Blocked (curWindow cfg g.s) n

theorem GInv.init (cfg : Cfg) (d : Dir) : GInv cfg (G.init d) where
  seq := ⟨by intro m hm; simp [G.init] at hm, by intro n hn; simp [G.init] at hn, List.Pairwise.nil⟩
  invW := by intro m hm; simp [G.init] at hm
  nodup := List.nodup_nil
  peerAcc := by intro n hn; simp [G.init] at hn
  reusable := by intro n hn; simp [G.init] at hn
  blocked := by intro n hn; simp [G.init] at hn

theorem accOf_mem {o : Out} {n : Nat} : n ∈ accOf o ↔ ∃ v, o = .accepted n v := by
  cases o <;> simp [accOf, eq_comm]

theorem gbase_inv (cfg : Cfg) (hsz : 0 < cfg.size) (g : G) (ev : Ev) (h : GInv cfg g)
    (hf : ∀ k, (step cfg g.s ev).2 = .accepted k true → ∀ n ∈ g.acc, n < k) :
    GInv cfg (gbase cfg g ev).1 := by
  have hb := usedOwn_bounds cfg g.s ev h.seq.invS
  have hpeer : ∀ k, Nonce.peer k ∈ (gbase cfg g ev).1.log ↔ Nonce.peer k ∈ g.log := by
    intro k; simp [gbase]
  have hacc : (gbase cfg g ev).1.acc = accOf (step cfg g.s ev).2 ++ g.acc := rfl
  refine ⟨gbase_seqInv cfg g ev h.seq, step_invW cfg g.s ev h.invW, ?_, ?_, ?_, ?_⟩
  · -- nodup
    simp only [gbase]
    rw [List.nodup_append]
    refine ⟨?_, h.nodup, ?_⟩
    · exact nodup_of_length_le_one (by simpa using usedOwn_length _ _ _)
    · intro a ha b hb' heq
      subst heq
      simp only [List.mem_map] at ha
      obtain ⟨k, hk, rfl⟩ := ha
      have := (hb k hk).1
      have := h.seq.below k hb'
      omega
  · -- peerAcc
    intro n hn
    rw [hpeer] at hn
    rw [hacc, List.mem_append]
    exact Or.inr (h.peerAcc n hn)
  · -- reusable
    intro n hn
    rw [hpeer, hacc, List.mem_append]
    simp only [gbase, reusableAfter] at hn
    by_cases hdead : (step cfg g.s ev).1.mem.isNone = true
    · simp [hdead] at hn
    · simp only [hdead, Bool.false_eq_true, ↓reduceIte] at hn
      have old : n ∈ g.reusable → Nonce.peer n ∉ g.log ∧ (n ∈ accOf (step cfg g.s ev).2 ∨ n ∈ g.acc) :=
        fun hin => ⟨(h.reusable n hin).1, Or.inr (h.reusable n hin).2⟩
      cases ho : (step cfg g.s ev).2 with
      | accepted k v =>
        cases v with
        | true => rw [ho] at hn; rw [← ho]; exact old hn
        | false =>
          rw [ho] at hn
          simp only [List.mem_cons] at hn
          rcases hn with rfl | hn
          · refine ⟨?_, Or.inl (by simp [accOf])⟩
            intro hp
            exact step_blocked_not_struck cfg g.s ev n (h.blocked n (h.peerAcc n hp)) ho
          · rw [← ho]; exact old hn
      | _ => rw [ho] at hn; rw [← ho]; exact old hn
  · -- blocked
    intro n hn
    simp only [gbase, List.mem_append] at hn ⊢
    rcases hn with hn | hn
    · obtain ⟨v, ho⟩ := accOf_mem.mp hn
      exact (step_accept cfg hsz g.s ev h.invW n v ho).blocked
    · by_cases he : isEchoAccept (step cfg g.s ev).2 = true
      · cases ho : (step cfg g.s ev).2 with
        | accepted k v =>
          cases v with
          | true => exact step_echo_blocks cfg g.s ev k n ho (hf k ho n hn)
          | false => rw [ho] at he; simp [isEchoAccept] at he
        | _ => rw [ho] at he; simp [isEchoAccept] at he
      · exact step_blocked cfg g.s ev h.invW n (h.blocked n hn) (by simpa using he)

theorem gstep_inv (cfg : Cfg) (hsz : 0 < cfg.size) (g : G) (ev : GEv) (h : GInv cfg g)
    (hf : ∀ k, (gstep cfg g ev).2.1 = .base (.accepted k true) → ∀ n ∈ g.acc, n < k) :
    GInv cfg (gstep cfg g ev).1 := by
  cases ev with
  | base ev =>
    exact gbase_inv cfg hsz g ev h (fun k hk => hf k (by simp [gstep, gbase, hk]))
  | respond n crash =>
    have hs := gstep_seqInv cfg g (.respond n crash) h.seq
    simp only [gstep] at hf hs ⊢
    cases hm : g.s.mem with
    | none => simp only [hm]; exact h
    | some m =>
      simp only [hm] at hf hs ⊢
      by_cases hr : n ∈ g.reusable
      · simp only [hr, ↓reduceIte] at hs ⊢
        obtain ⟨hnot, hacc⟩ := h.reusable n hr
        have hnd : (Nonce.peer n :: g.log).Nodup := List.nodup_cons.mpr ⟨hnot, h.nodup⟩
        have hpa : ∀ k, Nonce.peer k ∈ Nonce.peer n :: g.log → k ∈ g.acc := by
          intro k hk
          simp only [List.mem_cons] at hk
          rcases hk with hk | hk
          · cases hk; exact hacc
          · exact h.peerAcc k hk
        cases crash with
        | none =>
          refine ⟨hs, h.invW, hnd, hpa, ?_, h.blocked⟩
          intro k hk
          simp only [List.mem_filter, bne_iff_ne, ne_eq] at hk
          obtain ⟨hk1, hk2⟩ := hk
          refine ⟨?_, (h.reusable k hk1).2⟩
          simp only [List.mem_cons, not_or]
          exact ⟨fun e => hk2 (by cases e; rfl), (h.reusable k hk1).1⟩
        | some j =>
          refine ⟨hs, step_invW cfg g.s .kill h.invW, hnd, hpa, ?_, ?_⟩
          · intro k hk; simp at hk
          intro k hk
          exact step_blocked cfg g.s .kill h.invW k (h.blocked k hk) (by
            obtain ⟨d, mem⟩ := g.s
            cases mem <;> simp [step, isEchoAccept])
      · simp only [hr, ↓reduceIte] at hf ⊢
        exact gbase_inv cfg hsz g _ h (fun k hk => hf k (by simp [gbase, hk]))

theorem grun_cons (cfg : Cfg) (g : G) (ev : GEv) (evs : List GEv) :
    grun cfg g (ev :: evs) =
      ((grun cfg (gstep cfg g ev).1 evs).1, (gstep cfg g ev).2.1 :: (grun cfg (gstep cfg g ev).1 evs).2) :=
  rfl

theorem grun_inv (cfg : Cfg) (hsz : 0 < cfg.size) (evs : List GEv) (g : G) (h : GInv cfg g)
    (hf : EchoFresh cfg g evs) : GInv cfg (grun cfg g evs).1 := by
  induction evs generalizing g with
  | nil => exact h
  | cons ev evs ih =>
    rw [grun_cons]
    exact ih _ (gstep_inv cfg hsz g ev h hf.1) hf.2


/-- executable form of `EchoFresh` (for concrete histories) -/
def echoFreshB (cfg : Cfg) : G → List GEv → Bool
  | _, [] => true
  | g, ev :: evs =>
    (match (gstep cfg g ev).2.1 with
     | .base (.accepted m true) => g.acc.all (· < m)
     | _ => true) && echoFreshB cfg (gstep cfg g ev).1 evs

theorem echoFresh_of_check (cfg : Cfg) (evs : List GEv) (g : G) (h : echoFreshB cfg g evs = true) :
    EchoFresh cfg g evs := by
  induction evs generalizing g with
  | nil => trivial
  | cons ev evs ih =>
    simp only [echoFreshB, Bool.and_eq_true] at h
    refine ⟨?_, ih _ h.2⟩
    intro m hm n hn
    have h1 := h.1
    rw [hm] at h1
    simp only [List.all_eq_true, decide_eq_true_eq] at h1
    exact h1 n hn

end Aiocoap.Oscore.Persist
