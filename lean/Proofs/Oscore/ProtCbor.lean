import AiocoapModel.Oscore.Aad
import Proofs.Oscore.ProtBytes
/-! Injectivity of the CBOR encodings that make up the OSCORE AAD. -/
namespace Aiocoap.Oscore.Prot

theorem cborHead_length_pos (m n : Nat) : 0 < (cborHead m n).length := by
  unfold cborHead; repeat' split
  all_goals simp

/-- a head determines its argument (below 2^64) and where it ends -/
theorem cborHead_append_inj {m n n' : Nat} {r r' : Bytes}
    (hn : n < 2 ^ 64) (hn' : n' < 2 ^ 64)
    (h : cborHead m n ++ r = cborHead m n' ++ r') : n = n' ∧ r = r' := by
  have two (a b : Nat) (ha : a < 256 ^ 2) (hb : b < 256 ^ 2) (h : natToBE 2 a ++ r = natToBE 2 b ++ r') :
      a = b ∧ r = r' := by
    have := List.append_inj h (by simp [natToBE_length])
    exact ⟨natToBE_inj ha hb this.1, this.2⟩
  have four (a b : Nat) (ha : a < 256 ^ 4) (hb : b < 256 ^ 4) (h : natToBE 4 a ++ r = natToBE 4 b ++ r') :
      a = b ∧ r = r' := by
    have := List.append_inj h (by simp [natToBE_length])
    exact ⟨natToBE_inj ha hb this.1, this.2⟩
  have eight (a b : Nat) (ha : a < 256 ^ 8) (hb : b < 256 ^ 8) (h : natToBE 8 a ++ r = natToBE 8 b ++ r') :
      a = b ∧ r = r' := by
    have := List.append_inj h (by simp [natToBE_length])
    exact ⟨natToBE_inj ha hb this.1, this.2⟩
  unfold cborHead at h
  by_cases c1 : n < 24 <;> by_cases d1 : n' < 24 <;> simp only [c1, d1, if_true, if_false] at h
  · simp at h <;> omega
  · by_cases d2 : n' < 256 <;> simp only [d2, if_true, if_false] at h
    · simp at h <;> omega
    · by_cases d3 : n' < 65536 <;> simp only [d3, if_true, if_false] at h
      · simp at h <;> omega
      · by_cases d4 : n' < 4294967296 <;> simp only [d4, if_true, if_false] at h <;> (simp at h <;> omega)
  · by_cases c2 : n < 256 <;> simp only [c2, if_true, if_false] at h
    · simp at h <;> omega
    · by_cases c3 : n < 65536 <;> simp only [c3, if_true, if_false] at h
      · simp at h <;> omega
      · by_cases c4 : n < 4294967296 <;> simp only [c4, if_true, if_false] at h <;> (simp at h <;> omega)
  · by_cases c2 : n < 256 <;> by_cases d2 : n' < 256 <;> simp only [c2, d2, if_true, if_false] at h
    · simp at h; exact ⟨h.1, h.2⟩
    · by_cases d3 : n' < 65536 <;> simp only [d3, if_true, if_false] at h
      · simp at h <;> omega
      · by_cases d4 : n' < 4294967296 <;> simp only [d4, if_true, if_false] at h <;> (simp at h <;> omega)
    · by_cases c3 : n < 65536 <;> simp only [c3, if_true, if_false] at h
      · simp at h <;> omega
      · by_cases c4 : n < 4294967296 <;> simp only [c4, if_true, if_false] at h <;> (simp at h <;> omega)
    · by_cases c3 : n < 65536 <;> by_cases d3 : n' < 65536 <;> simp only [c3, d3, if_true, if_false] at h
      · simp only [List.cons_append, List.cons.injEq, true_and] at h
        exact two n n' (by omega) (by omega) h
      · by_cases d4 : n' < 4294967296 <;> simp only [d4, if_true, if_false] at h <;> (simp at h <;> omega)
      · by_cases c4 : n < 4294967296 <;> simp only [c4, if_true, if_false] at h <;> (simp at h <;> omega)
      · by_cases c4 : n < 4294967296 <;> by_cases d4 : n' < 4294967296 <;>
          simp only [c4, d4, if_true, if_false] at h
        · simp only [List.cons_append, List.cons.injEq, true_and] at h
          exact four n n' (by omega) (by omega) h
        · simp at h <;> omega
        · simp at h <;> omega
        · simp only [List.cons_append, List.cons.injEq, true_and] at h
          exact eight n n' (by omega) (by omega) h

/-- a byte string item determines its content and where it ends -/
theorem cborBstr_append_inj {b b' r r' : Bytes} (hb : b.length < 2 ^ 64) (hb' : b'.length < 2 ^ 64)
    (h : cborBstr b ++ r = cborBstr b' ++ r') : b = b' ∧ r = r' := by
  simp only [cborBstr, List.append_assoc] at h
  obtain ⟨hl, h2⟩ := cborHead_append_inj hb hb' h
  have := List.append_inj h2 hl
  exact this

theorem externalAad_inj {alg : Nat} {kid piv kid' piv' : Bytes}
    (hk : kid.length < 2 ^ 64) (hp : piv.length < 2 ^ 64)
    (hk' : kid'.length < 2 ^ 64) (hp' : piv'.length < 2 ^ 64)
    (h : externalAad alg kid piv = externalAad alg kid' piv') : kid = kid' ∧ piv = piv' := by
  simp only [externalAad, cborArr, List.flatten_cons, List.flatten_nil, List.append_assoc,
    List.length_cons, List.length_nil, List.append_nil] at h
  have h1 := List.append_cancel_left h
  have h2 := List.append_cancel_left h1
  have h3 := List.append_cancel_left h2
  have h4 := List.append_cancel_left h3
  obtain ⟨e1, h5⟩ := cborBstr_append_inj hk hk' h4
  obtain ⟨e2, _⟩ := cborBstr_append_inj hp hp' h5
  exact ⟨e1, e2⟩

theorem cborHead_length_le (m n : Nat) : (cborHead m n).length ≤ 9 := by
  unfold cborHead; repeat' split
  all_goals simp [natToBE_length]

theorem externalAad_length_lt {alg : Nat} {kid piv : Bytes}
    (hk : kid.length < 2 ^ 32) (hp : piv.length < 2 ^ 32) :
    (externalAad alg kid piv).length < 2 ^ 64 := by
  simp only [externalAad, cborArr, cborBstr, cborUint, List.flatten_cons, List.flatten_nil,
    List.length_append, List.length_cons, List.length_nil]
  have := cborHead_length_le 4 (0 + 1 + 1 + 1 + 1 + 1)
  have := cborHead_length_le 0 1
  have := cborHead_length_le 4 (0 + 1)
  have := cborHead_length_le 0 alg
  have := cborHead_length_le 2 kid.length
  have := cborHead_length_le 2 piv.length
  have := cborHead_length_le 2 0
  omega

theorem encrypt0Aad_inj {e e' : Bytes} (he : e.length < 2 ^ 64) (he' : e'.length < 2 ^ 64)
    (h : encrypt0Aad e = encrypt0Aad e') : e = e' := by
  simp only [encrypt0Aad, cborArr, List.flatten_cons, List.flatten_nil, List.append_nil] at h
  have h1 := List.append_cancel_left h
  have h2 := List.append_cancel_left h1
  have h3 := List.append_cancel_left h2
  have := cborBstr_append_inj (r := []) (r' := []) he he' (by simpa using h3)
  exact this.1

/-- **the AAD determines the request identifiers it was built from** -/
theorem aad_inj {alg : Nat} {kid piv kid' piv' : Bytes}
    (hk : kid.length < 2 ^ 32) (hp : piv.length < 2 ^ 32)
    (hk' : kid'.length < 2 ^ 32) (hp' : piv'.length < 2 ^ 32)
    (h : aad alg kid piv = aad alg kid' piv') : kid = kid' ∧ piv = piv' := by
  have two : (2:Nat) ^ 32 < 2 ^ 64 := by decide
  exact externalAad_inj (by omega) (by omega) (by omega) (by omega)
    (encrypt0Aad_inj (externalAad_length_lt hk hp) (externalAad_length_lt hk' hp') h)

end Aiocoap.Oscore.Prot
