import AiocoapModel.Oscore.Inner
/-! The inner-message codec: `decodeOpts ∘ encodeOpts` and `parsePlaintext ∘ buildPlaintext`. -/
namespace Aiocoap.Oscore.Prot

theorem readExt_writeExt {v nib : Nat} {ext rest : Bytes} (h : writeExt v = some (nib, ext)) :
    readExt nib (ext ++ rest) = some (v, rest) ∧ nib ≤ 14 := by
  unfold writeExt at h
  split at h
  · cases h; simp [readExt, *]; omega
  · split at h
    · cases h
      simp only [readExt]
      refine ⟨?_, by omega⟩
      simp
      omega
    · split at h
      · cases h
        simp only [readExt]
        refine ⟨?_, by omega⟩
        simp
        omega
      · cases h

/-- unfolding of `decodeOpts` without the termination bookkeeping -/
theorem decodeOpts_cons (prev b : Nat) (rest : Bytes) :
    decodeOpts prev (b :: rest) =
      if b = 255 then some ([], rest) else
      match readExt (b / 16 % 16) rest with
      | none => none
      | some (delta, r1) =>
        match readExt (b % 16) r1 with
        | none => none
        | some (len, r2) =>
          if r2.length < len then none else
          match decodeOpts (prev + delta) (r2.drop len) with
          | none => none
          | some (os, pl) => some ((prev + delta, r2.take len) :: os, pl) := by
  rw [decodeOpts]
  by_cases hb : b = 255
  · simp [hb]
  · simp only [hb, if_false]
    cases h1 : readExt (b / 16 % 16) rest with
    | none => simp
    | some x =>
      obtain ⟨delta, r1⟩ := x
      simp only
      cases h2 : readExt (b % 16) r1 with
      | none => simp
      | some y =>
        obtain ⟨len, r2⟩ := y
        rfl

/-- what `decodeOpts` reports as the body for a well-formed tail -/
def tailPayload : Bytes → Bytes
  | [] => []
  | _ :: p => p

/-- the tail after the options is either nothing or a payload marker and the payload -/
def GoodTail (t : Bytes) : Prop := t = [] ∨ ∃ p, t = 255 :: p

theorem decodeOpts_tail {prev : Nat} {t : Bytes} (ht : GoodTail t) :
    decodeOpts prev t = some ([], tailPayload t) := by
  rcases ht with rfl | ⟨p, rfl⟩
  · rw [decodeOpts]; rfl
  · rw [decodeOpts_cons]; simp [tailPayload]

theorem decodeOpts_encodeOpts : ∀ (opts : List Opt) (prev : Nat) (e t : Bytes),
    encodeOpts prev opts = some e → GoodTail t →
    decodeOpts prev (e ++ t) = some (opts, tailPayload t)
  | [], prev, e, t, h, ht => by
    simp only [encodeOpts, Option.some.injEq] at h
    subst h
    simpa using decodeOpts_tail ht
  | (n, v) :: rest, prev, e, t, h, ht => by
    simp only [encodeOpts] at h
    split at h
    · cases h
    · rename_i hge
      split at h
      · rename_i d de l le r hd hl hr
        cases h
        obtain ⟨rd, hd14⟩ := readExt_writeExt (rest := le ++ v ++ r ++ t) hd
        obtain ⟨rl, hl14⟩ := readExt_writeExt (rest := v ++ r ++ t) hl
        have ih := decodeOpts_encodeOpts rest n r t hr ht
        rw [List.cons_append, decodeOpts_cons]
        have hb : ¬ (d * 16 + l = 255) := by omega
        have hdn : (d * 16 + l) / 16 % 16 = d := by omega
        have hln : (d * 16 + l) % 16 = l := by omega
        simp only [hb, if_false, hdn, hln]
        have e1 : de ++ le ++ v ++ r ++ t = de ++ (le ++ v ++ r ++ t) := by simp
        have e2 : le ++ v ++ r ++ t = le ++ (v ++ r ++ t) := by simp
        rw [e1, rd]
        simp only
        rw [e2, rl]
        simp only
        have hlen : ¬ (v ++ r ++ t).length < v.length := by simp
        rw [if_neg hlen]
        have hdrop : (v ++ r ++ t).drop v.length = r ++ t := by simp
        have htake : (v ++ r ++ t).take v.length = v := by simp
        have hnum : prev + (n - prev) = n := by omega
        rw [hdrop, htake, hnum, ih]
      · cases h

theorem goodTail_payloadTail (p : Bytes) : GoodTail (payloadTail p) := by
  unfold payloadTail
  split
  · exact Or.inl rfl
  · exact Or.inr ⟨p, rfl⟩

theorem tailPayload_payloadTail (p : Bytes) : tailPayload (payloadTail p) = p := by
  unfold payloadTail
  cases p with
  | nil => rfl
  | cons x xs => simp [tailPayload]

/-- **inner round trip**: the recipient parses exactly the code, options and payload the
sender serialised -/
theorem parsePlaintext_buildPlaintext {code : Nat} {opts : List Opt} {payload pt : Bytes}
    (h : buildPlaintext code opts payload = some pt) :
    parsePlaintext pt = some { code, opts, payload } := by
  unfold buildPlaintext at h
  split at h
  · rename_i e he
    cases h
    simp only [parsePlaintext]
    rw [decodeOpts_encodeOpts opts 0 e _ he (goodTail_payloadTail payload),
      tailPayload_payloadTail]
  · cases h

theorem buildPlaintext_ne_nil {code : Nat} {opts : List Opt} {payload pt : Bytes}
    (h : buildPlaintext code opts payload = some pt) : 1 ≤ pt.length := by
  unfold buildPlaintext at h
  split at h
  · cases h; simp
  · cases h

end Aiocoap.Oscore.Prot
