import Proofs.Codec.Bytes
import Proofs.Codec.Utf8
/-! Option value codecs against the RFC reading of a value (`Rfc7252.ValSpec`). -/
namespace Aiocoap.Codec

open Rfc7252

/-- a value the decoder yields is the one the RFC assigns to the bytes -/
theorem valDecode_valSpec {f : Fmt} {b : Bytes} {v : OptVal} (h : valDecode f b = .ok v) :
    ValSpec f b v := by
  cases f with
  | string =>
    simp only [valDecode] at h
    split at h
    · cases h; exact .string ((utf8Valid_iff _).1 ‹_›)
    · cases h
  | «opaque» => simp only [valDecode] at h; cases h; exact .opaque
  | uint => simp only [valDecode] at h; cases h; rw [← beValue_eq]; exact .uint
  | contentFormat => simp only [valDecode] at h; cases h; rw [← beValue_eq]; exact .contentFormat
  | block =>
    simp only [valDecode] at h; cases h
    refine .block (by omega) ?_
    rw [beValue_eq]
    by_cases hm : beToNat b / 8 % 2 = 1
    · simp [hm]; omega
    · simp [hm]; omega

/-- the decoder yields the value the RFC assigns -/
theorem valSpec_valDecode {f : Fmt} {b : Bytes} {v : OptVal} (h : ValSpec f b v) :
    valDecode f b = .ok v := by
  cases h with
  | string hu => simp [valDecode, (utf8Valid_iff _).2 hu]
  | «opaque» => rfl
  | uint => simp [valDecode, beValue_eq]
  | contentFormat => simp [valDecode, beValue_eq]
  | @block b num szx more hs hv =>
    rw [beValue_eq] at hv
    simp only [valDecode, hv]
    cases more
    · have h1 : (num * 16 + (if false = true then 8 else 0) + szx) / 16 = num := by simp; omega
      have h2 : (num * 16 + (if false = true then 8 else 0) + szx) % 8 = szx := by simp; omega
      have h3 : ((num * 16 + (if false = true then 8 else 0) + szx) / 8 % 2 == 1) = false := by
        simp; omega
      rw [h1, h2, h3]
    · have h1 : (num * 16 + (if true = true then 8 else 0) + szx) / 16 = num := by simp; omega
      have h2 : (num * 16 + (if true = true then 8 else 0) + szx) % 8 = szx := by simp; omega
      have h3 : ((num * 16 + (if true = true then 8 else 0) + szx) / 8 % 2 == 1) = true := by
        simp; omega
      rw [h1, h2, h3]

theorem valSpec_iff_valDecode (f : Fmt) (b : Bytes) (v : OptVal) :
    ValSpec f b v ↔ valDecode f b = .ok v := ⟨valSpec_valDecode, valDecode_valSpec⟩

/-- serialising a legal value gives bytes the RFC reads back as that value -/
theorem legal_valSpec {f : Fmt} {v : OptVal} (h : v.legal f) : ValSpec f (valEncode v) v := by
  cases f <;> cases v <;> simp only [OptVal.legal] at h <;> simp only [valEncode]
  · exact .string ((utf8Valid_iff _).1 h.1)
  · exact .opaque
  · rename_i n
    have := @ValSpec.uint (natToMinBE n)
    rwa [beValue_eq, beToNat_natToMinBE] at this
  · exact .block h (by rw [beValue_eq, beToNat_natToMinBE])
  · rename_i n
    have := @ValSpec.contentFormat (natToMinBE n)
    rwa [beValue_eq, beToNat_natToMinBE] at this

theorem legal_encode_wf {f : Fmt} {v : OptVal} (h : v.legal f) : (valEncode v).wf := by
  cases f <;> cases v <;> simp only [OptVal.legal] at h <;> simp only [valEncode]
  · exact h.2
  · exact h
  · exact natToMinBE_wf _
  · exact natToMinBE_wf _
  · exact natToMinBE_wf _

/-- value-level round trip: `decode(encode(v)) = v` for every legal value -/
theorem valDecode_valEncode {f : Fmt} {v : OptVal} (h : v.legal f) :
    valDecode f (valEncode v) = .ok v := valSpec_valDecode (legal_valSpec h)

/-- every value the RFC assigns to (well-formed) bytes is legal for the format -/
theorem valSpec_legal {f : Fmt} {b : Bytes} {v : OptVal} (h : ValSpec f b v) (hw : b.wf) :
    v.legal f := by
  cases h with
  | string hu => exact ⟨(utf8Valid_iff _).2 hu, hw⟩
  | «opaque» => exact hw
  | uint => trivial
  | contentFormat => trivial
  | block hs _ => exact hs

/-- … and its canonical serialisation is not longer than the bytes it was read from
(non-minimal integers normalise) -/
theorem valSpec_encode_length_le {f : Fmt} {b : Bytes} {v : OptVal} (h : ValSpec f b v)
    (hw : b.wf) : (valEncode v).length ≤ b.length := by
  cases h with
  | string hu => exact Nat.le_refl _
  | «opaque» => exact Nat.le_refl _
  | uint => simp only [valEncode, beValue_eq]; exact natToMinBE_beToNat_length_le hw
  | contentFormat => simp only [valEncode, beValue_eq]; exact natToMinBE_beToNat_length_le hw
  | block hs hv => simp only [valEncode, ← hv, beValue_eq]; exact natToMinBE_beToNat_length_le hw

/-- re-encoding a decoded value and decoding again is the identity on values
(`valEncode ∘ valDecode` is a canonicalisation) -/
theorem valDecode_canonical {f : Fmt} {b : Bytes} {v : OptVal} (hw : b.wf)
    (h : valDecode f b = .ok v) : valDecode f (valEncode v) = .ok v :=
  valDecode_valEncode (valSpec_legal (valDecode_valSpec h) hw)

/-- strings and opaque values are reproduced byte for byte -/
theorem valEncode_valDecode_bytes {f : Fmt} {b : Bytes} {v : OptVal}
    (hf : f = .string ∨ f = .opaque) (h : valDecode f b = .ok v) : valEncode v = b := by
  rcases hf with rfl | rfl
  · simp only [valDecode] at h
    split at h
    · cases h; rfl
    · cases h
  · simp only [valDecode] at h; cases h; rfl

/-- the value decoders can only fail on a string option, with `UnicodeDecodeError` -/
theorem valDecode_error_only_string {f : Fmt} {b : Bytes} {e : ValErr}
    (h : valDecode f b = .error e) : f = .string ∧ utf8Valid b = false := by
  cases f <;> simp only [valDecode] at h <;> try cases h
  split at h
  · cases h
  · rename_i hv
    exact ⟨rfl, by simpa using hv⟩

end Aiocoap.Codec
