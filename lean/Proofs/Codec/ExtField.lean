import AiocoapModel.Codec.Rfc7252
/-! Extended option delta/length fields: writer, reader and the RFC 7252 §3.1 relation. -/
namespace Aiocoap.Codec

open Rfc7252

/-- the writer succeeds exactly on 0..65804 (the range the reader can produce) -/
theorem writeExt_isSome_iff (v : Nat) : (writeExt v).isSome = true ↔ v ≤ 65804 := by
  unfold writeExt
  split
  · simp; omega
  · split
    · simp; omega
    · split
      · simp; omega
      · simp; omega

theorem writeExt_some_of_le {v : Nat} (h : v ≤ 65804) : ∃ nib ext, writeExt v = some (nib, ext) := by
  have := (writeExt_isSome_iff v).2 h
  cases hw : writeExt v with
  | none => rw [hw] at this; cases this
  | some p => exact ⟨p.1, p.2, rfl⟩

/-- what the writer produces is an RFC extended field of the value -/
theorem writeExt_extField {v nib : Nat} {ext : Bytes} (h : writeExt v = some (nib, ext)) :
    ExtField v nib ext := by
  unfold writeExt at h
  split at h
  · cases h; exact .direct (by omega)
  · split at h
    · cases h
      have : v = (v - 13) + 13 := by omega
      rw (occs := [1]) [this]
      exact .ext8 (by omega)
    · split at h
      · cases h
        have : v = (v - 269) / 256 * 256 + (v - 269) % 256 + 269 := by omega
        rw (occs := [1]) [this]
        exact .ext16 (by omega) (by omega)
      · cases h

/-- the reader reads back any RFC extended field, whatever follows it -/
theorem extField_readExt {v nib : Nat} {ext : Bytes} (h : ExtField v nib ext) (rest : Bytes) :
    readExt nib (ext ++ rest) = some (v, rest) := by
  cases h with
  | direct h => simp [readExt]; omega
  | ext8 h => simp [readExt]
  | ext16 h0 h1 => simp [readExt]

theorem extField_nib_le {v nib : Nat} {ext : Bytes} (h : ExtField v nib ext) : nib ≤ 14 := by
  cases h <;> omega

theorem extField_value_le {v nib : Nat} {ext : Bytes} (h : ExtField v nib ext) : v ≤ 65804 := by
  cases h <;> omega

theorem extField_wf {v nib : Nat} {ext : Bytes} (h : ExtField v nib ext) : ext.wf := by
  cases h with
  | direct h => exact Bytes.wf_nil
  | ext8 h => intro x hx; simp at hx; omega
  | ext16 h0 h1 => intro x hx; simp at hx; omega

/-- whatever the reader accepts (from a 4-bit field and actual bytes) is an RFC extended field
of the value it returns, and the reader consumed exactly its extension bytes -/
theorem readExt_extField {nib : Nat} {raw rest : Bytes} {v : Nat} (hw : raw.wf)
    (h : readExt nib raw = some (v, rest)) : ∃ ext, raw = ext ++ rest ∧ ExtField v nib ext := by
  unfold readExt at h
  by_cases h13 : nib < 13
  · simp only [h13, if_true, Option.some.injEq, Prod.mk.injEq] at h
    obtain ⟨rfl, rfl⟩ := h
    exact ⟨[], rfl, .direct (by omega)⟩
  · by_cases e13 : nib = 13
    · subst e13
      cases raw with
      | nil => simp at h
      | cons b r =>
        simp at h
        obtain ⟨rfl, rfl⟩ := h
        exact ⟨[b], rfl, .ext8 (hw b (by simp))⟩
    · by_cases e14 : nib = 14
      · subst e14
        match raw, hw, h with
        | [], _, h => simp at h
        | [_], _, h => simp at h
        | b0 :: b1 :: r, hw, h =>
          simp at h
          obtain ⟨rfl, rfl⟩ := h
          exact ⟨[b0, b1], rfl, .ext16 (hw b0 (by simp)) (hw b1 (by simp))⟩
      · simp [h13, e13, e14] at h

/-- reader ∘ writer = id (the round trip of `_write/_read_extended_field_value`) -/
theorem readExt_writeExt {v nib : Nat} {ext : Bytes} (h : writeExt v = some (nib, ext))
    (rest : Bytes) : readExt nib (ext ++ rest) = some (v, rest) :=
  extField_readExt (writeExt_extField h) rest

end Aiocoap.Codec
